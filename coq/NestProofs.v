(* NestProofs.v -- C16, nesting clause: the answers a probe interceptor gets from
   CurrentContext() / IsInFunction() equal the syntactic nesting (NestSpec) of the token the
   parser is at.

   1. parser side: by induction on fuel over every Parse* function (any interceptor lists),
      for a step that records no error: every event it logs is "covered" by the nesting
      list of the tree it returns, under the flags of the context stack it started with;
   2. grammar side: the tokens listed by nest_program p occur in the matched token list at
      least as often (counting), hence at most once when the token list has no duplicates;
   3. assembly with completeness (GrammarProofs.parse_complete) and the transparency of
      interceptors (InterceptProofs.interceptors_transparent);
   4. lexer side: start positions strictly increase, so lexed tokens are pairwise different. *)
From Coq Require Import ZifyBool ZifyN ZifyNat Lia.
Require Import Base GoOps Token Lexer LexSpec Tree Parser ParserSpec Grammar NestSpec.
Require Import Gen.Tables.
Require Import LexerProofs ParserProofs ContractProofs InterceptProofs GrammarProofs.

(* ------------------------------------------------------------------ *)
(* 0. unfolding equations of NestSpec                                  *)
(* ------------------------------------------------------------------ *)

Notation nsts := (nest_stmts nest_stmt).

Definition nest_exprs (b f : bool) : list expr -> list nt :=
  fix exprs (es : list expr) : list nt :=
    match es with [] => [] | x :: es' => nest_expr b f x ++ exprs es' end.

Definition nest_props (b f : bool) : list (expr * expr) -> list nt :=
  fix props (ps : list (expr * expr)) : list nt :=
    match ps with [] => [] | (k, v) :: ps' => nest_expr b f k ++ nest_expr b f v ++ props ps' end.

Definition nest_name (b f : bool) (name : option ident) : list nt :=
  match name with Some i => [(id_tok i, b, f)] | None => [] end.

Lemma nest_ENil b f : nest_expr b f ENil = []. Proof. reflexivity. Qed.
Lemma nest_EIdent b f i : nest_expr b f (EIdent i) = [(id_tok i, b, f)]. Proof. reflexivity. Qed.
Lemma nest_EInt b f t : nest_expr b f (EInt t) = [(t, b, f)]. Proof. reflexivity. Qed.
Lemma nest_EFloat b f t : nest_expr b f (EFloat t) = [(t, b, f)]. Proof. reflexivity. Qed.
Lemma nest_EString b f t v : nest_expr b f (EString t v) = [(t, b, f)]. Proof. reflexivity. Qed.
Lemma nest_ERaw b f t v : nest_expr b f (ERaw t v) = [(t, b, f)]. Proof. reflexivity. Qed.
Lemma nest_EBool b f t v : nest_expr b f (EBool t v) = [(t, b, f)]. Proof. reflexivity. Qed.
Lemma nest_ENull b f t : nest_expr b f (ENull t) = [(t, b, f)]. Proof. reflexivity. Qed.
Lemma nest_ELet b f t n v : nest_expr b f (ELet t n v) = (t, b, f) :: (id_tok n, b, f) :: nest_expr b f v.
Proof. reflexivity. Qed.
Lemma nest_EBinary b f t l op r :
  nest_expr b f (EBinary t l op r) = nest_expr b f l ++ (t, b, f) :: nest_expr b f r.
Proof. reflexivity. Qed.
Lemma nest_EUnary b f t op r : nest_expr b f (EUnary t op r) = (t, b, f) :: nest_expr b f r.
Proof. reflexivity. Qed.
Lemma nest_EPostfix b f t l op : nest_expr b f (EPostfix t l op) = nest_expr b f l ++ [(t, b, f)].
Proof. reflexivity. Qed.
Lemma nest_EGroup b f t x rp : nest_expr b f (EGroup t x rp) = (t, b, f) :: nest_expr b f x ++ [(rp, b, f)].
Proof. reflexivity. Qed.
Lemma nest_ECall b f t fn args :
  nest_expr b f (ECall t fn args) = nest_expr b f fn ++ (t, b, f) :: nest_exprs b f args.
Proof. reflexivity. Qed.
Lemma nest_EMember b f t o p c :
  nest_expr b f (EMember t o p c) = nest_expr b f o ++ (t, b, f) :: nest_expr b f p.
Proof. reflexivity. Qed.
Lemma nest_EAssign b f t l v : nest_expr b f (EAssign t l v) = nest_expr b f l ++ (t, b, f) :: nest_expr b f v.
Proof. reflexivity. Qed.
Lemma nest_ECompound b f t l op v :
  nest_expr b f (ECompound t l op v) = nest_expr b f l ++ (t, b, f) :: nest_expr b f v.
Proof. reflexivity. Qed.
Lemma nest_EFunc b f t name params body :
  nest_expr b f (EFunc t name params body)
  = (t, b, f) :: nest_name b f name ++ nest_idents b f params ++ nest_stmt b true body.
Proof. reflexivity. Qed.
Lemma nest_EArray b f t es rb : nest_expr b f (EArray t es rb) = (t, b, f) :: nest_exprs b f es ++ [(rb, b, f)].
Proof. reflexivity. Qed.
Lemma nest_EObject b f t ps rb : nest_expr b f (EObject t ps rb) = (t, b, f) :: nest_props b f ps ++ [(rb, b, f)].
Proof. reflexivity. Qed.

Lemma nest_SNil b f : nest_stmt b f SNil = []. Proof. reflexivity. Qed.
Lemma nest_SLet b f t n v : nest_stmt b f (SLet t n v) = (t, b, f) :: (id_tok n, b, f) :: nest_expr b f v.
Proof. reflexivity. Qed.
Lemma nest_SReturn b f t v : nest_stmt b f (SReturn t v) = (t, b, f) :: nest_expr b f v.
Proof. reflexivity. Qed.
Lemma nest_SExpr b f e : nest_stmt b f (SExpr e) = nest_expr b f e. Proof. reflexivity. Qed.
Lemma nest_SFunc b f t name params body :
  nest_stmt b f (SFunc t name params body)
  = (t, b, f) :: (id_tok name, b, f) :: nest_idents b f params ++ nest_stmt b true body.
Proof. reflexivity. Qed.
Lemma nest_SBlock b f t ss rb : nest_stmt b f (SBlock t ss rb) = (t, b, f) :: nsts true f ss ++ [(rb, b, f)].
Proof. reflexivity. Qed.
Lemma nest_SIf b f t c thn els :
  nest_stmt b f (SIf t c thn els) = (t, b, f) :: nest_expr b f c ++ nest_stmt b f thn ++ nest_stmt b f els.
Proof. reflexivity. Qed.
Lemma nest_SWhile b f t c body : nest_stmt b f (SWhile t c body) = (t, b, f) :: nest_expr b f c ++ nest_stmt b f body.
Proof. reflexivity. Qed.
Lemma nest_SFor b f t i c u body :
  nest_stmt b f (SFor t i c u body)
  = (t, b, f) :: nest_expr b f i ++ nest_expr b f c ++ nest_expr b f u ++ nest_stmt b f body.
Proof. reflexivity. Qed.

Lemma nest_exprs_nil b f : nest_exprs b f [] = []. Proof. reflexivity. Qed.
Lemma nest_exprs_cons b f e es : nest_exprs b f (e :: es) = nest_expr b f e ++ nest_exprs b f es.
Proof. reflexivity. Qed.
Lemma nest_exprs_app b f a : forall c, nest_exprs b f (a ++ c) = nest_exprs b f a ++ nest_exprs b f c.
Proof.
  induction a as [|e a IH]; intro c; [reflexivity|].
  rewrite <- app_comm_cons, !nest_exprs_cons, IH, app_assoc. reflexivity.
Qed.
Lemma nest_props_nil b f : nest_props b f [] = []. Proof. reflexivity. Qed.
Lemma nest_props_cons b f k v ps :
  nest_props b f ((k, v) :: ps) = nest_expr b f k ++ nest_expr b f v ++ nest_props b f ps.
Proof. reflexivity. Qed.
Lemma nest_props_app b f a : forall c, nest_props b f (a ++ c) = nest_props b f a ++ nest_props b f c.
Proof.
  induction a as [|[k v] a IH]; intro c; [reflexivity|].
  rewrite <- app_comm_cons, !nest_props_cons, IH, !app_assoc. reflexivity.
Qed.
Lemma nsts_nil b f : nsts b f [] = []. Proof. reflexivity. Qed.
Lemma nsts_cons b f s ss : nsts b f (s :: ss) = nest_stmt b f s ++ nsts b f ss. Proof. reflexivity. Qed.
Lemma nsts_app b f a : forall c, nsts b f (a ++ c) = nsts b f a ++ nsts b f c.
Proof.
  induction a as [|s a IH]; intro c; [reflexivity|].
  rewrite <- app_comm_cons, !nsts_cons, IH, app_assoc. reflexivity.
Qed.
Lemma nsts_snoc b f acc st :
  nsts b f (if is_snil st then acc else acc ++ [st]) = nsts b f acc ++ nest_stmt b f st.
Proof.
  destruct st; cbn [is_snil]; try (rewrite nsts_app, nsts_cons, nsts_nil, app_nil_r; reflexivity).
  rewrite nest_SNil, app_nil_r. reflexivity.
Qed.

Create HintDb nest.
#[export] Hint Rewrite nest_ENil nest_EIdent nest_EInt nest_EFloat nest_EString nest_ERaw nest_EBool nest_ENull
  nest_ELet nest_EBinary nest_EUnary nest_EPostfix nest_EGroup nest_ECall nest_EMember nest_EAssign
  nest_ECompound nest_EFunc nest_EArray nest_EObject
  nest_SNil nest_SLet nest_SReturn nest_SExpr nest_SFunc nest_SBlock nest_SIf nest_SWhile nest_SFor
  nest_exprs_nil nest_exprs_cons nest_exprs_app nest_props_nil nest_props_cons nest_props_app
  nsts_nil nsts_cons nsts_app nsts_snoc : nest.

Arguments nest_expr : simpl never.
Arguments nest_stmt : simpl never.

(* ------------------------------------------------------------------ *)
(* 1. events covered by a nesting list                                 *)
(* ------------------------------------------------------------------ *)

Definition ctx_code (b : bool) : Z := if b then P_BlockContext else P_GlobalContext.

(* the event's token is a real token (not the zero token the parser stores as the closing
   brace of an empty object literal), listed with the flags the event answered *)
Definition evok (L : list nt) (ev : pevent) : Prop :=
  t_type (ev_tok ev) <> 0 /\
  exists b f, In (ev_tok ev, b, f) L /\ ev_ctx ev = ctx_code b /\ ev_infn ev = f.

Definition cov (L : list nt) (l : list pevent) : Prop := Forall (evok L) l.

(* whatever covers N and the log before covers the log after *)
Definition transl (N : list nt) (l l' : list pevent) : Prop :=
  forall L, incl N L -> cov L l -> cov L l'.

Lemma transl_refl N l : transl N l l.
Proof. intros L _ H. exact H. Qed.

(* the flags of a context stack *)
Definition cflags (c : list Z) (b f : bool) : Prop :=
  last c P_GlobalContext = ctx_code b /\ memZ P_FunctionContext c = f.

Lemma memZ_app x a : forall c, memZ x (a ++ c) = memZ x a || memZ x c.
Proof.
  induction a as [|y a IH]; intro c; cbn [app memZ]; [reflexivity|].
  rewrite IH, orb_assoc. reflexivity.
Qed.

Lemma cflags_push_block c f : memZ P_FunctionContext c = f -> cflags (c ++ [P_BlockContext]) true f.
Proof.
  intro H. split.
  - rewrite last_last. reflexivity.
  - rewrite memZ_app, H. cbn. rewrite orb_false_r. reflexivity.
Qed.

Lemma infn_push_function c : memZ P_FunctionContext (c ++ [P_FunctionContext]) = true.
Proof. rewrite memZ_app. cbn. rewrite orb_true_r. reflexivity. Qed.

Lemma cov_probe L s id k b f :
  t_type (ps_cur s) <> 0 -> In (ps_cur s, b, f) L -> cflags (ps_ctx s) b f ->
  cov L (ps_log s) -> cov L (ps_log (log_event s id k)).
Proof.
  intros Ht Hin [Hc Hf] H. unfold log_event. cbn [ps_log]. apply Forall_app. split; [exact H|].
  constructor; [|constructor]. split; [exact Ht|]. exists b, f. cbn [ev_tok ev_ctx ev_infn].
  split; [exact Hin|]. split; [exact Hc|exact Hf].
Qed.

(* ------------------------------------------------------------------ *)
(* 2. the log through the primitive state transformers                 *)
(* ------------------------------------------------------------------ *)

Lemma log_next s : ps_log (ps_next s) = ps_log s.
Proof. unfold ps_next. destruct (ps_rest s); reflexivity. Qed.
Lemma log_add_error_at s k a t : ps_log (add_error_at s k a t) = ps_log s. Proof. reflexivity. Qed.
Lemma log_add_error s k a : ps_log (add_error s k a) = ps_log s. Proof. reflexivity. Qed.
Lemma log_push s c : ps_log (push_ctx s c) = ps_log s. Proof. reflexivity. Qed.
Lemma log_pop s : ps_log (pop_ctx s) = ps_log s. Proof. reflexivity. Qed.
Lemma log_set_cep s p : ps_log (set_cep s p) = ps_log s. Proof. reflexivity. Qed.
Lemma cur_push s c : ps_cur (push_ctx s c) = ps_cur s. Proof. reflexivity. Qed.
Lemma cur_set_cep s p : ps_cur (set_cep s p) = ps_cur s. Proof. reflexivity. Qed.
Lemma cur_log_event s i k : ps_cur (log_event s i k) = ps_cur s. Proof. reflexivity. Qed.
#[export] Hint Rewrite log_next log_add_error_at log_add_error log_push log_pop log_set_cep
  cur_push cur_set_cep cur_log_event : logs.

Lemma expect_true_eq s ty s1 : expect s ty = (true, s1) -> s1 = ps_next s.
Proof. unfold expect. destruct (peek_is s ty); intro H; inversion H; reflexivity. Qed.

Lemma asi_log cfg s ok s1 : expect_semicolon_asi cfg s = (ok, s1) -> ps_log s1 = ps_log s.
Proof.
  unfold expect_semicolon_asi.
  destruct (peek_is s T_SEMICOLON); [|destruct (should_insert_semicolon s); [|destruct (c_tolerant cfg)]];
    intro H; inversion H; subst; autorewrite with logs; reflexivity.
Qed.

Lemma cspec_le {A} (G : A -> Prop) (f : pstate -> res A) s r s' :
  cspec G f -> f s = Some (r, s') -> (nerr s <= nerr s')%nat.
Proof. intros H E. exact (proj1 (H s r s' E)). Qed.

(* a step that records no error establishes G *)
Definition nspec {A} (G : pstate -> A -> pstate -> Prop) (f : pstate -> res A) : Prop :=
  forall s r s', f s = Some (r, s') -> (nerr s' <= nerr s)%nat -> G s r s'.

(* a step that logs nothing *)
Definition quiet {A} (f : pstate -> res A) : Prop :=
  forall s r s', f s = Some (r, s') -> ps_log s' = ps_log s.

(* ------------------------------------------------------------------ *)
(* 3. what each Parse* function guarantees                             *)
(* ------------------------------------------------------------------ *)

Definition lead_e (t : token) (x : expr) : Prop := forall b f, In (t, b, f) (nest_expr b f x).
Definition lead_s (t : token) (x : stmt) : Prop := forall b f, In (t, b, f) (nest_stmt b f x).

Definition Ge0 (s : pstate) (x : expr) (s' : pstate) : Prop :=
  lead_e (ps_cur s) x /\
  forall b f, cflags (ps_ctx s) b f -> transl (nest_expr b f x) (ps_log s) (ps_log s').
Definition Ge (s : pstate) (x : expr) (s' : pstate) : Prop :=
  t_type (ps_cur s) <> 0 /\ Ge0 s x s'.
Definition Gs0 (s : pstate) (x : stmt) (s' : pstate) : Prop :=
  lead_s (ps_cur s) x /\
  forall b f, cflags (ps_ctx s) b f -> transl (nest_stmt b f x) (ps_log s) (ps_log s').
Definition Gs (s : pstate) (x : stmt) (s' : pstate) : Prop :=
  t_type (ps_cur s) <> 0 /\ Gs0 s x s'.
(* the body of a function / a block statement: only "inside a function" matters *)
Definition Gblk (s : pstate) (x : stmt) (s' : pstate) : Prop :=
  lead_s (ps_cur s) x /\
  forall b f, memZ P_FunctionContext (ps_ctx s) = f -> transl (nest_stmt b f x) (ps_log s) (ps_log s').
(* the Pratt loop: the tree grows around [left] *)
Definition Gr (left : expr) (s : pstate) (x : expr) (s' : pstate) : Prop :=
  (forall b f, incl (nest_expr b f left) (nest_expr b f x)) /\
  forall b f, cflags (ps_ctx s) b f -> transl (nest_expr b f x) (ps_log s) (ps_log s').
Definition Gel (acc : list expr) (s : pstate) (r : list expr) (s' : pstate) : Prop :=
  (forall b f, incl (nest_exprs b f acc) (nest_exprs b f r)) /\
  forall b f, cflags (ps_ctx s) b f -> transl (nest_exprs b f r) (ps_log s) (ps_log s').
Definition Gl (s : pstate) (r : list expr) (s' : pstate) : Prop :=
  forall b f, cflags (ps_ctx s) b f -> transl (nest_exprs b f r) (ps_log s) (ps_log s').
Definition Gol (acc : list (expr * expr)) (s : pstate) (o : option (list (expr * expr))) (s' : pstate) : Prop :=
  match o with
  | None => False
  | Some r =>
      (forall b f, incl (nest_props b f acc) (nest_props b f r)) /\
      forall b f, cflags (ps_ctx s) b f -> transl (nest_props b f r) (ps_log s) (ps_log s')
  end.
Definition Gbl (acc : list stmt) (s : pstate) (r : list stmt) (s' : pstate) : Prop :=
  (forall b f, incl (nsts b f acc) (nsts b f r)) /\
  forall b f, cflags (ps_ctx s) b f -> transl (nsts b f r) (ps_log s) (ps_log s').

Lemma nerr_next' s : nerr (ps_next s) = nerr s. Proof. apply nerr_next. Qed.
#[export] Hint Rewrite nerr_next nerr_add_error_at nerr_add_error nerr_set_ctx nerr_push_ctx nerr_pop_ctx
  nerr_set_cep nerr_log_event : nerrs.

Create HintDb ndb.
Create HintDb nbal.
Create HintDb nndb.

#[export] Hint Resolve c_parse_expression c_params_loop c_parse_function_parameters c_block_loop
  c_parse_block_statement c_parse_let_statement c_parse_let_expression c_parse_function_statement
  c_parse_return_statement c_parse_if_statement c_parse_while_statement c_parse_for_statement
  c_parse_expression_statement c_base_parse_statement c_expr_list_loop c_parse_expression_list
  c_object_loop c_parse_object_literal c_parse_function_expression c_parse_grouped_expression
  c_parse_unary_expression c_prefix_handler_run c_parse_prefix_expression c_parse_binary_expression
  c_infix_handler_run c_parse_infix_expression c_remaining_loop c_parse_remaining
  c_base_parse_expression c_run_stmt_chain c_run_expr_chain : ndb.

#[export] Hint Resolve parse_expression_bal params_loop_bal parse_function_parameters_bal block_loop_bal
  parse_block_statement_bal parse_let_statement_bal parse_let_expression_bal
  parse_function_statement_bal parse_return_statement_bal parse_if_statement_bal
  parse_while_statement_bal parse_for_statement_bal parse_expression_statement_bal
  base_parse_statement_bal expr_list_loop_bal parse_expression_list_bal object_loop_bal
  parse_object_literal_bal parse_function_expression_bal parse_grouped_expression_bal
  parse_unary_expression_bal prefix_handler_run_bal parse_prefix_expression_bal
  parse_binary_expression_bal infix_handler_run_bal parse_infix_expression_bal remaining_loop_bal
  parse_remaining_bal base_parse_expression_bal run_stmt_chain_bal run_expr_chain_bal : nbal.

(* --- tactics --- *)

Ltac nprep :=
  repeat match goal with
  | H : ?x = true |- _ => is_var x; subst x
  | H : ?x = false |- _ => is_var x; subst x
  end;
  repeat match goal with
  | E : expect _ _ = (true, ?s1) |- _ => apply expect_true_eq in E; subst s1
  | E : expect _ _ = (false, _) |- _ => apply expect_false_nerr in E
  | E : expect_semicolon_asi _ _ = (true, _) |- _ =>
      pose proof (asi_log _ _ _ _ E); pose proof (expect_asi_ctx _ _ _ _ E); apply asi_true_nerr in E
  | E : expect_semicolon_asi _ _ = (false, _) |- _ => apply asi_false_nerr in E
  end.

(* errors only grow and the context is balanced, for every completed call *)
Ltac ncalls :=
  repeat match goal with
  | E : ?f ?s = Some (?r, ?s') |- _ =>
      lazymatch goal with
      | _ : (nerr s <= nerr s')%nat |- _ => fail
      | _ => let M := fresh "M" in let B := fresh "B" in
             assert (M : (nerr s <= nerr s')%nat) by (eapply cspec_le; [|exact E]; eauto with ndb);
             assert (B : ps_ctx s' = ps_ctx s) by (eauto 3 with nbal nocore)
      end
  end.

Ltac nkill := autorewrite with nerrs in *; try (exfalso; lia).

(* the guarantee of every completed call *)
Ltac napply :=
  repeat match goal with
  | E : ?f ?s = Some (?r, ?s') |- _ =>
      first [ let Q := fresh "Q" in
              assert (Q : ps_log s' = ps_log s) by (eauto with nndb nocore); clear E
            | let X := fresh "X" in
              eassert (X : nspec _ f) by (eauto with nndb);
              let Y := fresh "Y" in
              pose proof (X _ _ _ E) as Y; clear X E;
              match type of Y with
              | ?A -> _ => let A' := fresh in
                           assert (A' : A) by (autorewrite with nerrs; lia);
                           specialize (Y A'); clear A'
              end ]
  end.

Ltac nunf :=
  repeat match goal with
  | H : Ge _ _ _ |- _ => unfold Ge, Ge0 in H
  | H : Ge0 _ _ _ |- _ => unfold Ge0 in H
  | H : Gs _ _ _ |- _ => unfold Gs, Gs0 in H
  | H : Gs0 _ _ _ |- _ => unfold Gs0 in H
  | H : Gblk _ _ _ |- _ => unfold Gblk in H
  | H : Gr _ _ _ _ |- _ => unfold Gr in H
  | H : Gel _ _ _ _ |- _ => unfold Gel in H
  | H : Gl _ _ _ |- _ => unfold Gl in H
  | H : Gol _ _ _ _ |- _ => unfold Gol in H
  | H : Gbl _ _ _ _ |- _ => unfold Gbl in H
  | H : _ /\ _ |- _ => destruct H
  end;
  unfold Ge, Ge0, Gs, Gs0, Gblk, Gr, Gel, Gl, Gol, Gbl.

Ltac nnorm :=
  autorewrite with logs ctxs in *;
  repeat match goal with B : ps_ctx ?x = _ |- _ => is_var x; try rewrite B in *; clear B end;
  repeat match goal with Q : ps_log ?x = _ |- _ => is_var x; try rewrite Q in *; clear Q end.

Ltac in_solve := repeat (rewrite in_app_iff || cbn [In]); tauto.
Ltac incl_solve := autorewrite with nest; let z := fresh "z" in let Hz := fresh "Hz" in
  intros z Hz;
  repeat match goal with I : incl _ _ |- _ => specialize (I z); autorewrite with nest in I end;
  repeat (rewrite in_app_iff in * || cbn [In] in * ); tauto.
Ltac nincl := let b := fresh "b" in let f := fresh "f" in intros b f;
  repeat match goal with I : forall b' f', incl _ _ |- _ => specialize (I b f) end; incl_solve.

(* chain the transformers of the sub-steps *)
Ltac nchain HI :=
  repeat match goal with
  | T : transl ?N ?l ?l', HL : cov ?L ?l |- _ =>
      let K := fresh "HL" in
      assert (K : cov L l') by (apply T; [eapply incl_tran; [|exact HI]; incl_solve | exact HL]); clear T
  end.

Ltac ntrans :=
  let b := fresh "b" in let f := fresh "f" in let HF := fresh "HF" in
  let L := fresh "L" in let HI := fresh "HI" in let HL := fresh "HL" in
  intros b f HF L HI HL;
  repeat match goal with
  | H : forall b' f', cflags _ b' f' -> _ |- _ => specialize (H b f HF)
  | I : forall b' f', incl _ _ |- _ => specialize (I b f)
  end;
  nchain HI; try assumption.

Ltac nlead := let b := fresh "b" in let f := fresh "f" in
  intros b f; autorewrite with nest;
  first [ in_solve
        | match goal with H : lead_e _ _ |- _ => specialize (H b f) end; in_solve
        | match goal with H : lead_s _ _ |- _ => specialize (H b f) end; in_solve
        | idtac ].

Section NestOpen.
  Variable cfg : pcfg.
  Variable sf : pstate -> res stmt.
  Variable ef : Z -> pstate -> res expr.
  Variable lf : nat.
  Hypothesis Hpre : c_prefix_ops cfg = [].
  Hypothesis sf_ok : cspec nps sf.
  Hypothesis ef_ok : forall p, cspec npe (ef p).
  Hypothesis sf_bal : forall s r s', sf s = Some (r, s') -> ps_ctx s' = ps_ctx s.
  Hypothesis ef_bal : forall p s r s', ef p s = Some (r, s') -> ps_ctx s' = ps_ctx s.
  Hypothesis sf_n : nspec Gs sf.
  Hypothesis ef_n : forall p, nspec Ge (ef p).
  Hint Resolve sf_ok ef_ok : ndb.
  Hint Resolve sf_bal ef_bal : nbal.
  Hint Resolve sf_n ef_n : nndb.

  Lemma n_parse_expression : nspec Ge (parse_expression ef).
  Proof. unfold parse_expression. auto. Qed.
  Hint Resolve n_parse_expression : nndb.

  Lemma q_params_loop n : forall acc, quiet (params_loop n acc).
  Proof.
    induction n as [|n IH]; intros acc s r s' H; cbn [params_loop] in H; [discriminate|].
    cbv zeta in H. brk.
    all: try (apply IH in H; rewrite H); clear IH.
    all: unfold expect in *; brk; autorewrite with logs in *; try congruence.
  Qed.

  Lemma q_parse_function_parameters : quiet (parse_function_parameters lf).
  Proof.
    intros s r s' H. unfold parse_function_parameters in H. cbv zeta in H. brk.
    all: try (apply q_params_loop in H; rewrite H).
    all: unfold expect in *; brk; autorewrite with logs in *; try congruence.
  Qed.

  Lemma parse_function_parameters_log s r s' :
    parse_function_parameters lf s = Some (r, s') -> ps_log s' = ps_log s.
  Proof. apply q_parse_function_parameters. Qed.
  Hint Resolve parse_function_parameters_log : nndb.

  Lemma n_parse_let_statement : nspec Gs0 (parse_let_statement cfg ef).
  Proof.
    intros s r s' H Hle. unfold parse_let_statement in H. cbv zeta in H. brk.
    all: nprep; ncalls; nkill; napply; nunf; nnorm.
    all: split; [nlead | ntrans].
  Qed.

  Lemma n_parse_let_expression : nspec Ge0 (parse_let_expression ef).
  Proof.
    intros s r s' H Hle. unfold parse_let_expression in H. cbv zeta in H. brk.
    all: nprep; ncalls; nkill; napply; nunf; nnorm.
    all: split; [nlead | ntrans].
  Qed.
  Hint Resolve n_parse_let_expression : nndb.

  Lemma n_parse_return_statement : nspec Gs0 (parse_return_statement cfg ef).
  Proof.
    intros s r s' H Hle. unfold parse_return_statement in H. cbv zeta in H. brk.
    all: nprep; ncalls; nkill; napply; nunf; nnorm.
    all: split; [nlead | ntrans].
  Qed.

  Lemma n_parse_if_statement : nspec Gs0 (parse_if_statement sf ef).
  Proof.
    intros s r s' H Hle. unfold parse_if_statement in H. cbv zeta in H. brk.
    all: nprep; ncalls; nkill; napply; nunf; nnorm.
    all: split; [nlead | ntrans].
  Qed.

  Lemma n_parse_while_statement : nspec Gs0 (parse_while_statement sf ef).
  Proof.
    intros s r s' H Hle. unfold parse_while_statement in H. cbv zeta in H. brk.
    all: nprep; ncalls; nkill; napply; nunf; nnorm.
    all: split; [nlead | ntrans].
  Qed.

  Lemma n_parse_for_statement : nspec Gs0 (parse_for_statement sf ef).
  Proof.
    intros s r s' H Hle. unfold parse_for_statement in H. cbv zeta in H. brk.
    all: nprep; ncalls; nkill; napply; nunf; nnorm.
    all: split; [nlead | ntrans].
  Qed.

  Lemma n_parse_expression_statement : nspec Gs (parse_expression_statement cfg ef).
  Proof.
    intros s r s' H Hle. unfold parse_expression_statement in H. cbv zeta in H. brk.
    all: nprep; ncalls; nkill; napply; nunf; nnorm.
    all: split; [assumption | split; [nlead | ntrans]].
  Qed.

  Lemma n_block_loop n : forall acc, nspec (Gbl acc) (block_loop sf n acc).
  Proof.
    induction n as [|n IH]; intros acc s r s' H Hle; cbn [block_loop] in H; [discriminate|].
    brk.
    all: nprep; ncalls; nkill; napply; nunf; nnorm.
    all: split; [nincl | ntrans].
  Qed.
  Hint Resolve n_block_loop : nndb.

  Lemma n_parse_block_statement : nspec Gblk (parse_block_statement cfg sf lf).
  Proof.
    intros s r s' H Hle. unfold parse_block_statement in H. cbv zeta in H. brk.
    destruct (negb (cur_is p T_RBRACE) && negb (c_tolerant cfg)).
    all: nprep; ncalls; nkill; napply; nunf; nnorm.
    split; [nlead|].
    intros b f HF L HI HL.
    match goal with Y : forall b' f', cflags _ b' f' -> _ |- _ =>
      specialize (Y true f (cflags_push_block _ _ HF)) end.
    nchain HI. assumption.
  Qed.
  Hint Resolve n_parse_block_statement : nndb.

  Ltac nfunc :=
    let b := fresh "b" in let f := fresh "f" in let HF := fresh "HF" in
    let L := fresh "L" in let HI := fresh "HI" in let HL := fresh "HL" in
    intros b f HF L HI HL;
    match goal with Y : forall b' f', memZ _ _ = f' -> _ |- _ =>
      specialize (Y b true (infn_push_function _)) end;
    nchain HI; try assumption.

  Lemma n_parse_function_statement : nspec Gs0 (parse_function_statement cfg sf lf).
  Proof.
    intros s r s' H Hle. unfold parse_function_statement in H. cbv zeta in H. brk.
    all: nprep; ncalls; nkill; napply; nunf; nnorm.
    split; [nlead | nfunc].
  Qed.

  Lemma n_base_parse_statement : nspec Gs (base_parse_statement cfg sf ef lf).
  Proof.
    intros s r s' H Hle. unfold base_parse_statement in H. cbv zeta in H.
    repeat match type of H with (if ?b then _ else _) = _ => destruct b eqn:? end.
    all: try (assert (Ht : t_type (ps_cur s) <> 0) by
      (match goal with C : (t_type (ps_cur _) =? _) = true |- _ => apply Z.eqb_eq in C; rewrite C; discriminate end)).
    - split; [exact Ht|]. eapply n_parse_let_statement; eauto.
    - split; [exact Ht|]. eapply n_parse_function_statement; eauto.
    - split; [exact Ht|]. eapply n_parse_return_statement; eauto.
    - split; [exact Ht|]. eapply n_parse_if_statement; eauto.
    - split; [exact Ht|]. eapply n_parse_while_statement; eauto.
    - split; [exact Ht|]. eapply n_parse_for_statement; eauto.
    - split; [exact Ht|]. pose proof (n_parse_block_statement _ _ _ H Hle) as [Y1 Y2].
      split; [exact Y1|]. intros b f [_ HF]. apply Y2. exact HF.
    - eapply n_parse_expression_statement; eauto.
  Qed.

  Lemma n_expr_list_loop n : forall acc, nspec (Gel acc) (expr_list_loop ef n acc).
  Proof.
    induction n as [|n IH]; intros acc s r s' H Hle; cbn [expr_list_loop] in H; [discriminate|].
    brk.
    all: nprep; ncalls; nkill; napply; nunf; nnorm.
    all: split; [nincl | ntrans].
  Qed.
  Hint Resolve n_expr_list_loop : nndb.

  Lemma n_parse_expression_list ty : nspec Gl (parse_expression_list ef lf ty).
  Proof.
    intros s r s' H Hle. unfold parse_expression_list in H. cbv zeta in H. brk.
    all: nprep; ncalls; nkill; napply; nunf; nnorm.
    all: ntrans.
  Qed.
  Hint Resolve n_parse_expression_list : nndb.

  Lemma n_object_loop n : forall acc, nspec (Gol acc) (object_loop ef n acc).
  Proof.
    induction n as [|n IH]; intros acc s r s' H Hle; cbn [object_loop] in H; [discriminate|].
    cbv zeta in H. brk.
    all: nprep; ncalls; nkill; napply.
    all: try match goal with Y : Gol _ _ ?o _ |- _ => destruct o; [|exact Y] end.
    all: nunf; nnorm.
    all: split; [nincl | ntrans].
  Qed.
  Hint Resolve n_object_loop : nndb.

  Lemma n_parse_object_literal : nspec Ge0 (parse_object_literal ef lf).
  Proof.
    intros s r s' H Hle. unfold parse_object_literal in H. cbv zeta in H. brk.
    all: nprep; ncalls; nkill; napply; nunf; try contradiction; nnorm.
    all: split; [nlead | ntrans].
  Qed.

  Lemma n_parse_function_expression : nspec Ge0 (parse_function_expression cfg sf lf).
  Proof.
    intros s r s' H Hle. unfold parse_function_expression in H. cbv zeta in H. brk.
    all: nprep; ncalls; nkill; napply; nunf; nnorm.
    all: split; [nlead | nfunc].
  Qed.

  Lemma n_parse_grouped_expression : nspec Ge0 (parse_grouped_expression ef).
  Proof.
    intros s r s' H Hle. unfold parse_grouped_expression in H. cbv zeta in H. brk.
    all: nprep; ncalls; nkill; napply; nunf; nnorm.
    all: split; [nlead | ntrans].
  Qed.

  Lemma n_parse_unary_expression : nspec Ge0 (parse_unary_expression ef).
  Proof.
    intros s r s' H Hle. unfold parse_unary_expression in H. cbv zeta in H. brk.
    all: nprep; ncalls; nkill; napply; nunf; nnorm.
    all: split; [nlead | ntrans].
  Qed.
  Hint Resolve n_parse_object_literal n_parse_function_expression n_parse_grouped_expression
    n_parse_unary_expression : nndb.

  Lemma n_prefix_handler_run h : nspec Ge0 (prefix_handler_run cfg sf ef lf h).
  Proof.
    intros s r s' H Hle. unfold prefix_handler_run in H. cbv zeta in H. destruct h; brk.
    all: nprep; ncalls; nkill; napply; nunf; nnorm.
    all: split; [nlead | ntrans].
  Qed.
  Hint Resolve n_prefix_handler_run : nndb.

  Lemma n_parse_prefix_expression : nspec Ge (parse_prefix_expression cfg sf ef lf).
  Proof.
    intros s r s' H Hle. unfold parse_prefix_expression in H. cbv zeta in H.
    rewrite Hpre in H. cbn [memZ] in H.
    destruct (assoc_opt prefix_table (t_type (ps_cur s))) as [h|] eqn:Eh.
    - split.
      + intro Hz. rewrite Hz in Eh. vm_compute in Eh. discriminate Eh.
      + eapply n_prefix_handler_run; eauto.
    - brk. nkill.
  Qed.
  Hint Resolve n_parse_prefix_expression : nndb.

  Lemma n_parse_binary_expression left : nspec (Gr left) (parse_binary_expression cfg ef left).
  Proof.
    intros s r s' H Hle. unfold parse_binary_expression in H. cbv zeta in H. brk.
    all: nprep; ncalls; nkill; napply; nunf; nnorm.
    all: split; [nincl | ntrans].
  Qed.
  Hint Resolve n_parse_binary_expression : nndb.

  Lemma n_infix_handler_run h left : nspec (Gr left) (infix_handler_run cfg ef lf h left).
  Proof.
    intros s r s' H Hle. unfold infix_handler_run in H. cbv zeta in H. destruct h; brk.
    all: nprep; ncalls; nkill; napply; nunf; nnorm.
    all: split; [nincl | ntrans].
  Qed.
  Hint Resolve n_infix_handler_run : nndb.

  Lemma n_parse_infix_expression left : nspec (Gr left) (parse_infix_expression cfg ef lf left).
  Proof.
    intros s r s' H Hle. unfold parse_infix_expression in H. cbv zeta in H. brk.
    all: nprep; ncalls; nkill; napply; nunf; nnorm.
    all: split; [nincl | ntrans].
  Qed.
  Hint Resolve n_parse_infix_expression : nndb.

  Lemma n_remaining_loop n : forall left prec, nspec (Gr left) (remaining_loop cfg ef lf n left prec).
  Proof.
    induction n as [|n IH]; intros left prec s r s' H Hle; cbn [remaining_loop] in H; [discriminate|].
    brk.
    all: nprep; ncalls; nkill; napply; nunf; nnorm.
    all: split; [nincl | ntrans].
  Qed.

  Lemma n_parse_remaining left prec :
    nspec (Gr left) (parse_remaining_with_precedence cfg ef lf left prec).
  Proof. unfold parse_remaining_with_precedence. apply n_remaining_loop. Qed.
  Hint Resolve n_parse_remaining : nndb.

  Ltac nlead_incl :=
    let b := fresh "b" in let f := fresh "f" in intros b f;
    match goal with I : forall b' f', incl _ _, Hl : lead_e _ _ |- _ => exact (I b f _ (Hl b f)) end.

  Lemma n_base_parse_expression prec : nspec Ge (base_parse_expression cfg sf ef lf prec).
  Proof.
    intros s r s' H Hle. unfold base_parse_expression in H. brk.
    all: nprep; ncalls; nkill; napply; nunf; nnorm.
    split; [assumption|]. split; [nlead_incl | ntrans].
  Qed.

  Lemma n_run_stmt_chain ics : nspec Gs (run_stmt_chain cfg sf ef lf ics).
  Proof.
    induction ics as [|ic ics IH]; intros s r s' H Hle; cbn [run_stmt_chain] in H.
    - eapply n_base_parse_statement; eauto.
    - destruct ic as [|id].
      + eapply IH; eauto.
      + pose proof (IH _ _ _ H Hle) as (Ht & Hl & HT).
        autorewrite with logs ctxs in *.
        split; [exact Ht|]. split; [exact Hl|].
        intros b f HF L HI HL. apply (HT b f HF L HI).
        apply cov_probe with (b := b) (f := f); auto.
  Qed.

  Lemma n_run_expr_chain ics : forall prec, nspec Ge (run_expr_chain cfg sf ef lf ics prec).
  Proof.
    induction ics as [|ic ics IH]; intros prec s r s' H Hle; cbn [run_expr_chain] in H.
    - eapply n_base_parse_expression; eauto.
    - cbv zeta in H. destruct ic as [|id|]; brk.
      + autorewrite with nerrs in Hle. pose proof (IH _ _ _ _ E Hle) as (Ht & Hl & HT).
        autorewrite with logs ctxs in *.
        split; [exact Ht|]. split; [exact Hl|exact HT].
      + autorewrite with nerrs in Hle. pose proof (IH _ _ _ _ E Hle) as (Ht & Hl & HT).
        autorewrite with logs ctxs in *.
        split; [exact Ht|]. split; [exact Hl|].
        intros b f HF L HI HL. apply (HT b f HF L HI).
        apply cov_probe with (b := b) (f := f); auto.
      + nprep; ncalls; nkill; napply; nunf; nnorm.
        split; [assumption|]. split; [nlead_incl | ntrans].
  Qed.
End NestOpen.

(* ------------------------------------------------------------------ *)
(* 4. closing the recursion; the program loop                          *)
(* ------------------------------------------------------------------ *)

Lemma n_knot cfg : c_prefix_ops cfg = [] -> forall fuel,
  nspec Gs (stmt_fn cfg fuel) /\ forall p, nspec Ge (expr_fn cfg fuel p).
Proof.
  intros Hpre. induction fuel as [|fu [IHs IHe]];
    (split; [intros s r s' H Hle | intros p s r s' H Hle]); cbn [stmt_fn expr_fn] in H; try discriminate.
  - eapply n_run_stmt_chain; try exact H; try exact Hle; try exact Hpre; try exact IHs; try exact IHe.
    + apply (proj1 (c_knot cfg fu)).
    + apply (proj2 (c_knot cfg fu)).
    + apply (proj1 (fn_ctx_balanced cfg fu)).
    + apply (proj2 (fn_ctx_balanced cfg fu)).
  - eapply n_run_expr_chain; try exact H; try exact Hle; try exact Hpre; try exact IHs; try exact IHe.
    + apply (proj1 (c_knot cfg fu)).
    + apply (proj2 (c_knot cfg fu)).
    + apply (proj1 (fn_ctx_balanced cfg fu)).
    + apply (proj2 (fn_ctx_balanced cfg fu)).
Qed.

Lemma n_program_loop cfg fuel : c_prefix_ops cfg = [] -> forall n acc,
  nspec (Gbl acc) (program_loop cfg fuel n acc).
Proof.
  intro Hpre.
  pose proof (proj1 (c_knot cfg fuel)) as Hc.
  pose proof (proj1 (fn_ctx_balanced cfg fuel)) as Hb.
  pose proof (proj1 (n_knot cfg Hpre fuel)) as Hn.
  pose proof (c_program_loop cfg fuel) as Hcp.
  pose proof (program_loop_ctx cfg fuel) as Hbp.
  induction n as [|n IH]; intros acc s r s' H Hle; cbn [program_loop] in H; [discriminate|].
  brk.
  all: nprep.
  all: repeat match goal with
  | E : ?f ?s = Some (?r, ?s') |- _ =>
      lazymatch goal with
      | _ : (nerr s <= nerr s')%nat |- _ => fail
      | _ => let M := fresh "M" in let B := fresh "B" in
             assert (M : (nerr s <= nerr s')%nat) by (eapply cspec_le; [|exact E]; eauto);
             assert (B : ps_ctx s' = ps_ctx s) by (eauto)
      end
  end.
  all: nkill.
  all: repeat match goal with
  | E : ?f ?s = Some (?r, ?s') |- _ =>
      let X := fresh "X" in
      eassert (X : nspec _ f) by (eauto);
      let Y := fresh "Y" in
      pose proof (X _ _ _ E) as Y; clear X E;
      match type of Y with
      | ?A -> _ => let A' := fresh in
                   assert (A' : A) by (autorewrite with nerrs; lia);
                   specialize (Y A'); clear A'
      end
  end.
  all: nunf; nnorm.
  all: split; [nincl | ntrans].
Qed.

Lemma parse_events_covered sis eis toks r :
  parse_tokens (cfg_with sis eis) toks = Some r -> pr_errors r = [] ->
  cov (nest_program (pr_program r)) (ps_log (pr_final r)).
Proof.
  intros H He. unfold parse_tokens, parse_program_from in H. cbv zeta in H.
  set (s0 := ps_init toks (eof_again (last toks zero_token))) in *.
  destruct (program_loop (cfg_with sis eis) (parse_fuel toks) (parse_fuel toks) [] s0)
    as [[stmts s1]|] eqn:E; [|discriminate H].
  inversion H; subst r; clear H. cbn [pr_errors pr_program pr_final] in *.
  unfold nest_program. cbn [p_stmts].
  assert (Hle : (nerr s1 <= nerr s0)%nat) by (unfold nerr at 1; rewrite He; cbn; lia).
  pose proof (n_program_loop (cfg_with sis eis) (parse_fuel toks) eq_refl _ _ _ _ _ E Hle) as [_ HT].
  assert (HF : cflags (ps_ctx s0) false false).
  { unfold s0, ps_init. rewrite !ctx_next. cbn [ps_ctx]. split; reflexivity. }
  apply (HT false false HF); [apply incl_refl|].
  unfold s0, ps_init. rewrite !log_next. cbn [ps_log]. constructor.
Qed.

(* ------------------------------------------------------------------ *)
(* 5. grammar side: the listed tokens are consumed tokens (counting)   *)
(* ------------------------------------------------------------------ *)

Definition one (t x : token) : nat := if tok_eqb t x then 1%nat else 0%nat.

Fixpoint cnt (t : token) (l : list token) : nat :=
  match l with [] => 0%nat | x :: l' => (one t x + cnt t l')%nat end.

Definition tk (L : list nt) : list token := map (fun x : nt => fst (fst x)) L.

Lemma cnt_nil t : cnt t [] = 0%nat. Proof. reflexivity. Qed.
Lemma cnt_cons t x l : cnt t (x :: l) = (one t x + cnt t l)%nat. Proof. reflexivity. Qed.
Lemma cnt_app t a : forall c, cnt t (a ++ c) = (cnt t a + cnt t c)%nat.
Proof. induction a as [|x a IH]; intro c; cbn [app cnt]; [reflexivity|]. rewrite IH. lia. Qed.
Lemma tk_nil : tk [] = []. Proof. reflexivity. Qed.
Lemma tk_cons t b f L : tk ((t, b, f) :: L) = t :: tk L. Proof. reflexivity. Qed.
Lemma tk_app a c : tk (a ++ c) = tk a ++ tk c. Proof. apply map_app. Qed.
Lemma nest_name_some b f i : nest_name b f (Some i) = [(id_tok i, b, f)]. Proof. reflexivity. Qed.
Lemma nest_name_none b f : nest_name b f None = []. Proof. reflexivity. Qed.
Lemma nest_idents_nil b f : nest_idents b f [] = []. Proof. reflexivity. Qed.
Lemma nest_idents_cons b f i l : nest_idents b f (i :: l) = (id_tok i, b, f) :: nest_idents b f l.
Proof. reflexivity. Qed.
#[export] Hint Rewrite nest_name_some nest_name_none nest_idents_nil nest_idents_cons : nest.
#[export] Hint Rewrite cnt_nil cnt_cons cnt_app tk_nil tk_cons tk_app : cnts.

Lemma one_zero t : t_type t <> 0 -> one t zero_token = 0%nat.
Proof.
  intro H. unfold one. destruct (tok_eqb t zero_token) eqn:E; [|reflexivity].
  apply tok_eqb_eq in E. subst t. exfalso. apply H. reflexivity.
Qed.

Lemma one_le t x : (one t x <= 1)%nat.
Proof. unfold one. destruct (tok_eqb t x); lia. Qed.

(* the real tokens listed in L, and what remains, are within ts *)
Definition cle (L : list nt) (r ts : list token) : Prop :=
  forall t, t_type t <> 0 -> (cnt t (tk L) + cnt t r <= cnt t ts)%nat.

Lemma eat_tok_cle t ts r : eat_tok t ts = Some r -> forall b f : bool, cle [(t, b, f)] r ts.
Proof. intro H. apply eat_tok_inv in H. subst. intros b f x Hx. autorewrite with cnts. lia. Qed.
Lemma eat_cle ty ts t r : eat ty ts = Some (t, r) -> cle [] r ts.
Proof. intro H. apply eat_inv in H. destruct H as [-> _]. intros x Hx. autorewrite with cnts. lia. Qed.
Lemma m_ident_cle i ts r : m_ident i ts = Some r -> forall b f : bool, cle [(id_tok i, b, f)] r ts.
Proof. intro H. apply m_ident_inv in H. destruct H as [-> _]. intros b f x Hx. autorewrite with cnts. lia. Qed.
Lemma m_end_cle asi next ts r : m_end asi next ts = Some r -> cle [] r ts.
Proof.
  destruct ts as [|t ts]; cbn [m_end]; intro H; minv H; injection H as H; subst;
    intros x Hx; autorewrite with cnts; lia.
Qed.

Lemma m_params_cle ps : forall ts r, m_params ps ts = Some r -> forall b f, cle (nest_idents b f ps) r ts.
Proof.
  induction ps as [|p ps IH]; intros ts r H b f x Hx.
  - injection H as H. subst. autorewrite with nest cnts. lia.
  - rewrite m_params_cons in H. minv H. apply m_ident_cle with (b := b) (f := f) in E.
    specialize (E x Hx).
    destruct ps as [|q ps]; cbn [m_ptail] in H.
    + injection H as H. subst. autorewrite with nest cnts in *. lia.
    + minv H. apply eat_cle in E0. specialize (E0 x Hx). apply IH with (b := b) (f := f) in H.
      specialize (H x Hx). autorewrite with nest cnts in *. lia.
Qed.

Ltac cle_fin :=
  let b := fresh "b" in let f := fresh "f" in let t := fresh "t" in let Ht := fresh "Ht" in
  intros b f t Ht;
  repeat match goal with
  | H : forall b' f', cle _ _ _ |- _ =>
      pose proof (H b f t Ht); pose proof (H b true t Ht); pose proof (H true f t Ht); clear H
  | H : cle _ _ _ |- _ => specialize (H t Ht)
  end;
  autorewrite with nest cnts in *; rewrite ?(one_zero t Ht) in *; lia.

Ltac use_ih IH E :=
  let X := fresh "X" in
  first [ pose proof (fun Hsz => IH _ Hsz _ _ E) as X
        | pose proof (fun Hsz => IH _ Hsz _ _ _ E) as X
        | pose proof (fun Hsz => IH Hsz _ _ E) as X
        | pose proof (fun Hsz => IH Hsz _ _ _ E) as X ];
  match type of X with
  | ?A -> _ => let Hs := fresh in
               assert (Hs : A) by (cbn [esize ssize fold_right fst snd] in *; lia);
               specialize (X Hs); clear Hs
  end;
  clear E.

Section Cle.
  Variable n : nat.
  Hypothesis IHe : forall e, (esize e <= n)%nat -> forall ts r, m_expr e ts = Some r ->
    forall b f, cle (nest_expr b f e) r ts.
  Hypothesis IHs : forall s, (ssize s <= n)%nat -> forall next ts r, m_stmt s next ts = Some r ->
    forall b f, cle (nest_stmt b f s) r ts.

  Lemma m_exprs_cle es : (fold_right (fun a n => esize a + n) 0 es <= n)%nat ->
    forall ts r, m_exprs m_expr es ts = Some r -> forall b f, cle (nest_exprs b f es) r ts.
  Proof.
    induction es as [|e es IH]; intros Hn ts r H.
    - injection H as H. subst. cle_fin.
    - cbn [fold_right] in Hn. rewrite m_exprs_cons in H. minv H. use_ih IHe E.
      destruct es as [|q es]; cbn [m_tail] in H.
      + injection H as H. subst. cle_fin.
      + minv H. apply eat_cle in E. use_ih IH H. cle_fin.
  Qed.

  Lemma m_props_cle ps : (fold_right (fun kv n => esize (fst kv) + esize (snd kv) + n) 0 ps <= n)%nat ->
    forall ts r, m_props m_expr ps ts = Some r -> forall b f, cle (nest_props b f ps) r ts.
  Proof.
    induction ps as [|[k v] ps IH]; intros Hn ts r H.
    - injection H as H. subst. cle_fin.
    - cbn [fold_right fst snd] in Hn. cbn [m_props] in H.
      destruct (negb (key_ok k)); [discriminate|].
      destruct (m_expr k ts) as [r1|] eqn:E1; [|discriminate]. use_ih IHe E1.
      destruct (eat T_COLON r1) as [[? r2]|] eqn:E2; [|discriminate]. apply eat_cle in E2.
      destruct (m_expr v r2) as [r3|] eqn:E3; [|discriminate]. use_ih IHe E3.
      destruct ps as [|kv ps].
      + injection H as H. subst. cle_fin.
      + destruct (eat T_COMMA r3) as [[? r4]|] eqn:E4; [|discriminate]. apply eat_cle in E4.
        use_ih IH H. cle_fin.
  Qed.

  Lemma m_stmts_cle ss : (fold_right (fun a n => ssize a + n) 0 ss <= n)%nat ->
    forall next ts r, m_stmts m_stmt ss next ts = Some r -> forall b f, cle (nsts b f ss) r ts.
  Proof.
    induction ss as [|s ss IH]; intros Hn next ts r H.
    - injection H as H. subst. cle_fin.
    - cbn [fold_right] in Hn. cbn [m_stmts] in H.
      destruct (m_stmt s next ts) as [r1|] eqn:E1; [|discriminate]. use_ih IHs E1.
      use_ih IH H. cle_fin.
  Qed.
End Cle.

Ltac cle_hyps IHe IHs :=
  repeat match goal with
  | H : eat_tok _ _ = Some _ |- _ => pose proof (eat_tok_cle _ _ _ H); clear H
  | H : eat _ _ = Some (_, _) |- _ => apply eat_cle in H
  | H : eat _ _ = Some ?p |- _ => destruct p
  | H : m_ident _ _ = Some _ |- _ => pose proof (m_ident_cle _ _ _ H); clear H
  | H : m_end _ _ _ = Some _ |- _ => apply m_end_cle in H
  | H : m_params _ _ = Some _ |- _ => pose proof (m_params_cle _ _ _ H); clear H
  | H : match ?nm with Some _ => _ | None => _ end = Some _ |- _ => destruct nm
  | H : m_expr _ _ = Some _ |- _ => use_ih IHe H
  | H : m_stmt _ _ _ = Some _ |- _ => use_ih IHs H
  | H : m_exprs m_expr _ _ = Some _ |- _ => use_ih (m_exprs_cle _ IHe) H
  | H : m_props m_expr _ _ = Some _ |- _ => use_ih (m_props_cle _ IHe) H
  | H : m_stmts m_stmt _ _ _ = Some _ |- _ => use_ih (m_stmts_cle _ IHs) H
  | H : Some _ = Some _ |- _ => injection H as H; subst
  | H : tok_eqb _ zero_token = true |- _ => apply tok_eqb_eq in H; subst
  end.

Lemma all_cle : forall n,
  (forall e, (esize e <= n)%nat -> forall ts r, m_expr e ts = Some r ->
     forall b f, cle (nest_expr b f e) r ts) /\
  (forall s, (ssize s <= n)%nat -> forall next ts r, m_stmt s next ts = Some r ->
     forall b f, cle (nest_stmt b f s) r ts).
Proof.
  induction n as [|n [IHe IHs]].
  - split; [intros e H; destruct e; cbn [esize] in H; lia | intros s H; destruct s; cbn [ssize] in H; lia].
  - split.
    + intros e0 Hn ts r H. destruct e0; cbn [m_expr] in H; try discriminate.
      all: minv H.
      all: try (match type of H with context [match ?v with ENil => _ | _ => _ end] => destruct v end;
                try discriminate; minv H).
      all: try (match goal with H : context [match ?v with SBlock _ _ _ => _ | _ => _ end] |- _ => destruct v end;
                try discriminate).
      all: try (match goal with H : context [match ?v with EIdent _ => _ | _ => _ end] |- _ => destruct v end;
                try discriminate).
      all: cle_hyps IHe IHs; cle_fin.
    + intros s0 Hn next ts r H. destruct s0; cbn [m_stmt] in H; try discriminate.
      all: minv H.
      all: repeat match goal with
           | H : context [match _ with ENil => _ | _ => _ end] |- _ => rewrite enil_match in H
           | H : context [match _ with SNil => _ | _ => _ end] |- _ => rewrite snil_match in H
           | H : match ?l with [] => _ | _ :: _ => _ end = Some _ |- _ => destruct l; [discriminate H|]
           | H : _ = Some _ |- _ => progress (minv H)
           end.
      all: try (match goal with H : context [match ?v with SBlock _ _ _ => _ | _ => _ end] |- _ => destruct v end;
                try discriminate).
      all: repeat match goal with E : is_enil ?v = true |- _ => apply is_enil_true in E; subst v
                            | E : is_snil ?v = true |- _ => apply is_snil_true in E; subst v end.
      all: cle_hyps IHe IHs; cle_fin.
Qed.

Lemma m_stmts_cle_all ss next ts r : m_stmts m_stmt ss next ts = Some r ->
  forall b f, cle (nsts b f ss) r ts.
Proof.
  intro H.
  eapply (m_stmts_cle (fold_right (fun a n => ssize a + n)%nat 0%nat ss)); [| |exact H].
  - intros s Hs. apply (proj2 (all_cle _) s Hs).
  - lia.
Qed.

Lemma one_refl t : one t t = 1%nat.
Proof. unfold one. rewrite tok_eqb_refl. reflexivity. Qed.

Lemma cnt_notin t l : ~ In t l -> cnt t l = 0%nat.
Proof.
  induction l as [|x l IH]; intro H; [reflexivity|].
  cbn [cnt]. rewrite IH by (intro; apply H; right; assumption).
  unfold one. destruct (tok_eqb t x) eqn:E; [|reflexivity].
  apply tok_eqb_eq in E. subst x. exfalso. apply H. left. reflexivity.
Qed.

Lemma cnt_nodup t l : NoDup l -> (cnt t l <= 1)%nat.
Proof.
  induction 1 as [|x l Hx Hl IH]; [cbn; lia|].
  cbn [cnt]. unfold one. destruct (tok_eqb t x) eqn:E; [|lia].
  apply tok_eqb_eq in E. subst x. rewrite (cnt_notin _ _ Hx). lia.
Qed.

Lemma cnt_in t b f L : In (t, b, f) L -> (1 <= cnt t (tk L))%nat.
Proof.
  induction L as [|[[x xb] xf] L IH]; intro H; [destruct H|].
  rewrite tk_cons, cnt_cons. destruct H as [H|H].
  - inversion H; subst. rewrite one_refl. lia.
  - apply IH in H. lia.
Qed.

Lemma cnt_in2 t b f b' f' L : In (t, b, f) L -> In (t, b', f') L -> (b, f) <> (b', f') ->
  (2 <= cnt t (tk L))%nat.
Proof.
  induction L as [|[[x xb] xf] L IH]; intros H1 H2 Hne; [destruct H1|].
  rewrite tk_cons, cnt_cons. destruct H1 as [H1|H1]; destruct H2 as [H2|H2].
  - exfalso. apply Hne. congruence.
  - inversion H1; subst. rewrite one_refl. apply cnt_in in H2. lia.
  - inversion H2; subst. rewrite one_refl. apply cnt_in in H1. lia.
  - specialize (IH H1 H2 Hne). lia.
Qed.

(* ------------------------------------------------------------------ *)
(* 6. the theorem                                                      *)
(* ------------------------------------------------------------------ *)

Lemma ctx_code_eqb b b' : (ctx_code b =? ctx_code b') = Bool.eqb b b'.
Proof. destruct b, b'; reflexivity. Qed.

Lemma evok_event_ok L ev :
  (forall t b f b' f', t_type t <> 0 -> In (t, b, f) L -> In (t, b', f') L -> (b, f) = (b', f')) ->
  evok L ev -> event_ok L ev = true.
Proof.
  intros Hu (Ht & b & f & Hin & Hc & Hf). unfold event_ok. apply andb_true_iff. split.
  - apply existsb_exists. exists (ev_tok ev, b, f). split; [exact Hin|]. cbn [fst]. apply tok_eqb_refl.
  - apply forallb_forall. intros [[x xb] xf] Hx. unfold nt_ok. cbn [fst snd].
    destruct (tok_eqb x (ev_tok ev)) eqn:E; [|reflexivity]. cbn [negb orb].
    apply tok_eqb_eq in E. subst x.
    assert (Heq : (b, f) = (xb, xf)) by (eapply Hu; eassumption).
    inversion Heq; subst. rewrite Hc. change (if xb then P_BlockContext else P_GlobalContext) with (ctx_code xb).
    rewrite Bool.eqb_reflx, Z.eqb_refl. reflexivity.
Qed.

Theorem nesting_is_reflected : forall toks p sis eis r,
  NoDup toks -> m_program p toks = true -> wf_program p = true ->
  parse_tokens (cfg_with sis eis) toks = Some r ->
  pr_program r = p /\ nesting_reflected p (ps_log (pr_final r)) = true.
Proof.
  intros toks p sis eis r Hnd Hm Hw Hr.
  destruct (parse_complete p toks Hm Hw) as (r0 & Hr0 & Hp0 & He0 & _).
  pose proof (interceptors_transparent (cfg_with sis eis) toks) as Ht.
  change (strip_ics (cfg_with sis eis)) with cfg_default in Ht.
  rewrite Hr, Hr0 in Ht. cbn [option_map] in Ht.
  assert (Hc : core_of_result r = core_of_result r0) by congruence. clear Ht. rename Hc into Ht.
  assert (Hprog : pr_program r = p).
  { apply (f_equal pc_program) in Ht. cbn in Ht. congruence. }
  assert (Herr : pr_errors r = []).
  { apply (f_equal pc_errors) in Ht. cbn in Ht. congruence. }
  split; [exact Hprog|].
  pose proof (parse_events_covered sis eis toks r Hr Herr) as Hcov. rewrite Hprog in Hcov.
  unfold nesting_reflected. apply forallb_forall. intros ev Hev.
  apply evok_event_ok; [|exact (proj1 (Forall_forall _ _) Hcov ev Hev)].
  (* uniqueness of the flags of a real token *)
  intros t b f b' f' Htz H1 H2.
  destruct (bool_dec b b') as [->|Hb]; [destruct (bool_dec f f') as [->|Hf]; [reflexivity|]|].
  all: exfalso.
  all: destruct p as [ss eof]; unfold m_program, nest_program in *; cbn [p_stmts p_eof] in *.
  all: apply andb_true_iff in Hm as [_ Hm].
  all: destruct (m_stmts m_stmt ss eof toks) as [rest|] eqn:Em; [|discriminate Hm].
  all: pose proof (m_stmts_cle_all _ _ _ _ Em false false t Htz) as Hc.
  all: pose proof (cnt_nodup t toks Hnd) as Hn.
  all: assert (H2c : (2 <= cnt t (tk (nsts false false ss)))%nat)
         by (eapply cnt_in2; [exact H1|exact H2|congruence]).
  all: lia.
Qed.

(* ------------------------------------------------------------------ *)
(* 7. lexer side: start positions strictly increase                    *)
(* ------------------------------------------------------------------ *)

(* lexicographic order on positions *)
Definition ple (p q : pos) : Prop :=
  pline p < pline q \/ (pline p = pline q /\ pcol p <= pcol q).
Definition plt (p q : pos) : Prop :=
  pline p < pline q \/ (pline p = pline q /\ pcol p < pcol q).

Lemma ple_refl p : ple p p.
Proof. unfold ple. lia. Qed.

Lemma ple_trans p q r : ple p q -> ple q r -> ple p r.
Proof. unfold ple. lia. Qed.

Lemma plt_ple_trans p q r : plt p q -> ple q r -> plt p r.
Proof. unfold plt, ple. lia. Qed.

Lemma ple_plt_trans p q r : ple p q -> plt q r -> plt p r.
Proof. unfold plt, ple. lia. Qed.

Lemma plt_irrefl p : ~ plt p p.
Proof. unfold plt. lia. Qed.

Lemma plt_step p c :
  plt p (if N.eqb c LF then mkpos (pline p + 1) 0 else mkpos (pline p) (pcol p + 1)).
Proof. unfold plt. destruct (N.eqb c LF); cbn [pline pcol]; lia. Qed.

Lemma pos_after_cons p c s :
  pos_after p (c :: s) =
  pos_after (if N.eqb c LF then mkpos (pline p + 1) 0 else mkpos (pline p) (pcol p + 1)) s.
Proof. reflexivity. Qed.

Lemma pos_after_ple : forall s p, ple p (pos_after p s).
Proof.
  induction s as [|c s IH]; intro p.
  - apply ple_refl.
  - rewrite pos_after_cons. eapply ple_trans; [|apply IH].
    pose proof (plt_step p c) as H. unfold plt in H. unfold ple. lia.
Qed.

Lemma pos_after_plt : forall s p, s <> [] -> plt p (pos_after p s).
Proof.
  intros [|c s] p Hne; [congruence|].
  rewrite pos_after_cons. eapply plt_ple_trans; [apply plt_step|apply pos_after_ple].
Qed.

(* along a run every token starts at or after the current position, and no token
   occurs twice *)
Lemma run_nodup l ss : run l ss ->
  Forall (fun s => ple (cur_pos l) (t_start (sp_tok s))) ss /\ NoDup (map sp_tok ss).
Proof.
  induction 1 as [l g x t l' K E | l g x t l' ss K E R [IHf IHn]].
  - split.
    + constructor; [|constructor]. cbn [sp_tok]. rewrite (so_start _ _ _ _ _ K).
      apply pos_after_ple.
    + cbn [map sp_tok]. constructor; [intros []|constructor].
  - pose proof (so_start _ _ _ _ _ K) as Hst.
    pose proof (so_pos _ _ _ _ _ K) as Hpos.
    pose proof (so_prog _ _ _ _ _ K E) as Hx.
    rewrite pos_after_app, <- Hst in Hpos.
    assert (Hlt : plt (t_start t) (cur_pos l')).
    { rewrite Hpos. apply pos_after_plt. exact Hx. }
    assert (Hle : ple (cur_pos l) (t_start t)).
    { rewrite Hst. apply pos_after_ple. }
    split.
    + constructor; [cbn [sp_tok]; exact Hle|].
      eapply Forall_impl; [|exact IHf]. intros s Hs. cbv beta in Hs.
      eapply ple_trans; [exact Hle|]. eapply ple_trans; [|exact Hs].
      unfold plt in Hlt. unfold ple. lia.
    + cbn [map sp_tok]. constructor; [|exact IHn].
      intro Hin. apply in_map_iff in Hin. destruct Hin as (s & Hs & Hin).
      rewrite Forall_forall in IHf. specialize (IHf s Hin). cbv beta in IHf.
      rewrite Hs in IHf.
      apply (plt_irrefl (t_start t)). eapply plt_ple_trans; [exact Hlt|exact IHf].
Qed.

Theorem lexed_tokens_nodup : forall src toks, tokenize src = Some toks -> NoDup toks.
Proof.
  intros src toks H.
  destruct (lex_total src) as (ss & Hs & Ht & _).
  rewrite Ht in H. inversion H; subst toks. clear H.
  unfold spans in Hs. apply spans_from_run in Hs.
  apply run_nodup in Hs. exact (proj2 Hs).
Qed.


Print Assumptions nesting_is_reflected.
Print Assumptions lexed_tokens_nodup.
