(* RefutedPretty.v -- recorded findings as theorems about the model: where a clause of a property is
   FALSE of the faithful model, a concrete witness is exhibited and checked by evaluation inside
   the kernel ([vm_compute]).  The same witnesses, replayed on the implementation, are entries
   of known_findings.json (the direct oracles replay them on every run).  Each statement is the
   negation of the corresponding property theorem with the excluding hypothesis dropped, so
   the hypotheses of the positive theorems are necessary. *)
Require Import Base Token Lexer Tree SourceMap Writer Compile Parser Grammar RelexSpec RefutedBase.
Require Import Gen.Tables Gen.Printer.
From Coq Require Import String Ascii.

Definition two_spaces : str := [32; 32]%N.

(* ---- KF1: pretty printing without semicolons, next statement begins with '(' ---- *)
Definition kf1_src : str := bs "a;(b)".

Lemma kf1_pretty_no_semis_refuted :
  exists src toks p,
    tokenize src = Some toks /\ strings_stable toks = true /\ literals_trim_safe toks = true /\
    m_program p toks = true /\ wf_program p = true /\
    exists r, reparse (cfg_pretty two_spaces false false) p = Some r /\ pr_errors r = [] /\
              shape_program (pr_program r) <> shape_program p.
Proof.
  exists kf1_src, (toks_of kf1_src), (tree_of kf1_src).
  repeat (split; [vm_compute; reflexivity|]).
  eexists. split; [vm_compute; reflexivity|]. split; [reflexivity|].
  intro H. apply (f_equal (fun q => List.length (p_stmts q))) in H. vm_compute in H. discriminate.
Qed.

(* ---- KF2: pretty printing without semicolons, brace-less if body before else ---- *)
Definition kf2_src : str := bs "if(a)b;else c".

Lemma kf2_pretty_no_semis_refuted :
  exists src toks p,
    tokenize src = Some toks /\ strings_stable toks = true /\ literals_trim_safe toks = true /\
    m_program p toks = true /\ wf_program p = true /\
    exists r, reparse (cfg_pretty two_spaces false false) p = Some r /\ pr_errors r <> [].
Proof.
  exists kf2_src, (toks_of kf2_src), (tree_of kf2_src).
  repeat (split; [vm_compute; reflexivity|]).
  eexists. split; [vm_compute; reflexivity|]. intro H. discriminate.
Qed.

(* ---- KF3: pretty printing trims blanks at line ends inside a backtick literal ---- *)
Definition kf3_src : str := bs ("x=`a " ++ lf ++ "b`;").

Lemma kf3_pretty_trims_literal_refuted :
  exists src toks p code toks',
    tokenize src = Some toks /\ strings_stable toks = true /\ literals_trim_safe toks = false /\
    m_program p toks = true /\ wf_program p = true /\
    code = r_code (compile (cfg_pretty two_spaces true false) p) /\
    tokenize code = Some toks' /\ map t_type toks' = map t_type toks /\ map t_lit toks' <> map t_lit toks.
Proof.
  exists kf3_src, (toks_of kf3_src), (tree_of kf3_src).
  eexists. eexists.
  repeat (split; [vm_compute; reflexivity|]).
  vm_compute. intro H. discriminate.
Qed.

(* ---- KF4: an assembled if whose then-branch is an else-less if ---- *)
Definition kf4_tree : program :=
  match p_stmts (tree_of (bs "if(a)if(b)c;")), p_stmts (tree_of (bs "if(a)x;else d;")) with
  | [SIf t c th _], [SIf _ _ _ el] => mkprogram [SIf t c th el] eof_tok
  | _, _ => mkprogram [] eof_tok
  end.
Definition outer_else_nil (p : program) : bool :=
  match p_stmts p with [SIf _ _ _ SNil] => true | _ => false end.

Lemma kf4_dangling_else_refuted :
  outer_else_nil (shape_program kf4_tree) = false /\
  exists r, reparse_compact kf4_tree = Some r /\ pr_errors r = [] /\
            outer_else_nil (shape_program (pr_program r)) = true /\
            shape_program (pr_program r) <> shape_program kf4_tree.
Proof.
  split; [vm_compute; reflexivity|].
  eexists. split; [vm_compute; reflexivity|]. split; [reflexivity|]. split; [vm_compute; reflexivity|].
  intro H. apply (f_equal outer_else_nil) in H. vm_compute in H. discriminate.
Qed.

(* ---- KF5: a comment without text is dropped by the pretty printer ---- *)
Definition kf5_src : str := bs ("x" ++ lf ++ "// " ++ lf ++ "y").

Lemma kf5_empty_comment_refuted :
  exists src toks p,
    tokenize src = Some toks /\ m_program p toks = true /\ wf_program p = true /\
    In 47%N src /\ ~ In 47%N (r_code (compile (cfg_pretty two_spaces true false) p)).
Proof.
  exists kf5_src, (toks_of kf5_src), (tree_of kf5_src).
  repeat (split; [vm_compute; reflexivity|]).
  split.
  - vm_compute. right. right. left. reflexivity.
  - vm_compute. intuition discriminate.
Qed.

