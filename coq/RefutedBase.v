(* RefutedBase.v -- helpers for the refutation witnesses (Refuted*.v): byte strings from
   string literals, the tokens and the tree of a source text. *)
Require Import Base Token Lexer Tree Parser.
Require Import Gen.Tables.
From Coq Require Import String Ascii.

Fixpoint bs (s : string) : str :=
  match s with EmptyString => [] | String c r => N_of_ascii c :: bs r end.
Definition lf : string := String (ascii_of_nat 10) EmptyString.

Definition no_tok : token := mktoken T_EOF [] (mkpos 0 0) (mkpos 0 0) false [].
Definition toks_of (src : str) : list token := match tokenize src with Some ts => ts | None => [] end.
Definition tree_of (src : str) : program :=
  match parse_tokens cfg_default (toks_of src) with Some r => pr_program r | None => mkprogram [] no_tok end.
