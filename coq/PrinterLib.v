(* PrinterLib.v -- helpers the generated printer refers to. *)
Require Import Base GoOps Token Tree Writer.
Require Import Gen.Tables.

Section SepMap.
  Context {A : Type} (sep : list wop) (f : A -> list wop).
  (* for i, x := range xs { if i > 0 { sep }; f x } *)
  Fixpoint sep_map (l : list A) : list wop :=
    match l with
    | [] => []
    | x :: l' => f x ++ match l' with [] => [] | _ => sep ++ sep_map l' end
    end.
End SepMap.

Definition is_none {A} (o : option A) : bool := match o with None => true | Some _ => false end.

(* ast.isDecimalIntegerLiteral: an *IntegerLiteral whose token literal consists of the
   bytes '0'..'9' only (a '.' written directly after it would be read as part of the
   numeral; MemberExpression.WriteTo separates the two by a blank). *)
Definition is_decimal_int (e : expr) : bool :=
  match e with
  | EInt t => forallb (fun c => (48 <=? c)%N && (c <=? 57)%N) (t_lit t)
  | _ => false
  end.

Fixpoint assocZ (l : list (Z * Z)) (k d : Z) : Z :=
  match l with
  | [] => d
  | (k', v) :: l' => if k =? k' then v else assocZ l' k d
  end.

(* ast.operatorPrecedence *)
Definition operator_precedence (ty : Z) : Z :=
  assocZ ast_operator_precedence ty ast_operator_precedence_default.

(* strings.ReplaceAll(s, old, new) for a non-empty [old] *)
Fixpoint strip_prefix (p s : str) : option str :=
  match p, s with
  | [], _ => Some s
  | x :: p', y :: s' => if N.eqb x y then strip_prefix p' s' else None
  | _ :: _, [] => None
  end.

Fixpoint replace_all_fuel (fuel : nat) (s old new : str) : str :=
  match fuel with
  | O => s
  | S f =>
      match s with
      | [] => []
      | c :: s' =>
          match strip_prefix old s with
          | Some rest => match old with [] => c :: replace_all_fuel f s' old new
                                   | _ => new ++ replace_all_fuel f rest old new end
          | None => c :: replace_all_fuel f s' old new
          end
      end
  end.
Definition replace_all (s old new : str) : str := replace_all_fuel (S (length s)) s old new.
