(* ParserSpec.v -- vocabulary for the parser / registry property statements. *)
Require Import Base Token Tree Writer Parser Registry.
Require Import Gen.Tables.

Definition set_tolerant (cfg : pcfg) (b : bool) : pcfg :=
  mkpcfg b (c_smart cfg) (c_stmt_ics cfg) (c_expr_ics cfg) (c_prefix_ops cfg) (c_infix_ops cfg) (c_postfix_ops cfg).
Definition set_smart (cfg : pcfg) (b : bool) : pcfg :=
  mkpcfg (c_tolerant cfg) b (c_stmt_ics cfg) (c_expr_ics cfg) (c_prefix_ops cfg) (c_infix_ops cfg) (c_postfix_ops cfg).
(* the same parser without any statement / expression interceptor *)
Definition strip_ics (cfg : pcfg) : pcfg :=
  mkpcfg (c_tolerant cfg) (c_smart cfg) [] [] (c_prefix_ops cfg) (c_infix_ops cfg) (c_postfix_ops cfg).

(* what a parse returns, minus the probes' private log and the scratch register
   currentExpressionPrecedence *)
Record pcore := mkpcore {
  pc_program : program; pc_errors : list perror; pc_err : bool;
  pc_ctx : list Z; pc_cur : token; pc_peek : token }.
Definition core_of_result (r : parse_result) : pcore :=
  mkpcore (pr_program r) (pr_errors r) (pr_err_returned r)
          (ps_ctx (pr_final r)) (ps_cur (pr_final r)) (ps_peek (pr_final r)).

(* the state with events appended to the log, everything else untouched *)
Definition with_log (s : pstate) (evs : list pevent) : pstate :=
  mkps (ps_cur s) (ps_peek s) (ps_rest s) (ps_eof s) (ps_errors s) (ps_ctx s) (ps_cep s) (ps_log s ++ evs).

Definition stmt_probe_ids (ics : list stmt_ic) : list Z :=
  flat_map (fun ic => match ic with SI_Probe id => [id] | SI_Pass => [] end) ics.

Definition is_retag (ic : tok_ic) : bool := match ic with TI_Retag _ _ => true | _ => false end.

(* statement lists never hold nil entries *)
Fixpoint lists_ok_expr (e : expr) : Prop :=
  match e with
  | ENil | EIdent _ | EInt _ | EFloat _ | EString _ _ | ERaw _ _ | EBool _ _ | ENull _ => True
  | ELet _ _ v => lists_ok_expr v
  | EBinary _ l _ r => lists_ok_expr l /\ lists_ok_expr r
  | EUnary _ _ r => lists_ok_expr r
  | EPostfix _ l _ => lists_ok_expr l
  | EGroup _ e _ => lists_ok_expr e
  | ECall _ f args => lists_ok_expr f /\ (fix go (l : list expr) := match l with [] => True | x :: l' => lists_ok_expr x /\ go l' end) args
  | EMember _ o p _ => lists_ok_expr o /\ lists_ok_expr p
  | EAssign _ l v => lists_ok_expr l /\ lists_ok_expr v
  | ECompound _ l _ v => lists_ok_expr l /\ lists_ok_expr v
  | EFunc _ _ _ b => lists_ok_stmt b
  | EArray _ es _ => (fix go (l : list expr) := match l with [] => True | x :: l' => lists_ok_expr x /\ go l' end) es
  | EObject _ ps _ => (fix go (l : list (expr * expr)) := match l with [] => True | kv :: l' => lists_ok_expr (fst kv) /\ lists_ok_expr (snd kv) /\ go l' end) ps
  end
with lists_ok_stmt (s : stmt) : Prop :=
  match s with
  | SNil => True
  | SLet _ _ v => lists_ok_expr v
  | SReturn _ v => lists_ok_expr v
  | SExpr e => lists_ok_expr e
  | SFunc _ _ _ b => lists_ok_stmt b
  | SBlock _ ss _ => (fix go (l : list stmt) := match l with [] => True | x :: l' => x <> SNil /\ lists_ok_stmt x /\ go l' end) ss
  | SIf _ c t e => lists_ok_expr c /\ lists_ok_stmt t /\ lists_ok_stmt e
  | SWhile _ c b => lists_ok_expr c /\ lists_ok_stmt b
  | SFor _ i c u b => lists_ok_expr i /\ lists_ok_expr c /\ lists_ok_expr u /\ lists_ok_stmt b
  end.

Definition lists_ok_program (p : program) : Prop :=
  (fix go (l : list stmt) := match l with [] => True | x :: l' => x <> SNil /\ lists_ok_stmt x /\ go l' end) (p_stmts p).

(* the tokens a parser can see: the list, and the trivia-free EOF the lexer repeats *)
Definition visible_token (toks : list token) (t : token) : Prop :=
  In t toks \/ t = eof_again (last toks zero_token).

(* histories on the lexer builder *)
Fixpoint lb_run (b : lbuilder) (names : list str) : list Z * lbuilder :=
  match names with
  | [] => ([], b)
  | n :: ns => let '(id, b1) := register_token_type b n in
               let '(ids, b2) := lb_run b1 ns in (id :: ids, b2)
  end.

(* renaming a token type in tokens, trees, errors *)
Definition rename_tok (a b : Z) (t : token) : token :=
  if t_type t =? a then mktoken b (t_lit t) (t_start t) (t_end t) (t_nl t) (t_comments t) else t.
Definition rename_ident (a b : Z) (i : ident) : ident := mkident (rename_tok a b (id_tok i)) (id_value i).

Fixpoint rename_expr (a b : Z) (e : expr) : expr :=
  let rt := rename_tok a b in
  match e with
  | ENil => ENil
  | EIdent i => EIdent (rename_ident a b i)
  | EInt t => EInt (rt t)
  | EFloat t => EFloat (rt t)
  | EString t v => EString (rt t) v
  | ERaw t v => ERaw (rt t) v
  | EBool t v => EBool (rt t) v
  | ENull t => ENull (rt t)
  | ELet t n v => ELet (rt t) (rename_ident a b n) (rename_expr a b v)
  | EBinary t l op r => EBinary (rt t) (rename_expr a b l) op (rename_expr a b r)
  | EUnary t op r => EUnary (rt t) op (rename_expr a b r)
  | EPostfix t l op => EPostfix (rt t) (rename_expr a b l) op
  | EGroup t e rp => EGroup (rt t) (rename_expr a b e) (rt rp)
  | ECall t f args => ECall (rt t) (rename_expr a b f) (map (rename_expr a b) args)
  | EMember t o p c => EMember (rt t) (rename_expr a b o) (rename_expr a b p) c
  | EAssign t l v => EAssign (rt t) (rename_expr a b l) (rename_expr a b v)
  | ECompound t l op v => ECompound (rt t) (rename_expr a b l) op (rename_expr a b v)
  | EFunc t n ps body => EFunc (rt t) (option_map (rename_ident a b) n) (map (rename_ident a b) ps) (rename_stmt a b body)
  | EArray t es rb => EArray (rt t) (map (rename_expr a b) es) (rt rb)
  | EObject t ps rb => EObject (rt t) (map (fun kv => (rename_expr a b (fst kv), rename_expr a b (snd kv))) ps) (rt rb)
  end
with rename_stmt (a b : Z) (s : stmt) : stmt :=
  let rt := rename_tok a b in
  match s with
  | SNil => SNil
  | SLet t n v => SLet (rt t) (rename_ident a b n) (rename_expr a b v)
  | SReturn t v => SReturn (rt t) (rename_expr a b v)
  | SExpr e => SExpr (rename_expr a b e)
  | SFunc t n ps body => SFunc (rt t) (rename_ident a b n) (map (rename_ident a b) ps) (rename_stmt a b body)
  | SBlock t ss rb => SBlock (rt t) (map (rename_stmt a b) ss) (rt rb)
  | SIf t c x y => SIf (rt t) (rename_expr a b c) (rename_stmt a b x) (rename_stmt a b y)
  | SWhile t c x => SWhile (rt t) (rename_expr a b c) (rename_stmt a b x)
  | SFor t i c u x => SFor (rt t) (rename_expr a b i) (rename_expr a b c) (rename_expr a b u) (rename_stmt a b x)
  end.

Definition rename_program (a b : Z) (p : program) : program :=
  mkprogram (map (rename_stmt a b) (p_stmts p)) (rename_tok a b (p_eof p)).

(* the built-in binary operators that have no other role in the parser *)
Definition plain_binary_builtins : list Z :=
  [T_PLUS; T_MULTIPLY; T_DIVIDE; T_MODULO; T_EQ; T_NOT_EQ; T_LT; T_GT; T_LTE; T_GTE; T_AND; T_OR].

(* a configuration that knows nothing about token type [ty] *)
Definition fresh_type (cfg : pcfg) (ty : Z) : Prop :=
  T_DYNAMIC_TOKENS_START <= ty /\
  memZ ty (c_prefix_ops cfg) = false /\ memZ ty (c_postfix_ops cfg) = false /\
  assoc_opt (c_infix_ops cfg) ty = None.

Definition add_infix (cfg : pcfg) (ty prec : Z) : pcfg :=
  mkpcfg (c_tolerant cfg) (c_smart cfg) (c_stmt_ics cfg) (c_expr_ics cfg)
         (c_prefix_ops cfg) (c_infix_ops cfg ++ [(ty, prec)]) (c_postfix_ops cfg).
Definition add_prefix (cfg : pcfg) (ty : Z) : pcfg :=
  mkpcfg (c_tolerant cfg) (c_smart cfg) (c_stmt_ics cfg) (c_expr_ics cfg)
         (c_prefix_ops cfg ++ [ty]) (c_infix_ops cfg) (c_postfix_ops cfg).

(* no operator is registered on the end-of-input token (such a plugin makes the real
   parser loop forever at the end of every input) *)
Definition ops_sane (cfg : pcfg) : Prop :=
  memZ T_EOF (c_prefix_ops cfg) = false /\ memZ T_EOF (c_postfix_ops cfg) = false /\
  assoc_opt (c_infix_ops cfg) T_EOF = None.

(* the configuration registers nothing on built-in token type [b] *)
Definition untouched (cfg : pcfg) (b : Z) : Prop :=
  memZ b (c_prefix_ops cfg) = false /\ memZ b (c_postfix_ops cfg) = false /\
  assoc_opt (c_infix_ops cfg) b = None.
