(* LexSpec.v -- specification vocabulary for C10: what "tokens tile the source
   with exact positions" means, independently of how the scanner works. *)
Require Import Base Token Lexer.
Require Import Gen.Tables Gen.Preds.

(* the text removed from [before] to reach its suffix [after] *)
Definition consumed (before after : str) : str :=
  firstn (length before - length after) before.

(* one NextToken call, instrumented: the gap skipped in front of the token, the
   lexeme the token was made from, the token, and the new state *)
Definition step_span (l : lx) : str * str * token * lx :=
  let l1 := read_leading_comments l in
  let '(t, l2) := base_next_token l1 in
  (consumed (l_rest l) (l_rest l1), consumed (l_rest l1) (l_rest l2), t, l2).

Record span := mkspan { sp_gap : str; sp_lexeme : str; sp_tok : token }.

Fixpoint spans_from (fuel : nat) (l : lx) : option (list span) :=
  match fuel with
  | O => None
  | S f =>
      let '(g, x, t, l') := step_span l in
      if t_type t =? T_EOF then Some [mkspan g x t]
      else match spans_from f l' with
           | Some ss => Some (mkspan g x t :: ss)
           | None => None
           end
  end.

Definition spans (src : str) : option (list span) := spans_from (S (length src)) (lx_init src).

(* the source text covered by a list of spans *)
Definition span_text (s : span) : str := sp_gap s ++ sp_lexeme s.
Definition spans_text (ss : list span) : str := concat (map span_text ss).

(* Trivia: blanks (space, tab, CR, LF) and //-comments running to the end of their
   line (or of the input).  Written as a recogniser over the text alone. *)
Fixpoint is_trivia_aux (in_comment : bool) (s : str) : bool :=
  match s with
  | [] => true
  | c :: s' =>
      if in_comment then is_trivia_aux (negb (N.eqb c LF)) s'
      else if N.eqb c 32 || N.eqb c 9 || N.eqb c 10 || N.eqb c 13 then is_trivia_aux false s'
      else match s' with
           | c2 :: s'' => if N.eqb c 47 && N.eqb c2 47 then is_trivia_aux true s'' else false
           | [] => false
           end
  end.
Definition is_trivia (s : str) : bool := is_trivia_aux false s.

Definition has_lf (s : str) : bool := existsb (N.eqb LF) s.

(* offsets of a span's lexeme inside the source, given the text before the span *)
Definition lexeme_start (before : str) (s : span) : nat := length before + length (sp_gap s).
Definition lexeme_end (before : str) (s : span) : nat := lexeme_start before s + length (sp_lexeme s).

(* token classes that must carry exactly their source slice *)
Definition is_word_type (ty : Z) : bool :=
  (ty =? T_IDENT) || (ty =? T_INT) || (ty =? T_FLOAT) ||
  existsb (fun kv => ty =? snd kv) token_keywords.

(* the position facts C10 asks of one token whose lexeme occupies [a, b) of src *)
Definition token_positions_ok (src : str) (a b : nat) (t : token) : Prop :=
  t_start t = pos_of_offset src a /\
  (t_end t = pos_of_offset src b \/ (a < b /\ t_end t = pos_of_offset src (b - 1)))%nat /\
  (b <= length src)%nat.

(* all spans, with the text before each *)
Fixpoint forall_spans (P : str -> span -> Prop) (before : str) (ss : list span) : Prop :=
  match ss with
  | [] => True
  | s :: ss' => P before s /\ forall_spans P (before ++ span_text s) ss'
  end.
