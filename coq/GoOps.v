(* GoOps.v -- the few Go operations on bytes and ints that generated code refers to. *)
Require Import Base.

(* byte(x) for an int x: truncation to 8 bits *)
Definition byte_of_Z (z : Z) : N := Z.to_N (z mod 256).

(* byte arithmetic wraps modulo 256 *)
Definition badd (a b : N) : N := ((a + b) mod 256)%N.
Definition bsub (a b : N) : N := Z.to_N ((Z.of_N a - Z.of_N b) mod 256).

(* string(b) for a byte b is the UTF-8 encoding of the code point U+00bb *)
Definition go_string_of_byte (b : N) : list N :=
  if (b <? 128)%N then [b]
  else [N.lor 192 (N.shiftr b 6); N.lor 128 (N.land b 63)].
