(* AssembledPrettyProofs.v -- the pretty clause of C03: an ASSEMBLED expression tree (arbitrary
   operands, the printer adds the parentheses), wrapped as one expression statement and printed
   by any pretty configuration, lexes and parses back to the parenthesised tree.

   Method: the printer writes for [e] what it writes for [groupify e] (its own parentheses are the
   text of grouping nodes); [groupify e] is a tree whose operands need no parentheses, so the
   per-construct lemmas of PrettyProofs (PrettyJ) apply to it; the single statement is assembled
   as in PrettyProofs.round_trip_pretty_TP, with or without the final semicolon. *)
Require Import Base GoOps Token Lexer LexSpec Tree Writer PrinterLib Compile Parser Grammar
  PrintSpec CommentSpec RelexSpec TokenSpec WriterSpec NestSpec.
Require Import Gen.Tables Gen.Preds Gen.Printer.
Require Import LexerProofs GrammarProofs PrintProofs WriterProofs CommentProofs RelexProofs TokenProofs
  C01Proofs RoundTripProofs NestProofs PrettyProofs.
From Coq Require Import ZifyBool ZifyN ZifyNat Lia.
Import PrettyLex PrettyWr PrettyJ.

(* ================================================================== *)
(* 1. the printer's parentheses are the text of grouping nodes         *)
(* ================================================================== *)

Section TextEq.
Variable indent : str.

Local Notation pc := (PrettyWr.pc indent).
Local Notation prun := (PrettyWr.prun indent).

Lemma pstep_comments_nil st : wstep pc st (WComments []) = st.
Proof. unfold wstep. destruct (w_panic st); reflexivity. Qed.

Lemma ppanic_flush_fold q : forall st,
  w_panic (fold_left (fun s c => if N.eqb c TAB then write_indent pc s else write_raw pc s [c]) q st)
  = w_panic st.
Proof.
  induction q as [|c q IH]; intro st; cbn [fold_left]; [reflexivity|].
  rewrite IH. destruct (N.eqb c TAB); reflexivity.
Qed.

Lemma ppanic_flush st : w_panic (flush_pending pc st) = w_panic st.
Proof. unfold flush_pending. cbn [w_panic]. apply ppanic_flush_fold. Qed.

Lemma pflush_flush st : flush_pending pc (flush_pending pc st) = flush_pending pc st.
Proof. reflexivity. Qed.

Lemma pstep_mapping_rune st p c :
  wstep pc (wstep pc st (WMapping p)) (WRune c) = wstep pc st (WRune c).
Proof.
  destruct (w_panic st) eqn:E.
  - unfold wstep. rewrite E. cbn iota. rewrite E. reflexivity.
  - unfold wstep. rewrite E. cbn [w_map PrettyWr.pc]. cbn iota.
    rewrite ppanic_flush, E. unfold write_rune. rewrite pflush_flush. reflexivity.
Qed.

Lemma prun_grp st x :
  prun st (write_expr (grp x)) =
  wstep pc (wstep pc (prun (wstep pc (wstep pc st (WRune 40)) WIncIndent) (write_expr x)) WDecIndent) (WRune 41).
Proof.
  unfold grp. cbn [write_expr].
  rewrite !prun_cons, prun_app, !prun_cons, prun_nil.
  change (t_comments lp_tok) with (@nil str). change (t_comments rp_tok) with (@nil str).
  rewrite !pstep_comments_nil, pstep_mapping_rune. reflexivity.
Qed.

Lemma prun_sep_map {A} sep (f : A -> list wop) (g : A -> A) (p : A -> bool) l :
  Forall (fun x => p x = true -> forall st, prun st (f (g x)) = prun st (f x)) l ->
  forallb p l = true ->
  forall st, prun st (sep_map sep f (map g l)) = prun st (sep_map sep f l).
Proof.
  induction 1 as [|x l Hx _ IH]; cbn [forallb]; intros Hp st; [reflexivity|].
  apply andb_true_iff in Hp as [Hp1 Hp2]. specialize (IH Hp2).
  cbn [map sep_map]. rewrite !prun_app, (Hx Hp1).
  destruct l as [|y l']; [reflexivity|].
  cbn [map] in *. rewrite !prun_app. apply IH.
Qed.

Ltac norm_prun :=
  repeat (rewrite prun_grp || rewrite prun_app || rewrite prun_cons || rewrite prun_nil).

Lemma groupify_prun : forall e, printable e = true ->
  forall st, prun st (write_expr (groupify e)) = prun st (write_expr e).
Proof.
  induction e using expr_ind'; intros Hp st; try reflexivity; try discriminate Hp.
  - (* EBinary *)
    cbn [printable] in Hp. destruct (binop_level (t_type t)) as [lv|] eqn:Hb; [|discriminate Hp].
    cbn [andb] in Hp. apply andb_true_iff in Hp as [Hp1 Hp2].
    specialize (IHe1 Hp1). specialize (IHe2 Hp2).
    pose proof (binop_level_range _ _ Hb) as Hr.
    cbn [groupify]. rewrite (prec_of_binary _ _ _ _ _ Hb).
    destruct (prec_of e1 <? lv) eqn:E1; destruct (prec_of e2 <=? lv) eqn:E2;
      cbn [write_expr prec_opt];
      rewrite ?prec_opt_grp, ?prec_opt_groupify, (printable_prec_opt _ Hp1), (printable_prec_opt _ Hp2),
        (binop_prec _ _ Hb), ?E1, ?E2;
      replace (13 <? lv) with false by lia; replace (13 <=? lv) with false by lia;
      cbn iota; norm_prun; rewrite ?IHe1, ?IHe2; reflexivity.
  - (* EUnary *)
    cbn [printable] in Hp. apply andb_true_iff in Hp as [_ Hp2]. specialize (IHe Hp2).
    cbn [groupify].
    destruct (prec_of e <? A_PrecedenceUnary) eqn:E;
      cbn [write_expr];
      rewrite ?prec_opt_grp, ?prec_opt_groupify, (printable_prec_opt _ Hp2), ?E;
      change (13 <? A_PrecedenceUnary) with false;
      cbn iota; norm_prun; rewrite ?IHe; reflexivity.
  - (* EPostfix *)
    cbn [printable] in Hp. apply andb_true_iff in Hp as [_ Hp2]. specialize (IHe Hp2).
    cbn [groupify].
    destruct (prec_of e <? A_PrecedencePostfix) eqn:E;
      cbn [write_expr];
      rewrite ?prec_opt_grp, ?prec_opt_groupify, (printable_prec_opt _ Hp2), ?E;
      change (13 <? A_PrecedencePostfix) with false;
      cbn iota; norm_prun; rewrite ?IHe; reflexivity.
  - (* EGroup *)
    cbn [printable] in Hp. cbn [groupify write_expr]. norm_prun. rewrite (IHe Hp). reflexivity.
  - (* ECall *)
    cbn [printable] in Hp. apply andb_true_iff in Hp as [Hp1 Hp3].
    apply andb_true_iff in Hp1 as [_ Hp2].
    cbn [groupify write_expr]. norm_prun. rewrite (IHe Hp2).
    rewrite (prun_sep_map _ (fun arg => write_expr arg ++ []) groupify printable args); [reflexivity| |exact Hp3].
    eapply Forall_impl; [|exact H]. cbn beta. intros a Ha Hpa st'. rewrite !prun_app, (Ha Hpa). reflexivity.
  - (* EMember *)
    cbn [printable] in Hp. apply andb_true_iff in Hp as [Hp1 Hp3].
    apply andb_true_iff in Hp1 as [_ Hp2].
    cbn [groupify write_expr]. rewrite is_decimal_int_groupify.
    destruct c; norm_prun; rewrite (IHe1 Hp2), ?(IHe2 Hp3); reflexivity.
  - (* EAssign *)
    cbn [printable] in Hp. apply andb_true_iff in Hp as [Hp1 Hp3].
    apply andb_true_iff in Hp1 as [_ Hp2].
    cbn [groupify write_expr]. norm_prun. rewrite (IHe1 Hp2), (IHe2 Hp3). reflexivity.
  - (* ECompound *)
    cbn [printable] in Hp. apply andb_true_iff in Hp as [Hp1 Hp3].
    apply andb_true_iff in Hp1 as [_ Hp2].
    cbn [groupify write_expr]. norm_prun. rewrite (IHe1 Hp2), (IHe2 Hp3). reflexivity.
  - (* EArray *)
    cbn [printable] in Hp. cbn [groupify write_expr]. norm_prun.
    rewrite (prun_sep_map _ (fun elem => write_expr elem ++ []) groupify printable es); [reflexivity| |exact Hp].
    eapply Forall_impl; [|exact H]. cbn beta. intros a Ha Hpa st'. rewrite !prun_app, (Ha Hpa). reflexivity.
  - (* EObject *)
    cbn [printable] in Hp. cbn [groupify write_expr]. norm_prun.
    rewrite (prun_sep_map _ (fun prop : expr * expr => write_expr (fst prop) ++ WRune 58 :: WSpace :: write_expr (snd prop) ++ [])
               (fun kv => (fst kv, groupify (snd kv)))
               (fun kv => key_ok (fst kv) && printable (snd kv)) ps0); [reflexivity| |exact Hp].
    eapply Forall_impl; [|exact H]. cbn beta. intros [k v] [_ Hv] Hpa st'. cbn [fst snd] in *.
    apply andb_true_iff in Hpa as [_ Hpv].
    rewrite !prun_app, !prun_cons, !prun_app, (Hv Hpv). reflexivity.
Qed.

End TextEq.

(* ================================================================== *)
(* 2. the side conditions, per node                                    *)
(* ================================================================== *)

(* the tokens stored in an expression tree *)
Definition etoks (e : expr) : list token := map (fun x => fst (fst x)) (nest_expr false false e).
Definition ntoks (l : list nt) : list token := map (fun x : nt => fst (fst x)) l.

Lemma lts_app a b : literals_trim_safe (a ++ b) = true ->
  literals_trim_safe a = true /\ literals_trim_safe b = true.
Proof. unfold literals_trim_safe. rewrite forallb_app. apply andb_true_iff. Qed.

Lemma lts_cons t b : literals_trim_safe (t :: b) = true ->
  blank_eol_free (t_lit t) = true /\ literals_trim_safe b = true.
Proof. unfold literals_trim_safe. cbn [forallb]. apply andb_true_iff. Qed.

Lemma ntoks_app a b : ntoks (a ++ b) = ntoks a ++ ntoks b.
Proof. apply map_app. Qed.

Lemma lts_exprs es : literals_trim_safe (ntoks (nest_exprs false false es)) = true ->
  Forall (fun x => literals_trim_safe (etoks x) = true) es.
Proof.
  induction es as [|x es IH]; intro H; [constructor|].
  rewrite nest_exprs_cons, ntoks_app in H. apply lts_app in H as [H1 H2].
  constructor; [exact H1|exact (IH H2)].
Qed.

Lemma lts_props ps0 : literals_trim_safe (ntoks (nest_props false false ps0)) = true ->
  Forall (fun kv => literals_trim_safe (etoks (fst kv)) = true /\ literals_trim_safe (etoks (snd kv)) = true) ps0.
Proof.
  induction ps0 as [|[k v] ps0 IH]; intro H; [constructor|].
  rewrite nest_props_cons, !ntoks_app in H. apply lts_app in H as [H1 H2]. apply lts_app in H2 as [H2 H3].
  constructor; [split; assumption|exact (IH H3)].
Qed.

Lemma ec_comments t : erase_comments t = t -> t_comments t = [].
Proof. intro H. rewrite <- H. reflexivity. Qed.

Lemma map_id_Forall {A} (f : A -> A) l : map f l = l -> Forall (fun x => f x = x) l.
Proof.
  induction l as [|x l IH]; intro H; [constructor|]. cbn [map] in H. injection H as H1 H2.
  constructor; [exact H1|exact (IH H2)].
Qed.

Lemma NLF_nil : NLF []. Proof. constructor. Qed.

(* ================================================================== *)
(* 3. the parenthesised tree satisfies the invariant of PrettyProofs   *)
(* ================================================================== *)

Section Assembled.
Variable indent : str.
Hypothesis indent_blank : blank_str indent.

Local Notation pc := (PrettyWr.pc indent).
Local Notation prun := (PrettyWr.prun indent).
Local Notation PE := (PrettyJ.PE indent).
Local Notation PEx := (PrettyJ.PEx indent).

Lemma PE_grp x : PE x [] -> PE (grp x) [].
Proof.
  intro H. exact (P_group indent indent_blank lp_tok x rp_tok [] eq_refl eq_refl NLF_nil NLF_nil H).
Qed.

Lemma PE_wrap (b : bool) x : PE x [] -> PE (if b then grp x else x) [].
Proof. destruct b; [apply PE_grp|auto]. Qed.

Lemma wrap_prec_lt x k : printable x = true -> k <= 13 ->
  exists pv, prec_opt (if prec_of x <? k then grp (groupify x) else groupify x) = Some pv /\ (pv <? k) = false.
Proof.
  intros Hp Hk. destruct (prec_of x <? k) eqn:E.
  - exists 13. split; [reflexivity|lia].
  - exists (prec_of x). rewrite prec_opt_groupify. split; [apply printable_prec_opt; exact Hp|exact E].
Qed.

Lemma wrap_prec_le x k : printable x = true -> k < 13 ->
  exists pv, prec_opt (if prec_of x <=? k then grp (groupify x) else groupify x) = Some pv /\ (pv <=? k) = false.
Proof.
  intros Hp Hk. destruct (prec_of x <=? k) eqn:E.
  - exists 13. split; [reflexivity|lia].
  - exists (prec_of x). rewrite prec_opt_groupify. split; [apply printable_prec_opt; exact Hp|exact E].
Qed.

Definition AH (e : expr) : Prop :=
  printable e = true -> lexical e = true -> tmap_expr erase_comments e = e ->
  literals_trim_safe (etoks e) = true -> PE (groupify e) [].

Lemma A_ident i : AH (EIdent i).
Proof.
  intros Hp Hl Hc Hs. cbn [groupify]. cbn [tmap_expr] in Hc. injection Hc as Hc.
  apply (f_equal id_tok) in Hc. cbn [tmap_ident id_tok] in Hc.
  apply (P_ident indent indent_blank i [] Hl (ec_comments _ Hc) NLF_nil).
Qed.

Lemma A_int t : AH (EInt t).
Proof.
  intros Hp Hl Hc Hs. cbn [groupify]. cbn [tmap_expr] in Hc. injection Hc as Hc.
  unfold etoks in Hs. rewrite nest_EInt in Hs. cbn [map fst] in Hs. apply lts_cons in Hs as [Hs _].
  exact (P_int indent indent_blank t [] Hl Hs (ec_comments _ Hc) NLF_nil).
Qed.

Lemma A_float t : AH (EFloat t).
Proof.
  intros Hp Hl Hc Hs. cbn [groupify]. cbn [tmap_expr] in Hc. injection Hc as Hc.
  unfold etoks in Hs. rewrite nest_EFloat in Hs. cbn [map fst] in Hs. apply lts_cons in Hs as [Hs _].
  exact (P_float indent indent_blank t [] Hl Hs (ec_comments _ Hc) NLF_nil).
Qed.

Lemma A_string t v : AH (EString t v).
Proof.
  intros Hp Hl Hc Hs. cbn [groupify]. cbn [tmap_expr] in Hc. injection Hc as Hc.
  unfold etoks in Hs. rewrite nest_EString in Hs. cbn [map fst] in Hs. apply lts_cons in Hs as [Hs _].
  assert (Ev : v = t_lit t).
  { cbn [lexical] in Hl. apply andb_true_iff in Hl as [Hl _]. apply andb_true_iff in Hl as [_ Hl].
    apply str_eqb_spec in Hl. exact Hl. }
  rewrite <- Ev in Hs.
  exact (P_string indent indent_blank t v [] Hl Hs (ec_comments _ Hc) NLF_nil).
Qed.

Lemma A_raw t v : AH (ERaw t v).
Proof.
  intros Hp Hl Hc Hs. cbn [groupify]. cbn [tmap_expr] in Hc. injection Hc as Hc.
  unfold etoks in Hs. rewrite nest_ERaw in Hs. cbn [map fst] in Hs. apply lts_cons in Hs as [Hs _].
  assert (Ev : v = t_lit t).
  { cbn [lexical] in Hl. apply andb_true_iff in Hl as [Hl _]. apply andb_true_iff in Hl as [_ Hl].
    apply str_eqb_spec in Hl. exact Hl. }
  rewrite <- Ev in Hs.
  exact (P_raw indent indent_blank t v [] Hl Hs (ec_comments _ Hc) NLF_nil).
Qed.

Lemma A_bool t b : AH (EBool t b).
Proof.
  intros Hp Hl Hc Hs. cbn [groupify]. cbn [tmap_expr] in Hc. injection Hc as Hc.
  exact (P_bool indent indent_blank t b [] Hl (ec_comments _ Hc) NLF_nil).
Qed.

Lemma A_null t : AH (ENull t).
Proof.
  intros Hp Hl Hc Hs. cbn [groupify]. cbn [tmap_expr] in Hc. injection Hc as Hc.
  exact (P_null indent indent_blank t [] Hl (ec_comments _ Hc) NLF_nil).
Qed.


Lemma etoks_binary t l op r : etoks (EBinary t l op r) = etoks l ++ t :: etoks r.
Proof. unfold etoks. rewrite nest_EBinary, map_app. reflexivity. Qed.
Lemma etoks_unary t op r : etoks (EUnary t op r) = t :: etoks r.
Proof. unfold etoks. rewrite nest_EUnary. reflexivity. Qed.
Lemma etoks_postfix t l op : etoks (EPostfix t l op) = etoks l ++ [t].
Proof. unfold etoks. rewrite nest_EPostfix, map_app. reflexivity. Qed.
Lemma etoks_group t x rp : etoks (EGroup t x rp) = t :: etoks x ++ [rp].
Proof. unfold etoks. rewrite nest_EGroup. cbn [map fst]. rewrite map_app. reflexivity. Qed.
Lemma etoks_call t f args : etoks (ECall t f args) = etoks f ++ t :: ntoks (nest_exprs false false args).
Proof. unfold etoks. rewrite nest_ECall, map_app. reflexivity. Qed.
Lemma etoks_member t o p c : etoks (EMember t o p c) = etoks o ++ t :: etoks p.
Proof. unfold etoks. rewrite nest_EMember, map_app. reflexivity. Qed.
Lemma etoks_assign t l v : etoks (EAssign t l v) = etoks l ++ t :: etoks v.
Proof. unfold etoks. rewrite nest_EAssign, map_app. reflexivity. Qed.
Lemma etoks_compound t l op v : etoks (ECompound t l op v) = etoks l ++ t :: etoks v.
Proof. unfold etoks. rewrite nest_ECompound, map_app. reflexivity. Qed.
Lemma etoks_array t es rb : etoks (EArray t es rb) = t :: ntoks (nest_exprs false false es) ++ [rb].
Proof. unfold etoks. rewrite nest_EArray. cbn [map fst]. rewrite map_app. reflexivity. Qed.
Lemma etoks_object t ps0 rb : etoks (EObject t ps0 rb) = t :: ntoks (nest_props false false ps0) ++ [rb].
Proof. unfold etoks. rewrite nest_EObject. cbn [map fst]. rewrite map_app. reflexivity. Qed.

Lemma A_binary t l op r : AH l -> AH r -> AH (EBinary t l op r).
Proof.
  intros IHl IHr Hp Hl Hc Hs.
  cbn [printable lexical] in Hp, Hl.
  destruct (binop_level (t_type t)) as [lv|] eqn:Hbl; [|discriminate Hp]. cbn [andb] in Hp.
  apply andb_true_iff in Hp as [Hp1 Hp2].
  apply andb_true_iff in Hl as [Hl Hl4]. apply andb_true_iff in Hl as [Hl Hl3].
  apply andb_true_iff in Hl as [Hl1 Hl2]. apply str_eqb_spec in Hl2.
  destruct (punct_inv _ _ Hl1) as [_ TT].
  cbn [tmap_expr] in Hc. injection Hc as Hct Hc1 Hc2.
  rewrite etoks_binary in Hs. apply lts_app in Hs as [Hs1 Hs2]. apply lts_cons in Hs2 as [_ Hs2].
  pose proof (binop_level_range _ _ Hbl) as Hr.
  cbn [groupify]. rewrite (prec_of_binary _ _ _ _ _ Hbl).
  destruct (wrap_prec_lt l lv Hp1 ltac:(lia)) as (pl & Pl & Cl).
  destruct (wrap_prec_le r lv Hp2 ltac:(lia)) as (pr & Pr & Cr).
  apply (P_binary indent indent_blank t _ op _ lv pl pr [] [] Hbl TT Hl2 Pl Cl Pr Cr).
  - rewrite (ec_comments _ Hct). exact NLF_nil.
  - apply PE_wrap. exact (IHl Hp1 Hl3 Hc1 Hs1).
  - apply PE_wrap. exact (IHr Hp2 Hl4 Hc2 Hs2).
Qed.

Lemma A_unary t op r : AH r -> AH (EUnary t op r).
Proof.
  intros IHr Hp Hl Hc Hs. cbn [printable lexical] in Hp, Hl.
  apply andb_true_iff in Hp as [Hp1 Hp2].
  apply andb_true_iff in Hl as [Hl Hl3]. apply andb_true_iff in Hl as [Hl1 Hl2].
  apply str_eqb_spec in Hl2. destruct (punct_inv _ _ Hl1) as [_ TT].
  assert (Tys : (t_type t =? T_NOT) || (t_type t =? T_MINUS) || (t_type t =? T_INCREMENT) || (t_type t =? T_DECREMENT) = true).
  { destruct ((t_type t =? T_INCREMENT) || (t_type t =? T_DECREMENT)) eqn:E; lia. }
  cbn [tmap_expr] in Hc. injection Hc as Hct Hc1.
  rewrite etoks_unary in Hs. apply lts_cons in Hs as [_ Hs].
  cbn [groupify].
  destruct (wrap_prec_lt r A_PrecedenceUnary Hp2 ltac:(unfold A_PrecedenceUnary; lia)) as (pr & Pr & Cr).
  pose proof (P_unary indent indent_blank t op _ pr [] TT Hl2 Tys Pr Cr) as Q.
  rewrite (ec_comments _ Hct) in Q. apply Q; [exact NLF_nil|].
  apply PE_wrap. exact (IHr Hp2 Hl3 Hc1 Hs).
Qed.

Lemma A_postfix t l op : AH l -> AH (EPostfix t l op).
Proof.
  intros IHl Hp Hl Hc Hs. cbn [printable lexical] in Hp, Hl.
  apply andb_true_iff in Hp as [Hp Hp2]. apply andb_true_iff in Hp as [Tys _].
  apply andb_true_iff in Hl as [Hl Hl3]. apply andb_true_iff in Hl as [Hl1 Hl2].
  apply str_eqb_spec in Hl2. destruct (punct_inv _ _ Hl1) as [_ TT].
  cbn [tmap_expr] in Hc. injection Hc as Hct Hc1.
  rewrite etoks_postfix in Hs. apply lts_app in Hs as [Hs _].
  cbn [groupify].
  destruct (wrap_prec_lt l A_PrecedencePostfix Hp2 ltac:(unfold A_PrecedencePostfix; lia)) as (pl & Pl & Cl).
  apply (P_postfix indent t _ op pl [] TT Hl2 Tys Pl Cl (ec_comments _ Hct)).
  apply PE_wrap. exact (IHl Hp2 Hl3 Hc1 Hs).
Qed.

Lemma A_group lp e rp : AH e -> AH (EGroup lp e rp).
Proof.
  intros IHe Hp Hl Hc Hs. cbn [printable lexical] in Hp, Hl.
  apply andb_true_iff in Hl as [Hl Hl3]. apply andb_true_iff in Hl as [Hl1 Hl2].
  cbn [tmap_expr] in Hc. injection Hc as Hc1 Hc2 Hc3.
  rewrite etoks_group in Hs. apply lts_cons in Hs as [_ Hs]. apply lts_app in Hs as [Hs _].
  cbn [groupify].
  pose proof (P_group indent indent_blank lp (groupify e) rp [] Hl1 Hl2) as Q.
  rewrite (ec_comments _ Hc1), (ec_comments _ Hc3) in Q.
  exact (Q NLF_nil NLF_nil (IHe Hp Hl3 Hc2 Hs)).
Qed.

Lemma AH_list l : Forall AH l -> forallb printable l = true -> forallb lexical l = true ->
  map (tmap_expr erase_comments) l = l ->
  literals_trim_safe (ntoks (nest_exprs false false l)) = true -> Forall PEx (map groupify l).
Proof.
  induction 1 as [|x l Hx _ IH]; intros Hp Hl Hc Hs; [constructor|].
  cbn [forallb] in Hp, Hl. apply andb_true_iff in Hp as [Hp1 Hp2]. apply andb_true_iff in Hl as [Hl1 Hl2].
  cbn [map] in Hc. injection Hc as Hc1 Hc2.
  rewrite nest_exprs_cons, ntoks_app in Hs. apply lts_app in Hs as [Hs1 Hs2].
  cbn [map]. constructor; [|exact (IH Hp2 Hl2 Hc2 Hs2)].
  exists []. exact (Hx Hp1 Hl1 Hc1 Hs1).
Qed.

Lemma A_call t f args : AH f -> Forall AH args -> AH (ECall t f args).
Proof.
  intros IHf IHa Hp Hl Hc Hs. cbn [printable lexical] in Hp, Hl.
  apply andb_true_iff in Hp as [Hp Hp3]. apply andb_true_iff in Hp as [_ Hp2].
  apply andb_true_iff in Hl as [Hl Hl3]. apply andb_true_iff in Hl as [Hl1 Hl2].
  destruct (punct_inv _ _ Hl1) as [Ty TT]. rewrite type_text_lparen in TT. inversion TT as [Li].
  cbn [tmap_expr] in Hc. injection Hc as Hct Hc1 Hc2.
  rewrite etoks_call in Hs. apply lts_app in Hs as [Hs1 Hs2]. apply lts_cons in Hs2 as [_ Hs2].
  cbn [groupify].
  apply (P_call indent indent_blank t _ _ [] Ty (eq_sym Li)).
  - rewrite (ec_comments _ Hct). exact NLF_nil.
  - exact (IHf Hp2 Hl2 Hc1 Hs1).
  - exact (AH_list args IHa Hp3 Hl3 Hc2 Hs2).
Qed.

Lemma obj_ok_groupify e : obj_ok (groupify e) = obj_ok e.
Proof. destruct e; reflexivity. Qed.

Lemma A_member t o p c : AH o -> AH p -> AH (EMember t o p c).
Proof.
  intros IHo IHp Hp Hl Hc Hs. cbn [printable lexical] in Hp, Hl.
  apply andb_true_iff in Hp as [Hp Hp3]. apply andb_true_iff in Hp as [Hpc Hp2].
  apply andb_true_iff in Hl as [Hl1 Hl].
  cbn [tmap_expr] in Hc. injection Hc as Hct Hc1 Hc2.
  rewrite etoks_member in Hs. apply lts_app in Hs as [Hs1 Hs2]. apply lts_cons in Hs2 as [_ Hs2].
  pose proof (IHo Hp2 Hl1 Hc1 Hs1) as Jo.
  cbn [groupify]. destruct c.
  - apply andb_true_iff in Hl as [Hl2 Hl3].
    destruct (punct_inv _ _ Hl2) as [Ty TT]. rewrite type_text_lbracket in TT. inversion TT as [Li].
    apply (P_member_computed indent indent_blank t _ _ [] [] Ty (eq_sym Li)).
    + rewrite (ec_comments _ Hct). exact NLF_nil.
    + exact Jo.
    + exact (IHp Hp3 Hl3 Hc2 Hs2).
  - apply andb_true_iff in Hl as [Hl2 Hl3].
    destruct (punct_inv _ _ Hl2) as [Ty TT]. rewrite type_text_dot in TT. inversion TT as [Li].
    destruct p; try discriminate Hl3.
    cbn [tmap_expr] in Hc2. injection Hc2 as Hc2. apply (f_equal id_tok) in Hc2. cbn [tmap_ident id_tok] in Hc2.
    apply (P_member_dot indent indent_blank t _ i [] Ty (eq_sym Li)).
    + rewrite (ec_comments _ Hct). exact NLF_nil.
    + exact Hl3.
    + rewrite (ec_comments _ Hc2). exact NLF_nil.
    + rewrite obj_ok_groupify. apply obj_ok_prec; assumption.
    + exact Jo.
Qed.

Lemma A_assign t l v : AH l -> AH v -> AH (EAssign t l v).
Proof.
  intros IHl IHv Hp Hl Hc Hs. cbn [printable lexical] in Hp, Hl.
  apply andb_true_iff in Hp as [Hp Hp3]. apply andb_true_iff in Hp as [_ Hp2].
  apply andb_true_iff in Hl as [Hl Hl3]. apply andb_true_iff in Hl as [Hl1 Hl2].
  destruct (punct_inv _ _ Hl1) as [Ty TT]. rewrite type_text_assign in TT. inversion TT as [Li].
  cbn [tmap_expr] in Hc. injection Hc as Hct Hc1 Hc2.
  rewrite etoks_assign in Hs. apply lts_app in Hs as [Hs1 Hs2]. apply lts_cons in Hs2 as [_ Hs2].
  cbn [groupify].
  apply (P_assign indent indent_blank t _ _ [] [] Ty (eq_sym Li)).
  - rewrite (ec_comments _ Hct). exact NLF_nil.
  - exact (IHl Hp2 Hl2 Hc1 Hs1).
  - exact (IHv Hp3 Hl3 Hc2 Hs2).
Qed.

Lemma A_compound t l op v : AH l -> AH v -> AH (ECompound t l op v).
Proof.
  intros IHl IHv Hp Hl Hc Hs. cbn [printable lexical] in Hp, Hl.
  apply andb_true_iff in Hp as [Hp Hp3]. apply andb_true_iff in Hp as [_ Hp2].
  apply andb_true_iff in Hl as [Hl Hl3]. apply andb_true_iff in Hl as [Hl1 Hl2].
  assert (C : exists ty, (ty = T_PLUS_ASSIGN \/ ty = T_MINUS_ASSIGN) /\ t_type t = ty /\
                         type_text ty = Some (op ++ [61%N]) /\ t_lit t = op ++ [61%N] /\
                         (if ty =? T_PLUS_ASSIGN then Some [43%N]
                          else if ty =? T_MINUS_ASSIGN then Some [45%N] else None) = Some op).
  { apply orb_true_iff in Hl1 as [H|H]; apply andb_true_iff in H as [H1 H2];
      apply str_eqb_spec in H2; subst op; destruct (punct_inv _ _ H1) as [Ty TT].
    - exists T_PLUS_ASSIGN. split; [left; reflexivity|]. split; [exact Ty|]. split; [reflexivity|].
      split; [|reflexivity]. inversion TT. reflexivity.
    - exists T_MINUS_ASSIGN. split; [right; reflexivity|]. split; [exact Ty|]. split; [reflexivity|].
      split; [|reflexivity]. inversion TT. reflexivity. }
  destruct C as (ty & Hty & Ty & TT & Li & Want).
  cbn [tmap_expr] in Hc. injection Hc as Hct Hc1 Hc2.
  rewrite etoks_compound in Hs. apply lts_app in Hs as [Hs1 Hs2]. apply lts_cons in Hs2 as [_ Hs2].
  cbn [groupify].
  apply (P_compound indent indent_blank t _ op _ ty [] [] Hty Ty TT Li Want).
  - rewrite (ec_comments _ Hct). exact NLF_nil.
  - exact (IHl Hp2 Hl2 Hc1 Hs1).
  - exact (IHv Hp3 Hl3 Hc2 Hs2).
Qed.

Lemma A_array lb es rb : Forall AH es -> AH (EArray lb es rb).
Proof.
  intros IHa Hp Hl Hc Hs. cbn [printable lexical] in Hp, Hl.
  apply andb_true_iff in Hl as [Hl Hl3]. apply andb_true_iff in Hl as [Hl1 Hl2].
  cbn [tmap_expr] in Hc. injection Hc as Hc1 Hc2 Hc3.
  rewrite etoks_array in Hs. apply lts_cons in Hs as [_ Hs]. apply lts_app in Hs as [Hs _].
  cbn [groupify].
  pose proof (P_array indent indent_blank lb (map groupify es) rb Hl1 Hl2) as Q.
  rewrite (ec_comments _ Hc1), (ec_comments _ Hc3) in Q.
  exact (Q NLF_nil NLF_nil (AH_list es IHa Hp Hl3 Hc2 Hs)).
Qed.

Lemma AH_props ps0 : Forall (fun kv => AH (fst kv) /\ AH (snd kv)) ps0 ->
  forallb (fun kv => key_ok (fst kv) && printable (snd kv)) ps0 = true ->
  forallb (fun kv => lexical (fst kv) && lexical (snd kv)) ps0 = true ->
  map (fun kv => (tmap_expr erase_comments (fst kv), tmap_expr erase_comments (snd kv))) ps0 = ps0 ->
  literals_trim_safe (ntoks (nest_props false false ps0)) = true ->
  Forall (fun kv => key_ok (fst kv) = true /\ PEx (fst kv) /\ PEx (snd kv))
         (map (fun kv => (fst kv, groupify (snd kv))) ps0).
Proof.
  induction 1 as [|[k v] ps0 [Hk Hv] _ IH]; intros Hp Hl Hc Hs; [constructor|].
  cbn [forallb fst snd] in *.
  apply andb_true_iff in Hp as [Hp1 Hp2]. apply andb_true_iff in Hp1 as [Kk Pv].
  apply andb_true_iff in Hl as [Hl1 Hl2]. apply andb_true_iff in Hl1 as [Lk Lv].
  cbn [map fst snd] in Hc. injection Hc as Hck Hcv Hc2.
  rewrite nest_props_cons, !ntoks_app in Hs. apply lts_app in Hs as [Hsk Hs]. apply lts_app in Hs as [Hsv Hs2].
  cbn [map fst snd]. constructor; [|exact (IH Hp2 Hl2 Hc2 Hs2)]. cbn [fst snd].
  split; [exact Kk|]. split.
  - exists []. rewrite <- (key_groupify k Kk). exact (Hk (key_printable _ Kk) Lk Hck Hsk).
  - exists []. exact (Hv Pv Lv Hcv Hsv).
Qed.

Lemma A_object lb ps0 rb : Forall (fun kv => AH (fst kv) /\ AH (snd kv)) ps0 -> AH (EObject lb ps0 rb).
Proof.
  intros IHp Hp Hl Hc Hs. cbn [printable lexical] in Hp, Hl.
  apply andb_true_iff in Hl as [Hl Hl3]. apply andb_true_iff in Hl as [Hl1 Hl2].
  cbn [tmap_expr] in Hc. injection Hc as Hc1 Hc2 Hc3.
  rewrite etoks_object in Hs. apply lts_cons in Hs as [_ Hs]. apply lts_app in Hs as [Hs _].
  cbn [groupify].
  pose proof (P_object indent indent_blank lb (map (fun kv => (fst kv, groupify (snd kv))) ps0) rb Hl1) as Q.
  rewrite (ec_comments _ Hc1), (ec_comments _ Hc3) in Q.
  apply Q; [|exact NLF_nil|exact NLF_nil|exact (AH_props ps0 IHp Hp Hl2 Hc2 Hs)].
  destruct ps0; exact Hl3.
Qed.

Lemma A_all : forall e, AH e.
Proof.
  induction e using expr_ind'; try (intros Hp; discriminate Hp).
  - apply A_ident.
  - apply A_int.
  - apply A_float.
  - apply A_string.
  - apply A_raw.
  - apply A_bool.
  - apply A_null.
  - apply A_binary; assumption.
  - apply A_unary; assumption.
  - apply A_postfix; assumption.
  - apply A_group; assumption.
  - apply A_call; assumption.
  - apply A_member; assumption.
  - apply A_assign; assumption.
  - apply A_compound; assumption.
  - apply A_array; assumption.
  - apply A_object; assumption.
Qed.

End Assembled.

(* ================================================================== *)
(* 4. the text of an expression does not end in a space character      *)
(* ================================================================== *)

Definition good_op (o : wop) : Prop :=
  match o with
  | WString s => s <> [] /\ is_space_go (last s 0%N) = false
  | WRune c => is_space_go c = false
  | _ => False
  end.

Definition ends_good (ops : list wop) : Prop := exists ops0 o, ops = ops0 ++ [o] /\ good_op o.

Lemma ends_good_app a b : ends_good b -> ends_good (a ++ b).
Proof. intros (b0 & o & -> & G). exists (a ++ b0), o. split; [apply app_assoc|exact G]. Qed.
Lemma ends_good_cons o b : ends_good b -> ends_good (o :: b).
Proof. apply (ends_good_app [o] b). Qed.
Lemma ends_good_one o : good_op o -> ends_good [o].
Proof. intro G. exists [], o. split; [reflexivity|exact G]. Qed.
Lemma ends_good_nil_r a : ends_good a -> ends_good (a ++ []).
Proof. rewrite app_nil_r. auto. Qed.

Lemma forallb_last (p : N -> bool) s : forallb p s = true -> s <> [] -> p (last s 0%N) = true.
Proof.
  induction s as [|c s IH]; intros H Ne; [congruence|]. cbn [forallb] in H. apply andb_true_iff in H as [Hc Hs].
  destruct s as [|d s']; [exact Hc|]. change (last (c :: d :: s') 0%N) with (last (d :: s') 0%N).
  apply IH; [exact Hs|discriminate].
Qed.

Lemma ident_char_nsp c : is_ident_char c = true -> is_space_go c = false.
Proof. unfold is_ident_char, isLetter, isDigit, is_space_go. lia. Qed.

Lemma word_good ty lit : relex_word ty lit = true -> is_word_type ty = true -> ty <> T_INT -> ty <> T_FLOAT ->
  good_op (WString lit).
Proof.
  intros H W NI NF. destruct (word_chars _ _ H W NI NF) as [All Ne]. split; [exact Ne|].
  apply ident_char_nsp. exact (forallb_last _ _ All Ne).
Qed.

Lemma digit_val_nsp c d : digit_val c = Some d -> is_space_go c = false.
Proof.
  unfold digit_val, is_space_go. intro D.
  destruct ((48 <=? c)%N && (c <=? 57)%N) eqn:E1; [lia|].
  destruct ((97 <=? c)%N && (c <=? 102)%N) eqn:E2; [lia|].
  destruct ((65 <=? c)%N && (c <=? 70)%N) eqn:E3; [lia|discriminate D].
Qed.

Lemma digits_value_last_nsp base : forall ds acc v, digits_value base ds acc = Some v -> ds <> [] ->
  is_space_go (last ds 0%N) = false.
Proof.
  induction ds as [|c ds IH]; intros acc v H Ne; [congruence|].
  cbn [digits_value] in H. destruct (digit_val c) as [d|] eqn:D; [|discriminate H].
  destruct (d <? base); [|discriminate H].
  destruct ds as [|c2 ds'].
  - cbn [last]. exact (digit_val_nsp _ _ D).
  - change (last (c :: c2 :: ds') 0%N) with (last (c2 :: ds') 0%N). eapply IH; [exact H|discriminate].
Qed.

Lemma go_int_last_nsp lit : go_int_ok lit = true -> is_space_go (last lit 0%N) = false.
Proof.
  unfold go_int_ok. intro H.
  assert (D : forall base ds, ds <> [] -> int_in_range (digits_value base ds 0) = true ->
              is_space_go (last ds 0%N) = false).
  { intros base ds Ne Q. destruct (in_range_some _ Q) as [v E]. exact (digits_value_last_nsp base ds 0 v E Ne). }
  destruct lit as [|a [|c ds]]; [discriminate H| |].
  - destruct (N.eqb_spec a 48).
    + subst a. reflexivity.
    + assert (Q : int_in_range (digits_value 10 [a] 0) = true) by (destruct a as [|p]; [exact H|]; repeat (destruct p as [p|p|]; try exact H)).
      exact (D 10 [a] ltac:(discriminate) Q).
  - assert (Hl : forall x, last (x :: c :: ds) 0%N = last (c :: ds) 0%N) by reflexivity.
    destruct (N.eqb_spec a 48) as [->|Na].
    + rewrite Hl.
      destruct (N.eqb c 120 || N.eqb c 88).
      { destruct ds as [|d ds']; [discriminate H|]. change (last (c :: d :: ds') 0%N) with (last (d :: ds') 0%N).
        exact (D 16 (d :: ds') ltac:(discriminate) H). }
      destruct (N.eqb c 98 || N.eqb c 66).
      { destruct ds as [|d ds']; [discriminate H|]. change (last (c :: d :: ds') 0%N) with (last (d :: ds') 0%N).
        exact (D 2 (d :: ds') ltac:(discriminate) H). }
      destruct (N.eqb c 111 || N.eqb c 79).
      { destruct ds as [|d ds']; [discriminate H|]. change (last (c :: d :: ds') 0%N) with (last (d :: ds') 0%N).
        exact (D 8 (d :: ds') ltac:(discriminate) H). }
      exact (D 8 (c :: ds) ltac:(discriminate) H).
    + assert (Q : int_in_range (digits_value 10 (a :: c :: ds) 0) = true).
      { destruct a as [|p]; [exact H|]. repeat (destruct p as [p|p|]; try exact H). congruence. }
      exact (D 10 (a :: c :: ds) ltac:(discriminate) Q).
Qed.

Lemma digit_nsp c : isDigit c = true -> is_space_go c = false.
Proof. unfold isDigit, is_space_go. lia. Qed.

Ltac eg_tac :=
  cbn [app]; rewrite ?app_nil_r;
  repeat first [ apply ends_good_one; reflexivity
               | assumption
               | apply ends_good_cons
               | apply ends_good_app ].

Lemma write_ends_good : forall e, printable e = true -> lexical e = true -> ends_good (write_expr e).
Proof.
  induction e; intros Hp Hl; try discriminate Hp; cbn [write_expr].
  - (* EIdent *)
    unfold write_ident. do 2 apply ends_good_cons. apply ends_good_one.
    unfold ident_lexical in Hl. apply andb_true_iff in Hl as [_ H3].
    exact (word_good _ _ H3 eq_refl ltac:(discriminate) ltac:(discriminate)).
  - (* EInt *)
    cbn [lexical] in Hl. apply andb_true_iff in Hl as [_ H3].
    do 2 apply ends_good_cons. apply ends_good_one. split; [|exact (go_int_last_nsp _ H3)].
    intro E. rewrite E in H3. discriminate H3.
  - (* EFloat *)
    cbn [lexical] in Hl. apply andb_true_iff in Hl as [_ H3]. pose proof (go_float_last _ H3) as D.
    do 2 apply ends_good_cons. apply ends_good_one. split.
    + intro E. rewrite E in D. destruct D as [D|D]; discriminate D.
    + destruct D as [D|D]; [exact (digit_nsp _ D)|rewrite D; reflexivity].
  - (* EString *) eg_tac.
  - (* ERaw *) eg_tac.
  - (* EBool *)
    cbn [lexical] in Hl. apply andb_true_iff in Hl as [H1 H2].
    assert (W : is_word_type (t_type t) = true /\ t_type t <> T_INT /\ t_type t <> T_FLOAT).
    { assert (Ty : t_type t = T_TRUE \/ t_type t = T_FALSE) by lia.
      destruct Ty as [-> | ->]; repeat split; discriminate. }
    destruct W as (W1 & W2 & W3).
    do 2 apply ends_good_cons. apply ends_good_one. exact (word_good _ _ H2 W1 W2 W3).
  - (* ENull *)
    do 2 apply ends_good_cons. apply ends_good_one. split; [discriminate|reflexivity].
  - (* EBinary *)
    cbn [printable lexical] in Hp, Hl.
    destruct (binop_level (t_type t)); [|discriminate Hp]. cbn [andb] in Hp.
    apply andb_true_iff in Hp as [Hp1 Hp2].
    apply andb_true_iff in Hl as [Hl Hl4]. apply andb_true_iff in Hl as [_ Hl3].
    pose proof (IHe2 Hp2 Hl4) as G2.
    rewrite (printable_prec_opt _ Hp1), (printable_prec_opt _ Hp2). cbv zeta.
    destruct (prec_of e2 <=? _); eg_tac.
  - (* EUnary *)
    cbn [printable lexical] in Hp, Hl.
    apply andb_true_iff in Hp as [_ Hp2]. apply andb_true_iff in Hl as [_ Hl3].
    pose proof (IHe Hp2 Hl3) as G2.
    rewrite (printable_prec_opt _ Hp2).
    destruct (prec_of e <? _); eg_tac.
  - (* EPostfix *)
    cbn [printable lexical] in Hp, Hl.
    apply andb_true_iff in Hp as [Hp Hp2]. apply andb_true_iff in Hp as [Tys _].
    apply andb_true_iff in Hl as [Hl Hl3]. apply andb_true_iff in Hl as [Hl1 Hl2].
    apply str_eqb_spec in Hl2. subst op. destruct (punct_inv _ _ Hl1) as [_ TT].
    assert (Hs : t_lit t = [43; 43]%N \/ t_lit t = [45; 45]%N).
    { apply orb_true_iff in Tys as [T1|T1]; apply Z.eqb_eq in T1; rewrite T1 in TT; inversion TT; auto. }
    rewrite (printable_prec_opt _ Hp2).
    assert (G : good_op (WString (t_lit t))) by (destruct Hs as [-> | ->]; split; [discriminate|reflexivity|discriminate|reflexivity]).
    apply ends_good_cons. apply ends_good_app. apply ends_good_cons. apply ends_good_one. exact G.
  - (* EGroup *) eg_tac.
  - (* ECall *) eg_tac.
  - (* EMember *)
    cbn [printable lexical] in Hp, Hl.
    apply andb_true_iff in Hl as [_ Hl]. destruct computed.
    + eg_tac.
    + apply andb_true_iff in Hl as [_ Hl3]. destruct e2; try discriminate Hl3.
      pose proof (IHe2 eq_refl Hl3) as G2. eg_tac.
  - (* EAssign *)
    cbn [printable lexical] in Hp, Hl.
    apply andb_true_iff in Hp as [_ Hp3]. apply andb_true_iff in Hl as [_ Hl3].
    pose proof (IHe2 Hp3 Hl3) as G2. eg_tac.
  - (* ECompound *)
    cbn [printable lexical] in Hp, Hl.
    apply andb_true_iff in Hp as [_ Hp3]. apply andb_true_iff in Hl as [_ Hl3].
    pose proof (IHe2 Hp3 Hl3) as G2. eg_tac.
  - (* EArray *) eg_tac.
  - (* EObject *) eg_tac.
Qed.

Lemma prun_ends_good indent st ops st' : ends_good ops -> PrettyWr.prun indent st ops = st' -> w_panic st' = false ->
  w_buf st' <> [] /\ is_space_go (last (w_buf st') 0%N) = false.
Proof.
  intros (ops0 & o & -> & G) E P. rewrite prun_app in E.
  set (st1 := PrettyWr.prun indent st ops0) in *. rewrite prun_cons, prun_nil in E.
  destruct (w_panic st1) eqn:P1.
  { unfold wstep in E. rewrite P1 in E. subst st'. congruence. }
  destruct o; try contradiction G.
  - destruct G as [Ns Gs]. unfold wstep in E. rewrite P1 in E. subst st'.
    unfold write_string, write_raw. cbn [w_buf]. split.
    + intro Q. apply app_eq_nil in Q as [_ Q]. contradiction.
    + rewrite (last_app_ne _ _ Ns). exact Gs.
  - cbn [good_op] in G. unfold wstep in E. rewrite P1 in E. subst st'.
    unfold write_rune. cbn [w_buf]. split.
    + intro Q. apply app_eq_nil in Q as [_ Q]. discriminate Q.
    + rewrite last_last. exact G.
Qed.

(* ================================================================== *)
(* 5. an expression writes no statement terminator                     *)
(* ================================================================== *)

Definition nsop (o : wop) : bool := negb (is_semi_op o).

Lemma nosemi_sep_map {A} sep (f : A -> list wop) l : forallb nsop sep = true ->
  Forall (fun x => forallb nsop (f x) = true) l -> forallb nsop (sep_map sep f l) = true.
Proof.
  intros Hs. induction 1 as [|x l Hx _ IH]; [reflexivity|].
  cbn [sep_map]. rewrite forallb_app, Hx. cbn [andb].
  destruct l as [|y l']; [reflexivity|]. rewrite forallb_app, Hs. exact IH.
Qed.

Ltac ns_tac :=
  repeat (rewrite forallb_app || cbn [forallb nsop is_semi_op negb andb app]);
  repeat match goal with H : forallb nsop _ = true |- _ => rewrite H; cbn [andb] end.

Lemma Forall_forallb_lex (P : expr -> Prop) l :
  Forall (fun x => lexical x = true -> P x) l -> forallb lexical l = true -> Forall P l.
Proof. apply Forall_forallb_imp. Qed.

Lemma nosemi_expr : forall e, lexical e = true -> forallb nsop (write_expr e) = true.
Proof.
  induction e using expr_ind'; intro Hl; cbn [lexical] in Hl; try discriminate Hl; cbn [write_expr];
    try reflexivity.
  - (* EBinary *)
    apply andb_true_iff in Hl as [Hl Hl4]. apply andb_true_iff in Hl as [_ Hl3].
    pose proof (IHe1 Hl3) as G1. pose proof (IHe2 Hl4) as G2. cbv zeta.
    destruct (prec_opt e1); [|reflexivity]. destruct (prec_opt e2);
      repeat match goal with |- context [if ?b then _ else _] => destruct b end; ns_tac; reflexivity.
  - (* EUnary *)
    apply andb_true_iff in Hl as [_ Hl3]. pose proof (IHe Hl3) as G.
    destruct (prec_opt e); [|reflexivity].
    repeat match goal with |- context [if ?b then _ else _] => destruct b end; ns_tac; reflexivity.
  - (* EPostfix *)
    apply andb_true_iff in Hl as [_ Hl3]. pose proof (IHe Hl3) as G.
    destruct (prec_opt e); [|reflexivity].
    repeat match goal with |- context [if ?b then _ else _] => destruct b end; ns_tac; reflexivity.
  - (* EGroup *)
    apply andb_true_iff in Hl as [_ Hl3]. pose proof (IHe Hl3) as G. ns_tac. reflexivity.
  - (* ECall *)
    apply andb_true_iff in Hl as [Hl Hl3]. apply andb_true_iff in Hl as [_ Hl2].
    pose proof (IHe Hl2) as G.
    assert (GA : forallb nsop (sep_map [WRune 44%N; WSpace] (fun arg => write_expr arg ++ []) args) = true).
    { apply nosemi_sep_map; [reflexivity|]. pose proof (Forall_forallb_lex _ _ H Hl3) as F.
      eapply Forall_impl; [|exact F]. cbn beta. intros a Ha. rewrite app_nil_r. exact Ha. }
    ns_tac. reflexivity.
  - (* EMember *)
    apply andb_true_iff in Hl as [Hl1 Hl]. pose proof (IHe1 Hl1) as G1.
    destruct c.
    + apply andb_true_iff in Hl as [_ Hl3]. pose proof (IHe2 Hl3) as G2. ns_tac. reflexivity.
    + apply andb_true_iff in Hl as [_ Hl3]. destruct e2; try discriminate Hl3.
      destruct (is_decimal_int e1); ns_tac; reflexivity.
  - (* EAssign *)
    apply andb_true_iff in Hl as [Hl Hl3]. apply andb_true_iff in Hl as [_ Hl2].
    pose proof (IHe1 Hl2) as G1. pose proof (IHe2 Hl3) as G2. ns_tac. reflexivity.
  - (* ECompound *)
    apply andb_true_iff in Hl as [Hl Hl3]. apply andb_true_iff in Hl as [_ Hl2].
    pose proof (IHe1 Hl2) as G1. pose proof (IHe2 Hl3) as G2. ns_tac. reflexivity.
  - (* EArray *)
    apply andb_true_iff in Hl as [_ Hl3].
    assert (GA : forallb nsop (sep_map [WRune 44%N; WSpace] (fun arg => write_expr arg ++ []) es) = true).
    { apply nosemi_sep_map; [reflexivity|]. pose proof (Forall_forallb_lex _ _ H Hl3) as F.
      eapply Forall_impl; [|exact F]. cbn beta. intros a Ha. rewrite app_nil_r. exact Ha. }
    ns_tac. reflexivity.
  - (* EObject *)
    apply andb_true_iff in Hl as [Hl _]. apply andb_true_iff in Hl as [_ Hl2].
    assert (GA : forallb nsop (sep_map [WRune 44%N; WSpace]
                  (fun prop : expr * expr => write_expr (fst prop) ++ WRune 58%N :: WSpace :: write_expr (snd prop) ++ []) ps0) = true).
    { apply nosemi_sep_map; [reflexivity|].
      clear - H Hl2. induction H as [|[k v] l [Hk Hv] _ IH]; [constructor|].
      cbn [forallb fst snd] in *. apply andb_true_iff in Hl2 as [Hl1 Hl2]. apply andb_true_iff in Hl1 as [Lk Lv].
      constructor; [|exact (IH Hl2)]. cbn [fst snd]. pose proof (Hk Lk) as G1. pose proof (Hv Lv) as G2.
      ns_tac. reflexivity. }
    ns_tac. reflexivity.
Qed.

Lemma filter_all {A} (p : A -> bool) l : forallb p l = true -> filter p l = l.
Proof.
  induction l as [|x l IH]; intro H; [reflexivity|]. cbn [forallb] in H. apply andb_true_iff in H as [Hx Hl].
  cbn [filter]. rewrite Hx, (IH Hl). reflexivity.
Qed.

Lemma erase_semis_expr e : lexical e = true -> erase_semis (write_expr e) = write_expr e.
Proof. intro H. apply (filter_all nsop). apply nosemi_expr. exact H. Qed.

(* ================================================================== *)
(* 6. the first token                                                  *)
(* ================================================================== *)

Lemma first_type_groupify : forall e,
  first_type (groupify e) = first_type e \/ first_type (groupify e) = T_LPAREN.
Proof.
  induction e; cbn [groupify first_type]; auto.
  - destruct (prec_of e1 <? _); [right; reflexivity|exact IHe1].
  - destruct (prec_of e <? _); [right; reflexivity|exact IHe].
Qed.

(* ================================================================== *)
(* 7. the expression statement, with or without its semicolon          *)
(* ================================================================== *)

Definition semi_text (semis : bool) : str := if semis then [59%N] else [].

Lemma code_expr indent semis m e g body mp : printable e = true -> lexical e = true ->
  PrettyWr.prun indent (ps [] [] 0 SourceMap.mapper_new) (write_expr e) = ps ([] ++ g ++ body) [] 0 mp ->
  r_code (compile (cfg_pretty indent semis m) (expr_program e)) = clean_empty_lines (g ++ body ++ semi_text semis).
Proof.
  intros Hp Hl W. destruct semis.
  - rewrite code_pretty. unfold expr_program. cbn [p_stmts p_eof].
    rewrite sep_map_one. cbn [write_stmt]. rewrite (printable_not_nil _ Hp), app_nil_r.
    rewrite prun_app, W, prun_cons, prun_nil, pt_semi, buf_comments.
    change (t_comments eof_tok) with (@nil str). cbn [gend fl flat_map app semi_text].
    rewrite app_nil_r, <- app_assoc. reflexivity.
  - assert (E : r_code (compile (cfg_pretty indent false m) (expr_program e)) =
                r_code (compile (cfg_pretty indent false false) (expr_program e))).
    { destruct m; [|reflexivity]. exact (proj1 (map_flag_neutral true indent false (expr_program e))). }
    rewrite E, semi_only. unfold finish, run_wops. cbn [r_code w_pretty cfg_pretty].
    unfold write_program, expr_program. cbn [p_stmts p_eof].
    rewrite sep_map_one. cbn [write_stmt]. rewrite (printable_not_nil _ Hp), app_nil_r.
    unfold erase_semis. rewrite !filter_app. fold (erase_semis (write_expr e)).
    rewrite (erase_semis_expr e Hl). cbn [filter is_semi_op negb app].
    rewrite app_nil_r.
    match goal with |- clean_empty_lines (w_buf (fold_left _ ?ops _)) = _ =>
      change (clean_empty_lines (w_buf (PrettyWr.prun indent (ps [] [] 0 SourceMap.mapper_new) ops))
              = clean_empty_lines (g ++ body ++ semi_text false)) end.
    rewrite prun_app, W, prun_cons, prun_nil, buf_comments.
    change (t_comments eof_tok) with (@nil str). cbn [gend app semi_text].
    rewrite !app_nil_r. reflexivity.
Qed.

Lemma kont_semi_text {g} semis : kont g (semi_text semis).
Proof. destruct semis; [apply kont_cons; [reflexivity|discriminate]|apply kont_nil]. Qed.

Lemma rta_semi_text semis : rta (semi_text semis) [] = semi_text semis.
Proof. destruct semis; reflexivity. Qed.

(* the end of the statement: ';' then the end of input, or the end of input alone *)
Lemma stmt_end semis l1 : l_rest l1 = semi_text semis ->
  exists tl l2, lexes l1 tl l2 /\ l_rest l2 = [] /\
    forall nx teof, t_type teof = T_EOF -> m_end asi_after_expression nx (tl ++ [teof]) = Some [teof].
Proof.
  intro R1. destruct semis; cbn [semi_text] in R1.
  - destruct (lex1_lexes _ _ _ _ (lex1_semi []) ltac:(discriminate) ltac:(discriminate) l1 R1)
      as (tsemi & l2 & L2 & Tsemi & _ & _ & R2).
    exists [tsemi], l2. split; [exact L2|]. split; [exact R2|].
    intros nx teof _. cbn [app m_end]. rewrite Tsemi. reflexivity.
  - exists [], l1. split; [constructor|]. split; [exact R1|].
    intros nx teof H. cbn [app m_end]. unfold asi_after_expression. rewrite H. reflexivity.
Qed.

Theorem print_parse_pretty : forall e indent semis m,
  printable e = true -> lexical e = true -> negb (first_type e =? T_LBRACE) = true ->
  tmap_expr erase_comments e = e ->
  literals_trim_safe (map (fun x => fst (fst x)) (nest_expr false false e)) = true ->
  blank_str indent ->
  exists r, reparse (cfg_pretty indent semis m) (expr_program e) = Some r /\
            pr_errors r = [] /\
            shape_program (pr_program r) = shape_program (expr_program (groupify e)) /\
            map strip_groups_stmt (p_stmts (shape_program (pr_program r)))
            = map strip_groups_stmt (p_stmts (shape_program (expr_program e))).
Proof.
  intros e indent semis m Hp Hl Hn Hc Hs Hb.
  destruct (A_all indent Hb e Hp Hl Hc Hs) as (c & Oc & J).
  destruct (J [] [] 0 SourceMap.mapper_new ltac:(lia) pend_ok_nil) as (g & body & W & Gg & _ & _ & Hd & Lx).
  rewrite (groupify_prun indent e Hp) in W.
  pose proof (code_expr indent semis m e g body _ Hp Hl W) as Code.
  destruct Gg as [Tg _].
  assert (Nb : body <> []).
  { intro E. subst body. cbn [hd] in Hd. apply (ost_nz _ Oc). symmetry. exact Hd. }
  set (tail := semi_text semis) in *.
  assert (Nbt : body ++ tail <> []) by (destruct body; [congruence|discriminate]).
  assert (Hh : is_space_go (hd 0%N (body ++ tail)) = false).
  { rewrite (hd_app_ne _ _ Nb), Hd. apply ost_nsp. exact Oc. }
  assert (Hlast : is_space_go (last (body ++ tail) 0%N) = false).
  { subst tail. destruct semis; cbn [semi_text].
    - rewrite last_last. reflexivity.
    - rewrite app_nil_r.
      destruct (prun_ends_good indent _ _ _ (write_ends_good e Hp Hl) W eq_refl) as [_ Q].
      cbn [ps w_buf app] in Q. rewrite (last_app_ne g body Nb) in Q. exact Q. }
  (* the text *)
  unfold reparse. rewrite Code, clean_rta.
  replace (g ++ body ++ tail) with (g ++ (body ++ tail) ++ []) by (rewrite app_nil_r; reflexivity).
  rewrite (trim_space_shape g (body ++ tail) [] Tg Nbt Hh Hlast).
  cbn [dwe]. rewrite app_nil_r, !rta_app.
  assert (Ek : rta tail [] = tail) by apply rta_semi_text. rewrite Ek.
  assert (HZ : rta body tail <> [] /\ isWhitespace (hd 0%N (rta body tail)) = false).
  { destruct body as [|c0 body']; [congruence|]. cbn [hd] in Hd. subst c0.
    rewrite (rta_cons_nb c body' tail (ws_nz _ (ost_ws _ Oc))).
    split; [discriminate|exact (ost_ws _ Oc)]. }
  destruct HZ as [Z1 Z2].
  destruct (rta_trv _ (dw_trv _ Tg) (rta body tail) Z1 Z2) as (g1' & E1 & T1' & _).
  rewrite E1.
  set (Y := g1' ++ rta body tail).
  (* the tokens *)
  destruct (Lx tail (kont_semi_text semis) g1' (lx_init Y) T1' eq_refl)
    as (e' & ts & l1 & L1 & R1 & M & Sh0 & t0 & ts0 & Ets & Ty0 & _).
  destruct (stmt_end semis l1 R1) as (tl & l2 & L2 & R2 & Mend).
  pose proof (lexes_app _ _ _ _ _ L1 L2) as L.
  pose proof (lex_eof_stable l2 (at_eof_nil _ R2)) as EOFs.
  destruct (next_token l2) as [teof l3] eqn:Neof. destruct EOFs as (Eeof & _).
  assert (Teof : t_type teof = T_EOF) by (rewrite Eeof; reflexivity).
  assert (Tok : tokenize Y = Some ((ts ++ tl) ++ [teof])).
  { unfold tokenize. pose proof (lexes_len _ _ _ L) as Len. cbn [lx_init l_rest] in Len. rewrite R2 in Len.
    cbn [length] in Len.
    replace (S (length Y)) with (length (ts ++ tl) + S (length Y - length (ts ++ tl)))%nat by lia.
    rewrite (tokenize_from_lexes _ _ _ L). cbn [tokenize_from]. rewrite Neof.
    rewrite Teof. change (T_EOF =? T_EOF) with true. cbn iota. reflexivity. }
  rewrite Tok.
  (* the tree *)
  set (p' := mkprogram [SExpr e'] teof).
  assert (Keyw : statement_keyword (t_type t0) = false).
  { rewrite Ty0. destruct (first_type_groupify e) as [F|F]; rewrite F; [|reflexivity].
    apply first_type_ok; try assumption. intro E. rewrite E in Hn. discriminate Hn. }
  assert (Mp : m_program p' ((ts ++ tl) ++ [teof]) = true).
  { unfold m_program, p'. cbn [p_eof p_stmts m_stmts]. rewrite Teof.
    change (T_EOF =? T_EOF) with true. cbn [andb].
    rewrite <- app_assoc. cbn [m_stmt]. rewrite Ets at 1. cbn [app]. rewrite Keyw.
    rewrite M, (Mend teof teof Teof). apply tok_eqb_refl. }
  assert (Wf : wf_program p' = true).
  { unfold wf_program, p'. cbn [p_stmts wf_stmts wf_stmt]. rewrite andb_true_r.
    rewrite <- (wf_expr_tmap norm_tok (fun _ => eq_refl) e').
    change (tmap_expr norm_tok e') with (shape_expr e'). rewrite Sh0. unfold shape_expr.
    rewrite (wf_expr_tmap norm_tok (fun _ => eq_refl)). apply groupify_wf. exact Hp. }
  destruct (parse_complete p' _ Mp Wf) as (r & Hr & Pr & Er & _).
  exists r. split; [exact Hr|]. split; [exact Er|].
  assert (Sh : shape_program (pr_program r) = shape_program (expr_program (groupify e))).
  { rewrite Pr. unfold shape_program, p', expr_program. cbn [p_stmts p_eof map shape_stmt tmap_stmt].
    change (tmap_expr norm_tok e') with (shape_expr e'). rewrite Sh0. f_equal.
    rewrite Eeof. reflexivity. }
  split; [exact Sh|].
  rewrite Sh. unfold shape_program, expr_program. cbn [p_stmts map shape_stmt tmap_stmt strip_groups_stmt].
  rewrite !strip_tmap, groupify_strip. reflexivity.
Qed.

Print Assumptions print_parse_pretty.
