(* TokenProofs.v -- proof of C01 (token-preservation clause): on a program of the grammar
   (matched by [m_program], with the level discipline [wf_program]) whose fixed tokens are
   canonically spelled, the printer writes exactly the texts of the tokens, in order. *)
Require Import Base GoOps Token Tree Writer PrinterLib Compile Parser Grammar PrintSpec TokenSpec.
Require Import Gen.Tables Gen.Printer.
Require Import PrintProofs GrammarProofs.
From Coq Require Import ZifyBool ZifyN ZifyNat Lia.

(* ---------- every fixed token type has a spelling ---------- *)

Lemma token_spelling_total :
  forallb (fun ty => (ty <? T_ASSIGN) || match token_spelling ty with Some _ => true | None => false end)
          token_types = true.
Proof. vm_compute. reflexivity. Qed.

Lemma token_spelling_free :
  map token_spelling [T_ILLEGAL; T_EOF; T_IDENT; T_INT; T_FLOAT; T_STRING; T_RAW_STRING]
  = [None; None; None; None; None; None; None].
Proof. vm_compute. reflexivity. Qed.

(* ---------- the text of a token when fixed tokens are canonically spelled ---------- *)

(* the token types whose text the printer writes as a constant *)
Definition fixed_types : list Z :=
  [T_ASSIGN; T_PLUS_ASSIGN; T_MINUS_ASSIGN; T_COMMA; T_COLON; T_DOT; T_LPAREN; T_RPAREN;
   T_LBRACE; T_RBRACE; T_LBRACKET; T_RBRACKET; T_FUNCTION; T_LET; T_IF; T_ELSE; T_WHILE; T_FOR;
   T_RETURN; T_NULL].

Definition is_fixed (ty : Z) : bool := existsb (Z.eqb ty) fixed_types.

Definition ctok_text (t : token) : str :=
  if is_fixed (t_type t) then match token_spelling (t_type t) with Some s => s | None => [] end
  else tok_text t.

Lemma is_fixed_cases ty : is_fixed ty = true -> In ty fixed_types.
Proof.
  unfold is_fixed. intro H. apply existsb_exists in H. destruct H as (x & Hin & Hx).
  apply Z.eqb_eq in Hx. subst. exact Hin.
Qed.

Lemma ctok_canonical t : tok_canonical t = true -> ctok_text t = tok_text t.
Proof.
  unfold tok_canonical, ctok_text. intro Hc.
  destruct (is_fixed (t_type t)) eqn:Hf; [|reflexivity].
  apply is_fixed_cases in Hf. unfold tok_text.
  cbn [In fixed_types] in Hf.
  repeat (destruct Hf as [Hf|Hf];
          [ rewrite <- Hf in *;
            match type of Hc with
            | match token_spelling ?c with _ => _ end = true =>
                let s := eval vm_compute in (token_spelling c) in
                change (token_spelling c) with s in *
            end;
            apply str_eqb_spec in Hc; rewrite Hc; reflexivity | ]).
  contradiction.
Qed.

Definition D (s : str) : str := despace s.
Definition T (ts : list token) : str := D (concat (map ctok_text ts)).
Definition W (ws : list wop) : str := D (wops_text ws).

Lemma D_app a b : D (a ++ b) = D a ++ D b.
Proof. unfold D, despace. apply filter_app. Qed.
Lemma D_nil : D [] = [].
Proof. reflexivity. Qed.
Lemma D_cons c s : D (c :: s) = (if (c =? 32)%N then [] else [c]) ++ D s.
Proof. unfold D, despace. cbn [filter]. destruct (c =? 32)%N; reflexivity. Qed.

Lemma T_nil : T [] = [].
Proof. reflexivity. Qed.
Lemma T_cons t ts : T (t :: ts) = D (ctok_text t) ++ T ts.
Proof. unfold T. cbn [map concat]. apply D_app. Qed.
Lemma T_app a b : T (a ++ b) = T a ++ T b.
Proof. unfold T. rewrite map_app, concat_app. apply D_app. Qed.

Lemma T_canonical ts : forallb tok_canonical ts = true -> T ts = despace (toks_text ts).
Proof.
  unfold T, D, toks_text. intro H. f_equal. f_equal.
  induction ts as [|t ts IH]; [reflexivity|].
  cbn [forallb] in H. apply andb_true_iff in H as [H1 H2].
  cbn [map]. rewrite (ctok_canonical _ H1), (IH H2). reflexivity.
Qed.

Lemma W_nil : W [] = [].
Proof. reflexivity. Qed.
Lemma W_cons w ws : W (w :: ws) = D (wop_text w) ++ W ws.
Proof. unfold W, wops_text. cbn [map concat]. apply D_app. Qed.
Lemma W_app a b : W (a ++ b) = W a ++ W b.
Proof. unfold W, wops_text. rewrite map_app, concat_app. apply D_app. Qed.

Lemma W_string s ws : W (WString s :: ws) = D s ++ W ws.
Proof. apply W_cons. Qed.
Lemma W_rune c ws : W (WRune c :: ws) = (if (c =? 59)%N || (c =? 32)%N then [] else [c]) ++ W ws.
Proof.
  rewrite W_cons. cbn [wop_text]. unfold semicolon.
  destruct (c =? 59)%N; cbn [orb]; [reflexivity|]. rewrite D_cons, D_nil, app_nil_r. reflexivity.
Qed.
Lemma W_semi ws : W (WSemi :: ws) = W ws. Proof. apply W_cons. Qed.
Lemma W_space ws : W (WSpace :: ws) = W ws. Proof. apply W_cons. Qed.
Lemma W_newline ws : W (WNewline :: ws) = W ws. Proof. apply W_cons. Qed.
Lemma W_indent ws : W (WIndent :: ws) = W ws. Proof. apply W_cons. Qed.
Lemma W_inc ws : W (WIncIndent :: ws) = W ws. Proof. apply W_cons. Qed.
Lemma W_dec ws : W (WDecIndent :: ws) = W ws. Proof. apply W_cons. Qed.
Lemma W_comments cs ws : W (WComments cs :: ws) = W ws. Proof. apply W_cons. Qed.
Lemma W_mapping p ws : W (WMapping p :: ws) = W ws. Proof. apply W_cons. Qed.
Lemma W_named l c n ws : W (WNamedMapping l c n :: ws) = W ws. Proof. apply W_cons. Qed.
Lemma W_fusion op ws : W (WAvoidFusion op :: ws) = W ws. Proof. apply W_cons. Qed.

Global Opaque T W D.

Lemma W_sep_map {A} (sep : list wop) (f : A -> list wop) (l : list A) :
  W sep = [] -> W (sep_map sep f l) = concat (map (fun x => W (f x)) l).
Proof.
  intro Hs. induction l as [|x l IH]; [reflexivity|].
  cbn [sep_map map concat]. rewrite W_app. f_equal.
  destruct l as [|y l]; [reflexivity|]. rewrite W_app, Hs. exact IH.
Qed.

(* ---------- texts of the tokens the matchers consume ---------- *)

Lemma ctok_fixed ty s t : t_type t = ty -> is_fixed ty = true -> token_spelling ty = Some s ->
  ctok_text t = s.
Proof. intros Ht Hf Hs. unfold ctok_text. rewrite Ht, Hf, Hs. reflexivity. Qed.

Lemma ctok_free t : is_fixed (t_type t) = false -> ctok_text t = tok_text t.
Proof. intro H. unfold ctok_text. rewrite H. reflexivity. Qed.

Lemma ctok_lit t : is_fixed (t_type t) = false ->
  (t_type t =? T_STRING) || (t_type t =? T_RAW_STRING) || (t_type t =? T_SEMICOLON) || (t_type t =? T_EOF) = false ->
  ctok_text t = t_lit t.
Proof.
  intros Hf H. rewrite (ctok_free _ Hf). unfold tok_text.
  apply orb_false_iff in H as [H H4]. apply orb_false_iff in H as [H H3].
  apply orb_false_iff in H as [H1 H2]. rewrite H1, H2, H3, H4. reflexivity.
Qed.

Lemma ctok_of_type ty t : t_type t = ty -> is_fixed ty = false ->
  (ty =? T_STRING) || (ty =? T_RAW_STRING) || (ty =? T_SEMICOLON) || (ty =? T_EOF) = false ->
  ctok_text t = t_lit t.
Proof. intros <-. apply ctok_lit. Qed.

Lemma ctok_binop t lv : binop_level (t_type t) = Some lv -> ctok_text t = t_lit t.
Proof.
  unfold binop_level.
  repeat match goal with
         | |- context [ t_type t =? ?b ] =>
             destruct (Z.eqb_spec (t_type t) b) as [Heq|_];
             [ intros _; apply (ctok_of_type _ _ Heq); reflexivity | ]
         end.
  cbn. discriminate.
Qed.

Lemma ctok_string t : t_type t = T_STRING -> ctok_text t = 34%N :: t_lit t ++ [34%N].
Proof. intro H. rewrite ctok_free by (rewrite H; reflexivity). unfold tok_text. rewrite H. reflexivity. Qed.

Lemma ctok_raw t : t_type t = T_RAW_STRING ->
  ctok_text t = 96%N :: replace_all (t_lit t) [96%N] [92%N; 96%N] ++ [96%N].
Proof. intro H. rewrite ctok_free by (rewrite H; reflexivity). unfold tok_text. rewrite H. reflexivity. Qed.

Lemma ctok_semicolon t : t_type t = T_SEMICOLON -> ctok_text t = [].
Proof. intro H. rewrite ctok_free by (rewrite H; reflexivity). unfold tok_text. rewrite H. reflexivity. Qed.

Lemma ctok_eof t : t_type t = T_EOF -> ctok_text t = [].
Proof. intro H. rewrite ctok_free by (rewrite H; reflexivity). unfold tok_text. rewrite H. reflexivity. Qed.

(* consumed tokens as equations between texts *)
Lemma eat_tok_T t ts r : eat_tok t ts = Some r -> T ts = D (ctok_text t) ++ T r.
Proof. intro H. apply eat_tok_inv in H. subst. apply T_cons. Qed.

Lemma eat_T ty ts t r : eat ty ts = Some (t, r) -> T ts = D (ctok_text t) ++ T r /\ t_type t = ty.
Proof. intro H. apply eat_inv in H. destruct H as [-> H]. split; [apply T_cons | exact H]. Qed.

Lemma m_ident_T i ts r : m_ident i ts = Some r -> T ts = W (write_ident i) ++ T r.
Proof.
  intro H. apply m_ident_inv in H. destruct H as (-> & Hty & Hmk).
  rewrite T_cons. unfold write_ident. rewrite W_comments, W_named, W_string, W_nil, app_nil_r.
  rewrite (ctok_of_type _ _ Hty) by reflexivity.
  rewrite <- Hmk at 2. reflexivity.
Qed.

Lemma m_end_T asi next ts r : m_end asi next ts = Some r -> T ts = T r.
Proof.
  destruct ts as [|t ts]; cbn [m_end]; intro H; minv H; injection H as H; subst; try reflexivity.
  apply Z.eqb_eq in E. rewrite T_cons, (ctok_semicolon _ E), D_nil. reflexivity.
Qed.

(* normalisation of the two sides *)
Ltac bsplit :=
  repeat match goal with
  | H : _ && _ = true |- _ => apply andb_true_iff in H; destruct H as [? ?]
  | H : _ || _ = false |- _ => apply orb_false_iff in H; destruct H as [? ?]
  | H : negb _ = false |- _ => apply negb_false_iff in H
  | H : negb _ = true |- _ => apply negb_true_iff in H
  | H : (_ =? _) = true |- _ => apply Z.eqb_eq in H
  | H : str_eqb _ _ = true |- _ => apply str_eqb_spec in H
  | H : tok_eqb _ _ = true |- _ => apply tok_eqb_eq in H
  end.

Ltac tok_texts :=
  repeat match goal with
  | Ht : t_type ?t = _ |- context [ctok_text ?t] =>
      first [ rewrite (ctok_fixed _ _ t Ht eq_refl eq_refl)
            | rewrite (ctok_of_type _ t Ht eq_refl eq_refl)
            | rewrite (ctok_string t Ht)
            | rewrite (ctok_raw t Ht)
            | rewrite (ctok_semicolon t Ht)
            | rewrite (ctok_eof t Ht) ]
  | Hb : binop_level (t_type ?t) = Some _ |- context [ctok_text ?t] => rewrite (ctok_binop t _ Hb)
  end.

Ltac wnorm :=
  repeat first
    [ rewrite W_app | rewrite W_nil | rewrite W_string | rewrite W_rune | rewrite W_semi
    | rewrite W_space | rewrite W_newline | rewrite W_indent | rewrite W_inc | rewrite W_dec
    | rewrite W_comments | rewrite W_mapping | rewrite W_named | rewrite W_fusion ].

Ltac dnorm :=
  repeat first [ rewrite D_app | rewrite D_cons | rewrite D_nil ];
  cbn [N.eqb Pos.eqb orb];
  repeat rewrite <- app_assoc; cbn [app]; repeat rewrite app_nil_r.

(* rewrite the text of the input along the chain of consumed pieces *)
Ltac chain :=
  repeat match goal with
  | H : T ?x = _ |- T ?x = _ => rewrite H; clear H
  | H : T ?x = _ |- _ ++ T ?x = _ => rewrite H; clear H
  | H : T ?x = _ |- context [T ?x] => rewrite H; clear H
  end.

Ltac finish := chain; wnorm; tok_texts; dnorm; try reflexivity.

Lemma m_params_T ps : forall ts r, m_params ps ts = Some r ->
  T ts = W (sep_map [WRune 44%N; WSpace] (fun p => write_ident p ++ []) ps) ++ T r.
Proof.
  induction ps as [|p ps IH]; intros ts r H.
  - injection H as H. subst. reflexivity.
  - rewrite m_params_cons in H. minv H. apply m_ident_T in E.
    cbn [sep_map]. destruct ps as [|q ps]; cbn [m_ptail] in H.
    + injection H as H. subst. finish.
    + minv H. apply eat_T in E0. destruct E0 as [E0 Hty]. apply IH in H. finish.
Qed.

(* ---------- precedence: on trees with the level discipline the printer adds no parentheses ---------- *)

Lemma wf_prec e : wf_expr e = true -> exists pv, prec_opt e = Some pv /\ level e <= pv.
Proof.
  intro Hw.
  destruct (printer_levels_agree e)
    as [H | [(t & o & p & c & -> & H1 & H2) | (t & l & op & r & -> & Hb)]].
  - intros ->. discriminate Hw.
  - exists (level e). split; [exact H | lia].
  - exists A_PrecedenceMember. split; [exact H1 | rewrite H2; vm_compute; discriminate].
  - cbn [wf_expr] in Hw. rewrite Hb in Hw. discriminate Hw.
Qed.

Lemma assignable_level e : assignable e = true -> 11 <= level e.
Proof. destruct e; cbn [assignable level]; try discriminate; intros _; vm_compute; discriminate. Qed.

(* the expressions the statement forms admit: [let] only as a for-initialiser *)
Definition wfx (e : expr) : bool :=
  match e with
  | ELet _ _ v => if is_enil v then true else wf_expr v
  | _ => wf_expr e
  end.

Lemma wf_wfx e : wf_expr e = true -> wfx e = true.
Proof. destruct e; cbn [wfx wf_expr]; auto; discriminate. Qed.

Definition esizes (es : list expr) : nat := fold_right (fun a n => esize a + n)%nat 0%nat es.
Definition psizes (ps : list (expr * expr)) : nat :=
  fold_right (fun kv n => esize (fst kv) + esize (snd kv) + n)%nat 0%nat ps.
Definition ssizes (ss : list stmt) : nat := fold_right (fun a n => ssize a + n)%nat 0%nat ss.

Definition comma : list wop := [WRune 44%N; WSpace].

Section Lists.
  Variable n : nat.
  Hypothesis IHe : forall e, (esize e <= n)%nat -> wfx e = true ->
    forall ts r, m_expr e ts = Some r -> T ts = W (write_expr e) ++ T r.
  Hypothesis IHs : forall s, (ssize s <= n)%nat -> wf_stmt s = true ->
    forall next ts r, m_stmt s next ts = Some r -> T ts = W (write_stmt s) ++ T r.

  Lemma m_exprs_T es : (esizes es <= n)%nat -> wf_exprs wf_expr es = true ->
    forall ts r, m_exprs m_expr es ts = Some r ->
    T ts = W (sep_map comma (fun a => write_expr a ++ []) es) ++ T r.
  Proof.
    unfold comma.
    induction es as [|e es IH]; intros Hn Hw ts r H.
    - injection H as H. subst. reflexivity.
    - cbn [esizes fold_right] in Hn. fold (esizes es) in Hn. cbn [wf_exprs] in Hw. bsplit.
      rewrite m_exprs_cons in H. minv H. apply IHe in E; [|lia|apply wf_wfx; assumption].
      cbn [sep_map]. destruct es as [|q es]; cbn [m_tail] in H.
      + injection H as H. subst. finish.
      + minv H. apply eat_T in E0. destruct E0 as [E0 Hty]. apply IH in H; [|lia|assumption]. finish.
  Qed.

  Lemma m_props_T ps : (psizes ps <= n)%nat -> wf_props wf_expr ps = true ->
    forall ts r, m_props m_expr ps ts = Some r ->
    T ts = W (sep_map comma (fun kv => write_expr (fst kv) ++ WRune 58%N :: WSpace :: write_expr (snd kv) ++ []) ps) ++ T r.
  Proof.
    unfold comma.
    induction ps as [|[k v] ps IH]; intros Hn Hw ts r H.
    - injection H as H. subst. reflexivity.
    - cbn [psizes fold_right fst snd] in Hn. fold (psizes ps) in Hn. cbn [wf_props] in Hw. bsplit.
      cbn [m_props] in H.
      destruct (negb (key_ok k)); [discriminate|].
      destruct (m_expr k ts) as [r1|] eqn:E1; [|discriminate]. apply IHe in E1; [|lia|apply wf_wfx; assumption].
      destruct (eat T_COLON r1) as [[tc r2]|] eqn:E2; [|discriminate]. apply eat_T in E2. destruct E2 as [E2 Hc].
      destruct (m_expr v r2) as [r3|] eqn:E3; [|discriminate]. apply IHe in E3; [|lia|apply wf_wfx; assumption].
      cbn [sep_map fst snd].
      destruct ps as [|kv ps].
      + injection H as H. subst. finish.
      + destruct (eat T_COMMA r3) as [[tm r4]|] eqn:E4; [|discriminate]. apply eat_T in E4. destruct E4 as [E4 Hm].
        apply IH in H; [|lia|assumption]. finish.
  Qed.

  Lemma m_stmts_T ss : (ssizes ss <= n)%nat -> wf_stmts wf_stmt ss = true ->
    forall next ts r, m_stmts m_stmt ss next ts = Some r ->
    T ts = concat (map (fun s => W (write_stmt s)) ss) ++ T r.
  Proof.
    induction ss as [|s ss IH]; intros Hn Hw next ts r H.
    - injection H as H. subst. reflexivity.
    - cbn [ssizes fold_right] in Hn. fold (ssizes ss) in Hn. cbn [wf_stmts] in Hw. bsplit.
      cbn [m_stmts] in H.
      destruct (m_stmt s next ts) as [r1|] eqn:E1; [|discriminate]. apply IHs in E1; [|lia|assumption].
      apply IH in H; [|lia|assumption]. cbn [map concat]. chain. rewrite app_assoc. reflexivity.
  Qed.
End Lists.

Ltac use_IH IHe IHs :=
  repeat match goal with
  | H : eat_tok _ _ = Some _ |- _ => apply eat_tok_T in H
  | H : eat _ _ = Some (_, _) |- _ => apply eat_T in H; destruct H as [H ?]
  | H : m_ident _ _ = Some _ |- _ => apply m_ident_T in H
  | H : m_params _ _ = Some _ |- _ => apply m_params_T in H
  | H : m_end _ _ _ = Some _ |- _ => apply m_end_T in H
  | H : m_expr _ _ = Some _ |- _ =>
      apply IHe in H; [|cbn [esize ssize] in *; lia|first [assumption | apply wf_wfx; assumption]]
  | H : m_stmt _ _ _ = Some _ |- _ => apply IHs in H; [|cbn [esize ssize] in *; lia|assumption]
  | H : Some _ = Some _ |- _ => injection H as H; subst
  end.

Lemma expr_T_step n :
  (forall e, (esize e <= n)%nat -> wfx e = true ->
    forall ts r, m_expr e ts = Some r -> T ts = W (write_expr e) ++ T r) ->
  (forall s, (ssize s <= n)%nat -> wf_stmt s = true ->
    forall next ts r, m_stmt s next ts = Some r -> T ts = W (write_stmt s) ++ T r) ->
  forall e, (esize e <= S n)%nat -> wfx e = true ->
    forall ts r, m_expr e ts = Some r -> T ts = W (write_expr e) ++ T r.
Proof.
  intros IHe IHs e0 Hn Hw ts r H.
  destruct e0; cbn [m_expr] in H; try discriminate; cbn [wfx wf_expr] in Hw.
  all: minv H.
  all: bsplit.
  all: cbn [write_expr].
  all: use_IH IHe IHs.
  all: try solve [finish].
  all: subst.
  all: try solve [finish].
  - (* EBool *)
    apply orb_true_iff in H0. destruct H0 as [H0|H0]; apply Z.eqb_eq in H0; finish.
  - (* ELet *)
    rewrite enil_match in H. cbn [negb]. destruct (is_enil e0) eqn:Ev; cbn [negb].
    + use_IH IHe IHs. finish.
    + minv H. use_IH IHe IHs. finish.
  - (* EBinary *)
    destruct (wf_prec _ H2) as (pv1 & Hp1 & Hl1). destruct (wf_prec _ H1) as (pv2 & Hp2 & Hl2).
    rewrite Hp1, Hp2. cbn [prec_opt]. rewrite (binop_prec _ _ E).
    replace (pv1 <? z) with false by lia. replace (pv2 <=? z) with false by lia.
    finish.
  - (* EUnary *)
    destruct (wf_prec _ H1) as (pv1 & Hp1 & Hl1). rewrite Hp1.
    assert (Hlv : 9 <= level e0).
    { destruct ((t_type t =? T_INCREMENT) || (t_type t =? T_DECREMENT)).
      - apply assignable_level in H0. lia.
      - unfold L_UNARY in H0. lia. }
    replace (pv1 <? A_PrecedenceUnary) with false by (unfold A_PrecedenceUnary; lia).
    repeat (apply orb_true_iff in H2; destruct H2 as [H2|H2]); apply Z.eqb_eq in H2; finish.
  - (* EPostfix *)
    destruct (wf_prec _ H1) as (pv1 & Hp1 & Hl1). rewrite Hp1.
    apply assignable_level in H0.
    replace (pv1 <? A_PrecedencePostfix) with false by (unfold A_PrecedencePostfix; lia).
    apply orb_true_iff in H2; destruct H2 as [H2|H2]; apply Z.eqb_eq in H2; finish.
  - (* ECall *)
    eapply (m_exprs_T n IHe) in E2; [|cbn [esize] in Hn; fold (esizes args) in Hn; lia|assumption].
    unfold comma in E2. finish.
  - (* EMember, not computed *)
    destruct e0_2; try discriminate. use_IH IHe IHs. cbn [write_expr].
    destruct (is_decimal_int e0_1); cbn [negb andb]; finish.
  - (* ECompound *)
    destruct (t_type t =? T_PLUS_ASSIGN) eqn:E3; [|destruct (t_type t =? T_MINUS_ASSIGN) eqn:E4; [|discriminate]];
      injection E as E; subst l; bsplit; finish.
  - (* EFunc *)
    destruct body; try discriminate. destruct name as [nm|]; use_IH IHe IHs; finish.
  - (* EArray *)
    eapply (m_exprs_T n IHe) in E1; [|cbn [esize] in Hn; fold (esizes elems) in Hn; lia|assumption].
    unfold comma in E1. finish.
  - (* EObject *)
    eapply (m_props_T n IHe) in E3; [|cbn [esize] in Hn; fold (psizes (p :: l0)) in Hn; lia|assumption].
    unfold comma in E3. finish.
Qed.

Lemma init_wfx i : is_enil i = false -> init_wf i = true -> wfx i = true.
Proof. destruct i; cbn [is_enil init_wf wfx]; try discriminate; auto. intros _. rewrite enil_match. auto. Qed.

Lemma wf_not_nil e : wf_expr e = true -> is_enil e = false.
Proof. destruct e; cbn [wf_expr is_enil]; auto. Qed.

Lemma stmt_T_step n :
  (forall e, (esize e <= n)%nat -> wfx e = true ->
    forall ts r, m_expr e ts = Some r -> T ts = W (write_expr e) ++ T r) ->
  (forall s, (ssize s <= n)%nat -> wf_stmt s = true ->
    forall next ts r, m_stmt s next ts = Some r -> T ts = W (write_stmt s) ++ T r) ->
  forall s, (ssize s <= S n)%nat -> wf_stmt s = true ->
    forall next ts r, m_stmt s next ts = Some r -> T ts = W (write_stmt s) ++ T r.
Proof.
  intros IHe IHs s0 Hn Hw next ts r H.
  destruct s0; cbn [m_stmt] in H; try discriminate; cbn [wf_stmt] in Hw.
  all: try rewrite init_wf_eq in Hw.
  all: minv H.
  all: repeat match goal with
       | H : context [match _ with ENil => _ | _ => _ end] |- _ => rewrite enil_match in H
       | H : context [match _ with SNil => _ | _ => _ end] |- _ => rewrite snil_match in H
       | H : match ?l with [] => _ | _ :: _ => _ end = Some _ |- _ => destruct l; [discriminate H|]
       | H : _ = Some _ |- _ => progress (minv H)
       end.
  all: cbn [write_stmt].
  all: repeat match goal with
       | E : is_enil ?v = _ |- _ => rewrite E in *
       | E : is_snil ?v = _ |- _ => rewrite E in *
       end.
  all: cbn [negb].
  all: bsplit.
  all: try match goal with H0 : init_wf ?i = true, E : is_enil ?i = false |- _ => apply (init_wfx _ E) in H0 end.
  all: use_IH IHe IHs.
  all: try solve [finish].
  - (* SExpr *)
    rewrite (wf_not_nil _ Hw). finish.
  - (* SFunc *)
    destruct s0; try discriminate. use_IH IHe IHs. finish.
  - (* SBlock *)
    eapply (m_stmts_T n IHs) in E1; [|cbn [ssize] in Hn; fold (ssizes stmts) in Hn; lia|assumption].
    chain. wnorm. rewrite W_sep_map by reflexivity.
    rewrite (map_ext (fun x => W (WIndent :: write_stmt x ++ [])) (fun s => W (write_stmt s)))
      by (intro a; wnorm; rewrite app_nil_r; reflexivity).
    tok_texts. dnorm. reflexivity.
Qed.

Lemma all_T : forall n,
  (forall e, (esize e <= n)%nat -> wfx e = true ->
    forall ts r, m_expr e ts = Some r -> T ts = W (write_expr e) ++ T r) /\
  (forall s, (ssize s <= n)%nat -> wf_stmt s = true ->
    forall next ts r, m_stmt s next ts = Some r -> T ts = W (write_stmt s) ++ T r).
Proof.
  induction n as [|n [IHe IHs]].
  - split; [intros e H; destruct e; cbn [esize] in H; lia | intros s H; destruct s; cbn [ssize] in H; lia].
  - split; [apply expr_T_step | apply stmt_T_step]; assumption.
Qed.

(* matcher-level statements *)
Theorem m_expr_text e ts r : m_expr e ts = Some r -> wf_expr e = true ->
  T ts = W (write_expr e) ++ T r.
Proof. intros H Hw. eapply (proj1 (all_T (esize e))); [lia|apply wf_wfx; exact Hw|exact H]. Qed.

Theorem m_stmt_text s next ts r : m_stmt s next ts = Some r -> wf_stmt s = true ->
  T ts = W (write_stmt s) ++ T r.
Proof. intros H Hw. eapply (proj2 (all_T (ssize s))); [lia|exact Hw|exact H]. Qed.

Theorem m_stmts_text ss next ts r : m_stmts m_stmt ss next ts = Some r -> wf_stmts wf_stmt ss = true ->
  T ts = concat (map (fun s => W (write_stmt s)) ss) ++ T r.
Proof.
  intros H Hw. eapply (m_stmts_T (ssizes ss)); [|lia|exact Hw|exact H].
  intros s Hs. apply (proj2 (all_T _) s Hs).
Qed.

(* the same in the vocabulary of TokenSpec: the tokens an expression / statement consumes
   are exactly what the printer writes for it *)
Corollary m_expr_tokens e ts rest :
  m_expr e ts = Some rest -> wf_expr e = true -> forallb tok_canonical ts = true ->
  exists used, ts = used ++ rest /\
    despace (wops_text (write_expr e)) = despace (toks_text used).
Proof.
  intros H Hw Hc. destruct (proj1 (all_suf (esize e)) e (le_n _) _ _ H) as [used ->].
  exists used. split; [reflexivity|].
  apply m_expr_text in H; [|exact Hw]. rewrite T_app in H. apply app_inv_tail in H.
  rewrite forallb_app in Hc. apply andb_true_iff in Hc as [Hc _].
  rewrite <- (T_canonical _ Hc), H. reflexivity.
Qed.

Corollary m_stmt_tokens s next ts rest :
  m_stmt s next ts = Some rest -> wf_stmt s = true -> forallb tok_canonical ts = true ->
  exists used, ts = used ++ rest /\
    despace (wops_text (write_stmt s)) = despace (toks_text used).
Proof.
  intros H Hw Hc. destruct (proj2 (all_suf (ssize s)) s (le_n _) _ _ _ H) as [used ->].
  exists used. split; [reflexivity|].
  apply m_stmt_text in H; [|exact Hw]. rewrite T_app in H. apply app_inv_tail in H.
  rewrite forallb_app in Hc. apply andb_true_iff in Hc as [Hc _].
  rewrite <- (T_canonical _ Hc), H. reflexivity.
Qed.

Theorem token_text_preserved : forall p toks,
  m_program p toks = true -> wf_program p = true -> forallb tok_canonical toks = true ->
  token_preserving p toks = true.
Proof.
  intros p toks Hm Hw Hc. unfold token_preserving. apply str_eqb_spec.
  rewrite <- (T_canonical _ Hc). change (despace (wops_text (write_program p))) with (W (write_program p)).
  unfold m_program in Hm. apply andb_true_iff in Hm as [Heof Hm]. apply Z.eqb_eq in Heof.
  destruct (m_stmts m_stmt (p_stmts p) (p_eof p) toks) as [[|e [|? ?]]|] eqn:E; try discriminate.
  apply tok_eqb_eq in Hm. subst e.
  apply m_stmts_text in E; [|exact Hw].
  rewrite E. unfold write_program. rewrite W_app, W_comments, W_nil, app_nil_r.
  rewrite W_sep_map by reflexivity.
  rewrite (map_ext (fun x => W (write_stmt x ++ [])) (fun s => W (write_stmt s)))
    by (intro a; rewrite app_nil_r; reflexivity).
  rewrite T_cons, T_nil, (ctok_eof _ Heof), D_nil. rewrite app_nil_r. reflexivity.
Qed.
Print Assumptions token_text_preserved.
