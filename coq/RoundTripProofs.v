(* RoundTripProofs.v -- C01 (round-trip clause): the compact output of a parsed program
   lexes and parses back, without error, to the same tree up to positions, after-newline
   flags and comments.  Extends the expression-level argument of RelexProofs.v to function
   expressions, [let] initialisers and all statement forms. *)
Require Import Base GoOps Token Lexer LexSpec Tree Writer PrinterLib Compile Parser Grammar
  PrintSpec CommentSpec RelexSpec TokenSpec.
Require Import Gen.Tables Gen.Preds Gen.Printer.
Require Import LexerProofs GrammarProofs PrintProofs RelexProofs TokenProofs C01Proofs.
From Coq Require Import ZifyBool ZifyN ZifyNat Lia.

(* ================================================================== *)
(* 0. tokens that lex back to themselves                               *)
(* ================================================================== *)

(* keywords / operators / punctuation are spelled canonically; identifiers, numbers and
   string literals re-lex, alone, to the same token *)
Definition tok_lex (t : token) : bool :=
  tok_canonical t &&
  (if t_type t =? T_IDENT then relex_word T_IDENT (t_lit t)
   else if t_type t =? T_INT then relex_word T_INT (t_lit t)
   else if t_type t =? T_FLOAT then relex_word T_FLOAT (t_lit t)
   else if t_type t =? T_STRING then relex_string (t_lit t)
   else if t_type t =? T_RAW_STRING then relex_raw (t_lit t)
   else if t_type t =? T_EOF then str_eqb (t_lit t) []
   else true).

Definition TL (t : token) : Prop := tok_lex t = true.

Lemma TL_canon t : TL t -> tok_canonical t = true.
Proof. unfold TL, tok_lex. intro H. apply andb_true_iff in H as [H _]. exact H. Qed.

Lemma TL_word t ty : TL t -> t_type t = ty -> (ty = T_IDENT \/ ty = T_INT \/ ty = T_FLOAT) ->
  relex_word ty (t_lit t) = true.
Proof.
  unfold TL, tok_lex. intros H Ty C. apply andb_true_iff in H as [_ H]. rewrite Ty in H.
  destruct C as [-> | [-> | ->]]; exact H.
Qed.
Lemma TL_string t : TL t -> t_type t = T_STRING -> relex_string (t_lit t) = true.
Proof. unfold TL, tok_lex. intros H Ty. apply andb_true_iff in H as [_ H]. rewrite Ty in H. exact H. Qed.
Lemma TL_raw t : TL t -> t_type t = T_RAW_STRING -> relex_raw (t_lit t) = true.
Proof. unfold TL, tok_lex. intros H Ty. apply andb_true_iff in H as [_ H]. rewrite Ty in H. exact H. Qed.

Lemma canon_spelling t s : tok_canonical t = true -> token_spelling (t_type t) = Some s -> t_lit t = s.
Proof. unfold tok_canonical. intros H E. rewrite E in H. apply str_eqb_spec in H. exact H. Qed.

Lemma type_text_spelling ty s : type_text ty = Some s -> token_spelling ty = Some s.
Proof.
  unfold type_text.
  repeat match goal with
  | |- (if ty =? ?b then _ else _) = _ -> _ =>
      destruct (Z.eqb_spec ty b) as [->|_]; [intro H; inversion H; reflexivity|]
  end; discriminate.
Qed.

Lemma TL_punct t ty s : TL t -> t_type t = ty -> type_text ty = Some s -> punct t ty = true.
Proof.
  intros H Ty E. unfold punct. rewrite Ty, Z.eqb_refl, E. cbn [andb]. apply str_eqb_spec.
  apply canon_spelling; [apply TL_canon; exact H|]. rewrite Ty. apply type_text_spelling. exact E.
Qed.

Lemma TL_kw t ty s : TL t -> t_type t = ty -> token_spelling ty = Some s -> t_lit t = s.
Proof. intros H Ty E. apply canon_spelling; [apply TL_canon; exact H|]. rewrite Ty. exact E. Qed.

(* ================================================================== *)
(* 1. lexing helpers                                                   *)
(* ================================================================== *)

Lemma st_newline b lv mp : wstep cc (gs b lv mp) WNewline = gs b lv mp.
Proof. reflexivity. Qed.
Lemma st_indent b lv mp : wstep cc (gs b lv mp) WIndent = gs b lv mp.
Proof. reflexivity. Qed.

Ltac wsimp2 :=
  repeat first [ rewrite wrun_cons | rewrite wrun_nil | rewrite wrun_app
               | rewrite st_string | rewrite st_rune | rewrite st_space | rewrite st_inc
               | rewrite st_dec | rewrite st_comments | rewrite st_mapping | rewrite st_named
               | rewrite st_newline | rewrite st_indent | rewrite st_semi ].

(* one blank in front of a token is skipped *)
Lemma next_token_space l X : l_rest l = 32%N :: X ->
  next_token l = next_token (mklx X (l_line l) (l_col l + 1) false []).
Proof.
  intro H. unfold next_token, next_token_with, read_leading_comments. rewrite H.
  cbn [trivia l_rest l_line l_col]. change (isWhitespace 32) with true. cbn iota.
  change (N.eqb 32 LF) with false. cbn iota. reflexivity.
Qed.

Lemma lexes_space l X ts l' : l_rest l = 32%N :: X -> ts <> [] ->
  lexes (mklx X (l_line l) (l_col l + 1) false []) ts l' -> lexes l ts l'.
Proof.
  intros H Ne L. inversion L as [|l0 t l1 ts0 l2 N E Ln L']; subst; [congruence|].
  econstructor; [rewrite (next_token_space _ _ H); exact N|exact E| |exact L'].
  cbn [l_rest] in Ln. rewrite H. cbn [length]. lia.
Qed.

Definition ost (c : N) : Prop := ostart c /\ isWhitespace c = false.

Lemma ost_tstart body K c : hd 0%N body = c -> ost c -> tstart (body ++ K) /\ body <> [].
Proof.
  intros Hd [(O1 & O2 & O3) W]. destruct body as [|x body']; cbn [hd] in Hd; [congruence|]. subst x.
  split; [|discriminate]. cbn [app tstart]. split; [exact W|]. intro; congruence.
Qed.

(* the first token of an operand is not preceded by a line break *)
Lemma lexes_first_nl l sp body K c t0 ts0 l' :
  (sp = [32%N] \/ sp = []) -> hd 0%N body = c -> ost c -> l_rest l = sp ++ body ++ K ->
  lexes l (t0 :: ts0) l' -> t_nl t0 = false.
Proof.
  intros Sp Hd Os Hl L. destruct (ost_tstart body K c Hd Os) as [TS Nb].
  inversion L as [|l0 t l1 ts1 l2 N E Ln L']; subst. clear L L'.
  unfold next_token, next_token_with in N.
  assert (R : exists l0, read_leading_comments l = l0 /\ l_had_nl l0 = false /\ l_rest l0 = body ++ K).
  { destruct Sp as [-> | ->]; cbn [app] in Hl.
    - rewrite (rlc_space l _ Hl TS). eexists. split; [reflexivity|]. split; reflexivity.
    - rewrite rlc_stop by (rewrite Hl; exact TS). eexists. split; [reflexivity|]. split; [reflexivity|exact Hl]. }
  destruct R as (l0 & R & Hn & Hr). rewrite R in N.
  assert (A : at_eof l0 = false).
  { unfold at_eof. rewrite Hr. destruct body; [congruence|reflexivity]. }
  destruct (base_next_token_P l0 A) as (x & _ & _ & _ & _ & _ & Nl & _).
  rewrite N in Nl. cbn [fst] in Nl. congruence.
Qed.

(* ================================================================== *)
(* 2. expressions: leaves                                              *)
(* ================================================================== *)

Definition JE2 (e : expr) : Prop := exists c, ost c /\ JP (write_expr e) e c (first_type e).

Lemma letter_ws c : isLetter c = true -> isWhitespace c = false.
Proof. unfold isLetter, isWhitespace. lia. Qed.
Lemma digit_ws c : isDigit c = true -> isWhitespace c = false.
Proof. unfold isDigit, isWhitespace. lia. Qed.

Lemma J2_ident i : ident_lexical i = true -> JE2 (EIdent i).
Proof.
  intro H. destruct (J_ident i H) as [Os J]. exists (fb (EIdent i)). split; [split; [exact Os|]|exact J].
  unfold ident_lexical in H. apply andb_true_iff in H as [_ H3].
  destruct (lex1_word _ _ [] H3 eq_refl ltac:(discriminate) ltac:(discriminate) eq_refl) as (HL & _).
  apply letter_ws. exact HL.
Qed.

Lemma J2_int t : (t_type t =? T_INT) && relex_word T_INT (t_lit t) && go_int_ok (t_lit t) = true -> JE2 (EInt t).
Proof.
  intro H. destruct (J_int t H) as [Os J]. exists (fb (EInt t)). split; [split; [exact Os|]|exact J].
  apply andb_true_iff in H as [H _]. apply andb_true_iff in H as [_ H2].
  destruct (lex1_number _ _ [] H2 (or_introl eq_refl) ltac:(discriminate) eq_refl ltac:(intro Q; discriminate Q)) as (HD & _).
  apply digit_ws. exact HD.
Qed.

Lemma J2_float t : (t_type t =? T_FLOAT) && relex_word T_FLOAT (t_lit t) && go_float_ok (t_lit t) = true -> JE2 (EFloat t).
Proof.
  intro H. destruct (J_float t H) as [Os J]. exists (fb (EFloat t)). split; [split; [exact Os|]|exact J].
  apply andb_true_iff in H as [H H3]. apply andb_true_iff in H as [_ H2].
  destruct (lex1_number _ _ [] H2 (or_intror eq_refl) (fun _ => H3) eq_refl ltac:(intro Q; discriminate Q)) as (HD & _).
  apply digit_ws. exact HD.
Qed.

Lemma J2_string t v : lexical (EString t v) = true -> JE2 (EString t v).
Proof.
  intro H. destruct (J_string t v H) as [Os J]. exists 34%N. split; [split; [exact Os|reflexivity]|exact J].
Qed.
Lemma J2_raw t v : lexical (ERaw t v) = true -> JE2 (ERaw t v).
Proof.
  intro H. destruct (J_raw t v H) as [Os J]. exists 96%N. split; [split; [exact Os|reflexivity]|exact J].
Qed.
Lemma J2_null t : lexical (ENull t) = true -> JE2 (ENull t).
Proof.
  intro H. destruct (J_null t H) as [Os J]. exists 110%N. split; [split; [exact Os|reflexivity]|exact J].
Qed.
Lemma J2_bool t b : lexical (EBool t b) = true -> JE2 (EBool t b).
Proof.
  intro H. destruct (J_bool t b H) as [Os J]. exists (fb (EBool t b)). split; [split; [exact Os|]|exact J].
  cbn [lexical] in H. apply andb_true_iff in H as [H1 H2].
  assert (W : is_word_type (t_type t) = true /\ t_type t <> T_INT /\ t_type t <> T_FLOAT).
  { assert (T : t_type t = T_TRUE \/ t_type t = T_FALSE) by lia.
    destruct T as [-> | ->]; repeat split; discriminate. }
  destruct W as (W1 & W2 & W3).
  destruct (lex1_word _ _ [] H2 W1 W2 W3 eq_refl) as (HL & _). apply letter_ws. exact HL.
Qed.

(* ================================================================== *)
(* 3. expressions: composite nodes (no parentheses are added on        *)
(*    trees with the level discipline)                                 *)
(* ================================================================== *)

Lemma ost_ostart c : ost c -> ostart c.
Proof. intros [H _]. exact H. Qed.

Lemma J2_binary t l op r lv pl pr :
  binop_level (t_type t) = Some lv -> type_text (t_type t) = Some (t_lit t) -> op = t_lit t ->
  prec_opt l = Some pl -> (pl <? lv) = false -> prec_opt r = Some pr -> (pr <=? lv) = false ->
  JE2 l -> JE2 r -> JE2 (EBinary t l op r).
Proof.
  intros Hb TT -> Pl Cl Pr Cr (cl & Ol & Jl) (cr & Or & Jr).
  exists cl. split; [exact Ol|].
  cbn [write_expr prec_opt first_type]. rewrite Pl, Pr, (binop_prec _ _ Hb), Cl, Cr.
  match goal with |- JP ?ops _ _ _ =>
    replace ops with (write_expr l ++
                      [WSpace; WComments (t_comments t); WMapping (t_start t); WString (t_lit t); WSpace] ++
                      write_expr r)
      by (cbn [app]; rewrite !app_nil_r; reflexivity)
  end.
  apply (JP_infix _ _ _ _ _ (t_lit t) (t_type t) _ _ cr (first_type r) t
           (fun t' a b => EBinary t' a (t_lit t) b)).
  - exact Jl.
  - exact Jr.
  - apply ost_ostart; exact Ol.
  - apply ost_ostart; exact Or.
  - intros b0 lv0 mp. wsimp. reflexivity.
  - exact TT.
  - intro E. rewrite E in Hb. discriminate Hb.
  - reflexivity.
  - reflexivity.
  - intros t' eL eR tsL tsR R Ty' Li' _ ML MR. cbn [m_expr]. rewrite Ty', Hb, Li', str_eqb_refl. cbn [negb].
    rewrite ML, eat_tok_refl. apply MR.
  - reflexivity.
  - reflexivity.
Qed.

Lemma J2_assign t l v : t_type t = T_ASSIGN -> t_lit t = [61%N] ->
  JE2 l -> JE2 v -> JE2 (EAssign t l v).
Proof.
  intros Ty Li (cl & Ol & Jl) (cv & Ov & Jv).
  exists cl. split; [exact Ol|].
  cbn [write_expr first_type].
  match goal with |- JP ?ops _ _ _ =>
    replace ops with (write_expr l ++
                      [WSpace; WComments (t_comments t); WMapping (t_start t); WRune 61%N; WSpace] ++
                      write_expr v)
      by (rewrite app_nil_r; reflexivity)
  end.
  apply (JP_infix _ _ _ _ _ [61%N] T_ASSIGN _ _ cv (first_type v) t (fun t' a b => EAssign t' a b)).
  - exact Jl.
  - exact Jv.
  - apply ost_ostart; exact Ol.
  - apply ost_ostart; exact Ov.
  - intros b0 lv0 mp. wsimp. reflexivity.
  - reflexivity.
  - discriminate.
  - exact Ty.
  - exact Li.
  - intros t' eL eR tsL tsR R Ty' Li' _ ML MR. cbn [m_expr]. rewrite Ty'.
    change (T_ASSIGN =? T_ASSIGN) with true. cbn [negb].
    rewrite ML, eat_tok_refl. apply MR.
  - reflexivity.
  - reflexivity.
Qed.

Lemma J2_compound t l op v ty :
  (ty = T_PLUS_ASSIGN \/ ty = T_MINUS_ASSIGN) -> t_type t = ty ->
  type_text ty = Some (op ++ [61%N]) -> t_lit t = op ++ [61%N] ->
  (if ty =? T_PLUS_ASSIGN then Some [43%N] else if ty =? T_MINUS_ASSIGN then Some [45%N] else None) = Some op ->
  JE2 l -> JE2 v -> JE2 (ECompound t l op v).
Proof.
  intros Hty Ty TT Li Want (cl & Ol & Jl) (cv & Ov & Jv).
  exists cl. split; [exact Ol|].
  cbn [write_expr first_type].
  match goal with |- JP ?ops _ _ _ =>
    replace ops with (write_expr l ++
                      [WSpace; WComments (t_comments t); WMapping (t_start t); WString op; WRune 61%N; WSpace] ++
                      write_expr v)
      by (rewrite app_nil_r; reflexivity)
  end.
  apply (JP_infix _ _ _ _ _ (op ++ [61%N]) ty _ _ cv (first_type v) t (fun t' a b => ECompound t' a op b)).
  - exact Jl.
  - exact Jv.
  - apply ost_ostart; exact Ol.
  - apply ost_ostart; exact Ov.
  - intros b0 lv0 mp. wsimp. rewrite <- app_assoc. reflexivity.
  - exact TT.
  - destruct Hty; subst ty; discriminate.
  - exact Ty.
  - exact Li.
  - intros t' eL eR tsL tsR R Ty' Li' _ ML MR. cbn [m_expr]. rewrite Ty', Want, str_eqb_refl. cbn [negb].
    rewrite ML, eat_tok_refl. apply MR.
  - reflexivity.
  - reflexivity.
Qed.

Lemma J2_group lp e rp : punct lp T_LPAREN = true -> punct rp T_RPAREN = true -> JE2 e -> JE2 (EGroup lp e rp).
Proof.
  intros Hl1 Hl2 (c & Oe & Je).
  exists 40%N. split; [split; [repeat split; discriminate|reflexivity]|].
  cbn [write_expr first_type].
  destruct (punct_inv _ _ Hl1) as [Ty _]. rewrite Ty.
  match goal with |- JP ?ops _ _ _ =>
    replace ops with ([WComments (t_comments lp); WMapping (t_start lp); WRune 40%N; WIncIndent] ++ write_expr e ++
                      [WComments (t_comments rp); WDecIndent; WRune 41%N]) by reflexivity
  end.
  apply (JP_group _ _ _ _ lp rp _ _ Je Hl1 Hl2); intros b lv mp; wsimp; reflexivity.
Qed.

Lemma J2_unary t op r pr :
  type_text (t_type t) = Some (t_lit t) -> op = t_lit t ->
  (t_type t =? T_NOT) || (t_type t =? T_MINUS) || (t_type t =? T_INCREMENT) || (t_type t =? T_DECREMENT) = true ->
  prec_opt r = Some pr -> (pr <? A_PrecedenceUnary) = false ->
  JE2 r -> JE2 (EUnary t op r).
Proof.
  intros TT -> Tys Pr Cr (cr & Or & Jr).
  assert (Oop : ost (hd 0%N (t_lit t))).
  { revert TT. generalize (t_lit t). intros s TT.
    assert (Hs : s = [33%N] \/ s = [45%N] \/ s = [43; 43]%N \/ s = [45; 45]%N).
    { apply orb_true_iff in Tys as [Tys|Tys]; [apply orb_true_iff in Tys as [Tys|Tys];
        [apply orb_true_iff in Tys as [Tys|Tys]|]|]; apply Z.eqb_eq in Tys; rewrite Tys in TT;
        inversion TT; auto. }
    destruct Hs as [-> | [-> | [-> | ->]]]; (split; [repeat split; discriminate|reflexivity]). }
  exists (hd 0%N (t_lit t)). split; [exact Oop|].
  cbn [write_expr first_type]. rewrite Pr, Cr, !app_nil_r.
  pose proof (ost_ostart _ Or) as Or'.
  intros b lv mp.
  destruct (Jr ((b ++ spf (t_lit t) b) ++ t_lit t) lv mp) as (sp2 & body2 & W2 & Sp2 & Hd2 & Lx2).
  exists (spf (t_lit t) b), (t_lit t ++ sp2 ++ body2). split.
  { wsimp. rewrite st_fusion. wsimp. rewrite W2. f_equal. rewrite <- !app_assoc. reflexivity. }
  split; [apply spf_cases|].
  split; [apply hd_app_ne; exact (type_text_nonempty _ _ TT)|].
  intros K HK l Hl.
  pose proof (pbnd_operand _ _ _ _ K _ Sp2 Hd2 Or') as PB.
  assert (St : exists t' l1, lexes l [t'] l1 /\ t_type t' = t_type t /\ t_lit t' = t_lit t /\
                             l_rest l1 = sp2 ++ body2 ++ K).
  { destruct (spf_cases (t_lit t) b) as [E|[E _]]; rewrite E in Hl.
    - cbn [app] in Hl. rewrite <- !app_assoc in Hl.
      destruct (punct_step_sp _ _ _ l TT PB Hl) as (t' & l1 & L1 & Ty1 & Li1 & _ & R1). eauto 8.
    - cbn [app] in Hl. rewrite <- !app_assoc in Hl.
      destruct (punct_step _ _ _ l TT PB Hl) as (t' & l1 & L1 & Ty1 & Li1 & _ & R1). eauto 8. }
  destruct St as (t' & l1 & L1 & Ty1 & Li1 & R1).
  destruct (Lx2 K (kont_sub _ _ _ HK eq_refl) l1 R1) as (eR & tsR & l2 & L2 & R2 & MR & SR & _).
  exists (EUnary t' (t_lit t) eR), ([t'] ++ tsR), l2.
  split; [eapply lexes_app; eassumption|]. split; [exact R2|]. split; [|split].
  - intro R. cbn [m_expr app]. rewrite Ty1, Tys, Li1, str_eqb_refl. cbn [negb orb].
    rewrite eat_tok_refl. apply MR.
  - unfold shape_expr in *. cbn [tmap_expr]. rewrite SR. f_equal. apply norm_eq; congruence.
  - exists t', tsR. split; [reflexivity|left; exact Ty1].
Qed.

Lemma J2_postfix t l op pl :
  type_text (t_type t) = Some (t_lit t) -> op = t_lit t ->
  (t_type t =? T_INCREMENT) || (t_type t =? T_DECREMENT) = true ->
  prec_opt l = Some pl -> (pl <? A_PrecedencePostfix) = false ->
  JE2 l -> JE2 (EPostfix t l op).
Proof.
  intros TT -> Tys Pl Cl (cl & Ol & Jl).
  assert (Hs : t_lit t = [43; 43]%N \/ t_lit t = [45; 45]%N).
  { apply orb_true_iff in Tys as [T1|T1]; apply Z.eqb_eq in T1; rewrite T1 in TT; inversion TT; auto. }
  assert (ND : t_type t <> T_DOT).
  { intro E. rewrite E in Tys. discriminate Tys. }
  exists cl. split; [exact Ol|].
  cbn [write_expr first_type]. rewrite Pl, Cl, !app_nil_r.
  pose proof (ost_ostart _ Ol) as Ol'.
  intros b lv mp.
  destruct (Jl b lv mp) as (sp & body & W & Sp & Hd & Lx).
  exists sp, (body ++ t_lit t). split.
  { wsimp. rewrite W. wsimp. f_equal. rewrite <- !app_assoc. reflexivity. }
  split; [exact Sp|]. split; [rewrite (hd_app_ne _ _ (ostart_ne _ _ Ol' Hd)); exact Hd|].
  intros K HK l0 Hl0.
  destruct (Lx (t_lit t ++ K) (kont_type_text _ _ _ TT ND) l0) as (eL & tsL & l1 & L1 & R1 & ML & SL & FL).
  { rewrite Hl0, <- !app_assoc. reflexivity. }
  assert (PB : pbnd (t_lit t) (hd 0%N K)) by (destruct Hs as [-> | ->]; exact I).
  destruct (punct_step _ _ _ l1 TT PB R1) as (t' & l2 & L2 & Ty2 & Li2 & Nl2 & R2).
  exists (EPostfix t' eL (t_lit t)), (tsL ++ [t']), l2.
  split; [eapply lexes_app; eassumption|]. split; [exact R2|]. split; [|split].
  - intro R. cbn [m_expr]. rewrite Ty2, Tys, Li2, str_eqb_refl, Nl2. cbn [negb orb].
    rewrite <- app_assoc, ML. cbn [app]. apply eat_tok_refl.
  - unfold shape_expr in *. cbn [tmap_expr]. rewrite SL. f_equal. apply norm_eq; congruence.
  - destruct FL as (t0 & ts0 & -> & F). exists t0, (ts0 ++ [t']). split; [reflexivity|exact F].
Qed.

(* comma-separated expressions *)
Lemma JL2_sep es : Forall JE2 es ->
  JL (sep_map [WRune 44%N; WSpace] (fun a => write_expr a ++ []) es) es.
Proof.
  induction 1 as [|x es (cx & Ox & Jx) Hes IH]; intros b lv mp.
  - exists []. split; [rewrite app_nil_r; reflexivity|].
    intros K HK l Hl. exists [], [], l. repeat split; try constructor. exact Hl.
  - destruct (Jx b lv mp) as (sp & body & W & Sp & Hd & Lx).
    destruct es as [|y es'].
    + exists (sp ++ body). split.
      { rewrite sep_map_one. cbv beta. rewrite app_nil_r. exact W. }
      intros K HK l Hl. rewrite <- app_assoc in Hl.
      destruct (Lx K (kont_sub _ _ _ HK eq_refl) l Hl) as (e' & ts & l' & L & R & M & S & _).
      exists [e'], ts, l'. repeat split; try assumption. cbn [map]. rewrite S. reflexivity.
    + destruct (IH ((b ++ sp ++ body) ++ [44%N]) lv mp) as (body2 & W2 & Lx2).
      exists ((sp ++ body) ++ 44%N :: body2). split.
      { rewrite sep_map_cons2. cbv beta. rewrite (app_nil_r (write_expr x)), !wrun_app, W. cbn [app]. rewrite wrun_cons, st_rune, wrun_cons, st_space, wrun_nil, W2.
        f_equal. rewrite <- !app_assoc. reflexivity. }
      intros K HK l Hl. rewrite <- !app_assoc in Hl.
      destruct (Lx (44%N :: body2 ++ K) ltac:(apply kont_cons; [reflexivity|discriminate]) l Hl)
        as (e' & ts & l1 & L1 & R1 & M1 & S1 & _).
      destruct (comma_step _ l1 R1) as (tc & l2 & L2 & Tc & R2).
      destruct (Lx2 K HK l2 R2) as (es2 & ts2 & l3 & L3 & R3 & M3 & S3).
      exists (e' :: es2), (ts ++ [tc] ++ ts2), l3.
      split; [eapply lexes_app; [exact L1|eapply lexes_app; eassumption]|]. split; [exact R3|].
      split.
      * intro R. destruct es2 as [|e2 es2']; [discriminate S3|].
        cbn [m_exprs]. rewrite <- !app_assoc, M1. cbn [app eat]. rewrite Tc.
        change (T_COMMA =? T_COMMA) with true. cbn iota. apply M3.
      * cbn [map]. rewrite S1. f_equal. exact S3.
Qed.

Lemma J2_call t f args : t_type t = T_LPAREN -> t_lit t = [40%N] ->
  JE2 f -> Forall JE2 args -> JE2 (ECall t f args).
Proof.
  intros Ty Li (cf & Of & Jf) Ja.
  exists cf. split; [exact Of|].
  cbn [write_expr first_type].
  pose proof (JL2_sep _ Ja) as JA. pose proof (ost_ostart _ Of) as Of'.
  intros b lv mp.
  destruct (Jf b lv mp) as (sp & body & W & Sp & Hd & Lx).
  destruct (JA ((b ++ sp ++ body) ++ [40%N]) lv mp) as (body2 & W2 & Lx2).
  exists sp, (body ++ 40%N :: body2 ++ [41%N]). split.
  { wsimp. rewrite W. wsimp. rewrite W2. wsimp. f_equal. rewrite <- !app_assoc. reflexivity. }
  split; [exact Sp|]. split; [rewrite (hd_app_ne _ _ (ostart_ne _ _ Of' Hd)); exact Hd|].
  intros K HK l Hl.
  destruct (Lx (40%N :: body2 ++ 41%N :: K) ltac:(apply kont_cons; [reflexivity|discriminate]) l)
    as (eF & tsF & l1 & L1 & R1 & MF & SF & FF).
  { rewrite Hl, <- !app_assoc. cbn [app]. rewrite <- !app_assoc. reflexivity. }
  destruct (punct_step T_LPAREN [40%N] _ l1 type_text_lparen ltac:(pfree) R1)
    as (t1 & l2 & L2 & Ty1 & Li1 & _ & R2).
  destruct (Lx2 (41%N :: K) ltac:(apply kont_cons; [reflexivity|discriminate]) l2 R2)
    as (es' & tsA & l3 & L3 & R3 & MA & SA).
  destruct (punct_step T_RPAREN [41%N] K l3 type_text_rparen ltac:(pfree) R3)
    as (t2 & l4 & L4 & Ty2 & _ & _ & R4).
  exists (ECall t1 eF es'), (tsF ++ [t1] ++ tsA ++ [t2]), l4.
  split; [eapply lexes_app; [exact L1|eapply lexes_app; [exact L2|eapply lexes_app; eassumption]]|].
  split; [exact R4|]. split; [|split].
  - intro R. cbn [m_expr]. rewrite Ty1. change (T_LPAREN =? T_LPAREN) with true. cbn [negb].
    rewrite <- !app_assoc, MF. cbn [app]. rewrite eat_tok_refl, MA. cbn [app eat]. rewrite Ty2. reflexivity.
  - unfold shape_expr. cbn [tmap_expr]. change (tmap_expr norm_tok) with shape_expr. rewrite SF, SA. f_equal. apply norm_eq; congruence.
  - destruct FF as (t0 & ts0 & -> & F). eexists t0, _. split; [reflexivity|exact F].
Qed.

Lemma J2_member_computed t o p : t_type t = T_LBRACKET -> t_lit t = [91%N] ->
  JE2 o -> JE2 p -> JE2 (EMember t o p true).
Proof.
  intros Ty Li (co & Oo & Jo) (cp & Op & Jp).
  exists co. split; [exact Oo|].
  cbn [write_expr first_type]. pose proof (ost_ostart _ Oo) as Oo'.
  intros b lv mp.
  destruct (Jo b lv mp) as (sp & body & W & Sp & Hd & Lx).
  destruct (Jp ((b ++ sp ++ body) ++ [91%N]) lv mp) as (sp2 & body2 & W2 & Sp2 & Hd2 & Lx2).
  exists sp, (body ++ 91%N :: sp2 ++ body2 ++ [93%N]). split.
  { wsimp. rewrite W. wsimp. rewrite W2. wsimp. f_equal. rewrite <- !app_assoc. reflexivity. }
  split; [exact Sp|]. split; [rewrite (hd_app_ne _ _ (ostart_ne _ _ Oo' Hd)); exact Hd|].
  intros K HK l Hl.
  destruct (Lx (91%N :: sp2 ++ body2 ++ 93%N :: K) ltac:(apply kont_cons; [reflexivity|discriminate]) l)
    as (eO & tsO & l1 & L1 & R1 & MO & SO & FO).
  { rewrite Hl, <- !app_assoc. cbn [app]. rewrite <- !app_assoc. reflexivity. }
  destruct (punct_step T_LBRACKET [91%N] _ l1 type_text_lbracket ltac:(pfree) R1)
    as (t1 & l2 & L2 & Ty1 & Li1 & _ & R2).
  destruct (Lx2 (93%N :: K) ltac:(apply kont_cons; [reflexivity|discriminate]) l2 R2)
    as (eP & tsP & l3 & L3 & R3 & MP & SP & _).
  destruct (punct_step T_RBRACKET [93%N] K l3 type_text_rbracket ltac:(pfree) R3)
    as (t2 & l4 & L4 & Ty2 & _ & _ & R4).
  exists (EMember t1 eO eP true), (tsO ++ [t1] ++ tsP ++ [t2]), l4.
  split; [eapply lexes_app; [exact L1|eapply lexes_app; [exact L2|eapply lexes_app; eassumption]]|].
  split; [exact R4|]. split; [|split].
  - intro R. cbn [m_expr]. rewrite <- !app_assoc, MO. rewrite Ty1. change (T_LBRACKET =? T_LBRACKET) with true. cbn [negb].
    cbn [app]. rewrite eat_tok_refl, MP. cbn [app eat]. rewrite Ty2. reflexivity.
  - unfold shape_expr. cbn [tmap_expr]. change (tmap_expr norm_tok) with shape_expr. rewrite SO, SP. f_equal. apply norm_eq; congruence.
  - destruct FO as (t0 & ts0 & -> & F). eexists t0, _. split; [reflexivity|exact F].
Qed.

Lemma J2_member_dot t o i : t_type t = T_DOT -> t_lit t = [46%N] -> ident_lexical i = true ->
  obj_ok o = true -> JE2 o -> JE2 (EMember t o (EIdent i) false).
Proof.
  intros Ty Li Hl3 Hob (co & Oo & Jo).
  unfold ident_lexical in Hl3. apply andb_true_iff in Hl3 as [Hi H3]. apply andb_true_iff in Hi as [H1 H2].
  apply Z.eqb_eq in H1. apply str_eqb_spec in H2.
  destruct (lex1_word _ _ [] H3 eq_refl ltac:(discriminate) ltac:(discriminate) eq_refl) as (HL & _).
  assert (Ni : id_value i <> []) by (intro E; rewrite E in HL; discriminate HL).
  exists co. split; [exact Oo|]. pose proof (ost_ostart _ Oo) as Oo'.
  cbn [write_expr first_type]. unfold write_ident.
  (* the blank that keeps a decimal integer literal and the dot apart *)
  set (bl := if is_decimal_int o then [32%N] else @nil N).
  assert (Wb : forall b lv mp,
    wrun (gs b lv mp) (if negb false && is_decimal_int o then [WRune 32%N] else []) = gs (b ++ bl) lv mp).
  { intros. unfold bl. destruct (is_decimal_int o); cbn [negb andb]; wsimp; rewrite ?app_nil_r; reflexivity. }
  intros b lv mp.
  destruct (Jo b lv mp) as (sp & body & W & Sp & Hd & Lx).
  exists sp, (body ++ bl ++ 46%N :: id_value i). split.
  { wsimp. rewrite W, Wb. wsimp. f_equal. rewrite <- !app_assoc. reflexivity. }
  split; [exact Sp|]. split; [rewrite (hd_app_ne _ _ (ostart_ne _ _ Oo' Hd)); exact Hd|].
  intros K HK l Hl.
  destruct (Lx (bl ++ 46%N :: id_value i ++ K)) with (l := l) as (eO & tsO & l1 & L1 & R1 & MO & SO & FO).
  { unfold bl. destruct (is_decimal_int o) eqn:DI; [apply kont_cons; [reflexivity|discriminate]|].
    split; cbn [app hd tl]; [reflexivity|]. intros _. unfold dot_ok. rewrite Hob, DI. reflexivity. }
  { rewrite Hl, <- !app_assoc. cbn [app]. rewrite <- ?app_assoc. reflexivity. }
  assert (PS : exists t1 l2, lexes l1 [t1] l2 /\ t_type t1 = T_DOT /\ t_lit t1 = [46%N] /\
                             l_rest l2 = id_value i ++ K).
  { unfold bl in R1. destruct (is_decimal_int o).
    - destruct (punct_step_sp T_DOT [46%N] _ l1 type_text_dot ltac:(pfree) R1)
        as (t1 & l2 & L2 & Ty1 & Li1 & _ & R2). eauto 7.
    - destruct (punct_step T_DOT [46%N] _ l1 type_text_dot ltac:(pfree) R1)
        as (t1 & l2 & L2 & Ty1 & Li1 & _ & R2). eauto 7. }
  destruct PS as (t1 & l2 & L2 & Ty1 & Li1 & R2).
  destruct HK as [HK1 _].
  destruct (lex1_word _ _ K H3 eq_refl ltac:(discriminate) ltac:(discriminate) HK1) as (_ & LW & _).
  destruct (lex1_lexes _ _ _ _ LW Ni ltac:(discriminate) l2 R2) as (t2 & l3 & L3 & Ty2 & Li2 & _ & R3).
  exists (EMember t1 eO (EIdent (mkident t2 (id_value i))) false), (tsO ++ [t1] ++ [t2]), l3.
  split; [eapply lexes_app; [exact L1|eapply lexes_app; eassumption]|].
  split; [exact R3|]. split; [|split].
  - intro R. cbn [m_expr]. rewrite <- !app_assoc, MO. rewrite Ty1. change (T_DOT =? T_DOT) with true. cbn [negb].
    cbn [app]. rewrite eat_tok_refl. unfold m_ident, ident_ok. cbn [id_tok id_value].
    rewrite Ty2, Li2, str_eqb_refl. change (T_IDENT =? T_IDENT) with true. cbn [andb]. apply eat_tok_refl.
  - unfold shape_expr. cbn [tmap_expr]. change (tmap_expr norm_tok) with shape_expr. unfold tmap_ident. cbn [id_tok id_value]. rewrite SO.
    rewrite (norm_eq t1 t), (norm_eq t2 (id_tok i)) by congruence. reflexivity.
  - destruct FO as (t0 & ts0 & -> & F). eexists t0, _. split; [reflexivity|exact F].
Qed.

Lemma J2_array lb es rb : punct lb T_LBRACKET = true -> punct rb T_RBRACKET = true ->
  Forall JE2 es -> JE2 (EArray lb es rb).
Proof.
  intros Hl1 Hl2 Ja.
  destruct (punct_inv _ _ Hl1) as [Ty1 TT1]. rewrite type_text_lbracket in TT1. inversion TT1 as [Li1].
  destruct (punct_inv _ _ Hl2) as [Ty2 TT2]. rewrite type_text_rbracket in TT2. inversion TT2 as [Li2].
  exists 91%N. split; [split; [repeat split; discriminate|reflexivity]|].
  cbn [write_expr first_type]. rewrite Ty1.
  pose proof (JL2_sep _ Ja) as JA.
  intros b lv mp.
  destruct (JA (b ++ [91%N]) lv mp) as (body2 & W2 & Lx2).
  exists [], (91%N :: body2 ++ [93%N]). split.
  { wsimp. rewrite W2. wsimp. f_equal. rewrite <- !app_assoc. reflexivity. }
  split; [right; split; [reflexivity|apply nofuse_other; discriminate]|]. split; [reflexivity|].
  intros K HK l Hl. cbn [app] in Hl. rewrite <- !app_assoc in Hl.
  destruct (punct_step T_LBRACKET [91%N] _ l type_text_lbracket ltac:(pfree) Hl)
    as (t1 & l2 & L2 & T1 & I1 & _ & R2).
  destruct (Lx2 (93%N :: K) ltac:(apply kont_cons; [reflexivity|discriminate]) l2 R2)
    as (es' & tsA & l3 & L3 & R3 & MA & SA).
  destruct (punct_step T_RBRACKET [93%N] K l3 type_text_rbracket ltac:(pfree) R3)
    as (t2 & l4 & L4 & T2 & I2 & _ & R4).
  exists (EArray t1 es' t2), ([t1] ++ tsA ++ [t2]), l4.
  split; [eapply lexes_app; [exact L2|eapply lexes_app; eassumption]|].
  split; [exact R4|]. split; [|split].
  - intro R. cbn [m_expr]. rewrite T1, T2. change (T_LBRACKET =? T_LBRACKET) with true.
    change (T_RBRACKET =? T_RBRACKET) with true. cbn [negb orb app].
    rewrite eat_tok_refl, <- app_assoc, MA. cbn [app]. apply eat_tok_refl.
  - unfold shape_expr. cbn [tmap_expr]. change (tmap_expr norm_tok) with shape_expr. rewrite SA.
    rewrite (norm_eq t1 lb), (norm_eq t2 rb) by congruence. reflexivity.
  - eexists t1, _. split; [reflexivity|left; exact T1].
Qed.

(* ---------- object literals ---------- *)

Lemma JPR2_sep ps : Forall (fun kv => key_ok (fst kv) = true /\ JE2 (fst kv) /\ JE2 (snd kv)) ps ->
  JPR (sep_map [WRune 44%N; WSpace] prop_ops ps) ps.
Proof.
  induction 1 as [|[k v] ps (Kk & (ck & Ok & Jk) & (cv & Ov & Jv)) Hps IH]; intros b lv mp.
  - exists []. split; [rewrite app_nil_r; reflexivity|].
    intros K HK l Hl. exists [], [], l. repeat split; try constructor. exact Hl.
  - cbn [fst snd] in *.
    destruct (Jk b lv mp) as (sp & body & W & Sp & Hd & Lx).
    destruct (Jv ((b ++ sp ++ body) ++ [58%N]) lv mp) as (sp2 & body2 & W2 & Sp2 & Hd2 & Lx2).
    assert (ONE : forall K, kont ENil K -> forall l, l_rest l = sp ++ body ++ 58%N :: sp2 ++ body2 ++ K ->
              exists k' v' ts l', lexes l ts l' /\ l_rest l' = K /\ key_ok k' = true /\
                (forall R, exists R1, m_expr k' (ts ++ R) = Some R1 /\
                   exists tc R2, eat T_COLON R1 = Some (tc, R2) /\ m_expr v' R2 = Some R) /\
                shape_expr k' = shape_expr k /\ shape_expr v' = shape_expr v).
    { intros K HK l Hl.
      destruct (Lx (58%N :: sp2 ++ body2 ++ K) ltac:(apply kont_cons; [reflexivity|discriminate]) l Hl)
        as (k' & tsk & l1 & L1 & R1 & Mk & Sk & _).
      destruct (colon_step _ l1 R1) as (tc & l2 & L2 & Tc & R2).
      destruct (Lx2 K (kont_sub _ _ _ HK eq_refl) l2 R2) as (v' & tsv & l3 & L3 & R3 & Mv & Sv & _).
      exists k', v', (tsk ++ [tc] ++ tsv), l3.
      split; [eapply lexes_app; [exact L1|eapply lexes_app; eassumption]|]. split; [exact R3|].
      split; [rewrite (key_ok_shape _ _ Sk); exact Kk|]. split; [|split; assumption].
      intro R. eexists. rewrite <- !app_assoc. split; [apply Mk|].
      cbn [app eat]. rewrite Tc. change (T_COLON =? T_COLON) with true. cbn iota.
      do 2 eexists. split; [reflexivity|apply Mv]. }
    destruct ps as [|kv2 ps'].
    + exists (sp ++ body ++ 58%N :: sp2 ++ body2). split.
      { rewrite sep_map_one. unfold prop_ops. cbn [fst snd]. wsimp. rewrite W. wsimp. rewrite W2.
        f_equal. rewrite <- !app_assoc. reflexivity. }
      intros K HK l Hl.
      destruct (ONE K HK l) as (k' & v' & ts & l' & L & R & Kk' & M & Sk & Sv).
      { rewrite Hl, <- !app_assoc. cbn [app]. rewrite <- !app_assoc. reflexivity. }
      exists [(k', v')], ts, l'. split; [exact L|]. split; [exact R|]. split.
      * intro R0. cbn [m_props]. rewrite Kk'. cbn [negb].
        destruct (M R0) as (R1 & -> & tc & R2 & -> & ->). reflexivity.
      * cbn [map]. unfold shp. cbn [fst snd]. rewrite Sk, Sv. reflexivity.
    + destruct (IH (((b ++ sp ++ body) ++ [58%N]) ++ sp2 ++ body2 ++ [44%N]) lv mp) as (body3 & W3 & Lx3).
      exists ((sp ++ body ++ 58%N :: sp2 ++ body2) ++ 44%N :: body3). split.
      { rewrite sep_map_cons2. unfold prop_ops at 1. cbn [fst snd]. wsimp. rewrite W. wsimp. rewrite W2. wsimp.
        rewrite <- !app_assoc in W3. cbn [app] in W3. rewrite <- !app_assoc. cbn [app].
        rewrite <- !app_assoc. cbn [app]. rewrite W3. reflexivity. }
      intros K HK l Hl.
      destruct (ONE (44%N :: body3 ++ K) ltac:(apply kont_cons; [reflexivity|discriminate]) l)
        as (k' & v' & ts & l1 & L1 & R1 & Kk' & M & Sk & Sv).
      { rewrite Hl, <- !app_assoc. cbn [app]. rewrite <- !app_assoc. reflexivity. }
      destruct (comma_step _ l1 R1) as (tc & l2 & L2 & Tc & R2).
      destruct (Lx3 K HK l2 R2) as (ps2 & ts2 & l3 & L3 & R3 & M3 & S3).
      exists ((k', v') :: ps2), (ts ++ [tc] ++ ts2), l3.
      split; [eapply lexes_app; [exact L1|eapply lexes_app; eassumption]|]. split; [exact R3|].
      split.
      * intro R0. destruct ps2 as [|p2 ps2']; [discriminate S3|].
        cbn [m_props]. rewrite Kk'. cbn [negb]. rewrite <- !app_assoc.
        destruct (M ([tc] ++ ts2 ++ R0)) as (Ra & -> & tcc & Rb & -> & ->).
        cbn [app eat]. rewrite Tc. change (T_COMMA =? T_COMMA) with true. cbn iota. apply M3.
      * cbn [map]. unfold shp at 1 3. cbn [fst snd]. rewrite Sk, Sv. f_equal. exact S3.
Qed.

Lemma J2_object lb ps rb : punct lb T_LBRACE = true ->
  match ps with [] => tok_eqb rb zero_token | _ => punct rb T_RBRACE end = true ->
  Forall (fun kv => key_ok (fst kv) = true /\ JE2 (fst kv) /\ JE2 (snd kv)) ps ->
  JE2 (EObject lb ps rb).
Proof.
  intros Hl1 Hl3 Jp.
  destruct (punct_inv _ _ Hl1) as [Ty1 TT1]. rewrite type_text_lbrace in TT1. inversion TT1 as [Li1].
  exists 123%N. split; [split; [repeat split; discriminate|reflexivity]|].
  cbn [write_expr first_type]. rewrite Ty1.
  pose proof (JPR2_sep _ Jp) as JA.
  intros b lv mp.
  destruct (JA (b ++ [123%N]) lv mp) as (body2 & W2 & Lx2).
  exists [], (123%N :: body2 ++ [125%N]). split.
  { wsimp. fold prop_ops. change (fun prop : expr * expr => prop_ops prop) with prop_ops.
    rewrite W2. wsimp. f_equal. rewrite <- !app_assoc. reflexivity. }
  split; [right; split; [reflexivity|apply nofuse_other; discriminate]|]. split; [reflexivity|].
  intros K HK l Hl. cbn [app] in Hl. rewrite <- !app_assoc in Hl.
  destruct (punct_step T_LBRACE [123%N] _ l type_text_lbrace ltac:(pfree) Hl)
    as (t1 & l2 & L2 & T1 & I1 & _ & R2).
  destruct (Lx2 (125%N :: K) ltac:(apply kont_cons; [reflexivity|discriminate]) l2 R2)
    as (ps' & tsA & l3 & L3 & R3 & MA & SA).
  destruct (punct_step T_RBRACE [125%N] K l3 type_text_rbrace ltac:(pfree) R3)
    as (t2 & l4 & L4 & T2 & I2 & _ & R4).
  destruct ps as [|kv ps0].
  - apply tok_eqb_eq in Hl3. subst rb.
    destruct ps' as [|? ?]; [|discriminate SA].
    assert (tsA = []).
    { specialize (MA []). cbn [m_props] in MA. rewrite app_nil_r in MA. inversion MA. reflexivity. }
    subst tsA.
    exists (EObject t1 [] zero_token), ([t1] ++ [] ++ [t2]), l4.
    split; [eapply lexes_app; [exact L2|eapply lexes_app; eassumption]|].
    split; [exact R4|]. split; [|split].
    + intro R. cbn [m_expr]. rewrite T1. change (T_LBRACE =? T_LBRACE) with true. cbn [negb app].
      rewrite eat_tok_refl. rewrite tok_eqb_refl. cbn [app eat]. rewrite T2. reflexivity.
    + unfold shape_expr. cbn [tmap_expr map]. rewrite (norm_eq t1 lb) by congruence. reflexivity.
    + eexists t1, _. split; [reflexivity|left; exact T1].
  - destruct (punct_inv _ _ Hl3) as [Ty2 TT2]. rewrite type_text_rbrace in TT2. inversion TT2 as [Li2].
    destruct ps' as [|p' ps'']; [discriminate SA|].
    exists (EObject t1 (p' :: ps'') t2), ([t1] ++ tsA ++ [t2]), l4.
    split; [eapply lexes_app; [exact L2|eapply lexes_app; eassumption]|].
    split; [exact R4|]. split; [|split].
    + intro R. cbn [m_expr]. rewrite T1, T2. change (T_LBRACE =? T_LBRACE) with true.
      change (T_RBRACE =? T_RBRACE) with true. cbn [negb app].
      rewrite eat_tok_refl, <- app_assoc, MA. cbn [app]. apply eat_tok_refl.
    + unfold shape_expr. cbn [tmap_expr]. change (tmap_expr norm_tok) with shape_expr.
      fold shp. change (fun kv : expr * expr => shp kv) with shp.
      rewrite (norm_eq t1 lb), (norm_eq t2 rb) by congruence.
      f_equal. exact SA.
    + eexists t1, _. split; [reflexivity|left; exact T1].
Qed.

(* ================================================================== *)
(* 4. words in context: keywords and names                             *)
(* ================================================================== *)

Definition spc (sp : bool) : str := if sp then [32%N] else [].

Lemma word_step ty lit K l (sp : bool) :
  relex_word ty lit = true -> is_word_type ty = true -> ty <> T_INT -> ty <> T_FLOAT ->
  is_ident_char (hd 0%N K) = false -> l_rest l = spc sp ++ lit ++ K ->
  exists t l', lexes l [t] l' /\ t_type t = ty /\ t_lit t = lit /\ t_nl t = false /\ l_rest l' = K.
Proof.
  intros H W NI NF HK Hl.
  destruct (lex1_word _ _ K H W NI NF HK) as (HL & L1 & L2).
  assert (Nl : lit <> []) by (intro E; rewrite E in HL; discriminate HL).
  assert (Ne : ty <> T_EOF) by (intro E; rewrite E in W; discriminate W).
  destruct sp; cbn [spc app] in Hl.
  - exact (lex1_lexes _ _ _ _ L2 ltac:(discriminate) Ne l Hl).
  - exact (lex1_lexes _ _ _ _ L1 Nl Ne l Hl).
Qed.

Definition kw_let : str := [108; 101; 116]%N.
Definition kw_function : str := [102; 117; 110; 99; 116; 105; 111; 110]%N.
Definition kw_return : str := [114; 101; 116; 117; 114; 110]%N.
Definition kw_if : str := [105; 102]%N.
Definition kw_else : str := [101; 108; 115; 101]%N.
Definition kw_while : str := [119; 104; 105; 108; 101]%N.
Definition kw_for : str := [102; 111; 114]%N.

Lemma kw_step ty kw K l (sp : bool) :
  relex_word ty kw = true -> is_word_type ty = true -> ty <> T_INT -> ty <> T_FLOAT ->
  is_ident_char (hd 0%N K) = false -> l_rest l = spc sp ++ kw ++ K ->
  exists t l', lexes l [t] l' /\ t_type t = ty /\ t_lit t = kw /\ t_nl t = false /\ l_rest l' = K.
Proof. apply word_step. Qed.

Lemma relex_let : relex_word T_LET kw_let = true. Proof. vm_compute. reflexivity. Qed.
Lemma relex_function : relex_word T_FUNCTION kw_function = true. Proof. vm_compute. reflexivity. Qed.
Lemma relex_return : relex_word T_RETURN kw_return = true. Proof. vm_compute. reflexivity. Qed.
Lemma relex_if : relex_word T_IF kw_if = true. Proof. vm_compute. reflexivity. Qed.
Lemma relex_else : relex_word T_ELSE kw_else = true. Proof. vm_compute. reflexivity. Qed.
Lemma relex_while : relex_word T_WHILE kw_while = true. Proof. vm_compute. reflexivity. Qed.
Lemma relex_for : relex_word T_FOR kw_for = true. Proof. vm_compute. reflexivity. Qed.

Ltac kw_tac := first [reflexivity | discriminate].

(* a name *)
Lemma ident_step i K l (sp : bool) : ident_lexical i = true ->
  is_ident_char (hd 0%N K) = false -> l_rest l = spc sp ++ id_value i ++ K ->
  exists t l', lexes l [t] l' /\ t_type t = T_IDENT /\ t_lit t = id_value i /\ l_rest l' = K /\
    (forall R, m_ident (mkident t (id_value i)) (t :: R) = Some R) /\
    tmap_ident norm_tok (mkident t (id_value i)) = tmap_ident norm_tok i.
Proof.
  intros H HK Hl. unfold ident_lexical in H. apply andb_true_iff in H as [H H3].
  apply andb_true_iff in H as [H1 H2]. apply Z.eqb_eq in H1. apply str_eqb_spec in H2.
  destruct (word_step _ _ K l sp H3 eq_refl ltac:(discriminate) ltac:(discriminate) HK Hl)
    as (t & l' & L & Ty & Li & _ & R).
  exists t, l'. repeat split; try assumption.
  - intro R0. unfold m_ident, ident_ok. cbn [id_tok id_value]. rewrite Ty, Li, str_eqb_refl.
    change (T_IDENT =? T_IDENT) with true. cbn [andb]. apply eat_tok_refl.
  - unfold tmap_ident. cbn [id_tok id_value]. rewrite (norm_eq t (id_tok i)) by congruence. reflexivity.
Qed.

Lemma ident_first i : ident_lexical i = true -> isLetter (hd 0%N (id_value i)) = true.
Proof.
  intro H. unfold ident_lexical in H. apply andb_true_iff in H as [_ H3].
  destruct (lex1_word _ _ [] H3 eq_refl ltac:(discriminate) ltac:(discriminate) eq_refl) as (HL & _). exact HL.
Qed.

Lemma nic_letter_app (s K : str) : isLetter (hd 0%N s) = true -> hd 0%N (s ++ K) = hd 0%N s.
Proof. intro H. destruct s; [discriminate H|reflexivity]. Qed.

(* ---------- let name [= value] ---------- *)

Definition let_ops (t : token) (name : ident) (v : expr) : list wop :=
  WComments (t_comments t) :: WMapping (t_start t) :: WString (kw_let ++ [32%N]) :: write_ident name ++
  (if negb (is_enil v) then WSpace :: WRune 61%N :: WSpace :: write_expr v ++ [] else []).

Definition JLet (t : token) (name : ident) (v : expr) : Prop :=
  forall b lv mp, exists body,
    wrun (gs b lv mp) (let_ops t name v) = gs (b ++ body) lv mp /\ hd 0%N body = 108%N /\
    forall K, kont ENil K -> forall l, l_rest l = body ++ K ->
      exists t1 n' v' ts l', lexes l (t1 :: id_tok n' :: ts) l' /\ l_rest l' = K /\
        t_type t1 = T_LET /\ norm_tok t1 = norm_tok t /\
        (forall R, m_ident n' (id_tok n' :: R) = Some R) /\ tmap_ident norm_tok n' = tmap_ident norm_tok name /\
        shape_expr v' = shape_expr v /\
        ((is_enil v = true /\ ts = []) \/
         (is_enil v = false /\ exists teq tsv, ts = teq :: tsv /\ t_type teq = T_ASSIGN /\
            forall R, m_expr v' (tsv ++ R) = Some R)).

Lemma is_enil_shape a b : shape_expr a = shape_expr b -> is_enil a = is_enil b.
Proof. destruct a; destruct b; cbn; intro H; try discriminate H; reflexivity. Qed.
Lemma is_snil_shape a b : shape_stmt a = shape_stmt b -> is_snil a = is_snil b.
Proof. destruct a; destruct b; cbn; intro H; try discriminate H; reflexivity. Qed.

Lemma J_let_core t name v : t_type t = T_LET -> t_lit t = kw_let -> ident_lexical name = true ->
  (is_enil v = false -> JE2 v) -> JLet t name v.
Proof.
  intros Ty Li Hn Jv b lv mp.
  pose proof (ident_first _ Hn) as HL.
  destruct (is_enil v) eqn:Ev.
  - exists ((kw_let ++ [32%N]) ++ id_value name). split.
    { unfold let_ops, write_ident. rewrite Ev. cbn [negb]. rewrite app_nil_r. wsimp. rewrite <- app_assoc. reflexivity. }
    split; [reflexivity|].
    intros K [HK _] l Hl. rewrite <- !app_assoc in Hl.
    destruct (kw_step T_LET kw_let ([32%N] ++ id_value name ++ K) l false relex_let eq_refl ltac:(discriminate) ltac:(discriminate) eq_refl Hl)
      as (t1 & l1 & L1 & Ty1 & Li1 & _ & R1).
    destruct (ident_step name K l1 true Hn HK R1) as (t2 & l2 & L2 & Ty2 & Li2 & R2 & M2 & S2).
    exists t1, (mkident t2 (id_value name)), v, [], l2. cbn [id_tok].
    split; [exact (lexes_app _ _ _ _ _ L1 L2)|]. split; [exact R2|]. split; [exact Ty1|].
    split; [apply norm_eq; congruence|]. split; [exact M2|]. split; [exact S2|]. split; [reflexivity|].
    left. split; reflexivity.
  - destruct (Jv eq_refl) as (cv & Ov & J). pose proof (ost_ostart _ Ov) as Ov'.
    destruct (J (((b ++ kw_let ++ [32%N]) ++ id_value name) ++ [61%N]) lv mp) as (sp & body & W & Sp & Hd & Lx).
    exists ((kw_let ++ [32%N]) ++ id_value name ++ 61%N :: sp ++ body). split.
    { unfold let_ops, write_ident. rewrite Ev. cbn [negb]. wsimp. rewrite W. f_equal.
      rewrite <- !app_assoc. reflexivity. }
    split; [reflexivity|].
    intros K HK l Hl. rewrite <- !app_assoc in Hl. cbn [app] in Hl. rewrite <- !app_assoc in Hl.
    destruct (kw_step T_LET kw_let ([32%N] ++ id_value name ++ 61%N :: sp ++ body ++ K) l false relex_let eq_refl ltac:(discriminate) ltac:(discriminate) eq_refl Hl)
      as (t1 & l1 & L1 & Ty1 & Li1 & _ & R1).
    destruct (ident_step name (61%N :: sp ++ body ++ K) l1 true Hn eq_refl R1)
      as (t2 & l2 & L2 & Ty2 & Li2 & R2 & M2 & S2).
    destruct (punct_step T_ASSIGN [61%N] _ l2 type_text_assign (pbnd_operand _ _ _ _ K _ Sp Hd Ov') R2)
      as (t3 & l3 & L3 & Ty3 & _ & _ & R3).
    destruct (Lx K (kont_sub _ _ _ HK eq_refl) l3 R3) as (v' & tsv & l4 & L4 & R4 & Mv & Sv & _).
    exists t1, (mkident t2 (id_value name)), v', (t3 :: tsv), l4. cbn [id_tok].
    split; [exact (lexes_app _ _ _ _ _ L1 (lexes_app _ _ _ _ _ L2 (lexes_app _ _ _ _ _ L3 L4)))|].
    split; [exact R4|]. split; [exact Ty1|].
    split; [apply norm_eq; congruence|]. split; [exact M2|]. split; [exact S2|]. split; [exact Sv|].
    right. split; [reflexivity|]. exists t3, tsv. split; [reflexivity|]. split; [exact Ty3|exact Mv].
Qed.

Lemma J2_let t name v : t_type t = T_LET -> t_lit t = kw_let -> ident_lexical name = true ->
  (is_enil v = false -> JE2 v) -> JE2 (ELet t name v).
Proof.
  intros Ty Li Hn Jv. pose proof (J_let_core t name v Ty Li Hn Jv) as JL.
  exists 108%N. split; [split; [repeat split; discriminate|reflexivity]|].
  intros b lv mp. destruct (JL b lv mp) as (body & W & Hd & Lx).
  exists [], body. split.
  { cbn [write_expr]. cbn [app]. rewrite app_nil_r. exact W. }
  split; [right; split; [reflexivity|apply nofuse_other; discriminate]|]. split; [exact Hd|].
  intros K HK l Hl. cbn [app] in Hl.
  destruct (Lx K HK l Hl) as (t1 & n' & v' & ts & l' & L & R & Ty1 & N1 & Mn & Sn & Sv & C).
  exists (ELet t1 n' v'), (t1 :: id_tok n' :: ts), l'.
  split; [exact L|]. split; [exact R|]. split; [|split].
  - intro R0. cbn [m_expr app]. rewrite Ty1. change (T_LET =? T_LET) with true. cbn [negb].
    rewrite eat_tok_refl, Mn, enil_match, (is_enil_shape _ _ Sv).
    destruct C as [[E ->]|(E & teq & tsv & -> & Teq & Mv)]; rewrite E.
    + reflexivity.
    + cbn [app eat]. rewrite Teq. change (T_ASSIGN =? T_ASSIGN) with true. cbn iota. apply Mv.
  - unfold shape_expr in *. cbn [tmap_expr]. rewrite N1, Sn, Sv. reflexivity.
  - cbn [first_type]. eexists _, _. split; [reflexivity|left; congruence].
Qed.

(* ================================================================== *)
(* 5. statements                                                       *)
(* ================================================================== *)

(* from any clean compact writer state the statement's text is appended; on that text
   followed by ANY continuation (a statement ends in ';' or '}') the lexer produces tokens
   matched by a statement of the same shape, whatever follows *)
Definition JS (s : stmt) : Prop :=
  forall b lv mp, exists txt,
    wrun (gs b lv mp) (write_stmt s) = gs (b ++ txt) lv mp /\
    forall K l, l_rest l = txt ++ K ->
      exists s' ts l', lexes l ts l' /\ ts <> [] /\ l_rest l' = K /\
        (forall nx R, m_stmt s' nx (ts ++ R) = Some R) /\
        shape_stmt s' = shape_stmt s.

Definition JSS (ops : list wop) (ss : list stmt) : Prop :=
  forall b lv mp, exists txt,
    wrun (gs b lv mp) ops = gs (b ++ txt) lv mp /\
    forall K l, l_rest l = txt ++ K ->
      exists ss' ts l', lexes l ts l' /\ l_rest l' = K /\
        (forall nx R, m_stmts m_stmt ss' nx (ts ++ R) = Some R) /\
        map shape_stmt ss' = map shape_stmt ss.

Lemma JSS_sep (f : stmt -> list wop) ss :
  (forall s b lv mp, wrun (gs b lv mp) (f s) = wrun (gs b lv mp) (write_stmt s)) ->
  Forall JS ss -> JSS (sep_map [WNewline] f ss) ss.
Proof.
  intros Hf. induction 1 as [|x ss Jx Hss IH]; intros b lv mp.
  - exists []. split; [rewrite app_nil_r; reflexivity|].
    intros K l Hl. exists [], [], l. repeat split; try constructor. exact Hl.
  - destruct (Jx b lv mp) as (txt & W & Lx).
    destruct ss as [|y ss'].
    + exists txt. split; [rewrite sep_map_one, Hf; exact W|].
      intros K l Hl. destruct (Lx K l Hl) as (s' & ts & l' & L & _ & R & M & S).
      exists [s'], ts, l'. split; [exact L|]. split; [exact R|]. split.
      * intros nx R0. cbn [m_stmts]. rewrite M. reflexivity.
      * cbn [map]. rewrite S. reflexivity.
    + destruct (IH (b ++ txt) lv mp) as (txt2 & W2 & Lx2).
      exists (txt ++ txt2). split.
      { rewrite sep_map_cons2, !wrun_app, Hf, W, wrun_cons, st_newline, wrun_nil, W2.
        rewrite <- app_assoc. reflexivity. }
      intros K l Hl. rewrite <- app_assoc in Hl.
      destruct (Lx (txt2 ++ K) l Hl) as (s' & ts & l1 & L1 & _ & R1 & M1 & S1).
      destruct (Lx2 K l1 R1) as (ss2 & ts2 & l2 & L2 & R2 & M2 & S2).
      exists (s' :: ss2), (ts ++ ts2), l2.
      split; [eapply lexes_app; eassumption|]. split; [exact R2|]. split.
      * intros nx R0. cbn [m_stmts]. rewrite <- app_assoc, M1. apply M2.
      * cbn [map]. rewrite S1, S2. reflexivity.
Qed.

Lemma semi_step X l : l_rest l = 59%N :: X ->
  exists t l', lexes l [t] l' /\ t_type t = T_SEMICOLON /\ l_rest l' = X.
Proof.
  intro Hl. destruct (lex1_lexes _ _ _ _ (lex1_semi X) ltac:(discriminate) ltac:(discriminate) l Hl)
    as (t & l' & L & Ty & _ & _ & R). eauto.
Qed.

Lemma kont_semi {g} X : kont g (59%N :: X).
Proof. apply kont_cons; [reflexivity|discriminate]. Qed.

Lemma m_end_semi asi nx t R : t_type t = T_SEMICOLON -> m_end asi nx (t :: R) = Some R.
Proof. intro H. cbn [m_end]. rewrite H. reflexivity. Qed.

Lemma stmt_kw_first fty t0 : statement_keyword fty = false -> (t_type t0 = fty \/ t_type t0 = T_LPAREN) ->
  statement_keyword (t_type t0) = false.
Proof. intros H [-> | ->]; [exact H|reflexivity]. Qed.

(* ---------- expression statement ---------- *)

Lemma J_sexpr e : JE2 e -> is_enil e = false -> statement_keyword (first_type e) = false -> JS (SExpr e).
Proof.
  intros (c & Oc & J) Ne Kw b lv mp.
  destruct (J b lv mp) as (sp & body & W & Sp & Hd & Lx).
  exists ((sp ++ body) ++ [59%N]). split.
  { cbn [write_stmt]. rewrite Ne. wsimp2. rewrite W. wsimp2. f_equal. rewrite <- !app_assoc. reflexivity. }
  intros K l Hl. rewrite <- !app_assoc in Hl. cbn [app] in Hl.
  destruct (Lx (59%N :: K) (kont_semi K) l Hl) as (e' & ts & l1 & L1 & R1 & M & S & (t0 & ts0 & E & F)).
  destruct (semi_step K l1 R1) as (tsemi & l2 & L2 & Tsemi & R2).
  exists (SExpr e'), (ts ++ [tsemi]), l2.
  split; [eapply lexes_app; eassumption|]. split; [subst ts; discriminate|]. split; [exact R2|]. split.
  - intros nx R. rewrite <- app_assoc. cbn [m_stmt]. rewrite E at 1. cbn [app].
    rewrite (stmt_kw_first _ _ Kw F), M. apply m_end_semi. exact Tsemi.
  - cbn [shape_stmt tmap_stmt]. change (tmap_expr norm_tok) with shape_expr. rewrite S. reflexivity.
Qed.

(* ---------- let statement ---------- *)

Lemma J_slet t name v : JLet t name v -> JS (SLet t name v).
Proof.
  intros JL b lv mp. destruct (JL b lv mp) as (body & W & Hd & Lx).
  exists (body ++ [59%N]). split.
  { cbn [write_stmt].
    match goal with |- wrun _ ?ops = _ => replace ops with (let_ops t name v ++ [WSemi])
      by (unfold let_ops; cbn [app]; rewrite <- !app_assoc; reflexivity) end.
    rewrite wrun_app, W. wsimp2. rewrite <- app_assoc. reflexivity. }
  intros K l Hl. rewrite <- app_assoc in Hl. cbn [app] in Hl.
  destruct (Lx (59%N :: K) (kont_semi K) l Hl) as (t1 & n' & v' & ts & l1 & L & R & Ty1 & N1 & Mn & Sn & Sv & C).
  destruct (semi_step K l1 R) as (tsemi & l2 & L2 & Tsemi & R2).
  exists (SLet t1 n' v'), ((t1 :: id_tok n' :: ts) ++ [tsemi]), l2.
  split; [eapply lexes_app; eassumption|]. split; [discriminate|]. split; [exact R2|]. split.
  - intros nx R0. cbn [m_stmt app]. rewrite Ty1. change (T_LET =? T_LET) with true. cbn [negb].
    rewrite eat_tok_refl, Mn, enil_match, (is_enil_shape _ _ Sv).
    destruct C as [[E ->]|(E & teq & tsv & -> & Teq & Mv)]; rewrite E.
    + cbn [app]. apply m_end_semi. exact Tsemi.
    + cbn [app eat]. rewrite Teq. change (T_ASSIGN =? T_ASSIGN) with true. cbn iota.
      rewrite <- app_assoc, Mv. cbn [app]. apply m_end_semi. exact Tsemi.
  - cbn [shape_stmt tmap_stmt]. change (tmap_expr norm_tok) with shape_expr. rewrite N1, Sn, Sv. reflexivity.
Qed.

(* ---------- return ---------- *)

Lemma J_sreturn t v : t_type t = T_RETURN -> t_lit t = kw_return -> (is_enil v = false -> JE2 v) ->
  JS (SReturn t v).
Proof.
  intros Ty Li Jv b lv mp.
  destruct (is_enil v) eqn:Ev.
  - exists (kw_return ++ [59%N]). split.
    { cbn [write_stmt]. rewrite Ev. cbn [negb app]. wsimp2. rewrite <- app_assoc. reflexivity. }
    intros K l Hl. rewrite <- app_assoc in Hl. cbn [app] in Hl.
    destruct (kw_step T_RETURN kw_return (59%N :: K) l false relex_return eq_refl ltac:(discriminate) ltac:(discriminate) eq_refl Hl)
      as (t1 & l1 & L1 & Ty1 & Li1 & _ & R1).
    destruct (semi_step K l1 R1) as (tsemi & l2 & L2 & Tsemi & R2).
    exists (SReturn t1 v), ([t1] ++ [tsemi]), l2.
    split; [eapply lexes_app; eassumption|]. split; [discriminate|]. split; [exact R2|]. split.
    + intros nx R. cbn [m_stmt app]. rewrite Ty1. change (T_RETURN =? T_RETURN) with true. cbn [negb].
      rewrite eat_tok_refl, enil_match, Ev. apply m_end_semi. exact Tsemi.
    + cbn [shape_stmt tmap_stmt]. rewrite (norm_eq t1 t) by congruence. reflexivity.
  - destruct (Jv eq_refl) as (cv & Ov & J).
    destruct (J (b ++ kw_return ++ [32%N]) lv mp) as (sp & body & W & Sp & Hd & Lx).
    exists (kw_return ++ [32%N] ++ (sp ++ body) ++ [59%N]). split.
    { cbn [write_stmt]. rewrite Ev. cbn [negb]. wsimp2.
      change [114%N; 101%N; 116%N; 117%N; 114%N; 110%N] with kw_return.
      replace ((b ++ kw_return) ++ [32%N]) with (b ++ kw_return ++ [32%N]) by (rewrite <- app_assoc; reflexivity).
      rewrite W. wsimp2. f_equal. rewrite <- !app_assoc. reflexivity. }
    intros K l Hl. rewrite <- !app_assoc in Hl. cbn [app] in Hl.
    destruct (kw_step T_RETURN kw_return (32%N :: sp ++ body ++ 59%N :: K) l false relex_return eq_refl
                ltac:(discriminate) ltac:(discriminate) eq_refl Hl)
      as (t1 & l1 & L1 & Ty1 & Li1 & _ & R1).
    set (la := mklx (sp ++ body ++ 59%N :: K) (l_line l1) (l_col l1 + 1) false []).
    destruct (Lx (59%N :: K) (kont_semi K) la eq_refl) as (v' & ts & l2 & L2 & R2 & M & S & (t0 & ts0 & E & F)).
    assert (Nl : t_nl t0 = false).
    { subst ts. apply (lexes_first_nl la sp body (59%N :: K) cv t0 ts0 l2); try assumption; try reflexivity.
      destruct Sp as [-> | [-> _]]; auto. }
    assert (L2' : lexes l1 ts l2).
    { apply (lexes_space l1 _ ts l2 R1); [subst ts; discriminate|exact L2]. }
    destruct (semi_step K l2 R2) as (tsemi & l3 & L3 & Tsemi & R3).
    exists (SReturn t1 v'), ([t1] ++ ts ++ [tsemi]), l3.
    split; [eapply lexes_app; [exact L1|eapply lexes_app; eassumption]|].
    split; [discriminate|]. split; [exact R3|]. split.
    + intros nx R. cbn [m_stmt app]. rewrite Ty1. change (T_RETURN =? T_RETURN) with true. cbn [negb].
      rewrite eat_tok_refl, enil_match, (is_enil_shape _ _ S), Ev.
      rewrite <- app_assoc. specialize (M ([tsemi] ++ R)). subst ts. cbn [app] in *.
      rewrite Nl, M. apply m_end_semi. exact Tsemi.
    + cbn [shape_stmt tmap_stmt]. change (tmap_expr norm_tok) with shape_expr.
      rewrite S, (norm_eq t1 t) by congruence. reflexivity.
Qed.

(* ---------- blocks ---------- *)

Lemma J_sblock lb ss rb : punct lb T_LBRACE = true -> punct rb T_RBRACE = true ->
  Forall JS ss -> JS (SBlock lb ss rb).
Proof.
  intros Hl1 Hl2 Js.
  destruct (punct_inv _ _ Hl1) as [Ty1 TT1]. rewrite type_text_lbrace in TT1. inversion TT1 as [Li1].
  destruct (punct_inv _ _ Hl2) as [Ty2 TT2]. rewrite type_text_rbrace in TT2. inversion TT2 as [Li2].
  pose proof (JSS_sep (fun stmt => WIndent :: write_stmt stmt ++ []) ss
                ltac:(intros s b lv mp; cbv beta; rewrite wrun_cons, st_indent, app_nil_r; reflexivity) Js) as JA.
  intros b lv mp.
  destruct (JA (b ++ [123%N]) lv mp) as (txt & W & Lx).
  exists (123%N :: txt ++ [125%N]). split.
  { cbn [write_stmt]. wsimp2. rewrite W. wsimp2. f_equal. rewrite <- !app_assoc. reflexivity. }
  intros K l Hl. cbn [app] in Hl. rewrite <- app_assoc in Hl.
  destruct (punct_step T_LBRACE [123%N] _ l type_text_lbrace ltac:(pfree) Hl)
    as (t1 & l1 & L1 & T1 & I1 & _ & R1).
  destruct (Lx (125%N :: K) l1 R1) as (ss' & ts & l2 & L2 & R2 & M & S).
  destruct (punct_step T_RBRACE [125%N] K l2 type_text_rbrace ltac:(pfree) R2)
    as (t2 & l3 & L3 & T2 & I2 & _ & R3).
  exists (SBlock t1 ss' t2), ([t1] ++ ts ++ [t2]), l3.
  split; [eapply lexes_app; [exact L1|eapply lexes_app; eassumption]|].
  split; [discriminate|]. split; [exact R3|]. split.
  - intros nx R. cbn [m_stmt app]. rewrite T1, T2. change (T_LBRACE =? T_LBRACE) with true.
    change (T_RBRACE =? T_RBRACE) with true. cbn [negb orb].
    rewrite eat_tok_refl, <- app_assoc, M. cbn [app]. apply eat_tok_refl.
  - cbn [shape_stmt tmap_stmt]. change (tmap_stmt norm_tok) with shape_stmt. rewrite S.
    rewrite (norm_eq t1 lb), (norm_eq t2 rb) by congruence. reflexivity.
Qed.

(* ---------- parameters and function tails ---------- *)

Definition JPar (ops : list wop) (ps : list ident) : Prop :=
  forall b lv mp, exists body,
    wrun (gs b lv mp) ops = gs (b ++ body) lv mp /\
    forall K, is_ident_char (hd 0%N K) = false -> forall l, l_rest l = body ++ K ->
      exists ps' ts l', lexes l ts l' /\ l_rest l' = K /\
        (forall R, m_params ps' (ts ++ R) = Some R) /\
        map (tmap_ident norm_tok) ps' = map (tmap_ident norm_tok) ps.

Lemma JPar_sep ps : Forall (fun i => ident_lexical i = true) ps ->
  JPar (sep_map [WRune 44%N; WSpace] (fun p => write_ident p ++ []) ps) ps.
Proof.
  induction 1 as [|x ps Hx Hps IH]; intros b lv mp.
  - exists []. split; [rewrite app_nil_r; reflexivity|].
    intros K HK l Hl. exists [], [], l. repeat split; try constructor. exact Hl.
  - destruct ps as [|y ps'].
    + exists (id_value x). split.
      { rewrite sep_map_one. unfold write_ident. wsimp2. reflexivity. }
      intros K HK l Hl.
      destruct (ident_step x K l false Hx HK Hl) as (t & l' & L & Ty & Li & R & M & S).
      exists [mkident t (id_value x)], [t], l'. split; [exact L|]. split; [exact R|]. split.
      * intro R0. cbn [m_params app]. apply M.
      * cbn [map]. rewrite S. reflexivity.
    + destruct (IH ((b ++ id_value x) ++ [44%N]) lv mp) as (body2 & W2 & Lx2).
      exists (id_value x ++ 44%N :: body2). split.
      { rewrite sep_map_cons2. unfold write_ident at 1. wsimp2. rewrite W2. f_equal.
        rewrite <- !app_assoc. reflexivity. }
      intros K HK l Hl. rewrite <- app_assoc in Hl. cbn [app] in Hl.
      destruct (ident_step x (44%N :: body2 ++ K) l false Hx eq_refl Hl) as (t & l1 & L1 & Ty & Li & R1 & M1 & S1).
      destruct (comma_step _ l1 R1) as (tc & l2 & L2 & Tc & R2).
      destruct (Lx2 K HK l2 R2) as (ps2 & ts2 & l3 & L3 & R3 & M3 & S3).
      exists (mkident t (id_value x) :: ps2), ([t] ++ [tc] ++ ts2), l3.
      split; [eapply lexes_app; [exact L1|eapply lexes_app; eassumption]|]. split; [exact R3|].
      split.
      * intro R. destruct ps2 as [|p2 ps2']; [discriminate S3|].
        cbn [m_params app]. rewrite M1. cbn [eat]. rewrite Tc.
        change (T_COMMA =? T_COMMA) with true. cbn iota. apply M3.
      * cbn [map]. rewrite S1. f_equal. exact S3.
Qed.

Definition m_ftail (ps : list ident) (body : stmt) (ts : list token) : option (list token) :=
  match eat T_LPAREN ts with
  | None => None
  | Some (_, r3) =>
      match m_params ps r3 with
      | None => None
      | Some r4 =>
          match eat T_RPAREN r4 with
          | None => None
          | Some (_, r5) => match body with SBlock _ _ _ => m_stmt body zero_token r5 | _ => None end
          end
      end
  end.

Definition ftail_ops (params : list ident) (body : stmt) : list wop :=
  WRune 40%N :: sep_map [WRune 44%N; WSpace] (fun param => write_ident param ++ []) params ++
  WRune 41%N :: WSpace :: write_stmt body ++ [].

Definition is_block (s : stmt) : bool := match s with SBlock _ _ _ => true | _ => false end.

Lemma is_block_shape a b : shape_stmt a = shape_stmt b -> is_block a = is_block b.
Proof. destruct a; destruct b; cbn; intro H; try discriminate H; reflexivity. Qed.

Lemma J_ftail params body : Forall (fun i => ident_lexical i = true) params -> JS body -> is_block body = true ->
  forall b lv mp, exists txt,
    wrun (gs b lv mp) (ftail_ops params body) = gs (b ++ 40%N :: txt) lv mp /\
    forall K l, l_rest l = 40%N :: txt ++ K ->
      exists ps' body' ts l', lexes l ts l' /\ l_rest l' = K /\
        (forall R, m_ftail ps' body' (ts ++ R) = Some R) /\
        map (tmap_ident norm_tok) ps' = map (tmap_ident norm_tok) params /\
        shape_stmt body' = shape_stmt body.
Proof.
  intros Hp Jb Bl b lv mp.
  destruct (JPar_sep _ Hp (b ++ [40%N]) lv mp) as (tp & Wp & Lp).
  destruct (Jb (((b ++ [40%N]) ++ tp) ++ [41%N]) lv mp) as (tb & Wb & Lb).
  exists (tp ++ 41%N :: tb). split.
  { unfold ftail_ops. wsimp2. rewrite Wp. wsimp2. rewrite Wb. f_equal. rewrite <- !app_assoc. reflexivity. }
  intros K l Hl. rewrite <- app_assoc in Hl. cbn [app] in Hl.
  destruct (punct_step T_LPAREN [40%N] _ l type_text_lparen ltac:(pfree) Hl)
    as (t1 & l1 & L1 & T1 & _ & _ & R1).
  destruct (Lp (41%N :: tb ++ K) eq_refl l1 R1) as (ps' & tsp & l2 & L2 & R2 & Mp & Sp).
  destruct (punct_step T_RPAREN [41%N] _ l2 type_text_rparen ltac:(pfree) R2)
    as (t2 & l3 & L3 & T2 & _ & _ & R3).
  destruct (Lb K l3 R3) as (body' & tsb & l4 & L4 & _ & R4 & Mb & Sb).
  exists ps', body', ([t1] ++ tsp ++ [t2] ++ tsb), l4.
  split; [eapply lexes_app; [exact L1|eapply lexes_app; [exact L2|eapply lexes_app; eassumption]]|].
  split; [exact R4|]. split; [|split; assumption].
  intro R. unfold m_ftail. cbn [app eat]. rewrite T1. change (T_LPAREN =? T_LPAREN) with true. cbn iota.
  rewrite <- !app_assoc, Mp. cbn [app eat]. rewrite T2. change (T_RPAREN =? T_RPAREN) with true. cbn iota.
  pose proof (is_block_shape _ _ Sb) as Bl'. rewrite Bl in Bl'.
  destruct body'; try discriminate Bl'. apply Mb.
Qed.

Lemma J_sfunc t name params body : t_type t = T_FUNCTION -> t_lit t = kw_function ->
  ident_lexical name = true -> Forall (fun i => ident_lexical i = true) params ->
  JS body -> is_block body = true -> JS (SFunc t name params body).
Proof.
  intros Ty Li Hn Hp Jb Bl b lv mp.
  destruct (J_ftail params body Hp Jb Bl ((b ++ kw_function ++ [32%N]) ++ id_value name) lv mp) as (txt & W & Lx).
  exists (kw_function ++ [32%N] ++ id_value name ++ 40%N :: txt). split.
  { cbn [write_stmt]. fold (ftail_ops params body). unfold write_ident. wsimp2.
    change [102%N; 117%N; 110%N; 99%N; 116%N; 105%N; 111%N; 110%N; 32%N] with (kw_function ++ [32%N]).
    rewrite W. f_equal. rewrite <- !app_assoc. reflexivity. }
  intros K l Hl. rewrite <- !app_assoc in Hl. cbn [app] in Hl.
  destruct (kw_step T_FUNCTION kw_function (32%N :: id_value name ++ 40%N :: txt ++ K) l false relex_function eq_refl
              ltac:(discriminate) ltac:(discriminate) eq_refl Hl)
    as (t1 & l1 & L1 & Ty1 & Li1 & _ & R1).
  destruct (ident_step name (40%N :: txt ++ K) l1 true Hn eq_refl R1) as (t2 & l2 & L2 & Ty2 & Li2 & R2 & M2 & S2).
  destruct (Lx K l2 R2) as (ps' & body' & ts & l3 & L3 & R3 & M3 & Sp & Sb).
  exists (SFunc t1 (mkident t2 (id_value name)) ps' body'), ([t1] ++ [t2] ++ ts), l3.
  split; [eapply lexes_app; [exact L1|eapply lexes_app; eassumption]|].
  split; [discriminate|]. split; [exact R3|]. split.
  - intros nx R. cbn [m_stmt app]. rewrite Ty1. change (T_FUNCTION =? T_FUNCTION) with true. cbn [negb].
    rewrite eat_tok_refl, M2. apply (M3 R).
  - cbn [shape_stmt tmap_stmt]. change (tmap_stmt norm_tok) with shape_stmt.
    rewrite S2, Sp, Sb, (norm_eq t1 t) by congruence. reflexivity.
Qed.

Lemma J2_func t name params body : t_type t = T_FUNCTION -> t_lit t = kw_function ->
  match name with Some n => ident_lexical n = true | None => True end ->
  Forall (fun i => ident_lexical i = true) params ->
  JS body -> is_block body = true -> JE2 (EFunc t name params body).
Proof.
  intros Ty Li Hn Hp Jb Bl.
  exists 102%N. split; [split; [repeat split; discriminate|reflexivity]|].
  cbn [first_type]. rewrite Ty.
  intros b lv mp.
  destruct name as [n|].
  - destruct (J_ftail params body Hp Jb Bl ((b ++ kw_function) ++ 32%N :: id_value n) lv mp) as (txt & W & Lx).
    exists [], (kw_function ++ 32%N :: id_value n ++ 40%N :: txt). split.
    { cbn [write_expr]. fold (ftail_ops params body). unfold write_ident. cbn [app]. wsimp2.
      change [102%N; 117%N; 110%N; 99%N; 116%N; 105%N; 111%N; 110%N] with kw_function.
      replace (((b ++ kw_function) ++ [32%N]) ++ id_value n) with ((b ++ kw_function) ++ 32%N :: id_value n)
        by (rewrite <- !app_assoc; reflexivity).
      rewrite W. f_equal. rewrite <- !app_assoc. reflexivity. }
    split; [right; split; [reflexivity|apply nofuse_other; discriminate]|]. split; [reflexivity|].
    intros K _ l Hl. cbn [app] in Hl. rewrite <- !app_assoc in Hl. cbn [app] in Hl. rewrite <- !app_assoc in Hl.
    destruct (kw_step T_FUNCTION kw_function (32%N :: id_value n ++ 40%N :: txt ++ K) l false relex_function eq_refl
                ltac:(discriminate) ltac:(discriminate) eq_refl Hl)
      as (t1 & l1 & L1 & Ty1 & Li1 & _ & R1).
    destruct (ident_step n (40%N :: txt ++ K) l1 true Hn eq_refl R1) as (t2 & l2 & L2 & Ty2 & Li2 & R2 & M2 & S2).
    destruct (Lx K l2 R2) as (ps' & body' & ts & l3 & L3 & R3 & M3 & Sp & Sb).
    exists (EFunc t1 (Some (mkident t2 (id_value n))) ps' body'), ([t1] ++ [t2] ++ ts), l3.
    split; [eapply lexes_app; [exact L1|eapply lexes_app; eassumption]|].
    split; [exact R3|]. split; [|split].
    + intro R. cbn [m_expr app]. rewrite Ty1. change (T_FUNCTION =? T_FUNCTION) with true. cbn [negb].
      rewrite eat_tok_refl, M2. apply (M3 R).
    + unfold shape_expr. cbn [tmap_expr option_map]. change (tmap_stmt norm_tok) with shape_stmt.
      rewrite S2, Sp, Sb, (norm_eq t1 t) by congruence. reflexivity.
    + eexists t1, _. split; [reflexivity|left; exact Ty1].
  - destruct (J_ftail params body Hp Jb Bl (b ++ kw_function) lv mp) as (txt & W & Lx).
    exists [], (kw_function ++ 40%N :: txt). split.
    { cbn [write_expr]. fold (ftail_ops params body). cbn [app]. wsimp2.
      change [102%N; 117%N; 110%N; 99%N; 116%N; 105%N; 111%N; 110%N] with kw_function.
      rewrite W. f_equal. rewrite <- !app_assoc. reflexivity. }
    split; [right; split; [reflexivity|apply nofuse_other; discriminate]|]. split; [reflexivity|].
    intros K _ l Hl. cbn [app] in Hl. rewrite <- !app_assoc in Hl. cbn [app] in Hl.
    destruct (kw_step T_FUNCTION kw_function (40%N :: txt ++ K) l false relex_function eq_refl
                ltac:(discriminate) ltac:(discriminate) eq_refl Hl)
      as (t1 & l1 & L1 & Ty1 & Li1 & _ & R1).
    destruct (Lx K l1 R1) as (ps' & body' & ts & l3 & L3 & R3 & M3 & Sp & Sb).
    exists (EFunc t1 None ps' body'), ([t1] ++ ts), l3.
    split; [eapply lexes_app; eassumption|].
    split; [exact R3|]. split; [|split].
    + intro R. cbn [m_expr app]. rewrite Ty1. change (T_FUNCTION =? T_FUNCTION) with true. cbn [negb].
      rewrite eat_tok_refl. apply (M3 R).
    + unfold shape_expr. cbn [tmap_expr]. change (tmap_stmt norm_tok) with shape_stmt.
      rewrite Sp, Sb, (norm_eq t1 t) by congruence. reflexivity.
    + eexists t1, _. split; [reflexivity|left; exact Ty1].
Qed.

(* ---------- keyword ( condition ) ---------- *)

Lemma J_kwcond ty kw c : relex_word ty kw = true -> is_word_type ty = true -> ty <> T_INT -> ty <> T_FLOAT ->
  JE2 c ->
  forall b lv mp, exists txt,
    (forall rest, wrun (gs b lv mp) (WString kw :: WSpace :: WRune 40%N :: write_expr c ++ WRune 41%N :: WSpace :: rest)
                  = wrun (gs (b ++ kw ++ 40%N :: txt ++ [41%N]) lv mp) rest) /\
    forall K l (sp : bool), l_rest l = spc sp ++ kw ++ 40%N :: txt ++ 41%N :: K ->
      exists t1 tl c' tsc tr l', lexes l ([t1; tl] ++ tsc ++ [tr]) l' /\ l_rest l' = K /\
        t_type t1 = ty /\ t_lit t1 = kw /\ t_type tl = T_LPAREN /\ t_type tr = T_RPAREN /\
        (forall R, m_expr c' (tsc ++ R) = Some R) /\ shape_expr c' = shape_expr c.
Proof.
  intros H W NI NF (cc0 & Oc & J) b lv mp.
  destruct (J ((b ++ kw) ++ [40%N]) lv mp) as (sp0 & body & Wc & Sp & Hd & Lx).
  exists (sp0 ++ body). split.
  { intro rest. wsimp2. rewrite Wc. wsimp2. f_equal. f_equal. rewrite <- !app_assoc. reflexivity. }
  intros K l sp Hl.
  destruct (kw_step ty kw (40%N :: (sp0 ++ body) ++ 41%N :: K) l sp H W NI NF eq_refl Hl)
    as (t1 & l1 & L1 & Ty1 & Li1 & _ & R1).
  rewrite <- app_assoc in R1.
  destruct (punct_step T_LPAREN [40%N] _ l1 type_text_lparen ltac:(pfree) R1)
    as (tl & l2 & L2 & Tl & _ & _ & R2).
  destruct (Lx (41%N :: K) ltac:(apply kont_cons; [reflexivity|discriminate]) l2 R2)
    as (c' & tsc & l3 & L3 & R3 & M & S & _).
  destruct (punct_step T_RPAREN [41%N] K l3 type_text_rparen ltac:(pfree) R3)
    as (tr & l4 & L4 & Tr & _ & _ & R4).
  exists t1, tl, c', tsc, tr, l4.
  split; [exact (lexes_app _ _ _ _ _ (lexes_app _ _ _ _ _ L1 L2) (lexes_app _ _ _ _ _ L3 L4))|].
  repeat split; assumption.
Qed.

(* ---------- while ---------- *)

Lemma J_swhile t c body : t_type t = T_WHILE -> t_lit t = kw_while -> JE2 c -> JS body ->
  JS (SWhile t c body).
Proof.
  intros Ty Li Jc Jb b lv mp.
  destruct (J_kwcond T_WHILE kw_while c relex_while eq_refl ltac:(discriminate) ltac:(discriminate) Jc b lv mp)
    as (txt & Wc & Lc).
  destruct (Jb (b ++ kw_while ++ 40%N :: txt ++ [41%N]) lv mp) as (tb & Wb & Lb).
  exists (kw_while ++ 40%N :: txt ++ 41%N :: tb). split.
  { cbn [write_stmt]. rewrite wrun_cons, st_comments, wrun_cons, st_mapping.
    change [119%N; 104%N; 105%N; 108%N; 101%N] with kw_while.
    rewrite Wc, app_nil_r, Wb. f_equal. rewrite <- !app_assoc. cbn [app]. rewrite <- !app_assoc. reflexivity. }
  intros K l Hl. rewrite <- !app_assoc in Hl. cbn [app] in Hl. rewrite <- !app_assoc in Hl. cbn [app] in Hl.
  destruct (Lc (tb ++ K) l false Hl) as (t1 & tl & c' & tsc & tr & l1 & L1 & R1 & Ty1 & Li1 & Tl & Tr & Mc & Sc).
  destruct (Lb K l1 R1) as (body' & tsb & l2 & L2 & _ & R2 & Mb & Sb).
  exists (SWhile t1 c' body'), (([t1; tl] ++ tsc ++ [tr]) ++ tsb), l2.
  split; [eapply lexes_app; eassumption|]. split; [discriminate|]. split; [exact R2|]. split.
  - intros nx R. cbn [m_stmt app]. rewrite Ty1. change (T_WHILE =? T_WHILE) with true. cbn [negb].
    rewrite eat_tok_refl. cbn [eat]. rewrite Tl. change (T_LPAREN =? T_LPAREN) with true. cbn iota.
    rewrite <- !app_assoc, Mc. cbn [app eat]. rewrite Tr. change (T_RPAREN =? T_RPAREN) with true. cbn iota.
    apply Mb.
  - cbn [shape_stmt tmap_stmt]. change (tmap_stmt norm_tok) with shape_stmt. change (tmap_expr norm_tok) with shape_expr.
    rewrite Sc, Sb, (norm_eq t1 t) by congruence. reflexivity.
Qed.

(* ---------- if [else] ---------- *)

Lemma J_sif t c thn els : t_type t = T_IF -> t_lit t = kw_if -> JE2 c -> JS thn ->
  (is_snil els = false -> JS els) -> JS (SIf t c thn els).
Proof.
  intros Ty Li Jc Jt Je b lv mp.
  destruct (J_kwcond T_IF kw_if c relex_if eq_refl ltac:(discriminate) ltac:(discriminate) Jc b lv mp)
    as (txt & Wc & Lc).
  destruct (Jt (b ++ kw_if ++ 40%N :: txt ++ [41%N]) lv mp) as (tt & Wt & Lt).
  destruct (is_snil els) eqn:Ee.
  - exists (kw_if ++ 40%N :: txt ++ 41%N :: tt). split.
    { cbn [write_stmt]. rewrite Ee. cbn [negb]. rewrite wrun_cons, st_comments, wrun_cons, st_mapping.
      change [105%N; 102%N] with kw_if.
      rewrite Wc, !app_nil_r, Wt. f_equal. rewrite <- !app_assoc. cbn [app]. rewrite <- !app_assoc. reflexivity. }
    intros K l Hl. rewrite <- !app_assoc in Hl. cbn [app] in Hl. rewrite <- !app_assoc in Hl. cbn [app] in Hl.
    destruct (Lc (tt ++ K) l false Hl) as (t1 & tl & c' & tsc & tr & l1 & L1 & R1 & Ty1 & Li1 & Tl & Tr & Mc & Sc).
    destruct (Lt K l1 R1) as (thn' & tst & l2 & L2 & _ & R2 & Mt & St).
    exists (SIf t1 c' thn' SNil), (([t1; tl] ++ tsc ++ [tr]) ++ tst), l2.
    split; [eapply lexes_app; eassumption|]. split; [discriminate|]. split; [exact R2|]. split.
    + intros nx R. cbn [m_stmt app]. rewrite Ty1. change (T_IF =? T_IF) with true. cbn [negb].
      rewrite eat_tok_refl. cbn [eat]. rewrite Tl. change (T_LPAREN =? T_LPAREN) with true. cbn iota.
      rewrite <- !app_assoc, Mc. cbn [app eat]. rewrite Tr. change (T_RPAREN =? T_RPAREN) with true. cbn iota.
      rewrite Mt. reflexivity.
    + apply is_snil_true in Ee. subst els.
      cbn [shape_stmt tmap_stmt]. change (tmap_stmt norm_tok) with shape_stmt. change (tmap_expr norm_tok) with shape_expr.
      rewrite Sc, St, (norm_eq t1 t) by congruence. reflexivity.
  - destruct (Je eq_refl ((b ++ kw_if ++ 40%N :: txt ++ [41%N]) ++ tt ++ 32%N :: kw_else ++ [32%N]) lv mp) as (te & We & Le).
    exists (kw_if ++ 40%N :: txt ++ 41%N :: tt ++ (32%N :: kw_else ++ [32%N]) ++ te). split.
    { cbn [write_stmt]. rewrite Ee. cbn [negb]. rewrite wrun_cons, st_comments, wrun_cons, st_mapping.
      change [105%N; 102%N] with kw_if.
      rewrite Wc, !app_nil_r, wrun_app, Wt, wrun_cons, st_string.
      change [32%N; 101%N; 108%N; 115%N; 101%N; 32%N] with (32%N :: kw_else ++ [32%N]).
      rewrite <- app_assoc, We. f_equal. rewrite <- !app_assoc. cbn [app]. rewrite <- !app_assoc. reflexivity. }
    intros K l Hl. rewrite <- !app_assoc in Hl. cbn [app] in Hl. rewrite <- !app_assoc in Hl. cbn [app] in Hl.
    rewrite <- !app_assoc in Hl. cbn [app] in Hl.
    destruct (Lc (tt ++ 32%N :: kw_else ++ 32%N :: te ++ K) l false Hl)
      as (t1 & tl & c' & tsc & tr & l1 & L1 & R1 & Ty1 & Li1 & Tl & Tr & Mc & Sc).
    destruct (Lt _ l1 R1) as (thn' & tst & l2 & L2 & _ & R2 & Mt & St).
    destruct (kw_step T_ELSE kw_else (32%N :: te ++ K) l2 true relex_else eq_refl
                ltac:(discriminate) ltac:(discriminate) eq_refl R2)
      as (t2 & l3 & L3 & Ty2 & Li2 & _ & R3).
    destruct (Le K (mklx (te ++ K) (l_line l3) (l_col l3 + 1) false []) eq_refl)
      as (els' & tse & l4 & L4 & Ne4 & R4 & Me & Se).
    pose proof (lexes_space l3 _ tse l4 R3 Ne4 L4) as L4'.
    exists (SIf t1 c' thn' els'), (([t1; tl] ++ tsc ++ [tr]) ++ tst ++ [t2] ++ tse), l4.
    split; [eapply lexes_app; [exact L1|eapply lexes_app; [exact L2|eapply lexes_app; eassumption]]|].
    split; [discriminate|]. split; [exact R4|]. split.
    + intros nx R. cbn [m_stmt app]. rewrite Ty1. change (T_IF =? T_IF) with true. cbn [negb].
      rewrite eat_tok_refl. cbn [eat]. rewrite Tl. change (T_LPAREN =? T_LPAREN) with true. cbn iota.
      rewrite <- !app_assoc, Mc. cbn [app eat]. rewrite Tr. change (T_RPAREN =? T_RPAREN) with true. cbn iota.
      rewrite Mt, snil_match, (is_snil_shape _ _ Se), Ee. cbn [eat]. rewrite Ty2.
      change (T_ELSE =? T_ELSE) with true. cbn iota. apply Me.
    + cbn [shape_stmt tmap_stmt]. change (tmap_stmt norm_tok) with shape_stmt. change (tmap_expr norm_tok) with shape_expr.
      rewrite Sc, St, Se, (norm_eq t1 t) by congruence. reflexivity.
Qed.

(* ---------- for ---------- *)

Definition opt_ops (e : expr) : list wop := if negb (is_enil e) then write_expr e ++ [] else [].

Definition JOpt (e : expr) : Prop :=
  forall b lv mp, exists txt,
    wrun (gs b lv mp) (opt_ops e) = gs (b ++ txt) lv mp /\
    forall K, kont ENil K -> forall l, l_rest l = txt ++ K ->
      exists e' ts l', lexes l ts l' /\ l_rest l' = K /\
        (forall R, (if is_enil e' then Some (ts ++ R) else m_expr e' (ts ++ R)) = Some R) /\
        shape_expr e' = shape_expr e.

Lemma J_opt e : (is_enil e = false -> JE2 e) -> JOpt e.
Proof.
  intros J b lv mp. unfold opt_ops. destruct (is_enil e) eqn:Ee.
  - apply is_enil_true in Ee. subst e. exists []. split; [cbn [negb]; rewrite app_nil_r; reflexivity|].
    intros K _ l Hl. exists ENil, [], l. split; [constructor|]. split; [exact Hl|]. split; reflexivity.
  - destruct (J eq_refl) as (c & Oc & Je). destruct (Je b lv mp) as (sp & body & W & _ & _ & Lx).
    exists (sp ++ body). split; [cbn [negb]; rewrite app_nil_r; exact W|].
    intros K HK l Hl. rewrite <- app_assoc in Hl.
    destruct (Lx K (kont_sub _ _ _ HK eq_refl) l Hl) as (e' & ts & l' & L & R & M & S & _).
    exists e', ts, l'. split; [exact L|]. split; [exact R|]. split; [|exact S].
    intro R0. rewrite (is_enil_shape _ _ S), Ee. apply M.
Qed.

Lemma kont_rparen {g} X : kont g (41%N :: X).
Proof. apply kont_cons; [reflexivity|discriminate]. Qed.

Lemma J_sfor t i c u body : t_type t = T_FOR -> t_lit t = kw_for ->
  JOpt i -> JOpt c -> JOpt u -> JS body -> JS (SFor t i c u body).
Proof.
  intros Ty Li Ji Jc Ju Jb b lv mp.
  destruct (Ji ((b ++ kw_for) ++ [40%N]) lv mp) as (ti & Wi & Lxi).
  destruct (Jc ((((b ++ kw_for) ++ [40%N]) ++ ti) ++ [59%N]) lv mp) as (tc & Wc & Lxc).
  destruct (Ju ((((((b ++ kw_for) ++ [40%N]) ++ ti) ++ [59%N]) ++ tc) ++ [59%N]) lv mp) as (tu & Wu & Lxu).
  destruct (Jb ((((((((b ++ kw_for) ++ [40%N]) ++ ti) ++ [59%N]) ++ tc) ++ [59%N]) ++ tu) ++ [41%N]) lv mp)
    as (tb & Wb & Lb).
  exists (kw_for ++ 40%N :: ti ++ 59%N :: tc ++ 59%N :: tu ++ 41%N :: tb). split.
  { cbn [write_stmt]. fold (opt_ops i). fold (opt_ops c). fold (opt_ops u).
    change [102%N; 111%N; 114%N] with kw_for.
    wsimp2. rewrite Wi. wsimp2. rewrite Wc. wsimp2. rewrite Wu. wsimp2. rewrite Wb.
    f_equal. repeat (rewrite <- app_assoc; cbn [app]). reflexivity. }
  intros K l Hl. rewrite <- !app_assoc in Hl. cbn [app] in Hl.
  repeat (rewrite <- !app_assoc in Hl; cbn [app] in Hl).
  destruct (kw_step T_FOR kw_for (40%N :: ti ++ 59%N :: tc ++ 59%N :: tu ++ 41%N :: tb ++ K) l false relex_for eq_refl
              ltac:(discriminate) ltac:(discriminate) eq_refl Hl)
    as (t1 & l1 & L1 & Ty1 & Li1 & _ & R1).
  destruct (punct_step T_LPAREN [40%N] _ l1 type_text_lparen ltac:(pfree) R1)
    as (tl & l2 & L2 & Tl & _ & _ & R2).
  destruct (Lxi _ (kont_semi _) l2 R2) as (i' & tsi & l3 & L3 & R3 & Mi & Si).
  destruct (semi_step _ l3 R3) as (s1 & l4 & L4 & Ts1 & R4).
  destruct (Lxc _ (kont_semi _) l4 R4) as (c' & tsc & l5 & L5 & R5 & Mc & Sc).
  destruct (semi_step _ l5 R5) as (s2 & l6 & L6 & Ts2 & R6).
  destruct (Lxu _ (kont_rparen _) l6 R6) as (u' & tsu & l7 & L7 & R7 & Mu & Su).
  destruct (punct_step T_RPAREN [41%N] _ l7 type_text_rparen ltac:(pfree) R7)
    as (tr & l8 & L8 & Tr & _ & _ & R8).
  destruct (Lb K l8 R8) as (body' & tsb & l9 & L9 & _ & R9 & Mb & Sb).
  exists (SFor t1 i' c' u' body'), ([t1] ++ [tl] ++ tsi ++ [s1] ++ tsc ++ [s2] ++ tsu ++ [tr] ++ tsb), l9.
  split.
  { repeat (eapply lexes_app; [eassumption|]). exact L9. }
  split; [discriminate|]. split; [exact R9|]. split.
  - intros nx R. cbn [m_stmt app]. rewrite Ty1. change (T_FOR =? T_FOR) with true. cbn [negb].
    rewrite eat_tok_refl. cbn [eat]. rewrite Tl. change (T_LPAREN =? T_LPAREN) with true. cbn iota.
    repeat (rewrite <- app_assoc; cbn [app]).
    rewrite enil_match, Mi. cbn [eat]. rewrite Ts1. change (T_SEMICOLON =? T_SEMICOLON) with true. cbn iota.
    rewrite enil_match, Mc. cbn [eat]. rewrite Ts2. change (T_SEMICOLON =? T_SEMICOLON) with true. cbn iota.
    rewrite enil_match, Mu. cbn [eat]. rewrite Tr. change (T_RPAREN =? T_RPAREN) with true. cbn iota.
    apply Mb.
  - cbn [shape_stmt tmap_stmt]. change (tmap_stmt norm_tok) with shape_stmt. change (tmap_expr norm_tok) with shape_expr.
    rewrite Si, Sc, Su, Sb, (norm_eq t1 t) by congruence. reflexivity.
Qed.

(* ================================================================== *)
(* 6. every parsed tree over self-lexing tokens                        *)
(* ================================================================== *)

Lemma Forall_suf (P : token -> Prop) r ts : suf r ts -> Forall P ts -> Forall P r.
Proof. intros [pre ->] H. apply Forall_app in H as [_ H]. exact H. Qed.

Lemma eat_tok_TL t ts r : eat_tok t ts = Some r -> Forall TL ts -> TL t /\ Forall TL r.
Proof. intros H F. apply eat_tok_inv in H. subst ts. inversion F; subst. split; assumption. Qed.
Lemma eat_TL ty ts t r : eat ty ts = Some (t, r) -> Forall TL ts -> TL t /\ t_type t = ty /\ Forall TL r.
Proof. intros H F. apply eat_inv in H as [-> Ty]. inversion F; subst. repeat split; assumption. Qed.

Lemma m_ident_TL i ts r : m_ident i ts = Some r -> Forall TL ts -> ident_lexical i = true /\ Forall TL r.
Proof.
  intros H F. apply m_ident_inv in H as (-> & Ty & Mk). inversion F as [|? ? Tt Fr]; subst. split; [|exact Fr].
  unfold ident_lexical. rewrite Ty. change (T_IDENT =? T_IDENT) with true. cbn [andb].
  assert (V : id_value i = t_lit (id_tok i)) by (rewrite <- Mk at 1; reflexivity).
  rewrite V, str_eqb_refl. cbn [andb]. apply (TL_word _ _ Tt Ty). left; reflexivity.
Qed.

Lemma m_expr_suf e ts r : m_expr e ts = Some r -> suf r ts.
Proof. intro H. exact (proj1 (all_suf (esize e)) e (le_n _) _ _ H). Qed.
Lemma m_stmt_suf s nx ts r : m_stmt s nx ts = Some r -> suf r ts.
Proof. intro H. exact (proj2 (all_suf (ssize s)) s (le_n _) _ _ _ H). Qed.
Lemma m_expr_TL e ts r : m_expr e ts = Some r -> Forall TL ts -> Forall TL r.
Proof. intros H F. exact (Forall_suf _ _ _ (m_expr_suf _ _ _ H) F). Qed.
Lemma m_stmt_TL s nx ts r : m_stmt s nx ts = Some r -> Forall TL ts -> Forall TL r.
Proof. intros H F. exact (Forall_suf _ _ _ (m_stmt_suf _ _ _ _ H) F). Qed.
Lemma m_end_TL asi nx ts r : m_end asi nx ts = Some r -> Forall TL ts -> Forall TL r.
Proof. intros H F. exact (Forall_suf _ _ _ (m_end_suf _ _ _ _ H) F). Qed.

Lemma TL_text t s : TL t -> type_text (t_type t) = Some s -> t_lit t = s.
Proof. intros H E. apply canon_spelling; [apply TL_canon; exact H|]. apply type_text_spelling. exact E. Qed.

Lemma binop_has_text ty lv : binop_level ty = Some lv -> exists s, type_text ty = Some s.
Proof.
  unfold binop_level.
  repeat match goal with
  | |- context [ty =? ?b] => destruct (Z.eqb_spec ty b) as [->|_]; [intros _; eexists; reflexivity|]
  end. cbn. discriminate.
Qed.

Lemma TL_binop t lv : TL t -> binop_level (t_type t) = Some lv -> type_text (t_type t) = Some (t_lit t).
Proof.
  intros H B. destruct (binop_has_text _ _ B) as [s E]. rewrite (TL_text _ _ H E). exact E.
Qed.

Lemma params_TL ps : forall ts r, m_params ps ts = Some r -> Forall TL ts ->
  Forall (fun i => ident_lexical i = true) ps /\ Forall TL r.
Proof.
  induction ps as [|p ps IH]; intros ts r H F.
  - injection H as <-. split; [constructor|exact F].
  - rewrite m_params_cons in H. destruct (m_ident p ts) as [r1|] eqn:E; [|discriminate H].
    destruct (m_ident_TL _ _ _ E F) as [Hp F1].
    destruct ps as [|q ps']; cbn [m_ptail] in H.
    + injection H as <-. split; [constructor; [exact Hp|constructor]|exact F1].
    + destruct (eat T_COMMA r1) as [[tc r2]|] eqn:E2; [|discriminate H].
      destruct (eat_TL _ _ _ _ E2 F1) as (_ & _ & F2).
      destruct (IH _ _ H F2) as [Hps Fr]. split; [constructor; assumption|exact Fr].
Qed.

Lemma relex_true : relex_word T_TRUE [116; 114; 117; 101]%N = true. Proof. vm_compute. reflexivity. Qed.
Lemma relex_false : relex_word T_FALSE [102; 97; 108; 115; 101]%N = true. Proof. vm_compute. reflexivity. Qed.

(* the first token an expression matches *)
Lemma m_expr_first : forall e f ts r, m_expr e (f :: ts) = Some r -> t_type f = first_type e.
Proof.
  induction e; intros f ts r H; cbn [m_expr first_type] in *; try discriminate H.
  - apply m_ident_inv in H as (E & _). injection E as -> _. reflexivity.
  - minv H. apply eat_tok_inv in H. injection H as -> _. reflexivity.
  - minv H. apply eat_tok_inv in H. injection H as -> _. reflexivity.
  - minv H. apply eat_tok_inv in H. injection H as -> _. reflexivity.
  - minv H. apply eat_tok_inv in H. injection H as -> _. reflexivity.
  - minv H. apply eat_tok_inv in H. injection H as -> _. reflexivity.
  - minv H. apply eat_tok_inv in H. injection H as -> _. reflexivity.
  - destruct (negb (t_type t =? T_LET)); [discriminate H|].
    destruct (eat_tok t (f :: ts)) as [r1|] eqn:E; [|discriminate H].
    apply eat_tok_inv in E. injection E as -> _. reflexivity.
  - minv H; eapply IHe1; eassumption.
  - minv H. apply eat_tok_inv in E0. injection E0 as -> _. reflexivity.
  - minv H. eapply IHe; eassumption.
  - minv H. apply eat_tok_inv in E0. injection E0 as -> _. reflexivity.
  - minv H; eapply IHe; eassumption.
  - destruct (m_expr e1 (f :: ts)) as [r1|] eqn:E; [|discriminate H]. eapply IHe1; eassumption.
  - minv H; eapply IHe1; eassumption.
  - destruct (if t_type t =? T_PLUS_ASSIGN then Some [43%N] else if t_type t =? T_MINUS_ASSIGN then Some [45%N] else None);
      [|discriminate H]. minv H. eapply IHe1; eassumption.
  - destruct (negb (t_type t =? T_FUNCTION)); [discriminate H|].
    destruct (eat_tok t (f :: ts)) as [r1|] eqn:E; [|discriminate H].
    apply eat_tok_inv in E. injection E as -> _. reflexivity.
  - minv H. apply eat_tok_inv in E0. injection E0 as -> _. reflexivity.
  - destruct (negb (t_type t =? T_LBRACE)); [discriminate H|].
    destruct (eat_tok t (f :: ts)) as [r1|] eqn:E; [|discriminate H].
    apply eat_tok_inv in E. injection E as -> _. reflexivity.
Qed.

Section Step.
  Variable n : nat.
  Hypothesis IHe : forall e, (esize e <= n)%nat -> forall ts r, m_expr e ts = Some r -> wfx e = true ->
    Forall TL ts -> JE2 e.
  Hypothesis IHs : forall s, (ssize s <= n)%nat -> forall nx ts r, m_stmt s nx ts = Some r -> wf_stmt s = true ->
    Forall TL ts -> JS s.

  Lemma IHe_wf e : (esize e <= n)%nat -> forall ts r, m_expr e ts = Some r -> wf_expr e = true ->
    Forall TL ts -> JE2 e.
  Proof. intros Hn ts r H Hw F. eapply IHe; eauto. apply wf_wfx. exact Hw. Qed.

  Lemma exprs_J es : (esizes es <= n)%nat -> wf_exprs wf_expr es = true ->
    forall ts r, m_exprs m_expr es ts = Some r -> Forall TL ts -> Forall JE2 es /\ Forall TL r.
  Proof.
    induction es as [|e es IH]; intros Hn Hw ts r H F.
    - injection H as <-. split; [constructor|exact F].
    - cbn [esizes fold_right] in Hn. fold (esizes es) in Hn. cbn [wf_exprs] in Hw.
      apply andb_true_iff in Hw as [Hw1 Hw2].
      rewrite m_exprs_cons in H. destruct (m_expr e ts) as [r1|] eqn:E; [|discriminate H].
      pose proof (IHe_wf e ltac:(lia) _ _ E Hw1 F) as Je. pose proof (m_expr_TL _ _ _ E F) as F1.
      destruct es as [|q es']; cbn [m_tail] in H.
      + injection H as <-. split; [constructor; [exact Je|constructor]|exact F1].
      + destruct (eat T_COMMA r1) as [[tc r2]|] eqn:E2; [|discriminate H].
        destruct (eat_TL _ _ _ _ E2 F1) as (_ & _ & F2).
        destruct (IH ltac:(lia) Hw2 _ _ H F2) as [Js Fr]. split; [constructor; assumption|exact Fr].
  Qed.

  Lemma props_J ps : (psizes ps <= n)%nat -> wf_props wf_expr ps = true ->
    forall ts r, m_props m_expr ps ts = Some r -> Forall TL ts ->
    Forall (fun kv => key_ok (fst kv) = true /\ JE2 (fst kv) /\ JE2 (snd kv)) ps /\ Forall TL r.
  Proof.
    induction ps as [|[k v] ps IH]; intros Hn Hw ts r H F.
    - injection H as <-. split; [constructor|exact F].
    - cbn [psizes fold_right fst snd] in Hn. fold (psizes ps) in Hn. cbn [wf_props] in Hw.
      apply andb_true_iff in Hw as [Hw Hw3]. apply andb_true_iff in Hw as [Hw1 Hw2].
      cbn [m_props] in H.
      destruct (key_ok k) eqn:Kk; cbn [negb] in H; [|discriminate H].
      destruct (m_expr k ts) as [r1|] eqn:E1; [|discriminate H].
      pose proof (IHe_wf k ltac:(lia) _ _ E1 Hw1 F) as Jk. pose proof (m_expr_TL _ _ _ E1 F) as F1.
      destruct (eat T_COLON r1) as [[tc r2]|] eqn:E2; [|discriminate H].
      destruct (eat_TL _ _ _ _ E2 F1) as (_ & _ & F2).
      destruct (m_expr v r2) as [r3|] eqn:E3; [|discriminate H].
      pose proof (IHe_wf v ltac:(lia) _ _ E3 Hw2 F2) as Jv. pose proof (m_expr_TL _ _ _ E3 F2) as F3.
      assert (Hd : key_ok (fst (k, v)) = true /\ JE2 (fst (k, v)) /\ JE2 (snd (k, v))) by (cbn [fst snd]; auto).
      destruct ps as [|kv ps'].
      + injection H as <-. split; [constructor; [exact Hd|constructor]|exact F3].
      + destruct (eat T_COMMA r3) as [[tm r4]|] eqn:E4; [|discriminate H].
        destruct (eat_TL _ _ _ _ E4 F3) as (_ & _ & F4).
        destruct (IH ltac:(lia) Hw3 _ _ H F4) as [Js Fr]. split; [constructor; assumption|exact Fr].
  Qed.

  Lemma stmts_J ss : (ssizes ss <= n)%nat -> wf_stmts wf_stmt ss = true ->
    forall nx ts r, m_stmts m_stmt ss nx ts = Some r -> Forall TL ts -> Forall JS ss /\ Forall TL r.
  Proof.
    induction ss as [|s ss IH]; intros Hn Hw nx ts r H F.
    - injection H as <-. split; [constructor|exact F].
    - cbn [ssizes fold_right] in Hn. fold (ssizes ss) in Hn. cbn [wf_stmts] in Hw.
      apply andb_true_iff in Hw as [Hw1 Hw2]. cbn [m_stmts] in H.
      destruct (m_stmt s nx ts) as [r1|] eqn:E; [|discriminate H].
      pose proof (IHs s ltac:(lia) _ _ _ E Hw1 F) as Js. pose proof (m_stmt_TL _ _ _ _ E F) as F1.
      destruct (IH ltac:(lia) Hw2 _ _ _ H F1) as [Jss Fr]. split; [constructor; assumption|exact Fr].
  Qed.

  Lemma no_paren_lt e k : wf_expr e = true -> k <= level e -> exists pv, prec_opt e = Some pv /\ (pv <? k) = false.
  Proof. intros Hw Hk. destruct (wf_prec e Hw) as (pv & Hp & Hl). exists pv. split; [exact Hp|lia]. Qed.
  Lemma no_paren_le e k : wf_expr e = true -> k < level e -> exists pv, prec_opt e = Some pv /\ (pv <=? k) = false.
  Proof. intros Hw Hk. destruct (wf_prec e Hw) as (pv & Hp & Hl). exists pv. split; [exact Hp|lia]. Qed.

  Lemma expr_step e : (esize e <= S n)%nat -> forall ts r, m_expr e ts = Some r -> wfx e = true ->
    Forall TL ts -> JE2 e.
  Proof.
    intros Hn ts r H Hw F.
    destruct e as [ | i | t | t | t v | t v | t b | t | t name value | t e1 op e2 | t op e | t e op | t e rp
                  | t e args | t e1 e2 computed | t e1 e2 | t e1 op e2 | t name params body | t elems rb | t props rb ];
      cbn [m_expr] in H; try discriminate H; cbn [esize] in Hn.
    - (* EIdent *) destruct (m_ident_TL _ _ _ H F) as [Hi _]. apply J2_ident. exact Hi.
    - (* EInt *)
      destruct ((t_type t =? T_INT) && go_int_ok (t_lit t)) eqn:C; [|discriminate H].
      apply andb_true_iff in C as [C1 C2]. destruct (eat_tok_TL _ _ _ H F) as [Tt _].
      apply J2_int. rewrite C1, C2. apply Z.eqb_eq in C1.
      rewrite (TL_word _ _ Tt C1) by auto. reflexivity.
    - (* EFloat *)
      destruct ((t_type t =? T_FLOAT) && go_float_ok (t_lit t)) eqn:C; [|discriminate H].
      apply andb_true_iff in C as [C1 C2]. destruct (eat_tok_TL _ _ _ H F) as [Tt _].
      apply J2_float. rewrite C1, C2. apply Z.eqb_eq in C1.
      rewrite (TL_word _ _ Tt C1) by auto. reflexivity.
    - (* EString *)
      destruct ((t_type t =? T_STRING) && str_eqb v (t_lit t)) eqn:C; [|discriminate H].
      destruct (eat_tok_TL _ _ _ H F) as [Tt _]. apply J2_string. cbn [lexical]. rewrite C. cbn [andb].
      apply andb_true_iff in C as [C1 C2]. apply Z.eqb_eq in C1. apply str_eqb_spec in C2. subst v.
      apply TL_string; assumption.
    - (* ERaw *)
      destruct ((t_type t =? T_RAW_STRING) && str_eqb v (t_lit t)) eqn:C; [|discriminate H].
      destruct (eat_tok_TL _ _ _ H F) as [Tt _]. apply J2_raw. cbn [lexical]. rewrite C. cbn [andb].
      apply andb_true_iff in C as [C1 C2]. apply Z.eqb_eq in C1. apply str_eqb_spec in C2. subst v.
      apply TL_raw; assumption.
    - (* EBool *)
      destruct (((t_type t =? T_TRUE) || (t_type t =? T_FALSE)) && Bool.eqb b (t_type t =? T_TRUE)) eqn:C; [|discriminate H].
      destruct (eat_tok_TL _ _ _ H F) as [Tt _]. apply J2_bool. cbn [lexical].
      apply andb_true_iff in C as [C1 C2]. apply Bool.eqb_prop in C2. subst b.
      apply orb_true_iff in C1 as [C1|C1]; apply Z.eqb_eq in C1.
      + rewrite C1. rewrite (TL_kw _ _ _ Tt C1 eq_refl). exact relex_true.
      + rewrite C1. rewrite (TL_kw _ _ _ Tt C1 eq_refl). exact relex_false.
    - (* ENull *)
      destruct (t_type t =? T_NULL) eqn:C; [|discriminate H].
      destruct (eat_tok_TL _ _ _ H F) as [Tt _]. apply J2_null. cbn [lexical]. rewrite C. cbn [andb].
      apply Z.eqb_eq in C. rewrite (TL_kw _ _ _ Tt C eq_refl). reflexivity.
    - (* ELet *)
      destruct (t_type t =? T_LET) eqn:C; cbn [negb] in H; [|discriminate H]. apply Z.eqb_eq in C.
      destruct (eat_tok t ts) as [r1|] eqn:E1; [|discriminate H].
      destruct (eat_tok_TL _ _ _ E1 F) as [Tt F1].
      destruct (m_ident name r1) as [r2|] eqn:E2; [|discriminate H].
      destruct (m_ident_TL _ _ _ E2 F1) as [Hnm F2].
      apply J2_let; [exact C|exact (TL_kw _ _ _ Tt C eq_refl)|exact Hnm|].
      intro Ev. rewrite enil_match, Ev in H.
      destruct (eat T_ASSIGN r2) as [[teq r3]|] eqn:E3; [|discriminate H].
      destruct (eat_TL _ _ _ _ E3 F2) as (_ & _ & F3).
      cbn [wfx] in Hw. rewrite Ev in Hw.
      eapply IHe_wf; [|exact H|exact Hw|exact F3]. lia.
    - (* EBinary *)
      cbn [wfx wf_expr] in Hw.
      destruct (binop_level (t_type t)) as [lv|] eqn:B; [|discriminate H].
      destruct (str_eqb op (t_lit t)) eqn:Eo; cbn [negb] in H; [|discriminate H]. apply str_eqb_spec in Eo.
      destruct (m_expr e1 ts) as [r1|] eqn:E1; [|discriminate H].
      destruct (eat_tok t r1) as [r2|] eqn:E2; [|discriminate H].
      pose proof (m_expr_TL _ _ _ E1 F) as F1. destruct (eat_tok_TL _ _ _ E2 F1) as [Tt F2].
      apply andb_true_iff in Hw as [Hw W2]. apply andb_true_iff in Hw as [Hw W1]. apply andb_true_iff in Hw as [L1 L2].
      destruct (no_paren_lt e1 lv W1 ltac:(lia)) as (pl & Pl & Cl).
      destruct (no_paren_le e2 lv W2 ltac:(lia)) as (pr & Pr & Cr).
      apply (J2_binary t e1 op e2 lv pl pr B (TL_binop _ _ Tt B) Eo Pl Cl Pr Cr).
      + exact (IHe_wf e1 ltac:(lia) _ _ E1 W1 F).
      + exact (IHe_wf e2 ltac:(lia) _ _ H W2 F2).
    - (* EUnary *)
      cbn [wfx wf_expr] in Hw.
      destruct ((t_type t =? T_NOT) || (t_type t =? T_MINUS) || (t_type t =? T_INCREMENT) || (t_type t =? T_DECREMENT)) eqn:Tys;
        cbn [negb orb] in H; [|discriminate H].
      destruct (str_eqb op (t_lit t)) eqn:Eo; cbn [negb] in H; [|discriminate H]. apply str_eqb_spec in Eo.
      destruct (eat_tok t ts) as [r1|] eqn:E1; [|discriminate H].
      destruct (eat_tok_TL _ _ _ E1 F) as [Tt F1].
      apply andb_true_iff in Hw as [Hw W1].
      assert (Hlv : 9 <= level e).
      { destruct ((t_type t =? T_INCREMENT) || (t_type t =? T_DECREMENT)).
        - apply assignable_level in Hw. lia.
        - unfold L_UNARY in Hw. lia. }
      destruct (no_paren_lt e 9 W1 Hlv) as (pr & Pr & Cr).
      assert (TT : type_text (t_type t) = Some (t_lit t)).
      { assert (X : exists s, type_text (t_type t) = Some s).
        { repeat (apply orb_true_iff in Tys; destruct Tys as [Tys|Tys]); apply Z.eqb_eq in Tys; rewrite Tys;
            eexists; reflexivity. }
        destruct X as [s X]. rewrite (TL_text _ _ Tt X). exact X. }
      apply (J2_unary t op e pr TT Eo Tys Pr Cr).
      exact (IHe_wf e ltac:(lia) _ _ H W1 F1).
    - (* EPostfix *)
      cbn [wfx wf_expr] in Hw.
      destruct ((t_type t =? T_INCREMENT) || (t_type t =? T_DECREMENT)) eqn:Tys; cbn [negb orb] in H; [|discriminate H].
      destruct (str_eqb op (t_lit t)) eqn:Eo; cbn [negb orb] in H; [|discriminate H]. apply str_eqb_spec in Eo.
      destruct (t_nl t); [discriminate H|].
      destruct (m_expr e ts) as [r1|] eqn:E1; [|discriminate H].
      pose proof (m_expr_TL _ _ _ E1 F) as F1. destruct (eat_tok_TL _ _ _ H F1) as [Tt F2].
      apply andb_true_iff in Hw as [Hw W1]. apply assignable_level in Hw.
      destruct (no_paren_lt e 10 W1 ltac:(lia)) as (pl & Pl & Cl).
      assert (TT : type_text (t_type t) = Some (t_lit t)).
      { assert (X : exists s, type_text (t_type t) = Some s).
        { apply orb_true_iff in Tys; destruct Tys as [Tys|Tys]; apply Z.eqb_eq in Tys; rewrite Tys;
            eexists; reflexivity. }
        destruct X as [s X]. rewrite (TL_text _ _ Tt X). exact X. }
      apply (J2_postfix t e op pl TT Eo Tys Pl Cl).
      exact (IHe_wf e ltac:(lia) _ _ E1 W1 F).
    - (* EGroup *)
      cbn [wfx wf_expr] in Hw.
      destruct (t_type t =? T_LPAREN) eqn:C1; cbn [negb orb] in H; [|discriminate H].
      destruct (t_type rp =? T_RPAREN) eqn:C2; cbn [negb orb] in H; [|discriminate H].
      apply Z.eqb_eq in C1, C2.
      destruct (eat_tok t ts) as [r1|] eqn:E1; [|discriminate H].
      destruct (eat_tok_TL _ _ _ E1 F) as [Tt F1].
      destruct (m_expr e r1) as [r2|] eqn:E2; [|discriminate H].
      pose proof (m_expr_TL _ _ _ E2 F1) as F2. destruct (eat_tok_TL _ _ _ H F2) as [Trp _].
      apply J2_group.
      + exact (TL_punct _ _ _ Tt C1 type_text_lparen).
      + exact (TL_punct _ _ _ Trp C2 type_text_rparen).
      + exact (IHe_wf e ltac:(lia) _ _ E2 Hw F1).
    - (* ECall *)
      cbn [wfx wf_expr] in Hw.
      destruct (t_type t =? T_LPAREN) eqn:C1; cbn [negb] in H; [|discriminate H]. apply Z.eqb_eq in C1.
      destruct (m_expr e ts) as [r1|] eqn:E1; [|discriminate H].
      pose proof (m_expr_TL _ _ _ E1 F) as F1.
      destruct (eat_tok t r1) as [r2|] eqn:E2; [|discriminate H].
      destruct (eat_tok_TL _ _ _ E2 F1) as [Tt F2].
      destruct (m_exprs m_expr args r2) as [r3|] eqn:E3; [|discriminate H].
      apply andb_true_iff in Hw as [Hw W2]. apply andb_true_iff in Hw as [_ W1].
      fold (esizes args) in Hn.
      destruct (exprs_J args ltac:(lia) W2 _ _ E3 F2) as [Ja _].
      apply J2_call; [exact C1|exact (TL_text _ _ Tt ltac:(rewrite C1; reflexivity))| |exact Ja].
      exact (IHe_wf e ltac:(lia) _ _ E1 W1 F).
    - (* EMember *)
      cbn [wfx wf_expr] in Hw.
      destruct (m_expr e1 ts) as [r1|] eqn:E1; [|discriminate H].
      pose proof (m_expr_TL _ _ _ E1 F) as F1.
      apply andb_true_iff in Hw as [Hw W2]. apply andb_true_iff in Hw as [Wlv W1].
      pose proof (IHe_wf e1 ltac:(lia) _ _ E1 W1 F) as Jo.
      destruct computed.
      + destruct (t_type t =? T_LBRACKET) eqn:C1; cbn [negb] in H; [|discriminate H]. apply Z.eqb_eq in C1.
        destruct (eat_tok t r1) as [r2|] eqn:E2; [|discriminate H].
        destruct (eat_tok_TL _ _ _ E2 F1) as [Tt F2].
        destruct (m_expr e2 r2) as [r3|] eqn:E3; [|discriminate H].
        apply J2_member_computed; [exact C1|exact (TL_text _ _ Tt ltac:(rewrite C1; reflexivity))|exact Jo|].
        exact (IHe_wf e2 ltac:(lia) _ _ E3 W2 F2).
      + destruct (t_type t =? T_DOT) eqn:C1; cbn [negb] in H; [|discriminate H]. apply Z.eqb_eq in C1.
        destruct (eat_tok t r1) as [r2|] eqn:E2; [|discriminate H].
        destruct (eat_tok_TL _ _ _ E2 F1) as [Tt F2].
        destruct e2; try discriminate H.
        destruct (m_ident_TL _ _ _ H F2) as [Hi _].
        apply J2_member_dot; [exact C1|exact (TL_text _ _ Tt ltac:(rewrite C1; reflexivity))|exact Hi| |exact Jo].
        apply obj_ok_level. exact Wlv.
    - (* EAssign *)
      cbn [wfx wf_expr] in Hw.
      destruct (t_type t =? T_ASSIGN) eqn:C1; cbn [negb] in H; [|discriminate H]. apply Z.eqb_eq in C1.
      destruct (m_expr e1 ts) as [r1|] eqn:E1; [|discriminate H].
      pose proof (m_expr_TL _ _ _ E1 F) as F1.
      destruct (eat_tok t r1) as [r2|] eqn:E2; [|discriminate H].
      destruct (eat_tok_TL _ _ _ E2 F1) as [Tt F2].
      apply andb_true_iff in Hw as [Hw W2]. apply andb_true_iff in Hw as [_ W1].
      apply J2_assign; [exact C1|exact (TL_text _ _ Tt ltac:(rewrite C1; reflexivity))| |].
      + exact (IHe_wf e1 ltac:(lia) _ _ E1 W1 F).
      + exact (IHe_wf e2 ltac:(lia) _ _ H W2 F2).
    - (* ECompound *)
      cbn [wfx wf_expr] in Hw.
      destruct (if t_type t =? T_PLUS_ASSIGN then Some [43%N] else if t_type t =? T_MINUS_ASSIGN then Some [45%N] else None)
        as [w|] eqn:Want; [|discriminate H].
      destruct (str_eqb op w) eqn:Eo; cbn [negb] in H; [|discriminate H]. apply str_eqb_spec in Eo. subst w.
      destruct (m_expr e1 ts) as [r1|] eqn:E1; [|discriminate H].
      pose proof (m_expr_TL _ _ _ E1 F) as F1.
      destruct (eat_tok t r1) as [r2|] eqn:E2; [|discriminate H].
      destruct (eat_tok_TL _ _ _ E2 F1) as [Tt F2].
      apply andb_true_iff in Hw as [Hw W2]. apply andb_true_iff in Hw as [_ W1].
      assert (X : (t_type t = T_PLUS_ASSIGN \/ t_type t = T_MINUS_ASSIGN) /\ type_text (t_type t) = Some (op ++ [61%N])).
      { destruct (Z.eqb_spec (t_type t) T_PLUS_ASSIGN) as [Q|Q].
        - inversion Want; subst op. rewrite Q. split; [left|]; reflexivity.
        - destruct (Z.eqb_spec (t_type t) T_MINUS_ASSIGN) as [Q2|Q2]; [|discriminate Want].
          inversion Want; subst op. rewrite Q2. split; [right|]; reflexivity. }
      destruct X as [X1 X2].
      apply (J2_compound t e1 op e2 (t_type t) X1 eq_refl X2 (TL_text _ _ Tt X2) Want).
      + exact (IHe_wf e1 ltac:(lia) _ _ E1 W1 F).
      + exact (IHe_wf e2 ltac:(lia) _ _ H W2 F2).
    - (* EFunc *)
      cbn [wfx wf_expr] in Hw.
      destruct (t_type t =? T_FUNCTION) eqn:C1; cbn [negb] in H; [|discriminate H]. apply Z.eqb_eq in C1.
      destruct (eat_tok t ts) as [r1|] eqn:E1; [|discriminate H].
      destruct (eat_tok_TL _ _ _ E1 F) as [Tt F1].
      destruct (match name with Some n0 => m_ident n0 r1 | None => Some r1 end) as [r2|] eqn:E2; [|discriminate H].
      assert (Hnm : match name with Some n0 => ident_lexical n0 = true | None => True end /\ Forall TL r2).
      { destruct name as [n0|].
        - exact (m_ident_TL _ _ _ E2 F1).
        - injection E2 as <-. split; [exact I|exact F1]. }
      destruct Hnm as [Hnm F2].
      destruct (eat T_LPAREN r2) as [[tl r3]|] eqn:E3; [|discriminate H].
      destruct (eat_TL _ _ _ _ E3 F2) as (_ & _ & F3).
      destruct (m_params params r3) as [r4|] eqn:E4; [|discriminate H].
      destruct (params_TL _ _ _ E4 F3) as [Hps F4].
      destruct (eat T_RPAREN r4) as [[tr r5]|] eqn:E5; [|discriminate H].
      destruct (eat_TL _ _ _ _ E5 F4) as (_ & _ & F5).
      assert (Bl : is_block body = true) by (destruct body; try discriminate H; reflexivity).
      apply J2_func; [exact C1|exact (TL_kw _ _ _ Tt C1 eq_refl)|exact Hnm|exact Hps| |exact Bl].
      destruct body; try discriminate Bl.
      eapply IHs; [|exact H|exact Hw|exact F5]. lia.
    - (* EArray *)
      cbn [wfx wf_expr] in Hw.
      destruct (t_type t =? T_LBRACKET) eqn:C1; cbn [negb orb] in H; [|discriminate H].
      destruct (t_type rb =? T_RBRACKET) eqn:C2; cbn [negb orb] in H; [|discriminate H].
      apply Z.eqb_eq in C1, C2.
      destruct (eat_tok t ts) as [r1|] eqn:E1; [|discriminate H].
      destruct (eat_tok_TL _ _ _ E1 F) as [Tt F1].
      destruct (m_exprs m_expr elems r1) as [r2|] eqn:E2; [|discriminate H].
      fold (esizes elems) in Hn.
      destruct (exprs_J elems ltac:(lia) Hw _ _ E2 F1) as [Ja F2].
      destruct (eat_tok_TL _ _ _ H F2) as [Trb _].
      apply J2_array; [exact (TL_punct _ _ _ Tt C1 type_text_lbracket)|exact (TL_punct _ _ _ Trb C2 type_text_rbracket)|exact Ja].
    - (* EObject *)
      cbn [wfx wf_expr] in Hw.
      destruct (t_type t =? T_LBRACE) eqn:C1; cbn [negb] in H; [|discriminate H]. apply Z.eqb_eq in C1.
      destruct (eat_tok t ts) as [r1|] eqn:E1; [|discriminate H].
      destruct (eat_tok_TL _ _ _ E1 F) as [Tt F1].
      pose proof (TL_punct _ _ _ Tt C1 type_text_lbrace) as Plb.
      destruct props as [|p ps].
      + destruct (tok_eqb rb zero_token) eqn:Z; [|discriminate H].
        apply J2_object; [exact Plb|exact Z|constructor].
      + destruct (t_type rb =? T_RBRACE) eqn:C2; cbn [negb] in H; [|discriminate H]. apply Z.eqb_eq in C2.
        destruct (m_props m_expr (p :: ps) r1) as [r2|] eqn:E2; [|discriminate H].
        fold (psizes (p :: ps)) in Hn.
        destruct (props_J (p :: ps) ltac:(lia) Hw _ _ E2 F1) as [Jp F2].
        destruct (eat_tok_TL _ _ _ H F2) as [Trb _].
        apply J2_object; [exact Plb|exact (TL_punct _ _ _ Trb C2 type_text_rbrace)|exact Jp].
  Qed.

  Lemma opt_step e ts r : (esize e <= n)%nat ->
    (if is_enil e then Some ts else m_expr e ts) = Some r -> (if is_enil e then true else wfx e) = true ->
    Forall TL ts -> JOpt e /\ Forall TL r.
  Proof.
    intros Hn H Hw F. destruct (is_enil e) eqn:Ev.
    - injection H as <-. split; [|exact F]. apply J_opt. intro X. congruence.
    - split; [|exact (m_expr_TL _ _ _ H F)]. apply J_opt. intros _. exact (IHe e Hn _ _ H Hw F).
  Qed.

  Lemma stmt_step s : (ssize s <= S n)%nat -> forall nx ts r, m_stmt s nx ts = Some r -> wf_stmt s = true ->
    Forall TL ts -> JS s.
  Proof.
    intros Hn nx ts r H Hw F.
    destruct s as [ | t name value | t value | e | t name params body | t stmts rb | t c thn els | t c body | t i c u body ];
      cbn [m_stmt] in H; try discriminate H; cbn [ssize] in Hn; cbn [wf_stmt] in Hw.
    - (* SLet *)
      destruct (t_type t =? T_LET) eqn:C; cbn [negb] in H; [|discriminate H]. apply Z.eqb_eq in C.
      destruct (eat_tok t ts) as [r1|] eqn:E1; [|discriminate H].
      destruct (eat_tok_TL _ _ _ E1 F) as [Tt F1].
      destruct (m_ident name r1) as [r2|] eqn:E2; [|discriminate H].
      destruct (m_ident_TL _ _ _ E2 F1) as [Hnm F2].
      apply J_slet. apply J_let_core; [exact C|exact (TL_kw _ _ _ Tt C eq_refl)|exact Hnm|].
      intro Ev. rewrite enil_match, Ev in H. rewrite enil_match, Ev in Hw.
      destruct (eat T_ASSIGN r2) as [[teq r3]|] eqn:E3; [|discriminate H].
      destruct (eat_TL _ _ _ _ E3 F2) as (_ & _ & F3).
      destruct (m_expr value r3) as [r4|] eqn:E4; [|discriminate H].
      eapply IHe_wf; [|exact E4|exact Hw|exact F3]. lia.
    - (* SReturn *)
      destruct (t_type t =? T_RETURN) eqn:C; cbn [negb] in H; [|discriminate H]. apply Z.eqb_eq in C.
      destruct (eat_tok t ts) as [r1|] eqn:E1; [|discriminate H].
      destruct (eat_tok_TL _ _ _ E1 F) as [Tt F1].
      apply J_sreturn; [exact C|exact (TL_kw _ _ _ Tt C eq_refl)|].
      intro Ev. rewrite enil_match, Ev in H. rewrite enil_match, Ev in Hw.
      destruct r1 as [|f r1']; [discriminate H|]. destruct (t_nl f); [discriminate H|].
      destruct (m_expr value (f :: r1')) as [r2|] eqn:E2; [|discriminate H].
      eapply IHe_wf; [|exact E2|exact Hw|exact F1]. lia.
    - (* SExpr *)
      destruct ts as [|f ts']; [discriminate H|].
      destruct (statement_keyword (t_type f)) eqn:Kw; [discriminate H|].
      destruct (m_expr e (f :: ts')) as [r1|] eqn:E1; [|discriminate H].
      apply J_sexpr.
      + eapply IHe_wf; [|exact E1|exact Hw|exact F]. lia.
      + apply wf_not_nil. exact Hw.
      + rewrite <- (m_expr_first _ _ _ _ E1). exact Kw.
    - (* SFunc *)
      destruct (t_type t =? T_FUNCTION) eqn:C1; cbn [negb] in H; [|discriminate H]. apply Z.eqb_eq in C1.
      destruct (eat_tok t ts) as [r1|] eqn:E1; [|discriminate H].
      destruct (eat_tok_TL _ _ _ E1 F) as [Tt F1].
      destruct (m_ident name r1) as [r2|] eqn:E2; [|discriminate H].
      destruct (m_ident_TL _ _ _ E2 F1) as [Hnm F2].
      destruct (eat T_LPAREN r2) as [[tl r3]|] eqn:E3; [|discriminate H].
      destruct (eat_TL _ _ _ _ E3 F2) as (_ & _ & F3).
      destruct (m_params params r3) as [r4|] eqn:E4; [|discriminate H].
      destruct (params_TL _ _ _ E4 F3) as [Hps F4].
      destruct (eat T_RPAREN r4) as [[tr r5]|] eqn:E5; [|discriminate H].
      destruct (eat_TL _ _ _ _ E5 F4) as (_ & _ & F5).
      assert (Bl : is_block body = true) by (destruct body; try discriminate H; reflexivity).
      apply J_sfunc; [exact C1|exact (TL_kw _ _ _ Tt C1 eq_refl)|exact Hnm|exact Hps| |exact Bl].
      destruct body; try discriminate Bl.
      eapply IHs; [|exact H|exact Hw|exact F5]. lia.
    - (* SBlock *)
      destruct (t_type t =? T_LBRACE) eqn:C1; cbn [negb orb] in H; [|discriminate H].
      destruct (t_type rb =? T_RBRACE) eqn:C2; cbn [negb orb] in H; [|discriminate H].
      apply Z.eqb_eq in C1, C2.
      destruct (eat_tok t ts) as [r1|] eqn:E1; [|discriminate H].
      destruct (eat_tok_TL _ _ _ E1 F) as [Tt F1].
      destruct (m_stmts m_stmt stmts rb r1) as [r2|] eqn:E2; [|discriminate H].
      fold (ssizes stmts) in Hn.
      destruct (stmts_J stmts ltac:(lia) Hw _ _ _ E2 F1) as [Js F2].
      destruct (eat_tok_TL _ _ _ H F2) as [Trb _].
      apply J_sblock; [exact (TL_punct _ _ _ Tt C1 type_text_lbrace)|exact (TL_punct _ _ _ Trb C2 type_text_rbrace)|exact Js].
    - (* SIf *)
      destruct (t_type t =? T_IF) eqn:C1; cbn [negb] in H; [|discriminate H]. apply Z.eqb_eq in C1.
      destruct (eat_tok t ts) as [r1|] eqn:E1; [|discriminate H].
      destruct (eat_tok_TL _ _ _ E1 F) as [Tt F1].
      destruct (eat T_LPAREN r1) as [[tl r2]|] eqn:E2; [|discriminate H].
      destruct (eat_TL _ _ _ _ E2 F1) as (_ & _ & F2).
      destruct (m_expr c r2) as [r3|] eqn:E3; [|discriminate H].
      pose proof (m_expr_TL _ _ _ E3 F2) as F3.
      destruct (eat T_RPAREN r3) as [[tr r4]|] eqn:E4; [|discriminate H].
      destruct (eat_TL _ _ _ _ E4 F3) as (_ & _ & F4).
      destruct (m_stmt thn nx r4) as [r5|] eqn:E5; [|discriminate H].
      pose proof (m_stmt_TL _ _ _ _ E5 F4) as F5.
      apply andb_true_iff in Hw as [Hw We]. apply andb_true_iff in Hw as [Hw Wt]. apply andb_true_iff in Hw as [Wc _].
      apply J_sif; [exact C1|exact (TL_kw _ _ _ Tt C1 eq_refl)| | |].
      + eapply IHe_wf; [|exact E3|exact Wc|exact F2]. lia.
      + eapply IHs; [|exact E5|exact Wt|exact F4]. lia.
      + intro Ee. rewrite snil_match, Ee in H. rewrite snil_match, Ee in We.
        destruct (eat T_ELSE r5) as [[te r6]|] eqn:E6; [|discriminate H].
        destruct (eat_TL _ _ _ _ E6 F5) as (_ & _ & F6).
        apply andb_true_iff in We as [We _]. apply andb_true_iff in We as [_ We].
        eapply IHs; [|exact H|exact We|exact F6]. lia.
    - (* SWhile *)
      destruct (t_type t =? T_WHILE) eqn:C1; cbn [negb] in H; [|discriminate H]. apply Z.eqb_eq in C1.
      destruct (eat_tok t ts) as [r1|] eqn:E1; [|discriminate H].
      destruct (eat_tok_TL _ _ _ E1 F) as [Tt F1].
      destruct (eat T_LPAREN r1) as [[tl r2]|] eqn:E2; [|discriminate H].
      destruct (eat_TL _ _ _ _ E2 F1) as (_ & _ & F2).
      destruct (m_expr c r2) as [r3|] eqn:E3; [|discriminate H].
      pose proof (m_expr_TL _ _ _ E3 F2) as F3.
      destruct (eat T_RPAREN r3) as [[tr r4]|] eqn:E4; [|discriminate H].
      destruct (eat_TL _ _ _ _ E4 F3) as (_ & _ & F4).
      apply andb_true_iff in Hw as [Hw Wb]. apply andb_true_iff in Hw as [Wc _].
      apply J_swhile; [exact C1|exact (TL_kw _ _ _ Tt C1 eq_refl)| |].
      + eapply IHe_wf; [|exact E3|exact Wc|exact F2]. lia.
      + eapply IHs; [|exact H|exact Wb|exact F4]. lia.
    - (* SFor *)
      rewrite init_wf_eq in Hw.
      destruct (t_type t =? T_FOR) eqn:C1; cbn [negb] in H; [|discriminate H]. apply Z.eqb_eq in C1.
      destruct (eat_tok t ts) as [r1|] eqn:E1; [|discriminate H].
      destruct (eat_tok_TL _ _ _ E1 F) as [Tt F1].
      destruct (eat T_LPAREN r1) as [[tl r2]|] eqn:E2; [|discriminate H].
      destruct (eat_TL _ _ _ _ E2 F1) as (_ & _ & F2).
      rewrite !enil_match in Hw.
      apply andb_true_iff in Hw as [Hw Wb]. apply andb_true_iff in Hw as [Hw _].
      apply andb_true_iff in Hw as [Hw Wu]. apply andb_true_iff in Hw as [Wi Wc].
      rewrite enil_match in H.
      destruct (if is_enil i then Some r2 else m_expr i r2) as [r3|] eqn:E3; [|discriminate H].
      assert (Wi' : (if is_enil i then true else wfx i) = true).
      { destruct (is_enil i) eqn:Ei; [reflexivity|]. apply init_wfx; assumption. }
      destruct (opt_step i r2 r3 ltac:(lia) E3 Wi' F2) as [Ji F3].
      destruct (eat T_SEMICOLON r3) as [[s1 r4]|] eqn:E4; [|discriminate H].
      destruct (eat_TL _ _ _ _ E4 F3) as (_ & _ & F4).
      rewrite enil_match in H.
      destruct (if is_enil c then Some r4 else m_expr c r4) as [r5|] eqn:E5; [|discriminate H].
      assert (Wc' : (if is_enil c then true else wfx c) = true).
      { destruct (is_enil c) eqn:Ei; [reflexivity|]. apply wf_wfx; assumption. }
      destruct (opt_step c r4 r5 ltac:(lia) E5 Wc' F4) as [Jc F5].
      destruct (eat T_SEMICOLON r5) as [[s2 r6]|] eqn:E6; [|discriminate H].
      destruct (eat_TL _ _ _ _ E6 F5) as (_ & _ & F6).
      rewrite enil_match in H.
      destruct (if is_enil u then Some r6 else m_expr u r6) as [r7|] eqn:E7; [|discriminate H].
      assert (Wu' : (if is_enil u then true else wfx u) = true).
      { destruct (is_enil u) eqn:Ei; [reflexivity|]. apply wf_wfx; assumption. }
      destruct (opt_step u r6 r7 ltac:(lia) E7 Wu' F6) as [Ju F7].
      destruct (eat T_RPAREN r7) as [[tr r8]|] eqn:E8; [|discriminate H].
      destruct (eat_TL _ _ _ _ E8 F7) as (_ & _ & F8).
      apply J_sfor; [exact C1|exact (TL_kw _ _ _ Tt C1 eq_refl)|exact Ji|exact Jc|exact Ju|].
      eapply IHs; [|exact H|exact Wb|exact F8]. lia.
  Qed.
End Step.

Lemma J_all2 : forall n,
  (forall e, (esize e <= n)%nat -> forall ts r, m_expr e ts = Some r -> wfx e = true -> Forall TL ts -> JE2 e) /\
  (forall s, (ssize s <= n)%nat -> forall nx ts r, m_stmt s nx ts = Some r -> wf_stmt s = true ->
     Forall TL ts -> JS s).
Proof.
  induction n as [|n [IHe IHs]].
  - split; [intros e H; destruct e; cbn [esize] in H; lia | intros s H; destruct s; cbn [ssize] in H; lia].
  - split; [apply expr_step | apply stmt_step]; assumption.
Qed.

Lemma JS_all s nx ts r : m_stmt s nx ts = Some r -> wf_stmt s = true -> Forall TL ts -> JS s.
Proof. intros H Hw F. exact (proj2 (J_all2 (ssize s)) s (le_n _) _ _ _ H Hw F). Qed.

(* ================================================================== *)
(* 7. programs over self-lexing tokens (A)                             *)
(* ================================================================== *)

Lemma wf_stmt_shape s : wf_stmt (shape_stmt s) = wf_stmt s.
Proof. apply (proj2 (wf_tmap norm_tok (fun _ => eq_refl) (S (ssize s)))). lia. Qed.

Lemma wf_stmts_shape ss : wf_stmts wf_stmt (map shape_stmt ss) = wf_stmts wf_stmt ss.
Proof. apply (wf_stmts_map norm_tok). intros x _. apply wf_stmt_shape. Qed.

Lemma stmts_JS ss nx ts r : m_stmts m_stmt ss nx ts = Some r -> wf_stmts wf_stmt ss = true ->
  Forall TL ts -> Forall JS ss.
Proof.
  intros H Hw F.
  destruct (stmts_J (ssizes ss) (fun s Hs => proj2 (J_all2 _) s Hs) ss (le_n _) Hw _ _ _ H F) as [J _]. exact J.
Qed.

Theorem round_trip_lexical : forall p toks,
  forallb tok_lex toks = true -> m_program p toks = true -> wf_program p = true ->
  exists r, reparse_compact p = Some r /\ pr_errors r = [] /\
            shape_program (pr_program r) = shape_program p.
Proof.
  intros [ss eof] toks Hl Hm Hw. unfold m_program, wf_program in *. cbn [p_stmts p_eof] in *.
  apply andb_true_iff in Hm as [Heof Hm]. apply Z.eqb_eq in Heof.
  destruct (m_stmts m_stmt ss eof toks) as [[|e [|? ?]]|] eqn:Em; try discriminate Hm.
  assert (F : Forall TL toks) by (apply Forall_forall; intros x Hx; exact (proj1 (forallb_forall _ _) Hl x Hx)).
  pose proof (stmts_JS _ _ _ _ Em Hw F) as Js.
  pose proof (JSS_sep (fun stmt => write_stmt stmt ++ []) ss
                ltac:(intros s b lv mp; cbv beta; rewrite app_nil_r; reflexivity) Js) as JA.
  destruct (JA [] 0 SourceMap.mapper_new) as (txt & W & Lx). cbn [app] in W.
  assert (Code : r_code (compile (cfg_compact false) (mkprogram ss eof)) = txt).
  { unfold compile, finish, run_wops, write_program. cbn [p_stmts p_eof w_pretty cfg_compact r_code].
    match goal with |- w_buf (fold_left _ ?ops _) = _ =>
      change (w_buf (wrun (gs [] 0 SourceMap.mapper_new) ops) = txt) end.
    rewrite wrun_app, W, wrun_cons, st_comments, wrun_nil. reflexivity. }
  destruct (Lx [] (lx_init txt) ltac:(cbn [lx_init l_rest]; rewrite app_nil_r; reflexivity))
    as (ss' & ts & l1 & L & R1 & M & Sh).
  pose proof (lex_eof_stable l1 (at_eof_nil _ R1)) as EOFs.
  destruct (next_token l1) as [teof l2] eqn:Neof. destruct EOFs as (Eeof & _).
  assert (Tok : tokenize txt = Some (ts ++ [teof])).
  { unfold tokenize. pose proof (lexes_len _ _ _ L) as Len. cbn [lx_init l_rest] in Len. rewrite R1 in Len.
    cbn [length] in Len.
    replace (S (length txt)) with (length ts + S (length txt - length ts))%nat by lia.
    rewrite (tokenize_from_lexes _ _ _ L). cbn [tokenize_from]. rewrite Neof.
    rewrite Eeof. cbn [t_type]. change (T_EOF =? T_EOF) with true. cbn iota. reflexivity. }
  set (p' := mkprogram ss' teof).
  assert (Mp : m_program p' (ts ++ [teof]) = true).
  { unfold m_program, p'. cbn [p_eof p_stmts]. rewrite Eeof at 1. cbn [t_type].
    change (T_EOF =? T_EOF) with true. cbn [andb]. rewrite M. apply tok_eqb_refl. }
  assert (Wf : wf_program p' = true).
  { unfold wf_program, p'. cbn [p_stmts]. rewrite <- wf_stmts_shape, Sh, wf_stmts_shape. exact Hw. }
  destruct (parse_complete p' _ Mp Wf) as (r & Hr & Pr & Er & _).
  exists r. split; [|split; [exact Er|]].
  { unfold reparse_compact. rewrite Code, Tok. exact Hr. }
  rewrite Pr. unfold shape_program, p'. cbn [p_stmts p_eof]. rewrite Sh. f_equal.
  apply norm_eq; [rewrite Eeof; cbn [t_type]; congruence|].
  rewrite Eeof. cbn [t_lit]. symmetry.
  apply tok_eqb_eq in Hm. subst e.
  assert (Te : TL eof).
  { pose proof (m_stmts_suf_all _ _ _ _ Em) as Sf. pose proof (Forall_suf _ _ _ Sf F) as Fe.
    inversion Fe; assumption. }
  unfold TL, tok_lex in Te. apply andb_true_iff in Te as [_ Te]. rewrite Heof in Te. cbn in Te.
  apply str_eqb_spec in Te. exact Te.
Qed.

(* ================================================================== *)
(* 8. the lexer's tokens lex back to themselves (B)                    *)
(* ================================================================== *)

Definition lex_clause (t : token) : bool :=
  if t_type t =? T_IDENT then relex_word T_IDENT (t_lit t)
  else if t_type t =? T_INT then relex_word T_INT (t_lit t)
  else if t_type t =? T_FLOAT then relex_word T_FLOAT (t_lit t)
  else if t_type t =? T_STRING then relex_string (t_lit t)
  else if t_type t =? T_RAW_STRING then relex_raw (t_lit t)
  else if t_type t =? T_EOF then str_eqb (t_lit t) []
  else true.

Lemma tok_lex_eq t : tok_lex t = tok_canonical t && lex_clause t.
Proof. reflexivity. Qed.

(* a text that is one token long *)
Lemma tokenize_two T t l1 : T <> [] -> next_token (lx_init T) = (t, l1) -> t_type t <> T_EOF ->
  l_rest l1 = [] -> exists e, tokenize T = Some [t; e] /\ t_type e = T_EOF.
Proof.
  intros NT N Ne R. unfold tokenize. destruct T as [|c T']; [congruence|].
  cbn [length tokenize_from]. rewrite N.
  destruct (t_type t =? T_EOF) eqn:Q; [apply Z.eqb_eq in Q; contradiction|].
  pose proof (lex_eof_stable l1 (at_eof_nil _ R)) as EOFs.
  destruct (next_token l1) as [e l2] eqn:N2. destruct EOFs as (Ee & _).
  exists e. rewrite Ee at 1. cbn [t_type]. change (T_EOF =? T_EOF) with true. cbn iota.
  split; [reflexivity|rewrite Ee; reflexivity].
Qed.

Lemma relex_word_intro ty lit t l1 : lit <> [] -> next_token (lx_init lit) = (t, l1) ->
  t_type t = ty -> t_lit t = lit -> ty <> T_EOF -> l_rest l1 = [] -> relex_word ty lit = true.
Proof.
  intros Nl N Ty Li Ne R. unfold relex_word.
  destruct (tokenize_two lit t l1 Nl N ltac:(congruence) R) as (e & -> & Te).
  rewrite Ty, Li, Te, Z.eqb_refl, str_eqb_refl. reflexivity.
Qed.

(* identifiers and keywords *)
Lemma relex_ident_intro lit : isLetter (hd 0%N lit) = true -> forallb is_ident_char lit = true ->
  relex_word (lookup_ident token_keywords lit) lit = true.
Proof.
  intros HL All.
  assert (Nl : lit <> []) by (intro E; rewrite E in HL; discriminate HL).
  destruct lit as [|c lit']; [congruence|]. cbn [hd] in HL.
  destruct (letter_facts c HL) as (F1 & F2 & F3).
  set (lit := c :: lit') in *.
  assert (TS : tstart lit) by (split; [exact F1|intro; congruence]).
  assert (N : exists l1, next_token (lx_init lit) =
                (new_token_at l1 (lookup_ident token_keywords lit) lit (cur_pos (clean (lx_init lit))), l1)
                /\ l_rest l1 = []).
  { unfold next_token, next_token_with. rewrite rlc_stop by exact TS.
    rewrite base_letter by exact HL. cbv zeta. unfold read_identifier, lx_read_while.
    cbn [clean lx_init l_rest l_col]. rewrite (read_while_all _ _ _ All).
    eexists. split; reflexivity. }
  destruct N as (l1 & N & R).
  apply (relex_word_intro _ _ _ _ Nl N); try reflexivity; [|exact R].
  apply lookup_keywords_not_eof.
Qed.

(* ---------- backtick strings ---------- *)

Lemma rep_cons_bt v : rep (96%N :: v) = 92%N :: 96%N :: rep v.
Proof. reflexivity. Qed.
Lemma rep_cons_other c v : c <> 96%N -> rep (c :: v) = c :: rep v.
Proof. intro H. cbn [rep flat_map]. destruct (N.eqb_spec c 96); [contradiction|reflexivity]. Qed.

(* the text a successful backtick scan has read is the escaped literal *)
Lemma raw_loop_body : forall f l0 acc lit l1, read_raw_loop f l0 acc = (lit, true, l1) ->
  exists out rest, lit = acc ++ out /\ tl (l_rest l0) = rep out ++ 96%N :: rest /\ l_rest l1 = 96%N :: rest.
Proof.
  induction f as [|f IH]; intros l0 acc lit l1 H; [cbn in H; inversion H|].
  destruct (l_rest l0) as [|c0 [|c r]] eqn:A.
  - exfalso. apply (rrl_short (S f) l0 acc lit l1); [rewrite A; cbn [length]; lia|exact H].
  - exfalso. apply (rrl_short (S f) l0 acc lit l1); [rewrite A; cbn [length]; lia|exact H].
  - rewrite (raw_iter _ _ _ _ _ _ A) in H. cbn [tl].
    assert (R1 : l_rest (read_char l0) = c :: r) by (rewrite read_char_rest, A; reflexivity).
    assert (R2 : l_rest (read_char (read_char l0)) = r) by (rewrite read_char_rest, R1; reflexivity).
    destruct (N.eqb_spec c 92) as [->|N92].
    + destruct r as [|x r']; cbn [hd] in H.
      * change (N.eqb 0 96) with false in H. cbn iota in H. inversion H.
      * destruct (N.eqb_spec x 96) as [->|N96].
        -- destruct (IH _ _ _ _ H) as (out & rest & E1 & E2 & E3).
           rewrite R2 in E2. cbn [tl] in E2.
           exists (96%N :: out), rest. split; [rewrite E1, <- app_assoc; reflexivity|].
           split; [|exact E3]. rewrite rep_cons_bt, E2. reflexivity.
        -- destruct (IH _ _ _ _ H) as (out & rest & E1 & E2 & E3).
           rewrite R2 in E2. cbn [tl] in E2.
           exists (92%N :: x :: out), rest. split; [rewrite E1, <- app_assoc; reflexivity|].
           split; [|exact E3].
           rewrite (rep_cons_other 92) by discriminate. rewrite (rep_cons_other x) by exact N96.
           rewrite E2. reflexivity.
    + destruct (N.eqb_spec c 96) as [->|N96].
      * injection H as <- <-. exists [], r. split; [rewrite app_nil_r; reflexivity|].
        split; [reflexivity|exact R1].
      * destruct (IH _ _ _ _ H) as (out & rest & E1 & E2 & E3).
        rewrite R1 in E2. cbn [tl] in E2.
        exists (c :: out), rest. split; [rewrite E1, <- app_assoc; reflexivity|].
        split; [|exact E3]. rewrite (rep_cons_other c) by exact N96. rewrite E2. reflexivity.
Qed.

(* scanning a truncated text: the closing backtick is its last byte *)
Lemma rrl_rst X : forall f f' la lb acc lit lb1, l_rest lb = l_rest la ++ X ->
  read_raw_loop f lb acc = (lit, true, lb1) -> length (l_rest lb1) = S (length X) ->
  (length (l_rest la) <= f')%nat ->
  exists la1, read_raw_loop f' la acc = (lit, true, la1) /\ l_rest la1 = [96%N].
Proof.
  induction f as [|f IH]; intros f' la lb acc lit lb1 E H Ln Hf; [cbn in H; inversion H|].
  assert (RC : reach (read_char lb) lb1).
  { apply read_raw_loop_reach in H as [_ H]. apply H. discriminate. }
  apply reach_len in RC. rewrite read_char_rest in RC.
  destruct (l_rest la) as [|c0 [|c r]] eqn:A.
  - exfalso. rewrite E in RC. cbn [app] in RC. destruct X; cbn [tl length] in *; lia.
  - exfalso. rewrite E in RC. cbn [app tl] in RC. lia.
  - cbn [app] in E. cbn [length] in Hf. destruct f' as [|f']; [lia|].
    rewrite (raw_iter _ _ _ _ _ _ E) in H. rewrite (raw_iter _ _ _ _ _ _ A).
    assert (Ra1 : l_rest (read_char la) = c :: r) by (rewrite read_char_rest, A; reflexivity).
    assert (Ra2 : l_rest (read_char (read_char la)) = r) by (rewrite read_char_rest, Ra1; reflexivity).
    assert (Rb1 : l_rest (read_char lb) = c :: r ++ X) by (rewrite read_char_rest, E; reflexivity).
    assert (Rb2 : l_rest (read_char (read_char lb)) = r ++ X) by (rewrite read_char_rest, Rb1; reflexivity).
    destruct (N.eqb_spec c 92) as [->|N92].
    + destruct r as [|x r'].
      * exfalso. cbn [app] in *.
        assert (RC2 : (length (l_rest lb1) <= length X)%nat).
        { destruct (N.eqb (hd 0%N X) 96).
          - apply read_raw_loop_reach in H as [H _]. apply reach_len in H. rewrite Rb2 in H. exact H.
          - destruct X as [|y X']; [inversion H|].
            apply read_raw_loop_reach in H as [H _]. apply reach_len in H. rewrite Rb2 in H. exact H. }
        lia.
      * cbn [app hd] in H. cbn [hd]. cbn [length] in Hf.
        destruct (N.eqb x 96).
        -- apply (IH f' (read_char (read_char la)) (read_char (read_char lb)) _ _ _
                    ltac:(rewrite Rb2, Ra2; reflexivity) H Ln). rewrite Ra2. cbn [length]. lia.
        -- apply (IH f' (read_char (read_char la)) (read_char (read_char lb)) _ _ _
                    ltac:(rewrite Rb2, Ra2; reflexivity) H Ln). rewrite Ra2. cbn [length]. lia.
    + destruct (N.eqb_spec c 96) as [->|N96].
      * injection H as <- <-. rewrite Rb1 in Ln. cbn [length] in Ln. rewrite app_length in Ln.
        destruct r; [|cbn [length] in Ln; lia].
        eexists. split; [reflexivity|exact Ra1].
      * apply (IH f' (read_char la) (read_char lb) _ _ _ ltac:(rewrite Rb1, Ra1; reflexivity) H Ln).
        rewrite Ra1. cbn [length] in *. lia.
Qed.

Lemma relex_raw_intro l0 lit l1 : cur l0 = 96%N -> read_raw_string l0 = (lit, true, l1) -> relex_raw lit = true.
Proof.
  intros C H. unfold read_raw_string in H.
  destruct (raw_loop_body _ _ _ _ _ H) as (out & rest & E1 & E2 & E3). cbn [app] in E1. subst out.
  assert (A : l_rest l0 = 96%N :: rep lit ++ 96%N :: rest).
  { unfold cur in C. destruct (l_rest l0) as [|c r]; cbn [tl hd] in *; [destruct (rep lit); discriminate E2|].
    subst c r. reflexivity. }
  set (T := 96%N :: rep lit ++ [96%N]).
  set (la := clean (lx_init T)).
  assert (E : l_rest l0 = l_rest la ++ rest).
  { rewrite A. unfold la, T. cbn [clean lx_init l_rest app]. rewrite <- app_assoc. reflexivity. }
  destruct (rrl_rst rest _ (S (length T)) la l0 [] lit l1 E H) as (la1 & Ha & Ra).
  { rewrite E3. reflexivity. }
  { unfold la. cbn [clean lx_init l_rest]. lia. }
  unfold relex_raw. rewrite replace_all_rep. cbn [app]. fold T.
  assert (TS : tstart T) by (split; [reflexivity|discriminate]).
  assert (N : next_token (lx_init T) =
              (new_token_at la1 T_RAW_STRING lit (cur_pos la), read_char la1)).
  { unfold next_token, next_token_with. rewrite rlc_stop by exact TS. fold la.
    rewrite (base_backtick la eq_refl). unfold read_raw_string.
    change (length (l_rest la)) with (length T). rewrite Ha. reflexivity. }
  destruct (tokenize_two T _ _ ltac:(discriminate) N ltac:(discriminate)) as (e & -> & Te).
  { rewrite read_char_rest, Ra. reflexivity. }
  cbn [t_type t_lit new_token_at]. rewrite Te, str_eqb_refl. reflexivity.
Qed.

(* ---------- numbers: scanning the lexeme alone ---------- *)

Lemma read_while_rst p X : forall A col s r col' col2,
  read_while p (A ++ X) col = (s, r, col') -> (length s <= length A)%nat ->
  exists r' c2, read_while p A col2 = (s, r', c2) /\ r = r' ++ X /\ A = s ++ r'.
Proof.
  induction A as [|c A IH]; intros col s r col' col2 H L.
  - cbn [app] in H. destruct s; [|cbn [length] in L; lia].
    apply read_while_inv in H as [_ H]. cbn [app] in H. subst r.
    exists [], col2. repeat split.
  - cbn [app read_while] in *. destruct (p c).
    + destruct (read_while p (A ++ X) (col + 1)) as [[s1 r1] c1] eqn:R. inversion H; subst. clear H.
      cbn [length] in L. destruct (IH _ _ _ _ (col2 + 1) R ltac:(lia)) as (r' & c2 & R' & E1 & E2).
      rewrite R'. exists r', c2. repeat split; [exact E1|cbn [app]; f_equal; exact E2].
    + inversion H; subst. exists (c :: A), col2. repeat split.
Qed.

Lemma lx_read_while_rst X p la lb s lb' : ext X la lb -> lx_read_while p lb = (s, lb') ->
  (length s <= length (l_rest la))%nat ->
  exists la', lx_read_while p la = (s, la') /\ ext X la' lb' /\ l_rest la = s ++ l_rest la'.
Proof.
  unfold ext, lx_read_while. intros E H L.
  destruct (read_while p (l_rest lb) (l_col lb)) as [[s1 r1] c1] eqn:R. inversion H; subst. clear H.
  rewrite E in R. destruct (read_while_rst p X _ _ _ _ _ (l_col la) R L) as (r' & c2 & R' & E1 & E2).
  rewrite R'. eexists. split; [reflexivity|]. cbn [l_rest]. split; assumption.
Qed.

Definition exp_part_of (ip fp : str) (ty1 : Z) (l2 : lx) : str * Z * lx :=
  if ch 101 l2 || ch 69 l2 then
    let e := cur l2 in
    let l3 := read_char l2 in
    let '(sg, l4) := if ch 43 l3 || ch 45 l3 then ([cur l3], read_char l3) else ([], l3) in
    if negb (isDigit (cur l4)) then (ip ++ fp ++ [e] ++ sg, T_FLOAT, l4)
    else
      let '(ed, l5) := lx_read_while isDigit l4 in
      (ip ++ fp ++ [e] ++ sg ++ ed, T_FLOAT, l5)
  else (ip ++ fp, ty1, l2).

Lemma cur_nil l : l_rest l = [] -> cur l = 0%N.
Proof. unfold cur. intros ->. reflexivity. Qed.
Lemma cur_cons l c r : l_rest l = c :: r -> cur l = c.
Proof. unfold cur. intros ->. reflexivity. Qed.

Lemma exp_part_float ip fp ty1 l2 lit ty l' : ch 101 l2 || ch 69 l2 = true ->
  exp_part_of ip fp ty1 l2 = (lit, ty, l') -> ty = T_FLOAT.
Proof.
  intros E H. unfold exp_part_of in H. rewrite E in H. cbv zeta in H.
  destruct (if ch 43 (read_char l2) || ch 45 (read_char l2) then ([cur (read_char l2)], read_char (read_char l2)) else ([], read_char l2)) as [sg l4].
  destruct (negb (isDigit (cur l4))); [inversion H; reflexivity|].
  destruct (lx_read_while isDigit l4) as [ed l5]. inversion H; reflexivity.
Qed.

Ltac lit_eq H H1 := pose proof (f_equal (fun x : str * Z * lx => fst (fst x)) H) as H1; cbn [fst] in H1.

Ltac len_contra H :=
  exfalso; apply (f_equal (@length N)) in H; rewrite ?app_length in H; cbn [length] in H;
  rewrite ?app_length in H; cbn [length] in H; lia.

Lemma read_exp_rst X ip fp ty1 la2 lb2 lit ty lb' : ext X la2 lb2 ->
  exp_part_of ip fp ty1 lb2 = (lit, ty, lb') -> lit = ip ++ fp ++ l_rest la2 ->
  exists la', exp_part_of ip fp ty1 la2 = (lit, ty, la') /\ l_rest la' = [].
Proof.
  intros E H Hl.
  destruct (l_rest la2) as [|c q'] eqn:Q2.
  { (* nothing left *)
    unfold exp_part_of. unfold ch at 1 2. rewrite (cur_nil _ Q2).
    change ((0 =? 101)%N || (0 =? 69)%N) with false. cbn iota.
    destruct (ch 101 lb2 || ch 69 lb2) eqn:Ec.
    - unfold exp_part_of in H. rewrite Ec in H. cbv zeta in H.
      destruct (if ch 43 (read_char lb2) || ch 45 (read_char lb2) then ([cur (read_char lb2)], read_char (read_char lb2)) else ([], read_char lb2)) as [sg l4].
      destruct (negb (isDigit (cur l4))).
      + lit_eq H H1. rewrite Hl in H1. len_contra H1.
      + destruct (lx_read_while isDigit l4) as [ed l5]. lit_eq H H1. rewrite Hl in H1. len_contra H1.
    - unfold exp_part_of in H. rewrite Ec in H. inversion H.
      eexists. split; [|exact Q2]. reflexivity. }
  assert (N2 : l_rest la2 <> []) by (rewrite Q2; discriminate).
  pose proof (ext_cur _ _ _ E N2) as C2. rewrite (cur_cons _ _ _ Q2) in C2.
  destruct (ext_read_char _ _ _ E N2) as [E3 _].
  assert (Q3 : l_rest (read_char la2) = q') by (rewrite read_char_rest, Q2; reflexivity).
  destruct (ch 101 lb2 || ch 69 lb2) eqn:Ec.
  2:{ unfold exp_part_of in H. rewrite Ec in H. lit_eq H H1. rewrite Hl in H1. len_contra H1. }
  pose proof (exp_part_float _ _ _ _ _ _ _ Ec H) as Tf. subst ty.
  assert (Ea : ch 101 la2 || ch 69 la2 = true).
  { unfold ch in *. rewrite (cur_cons _ _ _ Q2). rewrite C2 in Ec. exact Ec. }
  unfold exp_part_of in *. rewrite Ec in H. rewrite Ea. cbv zeta in *.
  rewrite C2 in H. rewrite (cur_cons _ _ _ Q2).
  set (la3 := read_char la2) in *. set (lb3 := read_char lb2) in *.
  destruct q' as [|s q''].
  { (* the exponent letter is the last byte *)
    unfold ch at 1 2. rewrite (cur_nil _ Q3). change ((0 =? 43)%N || (0 =? 45)%N) with false. cbn iota.
    rewrite (cur_nil _ Q3). change (negb (isDigit 0)) with true. cbn iota.
    eexists. split; [|exact Q3]. rewrite Hl. cbn [app]. reflexivity. }
  assert (N3 : l_rest la3 <> []) by (rewrite Q3; discriminate).
  pose proof (ext_cur _ _ _ E3 N3) as C3. rewrite (cur_cons _ _ _ Q3) in C3.
  destruct (ext_read_char _ _ _ E3 N3) as [E4' _].
  assert (Q4' : l_rest (read_char la3) = q'') by (rewrite read_char_rest, Q3; reflexivity).
  (* the sign *)
  assert (Sg : exists sg la4 lb4 q4,
            (if ch 43 la3 || ch 45 la3 then ([cur la3], read_char la3) else ([], la3)) = (sg, la4) /\
            (if ch 43 lb3 || ch 45 lb3 then ([cur lb3], read_char lb3) else ([], lb3)) = (sg, lb4) /\
            ext X la4 lb4 /\ l_rest la4 = q4 /\ s :: q'' = sg ++ q4).
  { unfold ch. rewrite C3, (cur_cons _ _ _ Q3).
    destruct ((s =? 43)%N || (s =? 45)%N).
    - exists [s], (read_char la3), (read_char lb3), q''. repeat split; assumption.
    - exists [], la3, lb3, (s :: q''). repeat split; assumption. }
  destruct Sg as (sg & la4 & lb4 & q4 & S1 & S2 & E4 & Q4 & Hs).
  rewrite S1. rewrite S2 in H. rewrite Hs in Hl.
  destruct q4 as [|d q5].
  { rewrite (cur_nil _ Q4). change (negb (isDigit 0)) with true. cbn iota.
    eexists. split; [|exact Q4]. rewrite Hl, app_nil_r. reflexivity. }
  assert (N4 : l_rest la4 <> []) by (rewrite Q4; discriminate).
  pose proof (ext_cur _ _ _ E4 N4) as C4. rewrite (cur_cons _ _ _ Q4) in C4.
  rewrite (cur_cons _ _ _ Q4). rewrite C4 in H.
  destruct (negb (isDigit d)).
  { lit_eq H H1. rewrite Hl in H1. len_contra H1. }
  destruct (lx_read_while isDigit lb4) as [ed lb5] eqn:W. lit_eq H H1.
  rewrite Hl in H1. do 2 apply app_inv_head in H1. cbn [app] in H1. injection H1 as H1.
  apply app_inv_head in H1. subst ed.
  destruct (lx_read_while_rst _ _ _ _ _ _ E4 W ltac:(rewrite Q4; lia)) as (la5 & W5 & E5 & R5).
  rewrite W5. eexists. split.
  - rewrite Hl. reflexivity.
  - rewrite Q4 in R5. rewrite <- (app_nil_r (d :: q5)) in R5 at 1. apply app_inv_head in R5. symmetry. exact R5.
Qed.

Lemma read_based_rst X isd la lb lit lb' : ext X la lb -> read_based_number isd lb = (lit, lb') ->
  l_rest la = lit -> exists la', read_based_number isd la = (lit, la') /\ l_rest la' = [].
Proof.
  intros E H Hl. unfold read_based_number in *.
  destruct (lx_read_while isd (read_char (read_char lb))) as [ds lb3] eqn:W.
  pose proof (f_equal fst H) as H1. cbn [fst] in H1.
  rewrite <- H1 in Hl.
  assert (N1 : l_rest la <> []) by (rewrite Hl; discriminate).
  destruct (ext_read_char _ _ _ E N1) as [E1 _].
  assert (R1 : l_rest (read_char la) = cur (read_char lb) :: ds) by (rewrite read_char_rest, Hl; reflexivity).
  assert (N2 : l_rest (read_char la) <> []) by (rewrite R1; discriminate).
  destruct (ext_read_char _ _ _ E1 N2) as [E2 _].
  assert (R2 : l_rest (read_char (read_char la)) = ds) by (rewrite read_char_rest, R1; reflexivity).
  destruct (lx_read_while_rst _ _ _ _ _ _ E2 W ltac:(rewrite R2; lia)) as (la3 & W3 & E3 & R3).
  rewrite W3, (cur_cons _ _ _ Hl), (cur_cons _ _ _ R1). eexists. split; [rewrite H1; reflexivity|].
  rewrite R2 in R3. rewrite <- (app_nil_r ds) in R3 at 1. apply app_inv_head in R3. symmetry. exact R3.
Qed.

Lemma based_test_false X la lb a b : ext X la lb -> l_rest la <> [] -> a <> 0%N -> b <> 0%N ->
  ch 48 lb && (N.eqb (peek lb) a || N.eqb (peek lb) b) = false ->
  ch 48 la && (N.eqb (peek la) a || N.eqb (peek la) b) = false.
Proof.
  intros E N Ha Hb H. unfold ch in *. rewrite (ext_cur _ _ _ E N) in H.
  destruct (l_rest la) as [|c [|d r]] eqn:R; [congruence| |].
  - destruct (ext_peek_one _ _ _ _ E R) as [-> _].
    replace (N.eqb 0 a) with false by (symmetry; apply N.eqb_neq; congruence).
    replace (N.eqb 0 b) with false by (symmetry; apply N.eqb_neq; congruence).
    apply andb_false_r.
  - rewrite (ext_peek _ _ _ _ _ _ E R) in H. exact H.
Qed.

Lemma based_test_true X la lb a b c d r : ext X la lb -> l_rest la = c :: d :: r ->
  ch 48 lb && (N.eqb (peek lb) a || N.eqb (peek lb) b) = true ->
  ch 48 la && (N.eqb (peek la) a || N.eqb (peek la) b) = true.
Proof.
  intros E R H. unfold ch in *.
  rewrite (ext_cur _ _ _ E ltac:(rewrite R; discriminate)), (ext_peek _ _ _ _ _ _ E R) in H. exact H.
Qed.

Lemma based_two isd lb lit lb' : read_based_number isd lb = (lit, lb') -> exists c d r, lit = c :: d :: r.
Proof.
  unfold read_based_number. destruct (lx_read_while isd (read_char (read_char lb))) as [ds l3].
  intro H. inversion H. eauto.
Qed.

Lemma read_number_unfold l : read_number l =
  if ch 48 l && (N.eqb (peek l) 120 || N.eqb (peek l) 88) then
    let '(s, l') := read_based_number isHexDigit l in (s, T_INT, l')
  else if ch 48 l && (N.eqb (peek l) 98 || N.eqb (peek l) 66) then
    let '(s, l') := read_based_number isBinaryDigit l in (s, T_INT, l')
  else if ch 48 l && (N.eqb (peek l) 111 || N.eqb (peek l) 79) then
    let '(s, l') := read_based_number isOctalDigit l in (s, T_INT, l')
  else
    let '(ip, l1) := lx_read_while isDigit l in
    let '(fp, ty1, l2) :=
      if ch 46 l1 then
        let ldot := read_char l1 in
        let '(fd, l2) := lx_read_while isDigit ldot in
        (46%N :: fd, T_FLOAT, l2)
      else ([], T_INT, l1) in
    exp_part_of ip fp ty1 l2.
Proof. reflexivity. Qed.

Lemma exp_part_prefix ip fp ty1 l2 lit ty l' : exp_part_of ip fp ty1 l2 = (lit, ty, l') ->
  exists q, lit = ip ++ fp ++ q.
Proof. intro H. apply read_exp_spec in H as (q & -> & _). eauto. Qed.

Lemma read_number_rst X la lb lit ty lb' : ext X la lb -> l_rest la = lit -> lit <> [] ->
  read_number lb = (lit, ty, lb') -> exists la', read_number la = (lit, ty, la') /\ l_rest la' = [].
Proof.
  intros E Hl Nl H. rewrite read_number_unfold in *.
  assert (N0 : l_rest la <> []) by (rewrite Hl; exact Nl).
  (* the three based forms *)
  destruct (ch 48 lb && (N.eqb (peek lb) 120 || N.eqb (peek lb) 88)) eqn:B1.
  { destruct (read_based_number isHexDigit lb) as [s1 l1] eqn:RB. inversion H; subst s1 ty l1. clear H.
    destruct (based_two _ _ _ _ RB) as (c & d & r & Hc). rewrite Hc in Hl.
    rewrite (based_test_true _ _ _ _ _ _ _ _ E Hl B1). rewrite <- Hc in Hl.
    destruct (read_based_rst _ _ _ _ _ _ E RB Hl) as (la' & -> & R'). eauto. }
  rewrite (based_test_false _ _ _ 120%N 88%N E N0 ltac:(discriminate) ltac:(discriminate) B1).
  destruct (ch 48 lb && (N.eqb (peek lb) 98 || N.eqb (peek lb) 66)) eqn:B2.
  { destruct (read_based_number isBinaryDigit lb) as [s1 l1] eqn:RB. inversion H; subst s1 ty l1. clear H.
    destruct (based_two _ _ _ _ RB) as (c & d & r & Hc). rewrite Hc in Hl.
    rewrite (based_test_true _ _ _ _ _ _ _ _ E Hl B2). rewrite <- Hc in Hl.
    destruct (read_based_rst _ _ _ _ _ _ E RB Hl) as (la' & -> & R'). eauto. }
  rewrite (based_test_false _ _ _ 98%N 66%N E N0 ltac:(discriminate) ltac:(discriminate) B2).
  destruct (ch 48 lb && (N.eqb (peek lb) 111 || N.eqb (peek lb) 79)) eqn:B3.
  { destruct (read_based_number isOctalDigit lb) as [s1 l1] eqn:RB. inversion H; subst s1 ty l1. clear H.
    destruct (based_two _ _ _ _ RB) as (c & d & r & Hc). rewrite Hc in Hl.
    rewrite (based_test_true _ _ _ _ _ _ _ _ E Hl B3). rewrite <- Hc in Hl.
    destruct (read_based_rst _ _ _ _ _ _ E RB Hl) as (la' & -> & R'). eauto. }
  rewrite (based_test_false _ _ _ 111%N 79%N E N0 ltac:(discriminate) ltac:(discriminate) B3).
  clear B1 B2 B3.
  (* decimal *)
  destruct (lx_read_while isDigit lb) as [ip lb1] eqn:W1.
  destruct (ch 46 lb1) eqn:Fc.
  - destruct (lx_read_while isDigit (read_char lb1)) as [fd lb2] eqn:W2.
    cbv zeta in H. rewrite W2 in H.
    destruct (exp_part_prefix _ _ _ _ _ _ _ H) as (q & Hq).
    destruct (lx_read_while_rst _ _ _ _ _ _ E W1
                ltac:(rewrite Hl, Hq, app_length; lia)) as (la1 & W1a & E1 & R1).
    rewrite W1a. rewrite Hl, Hq in R1. apply app_inv_head in R1. cbn [app] in R1.
    assert (N1 : l_rest la1 <> []) by (rewrite <- R1; discriminate).
    assert (Fa : ch 46 la1 = true).
    { unfold ch in *. rewrite <- (ext_cur _ _ _ E1 N1). exact Fc. }
    rewrite Fa. destruct (ext_read_char _ _ _ E1 N1) as [Ed _].
    assert (Rd : l_rest (read_char la1) = fd ++ q) by (rewrite read_char_rest, <- R1; reflexivity).
    destruct (lx_read_while_rst _ _ _ _ _ _ Ed W2 ltac:(rewrite Rd, app_length; lia)) as (la2 & W2a & E2 & R2).
    cbv zeta. rewrite W2a. rewrite Rd in R2. apply app_inv_head in R2.
    apply (read_exp_rst X _ _ _ _ _ _ _ _ E2 H). rewrite <- R2. exact Hq.
  - destruct (exp_part_prefix _ _ _ _ _ _ _ H) as (q & Hq). cbn [app] in Hq.
    destruct (lx_read_while_rst _ _ _ _ _ _ E W1
                ltac:(rewrite Hl, Hq, app_length; lia)) as (la1 & W1a & E1 & R1).
    rewrite W1a. rewrite Hl, Hq in R1. apply app_inv_head in R1.
    assert (Fa : ch 46 la1 = false).
    { unfold ch in *. destruct (l_rest la1) as [|c r] eqn:Q1.
      - rewrite (cur_nil _ Q1). reflexivity.
      - rewrite <- (ext_cur _ _ _ E1 ltac:(rewrite Q1; discriminate)). exact Fc. }
    rewrite Fa.
    apply (read_exp_rst X _ _ _ _ _ _ _ _ E1 H). rewrite <- R1. exact Hq.
Qed.

Lemma relex_number_intro l0 lit ty l1 : at_eof l0 = false -> isLetter (cur l0) = false -> isDigit (cur l0) = true ->
  read_number l0 = (lit, ty, l1) -> relex_word ty lit = true.
Proof.
  intros Ne HL HD H.
  destruct (read_number_spec _ _ _ _ Ne HD H) as ((A & _ & _) & Nl & Ty).
  assert (C : cur l0 = hd 0%N lit).
  { unfold cur. rewrite A. destruct lit; [congruence|reflexivity]. }
  rewrite C in HL, HD.
  destruct lit as [|c lit']; [congruence|]. cbn [hd] in HL, HD. set (lit := c :: lit') in *.
  destruct (digit_facts c HD) as (F1 & F2 & F3 & _).
  assert (TS : tstart lit) by (split; [exact F1|intro; congruence]).
  set (la := clean (lx_init lit)).
  assert (E : ext (l_rest l1) la l0) by (unfold ext; rewrite A; reflexivity).
  destruct (read_number_rst _ la l0 lit ty l1 E eq_refl Nl H) as (la' & Ha & Ra).
  assert (N : next_token (lx_init lit) = (new_token_at la' ty lit (cur_pos la), la')).
  { unfold next_token, next_token_with. rewrite rlc_stop by exact TS. fold la.
    rewrite base_digit by assumption. cbv zeta. rewrite Ha. reflexivity. }
  apply (relex_word_intro _ _ _ _ Nl N); try reflexivity; [|exact Ra].
  destruct Ty; subst ty; discriminate.
Qed.

(* ---------- every token of the scanner ---------- *)

Lemma lookup_not ty s : Forall (fun kv : str * Z => snd kv <> ty) token_keywords -> T_IDENT <> ty ->
  lookup_ident token_keywords s <> ty.
Proof. intros F H. apply lookup_ident_ne; assumption. Qed.

Ltac kw_forall := unfold token_keywords; repeat constructor; discriminate.

Lemma base_lex_letter l : at_eof l = false -> isLetter (cur l) = true ->
  lex_clause (fst (base_next_token l)) = true.
Proof.
  intros Ae HL. rewrite (base_letter l HL). cbv zeta.
  destruct (read_identifier l) as [lit l1] eqn:RI. cbn [fst]. unfold lex_clause, new_token_at. cbn [t_type t_lit].
  unfold read_identifier, lx_read_while in RI.
  destruct (read_while is_ident_char (l_rest l) (l_col l)) as [[s r] col] eqn:RW. inversion RI; subst s l1. clear RI.
  destruct (at_eof_false l Ae) as [r0 Hr]. rewrite Hr in RW. cbn [read_while] in RW.
  assert (IC : is_ident_char (cur l) = true) by (unfold is_ident_char; rewrite HL; reflexivity).
  rewrite IC in RW. destruct (read_while is_ident_char r0 (l_col l + 1)) as [[s1 r1] c1] eqn:RW1.
  inversion RW; subst lit r col. clear RW. apply read_while_inv in RW1 as [All _].
  pose proof (relex_ident_intro (cur l :: s1) HL ltac:(cbn [forallb]; rewrite IC, All; reflexivity)) as RX.
  set (ty := lookup_ident token_keywords (cur l :: s1)) in *.
  assert (N1 : ty <> T_INT) by (apply lookup_not; [kw_forall|discriminate]).
  assert (N2 : ty <> T_FLOAT) by (apply lookup_not; [kw_forall|discriminate]).
  assert (N3 : ty <> T_STRING) by (apply lookup_not; [kw_forall|discriminate]).
  assert (N4 : ty <> T_RAW_STRING) by (apply lookup_not; [kw_forall|discriminate]).
  assert (N5 : ty <> T_EOF) by (apply lookup_not; [kw_forall|discriminate]).
  destruct (Z.eqb_spec ty T_IDENT) as [Q|_]; [rewrite Q in RX; exact RX|].
  destruct (Z.eqb_spec ty T_INT); [contradiction|].
  destruct (Z.eqb_spec ty T_FLOAT); [contradiction|].
  destruct (Z.eqb_spec ty T_STRING); [contradiction|].
  destruct (Z.eqb_spec ty T_RAW_STRING); [contradiction|].
  destruct (Z.eqb_spec ty T_EOF); [contradiction|]. reflexivity.
Qed.

Lemma base_lex_digit l : at_eof l = false -> isLetter (cur l) = false -> isDigit (cur l) = true ->
  lex_clause (fst (base_next_token l)) = true.
Proof.
  intros Ae HL HD. rewrite (base_digit l HL HD). cbv zeta.
  destruct (read_number l) as [[lit ty] l1] eqn:RN. cbn [fst]. unfold lex_clause, new_token_at. cbn [t_type t_lit].
  pose proof (relex_number_intro _ _ _ _ Ae HL HD RN) as RX.
  destruct (read_number_spec _ _ _ _ Ae HD RN) as (_ & _ & [-> | ->]); exact RX.
Qed.

Lemma string_token_lex l ty r start : ty = T_STRING ->
  string_stable (fst (string_token l ty r start)) = true ->
  lex_clause (fst (string_token l ty r start)) = true.
Proof.
  intros -> SS. unfold string_token in *. destruct r as [[lit term] l1]. cbn [fst] in *.
  unfold lex_clause, string_stable, new_token_at in *. cbn [t_type t_lit] in *.
  destruct term; [|reflexivity]. exact SS.
Qed.

Lemma raw_token_lex l : cur l = 96%N ->
  lex_clause (fst (string_token l T_RAW_STRING (read_raw_string l) (cur_pos l))) = true.
Proof.
  intro C. unfold string_token. destruct (read_raw_string l) as [[lit term] l1] eqn:RR. cbn [fst].
  unfold lex_clause, new_token_at. cbn [t_type t_lit].
  destruct term; [|reflexivity]. exact (relex_raw_intro _ _ _ C RR).
Qed.

Lemma base_lex l : string_stable (fst (base_next_token l)) = true ->
  lex_clause (fst (base_next_token l)) = true.
Proof.
  destruct (at_eof l) eqn:Ae.
  { rewrite (base_next_token_eof l Ae). reflexivity. }
  destruct (isLetter (cur l)) eqn:HL.
  { intros _. apply base_lex_letter; assumption. }
  destruct (isDigit (cur l)) eqn:HD.
  { intros _. apply base_lex_digit; assumption. }
  unfold base_next_token. cbv zeta.
  repeat match goal with
  | |- context [if N.eqb ?a ?b then _ else _] => destruct (N.eqb_spec a b)
  end; intro SS; try reflexivity.
  - apply string_token_lex; [reflexivity|exact SS].
  - apply string_token_lex; [reflexivity|exact SS].
  - apply raw_token_lex. assumption.
  - rewrite Ae. reflexivity.
  - rewrite HL, HD. reflexivity.
Qed.

Lemma next_token_lex l : string_stable (fst (next_token l)) = true -> tok_lex (fst (next_token l)) = true.
Proof.
  intro SS. rewrite tok_lex_eq, next_token_canonical. cbn [andb].
  unfold next_token, next_token_with in *. apply base_lex. exact SS.
Qed.

Lemma tokenize_from_lex : forall f l toks,
  tokenize_from f l = Some toks -> strings_stable toks = true -> forallb tok_lex toks = true.
Proof.
  induction f as [|f IH]; intros l toks H SS; cbn [tokenize_from] in H; [discriminate H|].
  pose proof (next_token_lex l) as Hc.
  destruct (next_token l) as [t l']. cbn [fst] in Hc.
  destruct (t_type t =? T_EOF).
  - inversion H; subst toks. unfold strings_stable in SS. cbn [forallb] in *.
    apply andb_true_iff in SS as [S1 _]. rewrite (Hc S1). reflexivity.
  - destruct (tokenize_from f l') as [ts|] eqn:E; [|discriminate H].
    inversion H; subst toks. unfold strings_stable in SS. cbn [forallb] in *.
    apply andb_true_iff in SS as [S1 S2]. rewrite (Hc S1), (IH l' ts E S2). reflexivity.
Qed.

(* (B) *)
Theorem lexed_tokens_lexical : forall src toks,
  tokenize src = Some toks -> strings_stable toks = true -> forallb tok_lex toks = true.
Proof. intros src toks H SS. exact (tokenize_from_lex _ _ _ H SS). Qed.

(* ================================================================== *)
(* 9. the round trip                                                   *)
(* ================================================================== *)

Theorem program_round_trip_compact : forall src toks p,
  tokenize src = Some toks -> strings_stable toks = true ->
  m_program p toks = true -> wf_program p = true ->
  exists r, reparse_compact p = Some r /\ pr_errors r = [] /\
            shape_program (pr_program r) = shape_program p.
Proof.
  intros src toks p Ht SS Hm Hw.
  exact (round_trip_lexical p toks (lexed_tokens_lexical src toks Ht SS) Hm Hw).
Qed.

Print Assumptions program_round_trip_compact.
