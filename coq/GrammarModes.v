(* GrammarModes.v -- SPECIFICATION of the two optional parser modes (C13), as variants of
   the token-level grammar of Grammar.v (the matchers below are Grammar.v's, with the
   differences marked):
   * smart semicolons: a '(' or '[' that is the first token of a line does not continue an
     expression - no call / computed member across that line break - and a statement may
     end in front of it by automatic semicolon insertion, exactly as if a ';' preceded it;
   * tolerant: a statement that ends in an expression (or `let x`) may end, without ';' and
     without a line break, in front of any token that cannot continue it (two statements on
     one line); a block may be left open at the end of the input.
   With both flags off the matchers are Grammar.v's (GrammarModesProofs: modes_off).
   The level discipline [wf_program] is unchanged. *)
Require Import Base GoOps Token Tree Parser Grammar.
Require Import Gen.Tables.

Section Modes.
Variables smart tolerant : bool.

(* can this token continue an expression that is complete so far?  (the operators,
   call and member brackets; postfix ++/-- only on the same line) *)
Definition continues_expressionM (t : token) : bool :=
  let ty := t_type t in
  match binop_level ty with
  | Some _ => true
  | None =>
      (ty =? T_ASSIGN) || (ty =? T_PLUS_ASSIGN) || (ty =? T_MINUS_ASSIGN)
      || (((ty =? T_LPAREN) || (ty =? T_LBRACKET)) && negb (smart && t_nl t)) || (ty =? T_DOT)
      || (((ty =? T_INCREMENT) || (ty =? T_DECREMENT)) && negb (t_nl t))
  end.

(* automatic semicolon insertion in front of token [next], after a statement that ends
   in an expression: at '}' and at the end of input; or after a line terminator when
   [next] cannot continue the expression *)
Definition asi_after_expressionM (next : token) : bool :=
  (t_type next =? T_EOF) || (t_type next =? T_RBRACE)
  || (t_nl next && negb (continues_expressionM next))
  || (tolerant && negb (continues_expressionM next)).

(* after `let x` without initializer only '=' could continue *)
Definition asi_after_let_nameM (next : token) : bool :=
  (t_type next =? T_EOF) || (t_type next =? T_RBRACE)
  || (t_nl next && negb (t_type next =? T_ASSIGN))
  || (tolerant && negb (t_type next =? T_ASSIGN)).

(* after a bare `return`: restricted production, any line terminator ends it *)
Definition asi_after_returnM (next : token) : bool :=
  (t_type next =? T_EOF) || (t_type next =? T_RBRACE) || t_nl next.

Section Match.
  (* open recursion on the tree, closed below with the nested lists *)
  Variable m_exprM : expr -> list token -> option (list token).
  Variable m_stmtM : stmt -> token -> list token -> option (list token).

  Fixpoint m_exprsM (es : list expr) (ts : list token) : option (list token) :=
    match es with
    | [] => Some ts
    | [e] => m_exprM e ts
    | e :: es' =>
        match m_exprM e ts with
        | Some r => match eat T_COMMA r with Some (_, r') => m_exprsM es' r' | None => None end
        | None => None
        end
    end.

  Fixpoint m_propsM (ps : list (expr * expr)) (ts : list token) : option (list token) :=
    match ps with
    | [] => Some ts
    | (k, v) :: ps' =>
        if negb (key_ok k) then None else
        match m_exprM k ts with
        | None => None
        | Some r1 =>
            match eat T_COLON r1 with
            | None => None
            | Some (_, r2) =>
                match m_exprM v r2 with
                | None => None
                | Some r3 =>
                    match ps' with
                    | [] => Some r3
                    | _ => match eat T_COMMA r3 with Some (_, r4) => m_propsM ps' r4 | None => None end
                    end
                end
            end
        end
    end.

  (* a statement list; [next] is the token that follows the list (closing brace or end
     of input); each statement sees the token that follows IT *)
  Fixpoint m_stmtsM (ss : list stmt) (next : token) (ts : list token) : option (list token) :=
    match ss with
    | [] => Some ts
    | s :: ss' =>
        (* the statement needs to know its follower: match it against every split is not
           needed - the statement matcher takes the follower lazily from what remains *)
        match m_stmtM s next ts with
        | Some r => m_stmtsM ss' next r
        | None => None
        end
    end.
End Match.

(* statement end: explicit ';' or automatic insertion judged by [asi] on the follower *)
Definition m_endM (asi : token -> bool) (next : token) (ts : list token) : option (list token) :=
  match ts with
  | t :: r => if t_type t =? T_SEMICOLON then Some r
              else if asi t then Some ts else None
  | [] => if asi next then Some [] else None
  end.

Fixpoint m_exprM (e : expr) (ts : list token) {struct e} : option (list token) :=
  match e with
  | ENil => None
  | EIdent i => m_ident i ts
  | EInt t => if (t_type t =? T_INT) && go_int_ok (t_lit t) then eat_tok t ts else None
  | EFloat t => if (t_type t =? T_FLOAT) && go_float_ok (t_lit t) then eat_tok t ts else None
  | EString t v => if (t_type t =? T_STRING) && str_eqb v (t_lit t) then eat_tok t ts else None
  | ERaw t v => if (t_type t =? T_RAW_STRING) && str_eqb v (t_lit t) then eat_tok t ts else None
  | EBool t b =>
      if ((t_type t =? T_TRUE) || (t_type t =? T_FALSE)) && Bool.eqb b (t_type t =? T_TRUE)
      then eat_tok t ts else None
  | ENull t => if t_type t =? T_NULL then eat_tok t ts else None
  | ELet t name v =>
      if negb (t_type t =? T_LET) then None else
      match eat_tok t ts with
      | None => None
      | Some r1 =>
          match m_ident name r1 with
          | None => None
          | Some r2 =>
              match v with
              | ENil => Some r2
              | _ => match eat T_ASSIGN r2 with Some (_, r3) => m_exprM v r3 | None => None end
              end
          end
      end
  | EBinary t l op r =>
      match binop_level (t_type t) with
      | None => None
      | Some _ =>
          if negb (str_eqb op (t_lit t)) then None else
          match m_exprM l ts with
          | None => None
          | Some r1 => match eat_tok t r1 with Some r2 => m_exprM r r2 | None => None end
          end
      end
  | EUnary t op r =>
      if negb ((t_type t =? T_NOT) || (t_type t =? T_MINUS) || (t_type t =? T_INCREMENT) || (t_type t =? T_DECREMENT))
         || negb (str_eqb op (t_lit t)) then None
      else match eat_tok t ts with Some r1 => m_exprM r r1 | None => None end
  | EPostfix t l op =>
      if negb ((t_type t =? T_INCREMENT) || (t_type t =? T_DECREMENT)) || negb (str_eqb op (t_lit t))
         || t_nl t then None
      else match m_exprM l ts with Some r1 => eat_tok t r1 | None => None end
  | EGroup lp e rp =>
      if negb (t_type lp =? T_LPAREN) || negb (t_type rp =? T_RPAREN) then None else
      match eat_tok lp ts with
      | None => None
      | Some r1 => match m_exprM e r1 with Some r2 => eat_tok rp r2 | None => None end
      end
  | ECall lp f args =>
      if negb (t_type lp =? T_LPAREN) || (smart && t_nl lp) then None else
      match m_exprM f ts with
      | None => None
      | Some r1 =>
          match eat_tok lp r1 with
          | None => None
          | Some r2 =>
              match m_exprsM m_exprM args r2 with
              | Some r3 => match eat T_RPAREN r3 with Some (_, r4) => Some r4 | None => None end
              | None => None
              end
          end
      end
  | EMember t o p computed =>
      match m_exprM o ts with
      | None => None
      | Some r1 =>
          if computed then
            if negb (t_type t =? T_LBRACKET) || (smart && t_nl t) then None else
            match eat_tok t r1 with
            | None => None
            | Some r2 =>
                match m_exprM p r2 with
                | Some r3 => match eat T_RBRACKET r3 with Some (_, r4) => Some r4 | None => None end
                | None => None
                end
            end
          else
            if negb (t_type t =? T_DOT) then None else
            match eat_tok t r1, p with
            | Some r2, EIdent i => m_ident i r2
            | _, _ => None
            end
      end
  | EAssign t l v =>
      if negb (t_type t =? T_ASSIGN) then None else
      match m_exprM l ts with
      | None => None
      | Some r1 => match eat_tok t r1 with Some r2 => m_exprM v r2 | None => None end
      end
  | ECompound t l op v =>
      let want := if t_type t =? T_PLUS_ASSIGN then Some [43%N]
                  else if t_type t =? T_MINUS_ASSIGN then Some [45%N] else None in
      match want with
      | None => None
      | Some w =>
          if negb (str_eqb op w) then None else
          match m_exprM l ts with
          | None => None
          | Some r1 => match eat_tok t r1 with Some r2 => m_exprM v r2 | None => None end
          end
      end
  | EFunc t name params body =>
      if negb (t_type t =? T_FUNCTION) then None else
      match eat_tok t ts with
      | None => None
      | Some r1 =>
          match (match name with Some n => m_ident n r1 | None => Some r1 end) with
          | None => None
          | Some r2 =>
              match eat T_LPAREN r2 with
              | None => None
              | Some (_, r3) =>
                  match m_params params r3 with
                  | None => None
                  | Some r4 =>
                      match eat T_RPAREN r4 with
                      | None => None
                      | Some (_, r5) =>
                          (* the body block does not look at its follower *)
                          match body with
                          | SBlock _ _ _ => m_stmtM body zero_token r5
                          | _ => None
                          end
                      end
                  end
              end
          end
      end
  | EArray lb es rb =>
      if negb (t_type lb =? T_LBRACKET) || negb (t_type rb =? T_RBRACKET) then None else
      match eat_tok lb ts with
      | None => None
      | Some r1 => match m_exprsM m_exprM es r1 with Some r2 => eat_tok rb r2 | None => None end
      end
  | EObject lb ps rb =>
      if negb (t_type lb =? T_LBRACE) then None else
      match eat_tok lb ts with
      | None => None
      | Some r1 =>
          match ps with
          | [] => (* the parser does not keep the closing brace of an empty literal *)
              if tok_eqb rb zero_token then
                match eat T_RBRACE r1 with Some (_, r2) => Some r2 | None => None end
              else None
          | _ =>
              if negb (t_type rb =? T_RBRACE) then None else
              match m_propsM m_exprM ps r1 with Some r2 => eat_tok rb r2 | None => None end
          end
      end
  end
(* [next] = the token after the enclosing statement list (used when the statement is
   the last thing before it) *)
with m_stmtM (s : stmt) (next : token) (ts : list token) {struct s} : option (list token) :=
  match s with
  | SNil => None
  | SLet t name v =>
      if negb (t_type t =? T_LET) then None else
      match eat_tok t ts with
      | None => None
      | Some r1 =>
          match m_ident name r1 with
          | None => None
          | Some r2 =>
              match v with
              | ENil => m_endM asi_after_let_nameM next r2
              | _ =>
                  match eat T_ASSIGN r2 with
                  | Some (_, r3) =>
                      match m_exprM v r3 with
                      | Some r4 => m_endM asi_after_expressionM next r4
                      | None => None
                      end
                  | None => None
                  end
              end
          end
      end
  | SReturn t v =>
      if negb (t_type t =? T_RETURN) then None else
      match eat_tok t ts with
      | None => None
      | Some r1 =>
          match v with
          | ENil => m_endM asi_after_returnM next r1
          | _ =>
              (* restricted production: the operand starts on the same line *)
              match r1 with
              | f :: _ =>
                  if t_nl f then None else
                  match m_exprM v r1 with
                  | Some r2 => m_endM asi_after_expressionM next r2
                  | None => None
                  end
              | [] => None
              end
          end
      end
  | SExpr e =>
      match ts with
      | f :: _ =>
          if statement_keyword (t_type f) then None else
          match m_exprM e ts with
          | Some r => m_endM asi_after_expressionM next r
          | None => None
          end
      | [] => None
      end
  | SFunc t name params body =>
      if negb (t_type t =? T_FUNCTION) then None else
      match eat_tok t ts with
      | None => None
      | Some r1 =>
          match m_ident name r1 with
          | None => None
          | Some r2 =>
              match eat T_LPAREN r2 with
              | None => None
              | Some (_, r3) =>
                  match m_params params r3 with
                  | None => None
                  | Some r4 =>
                      match eat T_RPAREN r4 with
                      | None => None
                      | Some (_, r5) =>
                          match body with
                          | SBlock _ _ _ => m_stmtM body zero_token r5
                          | _ => None
                          end
                      end
                  end
              end
          end
      end
  | SBlock lb ss rb =>
      if negb (t_type lb =? T_LBRACE) then None else
      if t_type rb =? T_RBRACE then
        match eat_tok lb ts with
        | None => None
        | Some r1 =>
            match m_stmtsM m_stmtM ss rb r1 with
            | Some r2 => eat_tok rb r2
            | None => None
            end
        end
      else if tolerant && (t_type rb =? T_EOF) then
        (* tolerant mode: a block left open at the end of the input; its closing token is
           the end-of-input token, which stays for the enclosing constructs - as the lexer
           answers it when asked again: without its trivia (C10_eof_stable) *)
        match eat_tok lb ts with
        | None => None
        | Some r1 =>
            match m_stmtsM m_stmtM ss rb r1 with
            | Some [e] => if tok_eqb e rb then Some [eof_again e] else None
            | _ => None
            end
        end
      else None
  | SIf t c thn els =>
      if negb (t_type t =? T_IF) then None else
      match eat_tok t ts with
      | None => None
      | Some r1 =>
          match eat T_LPAREN r1 with
          | None => None
          | Some (_, r2) =>
              match m_exprM c r2 with
              | None => None
              | Some r3 =>
                  match eat T_RPAREN r3 with
                  | None => None
                  | Some (_, r4) =>
                      match m_stmtM thn next r4 with
                      | None => None
                      | Some r5 =>
                          match els with
                          | SNil => Some r5
                          | _ =>
                              match eat T_ELSE r5 with
                              | Some (_, r6) => m_stmtM els next r6
                              | None => None
                              end
                          end
                      end
                  end
              end
          end
      end
  | SWhile t c body =>
      if negb (t_type t =? T_WHILE) then None else
      match eat_tok t ts with
      | None => None
      | Some r1 =>
          match eat T_LPAREN r1 with
          | None => None
          | Some (_, r2) =>
              match m_exprM c r2 with
              | None => None
              | Some r3 =>
                  match eat T_RPAREN r3 with
                  | Some (_, r4) => m_stmtM body next r4
                  | None => None
                  end
              end
          end
      end
  | SFor t init cond upd body =>
      if negb (t_type t =? T_FOR) then None else
      match eat_tok t ts with
      | None => None
      | Some r1 =>
          match eat T_LPAREN r1 with
          | None => None
          | Some (_, r2) =>
              match (match init with ENil => Some r2 | _ => m_exprM init r2 end) with
              | None => None
              | Some r3 =>
                  match eat T_SEMICOLON r3 with
                  | None => None
                  | Some (_, r4) =>
                      match (match cond with ENil => Some r4 | _ => m_exprM cond r4 end) with
                      | None => None
                      | Some r5 =>
                          match eat T_SEMICOLON r5 with
                          | None => None
                          | Some (_, r6) =>
                              match (match upd with ENil => Some r6 | _ => m_exprM upd r6 end) with
                              | None => None
                              | Some r7 =>
                                  match eat T_RPAREN r7 with
                                  | Some (_, r8) => m_stmtM body next r8
                                  | None => None
                                  end
                              end
                          end
                      end
                  end
              end
          end
      end
  end.

(* a program: the statements, then exactly the end-of-input token *)
Definition m_programM (p : program) (toks : list token) : bool :=
  (t_type (p_eof p) =? T_EOF) &&
  match m_stmtsM m_stmtM (p_stmts p) (p_eof p) toks with
  | Some [e] => tok_eqb e (p_eof p)
  | _ => false
  end.

End Modes.
