(* StringValue.v -- specification: the value a JavaScript string literal denotes
   (ECMA-262 12.9.4, "SV"), over UTF-8 source bytes, as a list of UTF-16 code units.
   Written from the standard; shares no code with the lexer model.  [None] = the
   text is not a valid string literal body (including legacy octal escapes, which
   are errors in strict mode and template literals and are kept outside the subset). *)
Require Import Base.

Definition is_hex (c : N) : bool :=
  ((48 <=? c) && (c <=? 57) || (97 <=? c) && (c <=? 102) || (65 <=? c) && (c <=? 70))%N.
Definition hex_val (c : N) : Z :=
  if ((48 <=? c) && (c <=? 57))%N then Z.of_N c - 48
  else if ((97 <=? c) && (c <=? 102))%N then Z.of_N c - 87
  else Z.of_N c - 55.
Definition is_dec (c : N) : bool := ((48 <=? c) && (c <=? 57))%N.

(* continuation byte 10xxxxxx *)
Definition is_cont (c : N) : bool := ((128 <=? c) && (c <=? 191))%N.
Definition cont_bits (c : N) : Z := Z.of_N c - 128.

(* one code point of well-formed UTF-8 (Unicode 3.9, Table 3-7): shortest form only,
   no surrogates, at most U+10FFFF *)
Definition utf8_decode1 (s : str) : option (Z * str) :=
  match s with
  | [] => None
  | b0 :: r =>
      if (b0 <? 128)%N then Some (Z.of_N b0, r)
      else if ((194 <=? b0) && (b0 <=? 223))%N then
        match r with
        | b1 :: r1 => if is_cont b1 then Some ((Z.of_N b0 - 192) * 64 + cont_bits b1, r1) else None
        | _ => None
        end
      else if ((224 <=? b0) && (b0 <=? 239))%N then
        match r with
        | b1 :: b2 :: r2 =>
            if is_cont b1 && is_cont b2 then
              let cp := (Z.of_N b0 - 224) * 4096 + cont_bits b1 * 64 + cont_bits b2 in
              if (cp <? 2048) || ((55296 <=? cp) && (cp <=? 57343)) then None else Some (cp, r2)
            else None
        | _ => None
        end
      else if ((240 <=? b0) && (b0 <=? 244))%N then
        match r with
        | b1 :: b2 :: b3 :: r3 =>
            if is_cont b1 && is_cont b2 && is_cont b3 then
              let cp := (Z.of_N b0 - 240) * 262144 + cont_bits b1 * 4096 + cont_bits b2 * 64 + cont_bits b3 in
              if (cp <? 65536) || (1114111 <? cp) then None else Some (cp, r3)
            else None
        | _ => None
        end
      else None
  end.

(* UTF-16 encoding of a code point (ECMA-262 11.1.1 UTF16EncodeCodePoint) *)
Definition utf16 (cp : Z) : list Z :=
  if cp <? 65536 then [cp]
  else [55296 + Z.shiftr (cp - 65536) 10; 56320 + Z.land (cp - 65536) 1023].

Definition is_surrogate (cp : Z) : bool := (55296 <=? cp) && (cp <=? 57343).

(* hex digits up to the closing brace of \u{...}: value, rest after '}' *)
Fixpoint brace_hex (s : str) (acc : Z) (ndigits : nat) : option (Z * str) :=
  match s with
  | [] => None
  | c :: r =>
      if N.eqb c 125 then (match ndigits with O => None | _ => Some (acc, r) end)
      else if is_hex c then
        let acc' := acc * 16 + hex_val c in
        if 1114111 <? acc' then None else brace_hex r acc' (S ndigits)
      else None
  end.

(* SV of a literal body delimited by [d] (34 = double quote, 39 = single quote) *)
Fixpoint sv_fuel (fuel : nat) (d : N) (s : str) : option (list Z) :=
  match fuel with
  | O => None
  | S f =>
      match s with
      | [] => Some []
      | c :: r =>
          if N.eqb c d then None                          (* unescaped delimiter *)
          else if N.eqb c 10 || N.eqb c 13 then None      (* line terminator *)
          else if N.eqb c 92 then                         (* backslash *)
            match r with
            | [] => None
            | e :: r' =>
                let single (v : Z) := match sv_fuel f d r' with Some l => Some (v :: l) | None => None end in
                if N.eqb e 110 then single 10            (* \n *)
                else if N.eqb e 116 then single 9        (* \t *)
                else if N.eqb e 114 then single 13       (* \r *)
                else if N.eqb e 98 then single 8         (* \b *)
                else if N.eqb e 102 then single 12       (* \f *)
                else if N.eqb e 118 then single 11       (* \v *)
                else if N.eqb e 39 || N.eqb e 34 || N.eqb e 92 then single (Z.of_N e)
                else if N.eqb e 48 then                  (* \0 not followed by a digit *)
                  match r' with
                  | n :: _ => if is_dec n then None else single 0
                  | [] => single 0
                  end
                else if is_dec e then None               (* \1..\9: legacy / non-octal escapes *)
                else if N.eqb e 120 then                 (* \xHH *)
                  match r' with
                  | h1 :: h2 :: r'' =>
                      if is_hex h1 && is_hex h2 then
                        match sv_fuel f d r'' with
                        | Some l => Some ((hex_val h1 * 16 + hex_val h2) :: l) | None => None end
                      else None
                  | _ => None
                  end
                else if N.eqb e 117 then                 (* \uHHHH or \u{H..H} *)
                  match r' with
                  | 123%N :: rb =>
                      match brace_hex rb 0 0 with
                      | Some (cp, r'') =>
                          match sv_fuel f d r'' with Some l => Some (utf16 cp ++ l) | None => None end
                      | None => None
                      end
                  | h1 :: h2 :: h3 :: h4 :: r'' =>
                      if is_hex h1 && is_hex h2 && is_hex h3 && is_hex h4 then
                        match sv_fuel f d r'' with
                        | Some l => Some ((hex_val h1 * 4096 + hex_val h2 * 256 + hex_val h3 * 16 + hex_val h4) :: l)
                        | None => None end
                      else None
                  | _ => None
                  end
                else if N.eqb e 10 then sv_fuel f d r'   (* line continuation: LF *)
                else if N.eqb e 13 then                  (* CR or CR LF *)
                  match r' with
                  | 10%N :: r'' => sv_fuel f d r''
                  | _ => sv_fuel f d r'
                  end
                else
                  (* identity escape of any other source character; LS / PS (U+2028/9)
                     after a backslash are line continuations *)
                  match utf8_decode1 r with
                  | Some (cp, r'') =>
                      if (cp =? 8232) || (cp =? 8233) then sv_fuel f d r''
                      else match sv_fuel f d r'' with Some l => Some (utf16 cp ++ l) | None => None end
                  | None => None
                  end
            end
          else
            match utf8_decode1 s with
            | Some (cp, r'') => match sv_fuel f d r'' with Some l => Some (utf16 cp ++ l) | None => None end
            | None => None
            end
      end
  end.

Definition SV (d : N) (body : str) : option (list Z) := sv_fuel (S (length body)) d body.

(* A valid backtick-string body as the lexer's language defines it: no unescaped
   backtick, no dangling backslash at the end. *)
Fixpoint valid_raw_body (s : str) : bool :=
  match s with
  | [] => true
  | c :: r =>
      if N.eqb c 92 then match r with [] => false | _ :: r' => valid_raw_body r' end
      else if N.eqb c 96 then false
      else valid_raw_body r
  end.
