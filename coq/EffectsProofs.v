(* EffectsProofs.v -- the generated write sets are empty (C14).  Kept apart from the other
   proof files so that a change of the write sets breaks C14's obligations only. *)
Require Import List String.
Import ListNotations.
Require Import Gen.Effects.

Lemma effects_globals : global_var_writes = [] /\ global_var_aliases = [].
Proof. split; reflexivity. Qed.

Lemma effects_frozen : node_method_receiver_writes = [] /\ frozen_argument_writes = [].
Proof. split; reflexivity. Qed.
