(* ParserProofs.v -- the context stack is balanced by every parse step (Props/C16.v). *)
Require Import Base GoOps Token Tree Parser ParserSpec.
Require Import Gen.Tables.
From Coq Require Import ZifyBool ZifyN ZifyNat Lia.

(* ------------------------------------------------------------------ *)
(* 1. the primitive state transformers and the context stack           *)
(* ------------------------------------------------------------------ *)

Lemma ctx_next s : ps_ctx (ps_next s) = ps_ctx s.
Proof. unfold ps_next. destruct (ps_rest s); reflexivity. Qed.
Lemma ctx_add_error_at s k a t : ps_ctx (add_error_at s k a t) = ps_ctx s.
Proof. reflexivity. Qed.
Lemma ctx_add_error s k a : ps_ctx (add_error s k a) = ps_ctx s.
Proof. reflexivity. Qed.
Lemma ctx_log_event s i k : ps_ctx (log_event s i k) = ps_ctx s.
Proof. reflexivity. Qed.
Lemma ctx_set_cep s p : ps_ctx (set_cep s p) = ps_ctx s.
Proof. reflexivity. Qed.
Lemma ctx_push s c : ps_ctx (push_ctx s c) = ps_ctx s ++ [c].
Proof. reflexivity. Qed.
Lemma ctx_pop s : ps_ctx (pop_ctx s) = removelast (ps_ctx s).
Proof. reflexivity. Qed.

#[export] Hint Rewrite ctx_next ctx_add_error_at ctx_add_error ctx_log_event ctx_set_cep
  ctx_push ctx_pop : ctxs.

Lemma expect_ctx s ty ok s1 : expect s ty = (ok, s1) -> ps_ctx s1 = ps_ctx s.
Proof.
  unfold expect. destruct (peek_is s ty); intro H; inversion H; subst;
    autorewrite with ctxs; reflexivity.
Qed.

Lemma expect_asi_ctx cfg s ok s1 : expect_semicolon_asi cfg s = (ok, s1) -> ps_ctx s1 = ps_ctx s.
Proof.
  unfold expect_semicolon_asi.
  destruct (peek_is s T_SEMICOLON); [|destruct (should_insert_semicolon s); [|destruct (c_tolerant cfg)]];
    intro H; inversion H; subst; autorewrite with ctxs; reflexivity.
Qed.

(* ------------------------------------------------------------------ *)
(* 2. tactics: take a successful run apart, one binder at a time       *)
(* ------------------------------------------------------------------ *)

Ltac brk1 :=
  match goal with
  | H : None = Some _ |- _ => discriminate H
  | H : Some _ = Some _ |- _ => inversion H; clear H; subst
  | H : (match ?e with None => None | Some _ => _ end) = Some _ |- _ =>
      let E := fresh "E" in destruct e as [[? ?]|] eqn:E; [|discriminate H]
  | H : (let '(_, _) := ?e in _) = Some _ |- _ =>
      let E := fresh "E" in destruct e as [? ?] eqn:E
  | H : (if ?c then _ else _) = Some _ |- _ =>
      let C := fresh "C" in destruct c eqn:C
  end.

Ltac brk := repeat brk1.

(* derive "same context" for every completed call in the hypotheses *)
Ltac fwd_ctx :=
  repeat match goal with
  | E : expect ?s0 _ = (_, ?s1) |- _ =>
      lazymatch goal with
      | _ : ps_ctx s1 = ps_ctx s0 |- _ => fail
      | _ => pose proof (expect_ctx _ _ _ _ E)
      end
  | E : expect_semicolon_asi _ ?s0 = (_, ?s1) |- _ =>
      lazymatch goal with
      | _ : ps_ctx s1 = ps_ctx s0 |- _ => fail
      | _ => pose proof (expect_asi_ctx _ _ _ _ E)
      end
  | E : ?f ?s0 = Some (_, ?s1) |- _ =>
      lazymatch goal with
      | _ : ps_ctx s1 = ps_ctx s0 |- _ => fail
      | _ => let F := fresh "F" in
             assert (F : ps_ctx s1 = ps_ctx s0) by (eauto 3 with bal nocore)
      end
  end.

Ltac fin_ctx :=
  repeat match goal with |- context [if ?c then _ else _] => destruct c end;
  autorewrite with ctxs in *;
  repeat match goal with
  | H : context [?l ++ [?c]] |- _ =>
      lazymatch goal with
      | _ : removelast (l ++ [c]) = l |- _ => fail
      | _ => pose proof (@removelast_last _ l c)
      end
  end;
  congruence.

Ltac bal := brk; fwd_ctx; fin_ctx.

(* ------------------------------------------------------------------ *)
(* 3. every Parse* function, the recursion being open                  *)
(* ------------------------------------------------------------------ *)

Section Bal.
  Variable cfg : pcfg.
  Variable sf : pstate -> res stmt.
  Variable ef : Z -> pstate -> res expr.
  Variable n : nat.
  Hypothesis Hsf : forall s r s', sf s = Some (r, s') -> ps_ctx s' = ps_ctx s.
  Hypothesis Hef : forall p s r s', ef p s = Some (r, s') -> ps_ctx s' = ps_ctx s.

  Hint Resolve Hsf Hef : bal.

  Lemma parse_expression_bal s r s' :
    parse_expression ef s = Some (r, s') -> ps_ctx s' = ps_ctx s.
  Proof. unfold parse_expression. apply Hef. Qed.
  Hint Resolve parse_expression_bal : bal.

  Lemma params_loop_bal : forall k acc s r s',
    params_loop k acc s = Some (r, s') -> ps_ctx s' = ps_ctx s.
  Proof.
    induction k as [|k IH]; intros acc s r s' H; cbn [params_loop] in H; [discriminate H|].
    cbv zeta in H. bal.
  Qed.
  Hint Resolve params_loop_bal : bal.

  Lemma parse_function_parameters_bal s r s' :
    parse_function_parameters n s = Some (r, s') -> ps_ctx s' = ps_ctx s.
  Proof. unfold parse_function_parameters. cbv zeta. intro H. bal. Qed.
  Hint Resolve parse_function_parameters_bal : bal.

  Lemma block_loop_bal : forall k acc s r s',
    block_loop sf k acc s = Some (r, s') -> ps_ctx s' = ps_ctx s.
  Proof.
    induction k as [|k IH]; intros acc s r s' H; cbn [block_loop] in H; [discriminate H|].
    bal.
  Qed.
  Hint Resolve block_loop_bal : bal.

  Lemma parse_block_statement_bal s r s' :
    parse_block_statement cfg sf n s = Some (r, s') -> ps_ctx s' = ps_ctx s.
  Proof. unfold parse_block_statement. cbv zeta. intro H. bal. Qed.
  Hint Resolve parse_block_statement_bal : bal.

  Lemma parse_let_statement_bal s r s' :
    parse_let_statement cfg ef s = Some (r, s') -> ps_ctx s' = ps_ctx s.
  Proof. unfold parse_let_statement. cbv zeta. intro H. bal. Qed.
  Hint Resolve parse_let_statement_bal : bal.

  Lemma parse_let_expression_bal s r s' :
    parse_let_expression ef s = Some (r, s') -> ps_ctx s' = ps_ctx s.
  Proof. unfold parse_let_expression. cbv zeta. intro H. bal. Qed.
  Hint Resolve parse_let_expression_bal : bal.

  Lemma parse_function_statement_bal s r s' :
    parse_function_statement cfg sf n s = Some (r, s') -> ps_ctx s' = ps_ctx s.
  Proof. unfold parse_function_statement. cbv zeta. intro H. bal. Qed.
  Hint Resolve parse_function_statement_bal : bal.

  Lemma parse_return_statement_bal s r s' :
    parse_return_statement cfg ef s = Some (r, s') -> ps_ctx s' = ps_ctx s.
  Proof. unfold parse_return_statement. cbv zeta. intro H. bal. Qed.
  Hint Resolve parse_return_statement_bal : bal.

  Lemma parse_if_statement_bal s r s' :
    parse_if_statement sf ef s = Some (r, s') -> ps_ctx s' = ps_ctx s.
  Proof. unfold parse_if_statement. cbv zeta. intro H. bal. Qed.
  Hint Resolve parse_if_statement_bal : bal.

  Lemma parse_while_statement_bal s r s' :
    parse_while_statement sf ef s = Some (r, s') -> ps_ctx s' = ps_ctx s.
  Proof. unfold parse_while_statement. cbv zeta. intro H. bal. Qed.
  Hint Resolve parse_while_statement_bal : bal.

  Lemma parse_for_statement_bal s r s' :
    parse_for_statement sf ef s = Some (r, s') -> ps_ctx s' = ps_ctx s.
  Proof. unfold parse_for_statement. cbv zeta. intro H. bal. Qed.
  Hint Resolve parse_for_statement_bal : bal.

  Lemma parse_expression_statement_bal s r s' :
    parse_expression_statement cfg ef s = Some (r, s') -> ps_ctx s' = ps_ctx s.
  Proof. unfold parse_expression_statement. cbv zeta. intro H. bal. Qed.
  Hint Resolve parse_expression_statement_bal : bal.

  Lemma base_parse_statement_bal s r s' :
    base_parse_statement cfg sf ef n s = Some (r, s') -> ps_ctx s' = ps_ctx s.
  Proof. unfold base_parse_statement. cbv zeta. intro H. bal. Qed.

  Lemma expr_list_loop_bal : forall k acc s r s',
    expr_list_loop ef k acc s = Some (r, s') -> ps_ctx s' = ps_ctx s.
  Proof.
    induction k as [|k IH]; intros acc s r s' H; cbn [expr_list_loop] in H; [discriminate H|].
    bal.
  Qed.
  Hint Resolve expr_list_loop_bal : bal.

  Lemma parse_expression_list_bal ty s r s' :
    parse_expression_list ef n ty s = Some (r, s') -> ps_ctx s' = ps_ctx s.
  Proof. unfold parse_expression_list. cbv zeta. intro H. bal. Qed.
  Hint Resolve parse_expression_list_bal : bal.

  Lemma object_loop_bal : forall k acc s r s',
    object_loop ef k acc s = Some (r, s') -> ps_ctx s' = ps_ctx s.
  Proof.
    induction k as [|k IH]; intros acc s r s' H; cbn [object_loop] in H; [discriminate H|].
    cbv zeta in H. bal.
  Qed.
  Hint Resolve object_loop_bal : bal.

  Lemma parse_object_literal_bal s r s' :
    parse_object_literal ef n s = Some (r, s') -> ps_ctx s' = ps_ctx s.
  Proof.
    unfold parse_object_literal. cbv zeta. intro H. brk.
    - fwd_ctx; fin_ctx.
    - match goal with o : option _ |- _ => destruct o end; bal.
  Qed.
  Hint Resolve parse_object_literal_bal : bal.

  Lemma parse_function_expression_bal s r s' :
    parse_function_expression cfg sf n s = Some (r, s') -> ps_ctx s' = ps_ctx s.
  Proof.
    unfold parse_function_expression. cbv zeta. intro H.
    destruct (peek_is s T_IDENT); bal.
  Qed.
  Hint Resolve parse_function_expression_bal : bal.

  Lemma parse_grouped_expression_bal s r s' :
    parse_grouped_expression ef s = Some (r, s') -> ps_ctx s' = ps_ctx s.
  Proof. unfold parse_grouped_expression. cbv zeta. intro H. bal. Qed.
  Hint Resolve parse_grouped_expression_bal : bal.

  Lemma parse_unary_expression_bal s r s' :
    parse_unary_expression ef s = Some (r, s') -> ps_ctx s' = ps_ctx s.
  Proof. unfold parse_unary_expression. cbv zeta. intro H. bal. Qed.
  Hint Resolve parse_unary_expression_bal : bal.

  Lemma prefix_handler_run_bal h s r s' :
    prefix_handler_run cfg sf ef n h s = Some (r, s') -> ps_ctx s' = ps_ctx s.
  Proof. unfold prefix_handler_run. cbv zeta. intro H. destruct h; bal. Qed.
  Hint Resolve prefix_handler_run_bal : bal.

  Lemma parse_prefix_expression_bal s r s' :
    parse_prefix_expression cfg sf ef n s = Some (r, s') -> ps_ctx s' = ps_ctx s.
  Proof.
    unfold parse_prefix_expression. cbv zeta. intro H.
    destruct (memZ (t_type (ps_cur s)) (c_prefix_ops cfg)); [bal|].
    destruct (assoc_opt prefix_table (t_type (ps_cur s))); bal.
  Qed.
  Hint Resolve parse_prefix_expression_bal : bal.

  Lemma parse_binary_expression_bal l s r s' :
    parse_binary_expression cfg ef l s = Some (r, s') -> ps_ctx s' = ps_ctx s.
  Proof. unfold parse_binary_expression. cbv zeta. intro H. bal. Qed.
  Hint Resolve parse_binary_expression_bal : bal.

  Lemma infix_handler_run_bal h l s r s' :
    infix_handler_run cfg ef n h l s = Some (r, s') -> ps_ctx s' = ps_ctx s.
  Proof. unfold infix_handler_run. cbv zeta. intro H. destruct h; bal. Qed.
  Hint Resolve infix_handler_run_bal : bal.

  Lemma parse_infix_expression_bal l s r s' :
    parse_infix_expression cfg ef n l s = Some (r, s') -> ps_ctx s' = ps_ctx s.
  Proof.
    unfold parse_infix_expression. cbv zeta. intro H.
    destruct (infix_lookup cfg (t_type (ps_peek s))) as [[| |h]|]; bal.
  Qed.
  Hint Resolve parse_infix_expression_bal : bal.

  Lemma remaining_loop_bal : forall k l p s r s',
    remaining_loop cfg ef n k l p s = Some (r, s') -> ps_ctx s' = ps_ctx s.
  Proof.
    induction k as [|k IH]; intros l p s r s' H; cbn [remaining_loop] in H; [discriminate H|].
    bal.
  Qed.
  Hint Resolve remaining_loop_bal : bal.

  Lemma parse_remaining_bal l p s r s' :
    parse_remaining_with_precedence cfg ef n l p s = Some (r, s') -> ps_ctx s' = ps_ctx s.
  Proof. unfold parse_remaining_with_precedence. apply remaining_loop_bal. Qed.
  Hint Resolve parse_remaining_bal : bal.

  Lemma base_parse_expression_bal p s r s' :
    base_parse_expression cfg sf ef n p s = Some (r, s') -> ps_ctx s' = ps_ctx s.
  Proof. unfold base_parse_expression. intro H. bal. Qed.
  Hint Resolve base_parse_expression_bal base_parse_statement_bal : bal.

  Lemma run_stmt_chain_bal : forall ics s r s',
    run_stmt_chain cfg sf ef n ics s = Some (r, s') -> ps_ctx s' = ps_ctx s.
  Proof.
    induction ics as [|ic ics IH]; intros s r s' H; cbn [run_stmt_chain] in H.
    - eapply base_parse_statement_bal; exact H.
    - destruct ic; bal.
  Qed.

  Lemma run_expr_chain_bal : forall ics p s r s',
    run_expr_chain cfg sf ef n ics p s = Some (r, s') -> ps_ctx s' = ps_ctx s.
  Proof.
    induction ics as [|ic ics IH]; intros p s r s' H; cbn [run_expr_chain] in H.
    - eapply base_parse_expression_bal; exact H.
    - cbv zeta in H. destruct ic; bal.
  Qed.
End Bal.

(* ------------------------------------------------------------------ *)
(* 4. closing the recursion                                            *)
(* ------------------------------------------------------------------ *)

Lemma fn_ctx_balanced cfg : forall fuel,
  (forall s r s', stmt_fn cfg fuel s = Some (r, s') -> ps_ctx s' = ps_ctx s) /\
  (forall prec s r s', expr_fn cfg fuel prec s = Some (r, s') -> ps_ctx s' = ps_ctx s).
Proof.
  induction fuel as [|f [IHs IHe]]; (split; [intros s r s' H | intros prec s r s' H]);
    cbn [stmt_fn expr_fn] in H; try discriminate H.
  - eapply run_stmt_chain_bal; [exact IHs | exact IHe | exact H].
  - eapply run_expr_chain_bal; [exact IHs | exact IHe | exact H].
Qed.

Lemma stmt_fn_ctx_balanced : forall cfg fuel s r s',
  stmt_fn cfg fuel s = Some (r, s') -> ps_ctx s' = ps_ctx s.
Proof. intros cfg fuel. apply (fn_ctx_balanced cfg fuel). Qed.

Lemma expr_fn_ctx_balanced : forall cfg fuel prec s r s',
  expr_fn cfg fuel prec s = Some (r, s') -> ps_ctx s' = ps_ctx s.
Proof. intros cfg fuel. apply (fn_ctx_balanced cfg fuel). Qed.

Lemma program_loop_ctx cfg fuel : forall k acc s r s',
  program_loop cfg fuel k acc s = Some (r, s') -> ps_ctx s' = ps_ctx s.
Proof.
  induction k as [|k IH]; intros acc s r s' H; cbn [program_loop] in H; [discriminate H|].
  brk.
  - match goal with E : stmt_fn _ _ _ = Some _ |- _ => apply stmt_fn_ctx_balanced in E end.
    match goal with E : program_loop _ _ _ _ _ = Some _ |- _ => apply IH in E end.
    fin_ctx.
  - reflexivity.
Qed.

Lemma parse_final_ctx : forall cfg toks r,
  parse_tokens cfg toks = Some r ->
  ps_ctx (pr_final r) = [P_GlobalContext] /\
  current_context (pr_final r) = P_GlobalContext /\ is_in_function (pr_final r) = false.
Proof.
  intros cfg toks r H. unfold parse_tokens, parse_program_from in H. cbv zeta in H.
  destruct (program_loop cfg (parse_fuel toks) (parse_fuel toks) []
              (ps_init toks (eof_again (last toks zero_token)))) as [[stmts s1]|] eqn:E;
    [|discriminate H].
  inversion H; subst r; clear H. cbn [pr_final].
  apply program_loop_ctx in E.
  assert (C : ps_ctx s1 = [P_GlobalContext]).
  { rewrite E. unfold ps_init. rewrite !ctx_next. reflexivity. }
  unfold current_context, is_in_function. rewrite C. repeat split.
Qed.
