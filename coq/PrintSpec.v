(* PrintSpec.v -- vocabulary for C03: where the printer puts parentheses, as a tree
   transformation, and which assembled trees the property quantifies over. *)
Require Import Base GoOps Token Tree Writer PrinterLib Compile Parser Grammar.
Require Import Gen.Tables Gen.Printer.

(* synthetic parentheses (only type and literal matter to the grammar) *)
Definition lp_tok : token := mktoken T_LPAREN [40%N] (mkpos 0 0) (mkpos 0 0) false [].
Definition rp_tok : token := mktoken T_RPAREN [41%N] (mkpos 0 0) (mkpos 0 0) false [].
Definition grp (e : expr) : expr := EGroup lp_tok e rp_tok.

Definition prec_of (e : expr) : Z := match prec_opt e with Some p => p | None => 0 end.

(* explicit grouping nodes exactly where ast.go writes '(' ... ')' around an operand *)
Fixpoint groupify (e : expr) : expr :=
  match e with
  | EBinary t l op r =>
      let my := prec_of e in
      let l' := groupify l in let r' := groupify r in
      EBinary t (if prec_of l <? my then grp l' else l') op (if prec_of r <=? my then grp r' else r')
  | EUnary t op r =>
      let r' := groupify r in EUnary t op (if prec_of r <? A_PrecedenceUnary then grp r' else r')
  | EPostfix t l op =>
      let l' := groupify l in EPostfix t (if prec_of l <? A_PrecedencePostfix then grp l' else l') op
  | EGroup lp e' rp => EGroup lp (groupify e') rp
  | ECall t f args => ECall t (groupify f) (map groupify args)
  | EMember t o p c => EMember t (groupify o) (if c then groupify p else p) c
  | EAssign t l v => EAssign t (groupify l) (groupify v)
  | ECompound t l op v => ECompound t (groupify l) op (groupify v)
  | EArray t es rb => EArray t (map groupify es) rb
  | EObject t ps rb => EObject t (map (fun kv => (fst kv, groupify (snd kv))) ps) rb
  | ELet t n v => ELet t n (groupify v)
  | _ => e
  end.

(* grouping nodes erased *)
Fixpoint strip_groups (e : expr) : expr :=
  match e with
  | EGroup _ e' _ => strip_groups e'
  | EBinary t l op r => EBinary t (strip_groups l) op (strip_groups r)
  | EUnary t op r => EUnary t op (strip_groups r)
  | EPostfix t l op => EPostfix t (strip_groups l) op
  | ECall t f args => ECall t (strip_groups f) (map strip_groups args)
  | EMember t o p c => EMember t (strip_groups o) (strip_groups p) c
  | EAssign t l v => EAssign t (strip_groups l) (strip_groups v)
  | ECompound t l op v => ECompound t (strip_groups l) op (strip_groups v)
  | EArray t es rb => EArray t (map strip_groups es) rb
  | EObject t ps rb => EObject t (map (fun kv => (strip_groups (fst kv), strip_groups (snd kv))) ps) rb
  | ELet t n v => ELet t n (strip_groups v)
  | _ => e
  end.

Definition strip_groups_stmt (s : stmt) : stmt :=
  match s with SExpr e => SExpr (strip_groups e) | _ => s end.

(* The assembled expression trees C03 quantifies over (function-free fragment):
   binary, unary, postfix and assignment nodes take ARBITRARY operands; callee and
   object positions hold call-level-or-tighter expressions; assignment / ++ / --
   targets are identifiers or member accesses; node tokens agree with the operator;
   no nil child; literals as the parser builds them. *)
Definition simple_target (e : expr) : bool :=
  match e with EIdent _ | EMember _ _ _ _ => true | _ => false end.

Fixpoint printable (e : expr) : bool :=
  match e with
  | ENil | ELet _ _ _ | EFunc _ _ _ _ => false
  | EIdent _ | EInt _ | EFloat _ | EString _ _ | ERaw _ _ | EBool _ _ | ENull _ => true
  | EBinary t l _ r => (match binop_level (t_type t) with Some _ => true | None => false end) && printable l && printable r
  | EUnary t _ r =>
      (if (t_type t =? T_INCREMENT) || (t_type t =? T_DECREMENT) then simple_target r
       else (t_type t =? T_NOT) || (t_type t =? T_MINUS)) && printable r
  | EPostfix t l _ => ((t_type t =? T_INCREMENT) || (t_type t =? T_DECREMENT)) && simple_target l && printable l
  | EGroup _ e' _ => printable e'
  | ECall _ f args => (A_PrecedenceCall <=? prec_of f) && printable f && forallb printable args
  | EMember _ o p c => (A_PrecedenceCall <=? prec_of o) && printable o && (if c then printable p else true)
  | EAssign _ l v => simple_target l && printable l && printable v
  | ECompound _ l _ v => simple_target l && printable l && printable v
  | EArray _ es _ => forallb printable es
  | EObject _ ps _ => forallb (fun kv => key_ok (fst kv) && printable (snd kv)) ps
  end.

(* the level discipline alone (Grammar.wf_expr without the token-shape checks that
   [m_expr] performs) is what parenthesisation has to establish *)
Definition compact_text (e : expr) : str := w_buf (run_wops (cfg_compact false) (write_expr e)).
