(* Grammar.v -- SPECIFICATION: the documented JavaScript subset as ECMA-262 parses it,
   at token level.  It mentions no binding power, no Parse* function and no printer.

   It has two executable halves:
   * [m_program p toks]: the token list is exactly the in-order unparsing of the tree
     (every token stored in the tree is the token at that place; punctuation that the
     tree does not store - commas, colons, closing parentheses, semicolons - is checked
     by type), with statement ends as ECMAScript allows them (explicit ';', or
     automatic semicolon insertion);
   * [wf_program p]: the tree respects the ECMAScript expression levels
     (AssignmentExpression < LogicalOR < LogicalAND < Equality < Relational < Additive <
     Multiplicative < Unary < Postfix < Call/Member < Primary), left-associative binary
     operators, right-associative assignment with a simple target, restricted
     productions (no line terminator before postfix ++/--, nor between return and its
     operand), `else` bound to the nearest `if`.
   A pair (p, toks) accepted by both is what "the subset program toks has the ECMAScript
   tree p" means. *)
Require Import Base GoOps Token Tree Parser.
Require Import Gen.Tables.

(* ---------- token equality ---------- *)

Fixpoint strs_eqb (a b : list str) : bool :=
  match a, b with
  | [], [] => true
  | x :: a', y :: b' => str_eqb x y && strs_eqb a' b'
  | _, _ => false
  end.

Definition tok_eqb (a b : token) : bool :=
  (t_type a =? t_type b) && str_eqb (t_lit a) (t_lit b) && pos_eqb (t_start a) (t_start b)
  && pos_eqb (t_end a) (t_end b) && Bool.eqb (t_nl a) (t_nl b) && strs_eqb (t_comments a) (t_comments b).

(* ---------- ECMAScript operator levels ---------- *)

Definition L_ASSIGN : Z := 2.
Definition L_UNARY : Z := 9.
Definition L_POSTFIX : Z := 10.
Definition L_LHS : Z := 11.     (* LeftHandSideExpression: call and member *)
Definition L_PRIMARY : Z := 13.

(* binary operators: LogicalOR 3, LogicalAND 4, Equality 5, Relational 6, Additive 7,
   Multiplicative 8 *)
Definition binop_level (ty : Z) : option Z :=
  if ty =? T_OR then Some 3
  else if ty =? T_AND then Some 4
  else if (ty =? T_EQ) || (ty =? T_NOT_EQ) then Some 5
  else if (ty =? T_LT) || (ty =? T_GT) || (ty =? T_LTE) || (ty =? T_GTE) then Some 6
  else if (ty =? T_PLUS) || (ty =? T_MINUS) then Some 7
  else if (ty =? T_MULTIPLY) || (ty =? T_DIVIDE) || (ty =? T_MODULO) then Some 8
  else None.

Definition level (e : expr) : Z :=
  match e with
  | EAssign _ _ _ | ECompound _ _ _ _ | ELet _ _ _ => L_ASSIGN
  | EBinary t _ _ _ => match binop_level (t_type t) with Some l => l | None => 0 end
  | EUnary _ _ _ => L_UNARY
  | EPostfix _ _ _ => L_POSTFIX
  | ECall _ _ _ | EMember _ _ _ _ => L_LHS
  | ENil => 0
  | _ => L_PRIMARY
  end.

(* simple assignment targets *)
Fixpoint assignable (e : expr) : bool :=
  match e with
  | EIdent _ | EMember _ _ _ _ => true
  | EGroup _ e' _ => assignable e'      (* a parenthesised simple target is a simple target *)
  | _ => false
  end.

(* can this token continue an expression that is complete so far?  (the operators,
   call and member brackets; postfix ++/-- only on the same line) *)
Definition continues_expression (t : token) : bool :=
  let ty := t_type t in
  match binop_level ty with
  | Some _ => true
  | None =>
      (ty =? T_ASSIGN) || (ty =? T_PLUS_ASSIGN) || (ty =? T_MINUS_ASSIGN)
      || (ty =? T_LPAREN) || (ty =? T_LBRACKET) || (ty =? T_DOT)
      || (((ty =? T_INCREMENT) || (ty =? T_DECREMENT)) && negb (t_nl t))
  end.

(* automatic semicolon insertion in front of token [next], after a statement that ends
   in an expression: at '}' and at the end of input; or after a line terminator when
   [next] cannot continue the expression *)
Definition asi_after_expression (next : token) : bool :=
  (t_type next =? T_EOF) || (t_type next =? T_RBRACE)
  || (t_nl next && negb (continues_expression next)).

(* after `let x` without initializer only '=' could continue *)
Definition asi_after_let_name (next : token) : bool :=
  (t_type next =? T_EOF) || (t_type next =? T_RBRACE)
  || (t_nl next && negb (t_type next =? T_ASSIGN)).

(* after a bare `return`: restricted production, any line terminator ends it *)
Definition asi_after_return (next : token) : bool :=
  (t_type next =? T_EOF) || (t_type next =? T_RBRACE) || t_nl next.

(* token types that start a statement form of their own: an expression statement
   cannot begin with them *)
Definition statement_keyword (ty : Z) : bool :=
  (ty =? T_LET) || (ty =? T_FUNCTION) || (ty =? T_RETURN) || (ty =? T_IF) || (ty =? T_WHILE)
  || (ty =? T_FOR) || (ty =? T_LBRACE).

(* ---------- matching a tree against a token list ---------- *)

(* consume one token of a given type *)
Definition eat (ty : Z) (ts : list token) : option (token * list token) :=
  match ts with t :: r => if t_type t =? ty then Some (t, r) else None | [] => None end.

(* consume exactly this token *)
Definition eat_tok (t : token) (ts : list token) : option (list token) :=
  match ts with t' :: r => if tok_eqb t t' then Some r else None | [] => None end.

Definition ident_ok (i : ident) : bool :=
  (t_type (id_tok i) =? T_IDENT) && str_eqb (id_value i) (t_lit (id_tok i)).

Definition m_ident (i : ident) (ts : list token) : option (list token) :=
  if ident_ok i then eat_tok (id_tok i) ts else None.

(* identifiers separated by commas *)
Fixpoint m_params (ps : list ident) (ts : list token) : option (list token) :=
  match ps with
  | [] => Some ts
  | [p] => m_ident p ts
  | p :: ps' =>
      match m_ident p ts with
      | Some r => match eat T_COMMA r with Some (_, r') => m_params ps' r' | None => None end
      | None => None
      end
  end.

Section Match.
  (* open recursion on the tree, closed below with the nested lists *)
  Variable m_expr : expr -> list token -> option (list token).
  Variable m_stmt : stmt -> token -> list token -> option (list token).

  Fixpoint m_exprs (es : list expr) (ts : list token) : option (list token) :=
    match es with
    | [] => Some ts
    | [e] => m_expr e ts
    | e :: es' =>
        match m_expr e ts with
        | Some r => match eat T_COMMA r with Some (_, r') => m_exprs es' r' | None => None end
        | None => None
        end
    end.

  Definition key_ok (k : expr) : bool :=
    match k with EIdent _ | EString _ _ | EInt _ | EFloat _ => true | _ => false end.

  Fixpoint m_props (ps : list (expr * expr)) (ts : list token) : option (list token) :=
    match ps with
    | [] => Some ts
    | (k, v) :: ps' =>
        if negb (key_ok k) then None else
        match m_expr k ts with
        | None => None
        | Some r1 =>
            match eat T_COLON r1 with
            | None => None
            | Some (_, r2) =>
                match m_expr v r2 with
                | None => None
                | Some r3 =>
                    match ps' with
                    | [] => Some r3
                    | _ => match eat T_COMMA r3 with Some (_, r4) => m_props ps' r4 | None => None end
                    end
                end
            end
        end
    end.

  (* a statement list; [next] is the token that follows the list (closing brace or end
     of input); each statement sees the token that follows IT *)
  Fixpoint m_stmts (ss : list stmt) (next : token) (ts : list token) : option (list token) :=
    match ss with
    | [] => Some ts
    | s :: ss' =>
        (* the statement needs to know its follower: match it against every split is not
           needed - the statement matcher takes the follower lazily from what remains *)
        match m_stmt s next ts with
        | Some r => m_stmts ss' next r
        | None => None
        end
    end.
End Match.

(* the token that follows a statement: the head of what remains, or [next] when the
   statement is the last of its list *)
Definition follower (next : token) (rest : list token) : token :=
  match rest with t :: _ => t | [] => next end.

(* statement end: explicit ';' or automatic insertion judged by [asi] on the follower *)
Definition m_end (asi : token -> bool) (next : token) (ts : list token) : option (list token) :=
  match ts with
  | t :: r => if t_type t =? T_SEMICOLON then Some r
              else if asi t then Some ts else None
  | [] => if asi next then Some [] else None
  end.

Fixpoint m_expr (e : expr) (ts : list token) {struct e} : option (list token) :=
  match e with
  | ENil => None
  | EIdent i => m_ident i ts
  | EInt t => if (t_type t =? T_INT) && go_int_ok (t_lit t) then eat_tok t ts else None
  | EFloat t => if (t_type t =? T_FLOAT) && go_float_ok (t_lit t) then eat_tok t ts else None
  | EString t v => if (t_type t =? T_STRING) && str_eqb v (t_lit t) then eat_tok t ts else None
  | ERaw t v => if (t_type t =? T_RAW_STRING) && str_eqb v (t_lit t) then eat_tok t ts else None
  | EBool t b =>
      if ((t_type t =? T_TRUE) || (t_type t =? T_FALSE)) && Bool.eqb b (t_type t =? T_TRUE)
      then eat_tok t ts else None
  | ENull t => if t_type t =? T_NULL then eat_tok t ts else None
  | ELet t name v =>
      if negb (t_type t =? T_LET) then None else
      match eat_tok t ts with
      | None => None
      | Some r1 =>
          match m_ident name r1 with
          | None => None
          | Some r2 =>
              match v with
              | ENil => Some r2
              | _ => match eat T_ASSIGN r2 with Some (_, r3) => m_expr v r3 | None => None end
              end
          end
      end
  | EBinary t l op r =>
      match binop_level (t_type t) with
      | None => None
      | Some _ =>
          if negb (str_eqb op (t_lit t)) then None else
          match m_expr l ts with
          | None => None
          | Some r1 => match eat_tok t r1 with Some r2 => m_expr r r2 | None => None end
          end
      end
  | EUnary t op r =>
      if negb ((t_type t =? T_NOT) || (t_type t =? T_MINUS) || (t_type t =? T_INCREMENT) || (t_type t =? T_DECREMENT))
         || negb (str_eqb op (t_lit t)) then None
      else match eat_tok t ts with Some r1 => m_expr r r1 | None => None end
  | EPostfix t l op =>
      if negb ((t_type t =? T_INCREMENT) || (t_type t =? T_DECREMENT)) || negb (str_eqb op (t_lit t))
         || t_nl t then None
      else match m_expr l ts with Some r1 => eat_tok t r1 | None => None end
  | EGroup lp e rp =>
      if negb (t_type lp =? T_LPAREN) || negb (t_type rp =? T_RPAREN) then None else
      match eat_tok lp ts with
      | None => None
      | Some r1 => match m_expr e r1 with Some r2 => eat_tok rp r2 | None => None end
      end
  | ECall lp f args =>
      if negb (t_type lp =? T_LPAREN) then None else
      match m_expr f ts with
      | None => None
      | Some r1 =>
          match eat_tok lp r1 with
          | None => None
          | Some r2 =>
              match m_exprs m_expr args r2 with
              | Some r3 => match eat T_RPAREN r3 with Some (_, r4) => Some r4 | None => None end
              | None => None
              end
          end
      end
  | EMember t o p computed =>
      match m_expr o ts with
      | None => None
      | Some r1 =>
          if computed then
            if negb (t_type t =? T_LBRACKET) then None else
            match eat_tok t r1 with
            | None => None
            | Some r2 =>
                match m_expr p r2 with
                | Some r3 => match eat T_RBRACKET r3 with Some (_, r4) => Some r4 | None => None end
                | None => None
                end
            end
          else
            if negb (t_type t =? T_DOT) then None else
            match eat_tok t r1, p with
            | Some r2, EIdent i => m_ident i r2
            | _, _ => None
            end
      end
  | EAssign t l v =>
      if negb (t_type t =? T_ASSIGN) then None else
      match m_expr l ts with
      | None => None
      | Some r1 => match eat_tok t r1 with Some r2 => m_expr v r2 | None => None end
      end
  | ECompound t l op v =>
      let want := if t_type t =? T_PLUS_ASSIGN then Some [43%N]
                  else if t_type t =? T_MINUS_ASSIGN then Some [45%N] else None in
      match want with
      | None => None
      | Some w =>
          if negb (str_eqb op w) then None else
          match m_expr l ts with
          | None => None
          | Some r1 => match eat_tok t r1 with Some r2 => m_expr v r2 | None => None end
          end
      end
  | EFunc t name params body =>
      if negb (t_type t =? T_FUNCTION) then None else
      match eat_tok t ts with
      | None => None
      | Some r1 =>
          match (match name with Some n => m_ident n r1 | None => Some r1 end) with
          | None => None
          | Some r2 =>
              match eat T_LPAREN r2 with
              | None => None
              | Some (_, r3) =>
                  match m_params params r3 with
                  | None => None
                  | Some r4 =>
                      match eat T_RPAREN r4 with
                      | None => None
                      | Some (_, r5) =>
                          (* the body block does not look at its follower *)
                          match body with
                          | SBlock _ _ _ => m_stmt body zero_token r5
                          | _ => None
                          end
                      end
                  end
              end
          end
      end
  | EArray lb es rb =>
      if negb (t_type lb =? T_LBRACKET) || negb (t_type rb =? T_RBRACKET) then None else
      match eat_tok lb ts with
      | None => None
      | Some r1 => match m_exprs m_expr es r1 with Some r2 => eat_tok rb r2 | None => None end
      end
  | EObject lb ps rb =>
      if negb (t_type lb =? T_LBRACE) then None else
      match eat_tok lb ts with
      | None => None
      | Some r1 =>
          match ps with
          | [] => (* the parser does not keep the closing brace of an empty literal *)
              if tok_eqb rb zero_token then
                match eat T_RBRACE r1 with Some (_, r2) => Some r2 | None => None end
              else None
          | _ =>
              if negb (t_type rb =? T_RBRACE) then None else
              match m_props m_expr ps r1 with Some r2 => eat_tok rb r2 | None => None end
          end
      end
  end
(* [next] = the token after the enclosing statement list (used when the statement is
   the last thing before it) *)
with m_stmt (s : stmt) (next : token) (ts : list token) {struct s} : option (list token) :=
  match s with
  | SNil => None
  | SLet t name v =>
      if negb (t_type t =? T_LET) then None else
      match eat_tok t ts with
      | None => None
      | Some r1 =>
          match m_ident name r1 with
          | None => None
          | Some r2 =>
              match v with
              | ENil => m_end asi_after_let_name next r2
              | _ =>
                  match eat T_ASSIGN r2 with
                  | Some (_, r3) =>
                      match m_expr v r3 with
                      | Some r4 => m_end asi_after_expression next r4
                      | None => None
                      end
                  | None => None
                  end
              end
          end
      end
  | SReturn t v =>
      if negb (t_type t =? T_RETURN) then None else
      match eat_tok t ts with
      | None => None
      | Some r1 =>
          match v with
          | ENil => m_end asi_after_return next r1
          | _ =>
              (* restricted production: the operand starts on the same line *)
              match r1 with
              | f :: _ =>
                  if t_nl f then None else
                  match m_expr v r1 with
                  | Some r2 => m_end asi_after_expression next r2
                  | None => None
                  end
              | [] => None
              end
          end
      end
  | SExpr e =>
      match ts with
      | f :: _ =>
          if statement_keyword (t_type f) then None else
          match m_expr e ts with
          | Some r => m_end asi_after_expression next r
          | None => None
          end
      | [] => None
      end
  | SFunc t name params body =>
      if negb (t_type t =? T_FUNCTION) then None else
      match eat_tok t ts with
      | None => None
      | Some r1 =>
          match m_ident name r1 with
          | None => None
          | Some r2 =>
              match eat T_LPAREN r2 with
              | None => None
              | Some (_, r3) =>
                  match m_params params r3 with
                  | None => None
                  | Some r4 =>
                      match eat T_RPAREN r4 with
                      | None => None
                      | Some (_, r5) =>
                          match body with
                          | SBlock _ _ _ => m_stmt body zero_token r5
                          | _ => None
                          end
                      end
                  end
              end
          end
      end
  | SBlock lb ss rb =>
      if negb (t_type lb =? T_LBRACE) || negb (t_type rb =? T_RBRACE) then None else
      match eat_tok lb ts with
      | None => None
      | Some r1 =>
          match m_stmts m_stmt ss rb r1 with
          | Some r2 => eat_tok rb r2
          | None => None
          end
      end
  | SIf t c thn els =>
      if negb (t_type t =? T_IF) then None else
      match eat_tok t ts with
      | None => None
      | Some r1 =>
          match eat T_LPAREN r1 with
          | None => None
          | Some (_, r2) =>
              match m_expr c r2 with
              | None => None
              | Some r3 =>
                  match eat T_RPAREN r3 with
                  | None => None
                  | Some (_, r4) =>
                      match m_stmt thn next r4 with
                      | None => None
                      | Some r5 =>
                          match els with
                          | SNil => Some r5
                          | _ =>
                              match eat T_ELSE r5 with
                              | Some (_, r6) => m_stmt els next r6
                              | None => None
                              end
                          end
                      end
                  end
              end
          end
      end
  | SWhile t c body =>
      if negb (t_type t =? T_WHILE) then None else
      match eat_tok t ts with
      | None => None
      | Some r1 =>
          match eat T_LPAREN r1 with
          | None => None
          | Some (_, r2) =>
              match m_expr c r2 with
              | None => None
              | Some r3 =>
                  match eat T_RPAREN r3 with
                  | Some (_, r4) => m_stmt body next r4
                  | None => None
                  end
              end
          end
      end
  | SFor t init cond upd body =>
      if negb (t_type t =? T_FOR) then None else
      match eat_tok t ts with
      | None => None
      | Some r1 =>
          match eat T_LPAREN r1 with
          | None => None
          | Some (_, r2) =>
              match (match init with ENil => Some r2 | _ => m_expr init r2 end) with
              | None => None
              | Some r3 =>
                  match eat T_SEMICOLON r3 with
                  | None => None
                  | Some (_, r4) =>
                      match (match cond with ENil => Some r4 | _ => m_expr cond r4 end) with
                      | None => None
                      | Some r5 =>
                          match eat T_SEMICOLON r5 with
                          | None => None
                          | Some (_, r6) =>
                              match (match upd with ENil => Some r6 | _ => m_expr upd r6 end) with
                              | None => None
                              | Some r7 =>
                                  match eat T_RPAREN r7 with
                                  | Some (_, r8) => m_stmt body next r8
                                  | None => None
                                  end
                              end
                          end
                      end
                  end
              end
          end
      end
  end.

(* a program: the statements, then exactly the end-of-input token *)
Definition m_program (p : program) (toks : list token) : bool :=
  (t_type (p_eof p) =? T_EOF) &&
  match m_stmts m_stmt (p_stmts p) (p_eof p) toks with
  | Some [e] => tok_eqb e (p_eof p)
  | _ => false
  end.

(* ---------- the level discipline ---------- *)

Section Wf.
  Variable wf_expr : expr -> bool.
  Fixpoint wf_exprs (es : list expr) : bool :=
    match es with [] => true | e :: es' => wf_expr e && wf_exprs es' end.
  Fixpoint wf_props (ps : list (expr * expr)) : bool :=
    match ps with [] => true | (k, v) :: ps' => wf_expr k && wf_expr v && wf_props ps' end.
End Wf.

Section WfS.
  Variable wf_stmt : stmt -> bool.
  Fixpoint wf_stmts (ss : list stmt) : bool :=
    match ss with [] => true | s :: ss' => wf_stmt s && wf_stmts ss' end.
End WfS.

(* does this statement end in an `if` without `else` (which would capture a following else)? *)
Fixpoint ends_in_open_if (s : stmt) : bool :=
  match s with
  | SIf _ _ _ SNil => true
  | SIf _ _ _ els => ends_in_open_if els
  | SWhile _ _ b => ends_in_open_if b
  | SFor _ _ _ _ b => ends_in_open_if b
  | _ => false
  end.

(* declarations are not allowed as the single statement of if / while / for *)
Definition single_statement_ok (s : stmt) : bool :=
  match s with SLet _ _ _ | SFunc _ _ _ _ | SNil => false | _ => true end.

Fixpoint wf_expr (e : expr) : bool :=
  match e with
  | ENil => false
  | EIdent _ | EInt _ | EFloat _ | EString _ _ | ERaw _ _ | EBool _ _ | ENull _ => true
  | ELet _ _ _ => false      (* only as the initializer of a for statement, see wf_stmt *)
  | EBinary t l _ r =>
      match binop_level (t_type t) with
      | Some lv => (lv <=? level l) && (lv <? level r) && wf_expr l && wf_expr r
      | None => false
      end
  | EUnary t _ r =>
      (if (t_type t =? T_INCREMENT) || (t_type t =? T_DECREMENT) then assignable r
       else L_UNARY <=? level r) && wf_expr r
  | EPostfix _ l _ => assignable l && wf_expr l
  | EGroup _ e _ => wf_expr e
  | ECall _ f args => (L_LHS <=? level f) && wf_expr f && wf_exprs wf_expr args
  | EMember _ o p computed => (L_LHS <=? level o) && wf_expr o && (if computed then wf_expr p else true)
  | EAssign _ l v => assignable l && wf_expr l && wf_expr v
  | ECompound _ l _ v => assignable l && wf_expr l && wf_expr v
  | EFunc _ _ _ body => wf_stmt body
  | EArray _ es _ => wf_exprs wf_expr es
  | EObject _ ps _ => wf_props wf_expr ps
  end
with wf_stmt (s : stmt) : bool :=
  match s with
  | SNil => false
  | SLet _ _ v => match v with ENil => true | _ => wf_expr v end
  | SReturn _ v => match v with ENil => true | _ => wf_expr v end
  | SExpr e => wf_expr e
  | SFunc _ _ _ body => wf_stmt body
  | SBlock _ ss _ => wf_stmts wf_stmt ss
  | SIf _ c thn els =>
      wf_expr c && single_statement_ok thn && wf_stmt thn &&
      match els with
      | SNil => true
      | _ => single_statement_ok els && wf_stmt els && negb (ends_in_open_if thn)
      end
  | SWhile _ c b => wf_expr c && single_statement_ok b && wf_stmt b
  | SFor _ i c u b =>
      (match i with
       | ENil => true
       | ELet _ _ v => match v with ENil => true | _ => wf_expr v end
       | _ => wf_expr i end) &&
      (match c with ENil => true | _ => wf_expr c end) &&
      (match u with ENil => true | _ => wf_expr u end) &&
      single_statement_ok b && wf_stmt b
  end.

Definition wf_program (p : program) : bool := wf_stmts wf_stmt (p_stmts p).
