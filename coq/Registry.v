(* Registry.v -- the builders' bookkeeping: dynamic token ids (lexer.Builder) and
   operator registration with duplicate detection (parser.Builder). *)
Require Import Base Token Tree Parser.
Require Import Gen.Tables.

(* ---- lexer.Builder.RegisterTokenType ---- *)
Record lbuilder := mklb { lb_tokens : list (str * Z); lb_next : Z }.
Definition lbuilder_new : lbuilder := mklb [] T_DYNAMIC_TOKENS_START.

Fixpoint lookup_str (l : list (str * Z)) (k : str) : option Z :=
  match l with
  | [] => None
  | (k', v) :: l' => if str_eqb k k' then Some v else lookup_str l' k
  end.

Definition register_token_type (b : lbuilder) (name : str) : Z * lbuilder :=
  match lookup_str (lb_tokens b) name with
  | Some id => (id, b)
  | None => (lb_next b, mklb (lb_tokens b ++ [(name, lb_next b)]) (lb_next b + 1))
  end.

(* ---- parser.Builder ---- *)
Record pbuilder := mkpb {
  pb_prefix_set : list Z;      (* registeredPrefixOps *)
  pb_infix_set : list Z;
  pb_postfix_set : list Z;
  pb_prefix_ops : list Z;      (* in registration order *)
  pb_infix_ops : list (Z * Z);
  pb_postfix_ops : list Z;
  pb_tolerant : bool;
  pb_smart : bool;
  pb_stmt_ics : list stmt_ic;
  pb_expr_ics : list expr_ic
}.

(* NewBuilder: infix set seeded from the keys of the package precedence table *)
Definition pbuilder_new : pbuilder :=
  mkpb builder_Prefix_seed (map fst parser_precedences) builder_Postfix_seed [] [] [] false false [] [].

Inductive bop :=
| BRegPrefix (ty : Z)
| BRegInfix (ty prec : Z)
| BRegPostfix (ty : Z)
| BTolerant (b : bool)
| BSmart (b : bool)
| BUseStmt (ic : stmt_ic)
| BUseExpr (ic : expr_ic).

(* one builder call; the boolean is "an error was returned" *)
Definition pb_step (b : pbuilder) (o : bop) : bool * pbuilder :=
  match o with
  | BRegPrefix ty =>
      if memZ ty (pb_prefix_set b) then (true, b)
      else (false, mkpb (ty :: pb_prefix_set b) (pb_infix_set b) (pb_postfix_set b)
                        (pb_prefix_ops b ++ [ty]) (pb_infix_ops b) (pb_postfix_ops b)
                        (pb_tolerant b) (pb_smart b) (pb_stmt_ics b) (pb_expr_ics b))
  | BRegInfix ty prec =>
      if memZ ty (pb_infix_set b) then (true, b)
      else (false, mkpb (pb_prefix_set b) (ty :: pb_infix_set b) (pb_postfix_set b)
                        (pb_prefix_ops b) (pb_infix_ops b ++ [(ty, prec)]) (pb_postfix_ops b)
                        (pb_tolerant b) (pb_smart b) (pb_stmt_ics b) (pb_expr_ics b))
  | BRegPostfix ty =>
      if memZ ty (pb_postfix_set b) then (true, b)
      else (false, mkpb (pb_prefix_set b) (pb_infix_set b) (ty :: pb_postfix_set b)
                        (pb_prefix_ops b) (pb_infix_ops b) (pb_postfix_ops b ++ [ty])
                        (pb_tolerant b) (pb_smart b) (pb_stmt_ics b) (pb_expr_ics b))
  | BTolerant v => (false, mkpb (pb_prefix_set b) (pb_infix_set b) (pb_postfix_set b)
                        (pb_prefix_ops b) (pb_infix_ops b) (pb_postfix_ops b)
                        v (pb_smart b) (pb_stmt_ics b) (pb_expr_ics b))
  | BSmart v => (false, mkpb (pb_prefix_set b) (pb_infix_set b) (pb_postfix_set b)
                        (pb_prefix_ops b) (pb_infix_ops b) (pb_postfix_ops b)
                        (pb_tolerant b) v (pb_stmt_ics b) (pb_expr_ics b))
  | BUseStmt ic => (false, mkpb (pb_prefix_set b) (pb_infix_set b) (pb_postfix_set b)
                        (pb_prefix_ops b) (pb_infix_ops b) (pb_postfix_ops b)
                        (pb_tolerant b) (pb_smart b) (pb_stmt_ics b ++ [ic]) (pb_expr_ics b))
  | BUseExpr ic => (false, mkpb (pb_prefix_set b) (pb_infix_set b) (pb_postfix_set b)
                        (pb_prefix_ops b) (pb_infix_ops b) (pb_postfix_ops b)
                        (pb_tolerant b) (pb_smart b) (pb_stmt_ics b) (pb_expr_ics b ++ [ic]))
  end.

Fixpoint pb_run (b : pbuilder) (ops : list bop) : list bool * pbuilder :=
  match ops with
  | [] => ([], b)
  | o :: ops' => let '(e, b1) := pb_step b o in let '(es, b2) := pb_run b1 ops' in (e :: es, b2)
  end.

(* Build: the options handed to newWithOptions *)
Definition pb_build (b : pbuilder) : pcfg :=
  mkpcfg (pb_tolerant b) (pb_smart b) (pb_stmt_ics b) (pb_expr_ics b)
         (pb_prefix_ops b) (pb_infix_ops b) (pb_postfix_ops b).

(* ---- token interceptors of the modelled kinds, applied to the token stream ---- *)
Inductive tok_ic := TI_Pass | TI_Probe (id : Z) | TI_Retag (lit : str) (ty : Z).

Definition retag_one (ic : tok_ic) (t : token) : token :=
  match ic with
  | TI_Retag lit ty =>
      if ((t_type t =? T_ILLEGAL) || (t_type t =? T_IDENT)) && str_eqb (t_lit t) lit
      then mktoken ty (t_lit t) (t_start t) (t_end t) (t_nl t) (t_comments t) else t
  | _ => t
  end.

(* installation order = innermost first *)
Definition apply_tok_ics (tics : list tok_ic) (t : token) : token := fold_left (fun t ic => retag_one ic t) tics t.
