(* RelexProofs.v -- proof of the text-level clause of C03: printing an assembled
   expression tree compactly, lexing the text and parsing the tokens yields the tree
   with the printer's parentheses as grouping nodes, up to positions and comments. *)
Require Import Base GoOps Token Lexer LexSpec Tree Writer PrinterLib Compile Parser Grammar
  PrintSpec CommentSpec RelexSpec.
Require Import Gen.Tables Gen.Preds Gen.Printer.
Require Import LexerProofs GrammarProofs PrintProofs.
From Coq Require Import ZifyBool ZifyN ZifyNat Lia.

(* ================================================================== *)
(* 1. the compact writer on states without pendings                    *)
(* ================================================================== *)

Definition cc : wcfg := cfg_compact false.
Definition wrun (st : wstate) (ops : list wop) : wstate := fold_left (wstep cc) ops st.
Definition gs (b : str) (lv : Z) (mp : SourceMap.mapper) : wstate := mkwstate b [] lv mp false.

Lemma wrun_app st a b : wrun st (a ++ b) = wrun (wrun st a) b.
Proof. unfold wrun. apply fold_left_app. Qed.
Lemma wrun_cons st o a : wrun st (o :: a) = wrun (wstep cc st o) a.
Proof. reflexivity. Qed.
Lemma wrun_nil st : wrun st [] = st.
Proof. reflexivity. Qed.

Lemma st_string b lv mp s : wstep cc (gs b lv mp) (WString s) = gs (b ++ s) lv mp.
Proof. reflexivity. Qed.
Lemma st_rune b lv mp c : wstep cc (gs b lv mp) (WRune c) = gs (b ++ [c]) lv mp.
Proof. reflexivity. Qed.
Lemma st_semi b lv mp : wstep cc (gs b lv mp) WSemi = gs (b ++ [59%N]) lv mp.
Proof. reflexivity. Qed.
Lemma st_space b lv mp : wstep cc (gs b lv mp) WSpace = gs b lv mp.
Proof. reflexivity. Qed.
Lemma st_inc b lv mp : wstep cc (gs b lv mp) WIncIndent = gs b lv mp.
Proof. reflexivity. Qed.
Lemma st_dec b lv mp : wstep cc (gs b lv mp) WDecIndent = gs b lv mp.
Proof. reflexivity. Qed.
Lemma st_comments b lv mp cs : wstep cc (gs b lv mp) (WComments cs) = gs b lv mp.
Proof. reflexivity. Qed.
Lemma st_mapping b lv mp p : wstep cc (gs b lv mp) (WMapping p) = gs b lv mp.
Proof. reflexivity. Qed.
Lemma st_named b lv mp x y n : wstep cc (gs b lv mp) (WNamedMapping x y n) = gs b lv mp.
Proof. reflexivity. Qed.

(* the space WAvoidFusion inserts *)
Definition spf (op b : str) : str :=
  match op, rev b with
  | c :: _, last :: _ =>
      if ((N.eqb c 43 || N.eqb c 45) && N.eqb last c)
         || (str_eqb op [45; 45]%N && has_suffix b [60; 33]%N)
      then [32%N] else []
  | _, _ => []
  end.

Lemma st_fusion b lv mp op : wstep cc (gs b lv mp) (WAvoidFusion op) = gs (b ++ spf op b) lv mp.
Proof.
  unfold wstep, spf. cbn [w_panic gs flush_pending w_pend fold_left w_buf w_level w_mapper].
  destruct op as [|c op']; [rewrite app_nil_r; reflexivity|].
  destruct (rev b) as [|last rb]; [rewrite app_nil_r; reflexivity|].
  destruct (((N.eqb c 43 || N.eqb c 45) && N.eqb last c)
            || (str_eqb (c :: op') [45; 45]%N && has_suffix b [60; 33]%N)).
  - reflexivity.
  - rewrite app_nil_r. reflexivity.
Qed.

(* [c] does not fuse with the end of the buffer *)
Definition nofuse (b : str) (c : N) : Prop := (c = 43%N \/ c = 45%N) -> last b 0%N <> c.

Lemma last_rev (b : str) x rb : rev b = x :: rb -> last b 0%N = x.
Proof.
  intro H. assert (E : b = rev rb ++ [x]).
  { rewrite <- (rev_involutive b), H. reflexivity. }
  rewrite E. apply last_last.
Qed.

Lemma spf_cases op b : spf op b = [32%N] \/ (spf op b = [] /\ nofuse b (hd 0%N op)).
Proof.
  unfold spf, nofuse. destruct op as [|c op']; cbn [hd].
  - right. split; [reflexivity|]. intros [H|H]; discriminate H.
  - destruct (rev b) as [|x rb] eqn:E.
    + right. split; [reflexivity|]. intros Hc.
      assert (b = []) by (destruct b; [reflexivity|]; cbn [rev] in E; destruct (rev b); discriminate E).
      subst b. cbn [last]. destruct Hc; subst c; discriminate.
    + apply last_rev in E. rewrite E.
      destruct (((N.eqb c 43 || N.eqb c 45) && N.eqb x c)
                || (str_eqb (c :: op') [45; 45]%N && has_suffix b [60; 33]%N)) eqn:F.
      * left; reflexivity.
      * right. split; [reflexivity|]. intros Hc Hx. rewrite Hx, N.eqb_refl in F.
        destruct Hc; subst c; cbn in F; discriminate F.
Qed.

Lemma nofuse_other b c : c <> 43%N -> c <> 45%N -> nofuse b c.
Proof. intros H1 H2 [H|H]; congruence. Qed.

(* ================================================================== *)
(* 2. sequences of NextToken steps                                     *)
(* ================================================================== *)

Inductive lexes : lx -> list token -> lx -> Prop :=
| lexes_nil l : lexes l [] l
| lexes_cons l t l1 ts l2 :
    next_token l = (t, l1) -> t_type t <> T_EOF ->
    (length (l_rest l1) < length (l_rest l))%nat ->
    lexes l1 ts l2 -> lexes l (t :: ts) l2.

Lemma lexes_app l a l1 b l2 : lexes l a l1 -> lexes l1 b l2 -> lexes l (a ++ b) l2.
Proof.
  induction 1 as [|l t l1' ts l2' N E Ln L IH]; intro H2; [exact H2|].
  cbn [app]. econstructor; eauto.
Qed.

Lemma lexes_one l t l1 : next_token l = (t, l1) -> t_type t <> T_EOF ->
  (length (l_rest l1) < length (l_rest l))%nat -> lexes l [t] l1.
Proof. intros. econstructor; eauto. constructor. Qed.

Lemma lexes_len l ts l' : lexes l ts l' -> (length ts + length (l_rest l') <= length (l_rest l))%nat.
Proof. induction 1; cbn [length]; lia. Qed.

Lemma tokenize_from_lexes l ts l' : lexes l ts l' -> forall f,
  tokenize_from (length ts + f) l =
  match tokenize_from f l' with Some r => Some (ts ++ r) | None => None end.
Proof.
  induction 1 as [l|l t l1 ts l2 N E Ln L IH]; intro f.
  - cbn [length Nat.add app]. destruct (tokenize_from f l); reflexivity.
  - cbn [length Nat.add tokenize_from]. rewrite N.
    destruct (t_type t =? T_EOF) eqn:Q; [apply Z.eqb_eq in Q; contradiction|].
    rewrite IH. destruct (tokenize_from f l2); reflexivity.
Qed.

(* ================================================================== *)
(* 3. trivia in front of a token                                       *)
(* ================================================================== *)

(* the first byte starts a token: no blank, no comment *)
Definition tstart (s : str) : Prop :=
  match s with
  | [] => True
  | c :: r => isWhitespace c = false /\ (c = 47%N -> hd 0%N r <> 47%N)
  end.

Lemma trivia_stop s line col : tstart s ->
  trivia TWs s line col false [] = (s, line, col, false, []).
Proof.
  destruct s as [|c r]; intro H; [reflexivity|]. destruct H as [W S].
  cbn [trivia]. rewrite W.
  destruct (N.eqb c SLASH && N.eqb (hd 0%N r) SLASH) eqn:E; [|reflexivity].
  apply andb_true_iff in E as [E1 E2]. apply N.eqb_eq in E1, E2.
  exfalso. apply (S E1). exact E2.
Qed.

Definition clean (l : lx) : lx := mklx (l_rest l) (l_line l) (l_col l) false [].

Lemma rlc_stop l : tstart (l_rest l) -> read_leading_comments l = clean l.
Proof. intro H. unfold read_leading_comments. rewrite (trivia_stop _ _ _ H). reflexivity. Qed.

Lemma rlc_space l r : l_rest l = 32%N :: r -> tstart r ->
  read_leading_comments l = mklx r (l_line l) (l_col l + 1) false [].
Proof.
  intros H T. unfold read_leading_comments. rewrite H. cbn [trivia].
  change (isWhitespace 32) with true. cbn iota. change (N.eqb 32 LF) with false. cbn iota.
  rewrite (trivia_stop _ _ _ T). reflexivity.
Qed.

(* one token from the text [s ++ K] (the lexeme, or a space and the lexeme) *)
Definition lex1 (s : str) (ty : Z) (lit : str) (K : str) : Prop :=
  forall l, l_rest l = s ++ K ->
    exists t l', next_token l = (t, l') /\ t_type t = ty /\ t_lit t = lit /\ t_nl t = false /\
                 l_rest l' = K.

(* what the scanner proper does on a clean state *)
Definition blex (s : str) (ty : Z) (lit : str) (K : str) : Prop :=
  forall l, l_rest l = s ++ K -> l_had_nl l = false ->
    exists t l', base_next_token l = (t, l') /\ t_type t = ty /\ t_lit t = lit /\ t_nl t = false /\
                 l_rest l' = K.

Lemma lex1_of_blex s ty lit K : tstart (s ++ K) -> blex s ty lit K ->
  lex1 s ty lit K /\ lex1 (32%N :: s) ty lit K.
Proof.
  intros T B. split; intros l Hl.
  - unfold next_token, next_token_with. rewrite rlc_stop by (rewrite Hl; exact T).
    apply B; [exact Hl|reflexivity].
  - unfold next_token, next_token_with. cbn [app] in Hl. rewrite (rlc_space l _ Hl T).
    apply B; reflexivity.
Qed.

(* ================================================================== *)
(* 4. operators and punctuation                                        *)
(* ================================================================== *)

(* the byte [h] after the lexeme [s] does not extend it *)
Definition pbnd (s : str) (h : N) : Prop :=
  match s with
  | [c] => ((c = 61 \/ c = 33 \/ c = 60 \/ c = 62)%N -> h <> 61%N) /\
           (c = 43%N -> h <> 43%N /\ h <> 61%N) /\
           (c = 45%N -> h <> 45%N /\ h <> 61%N) /\
           (c = 47%N -> h <> 47%N)
  | _ => True
  end.

Ltac blex_one :=
  let l := fresh "l" in let Hl := fresh "Hl" in let Hn := fresh "Hn" in
  intros l Hl Hn; cbn [app] in Hl;
  unfold base_next_token; cbv zeta; unfold cur, peek; rewrite Hl; cbn [hd];
  repeat match goal with
  | |- context [N.eqb ?a ?b] =>
      first [ progress (change (N.eqb a b) with true; cbn iota)
            | progress (change (N.eqb a b) with false; cbn iota)
            | let E := fresh "E" in
              destruct (N.eqb_spec a b) as [E|E]; [exfalso; lia|] ]
  end;
  unfold one_char, two_char, new_token, new_token_at, read_char, cur; rewrite Hl;
  cbn [hd l_rest l_line l_col l_had_nl l_comments N.eqb];
  do 2 eexists; split; [reflexivity|];
  cbn [t_type t_lit t_nl l_rest];
  repeat split; try reflexivity; try assumption.

Lemma blex_punct ty s K : type_text ty = Some s -> pbnd s (hd 0%N K) -> blex s ty s K.
Proof.
  unfold type_text.
  repeat match goal with
  | |- (if ty =? ?b then _ else _) = _ -> _ =>
      destruct (Z.eqb_spec ty b) as [->|_];
      [ intro H; inversion H; subst s; clear H; intro P; cbn [pbnd] in P;
        destruct K as [|k K']; cbn [hd] in P | ]
  end; try discriminate.
  all: blex_one.
Qed.

Lemma type_text_tstart ty s K : type_text ty = Some s -> pbnd s (hd 0%N K) -> tstart (s ++ K).
Proof.
  unfold type_text.
  repeat match goal with
  | |- (if ty =? ?b then _ else _) = _ -> _ =>
      destruct (Z.eqb_spec ty b) as [->|_];
      [ intro H; inversion H; subst s; clear H; intro P; cbn [pbnd] in P;
        cbn [app tstart hd]; split; [reflexivity|]; intro C; try discriminate C | ]
  end; try discriminate.
  apply P. reflexivity.
Qed.

Lemma lex1_punct ty s K : type_text ty = Some s -> pbnd s (hd 0%N K) ->
  lex1 s ty s K /\ lex1 (32%N :: s) ty s K.
Proof.
  intros H P. apply lex1_of_blex; [eapply type_text_tstart; eassumption|apply blex_punct; assumption].
Qed.

Lemma lex1_comma K : lex1 [44%N] T_COMMA [44%N] K.
Proof. apply lex1_of_blex; [split; [reflexivity|discriminate]|]. destruct K; blex_one. Qed.
Lemma lex1_semi K : lex1 [59%N] T_SEMICOLON [59%N] K.
Proof. apply lex1_of_blex; [split; [reflexivity|discriminate]|]. destruct K; blex_one. Qed.
Lemma lex1_colon K : lex1 [58%N] T_COLON [58%N] K.
Proof. apply lex1_of_blex; [split; [reflexivity|discriminate]|]. destruct K; blex_one. Qed.

(* facts about operator texts *)
Lemma type_text_nonempty ty s : type_text ty = Some s -> s <> [].
Proof.
  unfold type_text.
  repeat match goal with
  | |- (if ty =? ?b then _ else _) = _ -> _ =>
      destruct (Z.eqb_spec ty b) as [->|_]; [intro H; inversion H; discriminate|]
  end; discriminate.
Qed.

(* ================================================================== *)
(* 5. words: from "lexes alone" to "lexes in context"                  *)
(* ================================================================== *)

Lemma relex_word_inv ty lit : relex_word ty lit = true ->
  exists t l', next_token (lx_init lit) = (t, l') /\ t_type t = ty /\ t_lit t = lit /\ ty <> T_EOF.
Proof.
  unfold relex_word, tokenize. cbn [tokenize_from].
  destruct (next_token (lx_init lit)) as [t l'] eqn:N.
  destruct (t_type t =? T_EOF) eqn:Q; [discriminate|].
  destruct (tokenize_from (length lit) l') as [[|e [|? ?]]|]; try discriminate.
  intro H. apply andb_true_iff in H as [H _]. apply andb_true_iff in H as [H1 H2].
  apply Z.eqb_eq in H1. apply str_eqb_spec in H2. apply Z.eqb_neq in Q.
  exists t, l'. repeat split; congruence.
Qed.

Lemma app_self_mid {A} (g x r : list A) : x = g ++ x ++ r -> g = [] /\ r = [].
Proof.
  intro H. apply (f_equal (@length A)) in H. rewrite !app_length in H.
  destruct g; destruct r; cbn [length] in H; try lia. split; reflexivity.
Qed.

Lemma alone_word ty lit : relex_word ty lit = true -> is_word_type ty = true ->
  exists l1 t l2, l_rest l1 = lit /\ at_eof l1 = false /\ base_next_token l1 = (t, l2) /\
                  t_type t = ty /\ t_lit t = lit /\ l_rest l2 = [].
Proof.
  intros H W. destruct (relex_word_inv _ _ H) as (t & l' & N & Ty & Li & Ne).
  unfold next_token, next_token_with in N.
  destruct (read_leading_comments_spec (lx_init lit)) as (g0 & Hr & _ & _ & _).
  set (l1 := read_leading_comments (lx_init lit)) in *. cbn [lx_init l_rest] in Hr.
  destruct (at_eof l1) eqn:EOF.
  - rewrite (base_next_token_eof l1 EOF) in N. inversion N; subst t. cbn in Ty. congruence.
  - pose proof (base_next_token_P l1 EOF) as (x & A & _ & _ & _ & _ & _ & Wd & _).
    rewrite N in A, Wd. cbn [fst snd] in A, Wd. rewrite Ty in Wd. specialize (Wd W).
    destruct A as (A1 & _ & _). rewrite A1, <- Wd, Li in Hr.
    apply app_self_mid in Hr as [-> Hr2]. cbn [app] in A1. rewrite <- Wd, Li, Hr2, app_nil_r in A1.
    exists l1, t, l'. repeat split; assumption.
Qed.

Lemma base_letter l : isLetter (cur l) = true ->
  base_next_token l =
  (let start := cur_pos l in
   let '(lit, l') := read_identifier l in
   (new_token_at l' (lookup_ident token_keywords lit) lit start, l')).
Proof.
  intro HL. unfold base_next_token. cbv zeta. generalize dependent (cur l). intros c HL.
  repeat match goal with
  | |- context [N.eqb c ?k] =>
      destruct (N.eqb_spec c k) as [E|_]; [rewrite E in HL; discriminate HL|]
  end.
  rewrite HL. reflexivity.
Qed.

Lemma base_digit l : isLetter (cur l) = false -> isDigit (cur l) = true ->
  base_next_token l =
  (let start := cur_pos l in
   let '(lit, ty, l') := read_number l in (new_token_at l' ty lit start, l')).
Proof.
  intros HL HD. unfold base_next_token. cbv zeta. generalize dependent (cur l). intros c HL HD.
  repeat match goal with
  | |- context [N.eqb c ?k] =>
      destruct (N.eqb_spec c k) as [E|_]; [rewrite E in HD; discriminate HD|]
  end.
  rewrite HL, HD. reflexivity.
Qed.

Lemma base_other l : isLetter (cur l) = false -> isDigit (cur l) = false ->
  is_word_type (t_type (fst (base_next_token l))) = false.
Proof.
  intros HL HD. unfold base_next_token. cbv zeta.
  repeat match goal with
  | |- context [if N.eqb ?a ?b then _ else _] => destruct (N.eqb a b)
  end; try reflexivity.
  - unfold string_token. destruct (read_string DQUOTE l) as [[? []] ?]; reflexivity.
  - unfold string_token. destruct (read_string SQUOTE l) as [[? []] ?]; reflexivity.
  - unfold string_token. destruct (read_raw_string l) as [[? []] ?]; reflexivity.
  - destruct (at_eof l); reflexivity.
  - rewrite HL, HD. reflexivity.
Qed.

Lemma read_while_ext p K : forall s col s1 r col',
  read_while p s col = (s1, r, col') -> (r <> [] \/ p (hd 0%N K) = false) ->
  read_while p (s ++ K) col = (s1, r ++ K, col').
Proof.
  induction s as [|c s IH]; intros col s1 r col' H C; cbn [read_while app] in *.
  - inversion H; subst. destruct C as [C|C]; [congruence|].
    destruct K as [|k K']; [reflexivity|]. cbn [hd] in C. cbn [read_while app]. rewrite C. reflexivity.
  - destruct (p c).
    + destruct (read_while p s (col + 1)) as [[s2 r2] c2] eqn:R. inversion H; subst.
      rewrite (IH _ _ _ _ R C). reflexivity.
    + inversion H; subst. reflexivity.
Qed.

Lemma lx_read_while_ext p l s1 l' K lk :
  lx_read_while p l = (s1, l') -> (l_rest l' <> [] \/ p (hd 0%N K) = false) ->
  l_rest lk = l_rest l ++ K -> l_col lk = l_col l ->
  exists lk', lx_read_while p lk = (s1, lk') /\ l_rest lk' = l_rest l' ++ K /\
              l_col lk' = l_col l' /\ l_had_nl lk' = l_had_nl lk.
Proof.
  unfold lx_read_while. intros H C Hr Hc.
  destruct (read_while p (l_rest l) (l_col l)) as [[s r] col] eqn:R. inversion H; subst. clear H.
  cbn [l_rest] in C. rewrite Hr, Hc, (read_while_ext p K _ _ _ _ _ R C).
  eexists; split; [reflexivity|]. cbn [l_rest l_col l_had_nl]. repeat split.
Qed.

Lemma letter_facts c : isLetter c = true -> isWhitespace c = false /\ c <> 47%N /\ c <> 0%N.
Proof. unfold isLetter, isWhitespace. lia. Qed.
Lemma digit_facts c : isDigit c = true -> isWhitespace c = false /\ c <> 47%N /\ c <> 0%N /\ isLetter c = false.
Proof. unfold isDigit, isLetter, isWhitespace. lia. Qed.

Lemma read_while_all p : forall s col, forallb p s = true ->
  read_while p s col = (s, [], col + Z.of_nat (length s)).
Proof.
  induction s as [|c s IH]; intros col H; cbn [read_while forallb length] in *.
  - f_equal. lia.
  - apply andb_true_iff in H as [H1 H2]. rewrite H1, (IH _ H2). f_equal. lia.
Qed.

Lemma read_while_inv p : forall s col s1 r col',
  read_while p s col = (s1, r, col') -> forallb p s1 = true /\ s = s1 ++ r.
Proof.
  induction s as [|c s IH]; intros col s1 r col' H; cbn [read_while] in H.
  - inversion H; subst. split; reflexivity.
  - destruct (p c) eqn:Pc.
    + destruct (read_while p s (col + 1)) as [[s2 r2] c2] eqn:R. inversion H; subst.
      apply IH in R as [R1 R2]. cbn [forallb app]. rewrite Pc, R1, <- R2. split; reflexivity.
    + inversion H; subst. split; reflexivity.
Qed.

Lemma read_while_ctx p s K col : forallb p s = true -> p (hd 0%N K) = false ->
  read_while p (s ++ K) col = (s, K, col + Z.of_nat (length s)).
Proof.
  intros H C. pose proof (read_while_all p s col H) as R.
  apply (read_while_ext p K) in R; [|right; exact C]. exact R.
Qed.

Lemma lex1_word ty lit K : relex_word ty lit = true -> is_word_type ty = true ->
  ty <> T_INT -> ty <> T_FLOAT -> is_ident_char (hd 0%N K) = false ->
  isLetter (hd 0%N lit) = true /\ lex1 lit ty lit K /\ lex1 (32%N :: lit) ty lit K.
Proof.
  intros H W NI NF HK.
  destruct (alone_word _ _ H W) as (l1 & t & l2 & Hr & Ne & B & Ty & Li & R2).
  assert (HL : isLetter (cur l1) = true).
  { destruct (isLetter (cur l1)) eqn:HL; [reflexivity|exfalso].
    destruct (isDigit (cur l1)) eqn:HD.
    - rewrite (base_digit l1 HL HD) in B. cbv zeta in B.
      destruct (read_number l1) as [[s ty'] l'] eqn:RN. inversion B; subst t.
      apply read_number_spec in RN; [|assumption|assumption].
      unfold new_token_at in Ty. cbn [t_type] in Ty. destruct RN as (_ & _ & [?|?]); congruence.
    - pose proof (base_other l1 HL HD) as O. rewrite B in O. cbn [fst] in O. congruence. }
  rewrite (base_letter l1 HL) in B. cbv zeta in B. unfold read_identifier, lx_read_while in B.
  destruct (read_while is_ident_char (l_rest l1) (l_col l1)) as [[s r] col] eqn:RW.
  inversion B; subst t l2. clear B. unfold new_token_at in Ty, Li. cbn [t_type t_lit l_rest] in *. subst s r.
  apply read_while_inv in RW as [All _].
  assert (Hc : cur l1 = hd 0%N lit) by (unfold cur; rewrite Hr; reflexivity).
  rewrite Hc in HL. split; [exact HL|].
  destruct lit as [|c lit']; [discriminate HL|]. cbn [hd] in HL.
  destruct (letter_facts c HL) as (F1 & F2 & F3).
  apply lex1_of_blex; [split; [exact F1|intro; congruence]|].
  intros l Hl Hn.
  assert (HLl : isLetter (cur l) = true) by (unfold cur; rewrite Hl; exact HL).
  rewrite (base_letter l HLl). cbv zeta. unfold read_identifier, lx_read_while.
  rewrite Hl, (read_while_ctx _ _ _ _ All HK).
  do 2 eexists. split; [reflexivity|]. unfold new_token_at. cbn [t_type t_lit t_nl l_rest l_had_nl].
  repeat split; assumption.
Qed.

(* ================================================================== *)
(* 6. scanning the same text followed by a continuation                *)
(* ================================================================== *)

(* [lb] reads the text of [la] followed by [K] *)
Definition ext (K : str) (la lb : lx) : Prop := l_rest lb = l_rest la ++ K.

Lemma ext_cur K la lb : ext K la lb -> l_rest la <> [] -> cur lb = cur la.
Proof. unfold ext, cur. intros -> H. destruct (l_rest la); [congruence|reflexivity]. Qed.

Lemma ext_cur_end K la lb : ext K la lb -> l_rest la = [] -> cur la = 0%N /\ cur lb = hd 0%N K.
Proof. unfold ext, cur. intros -> H. rewrite H. split; reflexivity. Qed.

Lemma ext_peek K la lb c d r : ext K la lb -> l_rest la = c :: d :: r -> peek lb = peek la.
Proof. unfold ext, peek. intros -> H. rewrite H. reflexivity. Qed.

Lemma ext_peek_one K la lb c : ext K la lb -> l_rest la = [c] -> peek la = 0%N /\ peek lb = hd 0%N K.
Proof. unfold ext, peek. intros -> H. rewrite H. cbn [app]. destruct K; split; reflexivity. Qed.

Lemma ext_read_char K la lb : ext K la lb -> l_rest la <> [] ->
  ext K (read_char la) (read_char lb) /\ l_had_nl (read_char lb) = l_had_nl lb.
Proof.
  unfold ext, read_char. intros E H. rewrite E.
  destruct (l_rest la) as [|c r]; [congruence|]. cbn [app].
  destruct (N.eqb c LF); cbn [l_rest l_had_nl]; split; reflexivity.
Qed.

Lemma read_char_had l : l_had_nl (read_char l) = l_had_nl l.
Proof. unfold read_char. destruct (l_rest l) as [|c r]; [reflexivity|]. destruct (N.eqb c LF); reflexivity. Qed.

Lemma ext_at_eof K la lb : ext K la lb -> l_rest la <> [] -> at_eof lb = false.
Proof. unfold ext, at_eof. intros -> H. destruct (l_rest la); [congruence|reflexivity]. Qed.

Lemma read_while_col p : forall s col s1 r col' col2,
  read_while p s col = (s1, r, col') -> exists c2, read_while p s col2 = (s1, r, c2).
Proof.
  induction s as [|c s IH]; intros col s1 r col' col2 H; cbn [read_while] in *.
  - inversion H; subst. eexists; reflexivity.
  - destruct (p c).
    + destruct (read_while p s (col + 1)) as [[s2 r2] c2] eqn:R. inversion H; subst.
      destruct (IH _ _ _ _ (col2 + 1) R) as [c3 R3]. rewrite R3. eexists; reflexivity.
    + inversion H; subst. eexists; reflexivity.
Qed.

Lemma ext_read_while K p la lb s la' : ext K la lb ->
  lx_read_while p la = (s, la') -> (l_rest la' <> [] \/ p (hd 0%N K) = false) ->
  exists lb', lx_read_while p lb = (s, lb') /\ ext K la' lb' /\ l_had_nl lb' = l_had_nl lb.
Proof.
  unfold ext, lx_read_while. intros E H C.
  destruct (read_while p (l_rest la) (l_col la)) as [[s1 r1] c1] eqn:R. inversion H; subst. clear H.
  cbn [l_rest] in C.
  destruct (read_while_col p _ _ _ _ _ (l_col lb) R) as [c2 R2].
  apply (read_while_ext p K) in R2; [|exact C].
  rewrite E, R2. eexists. split; [reflexivity|]. split; reflexivity.
Qed.

(* expressions that may be the object of a member access without parentheses; a '.' directly
   behind one of them starts a member access unless it is a decimal integer literal (the lexer
   reads "1." as a number) *)
Definition obj_ok (g : expr) : bool :=
  match g with
  | ENil | ELet _ _ _ | EBinary _ _ _ _ | EUnary _ _ _ | EPostfix _ _ _ | EAssign _ _ _ | ECompound _ _ _ _ => false
  | _ => true
  end.
Definition dot_ok (g : expr) : bool := obj_ok g && negb (is_decimal_int g).

(* what may follow the text of the expression [g]: no identifier byte, and a dot only behind an
   expression that can take one *)
Definition kont (g : expr) (K : str) : Prop :=
  is_ident_char (hd 0%N K) = false /\ (hd 0%N K = 46%N -> dot_ok g = true).

Lemma dot_ok_int t : dot_ok (EInt t) = true -> forallb isDigit (t_lit t) = false.
Proof. unfold dot_ok. cbn [obj_ok is_decimal_int andb]. intro H. apply negb_true_iff in H. exact H. Qed.

Lemma dot_ok_groupify e : dot_ok (groupify e) = dot_ok e.
Proof. unfold dot_ok. rewrite is_decimal_int_groupify. destruct e; reflexivity. Qed.

(* operands of call level or tighter can take a member access *)
Lemma obj_ok_prec o : printable o = true -> (A_PrecedenceCall <=? prec_of o) = true -> obj_ok o = true.
Proof.
  destruct o; try reflexivity; intros Hp H; exfalso; try discriminate Hp; try (vm_compute in H; discriminate H).
  cbn [printable] in Hp. destruct (binop_level (t_type t)) as [lv|] eqn:Hb; [|discriminate Hp].
  rewrite (prec_of_binary _ _ _ _ _ Hb) in H. pose proof (binop_level_range _ _ Hb). unfold A_PrecedenceCall in H. lia.
Qed.

Lemma obj_ok_level e : (L_LHS <=? level e) = true -> obj_ok e = true.
Proof.
  destruct e; try reflexivity; cbn [level]; intro H; exfalso; try (vm_compute in H; discriminate H).
  destruct (binop_level (t_type t)) as [lv|] eqn:Hb; [|vm_compute in H; discriminate H].
  pose proof (binop_level_range _ _ Hb). unfold L_LHS in H. lia.
Qed.

Lemma kont_sub g g' K : kont g K -> dot_ok g = false -> kont g' K.
Proof. intros [H1 H2] D. split; [exact H1|]. intro Q. rewrite (H2 Q) in D. discriminate D. Qed.
Lemma kont_nic g K : kont g K -> is_ident_char (hd 0%N K) = false.
Proof. intros [H _]. exact H. Qed.

Lemma ext_peekq K la lb (q : N -> bool) : ext K la lb -> l_rest la <> [] ->
  q 0%N = false -> q (hd 0%N K) = false -> q (peek lb) = q (peek la).
Proof.
  intros E Hne Q0 QK. destruct (l_rest la) as [|c [|d r]] eqn:R; [congruence| |].
  - destruct (ext_peek_one _ _ _ _ E R) as [-> ->]. congruence.
  - rewrite (ext_peek _ _ _ _ _ _ E R). reflexivity.
Qed.

Lemma read_based_ext K isd la lb s la' : ext K la lb -> peek la <> 0%N -> isd (hd 0%N K) = false ->
  read_based_number isd la = (s, la') ->
  exists lb', read_based_number isd lb = (s, lb') /\ ext K la' lb' /\ l_had_nl lb' = l_had_nl lb.
Proof.
  intros E Hp HK H. unfold read_based_number in *.
  destruct (peek_nz la Hp) as [r Hr].
  assert (N1 : l_rest la <> []) by (rewrite Hr; discriminate).
  destruct (ext_read_char _ _ _ E N1) as [E1 D1].
  destruct (read_char_cons la _ _ Hr) as [_ R1].
  assert (N2 : l_rest (read_char la) <> []) by (rewrite R1; discriminate).
  destruct (ext_read_char _ _ _ E1 N2) as [E2 D2].
  destruct (lx_read_while isd (read_char (read_char la))) as [ds l3] eqn:W.
  destruct (ext_read_while _ _ _ _ _ _ E2 W (or_intror HK)) as (lb3 & W3 & E3 & D3).
  rewrite W3, (ext_cur _ _ _ E N1), (ext_cur _ _ _ E1 N2).
  inversion H; subst. eexists. split; [reflexivity|]. split; [exact E3|congruence].
Qed.

Lemma last_app_ne (a b : str) : b <> [] -> last (a ++ b) 0%N = last b 0%N.
Proof.
  intro H. destruct (exists_last H) as (b' & x & ->). rewrite app_assoc, !last_last. reflexivity.
Qed.

Lemma last_end3 (a b : str) e : last (a ++ b ++ [e]) 0%N = e.
Proof. rewrite app_assoc. apply last_last. Qed.
Lemma last_end4 (a b : str) e x : last (a ++ b ++ [e; x]) 0%N = x.
Proof. change [e; x] with ([e] ++ [x]). rewrite !app_assoc. apply last_last. Qed.

Lemma read_exp_ext K ip fp ty1 la2 lb2 lit ty la' : ext K la2 lb2 -> is_ident_char (hd 0%N K) = false ->
  (if ch 101 la2 || ch 69 la2 then
      let e := cur la2 in
      let l3 := read_char la2 in
      let '(sg, l4) := if ch 43 l3 || ch 45 l3 then ([cur l3], read_char l3) else ([], l3) in
      if negb (isDigit (cur l4)) then (ip ++ fp ++ [e] ++ sg, T_FLOAT, l4)
      else
        let '(ed, l5) := lx_read_while isDigit l4 in
        (ip ++ fp ++ [e] ++ sg ++ ed, T_FLOAT, l5)
    else (ip ++ fp, ty1, la2)) = (lit, ty, la') ->
  l_rest la' = [] -> (ty = T_FLOAT -> isDigit (last lit 0%N) = true \/ last lit 0%N = 46%N) ->
  exists lb',
  (if ch 101 lb2 || ch 69 lb2 then
      let e := cur lb2 in
      let l3 := read_char lb2 in
      let '(sg, l4) := if ch 43 l3 || ch 45 l3 then ([cur l3], read_char l3) else ([], l3) in
      if negb (isDigit (cur l4)) then (ip ++ fp ++ [e] ++ sg, T_FLOAT, l4)
      else
        let '(ed, l5) := lx_read_while isDigit l4 in
        (ip ++ fp ++ [e] ++ sg ++ ed, T_FLOAT, l5)
    else (ip ++ fp, ty1, lb2)) = (lit, ty, lb') /\ l_rest lb' = K /\ l_had_nl lb' = l_had_nl lb2.
Proof.
  intros E K1 H Hend Hfl.
  assert (KD : isDigit (hd 0%N K) = false) by (unfold is_ident_char in K1; lia).
  destruct (l_rest la2) as [|c2 r2] eqn:R2.
  { destruct (ext_cur_end _ _ _ E R2) as [C1 C2]. unfold ch in *. rewrite C1 in H. rewrite C2.
    change ((0 =? 101)%N || (0 =? 69)%N) with false in H. cbn iota in H.
    replace ((hd 0%N K =? 101)%N || (hd 0%N K =? 69)%N) with false
      by (unfold is_ident_char, isLetter in K1; lia).
    inversion H; subst. eexists. split; [reflexivity|]. split; [|reflexivity].
    rewrite E, R2. reflexivity. }
  assert (N2 : l_rest la2 <> []) by (rewrite R2; discriminate).
  pose proof (ext_cur _ _ _ E N2) as C2. unfold ch in *. rewrite C2.
  destruct ((cur la2 =? 101)%N || (cur la2 =? 69)%N) eqn:EE.
  2:{ inversion H; subst. rewrite R2 in Hend. discriminate Hend. }
  cbv zeta in *.
  destruct (ext_read_char _ _ _ E N2) as [E3 D3].
  set (la3 := read_char la2) in *. set (lb3 := read_char lb2) in *.
  destruct (l_rest la3) as [|c3 r3] eqn:R3.
  { exfalso. assert (C3 : cur la3 = 0%N) by (unfold cur; rewrite R3; reflexivity).
    rewrite C3 in H. change ((0 =? 43)%N || (0 =? 45)%N) with false in H. cbn iota in H.
    rewrite C3 in H. change (negb (isDigit 0)) with true in H. cbn iota in H.
    inversion H; subst. specialize (Hfl eq_refl).
    cbn [app] in Hfl. rewrite ?app_nil_r in Hfl. rewrite last_end3 in Hfl. unfold isDigit in Hfl. lia. }
  assert (N3 : l_rest la3 <> []) by (rewrite R3; discriminate).
  pose proof (ext_cur _ _ _ E3 N3) as C3. rewrite C3.
  assert (S : exists sg la4 lb4,
            (if (cur la3 =? 43)%N || (cur la3 =? 45)%N then ([cur la3], read_char la3) else ([], la3)) = (sg, la4) /\
            (if (cur la3 =? 43)%N || (cur la3 =? 45)%N then ([cur la3], read_char lb3) else ([], lb3)) = (sg, lb4) /\
            ext K la4 lb4 /\ l_had_nl lb4 = l_had_nl lb2 /\
            (sg = [] \/ exists x, sg = [x] /\ (x = 43 \/ x = 45)%N)).
  { destruct ((cur la3 =? 43)%N || (cur la3 =? 45)%N) eqn:SG.
    - destruct (ext_read_char _ _ _ E3 N3) as [E4 D4].
      do 3 eexists. split; [reflexivity|]. split; [reflexivity|]. split; [exact E4|].
      split; [congruence|]. right. eexists. split; [reflexivity|lia].
    - do 3 eexists. split; [reflexivity|]. split; [reflexivity|]. split; [exact E3|].
      split; [exact D3|]. left; reflexivity. }
  destruct S as (sg & la4 & lb4 & S1 & S2 & E4 & D4 & Sg). rewrite S1 in H. rewrite S2.
  destruct (l_rest la4) as [|c4 r4] eqn:R4.
  { exfalso. assert (C4 : cur la4 = 0%N) by (unfold cur; rewrite R4; reflexivity).
    rewrite C4 in H. change (negb (isDigit 0)) with true in H. cbn iota in H.
    inversion H; subst. specialize (Hfl eq_refl).
    destruct Sg as [->|(x & -> & Hx)]; cbn [app] in Hfl; rewrite ?app_nil_r in Hfl;
      rewrite ?last_end3, ?last_end4 in Hfl; unfold isDigit in Hfl; lia. }
  assert (N4 : l_rest la4 <> []) by (rewrite R4; discriminate).
  rewrite (ext_cur _ _ _ E4 N4).
  destruct (negb (isDigit (cur la4))).
  { inversion H; subst. rewrite R4 in Hend. discriminate Hend. }
  destruct (lx_read_while isDigit la4) as [ed la5] eqn:W.
  destruct (ext_read_while _ _ _ _ _ _ E4 W (or_intror KD)) as (lb5 & W5 & E5 & D5).
  rewrite W5. inversion H; subst. eexists. split; [reflexivity|]. split; [|congruence].
  rewrite E5, Hend. reflexivity.
Qed.

Lemma nic_split c : is_ident_char c = false -> isLetter c = false /\ isDigit c = false.
Proof. unfold is_ident_char. intro H. apply orb_false_iff in H. exact H. Qed.
Lemma nic_hex c : is_ident_char c = false -> isHexDigit c = false.
Proof. intro H. apply nic_split in H as [H1 H2]. unfold isLetter, isDigit, isHexDigit in *. lia. Qed.
Lemma nic_bin c : is_ident_char c = false -> isBinaryDigit c = false.
Proof. intro H. apply nic_split in H as [H1 H2]. unfold isDigit, isBinaryDigit in *. lia. Qed.
Lemma nic_oct c : is_ident_char c = false -> isOctalDigit c = false.
Proof. intro H. apply nic_split in H as [H1 H2]. unfold isDigit, isOctalDigit in *. lia. Qed.
Lemma nic_q1 c : is_ident_char c = false -> (c =? 120)%N || (c =? 88)%N = false.
Proof. intro H. apply nic_split in H as [H1 _]. unfold isLetter in *. lia. Qed.
Lemma nic_q2 c : is_ident_char c = false -> (c =? 98)%N || (c =? 66)%N = false.
Proof. intro H. apply nic_split in H as [H1 _]. unfold isLetter in *. lia. Qed.
Lemma nic_q3 c : is_ident_char c = false -> (c =? 111)%N || (c =? 79)%N = false.
Proof. intro H. apply nic_split in H as [H1 _]. unfold isLetter in *. lia. Qed.
Lemma nic_qe c : is_ident_char c = false -> (c =? 101)%N || (c =? 69)%N = false.
Proof. intro H. apply nic_split in H as [H1 _]. unfold isLetter in *. lia. Qed.

Lemma based_peek_nz (c p : N) a b : (c =? 48)%N && ((p =? a)%N || (p =? b)%N) = true ->
  a <> 0%N -> b <> 0%N -> p <> 0%N.
Proof. lia. Qed.

Lemma read_number_ext K la lb lit ty la' : ext K la lb -> is_ident_char (hd 0%N K) = false ->
  (hd 0%N K = 46%N -> ty <> T_INT \/ forallb isDigit lit = false) -> l_rest la <> [] ->
  read_number la = (lit, ty, la') -> l_rest la' = [] ->
  (ty = T_FLOAT -> isDigit (last lit 0%N) = true \/ last lit 0%N = 46%N) ->
  exists lb', read_number lb = (lit, ty, lb') /\ l_rest lb' = K /\ l_had_nl lb' = l_had_nl lb.
Proof.
  intros E K1 K2 Hne H Hend Hfl. pose proof K1 as KK.
  pose proof (nic_split _ K1) as [_ KD].
  unfold read_number in *. cbv zeta in *.
  pose proof (ext_cur _ _ _ E Hne) as C. unfold ch in *. rewrite C.
  pose proof (ext_peekq _ _ _ (fun p => N.eqb p 120 || N.eqb p 88) E Hne eq_refl (nic_q1 _ K1)) as Q1.
  pose proof (ext_peekq _ _ _ (fun p => N.eqb p 98 || N.eqb p 66) E Hne eq_refl (nic_q2 _ K1)) as Q2.
  pose proof (ext_peekq _ _ _ (fun p => N.eqb p 111 || N.eqb p 79) E Hne eq_refl (nic_q3 _ K1)) as Q3.
  cbv beta in Q1, Q2, Q3.
  rewrite Q1, Q2, Q3. clear Q1 Q2 Q3.
  destruct ((cur la =? 48)%N && ((peek la =? 120)%N || (peek la =? 88)%N)) eqn:B1.
  { destruct (read_based_number isHexDigit la) as [s1 l1] eqn:RB. inversion H; subst.
    apply (read_based_ext K _ _ lb) in RB;
      [|exact E|eapply based_peek_nz; [exact B1|discriminate|discriminate]|apply nic_hex; exact K1].
    destruct RB as (lb' & -> & E' & D'). eexists. split; [reflexivity|]. split; [|exact D'].
    rewrite E', Hend. reflexivity. }
  destruct ((cur la =? 48)%N && ((peek la =? 98)%N || (peek la =? 66)%N)) eqn:B2.
  { destruct (read_based_number isBinaryDigit la) as [s1 l1] eqn:RB. inversion H; subst.
    apply (read_based_ext K _ _ lb) in RB;
      [|exact E|eapply based_peek_nz; [exact B2|discriminate|discriminate]|apply nic_bin; exact K1].
    destruct RB as (lb' & -> & E' & D'). eexists. split; [reflexivity|]. split; [|exact D'].
    rewrite E', Hend. reflexivity. }
  destruct ((cur la =? 48)%N && ((peek la =? 111)%N || (peek la =? 79)%N)) eqn:B3.
  { destruct (read_based_number isOctalDigit la) as [s1 l1] eqn:RB. inversion H; subst.
    apply (read_based_ext K _ _ lb) in RB;
      [|exact E|eapply based_peek_nz; [exact B3|discriminate|discriminate]|apply nic_oct; exact K1].
    destruct RB as (lb' & -> & E' & D'). eexists. split; [reflexivity|]. split; [|exact D'].
    rewrite E', Hend. reflexivity. }
  clear B1 B2 B3.
  destruct (lx_read_while isDigit la) as [ip la1] eqn:W1.
  destruct (ext_read_while _ _ _ _ _ _ E W1 (or_intror KD)) as (lb1 & W1b & E1 & D1). rewrite W1b.
  assert (Hip : forallb isDigit ip = true).
  { unfold lx_read_while in W1. destruct (read_while isDigit (l_rest la) (l_col la)) as [[s1 r1] c1] eqn:RW.
    inversion W1; subst. exact (proj1 (read_while_inv _ _ _ _ _ _ RW)). }
  assert (F : (cur lb1 =? 46)%N = (cur la1 =? 46)%N).
  { destruct (l_rest la1) as [|c r] eqn:R1.
    - destruct (ext_cur_end _ _ _ E1 R1) as [C1 C2]. rewrite C1, C2. change ((0 =? 46)%N) with false.
      destruct (N.eqb_spec (hd 0%N K) 46) as [Q|Q]; [exfalso|reflexivity].
      (* the literal alone was the digits read so far: a dot behind it is excluded *)
      assert (C0 : cur la1 = 0%N) by exact C1.
      rewrite C0 in H. change ((0 =? 46)%N) with false in H. cbn iota in H.
      rewrite C0 in H. change ((0 =? 101)%N || (0 =? 69)%N) with false in H. cbn iota in H.
      inversion H; subst. destruct (K2 Q) as [N|N]; [congruence|].
      rewrite app_nil_r in N. rewrite N in Hip. discriminate Hip.
    - assert (N1 : l_rest la1 <> []) by (rewrite R1; discriminate).
      rewrite (ext_cur _ _ _ E1 N1). reflexivity. }
  rewrite F. destruct ((cur la1 =? 46)%N) eqn:Fc.
  - assert (N1 : l_rest la1 <> []).
    { intro R1. unfold cur in Fc. rewrite R1 in Fc. cbn in Fc. discriminate Fc. }
    destruct (ext_read_char _ _ _ E1 N1) as [Ed Dd].
    destruct (lx_read_while isDigit (read_char la1)) as [fd la2] eqn:W2.
    destruct (ext_read_while _ _ _ _ _ _ Ed W2 (or_intror KD)) as (lb2 & W2b & E2 & D2). rewrite W2b.
    destruct (read_exp_ext K ip (46%N :: fd) T_FLOAT la2 lb2 lit ty la' E2 KK H Hend Hfl)
      as (lb' & Hx & R' & D').
    exists lb'. split; [exact Hx|]. split; [exact R'|congruence].
  - destruct (read_exp_ext K ip [] T_INT la1 lb1 lit ty la' E1 KK H Hend Hfl)
      as (lb' & Hx & R' & D').
    exists lb'. split; [exact Hx|]. split; [exact R'|congruence].
Qed.

(* a literal strconv accepts as a float ends in a digit *)
Lemma take_digits_spec : forall s d r, take_digits s = (d, r) ->
  s = d ++ r /\ (d <> [] -> isDigit (last d 0%N) = true).
Proof.
  induction s as [|c s IH]; intros d r H; cbn [take_digits] in H.
  - inversion H; subst. split; [reflexivity|congruence].
  - destruct ((48 <=? c)%N && (c <=? 57)%N) eqn:D.
    + destruct (take_digits s) as [d1 r1] eqn:T. inversion H; subst.
      destruct (IH _ _ eq_refl) as [-> L]. split; [reflexivity|]. intros _.
      destruct d1 as [|x d1']; [exact D|]. apply L. discriminate.
    + inversion H; subst. split; [reflexivity|congruence].
Qed.

Lemma last_app_digit (a d : str) : d <> [] -> isDigit (last d 0%N) = true ->
  isDigit (last (a ++ d) 0%N) = true.
Proof. intros H L. rewrite last_app_ne by exact H. exact L. Qed.

Definition frac_part (r1 : str) : str * str :=
  match r1 with 46%N :: r => take_digits r | _ => ([], r1) end.
Definition has_dot (r1 : str) : bool := match r1 with 46%N :: _ => true | _ => false end.
Definition exp_part (r2 : str) : Z * str * str * bool :=
  match r2 with
  | c :: r =>
      if N.eqb c 101 || N.eqb c 69 then
        match r with
        | 45%N :: r' => let '(d, r'') := take_digits r' in (-1, d, r'', true)
        | 43%N :: r' => let '(d, r'') := take_digits r' in (1, d, r'', true)
        | _ => let '(d, r'') := take_digits r in (1, d, r'', true)
        end
      else (1, [], r2, false)
  | [] => (1, [], [], false)
  end.
Definition gf_final (ip fp : str) (hasdot : bool) (x : Z * str * str * bool) : bool :=
  let '(esign, ed, r3, has_exp) := x in
  match ip, r3 with
  | [], _ => false
  | _, _ :: _ => false
  | _, [] =>
      if has_exp && (match ed with [] => true | _ => false end) then false
      else
        match digits_value 10 (ip ++ fp) 0, digits_value 10 ed 0 with
        | Some m, Some e =>
            if m =? 0 then true
            else
              let k := esign * e - Z.of_nat (length fp) in
              if 400 <? k then false
              else if k <? - 1500 then true
              else if 0 <=? k then m * 10 ^ k <? float_overflow_threshold
              else m <? float_overflow_threshold * 10 ^ (- k)
        | _, _ => false
        end
  end.

Lemma go_float_unfold lit : strconv_float_ok lit =
  let '(ip, r1) := take_digits lit in
  let '(fp, r2) := frac_part r1 in gf_final ip fp (has_dot r1) (exp_part r2).
Proof. reflexivity. Qed.

Lemma frac_part_spec r1 fp r2 : frac_part r1 = (fp, r2) ->
  (has_dot r1 = true /\ r1 = 46%N :: fp ++ r2 /\ (fp <> [] -> isDigit (last fp 0%N) = true)) \/
  (has_dot r1 = false /\ fp = [] /\ r2 = r1).
Proof.
  destruct r1 as [|c r]; [intro H; inversion H; right; repeat split|].
  destruct (N.eqb_spec c 46) as [->|Nc].
  - cbn [frac_part has_dot]. intro T. apply take_digits_spec in T as [-> L]. left. repeat split. exact L.
  - intro H. right. unfold frac_part, has_dot in *.
    destruct c as [|p]; [inversion H; repeat split|].
    do 6 (destruct p as [p|p|]; try (inversion H; repeat split; fail)). congruence.
Qed.

Lemma exp_part_spec r2 sg ed r3 he : exp_part r2 = (sg, ed, r3, he) ->
  (he = false /\ r3 = r2) \/
  (he = true /\ exists pre, pre <> [] /\ r2 = pre ++ ed ++ r3 /\ (ed <> [] -> isDigit (last ed 0%N) = true)).
Proof.
  unfold exp_part. destruct r2 as [|c r]; [intro H; inversion H; left; split; reflexivity|].
  destruct (N.eqb c 101 || N.eqb c 69); [|intro H; inversion H; left; split; reflexivity].
  assert (G : forall sgn (pre r' : str), pre <> [] ->
            (let '(d, r'') := take_digits r' in (sgn, d, r'', true)) = (sg, ed, r3, he) ->
            he = true /\ exists pre0, pre0 <> [] /\ pre ++ r' = pre0 ++ ed ++ r3 /\
                                      (ed <> [] -> isDigit (last ed 0%N) = true)).
  { intros sgn pre r' Np H. destruct (take_digits r') as [d r''] eqn:T. inversion H; subst.
    apply take_digits_spec in T as [-> L]. split; [reflexivity|]. exists pre. repeat split; assumption. }
  destruct r as [|s r'].
  - intro H. right. apply (G 1 [c] []); [discriminate|exact H].
  - intro H. right.
    destruct (N.eqb_spec s 45) as [->|N45]; [apply (G (-1) [c; 45%N] r'); [discriminate|exact H]|].
    destruct (N.eqb_spec s 43) as [->|N43]; [apply (G 1 [c; 43%N] r'); [discriminate|exact H]|].
    apply (G 1 [c] (s :: r')); [discriminate|].
    destruct s as [|p]; [exact H|].
    do 6 (destruct p as [p|p|]; try exact H); congruence.
Qed.

Lemma gf_final_true ip fp hd_ sg ed r3 he : gf_final ip fp hd_ (sg, ed, r3, he) = true ->
  ip <> [] /\ r3 = [] /\ (he = true -> ed <> []).
Proof.
  unfold gf_final. destruct ip as [|x ip']; [discriminate|]. destruct r3; [|discriminate].
  destruct he; destruct ed; cbn [andb]; try discriminate; intros _;
    repeat split; congruence.
Qed.

(* a literal strconv accepts as a float ends in a digit or, with an empty fraction, in its dot *)
Lemma go_float_last lit : go_float_ok lit = true -> isDigit (last lit 0%N) = true \/ last lit 0%N = 46%N.
Proof.
  unfold go_float_ok. intro Hgf. apply andb_true_iff in Hgf as [Hgf _]. revert Hgf.
  rewrite go_float_unfold.
  destruct (take_digits lit) as [ip r1] eqn:T1. apply take_digits_spec in T1 as [-> Lip].
  destruct (frac_part r1) as [fp r2] eqn:F.
  destruct (exp_part r2) as [[[sg ed] r3] he] eqn:X.
  intro H. apply gf_final_true in H as (Nip & -> & He).
  apply exp_part_spec in X.
  assert (T : forall a : str, a <> [] -> (isDigit (last a 0%N) = true \/ last a 0%N = 46%N) ->
              isDigit (last (a ++ r2) 0%N) = true \/ last (a ++ r2) 0%N = 46%N).
  { intros a Na La. destruct X as [[-> <-]|(-> & pre & Np & -> & Led)].
    - rewrite app_nil_r. exact La.
    - left. rewrite app_nil_r. rewrite app_assoc. apply last_app_digit; [apply He; reflexivity|].
      apply Led. apply He. reflexivity. }
  apply frac_part_spec in F as [(D & -> & Lfp)|(D & -> & ->)].
  - change (ip ++ 46%N :: fp ++ r2) with (ip ++ [46%N] ++ fp ++ r2). rewrite !app_assoc.
    apply T.
    + destruct ip; discriminate.
    + destruct fp as [|f0 fp'].
      * right. rewrite app_nil_r. apply last_last.
      * left. apply last_app_digit; [discriminate|]. apply Lfp. discriminate.
  - apply T; [exact Nip|left; apply Lip; exact Nip].
Qed.

Lemma is_word_int : is_word_type T_INT = true. Proof. reflexivity. Qed.
Lemma is_word_float : is_word_type T_FLOAT = true. Proof. reflexivity. Qed.

Lemma lookup_not_number s : lookup_ident token_keywords s <> T_INT /\ lookup_ident token_keywords s <> T_FLOAT.
Proof.
  split; (apply lookup_ident_ne; [unfold token_keywords; repeat constructor; discriminate|discriminate]).
Qed.

Lemma lex1_number ty lit K : relex_word ty lit = true -> (ty = T_INT \/ ty = T_FLOAT) ->
  (ty = T_FLOAT -> go_float_ok lit = true) ->
  is_ident_char (hd 0%N K) = false -> (hd 0%N K = 46%N -> ty <> T_INT \/ forallb isDigit lit = false) ->
  isDigit (hd 0%N lit) = true /\ lex1 lit ty lit K /\ lex1 (32%N :: lit) ty lit K.
Proof.
  intros H Hty Hfl KK K46.
  assert (W : is_word_type ty = true) by (destruct Hty; subst ty; reflexivity).
  destruct (alone_word _ _ H W) as (l1 & t & l2 & Hr & Ne & B & Ty & Li & R2).
  assert (HL : isLetter (cur l1) = false).
  { destruct (isLetter (cur l1)) eqn:HL; [exfalso|reflexivity].
    rewrite (base_letter l1 HL) in B. cbv zeta in B.
    destruct (read_identifier l1) as [s l'] eqn:RI. inversion B; subst t.
    assert (Ty' : lookup_ident token_keywords s = ty) by exact Ty. clear Ty.
    destruct (lookup_not_number s). destruct Hty; congruence. }
  assert (HD : isDigit (cur l1) = true).
  { destruct (isDigit (cur l1)) eqn:HD; [reflexivity|exfalso].
    pose proof (base_other l1 HL HD) as O. rewrite B in O. cbn [fst] in O.
    rewrite Ty, W in O. discriminate O. }
  rewrite (base_digit l1 HL HD) in B. cbv zeta in B.
  destruct (read_number l1) as [[s ty'] l'] eqn:RN. inversion B; subst t l'. clear B.
  unfold new_token_at in Ty, Li. cbn [t_type t_lit] in Ty, Li. subst s ty'.
  assert (Hc : cur l1 = hd 0%N lit) by (unfold cur; rewrite Hr; reflexivity).
  rewrite Hc in HL, HD. split; [exact HD|].
  destruct lit as [|c lit']; [discriminate HD|]. cbn [hd] in HL, HD.
  destruct (digit_facts c HD) as (F1 & F2 & F3 & F4).
  apply lex1_of_blex; [split; [exact F1|intro; congruence]|].
  intros l Hl Hn.
  assert (HLl : isLetter (cur l) = false) by (unfold cur; rewrite Hl; exact HL).
  assert (HDl : isDigit (cur l) = true) by (unfold cur; rewrite Hl; exact HD).
  rewrite (base_digit l HLl HDl). cbv zeta.
  assert (E : ext K l1 l) by (unfold ext; rewrite Hl, Hr; reflexivity).
  assert (N1 : l_rest l1 <> []) by (rewrite Hr; discriminate).
  destruct (read_number_ext K l1 l _ _ _ E KK K46 N1 RN R2) as (lb' & RNb & Rb & Db).
  { intro Tf. apply go_float_last. apply Hfl. exact Tf. }
  rewrite RNb. do 2 eexists. split; [reflexivity|]. unfold new_token_at.
  cbn [t_type t_lit t_nl l_rest l_had_nl]. repeat split; try assumption. congruence.
Qed.

(* ================================================================== *)
(* 7. string scanners on an extended input                             *)
(* ================================================================== *)

Lemma read_char_rest l : l_rest (read_char l) = tl (l_rest l).
Proof. unfold read_char. destruct (l_rest l) as [|c r] eqn:E; [rewrite E; reflexivity|]. destruct (N.eqb c LF); reflexivity. Qed.

Lemma peek_short l : (length (l_rest l) <= 1)%nat -> peek l = 0%N.
Proof. unfold peek. destruct (l_rest l) as [|a [|b r]]; cbn [length]; intro; try reflexivity; lia. Qed.

Lemma rsl_short f d l acc lit l1 : (length (l_rest l) <= 1)%nat ->
  read_string_loop f d l acc = (lit, true, l1) -> False.
Proof.
  intros Sh H. destruct f; cbn [read_string_loop] in H; [inversion H|].
  assert (E : at_eof (read_char l) = true).
  { apply at_eof_nil. rewrite read_char_rest. destruct (l_rest l) as [|a [|b r]]; cbn [length] in Sh; try reflexivity; lia. }
  rewrite E in H. inversion H.
Qed.

Lemma ext_long K X Y : ext K X Y -> (1 < length (l_rest X))%nat ->
  peek Y = peek X /\ cur Y = cur X /\ l_rest X <> [] /\
  ext K (read_char X) (read_char Y) /\ l_rest (read_char X) <> [] /\
  at_eof (read_char Y) = false /\ cur (read_char Y) = cur (read_char X).
Proof.
  intros E L.
  assert (R : exists a b r, l_rest X = a :: b :: r).
  { destruct (l_rest X) as [|a [|b r]]; cbn [length] in L; try lia. eauto. }
  destruct R as (a & b & r & R).
  assert (N1 : l_rest X <> []) by (rewrite R; discriminate).
  destruct (ext_read_char _ _ _ E N1) as [E1 _].
  assert (N2 : l_rest (read_char X) <> []) by (rewrite read_char_rest, R; discriminate).
  split; [exact (ext_peek _ _ _ _ _ _ E R)|]. split; [exact (ext_cur _ _ _ E N1)|].
  split; [exact N1|]. split; [exact E1|]. split; [exact N2|].
  split; [exact (ext_at_eof _ _ _ E1 N2)|exact (ext_cur _ _ _ E1 N2)].
Qed.

Lemma at_eof_step K X Y : ext K X Y -> at_eof (read_char X) = false ->
  ext K (read_char X) (read_char Y) /\ at_eof (read_char Y) = false /\
  cur (read_char Y) = cur (read_char X) /\ l_rest (read_char X) <> [].
Proof.
  intros E A.
  assert (N2 : l_rest (read_char X) <> []).
  { intro R. apply at_eof_nil in R. congruence. }
  assert (N1 : l_rest X <> []).
  { intro R. rewrite read_char_rest, R in N2. apply N2. reflexivity. }
  destruct (ext_read_char _ _ _ E N1) as [E1 _].
  split; [exact E1|]. split; [exact (ext_at_eof _ _ _ E1 N2)|]. split; [exact (ext_cur _ _ _ E1 N2)|exact N2].
Qed.

Lemma long_of_peek l : peek l <> 0%N -> (1 < length (l_rest l))%nat.
Proof. intro H. destruct (peek_nz l H) as [r ->]. cbn [length]. lia. Qed.

Lemma read_ubrace_ext K : forall n la lb ds ds' v la1, ext K la lb ->
  read_ubrace n la ds = (ds', v, la1) -> (1 < length (l_rest la1))%nat ->
  exists lb1, read_ubrace n lb ds = (ds', v, lb1) /\ ext K la1 lb1.
Proof.
  induction n as [|n IH]; intros la lb ds ds' v la1 E H L; cbn [read_ubrace] in *.
  - inversion H; subst. eexists; split; [reflexivity|exact E].
  - assert (Lg : (1 < length (l_rest la))%nat).
    { destruct (Nat.le_gt_cases (length (l_rest la)) 1) as [Sh|Lg]; [exfalso|exact Lg].
      rewrite (peek_short _ Sh) in H. change (N.eqb 0 125) with false in H.
      change (isHexDigit 0) with false in H. cbn [negb orb] in H. inversion H; subst. lia. }
    destruct (ext_long _ _ _ E Lg) as (P & C & N1 & E1 & N2 & A2 & C2). rewrite P.
    destruct (N.eqb (peek la) 125).
    { inversion H; subst. eexists; split; [reflexivity|exact E1]. }
    destruct (negb (isHexDigit (peek la)) || (6 <=? length ds)%nat).
    { inversion H; subst. eexists; split; [reflexivity|exact E]. }
    rewrite C2. eapply IH; eassumption.
Qed.

Ltac peek_site X E H :=
  let Sh := fresh "Sh" in let Lg := fresh "Lg" in
  destruct (Nat.le_gt_cases (length (l_rest X)) 1) as [Sh|Lg];
  [ exfalso; rewrite (peek_short _ Sh) in H;
    repeat (change (N.eqb 0 123) with false in H || change (isHexDigit 0) with false in H);
    cbn iota in H; exact (rsl_short _ _ _ _ _ _ Sh H)
  | let P := fresh "P" in let C := fresh "C" in let N1 := fresh "N1" in let E1 := fresh "E1" in
    let N2 := fresh "N2" in let A2 := fresh "A2" in let C2 := fresh "C2" in
    destruct (ext_long _ _ _ E Lg) as (P & C & N1 & E1 & N2 & A2 & C2); rewrite ?P ].

Lemma rsl_ext K d : forall f f' la lb acc lit la1, (f <= f')%nat -> ext K la lb ->
  read_string_loop f d la acc = (lit, true, la1) ->
  exists lb1, read_string_loop f' d lb acc = (lit, true, lb1) /\ ext K la1 lb1.
Proof.
  induction f as [|f IH]; intros f' la lb acc lit la1 Hf E H; [cbn in H; inversion H|].
  destruct f' as [|f']; [lia|]. assert (Hf' : (f <= f')%nat) by lia. clear Hf.
  cbn [read_string_loop] in *. cbv zeta in *.
  destruct (at_eof (read_char la)) eqn:A1; [inversion H|].
  destruct (at_eof_step _ _ _ E A1) as (E1 & A1b & C1 & N1). rewrite A1b, C1.
  set (la' := read_char la) in *. set (lb' := read_char lb) in *.
  destruct (N.eqb (cur la') BACKSLASH).
  2:{ destruct (N.eqb (cur la') d); [inversion H; subst; eexists; split; [reflexivity|exact E1]|].
      destruct (N.eqb (cur la') DQUOTE); eapply IH; eassumption. }
  destruct (at_eof (read_char la')) eqn:A2; [inversion H|].
  destruct (at_eof_step _ _ _ E1 A2) as (E2 & A2b & C2 & N2). rewrite A2b, C2.
  set (l := read_char la') in *. set (m := read_char lb') in *.
  destruct (N.eqb (cur l) 120).
  { (* \x *)
    peek_site l E2 H.
    destruct (isHexDigit (peek l)); [|eapply IH; eassumption].
    set (l1 := read_char l) in *. set (m1 := read_char m) in *.
    peek_site l1 E0 H.
    destruct (isHexDigit (peek l1)); [|eapply IH; eassumption].
    destruct (mustStayEscaped _); eapply IH; eassumption. }
  destruct (N.eqb (cur l) 117); [|eapply IH; eassumption].
  (* \u *)
  peek_site l E2 H.
  destruct (N.eqb (peek l) 123).
  { set (lbr := read_char l) in *. set (mbr := read_char m) in *.
    destruct (read_ubrace 8 lbr []) as [[ds valid] l1] eqn:U.
    destruct (Nat.le_gt_cases (length (l_rest l1)) 1) as [Sh1|Lg1].
    { exfalso.
      repeat match type of H with (if ?c then _ else _) = _ => destruct c end;
        exact (rsl_short _ _ _ _ _ _ Sh1 H). }
    destruct (read_ubrace_ext K _ _ _ _ _ _ _ E0 U Lg1) as (m1 & -> & Eu).
    repeat match type of H with (if ?c then _ else _) = _ => destruct c end;
      eapply IH; eassumption. }
  destruct (isHexDigit (peek l)); [|eapply IH; eassumption].
  set (l1 := read_char l) in *. set (m1 := read_char m) in *.
  peek_site l1 E0 H.
  destruct (isHexDigit (peek l1)); [|eapply IH; eassumption].
  set (l2 := read_char l1) in *. set (m2 := read_char m1) in *.
  peek_site l2 E3 H.
  destruct (isHexDigit (peek l2)); [|eapply IH; eassumption].
  set (l3 := read_char l2) in *. set (m3 := read_char m2) in *.
  peek_site l3 E4 H.
  destruct (isHexDigit (peek l3)); [|eapply IH; eassumption].
  destruct (mustStayEscaped _); eapply IH; eassumption.
Qed.

(* with a double quote as delimiter the decoded literal is no longer than its source *)
Lemma encodeUTF8_len v : (length (encodeUTF8 v) <= 4)%nat.
Proof. unfold encodeUTF8. repeat match goal with |- context [if ?c then _ else _] => destruct c end; cbn [length]; lia. Qed.

Lemma read_char_len l : l_rest l <> [] -> S (length (l_rest (read_char l))) = length (l_rest l).
Proof. intro H. rewrite read_char_rest. destruct (l_rest l); [congruence|reflexivity]. Qed.

Lemma read_char_len_eof l : at_eof (read_char l) = false ->
  S (length (l_rest (read_char l))) = length (l_rest l) /\ (1 <= length (l_rest (read_char l)))%nat.
Proof.
  intro A. apply at_eof_false in A as [r R]. rewrite read_char_rest in R.
  rewrite read_char_rest. destruct (l_rest l) as [|a s]; [discriminate R|]. cbn [tl] in *.
  rewrite R. cbn [length]. lia.
Qed.

Lemma hex_nz c : isHexDigit c = true -> c <> 0%N.
Proof. unfold isHexDigit. lia. Qed.

Lemma read_char_len_peek l : peek l <> 0%N ->
  S (length (l_rest (read_char l))) = length (l_rest l) /\ (1 <= length (l_rest (read_char l)))%nat.
Proof.
  intro H. destruct (peek_nz l H) as [r R]. rewrite read_char_rest, R. cbn [tl length]. lia.
Qed.

Lemma read_ubrace_len : forall n l ds ds' v l1, read_ubrace n l ds = (ds', v, l1) ->
  (length ds' + length (l_rest l1) + (if v then 1 else 0) <= length ds + length (l_rest l))%nat.
Proof.
  induction n as [|n IH]; intros l ds ds' v l1 H; cbn [read_ubrace] in H.
  - inversion H; subst. lia.
  - destruct (N.eqb_spec (peek l) 125) as [P|P].
    { inversion H; subst. destruct (read_char_len_peek l) as [L _]; [rewrite P; discriminate|]. lia. }
    destruct (isHexDigit (peek l)) eqn:Hx; cbn [negb orb] in H; [|inversion H; subst; lia].
    destruct (6 <=? length ds)%nat; [inversion H; subst; lia|].
    apply IH in H. rewrite app_length in H. cbn [length] in H.
    destruct (read_char_len_peek l (hex_nz _ Hx)) as [L _]. lia.
Qed.

Ltac len_leaf IH H :=
  apply IH in H; destruct H as [H ?]; split; [|assumption]; rewrite ?app_length in H; cbn [length] in H;
  repeat match type of H with context [length (encodeUTF8 ?v)] =>
    let B := fresh "B" in pose proof (encodeUTF8_len v) as B; generalize dependent (length (encodeUTF8 v)); intros
  end; lia.

Lemma rsl_len : forall f la acc lit la1,
  read_string_loop f DQUOTE la acc = (lit, true, la1) ->
  (length lit + length (l_rest la1) + 1 <= length acc + length (l_rest la))%nat /\
  (1 <= length (l_rest la1))%nat.
Proof.
  induction f as [|f IH]; intros la acc lit la1 H; [cbn in H; inversion H|].
  cbn [read_string_loop] in H. cbv zeta in H.
  destruct (at_eof (read_char la)) eqn:A1; [inversion H|].
  destruct (read_char_len_eof _ A1) as [L1 L1'].
  set (la' := read_char la) in *.
  destruct (N.eqb (cur la') BACKSLASH).
  2:{ destruct (N.eqb (cur la') DQUOTE) eqn:Q; [inversion H; subst; split; lia|].
      len_leaf IH H. }
  destruct (at_eof (read_char la')) eqn:A2; [inversion H|].
  destruct (read_char_len_eof _ A2) as [L2 L2'].
  set (l := read_char la') in *.
  destruct (N.eqb (cur l) 120).
  { destruct (isHexDigit (peek l)) eqn:H1; [|len_leaf IH H].
    destruct (read_char_len_peek l (hex_nz _ H1)) as [L3 L3'].
    set (l1 := read_char l) in *.
    destruct (isHexDigit (peek l1)) eqn:H2; [|len_leaf IH H].
    destruct (read_char_len_peek l1 (hex_nz _ H2)) as [L4 L4'].
    destruct (mustStayEscaped _); len_leaf IH H. }
  destruct (N.eqb (cur l) 117); [|len_leaf IH H].
  destruct (N.eqb_spec (peek l) 123) as [P|P].
  { destruct (read_char_len_peek l) as [L3 L3']; [rewrite P; discriminate|].
    set (lbr := read_char l) in *.
    destruct (read_ubrace 8 lbr []) as [[ds valid] l1] eqn:U.
    apply read_ubrace_len in U. cbn [length] in U.
    destruct (negb valid || (length ds =? 0)%nat || (6 <? length ds)%nat) eqn:Cnd.
    - destruct valid; len_leaf IH H.
    - assert (valid = true /\ (1 <= length ds)%nat) as [-> Ld] by lia.
      repeat match type of H with (if ?c then _ else _) = _ => destruct c end; len_leaf IH H. }
  destruct (isHexDigit (peek l)) eqn:H1; [|len_leaf IH H].
  destruct (read_char_len_peek l (hex_nz _ H1)) as [L3 L3'].
  set (l1 := read_char l) in *.
  destruct (isHexDigit (peek l1)) eqn:H2; [|len_leaf IH H].
  destruct (read_char_len_peek l1 (hex_nz _ H2)) as [L4 L4'].
  set (l2 := read_char l1) in *.
  destruct (isHexDigit (peek l2)) eqn:H3; [|len_leaf IH H].
  destruct (read_char_len_peek l2 (hex_nz _ H3)) as [L5 L5'].
  set (l3 := read_char l2) in *.
  destruct (isHexDigit (peek l3)) eqn:H4; [|len_leaf IH H].
  destruct (read_char_len_peek l3 (hex_nz _ H4)) as [L6 L6'].
  destruct (mustStayEscaped _); len_leaf IH H.
Qed.

Lemma base_dquote l : cur l = 34%N ->
  base_next_token l = string_token l T_STRING (read_string DQUOTE l) (cur_pos l).
Proof. intro H. unfold base_next_token. cbv zeta. rewrite H. reflexivity. Qed.

Lemma reach_had l l' : reach l l' -> l_had_nl l' = l_had_nl l.
Proof. intros [q (_ & _ & H)]. exact H. Qed.

Lemma lex1_string v K : relex_string v = true ->
  lex1 (34%N :: v ++ [34%N]) T_STRING v K /\ lex1 (32%N :: 34%N :: v ++ [34%N]) T_STRING v K.
Proof.
  unfold relex_string, tokenize. cbn [tokenize_from app].
  set (T := 34%N :: v ++ [34%N]).
  destruct (next_token (lx_init T)) as [t l'] eqn:N.
  destruct (t_type t =? T_EOF); [discriminate|].
  destruct (tokenize_from (length T) l') as [[|e [|? ?]]|]; try discriminate.
  intro H. apply andb_true_iff in H as [H _]. apply andb_true_iff in H as [H1 H2].
  apply Z.eqb_eq in H1. apply str_eqb_spec in H2.
  assert (TS : forall X, tstart (T ++ X)) by (intro X; split; [reflexivity|discriminate]).
  unfold next_token, next_token_with in N.
  rewrite rlc_stop in N by (cbn [lx_init l_rest]; rewrite <- (app_nil_r T); apply TS).
  set (l0 := clean (lx_init T)) in *.
  rewrite (base_dquote l0 eq_refl) in N. unfold read_string in N.
  destruct (read_string_loop (S (length (l_rest l0))) DQUOTE l0 []) as [[lit term] l1] eqn:R.
  unfold string_token in N. inversion N; subst t l'. clear N.
  unfold new_token_at in H1, H2. cbn [t_type t_lit] in H1, H2. subst lit.
  destruct term; [|discriminate H1].
  destruct (rsl_len _ _ _ _ _ R) as [Ln Ln1]. cbn [l0 clean lx_init l_rest length] in Ln.
  assert (R1 : exists x, l_rest l1 = [x]).
  { unfold T in Ln. cbn [length] in Ln. rewrite app_length in Ln. cbn [length] in Ln.
    destruct (l_rest l1) as [|x [|y r]]; cbn [length] in *; try lia. eauto. }
  destruct R1 as [x R1].
  apply lex1_of_blex; [apply TS|].
  intros l Hl Hn.
  assert (C : cur l = 34%N) by (unfold cur; rewrite Hl; reflexivity).
  rewrite (base_dquote l C). unfold read_string.
  assert (E : ext K l0 l) by (unfold ext; rewrite Hl; reflexivity).
  assert (Hf : (S (length (l_rest l0)) <= S (length (l_rest l)))%nat).
  { rewrite Hl, app_length. unfold l0. cbn [clean lx_init l_rest]. lia. }
  destruct (rsl_ext K DQUOTE _ _ _ _ _ _ _ Hf E R) as (lb1 & Rb & Eb).
  rewrite Rb. unfold string_token. do 2 eexists. split; [reflexivity|].
  unfold new_token_at. cbn [t_type t_lit t_nl].
  apply read_string_loop_reach in Rb as [Rb _]. apply reach_had in Rb.
  repeat split; [congruence|]. rewrite read_char_rest, Eb, R1. reflexivity.
Qed.

(* ---------- raw (backtick) strings ---------- *)

Lemma rrl_short f l acc lit l1 : (length (l_rest l) <= 1)%nat ->
  read_raw_loop f l acc = (lit, true, l1) -> False.
Proof.
  intros Sh H. destruct f; cbn [read_raw_loop] in H; [inversion H|].
  assert (E : at_eof (read_char l) = true).
  { apply at_eof_nil. rewrite read_char_rest. destruct (l_rest l) as [|a [|b r]]; cbn [length] in Sh; try reflexivity; lia. }
  rewrite E in H. inversion H.
Qed.

Lemma rrl_ext K : forall f f' la lb acc lit la1, (f <= f')%nat -> ext K la lb ->
  read_raw_loop f la acc = (lit, true, la1) ->
  exists lb1, read_raw_loop f' lb acc = (lit, true, lb1) /\ ext K la1 lb1.
Proof.
  induction f as [|f IH]; intros f' la lb acc lit la1 Hf E H; [cbn in H; inversion H|].
  destruct f' as [|f']; [lia|]. assert (Hf' : (f <= f')%nat) by lia. clear Hf.
  cbn [read_raw_loop] in *. cbv zeta in *.
  destruct (at_eof (read_char la)) eqn:A1; [inversion H|].
  destruct (at_eof_step _ _ _ E A1) as (E1 & A1b & C1 & N1). rewrite A1b, C1.
  set (la' := read_char la) in *. set (lb' := read_char lb) in *.
  destruct (N.eqb (cur la') BACKSLASH).
  2:{ destruct (N.eqb (cur la') BACKTICK); [inversion H; subst; eexists; split; [reflexivity|exact E1]|].
      eapply IH; eassumption. }
  destruct (Nat.le_gt_cases (length (l_rest la')) 1) as [Sh|Lg].
  { exfalso. rewrite (peek_short _ Sh) in H. change (N.eqb 0 BACKTICK) with false in H. cbn iota in H.
    assert (A : at_eof (read_char la') = true).
    { apply at_eof_nil. rewrite read_char_rest. destruct (l_rest la') as [|a [|b r]]; cbn [length] in Sh; try reflexivity; lia. }
    rewrite A in H. inversion H. }
  destruct (ext_long _ _ _ E1 Lg) as (P & C & N1' & E2 & N2 & A2 & C2). rewrite P.
  destruct (N.eqb (peek la') BACKTICK); [eapply IH; eassumption|].
  rewrite A2, C2.
  assert (A3 : at_eof (read_char la') = false).
  { unfold at_eof. destruct (l_rest (read_char la')); [congruence|reflexivity]. }
  rewrite A3 in H. eapply IH; eassumption.
Qed.

Lemma rrl_ne : forall f la acc lit la1,
  read_raw_loop f la acc = (lit, true, la1) -> l_rest la1 <> [].
Proof.
  induction f as [|f IH]; intros la acc lit la1 H; [cbn in H; inversion H|].
  cbn [read_raw_loop] in H. cbv zeta in H.
  destruct (at_eof (read_char la)) eqn:A1; [inversion H|].
  destruct (N.eqb (cur (read_char la)) BACKSLASH).
  - destruct (N.eqb (peek (read_char la)) BACKTICK); [eapply IH; eassumption|].
    destruct (at_eof (read_char (read_char la))); [inversion H|eapply IH; eassumption].
  - destruct (N.eqb (cur (read_char la)) BACKTICK); [|eapply IH; eassumption].
    inversion H; subst. intro R. apply at_eof_nil in R. congruence.
Qed.

(* the printer's escaping of backticks *)
Definition rep (v : str) : str := flat_map (fun c => if N.eqb c 96 then [92; 96]%N else [c]) v.

Lemma replace_all_fuel_rep : forall f v, (length v < f)%nat ->
  replace_all_fuel f v [96%N] [92; 96]%N = rep v.
Proof.
  induction f as [|f IH]; intros v L; [lia|]. destruct v as [|c v]; [reflexivity|].
  cbn [length] in L. cbn [replace_all_fuel strip_prefix rep flat_map].
  rewrite (N.eqb_sym 96 c). destruct (N.eqb c 96).
  - rewrite IH by lia. reflexivity.
  - rewrite IH by lia. reflexivity.
Qed.

Lemma replace_all_rep v : replace_all v [96%N] [92; 96]%N = rep v.
Proof. unfold replace_all. apply replace_all_fuel_rep. lia. Qed.

Lemma raw_iter f la acc c0 c r : l_rest la = c0 :: c :: r ->
  read_raw_loop (S f) la acc =
  if N.eqb c 92 then
    if N.eqb (hd 0%N r) 96 then read_raw_loop f (read_char (read_char la)) (acc ++ [96%N])
    else match r with
         | [] => (acc ++ [92%N], false, read_char (read_char la))
         | x :: _ => read_raw_loop f (read_char (read_char la)) (acc ++ [92%N; x])
         end
  else if N.eqb c 96 then (acc, true, read_char la)
  else read_raw_loop f (read_char la) (acc ++ [c]).
Proof.
  intro R. cbn [read_raw_loop]. cbv zeta.
  assert (R1 : l_rest (read_char la) = c :: r) by (rewrite read_char_rest, R; reflexivity).
  assert (R2 : l_rest (read_char (read_char la)) = r) by (rewrite read_char_rest, R1; reflexivity).
  unfold at_eof, cur, peek. rewrite R1, R2. cbn [hd].
  unfold BACKSLASH, BACKTICK.
  destruct (N.eqb c 92); [|reflexivity].
  destruct r as [|x r']; cbn [hd]; [reflexivity|].
  destruct (N.eqb x 96); reflexivity.
Qed.

Lemma reach_len l l1 : reach l l1 -> (length (l_rest l1) <= length (l_rest l))%nat.
Proof. intros [q (H & _)]. rewrite H, app_length. lia. Qed.

Lemma raw_sim : forall n v, (length v <= n)%nat -> forall f la acc lit la1 c0 tail,
  l_rest la = c0 :: rep v ++ tail -> read_raw_loop f la acc = (lit, true, la1) ->
  (length (l_rest la1) <= length tail)%nat \/ (forall w, lit <> acc ++ v ++ w).
Proof.
  induction n as [|n IH]; intros v Ln f la acc lit la1 c0 tail R H.
  - destruct v; [|cbn [length] in Ln; lia]. left.
    destruct f; [cbn in H; inversion H|].
    apply read_raw_loop_reach in H as [_ H]. specialize (H ltac:(discriminate)).
    apply reach_len in H. rewrite read_char_rest, R in H. exact H.
  - destruct f as [|f]; [cbn in H; inversion H|].
    destruct v as [|c v'].
    { left. apply read_raw_loop_reach in H as [_ H]. specialize (H ltac:(discriminate)).
      apply reach_len in H. rewrite read_char_rest, R in H. exact H. }
    cbn [length] in Ln.
    assert (RR : forall a b X (Y : unit) (l : lx), l_rest l = a :: b :: X ->
                 l_rest (read_char l) = b :: X /\ l_rest (read_char (read_char l)) = X).
    { intros a b X Y l Hl. split; [rewrite read_char_rest, Hl; reflexivity|].
      rewrite !read_char_rest, Hl. reflexivity. }
    destruct (N.eqb_spec c 96) as [->|N96].
    + (* a backtick of the value: printed as \` *)
      change (rep (96%N :: v')) with (92%N :: 96%N :: rep v') in R. cbn [app] in R.
      rewrite (raw_iter _ _ _ _ _ _ R) in H. cbn [hd N.eqb Pos.eqb] in H.
      destruct (RR _ _ _ tt _ R) as [_ R2].
      destruct (IH v' ltac:(lia) _ _ _ _ _ _ _ R2 H) as [L|D]; [left; exact L|right].
      intros w Hw. apply (D w). rewrite Hw, <- app_assoc. reflexivity.
    + assert (Rc : rep (c :: v') = c :: rep v').
      { cbn [rep flat_map]. destruct (N.eqb_spec c 96); [contradiction|reflexivity]. }
      rewrite Rc in R. cbn [app] in R.
      destruct (N.eqb_spec c 92) as [->|N92].
      * (* a backslash of the value *)
        destruct v' as [|x v''].
        { left. cbn [rep flat_map app] in R.
          rewrite (raw_iter _ _ _ _ _ _ R) in H. cbn [N.eqb Pos.eqb] in H.
          destruct (RR _ _ _ tt _ R) as [_ R2].
          destruct (N.eqb (hd 0%N tail) 96).
          - apply read_raw_loop_reach in H as [H _]. apply reach_len in H. rewrite R2 in H. exact H.
          - destruct tail as [|y tail']; [inversion H|].
            apply read_raw_loop_reach in H as [H _]. apply reach_len in H. rewrite R2 in H. exact H. }
        cbn [length] in Ln.
        destruct (N.eqb_spec x 96) as [->|X96].
        -- (* \ followed by a backtick: the scanner stops early, with another literal *)
           right. change (rep (96%N :: v'')) with (92%N :: 96%N :: rep v'') in R. cbn [app] in R.
           rewrite (raw_iter _ _ _ _ _ _ R) in H. cbn [hd N.eqb Pos.eqb] in H.
           destruct (RR _ _ _ tt _ R) as [_ R2].
           destruct f as [|f]; [cbn in H; inversion H|].
           rewrite (raw_iter _ _ _ _ _ _ R2) in H. cbn [N.eqb Pos.eqb] in H.
           inversion H; subst. intros w Hw. apply app_inv_head in Hw. cbn [app] in Hw. inversion Hw.
        -- assert (Rx : rep (x :: v'') = x :: rep v'').
           { cbn [rep flat_map]. destruct (N.eqb_spec x 96); [contradiction|reflexivity]. }
           rewrite Rx in R. cbn [app] in R.
           rewrite (raw_iter _ _ _ _ _ _ R) in H. cbn [hd N.eqb Pos.eqb] in H.
           destruct (N.eqb_spec x 96) as [|_]; [contradiction|].
           destruct (RR _ _ _ tt _ R) as [_ R2].
           destruct (IH v'' ltac:(lia) _ _ _ _ _ _ _ R2 H) as [L|D]; [left; exact L|right].
           intros w Hw. apply (D w). rewrite Hw, <- app_assoc. reflexivity.
      * rewrite (raw_iter _ _ _ _ _ _ R) in H.
        destruct (N.eqb_spec c 92) as [|_]; [contradiction|].
        destruct (N.eqb_spec c 96) as [|_]; [contradiction|].
        destruct (RR _ _ _ tt _ R) as [R1 _].
        destruct (IH v' ltac:(lia) _ _ _ _ _ _ _ R1 H) as [L|D]; [left; exact L|right].
        intros w Hw. apply (D w). rewrite Hw, <- app_assoc. reflexivity.
Qed.

Lemma base_backtick l : cur l = 96%N ->
  base_next_token l = string_token l T_RAW_STRING (read_raw_string l) (cur_pos l).
Proof. intro H. unfold base_next_token. cbv zeta. rewrite H. reflexivity. Qed.

Lemma lex1_raw v K : relex_raw v = true ->
  lex1 (96%N :: rep v ++ [96%N]) T_RAW_STRING v K /\
  lex1 (32%N :: 96%N :: rep v ++ [96%N]) T_RAW_STRING v K.
Proof.
  unfold relex_raw, tokenize. rewrite replace_all_rep. cbn [tokenize_from app].
  set (T := 96%N :: rep v ++ [96%N]).
  destruct (next_token (lx_init T)) as [t l'] eqn:N.
  destruct (t_type t =? T_EOF); [discriminate|].
  destruct (tokenize_from (length T) l') as [[|e [|? ?]]|]; try discriminate.
  intro H. apply andb_true_iff in H as [H _]. apply andb_true_iff in H as [H1 H2].
  apply Z.eqb_eq in H1. apply str_eqb_spec in H2.
  assert (TS : forall X, tstart (T ++ X)) by (intro X; split; [reflexivity|discriminate]).
  unfold next_token, next_token_with in N.
  rewrite rlc_stop in N by (cbn [lx_init l_rest]; rewrite <- (app_nil_r T); apply TS).
  set (l0 := clean (lx_init T)) in *.
  rewrite (base_backtick l0 eq_refl) in N. unfold read_raw_string in N.
  destruct (read_raw_loop (S (length (l_rest l0))) l0 []) as [[lit term] l1] eqn:R.
  unfold string_token in N. inversion N; subst t l'. clear N.
  unfold new_token_at in H1, H2. cbn [t_type t_lit] in H1, H2. subst lit.
  destruct term; [|discriminate H1].
  assert (R1 : exists x, l_rest l1 = [x]).
  { pose proof (rrl_ne _ _ _ _ _ R) as Ne.
    destruct (raw_sim (length v) v (le_n _) _ l0 [] v l1 96%N [96%N] eq_refl R) as [L|D].
    - cbn [length] in L. destruct (l_rest l1) as [|x [|y r]]; cbn [length] in L; try congruence; try lia. eauto.
    - exfalso. apply (D []). rewrite app_nil_r. reflexivity. }
  destruct R1 as [x R1].
  apply lex1_of_blex; [apply TS|].
  intros l Hl Hn.
  assert (C : cur l = 96%N) by (unfold cur; rewrite Hl; reflexivity).
  rewrite (base_backtick l C). unfold read_raw_string.
  assert (E : ext K l0 l) by (unfold ext; rewrite Hl; reflexivity).
  assert (Hf : (S (length (l_rest l0)) <= S (length (l_rest l)))%nat).
  { rewrite Hl, app_length. unfold l0. cbn [clean lx_init l_rest]. lia. }
  destruct (rrl_ext K _ _ _ _ _ _ _ Hf E R) as (lb1 & Rb & Eb).
  rewrite Rb. unfold string_token. do 2 eexists. split; [reflexivity|].
  unfold new_token_at. cbn [t_type t_lit t_nl].
  apply read_raw_loop_reach in Rb as [Rb _]. apply reach_had in Rb.
  repeat split; [congruence|]. rewrite read_char_rest, Eb, R1. reflexivity.
Qed.

(* ================================================================== *)
(* 8. print, lex, match: the combined statement                        *)
(* ================================================================== *)

Lemma lex1_lexes s ty lit K : lex1 s ty lit K -> s <> [] -> ty <> T_EOF ->
  forall l, l_rest l = s ++ K ->
  exists t l', lexes l [t] l' /\ t_type t = ty /\ t_lit t = lit /\ t_nl t = false /\ l_rest l' = K.
Proof.
  intros L Ns Ne l Hl. destruct (L l Hl) as (t & l' & N & Ty & Li & Nl & R).
  exists t, l'. split; [|repeat split; assumption].
  apply lexes_one; [exact N|congruence|].
  rewrite R, Hl, app_length. destruct s; [congruence|cbn [length]; lia].
Qed.

Lemma type_text_not_eof ty s : type_text ty = Some s -> ty <> T_EOF.
Proof. intros H ->. discriminate H. Qed.

(* an operator / bracket token from the text *)
Lemma punct_step ty s X l : type_text ty = Some s -> pbnd s (hd 0%N X) -> l_rest l = s ++ X ->
  exists t l', lexes l [t] l' /\ t_type t = ty /\ t_lit t = s /\ t_nl t = false /\ l_rest l' = X.
Proof.
  intros T P Hl. destruct (lex1_punct _ _ X T P) as [L _].
  exact (lex1_lexes _ _ _ _ L (type_text_nonempty _ _ T) (type_text_not_eof _ _ T) l Hl).
Qed.

Lemma punct_step_sp ty s X l : type_text ty = Some s -> pbnd s (hd 0%N X) -> l_rest l = 32%N :: s ++ X ->
  exists t l', lexes l [t] l' /\ t_type t = ty /\ t_lit t = s /\ t_nl t = false /\ l_rest l' = X.
Proof.
  intros T P Hl. destruct (lex1_punct _ _ X T P) as [_ L].
  exact (lex1_lexes _ _ _ _ L ltac:(discriminate) (type_text_not_eof _ _ T) l Hl).
Qed.

Definition ostart (c : N) : Prop := c <> 61%N /\ c <> 47%N /\ c <> 0%N.

Definition JP (ops : list wop) (g : expr) (c : N) (fty : Z) : Prop :=
  forall b lv mp, exists sp body,
    wrun (gs b lv mp) ops = gs (b ++ sp ++ body) lv mp /\
    (sp = [32%N] \/ (sp = [] /\ nofuse b c)) /\
    hd 0%N body = c /\
    forall K, kont g K -> forall l, l_rest l = sp ++ body ++ K ->
      exists e' ts l', lexes l ts l' /\ l_rest l' = K /\
        (forall R, m_expr e' (ts ++ R) = Some R) /\
        shape_expr e' = shape_expr g /\
        (exists t0 ts0, ts = t0 :: ts0 /\ (t_type t0 = fty \/ t_type t0 = T_LPAREN)).

Lemma norm_eq t t' : t_type t = t_type t' -> t_lit t = t_lit t' -> norm_tok t = norm_tok t'.
Proof. unfold norm_tok. intros -> ->. reflexivity. Qed.

Lemma eat_tok_refl t R : eat_tok t (t :: R) = Some R.
Proof. unfold eat_tok. rewrite tok_eqb_refl. reflexivity. Qed.

Lemma kont_cons {g} c X : is_ident_char c = false -> c <> 46%N -> kont g (c :: X).
Proof. intros H1 H2. split; cbn [hd]; [exact H1|congruence]. Qed.

Lemma hd_app_ne (a b : str) : a <> [] -> hd 0%N (a ++ b) = hd 0%N a.
Proof. destruct a; [congruence|reflexivity]. Qed.

Lemma ostart_ne c body : ostart c -> hd 0%N body = c -> body <> [].
Proof. intros (_ & _ & H) E ->. cbn in E. congruence. Qed.

(* a single token written as the text [w] *)
Lemma JP_atom ops w ty lit g c (mk : token -> expr) :
  (forall b lv mp, wrun (gs b lv mp) ops = gs (b ++ w) lv mp) ->
  (forall K, kont g K -> lex1 w ty lit K) -> w <> [] -> ty <> T_EOF ->
  hd 0%N w = c -> c <> 43%N -> c <> 45%N ->
  (forall t', t_type t' = ty -> t_lit t' = lit ->
     (forall R, m_expr (mk t') (t' :: R) = Some R) /\ shape_expr (mk t') = shape_expr g) ->
  JP ops g c ty.
Proof.
  intros W L Nw Ne Hc C1 C2 M b lv mp. exists [], w. split; [apply W|].
  split; [right; split; [reflexivity|apply nofuse_other; assumption]|]. split; [exact Hc|].
  intros K HK l Hl. cbn [app] in Hl.
  destruct (lex1_lexes _ _ _ _ (L K HK) Nw Ne l Hl) as (t & l' & Lx & Ty & Li & _ & R).
  destruct (M t Ty Li) as [M1 M2].
  exists (mk t), [t], l'. split; [exact Lx|]. split; [exact R|]. split; [exact M1|]. split; [exact M2|].
  exists t, []. split; [reflexivity|left; exact Ty].
Qed.

(* parentheses around an operand *)
Definition opsw (b : bool) (ops : list wop) : list wop :=
  (if b then [WRune 40%N; WIncIndent] else []) ++ ops ++ (if b then [WDecIndent; WRune 41%N] else []).

Lemma type_text_lparen : type_text T_LPAREN = Some [40%N]. Proof. reflexivity. Qed.
Lemma type_text_rparen : type_text T_RPAREN = Some [41%N]. Proof. reflexivity. Qed.
Lemma type_text_lbracket : type_text T_LBRACKET = Some [91%N]. Proof. reflexivity. Qed.
Lemma type_text_rbracket : type_text T_RBRACKET = Some [93%N]. Proof. reflexivity. Qed.
Lemma type_text_lbrace : type_text T_LBRACE = Some [123%N]. Proof. reflexivity. Qed.
Lemma type_text_rbrace : type_text T_RBRACE = Some [125%N]. Proof. reflexivity. Qed.
Lemma type_text_dot : type_text T_DOT = Some [46%N]. Proof. reflexivity. Qed.
Lemma type_text_assign : type_text T_ASSIGN = Some [61%N]. Proof. reflexivity. Qed.

Lemma pbnd_free s h : (forall c, s = [c] -> c <> 61 /\ c <> 33 /\ c <> 60 /\ c <> 62 /\ c <> 43 /\ c <> 45 /\ c <> 47)%N ->
  pbnd s h.
Proof.
  intro H. unfold pbnd. destruct s as [|c [|? ?]]; try exact I.
  destruct (H c eq_refl) as (?&?&?&?&?&?&?). repeat split; intros; lia.
Qed.

Ltac pfree := apply pbnd_free; let c := fresh in let E := fresh in
  intros c E; inversion E; subst; repeat split; discriminate.

Lemma JP_group ops g c ty lp rp pre mid :
  JP ops g c ty -> punct lp T_LPAREN = true -> punct rp T_RPAREN = true ->
  (forall b lv mp, wrun (gs b lv mp) pre = gs (b ++ [40%N]) lv mp) ->
  (forall b lv mp, wrun (gs b lv mp) mid = gs (b ++ [41%N]) lv mp) ->
  JP (pre ++ ops ++ mid) (EGroup lp g rp) 40%N T_LPAREN.
Proof.
  intros J Plp Prp Wpre Wmid b lv mp.
  destruct (J (b ++ [40%N]) lv mp) as (sp & body & W & Sp & Hd & Lx).
  exists [], ((40%N :: sp ++ body) ++ [41%N]). split.
  { rewrite !wrun_app, Wpre, W, Wmid. f_equal. cbn [app]. rewrite <- !app_assoc. reflexivity. }
  split; [right; split; [reflexivity|apply nofuse_other; discriminate]|]. split; [reflexivity|].
  intros K HK l Hl. cbn [app] in Hl. rewrite <- !app_assoc in Hl.
  destruct (punct_step T_LPAREN [40%N] _ l type_text_lparen ltac:(pfree) Hl)
    as (t1 & l1 & L1 & Ty1 & Li1 & _ & R1).
  destruct (Lx (41%N :: K) ltac:(apply kont_cons; [reflexivity|discriminate]) l1)
    as (e0 & ts0 & l2 & L2 & R2 & M0 & S0 & F0).
  { rewrite R1. cbn [app]. reflexivity. }
  destruct (punct_step T_RPAREN [41%N] K l2 type_text_rparen ltac:(pfree) R2)
    as (t2 & l3 & L3 & Ty2 & Li2 & _ & R3).
  exists (EGroup t1 e0 t2), ([t1] ++ ts0 ++ [t2]), l3.
  split; [eapply lexes_app; [exact L1|eapply lexes_app; eassumption]|]. split; [exact R3|].
  unfold punct in Plp, Prp. cbn in Plp, Prp.
  apply andb_true_iff in Plp as [P1 P2]. apply andb_true_iff in Prp as [P3 P4].
  apply Z.eqb_eq in P1, P3. apply str_eqb_spec in P2, P4.
  split; [|split].
  - intro R. cbn [m_expr app]. rewrite Ty1, Ty2. cbn [Z.eqb Pos.eqb negb orb]. change (T_LPAREN =? T_LPAREN) with true.
    change (T_RPAREN =? T_RPAREN) with true. cbn [negb orb].
    rewrite eat_tok_refl, <- app_assoc, M0. cbn [app]. apply eat_tok_refl.
  - cbn [shape_expr tmap_expr]. fold (shape_expr e0). fold (shape_expr g). rewrite S0.
    rewrite (norm_eq t1 lp), (norm_eq t2 rp) by congruence. reflexivity.
  - exists t1, (ts0 ++ [t2]). split; [reflexivity|left; exact Ty1].
Qed.

Lemma JP_lparen ops g c fty : JP ops g c T_LPAREN -> JP ops g c fty.
Proof.
  intros J b lv mp. destruct (J b lv mp) as (sp & body & W & Sp & Hd & Lx).
  exists sp, body. repeat split; try assumption.
  intros K HK l Hl. destruct (Lx K HK l Hl) as (e' & ts & l' & L & R & M & S & (t0 & ts0 & E & F)).
  exists e', ts, l'. repeat split; try assumption. exists t0, ts0. split; [exact E|].
  right. destruct F; assumption.
Qed.

Lemma JP_opsw b ops g c ty : JP ops g c ty ->
  JP (opsw b ops) (if b then grp g else g) (if b then 40%N else c) ty.
Proof.
  intro J. destruct b; unfold opsw.
  - apply JP_lparen. apply (JP_group ops g c ty lp_tok rp_tok [WRune 40%N; WIncIndent] [WDecIndent; WRune 41%N] J);
      reflexivity.
  - cbn [app]. rewrite app_nil_r. exact J.
Qed.

Lemma kont_type_text {g} ty s X : type_text ty = Some s -> ty <> T_DOT -> kont g (s ++ X).
Proof.
  unfold type_text.
  repeat match goal with
  | |- (if ty =? ?b then _ else _) = _ -> _ =>
      destruct (Z.eqb_spec ty b) as [->|_];
      [ intro H; inversion H; subst s; clear H; intro D;
        try (apply kont_cons; [reflexivity|discriminate]) | ]
  end; try discriminate.
  congruence.
Qed.

Lemma pbnd_space s : pbnd s 32%N.
Proof. unfold pbnd. destruct s as [|x [|? ?]]; try exact I. repeat split; intros; discriminate. Qed.

Lemma pbnd_operand b s sp body K c :
  (sp = [32%N] \/ (sp = [] /\ nofuse (b ++ s) c)) -> hd 0%N body = c -> ostart c ->
  pbnd s (hd 0%N (sp ++ body ++ K)).
Proof.
  intros [->|[-> NF]] Hd Os; [apply pbnd_space|].
  cbn [app]. rewrite (hd_app_ne _ _ (ostart_ne _ _ Os Hd)), Hd.
  destruct Os as (O1 & O2 & O3). unfold pbnd. destruct s as [|x [|? ?]]; try exact I.
  unfold nofuse in NF. rewrite last_last in NF.
  repeat split; intros; subst; try assumption; intro; subst; apply NF; auto.
Qed.

Lemma JP_infix opsL gL cL tyL mid s ty opsR gR cR tyR t (mk : token -> expr -> expr -> expr) :
  JP opsL gL cL tyL -> JP opsR gR cR tyR -> ostart cL -> ostart cR ->
  (forall b lv mp, wrun (gs b lv mp) mid = gs (b ++ s) lv mp) ->
  type_text ty = Some s -> ty <> T_DOT -> t_type t = ty -> t_lit t = s ->
  (forall t' eL eR tsL tsR R, t_type t' = ty -> t_lit t' = s -> t_nl t' = false ->
     (forall R, m_expr eL (tsL ++ R) = Some R) -> (forall R, m_expr eR (tsR ++ R) = Some R) ->
     m_expr (mk t' eL eR) (tsL ++ t' :: tsR ++ R) = Some R) ->
  (forall t' eL eR, shape_expr (mk t' eL eR) = mk (norm_tok t') (shape_expr eL) (shape_expr eR)) ->
  dot_ok (mk t gL gR) = false ->
  JP (opsL ++ mid ++ opsR) (mk t gL gR) cL tyL.
Proof.
  intros JL JR OsL Os Wm T ND Ty Li M S DK b lv mp.
  destruct (JL b lv mp) as (sp & body & W & Sp & Hd & Lx).
  destruct (JR ((b ++ sp ++ body) ++ s) lv mp) as (sp2 & body2 & W2 & Sp2 & Hd2 & Lx2).
  exists sp, (body ++ s ++ sp2 ++ body2). split.
  { rewrite !wrun_app, W, Wm, W2. f_equal. rewrite <- !app_assoc. reflexivity. }
  split; [exact Sp|]. split; [rewrite (hd_app_ne _ _ (ostart_ne _ _ OsL Hd)); exact Hd|].
  intros K HK l Hl.
  destruct (Lx (s ++ sp2 ++ body2 ++ K) (kont_type_text _ _ _ T ND) l)
    as (eL & tsL & l1 & L1 & R1 & ML & SL & FL).
  { rewrite Hl, <- !app_assoc. reflexivity. }
  destruct (punct_step ty s _ l1 T (pbnd_operand _ _ _ _ K _ Sp2 Hd2 Os) R1)
    as (t' & l2 & L2 & Ty' & Li' & Nl' & R2).
  destruct (Lx2 K (kont_sub _ _ _ HK DK) l2 R2) as (eR & tsR & l3 & L3 & R3 & MR & SR & FR).
  exists (mk t' eL eR), (tsL ++ [t'] ++ tsR), l3.
  split; [eapply lexes_app; [exact L1|eapply lexes_app; eassumption]|]. split; [exact R3|].
  split; [|split].
  - intro R. rewrite <- !app_assoc. cbn [app]. apply M; assumption.
  - rewrite !S, SL, SR. f_equal. apply norm_eq; congruence.
  - destruct FL as (t0 & ts0 & -> & F). exists t0, (ts0 ++ [t'] ++ tsR). split; [reflexivity|exact F].
Qed.

(* the first byte of the text of an expression *)
Fixpoint fb (e : expr) : N :=
  match e with
  | EIdent i => hd 0%N (id_value i)
  | EInt t | EFloat t | EBool t _ => hd 0%N (t_lit t)
  | EString _ _ => 34%N
  | ERaw _ _ => 96%N
  | ENull _ => 110%N
  | EBinary t l _ _ => if prec_of l <? operator_precedence (t_type t) then 40%N else fb l
  | EUnary _ op _ => hd 0%N op
  | EPostfix _ l _ => if prec_of l <? A_PrecedencePostfix then 40%N else fb l
  | EGroup _ _ _ => 40%N
  | ECall _ f _ => fb f
  | EMember _ o _ _ => fb o
  | EAssign _ l _ => fb l
  | ECompound _ l _ _ => fb l
  | EArray _ _ _ => 91%N
  | EObject _ _ _ => 123%N
  | _ => 0%N
  end.

Definition JE (e : expr) : Prop :=
  ostart (fb e) /\ JP (write_expr e) (groupify e) (fb e) (first_type e).

(* comma-separated expressions *)
Definition JL (ops : list wop) (gl : list expr) : Prop :=
  forall b lv mp, exists body,
    wrun (gs b lv mp) ops = gs (b ++ body) lv mp /\
    forall K, kont ENil K -> forall l, l_rest l = body ++ K ->
      exists es' ts l', lexes l ts l' /\ l_rest l' = K /\
        (forall R, m_exprs m_expr es' (ts ++ R) = Some R) /\
        map shape_expr es' = map shape_expr gl.

Lemma comma_step X l : l_rest l = 44%N :: X ->
  exists t l', lexes l [t] l' /\ t_type t = T_COMMA /\ l_rest l' = X.
Proof.
  intro Hl. destruct (lex1_lexes _ _ _ _ (lex1_comma X) ltac:(discriminate) ltac:(discriminate) l Hl)
    as (t & l' & L & Ty & _ & _ & R). eauto.
Qed.

Lemma sep_map_cons2 {A} sep (f : A -> list wop) x y l :
  sep_map sep f (x :: y :: l) = f x ++ sep ++ sep_map sep f (y :: l).
Proof. reflexivity. Qed.
Lemma sep_map_one {A} sep (f : A -> list wop) x : sep_map sep f [x] = f x.
Proof. cbn [sep_map]. apply app_nil_r. Qed.

Lemma JL_sep es : Forall JE es ->
  JL (sep_map [WRune 44%N; WSpace] (fun a => write_expr a ++ []) es) (map groupify es).
Proof.
  induction 1 as [|x es [Ox Jx] Hes IH]; intros b lv mp.
  - exists []. split; [rewrite app_nil_r; reflexivity|].
    intros K HK l Hl. exists [], [], l. repeat split; try constructor. exact Hl.
  - destruct (Jx b lv mp) as (sp & body & W & Sp & Hd & Lx).
    destruct es as [|y es'].
    + exists (sp ++ body). split.
      { rewrite sep_map_one. cbv beta. rewrite app_nil_r. exact W. }
      intros K HK l Hl. rewrite <- app_assoc in Hl.
      destruct (Lx K (kont_sub _ _ _ HK eq_refl) l Hl) as (e' & ts & l' & L & R & M & S & _).
      exists [e'], ts, l'. repeat split; try assumption. cbn [map]. rewrite S. reflexivity.
    + destruct (IH ((b ++ sp ++ body) ++ [44%N]) lv mp) as (body2 & W2 & Lx2).
      exists ((sp ++ body) ++ 44%N :: body2). split.
      { rewrite sep_map_cons2. cbv beta. rewrite (app_nil_r (write_expr x)), !wrun_app, W. cbn [app]. rewrite wrun_cons, st_rune, wrun_cons, st_space, wrun_nil, W2.
        f_equal. rewrite <- !app_assoc. reflexivity. }
      intros K HK l Hl. rewrite <- !app_assoc in Hl.
      destruct (Lx (44%N :: body2 ++ K) ltac:(apply kont_cons; [reflexivity|discriminate]) l Hl)
        as (e' & ts & l1 & L1 & R1 & M1 & S1 & _).
      destruct (comma_step _ l1 R1) as (tc & l2 & L2 & Tc & R2).
      destruct (Lx2 K HK l2 R2) as (es2 & ts2 & l3 & L3 & R3 & M3 & S3).
      exists (e' :: es2), (ts ++ [tc] ++ ts2), l3.
      split; [eapply lexes_app; [exact L1|eapply lexes_app; eassumption]|]. split; [exact R3|].
      split.
      * intro R. destruct es2 as [|e2 es2']; [discriminate S3|].
        cbn [m_exprs]. rewrite <- !app_assoc, M1. cbn [app eat]. rewrite Tc.
        change (T_COMMA =? T_COMMA) with true. cbn iota. apply M3.
      * cbn [map]. rewrite S1. f_equal. exact S3.
Qed.

(* ---------- leaves ---------- *)

Ltac wsimp :=
  repeat first [ rewrite wrun_cons | rewrite wrun_nil | rewrite wrun_app
               | rewrite st_string | rewrite st_rune | rewrite st_space | rewrite st_inc
               | rewrite st_dec | rewrite st_comments | rewrite st_mapping | rewrite st_named ].

Lemma letter_ostart c : isLetter c = true -> ostart c /\ c <> 43%N /\ c <> 45%N.
Proof. unfold isLetter, ostart. lia. Qed.
Lemma digit_ostart c : isDigit c = true -> ostart c /\ c <> 43%N /\ c <> 45%N.
Proof. unfold isDigit, ostart. lia. Qed.

Lemma kont_nil {g} : kont g []. Proof. split; cbn; [reflexivity|discriminate]. Qed.

Lemma J_ident i : ident_lexical i = true -> JE (EIdent i).
Proof.
  unfold ident_lexical. intro H. apply andb_true_iff in H as [H H3]. apply andb_true_iff in H as [H1 H2].
  apply Z.eqb_eq in H1. apply str_eqb_spec in H2.
  destruct (lex1_word _ _ [] H3 eq_refl ltac:(discriminate) ltac:(discriminate) eq_refl) as (HL & _).
  destruct (letter_ostart _ HL) as (Os & C1 & C2).
  split; [exact Os|]. cbn [write_expr fb first_type groupify]. rewrite H1.
  apply (JP_atom _ (id_value i) T_IDENT (id_value i) _ _ (fun t' => EIdent (mkident t' (id_value i)))).
  - intros b lv mp. unfold write_ident. wsimp. reflexivity.
  - intros K [HK _]. apply (lex1_word _ _ K H3 eq_refl ltac:(discriminate) ltac:(discriminate) HK).
  - intro E. rewrite E in HL. discriminate HL.
  - discriminate.
  - reflexivity.
  - exact C1.
  - exact C2.
  - intros t' Ty Li. split.
    + intro R. cbn [m_expr]. unfold m_ident, ident_ok. cbn [id_tok id_value]. rewrite Ty, Li, str_eqb_refl.
      change (T_IDENT =? T_IDENT) with true. cbn [andb]. apply eat_tok_refl.
    + unfold shape_expr. cbn [tmap_expr]. unfold tmap_ident. cbn [id_tok id_value].
      rewrite (norm_eq t' (id_tok i)) by congruence. reflexivity.
Qed.

Lemma J_int t : (t_type t =? T_INT) && relex_word T_INT (t_lit t) && go_int_ok (t_lit t) = true -> JE (EInt t).
Proof.
  intro H. apply andb_true_iff in H as [H H3]. apply andb_true_iff in H as [H1 H2]. apply Z.eqb_eq in H1.
  destruct (lex1_number _ _ [] H2 (or_introl eq_refl) ltac:(discriminate) eq_refl ltac:(intro Q; discriminate Q)) as (HD & _).
  destruct (digit_ostart _ HD) as (Os & C1 & C2).
  split; [exact Os|]. cbn [write_expr fb first_type groupify]. rewrite H1.
  apply (JP_atom _ (t_lit t) T_INT (t_lit t) _ _ (fun t' => EInt t')).
  - intros b lv mp. wsimp. reflexivity.
  - intros K [HK1 HK2]. apply (lex1_number _ _ K H2 (or_introl eq_refl) ltac:(discriminate) HK1).
    intro Q. right. apply dot_ok_int. exact (HK2 Q).
  - intro E. rewrite E in HD. discriminate HD.
  - discriminate.
  - reflexivity.
  - exact C1.
  - exact C2.
  - intros t' Ty Li. split.
    + intro R. cbn [m_expr]. rewrite Ty, Li, H3. change (T_INT =? T_INT) with true. cbn [andb]. apply eat_tok_refl.
    + cbn [shape_expr tmap_expr]. f_equal. apply norm_eq; congruence.
Qed.

Lemma J_float t : (t_type t =? T_FLOAT) && relex_word T_FLOAT (t_lit t) && go_float_ok (t_lit t) = true -> JE (EFloat t).
Proof.
  intro H. apply andb_true_iff in H as [H H3]. apply andb_true_iff in H as [H1 H2]. apply Z.eqb_eq in H1.
  destruct (lex1_number _ _ [] H2 (or_intror eq_refl) (fun _ => H3) eq_refl ltac:(intro Q; discriminate Q)) as (HD & _).
  destruct (digit_ostart _ HD) as (Os & C1 & C2).
  split; [exact Os|]. cbn [write_expr fb first_type groupify]. rewrite H1.
  apply (JP_atom _ (t_lit t) T_FLOAT (t_lit t) _ _ (fun t' => EFloat t')).
  - intros b lv mp. wsimp. reflexivity.
  - intros K [HK1 _]. apply (lex1_number _ _ K H2 (or_intror eq_refl) (fun _ => H3) HK1).
    intros _. left. discriminate.
  - intro E. rewrite E in HD. discriminate HD.
  - discriminate.
  - reflexivity.
  - exact C1.
  - exact C2.
  - intros t' Ty Li. split.
    + intro R. cbn [m_expr]. rewrite Ty, Li, H3. change (T_FLOAT =? T_FLOAT) with true. cbn [andb]. apply eat_tok_refl.
    + cbn [shape_expr tmap_expr]. f_equal. apply norm_eq; congruence.
Qed.

Lemma J_bool t b : lexical (EBool t b) = true -> JE (EBool t b).
Proof.
  cbn [lexical]. intro H. apply andb_true_iff in H as [H1 H2].
  assert (Ty : (t_type t = T_TRUE /\ b = true) \/ (t_type t = T_FALSE /\ b = false)).
  { destruct b; cbn [negb] in H1; rewrite ?andb_true_r, ?andb_false_r, ?orb_false_r in H1; cbn [orb] in H1;
      apply Z.eqb_eq in H1; auto. }
  assert (W : is_word_type (t_type t) = true /\ t_type t <> T_INT /\ t_type t <> T_FLOAT /\ t_type t <> T_EOF).
  { destruct Ty as [[-> _]|[-> _]]; repeat split; discriminate. }
  destruct W as (W1 & W2 & W3 & W4).
  destruct (lex1_word _ _ [] H2 W1 W2 W3 eq_refl) as (HL & _).
  destruct (letter_ostart _ HL) as (Os & C1 & C2).
  split; [exact Os|]. cbn [write_expr fb first_type groupify].
  apply (JP_atom _ (t_lit t) (t_type t) (t_lit t) _ _ (fun t' => EBool t' b)).
  - intros b0 lv mp. wsimp. reflexivity.
  - intros K [HK _]. apply (lex1_word _ _ K H2 W1 W2 W3 HK).
  - intro E. rewrite E in HL. discriminate HL.
  - exact W4.
  - reflexivity.
  - exact C1.
  - exact C2.
  - intros t' Ty' Li. split.
    + intro R. cbn [m_expr]. rewrite Ty'.
      destruct Ty as [[-> ->]|[-> ->]]; cbn; apply eat_tok_refl.
    + cbn [shape_expr tmap_expr]. f_equal. apply norm_eq; congruence.
Qed.

Lemma relex_null : relex_word T_NULL [110; 117; 108; 108]%N = true.
Proof. vm_compute. reflexivity. Qed.

Lemma J_null t : lexical (ENull t) = true -> JE (ENull t).
Proof.
  cbn [lexical]. intro H. apply andb_true_iff in H as [H1 H2]. apply Z.eqb_eq in H1. apply str_eqb_spec in H2.
  split; [repeat split; discriminate|]. cbn [write_expr fb first_type groupify]. rewrite H1.
  apply (JP_atom _ [110; 117; 108; 108]%N T_NULL [110; 117; 108; 108]%N _ _ (fun t' => ENull t')).
  - intros b0 lv mp. wsimp. reflexivity.
  - intros K [HK _]. apply (lex1_word _ _ K relex_null eq_refl ltac:(discriminate) ltac:(discriminate) HK).
  - discriminate.
  - discriminate.
  - reflexivity.
  - discriminate.
  - discriminate.
  - intros t' Ty' Li. split.
    + intro R. cbn [m_expr]. rewrite Ty'. change (T_NULL =? T_NULL) with true. cbn iota. apply eat_tok_refl.
    + cbn [shape_expr tmap_expr]. f_equal. apply norm_eq; congruence.
Qed.

Lemma J_string t v : lexical (EString t v) = true -> JE (EString t v).
Proof.
  cbn [lexical]. intro H. apply andb_true_iff in H as [H H3]. apply andb_true_iff in H as [H1 H2].
  apply Z.eqb_eq in H1. apply str_eqb_spec in H2.
  split; [repeat split; discriminate|]. cbn [write_expr fb first_type groupify]. rewrite H1.
  apply (JP_atom _ (34%N :: v ++ [34%N]) T_STRING v _ _ (fun t' => EString t' v)).
  - intros b0 lv mp. wsimp. rewrite <- !app_assoc. reflexivity.
  - intros K _. apply (lex1_string v K H3).
  - discriminate.
  - discriminate.
  - reflexivity.
  - discriminate.
  - discriminate.
  - intros t' Ty' Li. split.
    + intro R. cbn [m_expr]. rewrite Ty', Li, str_eqb_refl. change (T_STRING =? T_STRING) with true. cbn [andb]. apply eat_tok_refl.
    + cbn [shape_expr tmap_expr]. f_equal. apply norm_eq; congruence.
Qed.

Lemma J_raw t v : lexical (ERaw t v) = true -> JE (ERaw t v).
Proof.
  cbn [lexical]. intro H. apply andb_true_iff in H as [H H3]. apply andb_true_iff in H as [H1 H2].
  apply Z.eqb_eq in H1. apply str_eqb_spec in H2.
  split; [repeat split; discriminate|]. cbn [write_expr fb first_type groupify]. rewrite H1.
  apply (JP_atom _ (96%N :: rep v ++ [96%N]) T_RAW_STRING v _ _ (fun t' => ERaw t' v)).
  - intros b0 lv mp. wsimp. rewrite replace_all_rep, <- !app_assoc. reflexivity.
  - intros K _. apply (lex1_raw v K H3).
  - discriminate.
  - discriminate.
  - reflexivity.
  - discriminate.
  - discriminate.
  - intros t' Ty' Li. split.
    + intro R. cbn [m_expr]. rewrite Ty', Li, str_eqb_refl. change (T_RAW_STRING =? T_RAW_STRING) with true. cbn [andb]. apply eat_tok_refl.
    + cbn [shape_expr tmap_expr]. f_equal. apply norm_eq; congruence.
Qed.

(* ---------- composite nodes ---------- *)

Lemma punct_inv t ty : punct t ty = true -> t_type t = ty /\ type_text ty = Some (t_lit t).
Proof.
  unfold punct. intro H. apply andb_true_iff in H as [H1 H2]. apply Z.eqb_eq in H1.
  destruct (type_text ty) as [s|]; [|discriminate H2]. apply str_eqb_spec in H2. subst. split; reflexivity.
Qed.

Lemma ostart_wrap (b : bool) c : ostart c -> ostart (if b then 40%N else c).
Proof. destruct b; [intros _; repeat split; discriminate|auto]. Qed.

Lemma J_binary t l op r : printable (EBinary t l op r) = true -> lexical (EBinary t l op r) = true ->
  JE l -> JE r -> JE (EBinary t l op r).
Proof.
  cbn [printable lexical]. intros Hp Hl [Ol Jl] [Or Jr].
  destruct (binop_level (t_type t)) as [lv|] eqn:Hb; [|discriminate Hp]. cbn [andb] in Hp.
  apply andb_true_iff in Hp as [Hp1 Hp2].
  apply andb_true_iff in Hl as [Hl Hl4]. apply andb_true_iff in Hl as [Hl Hl3].
  apply andb_true_iff in Hl as [Hl1 Hl2]. apply str_eqb_spec in Hl2. subst op.
  destruct (punct_inv _ _ Hl1) as [_ TT].
  split; [cbn [fb]; apply ostart_wrap; exact Ol|].
  cbn [write_expr prec_opt fb first_type groupify].
  rewrite (printable_prec_opt _ Hp1), (printable_prec_opt _ Hp2).
  change (prec_of (EBinary t l (t_lit t) r)) with (operator_precedence (t_type t)).
  set (bl := prec_of l <? operator_precedence (t_type t)).
  set (br := prec_of r <=? operator_precedence (t_type t)).
  match goal with |- JP ?ops _ _ _ =>
    replace ops with (opsw bl (write_expr l) ++
                      [WSpace; WComments (t_comments t); WMapping (t_start t); WString (t_lit t); WSpace] ++
                      opsw br (write_expr r))
      by (unfold opsw; rewrite <- !app_assoc, app_nil_r; reflexivity)
  end.
  apply (JP_infix _ _ _ _ _ (t_lit t) (t_type t) _ _ (if br then 40%N else fb r) (first_type r) t
           (fun t' a b => EBinary t' a (t_lit t) b)).
  - apply JP_opsw. exact Jl.
  - apply JP_opsw. exact Jr.
  - apply ostart_wrap. exact Ol.
  - apply ostart_wrap. exact Or.
  - intros b0 lv0 mp. wsimp. reflexivity.
  - exact TT.
  - intro E. rewrite E in Hb. discriminate Hb.
  - reflexivity.
  - reflexivity.
  - intros t' eL eR tsL tsR R Ty' Li' _ ML MR. cbn [m_expr]. rewrite Ty', Hb, Li', str_eqb_refl. cbn [negb].
    rewrite ML, eat_tok_refl. apply MR.
  - reflexivity.
  - reflexivity.
Qed.

Lemma J_assign t l v : printable (EAssign t l v) = true -> lexical (EAssign t l v) = true ->
  JE l -> JE v -> JE (EAssign t l v).
Proof.
  cbn [printable lexical]. intros Hp Hl [Ol Jl] [Ov Jv].
  apply andb_true_iff in Hl as [Hl Hl3]. apply andb_true_iff in Hl as [Hl1 Hl2].
  destruct (punct_inv _ _ Hl1) as [Ty TT]. rewrite type_text_assign in TT. inversion TT as [Li].
  split; [exact Ol|].
  cbn [write_expr fb first_type groupify].
  match goal with |- JP ?ops _ _ _ =>
    replace ops with (write_expr l ++
                      [WSpace; WComments (t_comments t); WMapping (t_start t); WRune 61%N; WSpace] ++
                      write_expr v)
      by (rewrite app_nil_r; reflexivity)
  end.
  apply (JP_infix _ _ _ _ _ [61%N] T_ASSIGN _ _ (fb v) (first_type v) t (fun t' a b => EAssign t' a b)).
  - exact Jl.
  - exact Jv.
  - exact Ol.
  - exact Ov.
  - intros b0 lv0 mp. wsimp. reflexivity.
  - reflexivity.
  - discriminate.
  - exact Ty.
  - symmetry. exact Li.
  - intros t' eL eR tsL tsR R Ty' Li' _ ML MR. cbn [m_expr]. rewrite Ty'.
    change (T_ASSIGN =? T_ASSIGN) with true. cbn [negb].
    rewrite ML, eat_tok_refl. apply MR.
  - reflexivity.
  - reflexivity.
Qed.

Lemma J_compound t l op v : printable (ECompound t l op v) = true -> lexical (ECompound t l op v) = true ->
  JE l -> JE v -> JE (ECompound t l op v).
Proof.
  cbn [printable lexical]. intros Hp Hl [Ol Jl] [Ov Jv].
  apply andb_true_iff in Hl as [Hl Hl3]. apply andb_true_iff in Hl as [Hl1 Hl2].
  assert (C : exists ty, (ty = T_PLUS_ASSIGN \/ ty = T_MINUS_ASSIGN) /\ t_type t = ty /\
                         type_text ty = Some (op ++ [61%N]) /\ t_lit t = op ++ [61%N] /\
                         (if ty =? T_PLUS_ASSIGN then Some [43%N]
                          else if ty =? T_MINUS_ASSIGN then Some [45%N] else None) = Some op).
  { apply orb_true_iff in Hl1 as [H|H]; apply andb_true_iff in H as [H1 H2];
      apply str_eqb_spec in H2; subst op; destruct (punct_inv _ _ H1) as [Ty TT].
    - exists T_PLUS_ASSIGN. split; [left; reflexivity|]. split; [exact Ty|]. split; [reflexivity|].
      split; [|reflexivity]. inversion TT. reflexivity.
    - exists T_MINUS_ASSIGN. split; [right; reflexivity|]. split; [exact Ty|]. split; [reflexivity|].
      split; [|reflexivity]. inversion TT. reflexivity. }
  destruct C as (ty & Hty & Ty & TT & Li & Want).
  split; [exact Ol|].
  cbn [write_expr fb first_type groupify].
  match goal with |- JP ?ops _ _ _ =>
    replace ops with (write_expr l ++
                      [WSpace; WComments (t_comments t); WMapping (t_start t); WString op; WRune 61%N; WSpace] ++
                      write_expr v)
      by (rewrite app_nil_r; reflexivity)
  end.
  apply (JP_infix _ _ _ _ _ (op ++ [61%N]) ty _ _ (fb v) (first_type v) t (fun t' a b => ECompound t' a op b)).
  - exact Jl.
  - exact Jv.
  - exact Ol.
  - exact Ov.
  - intros b0 lv0 mp. wsimp. rewrite <- app_assoc. reflexivity.
  - exact TT.
  - destruct Hty; subst ty; discriminate.
  - exact Ty.
  - exact Li.
  - intros t' eL eR tsL tsR R Ty' Li' _ ML MR. cbn [m_expr]. rewrite Ty', Want, str_eqb_refl. cbn [negb].
    rewrite ML, eat_tok_refl. apply MR.
  - reflexivity.
  - reflexivity.
Qed.

Lemma J_group lp e rp : lexical (EGroup lp e rp) = true -> JE e -> JE (EGroup lp e rp).
Proof.
  cbn [lexical]. intros Hl [Oe Je].
  apply andb_true_iff in Hl as [Hl Hl3]. apply andb_true_iff in Hl as [Hl1 Hl2].
  split; [repeat split; discriminate|].
  cbn [write_expr fb first_type groupify].
  destruct (punct_inv _ _ Hl1) as [Ty _]. rewrite Ty.
  match goal with |- JP ?ops _ _ _ =>
    replace ops with ([WComments (t_comments lp); WMapping (t_start lp); WRune 40%N; WIncIndent] ++ write_expr e ++
                      [WComments (t_comments rp); WDecIndent; WRune 41%N]) by reflexivity
  end.
  apply (JP_group _ _ _ _ lp rp _ _ Je Hl1 Hl2); intros b lv mp; wsimp; reflexivity.
Qed.

Lemma unary_wrap (b : bool) W :
  (if b then WRune 40%N :: WIncIndent :: W ++ WDecIndent :: WRune 41%N :: [] else W ++ []) = opsw b W.
Proof. destruct b; unfold opsw; cbn [app]; [reflexivity|rewrite app_nil_r; reflexivity]. Qed.

Lemma J_unary t op r : printable (EUnary t op r) = true -> lexical (EUnary t op r) = true ->
  JE r -> JE (EUnary t op r).
Proof.
  cbn [printable lexical]. intros Hp Hl [Or Jr].
  apply andb_true_iff in Hp as [Hp1 Hp2].
  apply andb_true_iff in Hl as [Hl Hl3]. apply andb_true_iff in Hl as [Hl1 Hl2].
  apply str_eqb_spec in Hl2. subst op. destruct (punct_inv _ _ Hl1) as [_ TT].
  assert (Tys : (t_type t =? T_NOT) || (t_type t =? T_MINUS) || (t_type t =? T_INCREMENT) || (t_type t =? T_DECREMENT) = true).
  { destruct ((t_type t =? T_INCREMENT) || (t_type t =? T_DECREMENT)) eqn:E; lia. }
  assert (Oop : ostart (hd 0%N (t_lit t))).
  { revert TT. generalize (t_lit t). intros s TT.
    assert (Hs : s = [33%N] \/ s = [45%N] \/ s = [43; 43]%N \/ s = [45; 45]%N).
    { apply orb_true_iff in Tys as [Tys|Tys]; [apply orb_true_iff in Tys as [Tys|Tys];
        [apply orb_true_iff in Tys as [Tys|Tys]|]|]; apply Z.eqb_eq in Tys; rewrite Tys in TT;
        inversion TT; auto. }
    destruct Hs as [-> | [-> | [-> | ->]]]; repeat split; discriminate. }
  split; [exact Oop|].
  cbn [write_expr fb first_type groupify].
  rewrite (printable_prec_opt _ Hp2), app_nil_r, unary_wrap.
  set (br := prec_of r <? A_PrecedenceUnary).
  pose proof (JP_opsw br _ _ _ _ Jr) as Jr'. pose proof (ostart_wrap br _ Or) as Or'.
  intros b lv mp.
  destruct (Jr' ((b ++ spf (t_lit t) b) ++ t_lit t) lv mp) as (sp2 & body2 & W2 & Sp2 & Hd2 & Lx2).
  exists (spf (t_lit t) b), (t_lit t ++ sp2 ++ body2). split.
  { wsimp. rewrite st_fusion. wsimp. rewrite W2. f_equal. rewrite <- !app_assoc. reflexivity. }
  split; [apply spf_cases|].
  split; [apply hd_app_ne; exact (type_text_nonempty _ _ TT)|].
  intros K HK l Hl.
  pose proof (pbnd_operand _ _ _ _ K _ Sp2 Hd2 Or') as PB.
  assert (St : exists t' l1, lexes l [t'] l1 /\ t_type t' = t_type t /\ t_lit t' = t_lit t /\
                             l_rest l1 = sp2 ++ body2 ++ K).
  { destruct (spf_cases (t_lit t) b) as [E|[E _]]; rewrite E in Hl.
    - cbn [app] in Hl. rewrite <- !app_assoc in Hl.
      destruct (punct_step_sp _ _ _ l TT PB Hl) as (t' & l1 & L1 & Ty1 & Li1 & _ & R1). eauto 8.
    - cbn [app] in Hl. rewrite <- !app_assoc in Hl.
      destruct (punct_step _ _ _ l TT PB Hl) as (t' & l1 & L1 & Ty1 & Li1 & _ & R1). eauto 8. }
  destruct St as (t' & l1 & L1 & Ty1 & Li1 & R1).
  destruct (Lx2 K (kont_sub _ _ _ HK eq_refl) l1 R1) as (eR & tsR & l2 & L2 & R2 & MR & SR & _).
  exists (EUnary t' (t_lit t) eR), ([t'] ++ tsR), l2.
  split; [eapply lexes_app; eassumption|]. split; [exact R2|]. split; [|split].
  - intro R. cbn [m_expr app]. rewrite Ty1, Tys, Li1, str_eqb_refl. cbn [negb orb].
    rewrite eat_tok_refl. apply MR.
  - unfold shape_expr in *. cbn [tmap_expr]. rewrite SR. f_equal. apply norm_eq; congruence.
  - exists t', tsR. split; [reflexivity|left; exact Ty1].
Qed.

Lemma J_postfix t l op : printable (EPostfix t l op) = true -> lexical (EPostfix t l op) = true ->
  JE l -> JE (EPostfix t l op).
Proof.
  cbn [printable lexical]. intros Hp Hl [Ol Jl].
  apply andb_true_iff in Hp as [Hp Hp2]. apply andb_true_iff in Hp as [Tys _].
  apply andb_true_iff in Hl as [Hl Hl3]. apply andb_true_iff in Hl as [Hl1 Hl2].
  apply str_eqb_spec in Hl2. subst op. destruct (punct_inv _ _ Hl1) as [_ TT].
  assert (Hs : t_lit t = [43; 43]%N \/ t_lit t = [45; 45]%N).
  { apply orb_true_iff in Tys as [T1|T1]; apply Z.eqb_eq in T1; rewrite T1 in TT; inversion TT; auto. }
  assert (ND : t_type t <> T_DOT).
  { intro E. rewrite E in Tys. discriminate Tys. }
  split; [cbn [fb]; apply ostart_wrap; exact Ol|].
  cbn [write_expr fb first_type groupify].
  rewrite (printable_prec_opt _ Hp2), unary_wrap.
  set (bl := prec_of l <? A_PrecedencePostfix).
  pose proof (JP_opsw bl _ _ _ _ Jl) as Jl'. pose proof (ostart_wrap bl _ Ol) as Ol'.
  intros b lv mp.
  destruct (Jl' b lv mp) as (sp & body & W & Sp & Hd & Lx).
  exists sp, (body ++ t_lit t). split.
  { wsimp. rewrite W. wsimp. f_equal. rewrite <- !app_assoc. reflexivity. }
  split; [exact Sp|]. split; [rewrite (hd_app_ne _ _ (ostart_ne _ _ Ol' Hd)); exact Hd|].
  intros K HK l0 Hl0.
  destruct (Lx (t_lit t ++ K) (kont_type_text _ _ _ TT ND) l0) as (eL & tsL & l1 & L1 & R1 & ML & SL & FL).
  { rewrite Hl0, <- !app_assoc. reflexivity. }
  assert (PB : pbnd (t_lit t) (hd 0%N K)) by (destruct Hs as [-> | ->]; exact I).
  destruct (punct_step _ _ _ l1 TT PB R1) as (t' & l2 & L2 & Ty2 & Li2 & Nl2 & R2).
  exists (EPostfix t' eL (t_lit t)), (tsL ++ [t']), l2.
  split; [eapply lexes_app; eassumption|]. split; [exact R2|]. split; [|split].
  - intro R. cbn [m_expr]. rewrite Ty2, Tys, Li2, str_eqb_refl, Nl2. cbn [negb orb].
    rewrite <- app_assoc, ML. cbn [app]. apply eat_tok_refl.
  - unfold shape_expr in *. cbn [tmap_expr]. rewrite SL. f_equal. apply norm_eq; congruence.
  - destruct FL as (t0 & ts0 & -> & F). exists t0, (ts0 ++ [t']). split; [reflexivity|exact F].
Qed.

Lemma J_call t f args : lexical (ECall t f args) = true -> JE f -> Forall JE args -> JE (ECall t f args).
Proof.
  cbn [lexical]. intros Hl [Of Jf] Ja.
  apply andb_true_iff in Hl as [Hl Hl3]. apply andb_true_iff in Hl as [Hl1 Hl2].
  destruct (punct_inv _ _ Hl1) as [Ty TT]. rewrite type_text_lparen in TT. inversion TT as [Li].
  split; [exact Of|].
  cbn [write_expr fb first_type groupify].
  pose proof (JL_sep _ Ja) as JA.
  intros b lv mp.
  destruct (Jf b lv mp) as (sp & body & W & Sp & Hd & Lx).
  destruct (JA ((b ++ sp ++ body) ++ [40%N]) lv mp) as (body2 & W2 & Lx2).
  exists sp, (body ++ 40%N :: body2 ++ [41%N]). split.
  { wsimp. rewrite W. wsimp. rewrite W2. wsimp. f_equal. rewrite <- !app_assoc. reflexivity. }
  split; [exact Sp|]. split; [rewrite (hd_app_ne _ _ (ostart_ne _ _ Of Hd)); exact Hd|].
  intros K HK l Hl.
  destruct (Lx (40%N :: body2 ++ 41%N :: K) ltac:(apply kont_cons; [reflexivity|discriminate]) l)
    as (eF & tsF & l1 & L1 & R1 & MF & SF & FF).
  { rewrite Hl, <- !app_assoc. cbn [app]. rewrite <- !app_assoc. reflexivity. }
  destruct (punct_step T_LPAREN [40%N] _ l1 type_text_lparen ltac:(pfree) R1)
    as (t1 & l2 & L2 & Ty1 & Li1 & _ & R2).
  destruct (Lx2 (41%N :: K) ltac:(apply kont_cons; [reflexivity|discriminate]) l2 R2)
    as (es' & tsA & l3 & L3 & R3 & MA & SA).
  destruct (punct_step T_RPAREN [41%N] K l3 type_text_rparen ltac:(pfree) R3)
    as (t2 & l4 & L4 & Ty2 & _ & _ & R4).
  exists (ECall t1 eF es'), (tsF ++ [t1] ++ tsA ++ [t2]), l4.
  split; [eapply lexes_app; [exact L1|eapply lexes_app; [exact L2|eapply lexes_app; eassumption]]|].
  split; [exact R4|]. split; [|split].
  - intro R. cbn [m_expr]. rewrite Ty1. change (T_LPAREN =? T_LPAREN) with true. cbn [negb].
    rewrite <- !app_assoc, MF. cbn [app]. rewrite eat_tok_refl, MA. cbn [app eat]. rewrite Ty2. reflexivity.
  - unfold shape_expr. cbn [tmap_expr]. change (tmap_expr norm_tok) with shape_expr. rewrite SF, SA. f_equal. apply norm_eq; congruence.
  - destruct FF as (t0 & ts0 & -> & F). eexists t0, _. split; [reflexivity|exact F].
Qed.

Lemma J_member_computed t o p : lexical (EMember t o p true) = true -> JE o -> JE p ->
  JE (EMember t o p true).
Proof.
  cbn [lexical]. intros Hl [Oo Jo] [Op Jp].
  apply andb_true_iff in Hl as [Hl1 Hl]. apply andb_true_iff in Hl as [Hl2 Hl3].
  destruct (punct_inv _ _ Hl2) as [Ty TT]. rewrite type_text_lbracket in TT. inversion TT as [Li].
  split; [exact Oo|].
  cbn [write_expr fb first_type groupify].
  intros b lv mp.
  destruct (Jo b lv mp) as (sp & body & W & Sp & Hd & Lx).
  destruct (Jp ((b ++ sp ++ body) ++ [91%N]) lv mp) as (sp2 & body2 & W2 & Sp2 & Hd2 & Lx2).
  exists sp, (body ++ 91%N :: sp2 ++ body2 ++ [93%N]). split.
  { wsimp. rewrite W. wsimp. rewrite W2. wsimp. f_equal. rewrite <- !app_assoc. reflexivity. }
  split; [exact Sp|]. split; [rewrite (hd_app_ne _ _ (ostart_ne _ _ Oo Hd)); exact Hd|].
  intros K HK l Hl.
  destruct (Lx (91%N :: sp2 ++ body2 ++ 93%N :: K) ltac:(apply kont_cons; [reflexivity|discriminate]) l)
    as (eO & tsO & l1 & L1 & R1 & MO & SO & FO).
  { rewrite Hl, <- !app_assoc. cbn [app]. rewrite <- !app_assoc. reflexivity. }
  destruct (punct_step T_LBRACKET [91%N] _ l1 type_text_lbracket ltac:(pfree) R1)
    as (t1 & l2 & L2 & Ty1 & Li1 & _ & R2).
  destruct (Lx2 (93%N :: K) ltac:(apply kont_cons; [reflexivity|discriminate]) l2 R2)
    as (eP & tsP & l3 & L3 & R3 & MP & SP & _).
  destruct (punct_step T_RBRACKET [93%N] K l3 type_text_rbracket ltac:(pfree) R3)
    as (t2 & l4 & L4 & Ty2 & _ & _ & R4).
  exists (EMember t1 eO eP true), (tsO ++ [t1] ++ tsP ++ [t2]), l4.
  split; [eapply lexes_app; [exact L1|eapply lexes_app; [exact L2|eapply lexes_app; eassumption]]|].
  split; [exact R4|]. split; [|split].
  - intro R. cbn [m_expr]. rewrite <- !app_assoc, MO. rewrite Ty1. change (T_LBRACKET =? T_LBRACKET) with true. cbn [negb].
    cbn [app]. rewrite eat_tok_refl, MP. cbn [app eat]. rewrite Ty2. reflexivity.
  - unfold shape_expr. cbn [tmap_expr]. change (tmap_expr norm_tok) with shape_expr. rewrite SO, SP. f_equal. apply norm_eq; congruence.
  - destruct FO as (t0 & ts0 & -> & F). eexists t0, _. split; [reflexivity|exact F].
Qed.

Lemma J_member_dot t o i : lexical (EMember t o (EIdent i) false) = true -> obj_ok o = true -> JE o ->
  JE (EMember t o (EIdent i) false).
Proof.
  cbn [lexical]. intros Hl Hob [Oo Jo].
  apply andb_true_iff in Hl as [Hl1 Hl]. apply andb_true_iff in Hl as [Hl2 Hl3].
  destruct (punct_inv _ _ Hl2) as [Ty TT]. rewrite type_text_dot in TT. inversion TT as [Li].
  unfold ident_lexical in Hl3. apply andb_true_iff in Hl3 as [Hi H3]. apply andb_true_iff in Hi as [H1 H2].
  apply Z.eqb_eq in H1. apply str_eqb_spec in H2.
  destruct (lex1_word _ _ [] H3 eq_refl ltac:(discriminate) ltac:(discriminate) eq_refl) as (HL & _).
  assert (Ni : id_value i <> []) by (intro E; rewrite E in HL; discriminate HL).
  split; [exact Oo|].
  cbn [write_expr fb first_type groupify]. unfold write_ident.
  (* the blank that keeps a decimal integer literal and the dot apart *)
  set (bl := if is_decimal_int o then [32%N] else @nil N).
  assert (Wb : forall b lv mp,
    wrun (gs b lv mp) (if negb false && is_decimal_int o then [WRune 32%N] else []) = gs (b ++ bl) lv mp).
  { intros. unfold bl. destruct (is_decimal_int o); cbn [negb andb]; wsimp; rewrite ?app_nil_r; reflexivity. }
  intros b lv mp.
  destruct (Jo b lv mp) as (sp & body & W & Sp & Hd & Lx).
  exists sp, (body ++ bl ++ 46%N :: id_value i). split.
  { wsimp. rewrite W, Wb. wsimp. f_equal. rewrite <- !app_assoc. reflexivity. }
  split; [exact Sp|]. split; [rewrite (hd_app_ne _ _ (ostart_ne _ _ Oo Hd)); exact Hd|].
  intros K HK l Hl.
  destruct (Lx (bl ++ 46%N :: id_value i ++ K)) with (l := l) as (eO & tsO & l1 & L1 & R1 & MO & SO & FO).
  { unfold bl. destruct (is_decimal_int o) eqn:DI; [apply kont_cons; [reflexivity|discriminate]|].
    split; cbn [app hd tl]; [reflexivity|]. intros _. rewrite dot_ok_groupify. unfold dot_ok.
    rewrite Hob, DI. reflexivity. }
  { rewrite Hl, <- !app_assoc. cbn [app]. rewrite <- ?app_assoc. reflexivity. }
  assert (PS : exists t1 l2, lexes l1 [t1] l2 /\ t_type t1 = T_DOT /\ t_lit t1 = [46%N] /\
                             l_rest l2 = id_value i ++ K).
  { unfold bl in R1. destruct (is_decimal_int o).
    - destruct (punct_step_sp T_DOT [46%N] _ l1 type_text_dot ltac:(pfree) R1)
        as (t1 & l2 & L2 & Ty1 & Li1 & _ & R2). eauto 7.
    - destruct (punct_step T_DOT [46%N] _ l1 type_text_dot ltac:(pfree) R1)
        as (t1 & l2 & L2 & Ty1 & Li1 & _ & R2). eauto 7. }
  destruct PS as (t1 & l2 & L2 & Ty1 & Li1 & R2).
  destruct HK as [HK1 _].
  destruct (lex1_word _ _ K H3 eq_refl ltac:(discriminate) ltac:(discriminate) HK1) as (_ & LW & _).
  destruct (lex1_lexes _ _ _ _ LW Ni ltac:(discriminate) l2 R2) as (t2 & l3 & L3 & Ty2 & Li2 & _ & R3).
  exists (EMember t1 eO (EIdent (mkident t2 (id_value i))) false), (tsO ++ [t1] ++ [t2]), l3.
  split; [eapply lexes_app; [exact L1|eapply lexes_app; eassumption]|].
  split; [exact R3|]. split; [|split].
  - intro R. cbn [m_expr]. rewrite <- !app_assoc, MO. rewrite Ty1. change (T_DOT =? T_DOT) with true. cbn [negb].
    cbn [app]. rewrite eat_tok_refl. unfold m_ident, ident_ok. cbn [id_tok id_value].
    rewrite Ty2, Li2, str_eqb_refl. change (T_IDENT =? T_IDENT) with true. cbn [andb]. apply eat_tok_refl.
  - unfold shape_expr. cbn [tmap_expr]. change (tmap_expr norm_tok) with shape_expr. unfold tmap_ident. cbn [id_tok id_value]. rewrite SO.
    rewrite (norm_eq t1 t), (norm_eq t2 (id_tok i)) by congruence. reflexivity.
  - destruct FO as (t0 & ts0 & -> & F). eexists t0, _. split; [reflexivity|exact F].
Qed.

Lemma J_array lb es rb : lexical (EArray lb es rb) = true -> Forall JE es -> JE (EArray lb es rb).
Proof.
  cbn [lexical]. intros Hl Ja.
  apply andb_true_iff in Hl as [Hl Hl3]. apply andb_true_iff in Hl as [Hl1 Hl2].
  destruct (punct_inv _ _ Hl1) as [Ty1 TT1]. rewrite type_text_lbracket in TT1. inversion TT1 as [Li1].
  destruct (punct_inv _ _ Hl2) as [Ty2 TT2]. rewrite type_text_rbracket in TT2. inversion TT2 as [Li2].
  split; [repeat split; discriminate|].
  cbn [write_expr fb first_type groupify]. rewrite Ty1.
  pose proof (JL_sep _ Ja) as JA.
  intros b lv mp.
  destruct (JA (b ++ [91%N]) lv mp) as (body2 & W2 & Lx2).
  exists [], (91%N :: body2 ++ [93%N]). split.
  { wsimp. rewrite W2. wsimp. f_equal. rewrite <- !app_assoc. reflexivity. }
  split; [right; split; [reflexivity|apply nofuse_other; discriminate]|]. split; [reflexivity|].
  intros K HK l Hl. cbn [app] in Hl. rewrite <- !app_assoc in Hl.
  destruct (punct_step T_LBRACKET [91%N] _ l type_text_lbracket ltac:(pfree) Hl)
    as (t1 & l2 & L2 & T1 & I1 & _ & R2).
  destruct (Lx2 (93%N :: K) ltac:(apply kont_cons; [reflexivity|discriminate]) l2 R2)
    as (es' & tsA & l3 & L3 & R3 & MA & SA).
  destruct (punct_step T_RBRACKET [93%N] K l3 type_text_rbracket ltac:(pfree) R3)
    as (t2 & l4 & L4 & T2 & I2 & _ & R4).
  exists (EArray t1 es' t2), ([t1] ++ tsA ++ [t2]), l4.
  split; [eapply lexes_app; [exact L2|eapply lexes_app; eassumption]|].
  split; [exact R4|]. split; [|split].
  - intro R. cbn [m_expr]. rewrite T1, T2. change (T_LBRACKET =? T_LBRACKET) with true.
    change (T_RBRACKET =? T_RBRACKET) with true. cbn [negb orb app].
    rewrite eat_tok_refl, <- app_assoc, MA. cbn [app]. apply eat_tok_refl.
  - unfold shape_expr. cbn [tmap_expr]. change (tmap_expr norm_tok) with shape_expr. rewrite SA.
    rewrite (norm_eq t1 lb), (norm_eq t2 rb) by congruence. reflexivity.
  - eexists t1, _. split; [reflexivity|left; exact T1].
Qed.

(* ---------- object literals ---------- *)

Lemma key_groupify k : key_ok k = true -> groupify k = k.
Proof. destruct k; try discriminate; reflexivity. Qed.
Lemma key_printable k : key_ok k = true -> printable k = true.
Proof. destruct k; try discriminate; reflexivity. Qed.
Lemma key_ok_shape a b : shape_expr a = shape_expr b -> key_ok a = key_ok b.
Proof. destruct a; destruct b; cbn; intro H; try discriminate H; reflexivity. Qed.

Definition shp (kv : expr * expr) : expr * expr := (shape_expr (fst kv), shape_expr (snd kv)).

Definition JPR (ops : list wop) (gl : list (expr * expr)) : Prop :=
  forall b lv mp, exists body,
    wrun (gs b lv mp) ops = gs (b ++ body) lv mp /\
    forall K, kont ENil K -> forall l, l_rest l = body ++ K ->
      exists ps' ts l', lexes l ts l' /\ l_rest l' = K /\
        (forall R, m_props m_expr ps' (ts ++ R) = Some R) /\
        map shp ps' = map shp gl.

Lemma colon_step X l : l_rest l = 58%N :: X ->
  exists t l', lexes l [t] l' /\ t_type t = T_COLON /\ l_rest l' = X.
Proof.
  intro Hl. destruct (lex1_lexes _ _ _ _ (lex1_colon X) ltac:(discriminate) ltac:(discriminate) l Hl)
    as (t & l' & L & Ty & _ & _ & R). eauto.
Qed.

Definition prop_ops (prop : expr * expr) : list wop :=
  write_expr (fst prop) ++ WRune 58%N :: WSpace :: write_expr (snd prop) ++ [].

Lemma JPR_sep ps : Forall (fun kv => key_ok (fst kv) = true /\ JE (fst kv) /\ JE (snd kv)) ps ->
  JPR (sep_map [WRune 44%N; WSpace] prop_ops ps) (map (fun kv => (fst kv, groupify (snd kv))) ps).
Proof.
  induction 1 as [|[k v] ps (Kk & [Ok Jk] & [Ov Jv]) Hps IH]; intros b lv mp.
  - exists []. split; [rewrite app_nil_r; reflexivity|].
    intros K HK l Hl. exists [], [], l. repeat split; try constructor. exact Hl.
  - cbn [fst snd] in *.
    destruct (Jk b lv mp) as (sp & body & W & Sp & Hd & Lx).
    destruct (Jv ((b ++ sp ++ body) ++ [58%N]) lv mp) as (sp2 & body2 & W2 & Sp2 & Hd2 & Lx2).
    assert (ONE : forall K, kont ENil K -> forall l, l_rest l = sp ++ body ++ 58%N :: sp2 ++ body2 ++ K ->
              exists k' v' ts l', lexes l ts l' /\ l_rest l' = K /\ key_ok k' = true /\
                (forall R, exists R1, m_expr k' (ts ++ R) = Some R1 /\
                   exists tc R2, eat T_COLON R1 = Some (tc, R2) /\ m_expr v' R2 = Some R) /\
                shape_expr k' = shape_expr k /\ shape_expr v' = shape_expr (groupify v)).
    { intros K HK l Hl.
      destruct (Lx (58%N :: sp2 ++ body2 ++ K) ltac:(apply kont_cons; [reflexivity|discriminate]) l Hl)
        as (k' & tsk & l1 & L1 & R1 & Mk & Sk & _).
      destruct (colon_step _ l1 R1) as (tc & l2 & L2 & Tc & R2).
      destruct (Lx2 K (kont_sub _ _ _ HK eq_refl) l2 R2) as (v' & tsv & l3 & L3 & R3 & Mv & Sv & _).
      exists k', v', (tsk ++ [tc] ++ tsv), l3.
      split; [eapply lexes_app; [exact L1|eapply lexes_app; eassumption]|]. split; [exact R3|].
      rewrite (key_groupify _ Kk) in Sk.
      split; [rewrite (key_ok_shape _ _ Sk); exact Kk|]. split; [|split; assumption].
      intro R. eexists. rewrite <- !app_assoc. split; [apply Mk|].
      cbn [app eat]. rewrite Tc. change (T_COLON =? T_COLON) with true. cbn iota.
      do 2 eexists. split; [reflexivity|apply Mv]. }
    destruct ps as [|kv2 ps'].
    + exists (sp ++ body ++ 58%N :: sp2 ++ body2). split.
      { rewrite sep_map_one. unfold prop_ops. cbn [fst snd]. wsimp. rewrite W. wsimp. rewrite W2.
        f_equal. rewrite <- !app_assoc. reflexivity. }
      intros K HK l Hl.
      destruct (ONE K HK l) as (k' & v' & ts & l' & L & R & Kk' & M & Sk & Sv).
      { rewrite Hl, <- !app_assoc. cbn [app]. rewrite <- !app_assoc. reflexivity. }
      exists [(k', v')], ts, l'. split; [exact L|]. split; [exact R|]. split.
      * intro R0. cbn [m_props]. rewrite Kk'. cbn [negb].
        destruct (M R0) as (R1 & -> & tc & R2 & -> & ->). reflexivity.
      * cbn [map]. unfold shp. cbn [fst snd]. rewrite Sk, Sv. reflexivity.
    + destruct (IH (((b ++ sp ++ body) ++ [58%N]) ++ sp2 ++ body2 ++ [44%N]) lv mp) as (body3 & W3 & Lx3).
      exists ((sp ++ body ++ 58%N :: sp2 ++ body2) ++ 44%N :: body3). split.
      { rewrite sep_map_cons2. unfold prop_ops at 1. cbn [fst snd]. wsimp. rewrite W. wsimp. rewrite W2. wsimp.
        rewrite <- !app_assoc in W3. cbn [app] in W3. rewrite <- !app_assoc. cbn [app].
        rewrite <- !app_assoc. cbn [app]. rewrite W3. reflexivity. }
      intros K HK l Hl.
      destruct (ONE (44%N :: body3 ++ K) ltac:(apply kont_cons; [reflexivity|discriminate]) l)
        as (k' & v' & ts & l1 & L1 & R1 & Kk' & M & Sk & Sv).
      { rewrite Hl, <- !app_assoc. cbn [app]. rewrite <- !app_assoc. reflexivity. }
      destruct (comma_step _ l1 R1) as (tc & l2 & L2 & Tc & R2).
      destruct (Lx3 K HK l2 R2) as (ps2 & ts2 & l3 & L3 & R3 & M3 & S3).
      exists ((k', v') :: ps2), (ts ++ [tc] ++ ts2), l3.
      split; [eapply lexes_app; [exact L1|eapply lexes_app; eassumption]|]. split; [exact R3|].
      split.
      * intro R0. destruct ps2 as [|p2 ps2']; [discriminate S3|].
        cbn [m_props]. rewrite Kk'. cbn [negb]. rewrite <- !app_assoc.
        destruct (M ([tc] ++ ts2 ++ R0)) as (Ra & -> & tcc & Rb & -> & ->).
        cbn [app eat]. rewrite Tc. change (T_COMMA =? T_COMMA) with true. cbn iota. apply M3.
      * cbn [map]. unfold shp at 1 3. cbn [fst snd]. rewrite Sk, Sv. f_equal. exact S3.
Qed.

Lemma J_object lb ps rb : lexical (EObject lb ps rb) = true ->
  Forall (fun kv => key_ok (fst kv) = true /\ JE (fst kv) /\ JE (snd kv)) ps ->
  JE (EObject lb ps rb).
Proof.
  cbn [lexical]. intros Hl Jp.
  apply andb_true_iff in Hl as [Hl Hl3]. apply andb_true_iff in Hl as [Hl1 _].
  destruct (punct_inv _ _ Hl1) as [Ty1 TT1]. rewrite type_text_lbrace in TT1. inversion TT1 as [Li1].
  split; [repeat split; discriminate|].
  cbn [write_expr fb first_type groupify]. rewrite Ty1.
  pose proof (JPR_sep _ Jp) as JA.
  intros b lv mp.
  destruct (JA (b ++ [123%N]) lv mp) as (body2 & W2 & Lx2).
  exists [], (123%N :: body2 ++ [125%N]). split.
  { wsimp. fold prop_ops. change (fun prop : expr * expr => prop_ops prop) with prop_ops.
    rewrite W2. wsimp. f_equal. rewrite <- !app_assoc. reflexivity. }
  split; [right; split; [reflexivity|apply nofuse_other; discriminate]|]. split; [reflexivity|].
  intros K HK l Hl. cbn [app] in Hl. rewrite <- !app_assoc in Hl.
  destruct (punct_step T_LBRACE [123%N] _ l type_text_lbrace ltac:(pfree) Hl)
    as (t1 & l2 & L2 & T1 & I1 & _ & R2).
  destruct (Lx2 (125%N :: K) ltac:(apply kont_cons; [reflexivity|discriminate]) l2 R2)
    as (ps' & tsA & l3 & L3 & R3 & MA & SA).
  destruct (punct_step T_RBRACE [125%N] K l3 type_text_rbrace ltac:(pfree) R3)
    as (t2 & l4 & L4 & T2 & I2 & _ & R4).
  destruct ps as [|kv ps0].
  - (* the parser does not keep the closing brace of an empty literal *)
    apply tok_eqb_eq in Hl3. subst rb.
    destruct ps' as [|? ?]; [|discriminate SA].
    assert (tsA = []).
    { specialize (MA []). cbn [m_props] in MA. rewrite app_nil_r in MA. inversion MA. reflexivity. }
    subst tsA.
    exists (EObject t1 [] zero_token), ([t1] ++ [] ++ [t2]), l4.
    split; [eapply lexes_app; [exact L2|eapply lexes_app; eassumption]|].
    split; [exact R4|]. split; [|split].
    + intro R. cbn [m_expr]. rewrite T1. change (T_LBRACE =? T_LBRACE) with true. cbn [negb app].
      rewrite eat_tok_refl. rewrite tok_eqb_refl. cbn [app eat]. rewrite T2. reflexivity.
    + unfold shape_expr. cbn [tmap_expr map]. rewrite (norm_eq t1 lb) by congruence. reflexivity.
    + eexists t1, _. split; [reflexivity|left; exact T1].
  - destruct (punct_inv _ _ Hl3) as [Ty2 TT2]. rewrite type_text_rbrace in TT2. inversion TT2 as [Li2].
    destruct ps' as [|p' ps'']; [discriminate SA|].
    exists (EObject t1 (p' :: ps'') t2), ([t1] ++ tsA ++ [t2]), l4.
    split; [eapply lexes_app; [exact L2|eapply lexes_app; eassumption]|].
    split; [exact R4|]. split; [|split].
    + intro R. cbn [m_expr]. rewrite T1, T2. change (T_LBRACE =? T_LBRACE) with true.
      change (T_RBRACE =? T_RBRACE) with true. cbn [negb app].
      rewrite eat_tok_refl, <- app_assoc, MA. cbn [app]. apply eat_tok_refl.
    + unfold shape_expr. cbn [tmap_expr]. change (tmap_expr norm_tok) with shape_expr.
      fold shp. change (fun kv : expr * expr => shp kv) with shp.
      rewrite (norm_eq t1 lb), (norm_eq t2 rb) by congruence.
      f_equal. rewrite SA, !map_map. reflexivity.
    + eexists t1, _. split; [reflexivity|left; exact T1].
Qed.

(* ---------- all expressions ---------- *)

Lemma Forall_JE l :
  Forall (fun x => printable x = true -> lexical x = true -> JE x) l ->
  forallb printable l = true -> forallb lexical l = true -> Forall JE l.
Proof.
  induction 1 as [|x l Hx _ IH]; cbn [forallb]; intros Hp Hl; constructor;
    apply andb_true_iff in Hp as [Hp1 Hp2]; apply andb_true_iff in Hl as [Hl1 Hl2]; auto.
Qed.

Lemma J_all : forall e, printable e = true -> lexical e = true -> JE e.
Proof.
  induction e using expr_ind'; intros Hp Hl; try discriminate Hp.
  - apply J_ident. exact Hl.
  - apply J_int. exact Hl.
  - apply J_float. exact Hl.
  - apply J_string. exact Hl.
  - apply J_raw. exact Hl.
  - apply J_bool. exact Hl.
  - apply J_null. exact Hl.
  - (* EBinary *)
    pose proof Hp as Hp'. pose proof Hl as Hl'. cbn [printable lexical] in Hp', Hl'.
    destruct (binop_level (t_type t)); [|discriminate Hp']. cbn [andb] in Hp'.
    apply andb_true_iff in Hp' as [Hp1 Hp2].
    apply andb_true_iff in Hl' as [Hl0 Hl4]. apply andb_true_iff in Hl0 as [_ Hl3].
    apply J_binary; auto.
  - (* EUnary *)
    pose proof Hp as Hp'. pose proof Hl as Hl'. cbn [printable lexical] in Hp', Hl'.
    apply andb_true_iff in Hp' as [_ Hp2]. apply andb_true_iff in Hl' as [_ Hl3].
    apply J_unary; auto.
  - (* EPostfix *)
    pose proof Hp as Hp'. pose proof Hl as Hl'. cbn [printable lexical] in Hp', Hl'.
    apply andb_true_iff in Hp' as [_ Hp2]. apply andb_true_iff in Hl' as [_ Hl3].
    apply J_postfix; auto.
  - (* EGroup *)
    pose proof Hl as Hl'. cbn [printable lexical] in Hp, Hl'.
    apply andb_true_iff in Hl' as [_ Hl3]. apply J_group; auto.
  - (* ECall *)
    pose proof Hl as Hl'. cbn [printable lexical] in Hp, Hl'.
    apply andb_true_iff in Hp as [Hp Hp3]. apply andb_true_iff in Hp as [_ Hp2].
    apply andb_true_iff in Hl' as [Hl0 Hl3]. apply andb_true_iff in Hl0 as [_ Hl2].
    apply J_call; auto. apply Forall_JE; assumption.
  - (* EMember *)
    pose proof Hl as Hl'. cbn [printable lexical] in Hp, Hl'.
    apply andb_true_iff in Hp as [Hp Hp3]. apply andb_true_iff in Hp as [Hpc Hp2].
    apply andb_true_iff in Hl' as [Hl1 Hl2].
    destruct c.
    + apply andb_true_iff in Hl2 as [_ Hl3]. apply J_member_computed; auto.
    + apply andb_true_iff in Hl2 as [_ Hl3]. destruct e2; try discriminate Hl3.
      apply J_member_dot; auto. apply obj_ok_prec; assumption.
  - (* EAssign *)
    pose proof Hp as Hp'. pose proof Hl as Hl'. cbn [printable lexical] in Hp', Hl'.
    apply andb_true_iff in Hp' as [Hp0 Hp3]. apply andb_true_iff in Hp0 as [_ Hp2].
    apply andb_true_iff in Hl' as [Hl0 Hl3]. apply andb_true_iff in Hl0 as [_ Hl2].
    apply J_assign; auto.
  - (* ECompound *)
    pose proof Hp as Hp'. pose proof Hl as Hl'. cbn [printable lexical] in Hp', Hl'.
    apply andb_true_iff in Hp' as [Hp0 Hp3]. apply andb_true_iff in Hp0 as [_ Hp2].
    apply andb_true_iff in Hl' as [Hl0 Hl3]. apply andb_true_iff in Hl0 as [_ Hl2].
    apply J_compound; auto.
  - (* EArray *)
    pose proof Hl as Hl'. cbn [printable lexical] in Hp, Hl'.
    apply andb_true_iff in Hl' as [_ Hl3].
    apply J_array; auto. apply Forall_JE; assumption.
  - (* EObject *)
    pose proof Hl as Hl'. cbn [printable lexical] in Hp, Hl'.
    apply andb_true_iff in Hl' as [Hl0 _]. apply andb_true_iff in Hl0 as [_ Hl2].
    apply J_object; auto.
    clear - H Hp Hl2. induction H as [|[k v] ps [Hk Hv] _ IH]; [constructor|].
    cbn [forallb fst snd] in *.
    apply andb_true_iff in Hp as [Hp1 Hp2]. apply andb_true_iff in Hp1 as [Kk Pv].
    apply andb_true_iff in Hl2 as [Hl1 Hl2]. apply andb_true_iff in Hl1 as [Lk Lv].
    constructor; [|apply IH; assumption]. cbn [fst snd].
    split; [exact Kk|]. split; [apply Hk; [apply key_printable; exact Kk|exact Lk]|apply Hv; assumption].
Qed.

(* ================================================================== *)
(* 9. the level discipline and grouping only see token types           *)
(* ================================================================== *)

Section TypePreserving.
  Variable f : token -> token.
  Hypothesis Hf : forall t, t_type (f t) = t_type t.

  Lemma level_tmap e : level (tmap_expr f e) = level e.
  Proof. destruct e; cbn [tmap_expr level]; rewrite ?Hf; reflexivity. Qed.

  Lemma assignable_tmap e : assignable (tmap_expr f e) = assignable e.
  Proof. induction e; cbn [tmap_expr assignable]; auto. Qed.

  Lemma is_enil_tmap e : is_enil (tmap_expr f e) = is_enil e.
  Proof. destruct e; reflexivity. Qed.

  Lemma in_esize a l : In a l -> (esize a <= fold_right (fun a n => esize a + n) 0 l)%nat.
  Proof. induction l as [|x l IH]; cbn [In fold_right]; [tauto|]. intros [->|H]; [lia|]. apply IH in H. lia. Qed.
  Lemma in_ssize a l : In a l -> (ssize a <= fold_right (fun a n => ssize a + n) 0 l)%nat.
  Proof. induction l as [|x l IH]; cbn [In fold_right]; [tauto|]. intros [->|H]; [lia|]. apply IH in H. lia. Qed.
  Lemma in_psize (kv : expr * expr) l : In kv l ->
    (esize (fst kv) + esize (snd kv) <= fold_right (fun kv n => esize (fst kv) + esize (snd kv) + n) 0 l)%nat.
  Proof. induction l as [|x l IH]; cbn [In fold_right]; [tauto|]. intros [->|H]; [lia|]. apply IH in H. lia. Qed.

  Lemma wf_exprs_map l : (forall x, In x l -> wf_expr (tmap_expr f x) = wf_expr x) ->
    wf_exprs wf_expr (map (tmap_expr f) l) = wf_exprs wf_expr l.
  Proof.
    induction l as [|x l IH]; intro H; cbn [map wf_exprs]; [reflexivity|].
    rewrite H by (left; reflexivity). rewrite IH; [reflexivity|]. intros y Hy. apply H. right. exact Hy.
  Qed.
  Lemma wf_props_map l :
    (forall kv, In kv l -> wf_expr (tmap_expr f (fst kv)) = wf_expr (fst kv) /\
                           wf_expr (tmap_expr f (snd kv)) = wf_expr (snd kv)) ->
    wf_props wf_expr (map (fun kv => (tmap_expr f (fst kv), tmap_expr f (snd kv))) l) = wf_props wf_expr l.
  Proof.
    induction l as [|[k v] l IH]; intro H; cbn [map wf_props fst snd]; [reflexivity|].
    destruct (H (k, v) (or_introl eq_refl)) as [H1 H2]. cbn [fst snd] in H1, H2. rewrite H1, H2.
    rewrite IH; [reflexivity|]. intros y Hy. apply H. right. exact Hy.
  Qed.
  Lemma wf_stmts_map l : (forall x, In x l -> wf_stmt (tmap_stmt f x) = wf_stmt x) ->
    wf_stmts wf_stmt (map (tmap_stmt f) l) = wf_stmts wf_stmt l.
  Proof.
    induction l as [|x l IH]; intro H; cbn [map wf_stmts]; [reflexivity|].
    rewrite H by (left; reflexivity). rewrite IH; [reflexivity|]. intros y Hy. apply H. right. exact Hy.
  Qed.

  Lemma ends_open_tmap s : ends_in_open_if (tmap_stmt f s) = ends_in_open_if s.
  Proof.
    induction s; cbn [tmap_stmt ends_in_open_if]; auto.
    destruct s2; cbn [tmap_stmt]; auto.
  Qed.
  Lemma single_ok_tmap s : single_statement_ok (tmap_stmt f s) = single_statement_ok s.
  Proof. destruct s; reflexivity. Qed.

  Lemma wf_tmap n :
    (forall e, (esize e < n)%nat -> wf_expr (tmap_expr f e) = wf_expr e) /\
    (forall s, (ssize s < n)%nat -> wf_stmt (tmap_stmt f s) = wf_stmt s).
  Proof.
    induction n as [|n [IHe IHs]]; [split; intros; lia|].
    assert (OPT : forall v, (esize v < n)%nat ->
              match tmap_expr f v with ENil => true | _ => wf_expr (tmap_expr f v) end =
              match v with ENil => true | _ => wf_expr v end).
    { intros v Hv. rewrite IHe by exact Hv. destruct v; reflexivity. }
    split.
    - intros e H. destruct e; cbn [tmap_expr wf_expr]; cbn [esize] in H; try reflexivity.
      + rewrite Hf, !level_tmap, !IHe by lia. reflexivity.
      + rewrite Hf, level_tmap, assignable_tmap, IHe by lia. reflexivity.
      + rewrite assignable_tmap, IHe by lia. reflexivity.
      + apply IHe. lia.
      + rewrite level_tmap, IHe by lia. rewrite wf_exprs_map; [reflexivity|].
        intros x Hx. apply in_esize in Hx. apply IHe. lia.
      + rewrite level_tmap, !IHe by lia. reflexivity.
      + rewrite assignable_tmap, !IHe by lia. reflexivity.
      + rewrite assignable_tmap, !IHe by lia. reflexivity.
      + apply IHs. lia.
      + apply wf_exprs_map. intros x Hx. apply in_esize in Hx. apply IHe. lia.
      + apply wf_props_map. intros kv Hx. apply in_psize in Hx. split; apply IHe; lia.
    - intros s H. destruct s; cbn [tmap_stmt wf_stmt]; cbn [ssize] in H; try reflexivity.
      + apply OPT. lia.
      + apply OPT. lia.
      + apply IHe. lia.
      + apply IHs. lia.
      + apply wf_stmts_map. intros x Hx. apply in_ssize in Hx. apply IHs. lia.
      + rewrite IHe, !single_ok_tmap, !IHs, ends_open_tmap by lia.
        destruct s2; reflexivity.
      + rewrite IHe, single_ok_tmap, IHs by lia. reflexivity.
      + rewrite single_ok_tmap, IHs by lia.
        rewrite (OPT cond), (OPT upd) by lia.
        destruct init; cbn [tmap_expr]; try reflexivity;
          try (match goal with
               | |- wf_expr ?a && _ && _ && _ && _ = wf_expr ?b && _ && _ && _ && _ =>
                   change a with (tmap_expr f b); rewrite (IHe b) by (cbn [esize] in *; lia)
               end; reflexivity).
        cbn [esize] in H. rewrite (OPT init) by lia. reflexivity.
  Qed.

  Lemma wf_expr_tmap e : wf_expr (tmap_expr f e) = wf_expr e.
  Proof. apply (proj1 (wf_tmap (S (esize e)))). lia. Qed.
End TypePreserving.

Lemma strip_tmap f : forall e, strip_groups (tmap_expr f e) = tmap_expr f (strip_groups e).
Proof.
  induction e using expr_ind'; cbn [tmap_expr strip_groups]; try reflexivity;
    rewrite ?IHe, ?IHe1, ?IHe2; try reflexivity.
  - f_equal. rewrite !map_map. apply map_ext_Forall. exact H.
  - f_equal. rewrite !map_map. apply map_ext_Forall. exact H.
  - f_equal. rewrite !map_map. apply map_ext_Forall.
    eapply Forall_impl; [|exact H]. intros [k v] [Hk Hv]. cbn [fst snd] in *. rewrite Hk, Hv. reflexivity.
Qed.

(* ================================================================== *)
(* 10. the expression statement                                        *)
(* ================================================================== *)

Lemma first_type_ok : forall e, printable e = true -> lexical e = true ->
  first_type e <> T_LBRACE -> statement_keyword (first_type e) = false.
Proof.
  induction e; intros Hp Hl Hn; try discriminate Hp; cbn [first_type printable lexical] in *.
  - (* EIdent *) unfold ident_lexical in Hl. apply andb_true_iff in Hl as [Hl _].
    apply andb_true_iff in Hl as [Hl _]. apply Z.eqb_eq in Hl. rewrite Hl. reflexivity.
  - apply andb_true_iff in Hl as [Hl _]. apply andb_true_iff in Hl as [Hl _]. apply Z.eqb_eq in Hl. rewrite Hl. reflexivity.
  - apply andb_true_iff in Hl as [Hl _]. apply andb_true_iff in Hl as [Hl _]. apply Z.eqb_eq in Hl. rewrite Hl. reflexivity.
  - apply andb_true_iff in Hl as [Hl _]. apply andb_true_iff in Hl as [Hl _]. apply Z.eqb_eq in Hl. rewrite Hl. reflexivity.
  - apply andb_true_iff in Hl as [Hl _]. apply andb_true_iff in Hl as [Hl _]. apply Z.eqb_eq in Hl. rewrite Hl. reflexivity.
  - apply andb_true_iff in Hl as [Hl _].
    assert (T : t_type t = T_TRUE \/ t_type t = T_FALSE) by lia. destruct T as [-> | ->]; reflexivity.
  - apply andb_true_iff in Hl as [Hl _]. apply Z.eqb_eq in Hl. rewrite Hl. reflexivity.
  - (* EBinary *)
    destruct (binop_level (t_type t)); [|discriminate Hp]. cbn [andb] in Hp.
    apply andb_true_iff in Hp as [Hp1 _].
    apply andb_true_iff in Hl as [Hl _]. apply andb_true_iff in Hl as [_ Hl]. auto.
  - (* EUnary *)
    apply andb_true_iff in Hp as [Hp1 _].
    assert (T : t_type t = T_NOT \/ t_type t = T_MINUS \/ t_type t = T_INCREMENT \/ t_type t = T_DECREMENT).
    { destruct ((t_type t =? T_INCREMENT) || (t_type t =? T_DECREMENT)) eqn:E; lia. }
    destruct T as [-> | [-> | [-> | ->]]]; reflexivity.
  - (* EPostfix *)
    apply andb_true_iff in Hp as [_ Hp2].
    apply andb_true_iff in Hl as [_ Hl]. auto.
  - (* EGroup *)
    apply andb_true_iff in Hl as [Hl _]. apply andb_true_iff in Hl as [Hl _].
    destruct (punct_inv _ _ Hl) as [-> _]. reflexivity.
  - (* ECall *)
    apply andb_true_iff in Hp as [Hp _]. apply andb_true_iff in Hp as [_ Hp].
    apply andb_true_iff in Hl as [Hl _]. apply andb_true_iff in Hl as [_ Hl]. auto.
  - (* EMember *)
    apply andb_true_iff in Hp as [Hp _]. apply andb_true_iff in Hp as [_ Hp].
    apply andb_true_iff in Hl as [Hl _]. auto.
  - (* EAssign *)
    apply andb_true_iff in Hp as [Hp _]. apply andb_true_iff in Hp as [_ Hp].
    apply andb_true_iff in Hl as [Hl _]. apply andb_true_iff in Hl as [_ Hl]. auto.
  - (* ECompound *)
    apply andb_true_iff in Hp as [Hp _]. apply andb_true_iff in Hp as [_ Hp].
    apply andb_true_iff in Hl as [Hl _]. apply andb_true_iff in Hl as [_ Hl]. auto.
  - (* EArray *)
    apply andb_true_iff in Hl as [Hl _]. apply andb_true_iff in Hl as [Hl _].
    destruct (punct_inv _ _ Hl) as [-> _]. reflexivity.
  - (* EObject *)
    apply andb_true_iff in Hl as [Hl _]. apply andb_true_iff in Hl as [Hl _].
    destruct (punct_inv _ _ Hl) as [E _]. congruence.
Qed.

Lemma printable_not_nil e : printable e = true -> is_enil e = false.
Proof. destruct e; try discriminate; reflexivity. Qed.

Lemma compact_code e : printable e = true -> forall sp body,
  wrun (gs [] 0 SourceMap.mapper_new) (write_expr e) = gs ([] ++ sp ++ body) 0 SourceMap.mapper_new ->
  r_code (compile (cfg_compact false) (expr_program e)) = sp ++ body ++ [59%N].
Proof.
  intros Hp sp body W. unfold compile, finish, run_wops, expr_program, write_program.
  cbn [p_stmts p_eof w_pretty cfg_compact r_code].
  rewrite sep_map_one. cbn [write_stmt]. rewrite (printable_not_nil _ Hp).
  match goal with |- w_buf (fold_left _ ?ops _) = _ =>
    change (w_buf (wrun (gs [] 0 SourceMap.mapper_new) ops) = sp ++ body ++ [59%N]) end.
  rewrite !app_nil_r. wsimp. rewrite W. wsimp. rewrite st_semi, st_comments. cbn [w_buf gs app]. rewrite <- ?app_assoc. reflexivity.
Qed.

Theorem print_parse_compact : forall e,
  printable e = true -> lexical e = true -> negb (first_type e =? T_LBRACE) = true ->
  exists r, reparse_compact (expr_program e) = Some r /\
            pr_errors r = [] /\
            shape_program (pr_program r) = shape_program (expr_program (groupify e)) /\
            map strip_groups_stmt (p_stmts (shape_program (pr_program r)))
            = map strip_groups_stmt (p_stmts (shape_program (expr_program e))).
Proof.
  intros e Hp Hl Hn.
  destruct (J_all e Hp Hl) as [Os J].
  destruct (J [] 0 SourceMap.mapper_new) as (sp & body & W & Sp & Hd & Lx).
  pose proof (compact_code e Hp sp body W) as Code.
  set (T := sp ++ body ++ [59%N]) in *.
  (* the tokens *)
  destruct (Lx [59%N] ltac:(apply kont_cons; [reflexivity|discriminate]) (lx_init T) eq_refl)
    as (e' & ts & l1 & L1 & R1 & M & Sh0 & (t0 & ts0 & Ets & F)).
  destruct (lex1_lexes _ _ _ _ (lex1_semi []) ltac:(discriminate) ltac:(discriminate) l1 R1)
    as (tsemi & l2 & L2 & Tsemi & _ & _ & R2).
  pose proof (lexes_app _ _ _ _ _ L1 L2) as L.
  pose proof (lex_eof_stable l2 (at_eof_nil _ R2)) as EOFs.
  destruct (next_token l2) as [teof l3] eqn:Neof. destruct EOFs as (Eeof & _).
  assert (Tok : tokenize T = Some ((ts ++ [tsemi]) ++ [teof])).
  { unfold tokenize. pose proof (lexes_len _ _ _ L) as Len. cbn [lx_init l_rest] in Len. rewrite R2 in Len.
    cbn [length] in Len.
    replace (S (length T)) with (length (ts ++ [tsemi]) + S (length T - length (ts ++ [tsemi])))%nat by lia.
    rewrite (tokenize_from_lexes _ _ _ L). cbn [tokenize_from]. rewrite Neof.
    rewrite Eeof. cbn [t_type]. change (T_EOF =? T_EOF) with true. cbn iota. reflexivity. }
  (* the tree *)
  set (p' := mkprogram [SExpr e'] teof).
  assert (Keyw : statement_keyword (t_type t0) = false).
  { destruct F as [F|F]; rewrite F; [|reflexivity].
    apply first_type_ok; try assumption. intro E. rewrite E in Hn. discriminate Hn. }
  assert (Mp : m_program p' ((ts ++ [tsemi]) ++ [teof]) = true).
  { unfold m_program, p'. cbn [p_eof p_stmts m_stmts]. rewrite Eeof at 1. cbn [t_type].
    change (T_EOF =? T_EOF) with true. cbn [andb].
    rewrite <- app_assoc. cbn [m_stmt]. rewrite Ets at 1. cbn [app]. rewrite Keyw.
    rewrite M. cbn [app m_end]. rewrite Tsemi. change (T_SEMICOLON =? T_SEMICOLON) with true.
    cbn iota. apply tok_eqb_refl. }
  assert (Wf : wf_program p' = true).
  { unfold wf_program, p'. cbn [p_stmts wf_stmts wf_stmt]. rewrite andb_true_r.
    rewrite <- (wf_expr_tmap norm_tok (fun _ => eq_refl) e').
    change (tmap_expr norm_tok e') with (shape_expr e'). rewrite Sh0. unfold shape_expr.
    rewrite (wf_expr_tmap norm_tok (fun _ => eq_refl)). apply groupify_wf. exact Hp. }
  destruct (parse_complete p' _ Mp Wf) as (r & Hr & Pr & Er & _).
  exists r. split; [|split; [exact Er|]].
  { unfold reparse_compact. rewrite Code, Tok. exact Hr. }
  assert (Sh : shape_program (pr_program r) = shape_program (expr_program (groupify e))).
  { rewrite Pr. unfold shape_program, p', expr_program. cbn [p_stmts p_eof map shape_stmt tmap_stmt].
    change (tmap_expr norm_tok e') with (shape_expr e'). rewrite Sh0. f_equal.
    rewrite Eeof. reflexivity. }
  split; [exact Sh|].
  rewrite Sh. unfold shape_program, expr_program. cbn [p_stmts map shape_stmt tmap_stmt strip_groups_stmt].
  rewrite !strip_tmap, groupify_strip. reflexivity.
Qed.

Print Assumptions print_parse_compact.
