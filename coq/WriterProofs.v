(* WriterProofs.v -- properties of the code writer model (Writer.v) and of the
   generated printer run through it (C06, C08, C14). *)
Require Import Base GoOps Token Tree SourceMap Writer PrinterLib Compile WriterSpec.
Require Import Gen.Printer.
From Coq Require Import ZifyBool ZifyN ZifyNat Lia.

(* ------------------------------------------------------------------ *)
(* generic facts                                                       *)
(* ------------------------------------------------------------------ *)

Lemma run_wops_snoc cfg ops o : run_wops cfg (ops ++ [o]) = wstep cfg (run_wops cfg ops) o.
Proof. unfold run_wops. rewrite fold_left_app. reflexivity. Qed.

Lemma wstep_panicked cfg st o : w_panic st = true -> wstep cfg st o = st.
Proof. intro H. unfold wstep. rewrite H. reflexivity. Qed.

(* ------------------------------------------------------------------ *)
(* C14: the source-map flag is neutral                                 *)
(* ------------------------------------------------------------------ *)

(* two states that differ at most in their mapper *)
Definition ceq (a b : wstate) : Prop :=
  w_buf a = w_buf b /\ w_pend a = w_pend b /\ w_level a = w_level b /\ w_panic a = w_panic b.

(* two configurations that differ at most in the map flag *)
Definition cfg_nomap_eq (c1 c2 : wcfg) : Prop :=
  w_pretty c1 = w_pretty c2 /\ w_indent c1 = w_indent c2 /\ w_semis c1 = w_semis c2.

Lemma ceq_refl a : ceq a a.
Proof. repeat split. Qed.

Lemma ceq_write_raw c1 c2 a b s : ceq a b -> ceq (write_raw c1 a s) (write_raw c2 b s).
Proof.
  intros (Hb & Hp & Hl & Hn). unfold ceq, write_raw. cbn [w_buf w_pend w_level w_panic].
  rewrite Hb. repeat split; assumption.
Qed.

Lemma ceq_write_indent c1 c2 a b : cfg_nomap_eq c1 c2 -> ceq a b ->
  ceq (write_indent c1 a) (write_indent c2 b).
Proof.
  intros (_ & Hi & _) H. unfold write_indent. rewrite Hi.
  destruct H as (Hb & Hp & Hl & Hn). rewrite Hl.
  apply ceq_write_raw. repeat split; assumption.
Qed.

Lemma ceq_flush_fold c1 c2 : cfg_nomap_eq c1 c2 -> forall q a b, ceq a b ->
  ceq (fold_left (fun s c => if N.eqb c TAB then write_indent c1 s else write_raw c1 s [c]) q a)
      (fold_left (fun s c => if N.eqb c TAB then write_indent c2 s else write_raw c2 s [c]) q b).
Proof.
  intros Hc q. induction q as [|c q IH]; intros a b H; cbn [fold_left]; [exact H|].
  apply IH. destruct (N.eqb c TAB); [apply ceq_write_indent|apply ceq_write_raw]; assumption.
Qed.

Lemma ceq_flush_pending c1 c2 a b : cfg_nomap_eq c1 c2 -> ceq a b ->
  ceq (flush_pending c1 a) (flush_pending c2 b).
Proof.
  intros Hc H. unfold flush_pending.
  assert (Hp : w_pend a = w_pend b) by apply H. rewrite Hp.
  pose proof (ceq_flush_fold c1 c2 Hc (w_pend b) a b H) as (Hb & _ & Hl & Hn).
  unfold ceq. cbn [w_buf w_pend w_level w_panic]. repeat split; assumption.
Qed.

Lemma ceq_write_rune c1 c2 a b c : cfg_nomap_eq c1 c2 -> ceq a b ->
  ceq (write_rune c1 a c) (write_rune c2 b c).
Proof.
  intros Hc H. unfold write_rune.
  pose proof (ceq_flush_pending c1 c2 a b Hc H) as (Hb & _ & Hl & Hn).
  unfold ceq. cbn [w_buf w_pend w_level w_panic]. rewrite Hb. repeat split; assumption.
Qed.

Lemma ceq_write_string c1 c2 a b s : cfg_nomap_eq c1 c2 -> ceq a b ->
  ceq (write_string c1 a s) (write_string c2 b s).
Proof.
  intros Hc H. unfold write_string. apply ceq_write_raw. apply ceq_flush_pending; assumption.
Qed.

Lemma ceq_comment_items c1 c2 : cfg_nomap_eq c1 c2 -> forall cs a b first, ceq a b ->
  ceq (write_comment_items c1 a first cs) (write_comment_items c2 b first cs).
Proof.
  intros Hc cs. induction cs as [|c cs IH]; intros a b first H; cbn [write_comment_items]; [exact H|].
  apply IH. apply ceq_write_raw.
  assert (H1 : ceq (if first then match c with [] => a | _ :: _ => write_raw c1 a [32%N] end
                    else write_indent c1 (write_raw c1 a [LF]))
                   (if first then match c with [] => b | _ :: _ => write_raw c2 b [32%N] end
                    else write_indent c2 (write_raw c2 b [LF]))).
  { destruct first.
    - destruct c; [exact H|apply ceq_write_raw; exact H].
    - apply ceq_write_indent; [exact Hc|]. apply ceq_write_raw; exact H. }
  destruct c as [|x c].
  - destruct first; exact H1.
  - apply ceq_write_raw. destruct first; exact H1.
Qed.

Lemma ceq_set_pend a b p : ceq a b -> ceq (set_pend a p) (set_pend b p).
Proof. intros (Hb & Hp & Hl & Hn). unfold ceq, set_pend. cbn. repeat split; assumption. Qed.

Lemma ceq_wstep c1 c2 a b o : cfg_nomap_eq c1 c2 -> ceq a b -> ceq (wstep c1 a o) (wstep c2 b o).
Proof.
  intros Hc H. pose proof Hc as (Hpr & Hi & Hs). pose proof H as (Hb & Hp & Hl & Hn).
  unfold wstep. rewrite Hn. destruct (w_panic b); [exact H|].
  rewrite Hpr, Hs, Hp, Hl.
  destruct o.
  - apply ceq_write_string; assumption.
  - apply ceq_write_rune; assumption.
  - destruct (negb (w_pretty c2)); [apply ceq_write_rune; assumption|].
    destruct (w_semis c2); [apply ceq_write_rune; assumption|exact H].
  - destruct (negb (w_pretty c2)); [exact H|].
    destruct (last_is (w_pend b) 32); [exact H|]. apply ceq_set_pend; exact H.
  - destruct (negb (w_pretty c2)); [exact H|]. apply ceq_set_pend; exact H.
  - destruct (negb (w_pretty c2)); [exact H|].
    destruct (last_is (w_pend b) TAB); [exact H|]. apply ceq_set_pend; exact H.
  - destruct (negb (w_pretty c2)); [exact H|].
    unfold ceq; cbn [w_buf w_pend w_level w_panic]. repeat split; assumption.
  - destruct (negb (w_pretty c2)); [exact H|].
    destruct (0 <? w_level b); [|exact H].
    unfold ceq; cbn [w_buf w_pend w_level w_panic]. repeat split; assumption.
  - destruct (negb (w_pretty c2)); [exact H|].
    destruct cs as [|c cs]; [exact H|]. apply ceq_set_pend. apply ceq_comment_items; assumption.
  - pose proof (ceq_flush_pending c1 c2 a b Hc H) as H1.
    destruct (w_map c1), (w_map c2); exact H1.
  - pose proof (ceq_flush_pending c1 c2 a b Hc H) as H1.
    destruct (w_map c1), (w_map c2); exact H1.
  - pose proof (ceq_flush_pending c1 c2 a b Hc H) as H1.
    pose proof H1 as (Hb1 & _). rewrite Hb1.
    destruct op as [|c op]; [exact H1|].
    destruct (rev (w_buf (flush_pending c2 b))) as [|last r]; [exact H1|].
    match goal with |- ceq (if ?c then _ else _) _ => destruct c end; [|exact H1].
    apply ceq_write_rune; assumption.
  - unfold ceq; cbn [w_buf w_pend w_level w_panic]. repeat split; assumption.
Qed.

Lemma ceq_fold c1 c2 : cfg_nomap_eq c1 c2 -> forall ops a b, ceq a b ->
  ceq (fold_left (wstep c1) ops a) (fold_left (wstep c2) ops b).
Proof.
  intros Hc ops. induction ops as [|o ops IH]; intros a b H; cbn [fold_left]; [exact H|].
  apply IH. apply ceq_wstep; assumption.
Qed.

Lemma map_flag_neutral : forall pretty indent semis p,
  r_code (compile (mkwcfg pretty indent semis true) p) = r_code (compile (mkwcfg pretty indent semis false) p) /\
  r_panic (compile (mkwcfg pretty indent semis true) p) = r_panic (compile (mkwcfg pretty indent semis false) p).
Proof.
  intros pretty indent semis p. unfold compile, finish, run_wops. cbn [r_code r_panic w_pretty].
  assert (Hc : cfg_nomap_eq (mkwcfg pretty indent semis true) (mkwcfg pretty indent semis false))
    by (repeat split).
  pose proof (ceq_fold _ _ Hc (write_program p) wstate_init wstate_init (ceq_refl _)) as (Hb & _ & _ & Hn).
  rewrite Hb, Hn. split; reflexivity.
Qed.

(* ------------------------------------------------------------------ *)
(* C14: debug string = compact compilation                             *)
(* ------------------------------------------------------------------ *)

Lemma debug_string_is_compact : forall s eof,
  debug_to_string_stmt s =
  (r_code (compile (cfg_compact false) (mkprogram [s] eof)),
   r_panic (compile (cfg_compact false) (mkprogram [s] eof))).
Proof.
  intros s eof. unfold debug_to_string_stmt, compile, write_program.
  cbn [p_stmts p_eof sep_map]. rewrite !app_nil_r. rewrite run_wops_snoc.
  set (st := run_wops (cfg_compact false) (write_stmt s)).
  assert (H : wstep (cfg_compact false) st (WComments (t_comments eof)) = st).
  { unfold wstep. destruct (w_panic st); reflexivity. }
  rewrite H. reflexivity.
Qed.

(* ------------------------------------------------------------------ *)
(* C06: the semicolon option                                           *)
(* ------------------------------------------------------------------ *)

Lemma comment_items_semis p i m s1 s2 : forall cs st first,
  write_comment_items (mkwcfg p i s1 m) st first cs = write_comment_items (mkwcfg p i s2 m) st first cs.
Proof.
  induction cs as [|c cs IH]; intros st first; cbn [write_comment_items]; [reflexivity|].
  rewrite IH. reflexivity.
Qed.

Lemma wstep_semis i m o st : is_semi_op o = false ->
  wstep (mkwcfg true i false m) st o = wstep (mkwcfg true i true m) st o.
Proof.
  intro Ho. destruct o; try discriminate Ho; unfold wstep; try reflexivity.
  destruct (w_panic st); [reflexivity|]. cbn [w_pretty negb].
  destruct cs as [|c cs]; [reflexivity|].
  rewrite (comment_items_semis true i m false true). reflexivity.
Qed.

Lemma fold_erase_semis i m : forall ops st,
  fold_left (wstep (mkwcfg true i false m)) ops st =
  fold_left (wstep (mkwcfg true i true m)) (erase_semis ops) st.
Proof.
  induction ops as [|o ops IH]; intro st; [reflexivity|].
  unfold erase_semis. cbn [filter fold_left]. fold (erase_semis ops).
  destruct (is_semi_op o) eqn:E; cbn [negb fold_left].
  - destruct o; try discriminate E.
    assert (H : wstep (mkwcfg true i false m) st WSemi = st).
    { unfold wstep. destruct (w_panic st); reflexivity. }
    rewrite H. apply IH.
  - rewrite (wstep_semis i m o st E). apply IH.
Qed.

Lemma semi_only : forall indent m p,
  compile (cfg_pretty indent false m) p =
  finish (cfg_pretty indent true m) (run_wops (cfg_pretty indent true m) (erase_semis (write_program p))).
Proof.
  intros indent m p. unfold compile, run_wops, cfg_pretty.
  rewrite fold_erase_semis. reflexivity.
Qed.

(* ------------------------------------------------------------------ *)
(* C08: the mapper follows the buffer; mappings are sorted             *)
(* ------------------------------------------------------------------ *)

Definition mpos (m : mapper) : pos := mkpos (sm_line m) (sm_col m).

Lemma pos_eta p : mkpos (pline p) (pcol p) = p.
Proof. destruct p; reflexivity. Qed.

Lemma pos_le_refl p : pos_le p p.
Proof. unfold pos_le. lia. Qed.

Lemma pos_le_trans a b c : pos_le a b -> pos_le b c -> pos_le a c.
Proof. unfold pos_le. lia. Qed.

Lemma pos_le_after s : forall p, pos_le p (pos_after p s).
Proof.
  induction s as [|c s IH]; intro p; cbn [pos_after]; [apply pos_le_refl|].
  eapply pos_le_trans; [|apply IH].
  destruct (N.eqb c LF); unfold pos_le; cbn [pline pcol]; lia.
Qed.

Lemma no_cr_app a b : no_cr a -> no_cr b -> no_cr (a ++ b).
Proof. unfold no_cr. intros Ha Hb H. apply in_app_or in H as [H|H]; tauto. Qed.

Lemma no_cr_cons c s : c <> CR -> no_cr s -> no_cr (c :: s).
Proof. unfold no_cr. intros Hc Hs [H|H]; [congruence|tauto]. Qed.

Lemma no_cr_nil : no_cr [].
Proof. intros []. Qed.

Lemma no_cr_inv c s : no_cr (c :: s) -> c <> CR /\ no_cr s.
Proof. unfold no_cr. cbn [In]. intro H. split; intro; apply H; [left; congruence|right; assumption]. Qed.

Lemma no_cr_repeat_app n ind : no_cr ind -> no_cr (repeat_app n ind).
Proof.
  intro H. induction n as [|n IH]; cbn [repeat_app]; [apply no_cr_nil|].
  apply no_cr_app; assumption.
Qed.

Ltac solve_no_cr :=
  repeat (apply no_cr_cons; [unfold CR, LF, TAB; discriminate|]); apply no_cr_nil.

(* without CR, AdvanceString is the abstract position advance *)
Lemma advance_str_no_cr s : forall l c, no_cr s ->
  advance_str s false l c = (pline (pos_after (mkpos l c) s), pcol (pos_after (mkpos l c) s)).
Proof.
  induction s as [|x s IH]; intros l c H; cbn [advance_str pos_after andb]; [reflexivity|].
  apply no_cr_inv in H as [Hx Hs].
  destruct (N.eqb x CR) eqn:E1; [apply N.eqb_eq in E1; contradiction|].
  destruct (N.eqb x LF); cbn [pline pcol]; apply IH; exact Hs.
Qed.

Lemma mapper_adv_string m s : no_cr s ->
  mapper_step m (MAdvanceString s) =
  mkmapper (sm_maps m) (sm_names m) (pline (pos_after (mpos m) s)) (pcol (pos_after (mpos m) s)).
Proof.
  intro H. cbn [mapper_step]. rewrite (advance_str_no_cr s _ _ H). reflexivity.
Qed.

(* sortedness with the current position as a sentinel at the end *)
Lemma sorted_snoc_replace l a b : sorted_pos (l ++ [a]) -> pos_le a b -> sorted_pos (l ++ [b]).
Proof.
  intros H Hab. induction l as [|x l IH].
  - cbn. tauto.
  - cbn [app sorted_pos] in *. destruct H as [H1 H2]. split; [|apply IH; exact H2].
    destruct l as [|y l]; cbn [app] in *; [eapply pos_le_trans; eassumption|exact H1].
Qed.

Lemma sorted_snoc_dup l a : sorted_pos (l ++ [a]) -> sorted_pos ((l ++ [a]) ++ [a]).
Proof.
  intros H. induction l as [|x l IH].
  - cbn. split; [apply pos_le_refl|tauto].
  - cbn [app sorted_pos] in *. destruct H as [H1 H2]. split; [|apply IH; exact H2].
    destruct l as [|y l]; cbn [app] in *; exact H1.
Qed.

Lemma sorted_snoc_drop l a : sorted_pos (l ++ [a]) -> sorted_pos l.
Proof.
  intros H. induction l as [|x l IH]; [exact I|].
  cbn [app sorted_pos] in *. destruct H as [H1 H2]. split; [|apply IH; exact H2].
  destruct l as [|y l]; cbn [app] in *; [exact I|exact H1].
Qed.

Definition good (st : wstate) : Prop :=
  mpos (w_mapper st) = pos_after (mkpos 0 0) (w_buf st) /\
  sorted_pos (map gen_pos (sm_maps (w_mapper st)) ++ [mpos (w_mapper st)]) /\
  no_cr (w_pend st).

Lemma good_init : good wstate_init.
Proof. unfold good. cbn. repeat split; try tauto. intros []. Qed.

(* a transition that appends [s] to the buffer and advances the mapper accordingly *)
Lemma good_advance st st' s :
  good st ->
  w_buf st' = w_buf st ++ s ->
  mpos (w_mapper st') = pos_after (mpos (w_mapper st)) s ->
  sm_maps (w_mapper st') = sm_maps (w_mapper st) ->
  no_cr (w_pend st') ->
  good st'.
Proof.
  intros (H1 & H2 & H3) Hb Hp Hm Hq. unfold good. rewrite Hb, Hp, Hm, pos_after_app, <- H1.
  repeat split; [|exact Hq].
  eapply sorted_snoc_replace; [exact H2|apply pos_le_after].
Qed.

Section Mapped.
  Variable cfg : wcfg.
  Hypothesis Hmap : w_map cfg = true.
  Hypothesis Hind : no_cr (w_indent cfg).

  Lemma maps_write_raw st s : sm_maps (w_mapper (write_raw cfg st s)) = sm_maps (w_mapper st).
  Proof.
    unfold write_raw, map_adv_string. cbn [w_mapper]. destruct (w_map cfg); [|reflexivity].
    cbn [mapper_step]. destruct (advance_str s false (sm_line (w_mapper st)) (sm_col (w_mapper st))).
    reflexivity.
  Qed.

  Lemma good_write_raw st s : good st -> no_cr s -> good (write_raw cfg st s).
  Proof.
    intros H Hs. apply (good_advance st _ s H).
    - reflexivity.
    - unfold write_raw, map_adv_string. cbn [w_mapper]. rewrite Hmap.
      rewrite (mapper_adv_string _ s Hs). unfold mpos at 1. cbn [sm_line sm_col]. apply pos_eta.
    - apply maps_write_raw.
    - apply H.
  Qed.

  Lemma no_cr_indent n : no_cr (repeat_app n match w_indent cfg with [] => default_indent | i => i end).
  Proof.
    apply no_cr_repeat_app. destruct (w_indent cfg); [unfold default_indent; solve_no_cr|exact Hind].
  Qed.

  Lemma good_write_indent st : good st -> good (write_indent cfg st).
  Proof. intro H. unfold write_indent. apply good_write_raw; [exact H|apply no_cr_indent]. Qed.

  Lemma maps_write_indent st : sm_maps (w_mapper (write_indent cfg st)) = sm_maps (w_mapper st).
  Proof. unfold write_indent. apply maps_write_raw. Qed.

  Definition flush_fun := fun s c => if N.eqb c TAB then write_indent cfg s else write_raw cfg s [c].

  Lemma good_flush_fold : forall q st, good st -> no_cr q -> good (fold_left flush_fun q st).
  Proof.
    induction q as [|c q IH]; intros st H Hq; cbn [fold_left]; [exact H|].
    apply no_cr_inv in Hq as [Hc Hq]. apply IH; [|exact Hq]. unfold flush_fun.
    destruct (N.eqb c TAB); [apply good_write_indent; exact H|].
    apply good_write_raw; [exact H|]. apply no_cr_cons; [exact Hc|apply no_cr_nil].
  Qed.

  Lemma maps_flush_fold : forall q st,
    sm_maps (w_mapper (fold_left flush_fun q st)) = sm_maps (w_mapper st).
  Proof.
    induction q as [|c q IH]; intro st; cbn [fold_left]; [reflexivity|].
    rewrite IH. unfold flush_fun. destruct (N.eqb c TAB); [apply maps_write_indent|apply maps_write_raw].
  Qed.

  Lemma good_flush_pending st : good st -> good (flush_pending cfg st).
  Proof.
    intro H. unfold flush_pending. fold flush_fun.
    pose proof (good_flush_fold (w_pend st) st H (proj2 (proj2 H))) as (H1 & H2 & _).
    unfold good. cbn [w_buf w_pend w_mapper]. repeat split; [exact H1|exact H2|apply no_cr_nil].
  Qed.

  Lemma maps_flush_pending st : sm_maps (w_mapper (flush_pending cfg st)) = sm_maps (w_mapper st).
  Proof. unfold flush_pending. fold flush_fun. cbn [w_mapper]. apply maps_flush_fold. Qed.

  Lemma pend_flush_pending st : w_pend (flush_pending cfg st) = [].
  Proof. reflexivity. Qed.

  Lemma good_write_rune st c : good st -> good (write_rune cfg st c).
  Proof.
    intro H. apply good_flush_pending in H. unfold write_rune. rewrite Hmap.
    apply (good_advance _ _ [c] H).
    - reflexivity.
    - cbn [w_mapper pos_after]. destruct (N.eqb c LF); reflexivity.
    - cbn [w_mapper]. destruct (N.eqb c LF); reflexivity.
    - apply no_cr_nil.
  Qed.

  Lemma good_write_string st s : good st -> no_cr s -> good (write_string cfg st s).
  Proof. intros H Hs. unfold write_string. apply good_write_raw; [apply good_flush_pending; exact H|exact Hs]. Qed.

  Lemma good_comment_items : forall cs st first, good st -> Forall no_cr cs ->
    good (write_comment_items cfg st first cs).
  Proof.
    induction cs as [|c cs IH]; intros st first H Hcs; cbn [write_comment_items]; [exact H|].
    inversion Hcs as [|c' cs' Hc Hcs']; subst. apply IH; [|exact Hcs'].
    apply good_write_raw; [|exact Hc].
    assert (H1 : good (if first then match c with [] => st | _ :: _ => write_raw cfg st [32%N] end
                       else write_indent cfg (write_raw cfg st [LF]))).
    { destruct first.
      - destruct c; [exact H|apply good_write_raw; [exact H|solve_no_cr]].
      - apply good_write_indent. apply good_write_raw; [exact H|solve_no_cr]. }
    destruct c as [|x c].
    - destruct first; exact H1.
    - apply good_write_raw; [|solve_no_cr]. destruct first; exact H1.
  Qed.

  Lemma good_set_pend st q : good st -> no_cr q -> good (set_pend st q).
  Proof. intros (H1 & H2 & _) Hq. unfold good, set_pend. cbn [w_buf w_pend w_mapper]. tauto. Qed.

  Lemma good_add_mapping st sl sc : good st ->
    good (mkwstate (w_buf st) (w_pend st) (w_level st)
                   (mapper_step (w_mapper st) (MAddMapping sl sc)) (w_panic st)).
  Proof.
    intros (H1 & H2 & H3). unfold good. cbn [w_buf w_pend w_mapper mapper_step].
    unfold mpos in *. cbn [sm_line sm_col sm_maps]. repeat split; [exact H1| |exact H3].
    rewrite map_app. cbn [map]. unfold gen_pos at 2. cbn [m_gl m_gc].
    apply sorted_snoc_dup. exact H2.
  Qed.

  Lemma good_add_named st sl sc name : good st ->
    good (mkwstate (w_buf st) (w_pend st) (w_level st)
                   (mapper_step (w_mapper st) (MAddNamed sl sc name)) (w_panic st)).
  Proof.
    intros (H1 & H2 & H3). unfold good. cbn [w_buf w_pend w_mapper mapper_step].
    destruct (index_of name (sm_names (w_mapper st)) 0);
      unfold mpos in *; cbn [sm_line sm_col sm_maps]; (repeat split; [exact H1| |exact H3]);
      rewrite map_app; cbn [map]; unfold gen_pos at 2; cbn [m_gl m_gc];
      apply sorted_snoc_dup; exact H2.
  Qed.

  Lemma good_wstep st o : good st -> no_cr_op o -> good (wstep cfg st o).
  Proof.
    intros H Ho. unfold wstep. destruct (w_panic st); [exact H|].
    destruct o; cbn [no_cr_op] in Ho.
    - apply good_write_string; assumption.
    - apply good_write_rune; assumption.
    - destruct (negb (w_pretty cfg)); [apply good_write_rune; exact H|].
      destruct (w_semis cfg); [apply good_write_rune; exact H|exact H].
    - destruct (negb (w_pretty cfg)); [exact H|].
      destruct (last_is (w_pend st) 32); [exact H|].
      apply good_set_pend; [exact H|]. apply no_cr_app; [apply H|solve_no_cr].
    - destruct (negb (w_pretty cfg)); [exact H|]. apply good_set_pend; [exact H|solve_no_cr].
    - destruct (negb (w_pretty cfg)); [exact H|].
      destruct (last_is (w_pend st) TAB); [exact H|].
      apply good_set_pend; [exact H|]. apply no_cr_app; [apply H|solve_no_cr].
    - destruct (negb (w_pretty cfg)); exact H.
    - destruct (negb (w_pretty cfg)); [exact H|]. destruct (0 <? w_level st); exact H.
    - destruct (negb (w_pretty cfg)); [exact H|]. destruct cs as [|c cs]; [exact H|].
      apply good_set_pend; [|solve_no_cr]. apply good_comment_items; assumption.
    - rewrite Hmap. apply good_add_mapping. apply good_flush_pending. exact H.
    - rewrite Hmap. apply good_add_named. apply good_flush_pending. exact H.
    - apply good_flush_pending in H. destruct op as [|c op]; [exact H|].
      destruct (rev (w_buf (flush_pending cfg st))); [exact H|].
      match goal with |- good (if ?c then _ else _) => destruct c end; [|exact H].
      apply good_write_rune. exact H.
    - exact H.
  Qed.

  Lemma good_fold : forall ops st, good st -> Forall no_cr_op ops -> good (fold_left (wstep cfg) ops st).
  Proof.
    induction ops as [|o ops IH]; intros st H Hops; cbn [fold_left]; [exact H|].
    inversion Hops; subst. apply IH; [apply good_wstep|]; assumption.
  Qed.

  Lemma good_run ops : Forall no_cr_op ops -> good (run_wops cfg ops).
  Proof. intro H. unfold run_wops. apply good_fold; [apply good_init|exact H]. Qed.
End Mapped.

Lemma writer_position : forall cfg ops,
  w_map cfg = true -> no_cr (w_indent cfg) -> Forall no_cr_op ops ->
  let st := run_wops cfg ops in
  mkpos (sm_line (w_mapper st)) (sm_col (w_mapper st)) = pos_after (mkpos 0 0) (w_buf st).
Proof.
  intros cfg ops Hm Hi Hops st. exact (proj1 (good_run cfg Hm Hi ops Hops)).
Qed.

Lemma mapping_at_token_start : forall cfg ops p,
  w_map cfg = true -> no_cr (w_indent cfg) -> Forall no_cr_op ops ->
  w_panic (run_wops cfg ops) = false ->
  let st := run_wops cfg (ops ++ [WMapping p]) in
  w_pend st = [] /\
  exists m, sm_maps (w_mapper st) = sm_maps (w_mapper (run_wops cfg ops)) ++ [m] /\
            gen_pos m = pos_after (mkpos 0 0) (w_buf st) /\
            m_sl m = pline p /\ m_sc m = pcol p /\ m_has m = false.
Proof.
  intros cfg ops p Hm Hi Hops Hpn st. subst st. rewrite run_wops_snoc.
  pose proof (good_run cfg Hm Hi ops Hops) as Hg.
  set (st0 := run_wops cfg ops) in *.
  unfold wstep. rewrite Hpn, Hm.
  pose proof (good_flush_pending cfg Hm Hi st0 Hg) as (H1 & _ & _).
  cbn [w_pend w_buf w_mapper mapper_step sm_maps]. split; [reflexivity|].
  rewrite (maps_flush_pending cfg Hm st0).
  eexists. split; [reflexivity|].
  cbn [m_sl m_sc m_has]. repeat split. exact H1.
Qed.

Lemma mappings_sorted : forall cfg ops,
  w_map cfg = true -> no_cr (w_indent cfg) -> Forall no_cr_op ops ->
  sorted_pos (map gen_pos (sm_maps (w_mapper (run_wops cfg ops)))).
Proof.
  intros cfg ops Hm Hi Hops. pose proof (good_run cfg Hm Hi ops Hops) as (_ & H2 & _).
  eapply sorted_snoc_drop. exact H2.
Qed.

(* ------------------------------------------------------------------ *)
(* C06: indentation options change only leading whitespace             *)
(* ------------------------------------------------------------------ *)

(* --- strings: normal form without leading blanks on every line --- *)

Fixpoint norm (bol : bool) (s : str) : str :=
  match s with
  | [] => []
  | c :: s' => if N.eqb c LF then LF :: norm true s'
               else if bol && is_blank c then norm true s'
               else c :: norm false s'
  end.

(* "the last line is blank", given whether that held before [s] *)
Fixpoint eolb (bol : bool) (s : str) : bool :=
  match s with
  | [] => bol
  | c :: s' => if N.eqb c LF then eolb true s'
               else if bol && is_blank c then eolb true s'
               else eolb false s'
  end.

Lemma norm_app a : forall bol b, norm bol (a ++ b) = norm bol a ++ norm (eolb bol a) b.
Proof.
  induction a as [|c a IH]; intros bol b; cbn [app norm eolb]; [reflexivity|].
  destruct (N.eqb c LF); [rewrite IH; reflexivity|].
  destruct (bol && is_blank c); rewrite IH; reflexivity.
Qed.

Lemma eolb_app a : forall bol b, eolb bol (a ++ b) = eolb (eolb bol a) b.
Proof.
  induction a as [|c a IH]; intros bol b; cbn [app eolb]; [reflexivity|].
  destruct (N.eqb c LF); [apply IH|]. destruct (bol && is_blank c); apply IH.
Qed.

Lemma eolb_norm a : forall bol, eolb bol (norm bol a) = eolb bol a.
Proof.
  induction a as [|c a IH]; intro bol; cbn [norm eolb]; [reflexivity|].
  destruct (N.eqb c LF) eqn:E1; [cbn [eolb]; rewrite N.eqb_refl; apply IH|].
  destruct (bol && is_blank c) eqn:E2.
  - apply andb_true_iff in E2 as [-> _]. apply IH.
  - cbn [eolb]. rewrite E1, E2. apply IH.
Qed.

Definition brel (a b : str) : Prop := norm true a = norm true b.

Lemma brel_eolb a b : brel a b -> eolb true a = eolb true b.
Proof. intro H. rewrite <- (eolb_norm a), <- (eolb_norm b), H. reflexivity. Qed.

Lemma brel_app_same a b s : brel a b -> brel (a ++ s) (b ++ s).
Proof. intro H. unfold brel. rewrite !norm_app, (brel_eolb a b H), H. reflexivity. Qed.

Lemma blank_not_lf c : is_blank c = true -> N.eqb c LF = false.
Proof.
  unfold is_blank. intro H. destruct (N.eqb_spec c LF) as [->|]; [discriminate H|reflexivity].
Qed.

Lemma norm_blank j : blank_str j -> norm true j = [] /\ eolb true j = true.
Proof.
  unfold blank_str. induction j as [|c j IH]; cbn [forallb norm eolb]; intro H; [split; reflexivity|].
  apply andb_true_iff in H as [Hc Hj]. rewrite (blank_not_lf c Hc), Hc. cbn [andb]. apply IH, Hj.
Qed.

Lemma brel_app_indent a b j1 j2 : brel a b -> eolb true a = true -> blank_str j1 -> blank_str j2 ->
  brel (a ++ j1) (b ++ j2).
Proof.
  intros H He H1 H2. unfold brel. rewrite !norm_app, <- (brel_eolb a b H), He.
  rewrite (proj1 (norm_blank j1 H1)), (proj1 (norm_blank j2 H2)), H. reflexivity.
Qed.

Lemma blank_repeat_app n ind : blank_str ind -> blank_str (repeat_app n ind).
Proof.
  unfold blank_str. intro H. induction n as [|n IH]; cbn [repeat_app]; [reflexivity|].
  rewrite forallb_app, H, IH. reflexivity.
Qed.

(* --- trimming --- *)

(* drop_while from the right end, computed from the left *)
Fixpoint dwe (p : N -> bool) (s : str) : str :=
  match s with
  | [] => []
  | c :: s' => match dwe p s' with
               | [] => if p c then [] else [c]
               | r => c :: r
               end
  end.

Lemma dwe_all p s : forallb p s = true -> dwe p s = [].
Proof.
  induction s as [|c s IH]; cbn [forallb dwe]; intro H; [reflexivity|].
  apply andb_true_iff in H as [Hc Hs]. rewrite (IH Hs), Hc. reflexivity.
Qed.

Lemma dwe_not_all p s : forallb p s = false -> dwe p s <> [].
Proof.
  induction s as [|c s IH]; cbn [forallb dwe]; intro H; [discriminate H|].
  destruct (dwe p s) eqn:E; [|discriminate].
  destruct (p c); [|discriminate]. cbn [andb] in H. exfalso. apply (IH H). reflexivity.
Qed.

Lemma dwe_nil_all p s : dwe p s = [] -> forallb p s = true.
Proof.
  intro H. destruct (forallb p s) eqn:E; [reflexivity|]. exfalso. exact (dwe_not_all p s E H).
Qed.

Lemma dw_app p a b : drop_while p (a ++ b) = if forallb p a then drop_while p b else drop_while p a ++ b.
Proof.
  induction a as [|c a IH]; cbn [app drop_while forallb]; [reflexivity|].
  destruct (p c); cbn [andb]; [exact IH|reflexivity].
Qed.

Lemma forallb_rev p (s : str) : forallb p (rev s) = forallb p s.
Proof.
  induction s as [|c s IH]; cbn [rev forallb]; [reflexivity|].
  rewrite forallb_app, IH. cbn [forallb]. rewrite andb_true_r. apply andb_comm.
Qed.

Lemma rev_dw_rev p s : rev (drop_while p (rev s)) = dwe p s.
Proof.
  induction s as [|c s IH]; [reflexivity|].
  cbn [rev dwe]. rewrite dw_app, forallb_rev.
  destruct (forallb p s) eqn:E.
  - rewrite (dwe_all p s E). cbn [drop_while]. destruct (p c); reflexivity.
  - rewrite rev_app_distr. cbn [rev app]. rewrite IH.
    pose proof (dwe_not_all p s E). destruct (dwe p s); [congruence|reflexivity].
Qed.

Lemma trim_space_dwe s : trim_space s = dwe is_space_go (drop_while is_space_go s).
Proof. unfold trim_space. apply rev_dw_rev. Qed.

Lemma trim_right_sp_dwe s : trim_right_sp s = dwe (N.eqb 32) s.
Proof. unfold trim_right_sp. apply rev_dw_rev. Qed.

Lemma blank_is_space c : is_blank c = true -> is_space_go c = true.
Proof.
  unfold is_blank, is_space_go. intro H. apply orb_true_iff in H as [H|H]; rewrite H; cbn;
    [reflexivity|]. rewrite orb_true_r. reflexivity.
Qed.

Lemma lf_is_space c : N.eqb c LF = true -> is_space_go c = true.
Proof. intro H. apply N.eqb_eq in H. subst c. reflexivity. Qed.

Lemma forallb_space_norm s : forall bol, forallb is_space_go (norm bol s) = forallb is_space_go s.
Proof.
  induction s as [|c s IH]; intro bol; cbn [norm forallb]; [reflexivity|].
  destruct (N.eqb c LF) eqn:E1.
  - cbn [forallb]. rewrite IH, (lf_is_space c E1). reflexivity.
  - destruct (bol && is_blank c) eqn:E2.
    + apply andb_true_iff in E2 as [_ Hc]. rewrite (blank_is_space c Hc), IH. reflexivity.
    + cbn [forallb]. rewrite IH. reflexivity.
Qed.

(* dropping trailing whitespace commutes with the normal form *)
Lemma norm_dwe s : forall bol, norm bol (dwe is_space_go s) = dwe is_space_go (norm bol s).
Proof.
  induction s as [|c s IH]; intro bol; [reflexivity|].
  cbn [dwe]. destruct (dwe is_space_go s) as [|x r] eqn:E.
  - (* the rest is all whitespace *)
    pose proof (dwe_nil_all _ _ E) as Hs.
    assert (Hn : forall b, dwe is_space_go (norm b s) = []).
    { intro b. apply dwe_all. rewrite forallb_space_norm. exact Hs. }
    cbn [norm]. destruct (N.eqb c LF) eqn:E1.
    + rewrite (lf_is_space c E1). cbn [norm dwe]. rewrite Hn. reflexivity.
    + destruct (bol && is_blank c) eqn:E2.
      * apply andb_true_iff in E2 as [_ Hc]. rewrite (blank_is_space c Hc), Hn. reflexivity.
      * cbn [dwe]. rewrite Hn. destruct (is_space_go c); [reflexivity|].
        cbn [norm]. rewrite E1, E2. reflexivity.
  - (* the rest keeps something *)
    assert (Hn : forall b, dwe is_space_go (norm b s) <> []).
    { intro b. apply dwe_not_all. rewrite forallb_space_norm.
      destruct (forallb is_space_go s) eqn:F; [|reflexivity].
      rewrite (dwe_all _ _ F) in E. discriminate E. }
    remember (x :: r) as xr eqn:Exr.
    cbn [norm]. destruct (N.eqb c LF) eqn:E1.
    + cbn [dwe]. rewrite <- IH. specialize (Hn true). rewrite <- IH in Hn.
      destruct (norm true xr); [congruence|reflexivity].
    + destruct (bol && is_blank c) eqn:E2; [apply IH|].
      cbn [dwe]. rewrite <- IH. specialize (Hn false). rewrite <- IH in Hn.
      destruct (norm false xr); [congruence|reflexivity].
Qed.

Lemma dw_norm_any s : drop_while is_space_go (norm true s) = drop_while is_space_go (norm false s).
Proof.
  induction s as [|c s IH]; [reflexivity|]. cbn [norm andb].
  destruct (N.eqb c LF); [reflexivity|].
  destruct (is_blank c) eqn:Ec; [|reflexivity].
  cbn [drop_while]. rewrite (blank_is_space c Ec). exact IH.
Qed.

(* dropping leading whitespace commutes with the normal form *)
Lemma norm_dw s : norm true (drop_while is_space_go s) = drop_while is_space_go (norm true s).
Proof.
  induction s as [|c s IH]; [reflexivity|].
  cbn [drop_while]. destruct (is_space_go c) eqn:Es.
  - rewrite IH. cbn [norm andb]. destruct (N.eqb c LF) eqn:E1.
    + reflexivity.
    + destruct (is_blank c); [reflexivity|]. cbn [drop_while]. rewrite Es. apply dw_norm_any.
  - cbn [norm andb]. destruct (N.eqb c LF) eqn:E1; [rewrite (lf_is_space c E1) in Es; discriminate Es|].
    destruct (is_blank c) eqn:Ec; [rewrite (blank_is_space c Ec) in Es; discriminate Es|].
    cbn [drop_while]. rewrite Es. reflexivity.
Qed.

Lemma norm_trim_space s : norm true (trim_space s) = trim_space (norm true s).
Proof. rewrite !trim_space_dwe, norm_dwe, norm_dw. reflexivity. Qed.

(* --- lines --- *)

Lemma strip_all_blank s : forallb is_blank s = true -> strip_leading_blanks s = [].
Proof.
  unfold strip_leading_blanks. induction s as [|c s IH]; cbn [forallb drop_while]; intro H; [reflexivity|].
  apply andb_true_iff in H as [Hc Hs]. rewrite Hc. apply IH, Hs.
Qed.

Lemma strip_app s m : strip_leading_blanks (s ++ m) =
  if forallb is_blank s then strip_leading_blanks m else strip_leading_blanks s ++ m.
Proof. apply dw_app. Qed.

Lemma lmi_norm_gen s : forall cur,
  map strip_leading_blanks (split_lines s cur) =
  split_lines (norm (forallb is_blank cur) s) (strip_leading_blanks cur).
Proof.
  induction s as [|c s IH]; intro cur; cbn [split_lines norm map]; [reflexivity|].
  destruct (N.eqb c LF) eqn:E1.
  - cbn [map split_lines]. rewrite N.eqb_refl. f_equal. apply (IH []).
  - rewrite IH, forallb_app, strip_app. cbn [forallb]. rewrite andb_true_r.
    destruct (forallb is_blank cur) eqn:Ecur; cbn [andb].
    + rewrite (strip_all_blank cur Ecur). unfold strip_leading_blanks at 1. cbn [drop_while].
      destruct (is_blank c) eqn:Ec; [reflexivity|].
      cbn [split_lines]. rewrite E1. reflexivity.
    + cbn [split_lines]. rewrite E1. reflexivity.
Qed.

Lemma lmi_norm s : lines_modulo_indent s = split_lines (norm true s) [].
Proof. unfold lines_modulo_indent. apply (lmi_norm_gen s []). Qed.

Definition no_lf (s : str) : bool := forallb (fun c => negb (N.eqb c LF)) s.

Lemma split_lines_no_lf l : forall r cur, no_lf l = true ->
  split_lines (l ++ r) cur = split_lines r (cur ++ l).
Proof.
  unfold no_lf. induction l as [|c l IH]; intros r cur H; cbn [app forallb] in *.
  - rewrite app_nil_r. reflexivity.
  - apply andb_true_iff in H as [Hc Hl]. cbn [split_lines].
    destruct (N.eqb c LF); [discriminate Hc|]. rewrite (IH _ _ Hl), <- app_assoc. reflexivity.
Qed.

Lemma split_join ls : forall l cur, no_lf l = true -> Forall (fun x => no_lf x = true) ls ->
  split_lines (join_lines (l :: ls)) cur = (cur ++ l) :: ls.
Proof.
  induction ls as [|l2 ls IH]; intros l cur Hl Hls.
  - cbn [join_lines]. rewrite <- (app_nil_r l) at 1. rewrite (split_lines_no_lf l [] cur Hl). reflexivity.
  - inversion Hls as [|? ? H2 Hls']; subst.
    change (join_lines (l :: l2 :: ls)) with (l ++ [LF] ++ join_lines (l2 :: ls)).
    rewrite (split_lines_no_lf l _ cur Hl). cbn [app split_lines]. rewrite N.eqb_refl.
    rewrite (IH l2 [] H2 Hls'). reflexivity.
Qed.

Lemma split_lines_lines_no_lf s : forall cur, no_lf cur = true ->
  Forall (fun x => no_lf x = true) (split_lines s cur).
Proof.
  induction s as [|c s IH]; intros cur H; cbn [split_lines].
  - constructor; [exact H|constructor].
  - destruct (N.eqb c LF) eqn:E.
    + constructor; [exact H|]. apply IH. reflexivity.
    + apply IH. unfold no_lf in *. rewrite forallb_app, H. cbn [forallb]. rewrite E. reflexivity.
Qed.

Lemma split_lines_nonnil s : forall cur, split_lines s cur <> [].
Proof.
  induction s as [|c s IH]; intro cur; cbn [split_lines]; [discriminate|].
  destruct (N.eqb c LF); [discriminate|apply IH].
Qed.

Lemma dwe_no_lf p l : no_lf l = true -> no_lf (dwe p l) = true.
Proof.
  unfold no_lf. induction l as [|c l IH]; cbn [forallb dwe]; intro H; [reflexivity|].
  apply andb_true_iff in H as [Hc Hl]. specialize (IH Hl).
  destruct (dwe p l) as [|x r].
  - destruct (p c); cbn [forallb]; [reflexivity|]. rewrite Hc. reflexivity.
  - cbn [forallb] in *. rewrite Hc. exact IH.
Qed.

Lemma strip_dwe p l : (forall c, p c = true -> is_blank c = true) ->
  strip_leading_blanks (dwe p l) = dwe p (strip_leading_blanks l).
Proof.
  intro Hp. unfold strip_leading_blanks. induction l as [|c l IH]; [reflexivity|].
  cbn [dwe drop_while]. destruct (is_blank c) eqn:Ec.
  - rewrite <- IH. destruct (dwe p l) as [|x r].
    + destruct (p c); cbn [drop_while]; [reflexivity|]. rewrite Ec. reflexivity.
    + cbn [drop_while]. rewrite Ec. reflexivity.
  - assert (Hpc : p c = false).
    { destruct (p c) eqn:E; [|reflexivity]. rewrite (Hp c E) in Ec. discriminate Ec. }
    cbn [dwe]. destruct (dwe p l) as [|x r]; cbn [drop_while]; rewrite ?Hpc; cbn [drop_while];
      rewrite Ec; reflexivity.
Qed.

Lemma sp_is_blank c : N.eqb 32 c = true -> is_blank c = true.
Proof. intro H. apply N.eqb_eq in H. subst c. reflexivity. Qed.

(* the lines modulo indentation of the cleaned text, from the normal form of the raw text *)
Lemma lmi_clean s :
  lines_modulo_indent (clean_empty_lines s) =
  map (dwe (N.eqb 32)) (split_lines (trim_space (norm true s)) []).
Proof.
  unfold clean_empty_lines.
  pose proof (split_lines_lines_no_lf (trim_space s) [] eq_refl) as Hl.
  destruct (split_lines (trim_space s) []) as [|l ls] eqn:E.
  { exfalso. exact (split_lines_nonnil _ _ E). }
  unfold lines_modulo_indent.
  assert (Hm : Forall (fun x => no_lf x = true) (map trim_right_sp (l :: ls))).
  { clear E. induction Hl as [|x xs Hx Hxs IH]; cbn [map]; constructor.
    - rewrite trim_right_sp_dwe. apply dwe_no_lf, Hx.
    - exact IH. }
  cbn [map] in Hm |- *. inversion Hm as [|? ? H1 H2]; subst.
  rewrite (split_join _ _ [] H1 H2). cbn [app].
  change (trim_right_sp l :: map trim_right_sp ls) with (map trim_right_sp (l :: ls)).
  rewrite <- E, map_map.
  rewrite (map_ext _ (fun x => dwe (N.eqb 32) (strip_leading_blanks x))).
  2:{ intro x. rewrite trim_right_sp_dwe. apply strip_dwe. exact sp_is_blank. }
  rewrite <- (map_map strip_leading_blanks (dwe (N.eqb 32))).
  fold (lines_modulo_indent (trim_space s)). rewrite lmi_norm, norm_trim_space. reflexivity.
Qed.

Lemma brel_clean a b : brel a b ->
  lines_modulo_indent (clean_empty_lines a) = lines_modulo_indent (clean_empty_lines b).
Proof. intro H. rewrite !lmi_clean, H. reflexivity. Qed.

(* --- the token-fusion test reads the buffer through its last two bytes --- *)

Definition fuse (op buf : str) : bool :=
  match op, rev buf with
  | c :: _, last :: _ =>
      ((N.eqb c 43 || N.eqb c 45) && N.eqb last c)
      || (str_eqb op [45; 45]%N && has_suffix buf [60; 33]%N)
  | _, _ => false
  end.

Lemma avoid_fusion_fuse cfg st1 op :
  match op, rev (w_buf st1) with
  | c :: _, last :: _ =>
      if ((N.eqb c 43 || N.eqb c 45) && N.eqb last c)
         || (str_eqb op [45; 45]%N && has_suffix (w_buf st1) [60; 33]%N)
      then write_rune cfg st1 32 else st1
  | _, _ => st1
  end = if fuse op (w_buf st1) then write_rune cfg st1 32 else st1.
Proof.
  unfold fuse. destruct op as [|c op]; [reflexivity|].
  destruct (rev (w_buf st1)); reflexivity.
Qed.

(* the last two bytes, 0 standing for "none" *)
Fixpoint t2 (a b : N) (s : str) : N * N :=
  match s with [] => (a, b) | c :: s' => t2 b c s' end.

Lemma t2_snoc s : forall a b c, t2 a b (s ++ [c]) = (snd (t2 a b s), c).
Proof. induction s as [|x s IH]; intros a b c; cbn [app t2]; [reflexivity|apply IH]. Qed.

Definition fz (op : str) (p : N * N) : bool :=
  match op with
  | [] => false
  | c :: _ => ((N.eqb c 43 || N.eqb c 45) && N.eqb (snd p) c)
              || (str_eqb op [45; 45]%N && (N.eqb 33 (snd p) && N.eqb 60 (fst p)))
  end.

Lemma fuse_fz op buf : fuse op buf = fz op (t2 0 0 buf).
Proof.
  rewrite <- (rev_involutive buf). generalize (rev buf). clear buf. intro rb.
  unfold fuse, fz, has_suffix. destruct op as [|c op]; [reflexivity|].
  rewrite rev_involutive.
  destruct rb as [|y [|x r]].
  - cbn [rev t2 snd fst has_suffix_rev]. change (N.eqb 33 0) with false.
    rewrite andb_false_r, orb_false_r.
    destruct (N.eqb_spec c 43) as [->|]; [reflexivity|].
    destruct (N.eqb_spec c 45) as [->|]; reflexivity.
  - cbn [rev app t2 snd fst has_suffix_rev]. change (N.eqb 60 0) with false.
    rewrite !andb_false_r. reflexivity.
  - cbn [rev app]. rewrite !t2_snoc. cbn [snd fst has_suffix_rev]. destruct r; cbn [has_suffix_rev]; rewrite andb_true_r; reflexivity.
Qed.

Definition boring (c : N) : bool := is_blank c || N.eqb c LF || N.eqb c 0.

Definition approx (p q : N * N) : Prop :=
  (snd p = snd q /\ (fst p = fst q \/ (boring (fst p) = true /\ boring (fst q) = true)))
  \/ (boring (snd p) = true /\ boring (snd q) = true).

Lemma t2_norm s : forall bol a b a' b',
  approx (a, b) (a', b') -> (bol = true -> boring b' = true) ->
  approx (t2 a b s) (t2 a' b' (norm bol s)).
Proof.
  induction s as [|c s IH]; intros bol a b a' b' H Hb; cbn [t2 norm]; [exact H|].
  destruct (N.eqb c LF) eqn:E1.
  - cbn [t2]. apply IH; [|reflexivity]. right. cbn [snd]. apply N.eqb_eq in E1. subst c. split; reflexivity.
  - destruct (bol && is_blank c) eqn:E2.
    + apply andb_true_iff in E2 as [-> Hc]. apply IH; [|exact Hb].
      right. cbn [snd]. split; [unfold boring; rewrite Hc; reflexivity|apply Hb; reflexivity].
    + cbn [t2]. apply IH; [|discriminate]. left. cbn [snd fst]. split; [reflexivity|].
      destruct H as [[H1 _]|H]; cbn [snd] in *; [left; exact H1|right; exact H].
Qed.

Lemma boring_cases c : boring c = true -> c = 32%N \/ c = 9%N \/ c = LF \/ c = 0%N.
Proof.
  unfold boring, is_blank. intro H.
  destruct (N.eqb_spec c 32); [tauto|]. destruct (N.eqb_spec c 9); [tauto|].
  destruct (N.eqb_spec c LF); [tauto|]. destruct (N.eqb_spec c 0); [tauto|]. discriminate H.
Qed.

Lemma fz_approx op p q : approx p q -> fz op p = fz op q.
Proof.
  destruct p as [x y], q as [x' y']. unfold approx, fz. cbn [fst snd].
  destruct op as [|c op]; [reflexivity|].
  intros [[Ey [Ex|[Hx Hx']]]|[Hy Hy']].
  - subst. reflexivity.
  - apply boring_cases in Hx, Hx'.
    assert (E : N.eqb 60 x = false) by (destruct Hx as [-> | [-> | [-> | ->]]]; reflexivity).
    assert (E' : N.eqb 60 x' = false) by (destruct Hx' as [-> | [-> | [-> | ->]]]; reflexivity).
    subst. rewrite E, E'. reflexivity.
  - apply boring_cases in Hy, Hy'.
    assert (E : forall y, (y = 32%N \/ y = 9%N \/ y = LF \/ y = 0%N) ->
                (N.eqb c 43 || N.eqb c 45) && N.eqb y c = false /\ N.eqb 33 y = false).
    { clear. intros y Hy. split; [|destruct Hy as [-> | [-> | [-> | ->]]]; reflexivity].
      destruct (N.eqb_spec c 43) as [->|]; [destruct Hy as [-> | [-> | [-> | ->]]]; reflexivity|].
      destruct (N.eqb_spec c 45) as [->|]; [destruct Hy as [-> | [-> | [-> | ->]]]; reflexivity|].
      reflexivity. }
    destruct (E y Hy) as [E1 E2], (E y' Hy') as [E1' E2']. rewrite E1, E2, E1', E2'. reflexivity.
Qed.

Lemma fuse_norm op buf : fuse op buf = fuse op (norm true buf).
Proof.
  rewrite !fuse_fz. apply fz_approx. apply t2_norm; [|reflexivity].
  left. split; reflexivity || (left; reflexivity).
Qed.

Lemma brel_fuse op a b : brel a b -> fuse op a = fuse op b.
Proof. intro H. rewrite (fuse_norm op a), (fuse_norm op b), H. reflexivity. Qed.

(* --- pending whitespace: indentation is only ever pending on a blank line --- *)

(* [tab_ok fl q]: every element of [q] is LF, TAB or SPACE, and every TAB comes after
   an LF of [q] -- or [fl] holds (the line is blank already) *)
Fixpoint tab_ok (fl : bool) (q : list N) : bool :=
  match q with
  | [] => true
  | c :: q' => if N.eqb c LF then tab_ok true q'
               else if N.eqb c TAB then fl && tab_ok fl q'
               else if N.eqb c 32 then tab_ok fl q'
               else false
  end.

Lemma tab_ok_snoc_sp q : forall fl, tab_ok fl (q ++ [32%N]) = tab_ok fl q.
Proof.
  induction q as [|c q IH]; intro fl; cbn [app tab_ok]; [reflexivity|].
  destruct (N.eqb c LF); [apply IH|]. destruct (N.eqb c TAB); [rewrite IH; reflexivity|].
  destruct (N.eqb c 32); [apply IH|reflexivity].
Qed.

Lemma tab_ok_snoc_tab q : tab_ok true q = true -> tab_ok true (q ++ [TAB]) = true.
Proof.
  induction q as [|c q IH]; cbn [app tab_ok]; intro H; [reflexivity|].
  destruct (N.eqb c LF); [apply IH, H|]. destruct (N.eqb c TAB); [cbn [andb] in *; apply IH, H|].
  destruct (N.eqb c 32); [apply IH, H|discriminate H].
Qed.

(* --- the abstract flag "the pending list starts with LF" along an operation list --- *)

Definition ok_step (nl : bool) (o : wop) : option bool :=
  match o with
  | WIndent => if nl then Some true else None
  | WNewline => Some true
  | WComments [] => Some nl
  | WComments (_ :: _) => Some true
  | WSpace | WIncIndent | WDecIndent | WPanic => Some nl
  | _ => Some false
  end.

Fixpoint ok (nl : bool) (ops : list wop) : bool :=
  match ops with
  | [] => true
  | o :: r => match ok_step nl o with Some nl' => ok nl' r | None => false end
  end.

Lemma ok_mono ops : forall n1 n2, (n1 = true -> n2 = true) -> ok n1 ops = true -> ok n2 ops = true.
Proof.
  induction ops as [|o ops IH]; intros n1 n2 Hn H; [reflexivity|].
  cbn [ok] in *. destruct o; cbn [ok_step] in *; try exact H; try (eapply IH; [exact Hn|exact H]).
  - destruct n1; [|discriminate H]. rewrite (Hn eq_refl). exact H.
  - destruct cs; [eapply IH; [exact Hn|exact H]|exact H].
Qed.

Lemma ok_weaken nl ops : ok false ops = true -> ok nl ops = true.
Proof. apply ok_mono. discriminate. Qed.

Lemma ok_app a : forall nl b, ok nl a = true -> ok false b = true -> ok nl (a ++ b) = true.
Proof.
  induction a as [|o a IH]; intros nl b Ha Hb; cbn [app]; [apply ok_weaken, Hb|].
  cbn [ok] in *. destruct (ok_step nl o); [apply IH; assumption|discriminate Ha].
Qed.

Definition is_indent_op (o : wop) : bool := match o with WIndent => true | _ => false end.

Lemma ok_cons nl o r : is_indent_op o = false -> ok false r = true -> ok nl (o :: r) = true.
Proof.
  intros Ho Hr. cbn [ok]. destruct o; try discriminate Ho; cbn [ok_step]; try apply ok_weaken, Hr.
  destruct cs; apply ok_weaken, Hr.
Qed.

Lemma ok_sep_map {A} sep (f : A -> list wop) l :
  ok false sep = true -> (forall x, In x l -> ok false (f x) = true) ->
  ok false (sep_map sep f l) = true.
Proof.
  intros Hsep. induction l as [|x l IH]; intro Hf; cbn [sep_map]; [reflexivity|].
  apply ok_app; [apply Hf; left; reflexivity|].
  destruct l as [|y l]; [reflexivity|].
  apply ok_app; [exact Hsep|]. apply IH. intros z Hz. apply Hf. right. exact Hz.
Qed.

(* the body of a block: every statement starts on a new line *)
Lemma ok_block_body {A} (g : A -> list wop) l tail :
  (forall x, In x l -> ok false (g x) = true) -> ok false tail = true ->
  ok true (sep_map [WNewline] (fun s => WIndent :: g s ++ []) l ++ tail) = true.
Proof.
  intros Hg Ht. induction l as [|x l IH]; cbn [sep_map app]; [apply ok_weaken, Ht|].
  cbn [ok ok_step]. rewrite <- app_assoc. apply ok_app.
  - rewrite app_nil_r. apply ok_weaken, Hg. left. reflexivity.
  - destruct l as [|y l]; [exact Ht|].
    cbn [app ok ok_step]. apply IH. intros z Hz. apply Hg. right. exact Hz.
Qed.

Lemma esize_in_list a l : In a l -> (esize a <= fold_right (fun a n => esize a + n) 0 l)%nat.
Proof.
  induction l as [|x l IH]; [intros []|]. intros [H|H]; cbn [fold_right]; [subst; lia|]. specialize (IH H). lia.
Qed.

Lemma ssize_in_list a l : In a l -> (ssize a <= fold_right (fun a n => ssize a + n) 0 l)%nat.
Proof.
  induction l as [|x l IH]; [intros []|]. intros [H|H]; cbn [fold_right]; [subst; lia|]. specialize (IH H). lia.
Qed.

Lemma esize_in_props (kv : expr * expr) l : In kv l ->
  (esize (fst kv) + esize (snd kv) <= fold_right (fun kv n => esize (fst kv) + esize (snd kv) + n) 0 l)%nat.
Proof.
  induction l as [|x l IH]; [intros []|]. intros [H|H]; cbn [fold_right]; [subst; lia|]. specialize (IH H). lia.
Qed.

Lemma ok_write_ident nl i : ok nl (write_ident i) = true.
Proof. unfold write_ident. repeat (apply ok_cons; [reflexivity|]). reflexivity. Qed.

Ltac ok_tac IHe IHs :=
  repeat match goal with
  | |- ok _ [] = true => reflexivity
  | |- ok _ (write_ident _) = true => apply ok_write_ident
  | |- ok _ (write_expr _) = true => apply ok_weaken, IHe; lia
  | |- ok _ (write_stmt _) = true => apply ok_weaken, IHs; lia
  | |- ok _ (WNewline :: WIncIndent :: _) = true => cbn [ok ok_step]; apply ok_block_body
  | |- ok _ (WDecIndent :: WNewline :: WComments ?cs :: _) = true => destruct cs; reflexivity
  | |- ok _ (_ :: _) = true => apply ok_cons; [reflexivity|]
  | |- ok _ (_ ++ _) = true => apply ok_app
  | |- ok _ (if ?b then _ else _) = true => destruct b
  | |- ok _ (match ?x with Some _ => _ | None => _ end) = true => destruct x
  end.

Lemma ok_printer n :
  (forall e, (esize e < n)%nat -> ok false (write_expr e) = true) /\
  (forall s, (ssize s < n)%nat -> ok false (write_stmt s) = true).
Proof.
  induction n as [|n [IHe IHs]]; [split; intros; lia|].
  assert (Hids : forall ps : list ident,
            ok false (sep_map [WRune 44%N; WSpace] (fun param => write_ident param ++ []) ps) = true).
  { intro ps. apply ok_sep_map; [reflexivity|]. intros x _. apply ok_app; [apply ok_write_ident|reflexivity]. }
  split.
  - intros e H. destruct e; cbn [write_expr]; cbn [esize] in H; ok_tac IHe IHs;
      try apply Hids.
    + (* ECall *) apply ok_sep_map; [reflexivity|]. intros x Hx. apply esize_in_list in Hx.
      ok_tac IHe IHs.
    + (* EArray *) apply ok_sep_map; [reflexivity|]. intros x Hx. apply esize_in_list in Hx.
      ok_tac IHe IHs.
    + (* EObject *) apply ok_sep_map; [reflexivity|]. intros x Hx. apply esize_in_props in Hx.
      ok_tac IHe IHs.
  - intros s H. destruct s; cbn [write_stmt]; cbn [ssize] in H; ok_tac IHe IHs;
      try apply Hids.
    (* SBlock: statements *) intros x Hx. apply ssize_in_list in Hx. ok_tac IHe IHs.
Qed.

Lemma ok_write_program p : ok false (write_program p) = true.
Proof.
  unfold write_program. apply ok_app.
  - apply ok_sep_map; [reflexivity|]. intros s _. apply ok_app; [|reflexivity].
    apply (proj2 (ok_printer (S (ssize s)))). lia.
  - apply ok_cons; reflexivity.
Qed.

(* --- two pretty configurations that differ in their (blank) indent strings --- *)

Definition seq (a b : wstate) : Prop :=
  brel (w_buf a) (w_buf b) /\ w_pend a = w_pend b /\ w_level a = w_level b /\ w_panic a = w_panic b.

Definition pinv (nl : bool) (st : wstate) : Prop :=
  w_panic st = false ->
  tab_ok false (w_pend st) = true /\ (nl = true -> exists q, w_pend st = LF :: q).

Lemma blank_indent_string i : blank_str i ->
  blank_str match i with [] => default_indent | n :: l => n :: l end.
Proof. intro H. destruct i; [reflexivity|exact H]. Qed.

Section Indent.
  Variables (i1 i2 : str) (semis m : bool).
  Hypothesis Hb1 : blank_str i1.
  Hypothesis Hb2 : blank_str i2.
  Local Notation c1 := (mkwcfg true i1 semis m).
  Local Notation c2 := (mkwcfg true i2 semis m).

  Lemma seq_write_raw a b s : seq a b -> seq (write_raw c1 a s) (write_raw c2 b s).
  Proof.
    intros (Hb & Hp & Hl & Hn). unfold seq, write_raw. cbn [w_buf w_pend w_level w_panic].
    repeat split; try assumption. apply brel_app_same, Hb.
  Qed.

  Lemma seq_write_indent a b : seq a b -> eolb true (w_buf a) = true ->
    seq (write_indent c1 a) (write_indent c2 b).
  Proof.
    intros (Hb & Hp & Hl & Hn) He. unfold seq, write_indent, write_raw.
    cbn [w_buf w_pend w_level w_panic w_indent]. repeat split; try assumption.
    apply brel_app_indent; [exact Hb|exact He| |]; apply blank_repeat_app, blank_indent_string; assumption.
  Qed.

  Lemma eolb_write_indent a : eolb true (w_buf a) = true -> eolb true (w_buf (write_indent c1 a)) = true.
  Proof.
    intro He. unfold write_indent, write_raw. cbn [w_buf w_indent]. rewrite eolb_app, He.
    apply norm_blank, blank_repeat_app, blank_indent_string, Hb1.
  Qed.

  Lemma seq_flush_fold : forall q a b fl, seq a b -> tab_ok fl q = true ->
    (fl = true -> eolb true (w_buf a) = true) ->
    seq (fold_left (flush_fun c1) q a) (fold_left (flush_fun c2) q b).
  Proof.
    induction q as [|c q IH]; intros a b fl Hs Ht Hf; cbn [fold_left]; [exact Hs|].
    cbn [tab_ok] in Ht. unfold flush_fun at 2 4.
    destruct (N.eqb_spec c LF) as [->|Hlf].
    - change (N.eqb LF TAB) with false. cbv iota.
      apply (IH _ _ true); [apply seq_write_raw, Hs|exact Ht|].
      intros _. unfold write_raw. cbn [w_buf]. rewrite eolb_app. reflexivity.
    - destruct (N.eqb c TAB) eqn:Et.
      + apply andb_true_iff in Ht as [-> Ht].
        apply (IH _ _ true); [apply seq_write_indent; [exact Hs|apply Hf; reflexivity]|exact Ht|].
        intros _. apply eolb_write_indent, Hf. reflexivity.
      + destruct (N.eqb_spec c 32) as [->|]; [|discriminate Ht].
        apply (IH _ _ fl); [apply seq_write_raw, Hs|exact Ht|].
        intros Hfl. unfold write_raw. cbn [w_buf]. rewrite eolb_app, (Hf Hfl). reflexivity.
  Qed.

  Lemma seq_flush_pending a b : seq a b -> tab_ok false (w_pend a) = true ->
    seq (flush_pending c1 a) (flush_pending c2 b).
  Proof.
    intros Hs Ht. pose proof Hs as (_ & Hp & _ & _).
    assert (H : seq (fold_left (flush_fun c1) (w_pend a) a) (fold_left (flush_fun c2) (w_pend a) b)).
    { apply (seq_flush_fold _ _ _ false); [exact Hs|exact Ht|discriminate]. }
    unfold flush_pending. rewrite <- Hp. destruct H as (H1 & _ & H3 & H4).
    unfold seq. cbn [w_buf w_pend w_level w_panic]. repeat split; assumption.
  Qed.

  Lemma seq_write_rune a b c : seq a b -> tab_ok false (w_pend a) = true ->
    seq (write_rune c1 a c) (write_rune c2 b c).
  Proof.
    intros Hs Ht. destruct (seq_flush_pending a b Hs Ht) as (H1 & _ & H3 & H4).
    unfold seq, write_rune. cbn [w_buf w_pend w_level w_panic]. repeat split; try assumption.
    apply brel_app_same, H1.
  Qed.

  Lemma seq_write_string a b s : seq a b -> tab_ok false (w_pend a) = true ->
    seq (write_string c1 a s) (write_string c2 b s).
  Proof. intros Hs Ht. unfold write_string. apply seq_write_raw, seq_flush_pending; assumption. Qed.

  Lemma seq_comment_items : forall cs a b first, seq a b ->
    seq (write_comment_items c1 a first cs) (write_comment_items c2 b first cs).
  Proof.
    induction cs as [|c cs IH]; intros a b first H; cbn [write_comment_items]; [exact H|].
    apply IH. apply seq_write_raw.
    assert (H1 : seq (if first then match c with [] => a | _ :: _ => write_raw c1 a [32%N] end
                      else write_indent c1 (write_raw c1 a [LF]))
                     (if first then match c with [] => b | _ :: _ => write_raw c2 b [32%N] end
                      else write_indent c2 (write_raw c2 b [LF]))).
    { destruct first.
      - destruct c; [exact H|apply seq_write_raw; exact H].
      - apply seq_write_indent; [apply seq_write_raw; exact H|].
        unfold write_raw. cbn [w_buf]. rewrite eolb_app. reflexivity. }
    destruct c as [|x c].
    - destruct first; exact H1.
    - apply seq_write_raw. destruct first; exact H1.
  Qed.

  Lemma seq_set_pend a b p : seq a b -> seq (set_pend a p) (set_pend b p).
  Proof. intros (Hb & Hp & Hl & Hn). unfold seq, set_pend. cbn. repeat split; assumption. Qed.

  Lemma pinv_flushed st : w_pend st = [] -> pinv false st.
  Proof. intros H _. rewrite H. split; [reflexivity|discriminate]. Qed.

  Lemma sim_step nl nl' o a b : seq a b -> pinv nl a -> ok_step nl o = Some nl' ->
    seq (wstep c1 a o) (wstep c2 b o) /\ pinv nl' (wstep c1 a o).
  Proof.
    intros Hs Hp Ho. pose proof Hs as (Hbuf & Hpend & Hlvl & Hpan).
    unfold wstep. rewrite <- Hpan. destruct (w_panic a) eqn:Epa.
    { split; [exact Hs|]. intro H. congruence. }
    destruct (Hp Epa) as [Ht Hnl].
    assert (Hkeep : forall n, (n = true -> nl = true) -> pinv n a).
    { intros n Hn _. split; [exact Ht|]. intro E. apply Hnl, Hn, E. }
    pose proof (seq_flush_pending a b Hs Ht) as Hfl.
    destruct o; cbn [ok_step] in Ho; cbn [w_pretty w_semis w_map negb]; rewrite <- ?Hpend, <- ?Hlvl.
    - (* WString *) injection Ho as <-. split; [apply seq_write_string; assumption|].
      apply pinv_flushed. reflexivity.
    - (* WRune *) injection Ho as <-. split; [apply seq_write_rune; assumption|].
      apply pinv_flushed. reflexivity.
    - (* WSemi *) injection Ho as <-. destruct semis.
      + split; [apply seq_write_rune; assumption|]. apply pinv_flushed. reflexivity.
      + split; [exact Hs|]. apply Hkeep. discriminate.
    - (* WSpace *) injection Ho as <-. destruct (last_is (w_pend a) 32).
      + split; [exact Hs|]. apply Hkeep. tauto.
      + split; [apply seq_set_pend, Hs|]. intros _. unfold set_pend. cbn [w_pend].
        rewrite tab_ok_snoc_sp. split; [exact Ht|]. intro E. destruct (Hnl E) as [q Hq].
        exists (q ++ [32%N]). rewrite Hq. reflexivity.
    - (* WNewline *) injection Ho as <-. split; [apply seq_set_pend, Hs|].
      intros _. split; [reflexivity|]. intros _. exists []. reflexivity.
    - (* WIndent *) destruct nl; [|discriminate Ho]. injection Ho as <-.
      destruct (Hnl eq_refl) as [q Hq]. destruct (last_is (w_pend a) TAB).
      + split; [exact Hs|]. apply Hkeep. tauto.
      + split; [apply seq_set_pend, Hs|]. intros _. unfold set_pend. cbn [w_pend].
        rewrite Hq in Ht |- *. split; [|intros _; exists (q ++ [TAB]); reflexivity].
        change (tab_ok true (q ++ [TAB]) = true). apply tab_ok_snoc_tab. exact Ht.
    - (* WIncIndent *) injection Ho as <-. split; [|unfold pinv; cbn [w_pend w_panic]; intros _; split; [exact Ht|exact Hnl]].
      unfold seq. cbn [w_buf w_pend w_level w_panic]. repeat split; assumption.
    - (* WDecIndent *) injection Ho as <-. destruct (0 <? w_level a).
      + split; [|unfold pinv; cbn [w_pend w_panic]; intros _; split; [exact Ht|exact Hnl]].
        unfold seq. cbn [w_buf w_pend w_level w_panic]. repeat split; assumption.
      + split; [exact Hs|]. apply Hkeep. tauto.
    - (* WComments *) destruct cs as [|c cs]; injection Ho as <-.
      + split; [exact Hs|]. apply Hkeep. tauto.
      + split; [apply seq_set_pend, seq_comment_items, Hs|].
        intros _. split; [reflexivity|]. intros _. exists [TAB]. reflexivity.
    - (* WMapping *) injection Ho as <-.
      split; [|destruct m; apply pinv_flushed; reflexivity]. destruct m; exact Hfl.
    - (* WNamedMapping *) injection Ho as <-.
      split; [|destruct m; apply pinv_flushed; reflexivity]. destruct m; exact Hfl.
    - (* WAvoidFusion *) injection Ho as <-. rewrite !avoid_fusion_fuse.
      rewrite <- (brel_fuse op _ _ (proj1 Hfl)).
      destruct (fuse op (w_buf (flush_pending c1 a))).
      + split; [apply seq_write_rune; [exact Hfl|reflexivity]|]. apply pinv_flushed. reflexivity.
      + split; [exact Hfl|]. apply pinv_flushed. reflexivity.
    - (* WPanic *) injection Ho as <-. split.
      + unfold seq. cbn [w_buf w_pend w_level w_panic]. repeat split; assumption.
      + intro H. discriminate H.
  Qed.

  Lemma sim_fold : forall ops nl a b, seq a b -> pinv nl a -> ok nl ops = true ->
    seq (fold_left (wstep c1) ops a) (fold_left (wstep c2) ops b).
  Proof.
    induction ops as [|o ops IH]; intros nl a b Hs Hp Hok; cbn [fold_left]; [exact Hs|].
    cbn [ok] in Hok. destruct (ok_step nl o) as [nl'|] eqn:E; [|discriminate Hok].
    destruct (sim_step nl nl' o a b Hs Hp E) as [Hs' Hp'].
    exact (IH nl' _ _ Hs' Hp' Hok).
  Qed.
End Indent.

Lemma indent_only : forall i1 i2 semis m p,
  blank_str i1 -> blank_str i2 ->
  lines_modulo_indent (r_code (compile (cfg_pretty i1 semis m) p))
  = lines_modulo_indent (r_code (compile (cfg_pretty i2 semis m) p)).
Proof.
  intros i1 i2 semis m p H1 H2. unfold compile, finish, cfg_pretty, run_wops. cbn [r_code w_pretty].
  apply brel_clean.
  apply (sim_fold i1 i2 semis m H1 H2 (write_program p) false wstate_init wstate_init).
  - repeat split.
  - intros _. split; [reflexivity|discriminate].
  - apply ok_write_program.
Qed.
