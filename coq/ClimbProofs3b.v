(* ClimbProofs3b.v -- uniqueness of the grouping of ClimbSpec3.v: two well_grouped_y trees
   with the same tokens are equal.  Both are what the (deterministic) expression parser of
   a normalised configuration returns on those tokens followed by a semicolon
   (ClimbProofs3.climb_all), so their expressions are equal; an expression does not record
   the closing `)` `]` and the commas of calls / index accesses, but those are recovered
   from the token lists once the subtrees are known to be equal ([yexpr_yield_inj]). *)
From Coq Require Import ZifyBool ZifyN ZifyNat Lia.
Require Import Base GoOps Token Tree Parser Registry ParserSpec ClimbSpec ClimbSpec2 ClimbSpec3.
Require Import InterceptProofs RenameProofs GrammarProofs ClimbProofs ClimbProofs2 ClimbProofs3.
Require Import Gen.Tables.

(* ---------- the expression and the tokens determine the tree ---------- *)

Definition Inj (cfg : pcfg) (c1 : ytree) : Prop := forall c2 s1 s2,
  well_grouped_y cfg c1 = true -> well_grouped_y cfg c2 = true ->
  yexpr c1 = yexpr c2 -> yyield c1 ++ s1 = yyield c2 ++ s2 -> c1 = c2 /\ s1 = s2.

Lemma app_cons_assoc {A} (l : list A) x m s : (l ++ x :: m) ++ s = l ++ x :: (m ++ s).
Proof. rewrite <- app_assoc. reflexivity. Qed.

(* the (comma, argument) pairs of two calls *)
Lemma args_inj cfg (r1 : list (token * ytree)) : forall r2 X Y,
  (forall p, In p r1 -> Inj cfg (snd p)) ->
  forallb (fun p => (t_type (fst p) =? T_COMMA) && well_grouped_y cfg (snd p)) r1 = true ->
  forallb (fun p => (t_type (fst p) =? T_COMMA) && well_grouped_y cfg (snd p)) r2 = true ->
  map (fun p => yexpr (snd p)) r1 = map (fun p => yexpr (snd p)) r2 ->
  flat_map argtoks r1 ++ X = flat_map argtoks r2 ++ Y -> r1 = r2 /\ X = Y.
Proof.
  induction r1 as [|[cm1 a1] r1 IH]; intros [|[cm2 a2] r2] X Y HI W1 W2 HM HY;
    cbn [map] in HM; try discriminate.
  - cbn [flat_map app] in HY. auto.
  - cbn [forallb fst snd] in W1, W2. bsplit.
    injection HM as HM1 HM2.
    cbn [flat_map] in HY. unfold argtoks at 1 3 in HY. cbn [fst snd app] in HY.
    injection HY as -> HY. rewrite <- !app_assoc in HY.
    pose proof (HI _ (or_introl eq_refl)) as HI1. cbn [snd] in HI1.
    destruct (HI1 a2 _ _ ltac:(assumption) ltac:(assumption) HM1 HY) as [-> HY'].
    destruct (IH r2 X Y) as [-> ->]; try assumption.
    + intros p Hp. apply HI. right. exact Hp.
    + auto.
Qed.

Lemma yexpr_yield_inj cfg : forall c1, Inj cfg c1.
Proof.
  apply ytree_size_ind. intros c1 IH.
  destruct c1 as [t1|lp1 e1 rp1|op1 e1|e1 op1|l1 op1 r1|o1 d1 p1|o1 lb1 e1 rb1|f1 lp1 fst1 rest1 rp1|l1 op1 r1];
    intros [t2|lp2 e2 rp2|op2 e2|e2 op2|l2 op2 r2|o2 d2 p2|o2 lb2 e2 rb2|f2 lp2 fst2 rest2 rp2|l2 op2 r2]
           s1 s2 W1 W2 He Hy;
    cbn [yexpr] in He;
    repeat match type of He with context [if ?b then _ else _] => destruct b end;
    try discriminate He;
    cbn [ysize] in IH; cbn [yyield] in Hy; cbn [well_grouped_y] in W1, W2.
  - (* atoms: identifiers *)
    injection He as He. split; [congruence|]. cbn [app] in Hy. congruence.
  - injection He as He. subst. cbn [app] in Hy. split; congruence.
  - (* group *)
    bsplit. injection He as -> He ->. cbn [app] in Hy. injection Hy as Hy.
    rewrite <- !app_assoc in Hy.
    destruct (IH e1 ltac:(lia) e2 _ _ ltac:(assumption) ltac:(assumption) He Hy) as [-> Hs].
    cbn [app] in Hs. split; congruence.
  - (* prefix *)
    bsplit. injection He as -> _ He. cbn [app] in Hy. injection Hy as Hy.
    destruct (IH e1 ltac:(lia) e2 _ _ ltac:(assumption) ltac:(assumption) He Hy) as [-> Hs].
    split; congruence.
  - (* postfix *)
    destruct (post_level cfg op1); [|discriminate]. destruct (post_level cfg op2); [|discriminate].
    bsplit. injection He as -> He _. rewrite <- !app_assoc in Hy.
    destruct (IH e1 ltac:(lia) e2 _ _ ltac:(assumption) ltac:(assumption) He Hy) as [-> Hs].
    cbn [app] in Hs. split; congruence.
  - (* binary *)
    destruct (op_level cfg (t_type op1)); [|discriminate].
    destruct (op_level cfg (t_type op2)); [|discriminate].
    bsplit. injection He as -> Hl _ Hr. rewrite !app_cons_assoc in Hy.
    destruct (IH l1 ltac:(lia) l2 _ _ ltac:(assumption) ltac:(assumption) Hl Hy) as [-> Hs].
    injection Hs as Hs.
    destruct (IH r1 ltac:(lia) r2 _ _ ltac:(assumption) ltac:(assumption) Hr Hs) as [-> Hs'].
    split; congruence.
  - (* member *)
    bsplit. injection He as -> Hl Hr. rewrite !app_cons_assoc in Hy.
    destruct (IH o1 ltac:(lia) o2 _ _ ltac:(assumption) ltac:(assumption) Hl Hy) as [-> Hs].
    injection Hs as Hs.
    destruct (IH p1 ltac:(lia) p2 _ _ ltac:(assumption) ltac:(assumption) Hr Hs) as [-> Hs'].
    split; congruence.
  - (* index *)
    bsplit. injection He as -> Hl Hr. rewrite !app_cons_assoc in Hy.
    destruct (IH o1 ltac:(lia) o2 _ _ ltac:(assumption) ltac:(assumption) Hl Hy) as [-> Hs].
    injection Hs as Hs. rewrite <- ?app_assoc in Hs. cbn [app] in Hs.
    destruct (IH e1 ltac:(lia) e2 _ _ ltac:(assumption) ltac:(assumption) Hr Hs) as [-> Hs'].
    cbn [app] in Hs'. split; congruence.
  - (* call *)
    bsplit. injection He as -> Hf Ha. rewrite !app_cons_assoc in Hy.
    destruct (IH f1 ltac:(lia) f2 _ _ ltac:(assumption) ltac:(assumption) Hf Hy) as [-> Hs].
    injection Hs as Hs. rewrite <- ?app_assoc in Hs. cbn [app] in Hs.
    destruct fst1 as [a1|], fst2 as [a2|].
    + cbn [app] in Ha. injection Ha as Ha1 Ha2.
      destruct (IH a1 ltac:(lia) a2 _ _ ltac:(assumption) ltac:(assumption) Ha1 Hs) as [-> Hs'].
      destruct (args_inj cfg rest1 rest2 (rp1 :: s1) (rp2 :: s2)) as [-> Hs'']; try assumption; try exact Hs'.
      * intros p Hp. apply IH. pose proof (size_in rest1 p Hp). lia.
      * cbn [app] in Hs''. split; congruence.
    + destruct rest2; [|discriminate]. discriminate Ha.
    + destruct rest1; [|discriminate]. discriminate Ha.
    + destruct rest1; [|discriminate]. destruct rest2; [|discriminate].
      cbn [flat_map app] in Hs. split; congruence.
  - (* assignment *)
    bsplit. first [injection He as -> Hl Hr | injection He as -> Hl _ Hr]. rewrite !app_cons_assoc in Hy.
    destruct (IH l1 ltac:(lia) l2 _ _ ltac:(assumption) ltac:(assumption) Hl Hy) as [-> Hs].
    injection Hs as Hs.
    destruct (IH r1 ltac:(lia) r2 _ _ ltac:(assumption) ltac:(assumption) Hr Hs) as [-> Hs'].
    split; congruence.
  - bsplit. first [injection He as -> Hl Hr | injection He as -> Hl _ Hr]. rewrite !app_cons_assoc in Hy.
    destruct (IH l1 ltac:(lia) l2 _ _ ltac:(assumption) ltac:(assumption) Hl Hy) as [-> Hs].
    injection Hs as Hs.
    destruct (IH r1 ltac:(lia) r2 _ _ ltac:(assumption) ltac:(assumption) Hr Hs) as [-> Hs'].
    split; congruence.
  - bsplit. first [injection He as -> Hl Hr | injection He as -> Hl _ Hr]. rewrite !app_cons_assoc in Hy.
    destruct (IH l1 ltac:(lia) l2 _ _ ltac:(assumption) ltac:(assumption) Hl Hy) as [-> Hs].
    injection Hs as Hs.
    destruct (IH r1 ltac:(lia) r2 _ _ ltac:(assumption) ltac:(assumption) Hr Hs) as [-> Hs'].
    split; congruence.
Qed.

(* ---------- the normalised configuration ---------- *)

Definition stop3 (ty : Z) : bool := (ty =? T_RPAREN) || (ty =? T_RBRACKET) || (ty =? T_COMMA).

(* the same operators and modes; no prefix operator on the atoms' types or the parenthesis,
   nothing registered on the closing parenthesis / bracket and the comma, no interceptors *)
Definition unshadow_y (cfg : pcfg) : pcfg :=
  mkpcfg (c_tolerant cfg) (c_smart cfg) [] []
         (filter (fun ty => negb ((ty =? T_IDENT) || (ty =? T_INT) || (ty =? T_LPAREN))) (c_prefix_ops cfg))
         (filter (fun p => negb (fst p =? T_RPAREN))
            (filter (fun p => negb (fst p =? T_RBRACKET))
               (filter (fun p => negb (fst p =? T_COMMA)) (c_infix_ops cfg))))
         (filter (fun ty => negb (stop3 ty)) (c_postfix_ops cfg)).

Lemma unshadow_y_post cfg ty : stop3 ty = false ->
  memZ ty (c_postfix_ops (unshadow_y cfg)) = memZ ty (c_postfix_ops cfg).
Proof.
  intro H. unfold unshadow_y. cbn [c_postfix_ops]. rewrite memZ_filter, H. apply andb_true_r.
Qed.

Lemma unshadow_y_infix cfg ty : stop3 ty = false ->
  assoc_opt (c_infix_ops (unshadow_y cfg)) ty = assoc_opt (c_infix_ops cfg) ty.
Proof.
  intro H. unfold unshadow_y. cbn [c_infix_ops]. rewrite !assoc_opt_filter.
  unfold stop3 in H. apply orb_false_iff in H as [H H3]. apply orb_false_iff in H as [H1 H2].
  rewrite H1, H2, H3. reflexivity.
Qed.

Lemma unshadow_y_prefix cfg ty :
  ((ty =? T_IDENT) || (ty =? T_INT) || (ty =? T_LPAREN)) = false ->
  memZ ty (c_prefix_ops (unshadow_y cfg)) = memZ ty (c_prefix_ops cfg).
Proof.
  intro H. unfold unshadow_y. cbn [c_prefix_ops]. rewrite memZ_filter, H. apply andb_true_r.
Qed.

Lemma untouched_unshadow_y cfg ty : stop3 ty = false ->
  infix_untouched (unshadow_y cfg) ty = infix_untouched cfg ty.
Proof.
  intro H. unfold infix_untouched. rewrite unshadow_y_post, unshadow_y_infix by assumption. reflexivity.
Qed.

Lemma op_level_unshadow_y cfg ty : op_level (unshadow_y cfg) ty = op_level cfg ty.
Proof.
  destruct (((ty =? T_IDENT) || (ty =? T_INT) || (ty =? T_LPAREN)) || stop3 ty) eqn:E.
  - assert (Hs : (T_DYNAMIC_TOKENS_START <=? ty) = false /\ builtin_binary_level ty = None).
    { unfold stop3 in E.
      repeat (apply orb_true_iff in E; destruct E as [E|E]); apply Z.eqb_eq in E; subst ty; split; reflexivity. }
    destruct Hs as [Hs1 Hs2]. rewrite !op_level_small by assumption. reflexivity.
  - apply orb_false_iff in E as [E1 E2]. unfold op_level.
    rewrite unshadow_y_post, unshadow_y_prefix, unshadow_y_infix by assumption. reflexivity.
Qed.

Lemma pre_ok_unshadow_y cfg ty : pre_ok (unshadow_y cfg) ty = pre_ok cfg ty.
Proof.
  unfold pre_ok, unshadow_y. cbn [c_prefix_ops]. rewrite memZ_filter.
  destruct (T_DYNAMIC_TOKENS_START <=? ty) eqn:E; [|rewrite !andb_false_r; reflexivity].
  rewrite !(dyn_neq _ _ E) by reflexivity. cbn [negb orb]. rewrite !andb_true_r. reflexivity.
Qed.

Lemma post_ok_unshadow_y cfg ty : post_ok (unshadow_y cfg) ty = post_ok cfg ty.
Proof.
  unfold post_ok. destruct (T_DYNAMIC_TOKENS_START <=? ty) eqn:E; [|rewrite !andb_false_r; reflexivity].
  rewrite unshadow_y_post; [reflexivity|]. unfold stop3. rewrite !(dyn_neq _ _ E) by reflexivity. reflexivity.
Qed.

Lemma post_level_unshadow_y cfg op : post_level (unshadow_y cfg) op = post_level cfg op.
Proof.
  unfold post_level. rewrite post_ok_unshadow_y.
  destruct ((t_type op =? T_INCREMENT) || (t_type op =? T_DECREMENT)) eqn:E; [|reflexivity].
  rewrite untouched_unshadow_y; [reflexivity|].
  apply orb_true_iff in E as [E|E]; apply Z.eqb_eq in E; rewrite E; reflexivity.
Qed.

Lemma assign_ok_unshadow_y cfg ty : assign_ok (unshadow_y cfg) ty = assign_ok cfg ty.
Proof.
  unfold assign_ok.
  destruct ((ty =? T_ASSIGN) || (ty =? T_PLUS_ASSIGN) || (ty =? T_MINUS_ASSIGN)) eqn:E; [|reflexivity].
  rewrite untouched_unshadow_y; [reflexivity|].
  repeat (apply orb_true_iff in E; destruct E as [E|E]); apply Z.eqb_eq in E; rewrite E; reflexivity.
Qed.

Lemma opens_ok_unshadow_y cfg t ty : stop3 ty = false ->
  opens_ok (unshadow_y cfg) t ty = opens_ok cfg t ty.
Proof. intro H. unfold opens_ok. rewrite untouched_unshadow_y by assumption. reflexivity. Qed.

Lemma yspine_ge_unshadow cfg k e : yspine_ge (unshadow_y cfg) k e = yspine_ge cfg k e.
Proof. induction e; cbn [yspine_ge]; rewrite ?op_level_unshadow_y, ?IHe, ?IHe1, ?IHe2; reflexivity. Qed.

Lemma yright_ok_unshadow cfg k e : yright_ok (unshadow_y cfg) k e = yright_ok cfg k e.
Proof.
  induction e; cbn [yright_ok]; rewrite ?op_level_unshadow_y, ?post_level_unshadow_y, ?IHe, ?IHe1, ?IHe2;
    reflexivity.
Qed.

Lemma wgy_unshadow cfg : forall c, well_grouped_y (unshadow_y cfg) c = well_grouped_y cfg c.
Proof.
  apply ytree_size_ind. intros c IH.
  destruct c as [t|lp e rp|op e|e op|cl op cr|o d p|o lb e rb|fn lp first rest rp|cl op cr];
    cbn [well_grouped_y]; cbn [ysize] in IH;
    rewrite ?op_level_unshadow_y, ?post_level_unshadow_y, ?pre_ok_unshadow_y, ?assign_ok_unshadow_y,
            ?(opens_ok_unshadow_y cfg _ T_LBRACKET), ?(opens_ok_unshadow_y cfg _ T_LPAREN),
            ?(untouched_unshadow_y cfg T_DOT) by reflexivity.
  - reflexivity.
  - rewrite (IH e) by lia. reflexivity.
  - rewrite yright_ok_unshadow, (IH e) by lia. reflexivity.
  - destruct (post_level cfg op); [|reflexivity].
    rewrite yspine_ge_unshadow, (IH e) by lia. reflexivity.
  - destruct (op_level cfg (t_type op)); [|reflexivity].
    rewrite yspine_ge_unshadow, yright_ok_unshadow, (IH cl), (IH cr) by lia. reflexivity.
  - rewrite yspine_ge_unshadow, yright_ok_unshadow, (IH o), (IH p) by lia. reflexivity.
  - rewrite yspine_ge_unshadow, (IH o), (IH e) by lia. reflexivity.
  - rewrite yspine_ge_unshadow, (IH fn) by lia.
    replace (match first with None => match rest with [] => true | _ :: _ => false end
             | Some a => well_grouped_y (unshadow_y cfg) a end)
      with (match first with None => match rest with [] => true | _ :: _ => false end
            | Some a => well_grouped_y cfg a end)
      by (destruct first as [a|]; [rewrite (IH a) by lia; reflexivity|reflexivity]).
    rewrite (forallb_ext_in _ (fun p => (t_type (fst p) =? T_COMMA) && well_grouped_y cfg (snd p))); [reflexivity|].
    intros q Hq. pose proof (size_in rest q Hq). rewrite (IH (snd q)) by lia. reflexivity.
  - rewrite yspine_ge_unshadow, (IH cl), (IH cr) by lia. reflexivity.
Qed.

Lemma unshadow_y_atoms cfg ty :
  ((ty =? T_IDENT) || (ty =? T_INT) || (ty =? T_LPAREN)) = true ->
  memZ ty (c_prefix_ops (unshadow_y cfg)) = false.
Proof.
  intro H. unfold unshadow_y. cbn [c_prefix_ops]. rewrite memZ_filter, H. apply andb_false_r.
Qed.

Lemma unshadow_y_stop cfg ty : stop3 ty = true -> assoc_opt parser_precedences ty = None ->
  precedence_of (unshadow_y cfg) ty <= P_LOWEST.
Proof.
  intros H Hp. unfold precedence_of, unshadow_y. cbn [c_postfix_ops c_infix_ops].
  rewrite memZ_filter, H, andb_false_r, !assoc_opt_filter.
  unfold stop3 in H.
  destruct (ty =? T_RPAREN); [rewrite Hp; apply Z.le_refl|].
  destruct (ty =? T_RBRACKET); [rewrite Hp; apply Z.le_refl|].
  destruct (ty =? T_COMMA); [rewrite Hp; apply Z.le_refl|]. discriminate.
Qed.

(* ---------- uniqueness ---------- *)

Lemma ygroup_unique : forall cfg c1 c2,
  well_grouped_y cfg c1 = true -> well_grouped_y cfg c2 = true ->
  yyield c1 = yyield c2 -> c1 = c2.
Proof.
  intros cfg c1 c2 H1 H2 Hy.
  assert (He : yexpr c1 = yexpr c2).
  { pose proof H1 as G1. pose proof H2 as G2. rewrite <- wgy_unshadow in G1, G2.
    destruct (yyield_cons c1) as (a & l & Y1). assert (Y2 : yyield c2 = a :: l) by congruence.
    set (f := S (ysize c1 + ysize c2)).
    assert (Hst : stopsc (unshadow_y cfg) P_LOWEST cx_semi = true) by reflexivity.
    pose proof (climb_all (unshadow_y cfg) eq_refl
                  (unshadow_y_atoms cfg T_IDENT eq_refl) (unshadow_y_atoms cfg T_INT eq_refl)
                  (unshadow_y_atoms cfg T_LPAREN eq_refl)
                  (unshadow_y_stop cfg T_RPAREN eq_refl eq_refl)
                  (unshadow_y_stop cfg T_RBRACKET eq_refl eq_refl)
                  (unshadow_y_stop cfg T_COMMA eq_refl eq_refl)) as HC.
    pose proof (climb_top (unshadow_y cfg)
                  (unshadow_y_atoms cfg T_IDENT eq_refl) (unshadow_y_atoms cfg T_INT eq_refl)
                  (unshadow_y_atoms cfg T_LPAREN eq_refl)) as HT.
    destruct (HT c1 f (HC c1) G1 ltac:(lia) (x_init cx_eof) a l cx_semi [] Y1 Hst) as (a1 & E1).
    destruct (HT c2 f (HC c2) G2 ltac:(lia) (x_init cx_eof) a l cx_semi [] Y2 Hst) as (a2 & E2).
    rewrite E1 in E2. injection E2 as E2 _. exact E2. }
  destruct (yexpr_yield_inj cfg c1 c2 [] [] H1 H2 He) as [E _]; [rewrite Hy; reflexivity|exact E].
Qed.

Print Assumptions ygroup_unique.
