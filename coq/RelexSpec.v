(* RelexSpec.v -- vocabulary for the text-level half of C03: which assembled expression
   trees carry lexically meaningful tokens, and what "the same shape ignoring positions,
   comments and grouping nodes" means. *)
Require Import Base GoOps Token Lexer Tree Writer PrinterLib Compile Parser Grammar PrintSpec CommentSpec.
Require Import Gen.Tables Gen.Preds Gen.Printer.

(* positions, after-newline flag and trivia erased *)
Definition norm_tok (t : token) : token :=
  mktoken (t_type t) (t_lit t) (mkpos 0 0) (mkpos 0 0) false [].
Definition shape_expr (e : expr) : expr := tmap_expr norm_tok e.
Definition shape_stmt (s : stmt) : stmt := tmap_stmt norm_tok s.
Definition shape_program (p : program) : program :=
  mkprogram (map shape_stmt (p_stmts p)) (norm_tok (p_eof p)).

(* the text of an operator / punctuation token type *)
Definition type_text (ty : Z) : option str :=
  if ty =? T_ASSIGN then Some [61%N]
  else if ty =? T_PLUS_ASSIGN then Some [43; 61]%N
  else if ty =? T_MINUS_ASSIGN then Some [45; 61]%N
  else if ty =? T_PLUS then Some [43%N]
  else if ty =? T_MINUS then Some [45%N]
  else if ty =? T_MULTIPLY then Some [42%N]
  else if ty =? T_DIVIDE then Some [47%N]
  else if ty =? T_MODULO then Some [37%N]
  else if ty =? T_EQ then Some [61; 61]%N
  else if ty =? T_NOT_EQ then Some [33; 61]%N
  else if ty =? T_LT then Some [60%N]
  else if ty =? T_GT then Some [62%N]
  else if ty =? T_LTE then Some [60; 61]%N
  else if ty =? T_GTE then Some [62; 61]%N
  else if ty =? T_AND then Some [38; 38]%N
  else if ty =? T_OR then Some [124; 124]%N
  else if ty =? T_NOT then Some [33%N]
  else if ty =? T_INCREMENT then Some [43; 43]%N
  else if ty =? T_DECREMENT then Some [45; 45]%N
  else if ty =? T_DOT then Some [46%N]
  else if ty =? T_LPAREN then Some [40%N]
  else if ty =? T_RPAREN then Some [41%N]
  else if ty =? T_LBRACE then Some [123%N]
  else if ty =? T_RBRACE then Some [125%N]
  else if ty =? T_LBRACKET then Some [91%N]
  else if ty =? T_RBRACKET then Some [93%N]
  else None.

(* the token has the given type and carries that type's text as its literal *)
Definition punct (t : token) (ty : Z) : bool :=
  (t_type t =? ty) && match type_text ty with Some s => str_eqb (t_lit t) s | None => false end.

(* a word / number / string token whose text lexes back to exactly that token *)
Definition relex_word (ty : Z) (lit : str) : bool :=
  match tokenize lit with
  | Some [t; e] => (t_type t =? ty) && str_eqb (t_lit t) lit && (t_type e =? T_EOF)
  | _ => false
  end.
Definition relex_string (v : str) : bool :=
  match tokenize ([34%N] ++ v ++ [34%N]) with
  | Some [t; e] => (t_type t =? T_STRING) && str_eqb (t_lit t) v && (t_type e =? T_EOF)
  | _ => false
  end.
Definition relex_raw (v : str) : bool :=
  match tokenize ([96%N] ++ replace_all v [96%N] [92; 96]%N ++ [96%N]) with
  | Some [t; e] => (t_type t =? T_RAW_STRING) && str_eqb (t_lit t) v && (t_type e =? T_EOF)
  | _ => false
  end.

(* every string-literal token of a lexed source re-scans to itself once written between
   double quotes (fails only for literals with an incomplete \x / \u escape directly
   followed by text that completes it after decoding, e.g. "\x\x41") *)
Definition string_stable (t : token) : bool :=
  negb (t_type t =? T_STRING) || relex_string (t_lit t).
Definition strings_stable (toks : list token) : bool := forallb string_stable toks.

Definition ident_lexical (i : ident) : bool :=
  (t_type (id_tok i) =? T_IDENT) && str_eqb (id_value i) (t_lit (id_tok i)) && relex_word T_IDENT (id_value i).

(* every token stored in the tree is what the lexer would produce for the text the
   printer writes for it *)
Fixpoint lexical (e : expr) : bool :=
  match e with
  | ENil | ELet _ _ _ | EFunc _ _ _ _ => false
  | EIdent i => ident_lexical i
  | EInt t => (t_type t =? T_INT) && relex_word T_INT (t_lit t) && go_int_ok (t_lit t)
  | EFloat t => (t_type t =? T_FLOAT) && relex_word T_FLOAT (t_lit t) && go_float_ok (t_lit t)
  | EString t v => (t_type t =? T_STRING) && str_eqb v (t_lit t) && relex_string v
  | ERaw t v => (t_type t =? T_RAW_STRING) && str_eqb v (t_lit t) && relex_raw v
  | EBool t b => (((t_type t =? T_TRUE) && b) || ((t_type t =? T_FALSE) && negb b)) && relex_word (t_type t) (t_lit t)
  | ENull t => (t_type t =? T_NULL) && str_eqb (t_lit t) [110; 117; 108; 108]%N
  | EBinary t l op r => punct t (t_type t) && str_eqb op (t_lit t) && lexical l && lexical r
  | EUnary t op r => punct t (t_type t) && str_eqb op (t_lit t) && lexical r
  | EPostfix t l op => punct t (t_type t) && str_eqb op (t_lit t) && lexical l
  | EGroup lp e' rp => punct lp T_LPAREN && punct rp T_RPAREN && lexical e'
  | ECall t f args => punct t T_LPAREN && lexical f && forallb lexical args
  | EMember t o p c =>
      lexical o &&
      (if c then punct t T_LBRACKET && lexical p
       else punct t T_DOT && match p with EIdent i => ident_lexical i | _ => false end)
  | EAssign t l v => punct t T_ASSIGN && lexical l && lexical v
  | ECompound t l op v =>
      ((punct t T_PLUS_ASSIGN && str_eqb op [43%N]) || (punct t T_MINUS_ASSIGN && str_eqb op [45%N]))
      && lexical l && lexical v
  | EArray lb es rb => punct lb T_LBRACKET && punct rb T_RBRACKET && forallb lexical es
  | EObject lb ps rb =>
      punct lb T_LBRACE && forallb (fun kv => lexical (fst kv) && lexical (snd kv)) ps
      && match ps with [] => tok_eqb rb zero_token | _ => punct rb T_RBRACE end
  end.

(* the first token the printer writes for an expression (an expression statement must
   not begin with '{') *)
Fixpoint first_type (e : expr) : Z :=
  match e with
  | ENil => 0
  | EIdent i => t_type (id_tok i)
  | EInt t | EFloat t | EString t _ | ERaw t _ | EBool t _ | ENull t => t_type t
  | ELet t _ _ => t_type t
  | EBinary _ l _ _ => first_type l
  | EUnary t _ _ => t_type t
  | EPostfix _ l _ => first_type l
  | EGroup lp _ _ => t_type lp
  | ECall _ f _ => first_type f
  | EMember _ o _ _ => first_type o
  | EAssign _ l _ => first_type l
  | ECompound _ l _ _ => first_type l
  | EFunc t _ _ _ => t_type t
  | EArray lb _ _ => t_type lb
  | EObject lb _ _ => t_type lb
  end.

Definition eof_tok : token := mktoken T_EOF [] (mkpos 0 0) (mkpos 0 0) false [].

(* an expression statement assembled from such a tree, as a program *)
Definition expr_program (e : expr) : program := mkprogram [SExpr e] eof_tok.

(* print compactly, lex the text, parse the tokens *)
Definition reparse_compact (p : program) : option parse_result :=
  match tokenize (r_code (compile (cfg_compact false) p)) with
  | Some ts => parse_tokens cfg_default ts
  | None => None
  end.

(* ---- pretty configurations ---- *)

(* print under any configuration, lex the text, parse the tokens *)
Definition reparse (cfg : wcfg) (p : program) : option parse_result :=
  match tokenize (r_code (compile cfg p)) with
  | Some ts => parse_tokens cfg_default ts
  | None => None
  end.

(* no line of a multi-line literal ends with a blank: the pretty configurations trim the
   end of every output line, also inside string and backtick literals (recorded finding KF3) *)
Fixpoint blank_eol_free (s : str) : bool :=
  match s with
  | [] => true
  | c :: s' => match s' with
               | d :: _ => negb ((c =? 32)%N && (d =? 10)%N) && blank_eol_free s'
               | [] => true
               end
  end.
Definition literals_trim_safe (toks : list token) : bool := forallb (fun t => blank_eol_free (t_lit t)) toks.
