(* TriviaProofs.v -- C15 (comments stay in place) and C06 (idempotence) for the re-lexed pretty
   output: the trivia lists at the statement boundaries of the tree parsed back from the formatted
   text are those of the source tree, up to [norm_boundaries]; formatting that tree again gives
   the same text byte for byte.

   Method: PrettyProofs.v with a stronger invariant.
   * TrivLex: the trivia list the lexer collects over a run of trivia is a function [tcm] of the
     text; comment trimming is idempotent and subsumes the blank trimming of cleanEmptyLines,
     so [tcm] is invariant under [rta]; the lexing step lemmas also return [t_comments t].
   * TrivWr: [tcm] of the gaps the pretty writer puts in front of a token.
   * TrivJ: the per-construct invariant of PrettyProofs.PrettyJ with, in addition, the trivia
     list of the first token and the boundary trivia of the re-lexed tree.
     For C06 the invariant also says how the re-lexed tree is printed ([WX]: leading comments, then
     operations which, run behind the gap of the source tree, write the same text).
   * main part and top level: TrimSpace at both ends; the writer does not look at the start of
     its buffer ([sim_run]), so the trimmed blank lines in front of the first token do not matter. *)
Require Import Base GoOps Token Lexer LexSpec Tree Writer PrinterLib Compile Parser Grammar
  PrintSpec CommentSpec RelexSpec TokenSpec WriterSpec.
Require Import Gen.Tables Gen.Preds Gen.Printer.
Require Import LexerProofs GrammarProofs PrintProofs WriterProofs CommentProofs RelexProofs TokenProofs C01Proofs RoundTripProofs PrettyProofs.
From Coq Require Import ZifyBool ZifyN ZifyNat Lia.
Import PrettyLex PrettyWr.

Module TrivLex.

(* ================================================================== *)
(* 1. comment trimming                                                 *)
(* ================================================================== *)

Definition tdone (r : str) : Prop :=
  match r with
  | [] => True
  | c :: _ => ascii_uspace c = false /\ first_strip uspace_tails r = None
  end.

Lemma trim_rev_done r : tdone r -> forall f, trim_rev f r = r.
Proof.
  intros H f. destruct f as [|f]; [reflexivity|]. destruct r as [|c r']; [reflexivity|].
  destruct H as [H1 H2]. cbn [trim_rev]. rewrite H1, H2. reflexivity.
Qed.

Lemma strip_prefix_len : forall p s r, Lexer.strip_prefix p s = Some r -> length s = (length p + length r)%nat.
Proof.
  induction p as [|x p IH]; intros s r H; cbn [Lexer.strip_prefix] in H.
  - inversion H; subst. reflexivity.
  - destruct s as [|y s]; [discriminate|]. destruct (N.eqb x y); [|discriminate].
    cbn [length]. rewrite (IH _ _ H). reflexivity.
Qed.

Lemma first_strip_len : forall pl s r, first_strip pl s = Some r -> Forall (fun p => p <> []) pl ->
  (length r < length s)%nat.
Proof.
  induction pl as [|p pl IH]; intros s r H F; cbn [first_strip] in H; [discriminate|].
  pose proof (Forall_inv F) as Hp. pose proof (Forall_inv_tail F) as Fp.
  destruct (Lexer.strip_prefix p s) as [r0|] eqn:E.
  - inversion H; subst. apply strip_prefix_len in E. destruct p; [congruence|cbn [length] in E; lia].
  - exact (IH _ _ H Fp).
Qed.

Lemma uspace_tails_ne : Forall (fun p : str => p <> []) uspace_tails.
Proof. unfold uspace_tails. repeat (constructor; [discriminate|]). constructor. Qed.

Lemma trim_rev_tdone : forall f r, (length r <= f)%nat -> tdone (trim_rev f r).
Proof.
  induction f as [|f IH]; intros r H.
  - destruct r; [exact I|cbn [length] in H; lia].
  - destruct r as [|c r']; [exact I|]. cbn [trim_rev]. cbn [length] in H.
    destruct (ascii_uspace c) eqn:A; [apply IH; lia|].
    destruct (first_strip uspace_tails (c :: r')) as [r''|] eqn:E.
    + apply IH. pose proof (first_strip_len _ _ _ E uspace_tails_ne) as L. cbn [length] in L. lia.
    + split; assumption.
Qed.

Lemma trim_rev_fuel : forall f r, (length r <= f)%nat -> forall f', (length r <= f')%nat ->
  trim_rev f r = trim_rev f' r.
Proof.
  induction f as [|f IH]; intros r H f' H'.
  - destruct r; [|cbn [length] in H; lia]. destruct f'; reflexivity.
  - destruct r as [|c r']; [destruct f'; reflexivity|]. cbn [length] in H, H'.
    destruct f' as [|f']; [lia|]. cbn [trim_rev].
    destruct (ascii_uspace c); [apply IH; lia|].
    destruct (first_strip uspace_tails (c :: r')) as [r''|] eqn:E; [|reflexivity].
    pose proof (first_strip_len _ _ _ E uspace_tails_ne) as L. cbn [length] in L. apply IH; lia.
Qed.

Lemma trim_idem s : trim_right_spaces (trim_right_spaces s) = trim_right_spaces s.
Proof.
  unfold trim_right_spaces. rewrite rev_involutive. f_equal.
  apply trim_rev_done. apply trim_rev_tdone. rewrite rev_length. lia.
Qed.

Lemma trim_nil : trim_right_spaces [] = [].
Proof. reflexivity. Qed.

Lemma trim_rev_dw32 : forall r f f', (length r <= f)%nat -> (length r <= f')%nat ->
  trim_rev f (drop_while (N.eqb 32) r) = trim_rev f' r.
Proof.
  induction r as [|c r IH]; intros f f' H H'; cbn [drop_while].
  - destruct f, f'; reflexivity.
  - cbn [length] in H, H'. destruct (N.eqb_spec 32 c) as [<-|Ne].
    + destruct f' as [|f']; [lia|]. cbn [trim_rev]. change (ascii_uspace 32) with true. cbn iota.
      apply IH; lia.
    + apply trim_rev_fuel; cbn [length]; lia.
Qed.

Lemma drop_while_len p : forall r, (length (drop_while p r) <= length r)%nat.
Proof. induction r as [|c r IH]; cbn [drop_while length]; [lia|]. destruct (p c); cbn [length]; lia. Qed.

Lemma trim_dwe32 s : trim_right_spaces (dwe (N.eqb 32) s) = trim_right_spaces s.
Proof.
  rewrite <- trim_right_sp_dwe. unfold trim_right_sp, trim_right_spaces. rewrite rev_involutive. f_equal.
  rewrite rev_length.
  rewrite (trim_rev_fuel _ _ (Nat.le_refl _) (length (rev s))) by apply drop_while_len.
  apply trim_rev_dw32; rewrite ?rev_length; lia.
Qed.

(* a trimmed text does not end in a space byte *)
Lemma trim_fix_last d : trim_right_spaces d = d -> d <> [] -> is_space_go (last d 0%N) = false.
Proof.
  intros H Ne. unfold trim_right_spaces in H.
  assert (E : trim_rev (length d) (rev d) = rev d).
  { rewrite <- (rev_involutive (trim_rev (length d) (rev d))), H. reflexivity. }
  pose proof (trim_rev_tdone (length d) (rev d) ltac:(rewrite rev_length; lia)) as T. rewrite E in T.
  destruct (rev d) as [|c r] eqn:R.
  - apply (f_equal (@rev N)) in R. rewrite rev_involutive in R. cbn in R. congruence.
  - apply (f_equal (@rev N)) in R. rewrite rev_involutive in R. cbn [rev] in R. subst d.
    rewrite last_last. destruct T as [T _]. unfold ascii_uspace in T. unfold is_space_go. lia.
Qed.

(* ================================================================== *)
(* 2. the trivia list of a text                                        *)
(* ================================================================== *)

Fixpoint tcm_aux (m : tmode) (g : str) : list str :=
  match g with
  | [] => match m with TComment acc => [trim_right_spaces acc] | _ => [] end
  | c :: r =>
      match m with
      | TComment acc =>
          if N.eqb c LF then trim_right_spaces acc :: tcm_aux TWs r else tcm_aux (TComment (acc ++ [c])) r
      | TSlash => tcm_aux (TComment []) r
      | TWs =>
          if isWhitespace c then (if N.eqb c LF then [] :: tcm_aux TWs r else tcm_aux TWs r)
          else if N.eqb c SLASH && N.eqb (hd 0%N r) SLASH then tcm_aux TSlash r
          else []
      end
  end.

Definition tcm (g : str) : list str := tcm_aux TWs g.

Lemma tcm_nil : tcm [] = []. Proof. reflexivity. Qed.

Lemma tcm_ws c g : isWhitespace c = true -> tcm (c :: g) = (if N.eqb c LF then [[]] else []) ++ tcm g.
Proof. intro W. unfold tcm. cbn [tcm_aux]. rewrite W. destruct (N.eqb c LF); reflexivity. Qed.

Lemma tcm_aux_body : forall body acc r, nolf body = true ->
  tcm_aux (TComment acc) (body ++ LF :: r) = trim_right_spaces (acc ++ body) :: tcm_aux TWs r.
Proof.
  induction body as [|c body IH]; intros acc r H; cbn [app tcm_aux].
  - change (N.eqb LF LF) with true. cbn iota. rewrite app_nil_r. reflexivity.
  - cbn [nolf forallb] in H. apply andb_true_iff in H as [Hc Hb].
    destruct (N.eqb c LF); [discriminate Hc|]. rewrite (IH _ _ Hb), <- app_assoc. reflexivity.
Qed.

Lemma tcm_aux_open : forall body acc, nolf body = true ->
  tcm_aux (TComment acc) body = [trim_right_spaces (acc ++ body)].
Proof.
  induction body as [|c body IH]; intros acc H; cbn [tcm_aux].
  - rewrite app_nil_r. reflexivity.
  - cbn [nolf forallb] in H. apply andb_true_iff in H as [Hc Hb].
    destruct (N.eqb c LF); [discriminate Hc|]. rewrite (IH _ Hb), <- app_assoc. reflexivity.
Qed.

Lemma tcm_cm body g : nolf body = true -> tcm (47%N :: 47%N :: body ++ LF :: g) = trim_right_spaces body :: tcm g.
Proof.
  intro H. unfold tcm. cbn [tcm_aux]. change (isWhitespace 47) with false. cbn iota.
  change (N.eqb 47 SLASH && N.eqb (hd 0%N (47%N :: body ++ LF :: g)) SLASH) with true. cbn iota.
  cbn [tcm_aux]. rewrite (tcm_aux_body body [] g H). reflexivity.
Qed.

Lemma tcm_open body : nolf body = true -> tcm (47%N :: 47%N :: body) = [trim_right_spaces body].
Proof.
  intro H. unfold tcm. cbn [tcm_aux]. change (isWhitespace 47) with false. cbn iota.
  change (N.eqb 47 SLASH && N.eqb (hd 0%N (47%N :: body)) SLASH) with true. cbn iota.
  cbn [tcm_aux]. rewrite (tcm_aux_open body [] H). reflexivity.
Qed.

Lemma tcm_app a b : trv a -> tcm (a ++ b) = tcm a ++ tcm b.
Proof.
  induction 1 as [|c g W T IH|body g N T IH]; cbn [app].
  - reflexivity.
  - rewrite !(tcm_ws c _ W), IH, app_assoc. reflexivity.
  - rewrite <- app_assoc. cbn [app]. rewrite !tcm_cm by exact N. rewrite IH. reflexivity.
Qed.

Lemma tcm_allws g : forallb isWhitespace g = true -> has_lf g = false -> tcm g = [].
Proof.
  induction g as [|c g IH]; intros W L; [reflexivity|]. cbn [forallb] in W. apply andb_true_iff in W as [Wc Wg].
  rewrite has_lf_cons in L. apply orb_false_iff in L as [Lc Lg].
  rewrite (tcm_ws c g Wc), Lc. cbn [app]. exact (IH Wg Lg).
Qed.

(* every item the lexer produces is trimmed *)
Definition TRM (cs : list str) : Prop := Forall (fun c => trim_right_spaces c = c) cs.

(* ================================================================== *)
(* 3. the lexer reads exactly [tcm]                                    *)
(* ================================================================== *)

Lemma trivia_trv_c g : trv g -> forall X line col had cs,
  exists line' col', trivia TWs (g ++ X) line col had cs = trivia TWs X line' col' (had || has_lf g) (cs ++ tcm g).
Proof.
  induction 1 as [|c g W T IH|body g N T IH]; intros X line col had cs.
  - exists line, col. cbn [app has_lf existsb]. rewrite orb_false_r, tcm_nil, app_nil_r. reflexivity.
  - cbn [app trivia]. rewrite W. rewrite has_lf_cons, (tcm_ws c g W).
    destruct (N.eqb c LF) eqn:E.
    + destruct (IH X (line + 1) 0 true (cs ++ [[]])) as (l' & c' & Q). rewrite Q.
      exists l', c'. cbn [orb]. rewrite orb_true_r, <- app_assoc. reflexivity.
    + destruct (IH X line (col + 1) had cs) as (l' & c' & Q). rewrite Q.
      exists l', c'. cbn [orb app]. reflexivity.
  - cbn [app trivia]. change (isWhitespace 47) with false. cbn iota.
    change (N.eqb 47 SLASH && N.eqb (hd 0%N (47%N :: (body ++ LF :: g) ++ X)) SLASH) with true. cbn iota.
    cbn [trivia]. rewrite <- app_assoc. cbn [app].
    destruct (trivia_comment_body body [] (g ++ X) line (col + 1 + 1) had cs N) as (_ & E & _). rewrite E.
    destruct (IH X (line + 1) 0 true (cs ++ [trim_right_spaces ([] ++ body)])) as (l' & c' & Q). rewrite Q.
    exists l', c'. rewrite (tcm_cm body g N). cbn [app]. rewrite <- app_assoc. cbn [app]. f_equal.
    rewrite !has_lf_cons. change (N.eqb 47 LF) with false. cbn [orb].
    rewrite has_lf_app, has_lf_cons. change (N.eqb LF LF) with true. cbn [orb].
    rewrite !orb_true_r. reflexivity.
Qed.

Lemma rlc_gap_c l g X : trv g -> tstart X -> l_rest l = g ++ X ->
  exists line col, read_leading_comments l = mklx X line col (has_lf g) (tcm g).
Proof.
  intros T S Hl. unfold read_leading_comments. rewrite Hl.
  destruct (trivia_trv_c g T X (l_line l) (l_col l) false []) as (l' & c' & Q). rewrite Q.
  cbn [orb app].
  destruct X as [|x X'].
  - cbn [trivia]. exists l', c'. reflexivity.
  - destruct S as [W S]. cbn [trivia]. rewrite W.
    destruct (N.eqb x SLASH && N.eqb (hd 0%N X') SLASH) eqn:E.
    + apply andb_true_iff in E as [E1 E2]. apply N.eqb_eq in E1, E2. exfalso. exact (S E1 E2).
    + exists l', c'. reflexivity.
Qed.

Lemma next_token_gap_c l g X : trv g -> tstart X -> l_rest l = g ++ X ->
  exists l0, l_rest l0 = X /\ next_token l = mt (has_lf g) (tcm g) (next_token l0).
Proof.
  intros T S Hl. destruct (rlc_gap_c l g X T S Hl) as (line & col & R).
  exists (mklx X line col false []). split; [reflexivity|].
  unfold next_token, next_token_with. rewrite R.
  rewrite (rlc_stop (mklx X line col false [])) by exact S.
  unfold clean. cbn [l_rest l_line l_col].
  change (mklx X line col (has_lf g) (tcm g)) with (hc (has_lf g) (tcm g) (mklx X line col false [])).
  apply base_next_token_hc.
Qed.

Lemma lex1_gap_c s ty lit K g : lex1 s ty lit K -> tstart (s ++ K) -> trv g ->
  forall l, l_rest l = g ++ s ++ K ->
  exists t l', next_token l = (t, l') /\ t_type t = ty /\ t_lit t = lit /\ t_nl t = has_lf g /\ l_rest l' = K /\
               t_comments t = tcm g.
Proof.
  intros L S T l Hl.
  destruct (next_token_gap_c l g (s ++ K) T S Hl) as (l0 & R0 & E).
  destruct (L l0 R0) as (t & l' & N & Ty & Li & _ & R).
  rewrite N in E. unfold mt in E. cbn [fst snd] in E.
  exists (thc (has_lf g) (tcm g) t), (hc (has_lf g) (tcm g) l'). split; [exact E|].
  cbn [thc t_type t_lit t_nl hc l_rest t_comments]. repeat split; assumption.
Qed.

Lemma lex1_gap_lexes_c s ty lit K g : lex1 s ty lit K -> tstart (s ++ K) -> trv g -> s <> [] -> ty <> T_EOF ->
  forall l, l_rest l = g ++ s ++ K ->
  exists t l', lexes l [t] l' /\ t_type t = ty /\ t_lit t = lit /\ t_nl t = has_lf g /\ l_rest l' = K /\
               t_comments t = tcm g.
Proof.
  intros L S T Ns Ne l Hl. destruct (lex1_gap_c s ty lit K g L S T l Hl) as (t & l' & N & Ty & Li & Nl & R & C).
  exists t, l'. split; [|repeat split; assumption].
  apply lexes_one; [exact N|congruence|].
  rewrite R, Hl, !app_length. destruct s; [congruence|cbn [length]; lia].
Qed.

Lemma trivia_comment_open_c : forall body acc line col had cs, nolf body = true ->
  exists line' col' had', trivia (TComment acc) body line col had cs =
    ([], line', col', had', cs ++ [trim_right_spaces (acc ++ body)]).
Proof.
  induction body as [|c body IH]; intros acc line col had cs H; cbn [trivia].
  - rewrite app_nil_r. do 3 eexists. reflexivity.
  - cbn [nolf forallb] in H. apply andb_true_iff in H as [Hc Hb].
    destruct (N.eqb c LF); [discriminate Hc|].
    destruct (IH (acc ++ [c]) line (col + 1) had cs Hb) as (l' & c' & h' & Q). rewrite Q, <- app_assoc.
    do 3 eexists. reflexivity.
Qed.

(* trivia up to the end of the input *)
Lemma trivia_end_c g : trv_end g -> forall line col had cs,
  exists line' col' had', trivia TWs g line col had cs = ([], line', col', had', cs ++ tcm g).
Proof.
  induction 1 as [|c g W T IH|body g N T IH|body N]; intros line col had cs.
  - do 3 eexists. cbn [trivia]. rewrite tcm_nil, app_nil_r. reflexivity.
  - cbn [trivia]. rewrite W, (tcm_ws c g W). destruct (N.eqb c LF).
    + destruct (IH (line + 1) 0 true (cs ++ [[]])) as (l' & c' & h' & Q). rewrite Q, <- app_assoc. do 3 eexists. reflexivity.
    + apply IH.
  - cbn [trivia]. change (isWhitespace 47) with false. cbn iota.
    change (N.eqb 47 SLASH && N.eqb (hd 0%N (47%N :: body ++ LF :: g)) SLASH) with true. cbn iota.
    cbn [trivia].
    destruct (trivia_comment_body body [] g line (col + 1 + 1) had cs N) as (_ & E & _). rewrite E.
    destruct (IH (line + 1) 0 true (cs ++ [trim_right_spaces ([] ++ body)])) as (l' & c' & h' & Q). rewrite Q.
    rewrite (tcm_cm body g N), <- app_assoc. do 3 eexists. reflexivity.
  - cbn [trivia]. change (isWhitespace 47) with false. cbn iota.
    change (N.eqb 47 SLASH && N.eqb (hd 0%N (47%N :: body)) SLASH) with true. cbn iota.
    cbn [trivia]. rewrite (tcm_open body N).
    destruct (trivia_comment_open_c body [] line (col + 1 + 1) had cs N) as (l' & c' & h' & Q). rewrite Q.
    do 3 eexists. reflexivity.
Qed.

Lemma next_token_end_c l : trv_end (l_rest l) -> t_comments (fst (next_token l)) = tcm (l_rest l).
Proof.
  intro T. unfold next_token, next_token_with, read_leading_comments.
  destruct (trivia_end_c _ T (l_line l) (l_col l) false []) as (l' & c' & h' & E). rewrite E.
  reflexivity.
Qed.


(* ================================================================== *)
(* 4. cleanEmptyLines does not change the trivia list                  *)
(* ================================================================== *)

Lemma rta_trv_c g : trv g -> forall Z, Z <> [] -> isWhitespace (hd 0%N Z) = false ->
  exists g', rta g Z = g' ++ Z /\ trv g' /\ tcm g' = tcm g.
Proof.
  induction 1 as [|c g W T IH|body g N T IH]; intros Z Nz Hz.
  - exists []. split; [reflexivity|]. split; [constructor|reflexivity].
  - destruct (IH Z Nz Hz) as (g' & E & T' & C').
    cbn [rta]. rewrite E.
    destruct (N.eqb c 32) eqn:C32.
    + destruct (g' ++ Z) as [|d r] eqn:D.
      { destruct g'; [cbn [app] in D; congruence|discriminate D]. }
      destruct (N.eqb d LF) eqn:DL.
      * destruct g' as [|x g''].
        { cbn [app] in D. subst Z. cbn [hd] in Hz. apply N.eqb_eq in DL. subst d. discriminate Hz. }
        cbn [app] in D. inversion D; subst x r.
        exists (d :: g''). split; [reflexivity|]. split; [exact T'|].
        rewrite C', (tcm_ws c g W). apply N.eqb_eq in C32. subst c. reflexivity.
      * exists (c :: g'). cbn [app]. rewrite D. split; [reflexivity|]. split; [apply trv_ws; assumption|].
        rewrite !(tcm_ws c _ W), C'. reflexivity.
    + exists (c :: g'). cbn [app]. split; [reflexivity|]. split; [apply trv_ws; assumption|].
      rewrite !(tcm_ws c _ W), C'. reflexivity.
  - destruct (IH Z Nz Hz) as (g' & E & T' & C').
    change (47%N :: 47%N :: body ++ LF :: g) with ([47%N; 47%N] ++ body ++ LF :: g).
    rewrite !rta_app. cbn [rta]. change (N.eqb 47 32) with false. cbn iota.
    change (N.eqb LF 32) with false. cbn iota. rewrite E.
    rewrite (rta_line_lf body _ N).
    pose proof (dwe_no_lf (N.eqb 32) body N) as Q.
    exists (47%N :: 47%N :: dwe (N.eqb 32) body ++ LF :: g'). split.
    { cbn [app]. rewrite <- app_assoc. reflexivity. }
    split; [apply trv_cm; [exact Q|exact T']|].
    cbn [app]. rewrite (tcm_cm _ g' Q), (tcm_cm body g N), trim_dwe32, C'. reflexivity.
Qed.

Lemma rta_trv_c_any g Z g' : trv g -> Z <> [] -> isWhitespace (hd 0%N Z) = false ->
  rta g Z = g' ++ Z -> tcm g' = tcm g.
Proof.
  intros T Nz Hz E. destruct (rta_trv_c g T Z Nz Hz) as (g0 & E0 & _ & C0).
  rewrite E0 in E. apply app_inv_tail in E. subst g0. exact C0.
Qed.

Lemma gap_split_c g body X K c : wgap g -> hd 0%N body = c -> isWhitespace c = false -> c <> 0%N ->
  exists g', rta (g ++ body ++ X) K = g' ++ rta body (rta X K) /\ trv g' /\ has_lf g' = has_lf g /\
    (g = [] -> g' = []) /\ (g <> [] -> exists w r, g' = w :: r /\ isWhitespace w = true) /\
    hd 0%N (rta body (rta X K)) = c /\ tcm g' = tcm g.
Proof.
  intros Gg Hd Hw Hz.
  destruct (gap_split g body X K c Gg Hd Hw Hz) as (g' & E & T' & L' & E0 & E1 & Hc).
  exists g'. repeat split; try assumption.
  rewrite !rta_app in E.
  destruct body as [|c0 body']; [cbn [hd] in Hd; congruence|]. cbn [hd] in Hd. subst c0.
  rewrite (rta_cons_nb c body' _ (ws_nz _ Hw)) in E.
  refine (rta_trv_c_any g (c :: rta body' (rta X K)) g' (proj1 Gg) _ Hw E). discriminate.
Qed.

(* ================================================================== *)
(* 5. one lexing step, with the trivia list of the token               *)
(* ================================================================== *)

Lemma S_lex0_c s ty lit gs X K l :
  lex1 s ty lit (rta X K) -> tstart (s ++ rta X K) -> s <> [] -> ty <> T_EOF -> tsafe s ->
  trv gs -> l_rest l = gs ++ rta (s ++ X) K ->
  exists t l', lexes l [t] l' /\ t_type t = ty /\ t_lit t = lit /\ t_nl t = has_lf gs /\
               l_rest l' = rta X K /\ t_comments t = tcm gs.
Proof.
  intros L S Ns Ne Ts T Hl. rewrite rta_app, (rta_tsafe s _ Ts) in Hl.
  exact (lex1_gap_lexes_c s ty lit (rta X K) gs L S T Ns Ne l Hl).
Qed.

Lemma S_lex_c s ty lit g X K l :
  lex1 s ty lit (rta X K) -> tstart (s ++ rta X K) -> s <> [] -> ty <> T_EOF -> tsafe s ->
  isWhitespace (hd 0%N s) = false -> hd 0%N s <> 0%N ->
  wgap g -> l_rest l = rta (g ++ s ++ X) K ->
  exists t l', lexes l [t] l' /\ t_type t = ty /\ t_lit t = lit /\ (has_lf g = false -> t_nl t = false) /\
               l_rest l' = rta X K /\ t_comments t = tcm g.
Proof.
  intros L S Ns Ne Ts Hw Hz G Hl.
  destruct (gap_split_c g s X K _ G eq_refl Hw Hz) as (g' & E & T' & L' & _ & _ & _ & C').
  rewrite E, <- rta_app in Hl.
  destruct (S_lex0_c s ty lit g' X K l L S Ns Ne Ts T' Hl) as (t & l' & Lx & Ty & Li & Nl & R & C).
  exists t, l'. repeat split; try assumption; [|congruence]. intro H. rewrite Nl, L'. exact H.
Qed.

Lemma type_text_hd' ty s : type_text ty = Some s -> isWhitespace (hd 0%N s) = false /\ hd 0%N s <> 0%N.
Proof.
  unfold type_text.
  repeat match goal with
  | |- (if ty =? ?b then _ else _) = _ -> _ =>
      destruct (Z.eqb_spec ty b) as [->|_]; [intro H; inversion H; split; [reflexivity|discriminate]|]
  end; discriminate.
Qed.

Lemma P_punct_c ty s g X K l : type_text ty = Some s -> pbnd s (hd 0%N (rta X K)) -> wgap g ->
  l_rest l = rta (g ++ s ++ X) K ->
  exists t l', lexes l [t] l' /\ t_type t = ty /\ t_lit t = s /\ (has_lf g = false -> t_nl t = false) /\
               l_rest l' = rta X K /\ t_comments t = tcm g.
Proof.
  intros T P G Hl. destruct (lex1_punct _ _ (rta X K) T P) as [L _].
  destruct (type_text_hd' _ _ T) as [H1 H2].
  exact (S_lex_c s ty s g X K l L (type_text_tstart _ _ _ T P) (type_text_nonempty _ _ T) (type_text_not_eof _ _ T)
           (type_text_tsafe _ _ T) H1 H2 G Hl).
Qed.

Lemma P_punct0_c ty s gs X K l : type_text ty = Some s -> pbnd s (hd 0%N (rta X K)) -> trv gs ->
  l_rest l = gs ++ rta (s ++ X) K ->
  exists t l', lexes l [t] l' /\ t_type t = ty /\ t_lit t = s /\ t_nl t = has_lf gs /\
               l_rest l' = rta X K /\ t_comments t = tcm gs.
Proof.
  intros T P G Hl. destruct (lex1_punct _ _ (rta X K) T P) as [L _].
  exact (S_lex0_c s ty s gs X K l L (type_text_tstart _ _ _ T P) (type_text_nonempty _ _ T) (type_text_not_eof _ _ T)
           (type_text_tsafe _ _ T) G Hl).
Qed.

Lemma P_word0_c ty lit gs X K l :
  relex_word ty lit = true -> is_word_type ty = true -> ty <> T_INT -> ty <> T_FLOAT ->
  is_ident_char (hd 0%N (rta X K)) = false -> trv gs -> l_rest l = gs ++ rta (lit ++ X) K ->
  exists t l', lexes l [t] l' /\ t_type t = ty /\ t_lit t = lit /\ t_nl t = has_lf gs /\
               l_rest l' = rta X K /\ t_comments t = tcm gs.
Proof.
  intros H W NI NF HK G Hl.
  destruct (lex1_word _ _ (rta X K) H W NI NF HK) as (HL & L1 & _).
  destruct (word_chars _ _ H W NI NF) as [_ Ne].
  destruct (letter_facts _ HL) as (F1 & F2 & F3).
  assert (Nt : ty <> T_EOF) by (intro E; rewrite E in W; discriminate W).
  exact (S_lex0_c lit ty lit gs X K l L1 (tstart_ns lit _ _ eq_refl Ne F1 F2) Ne Nt
           (word_tsafe _ _ H W NI NF) G Hl).
Qed.

Lemma P_word_c ty lit g X K l :
  relex_word ty lit = true -> is_word_type ty = true -> ty <> T_INT -> ty <> T_FLOAT ->
  is_ident_char (hd 0%N (rta X K)) = false -> wgap g -> l_rest l = rta (g ++ lit ++ X) K ->
  exists t l', lexes l [t] l' /\ t_type t = ty /\ t_lit t = lit /\ (has_lf g = false -> t_nl t = false) /\
               l_rest l' = rta X K /\ t_comments t = tcm g.
Proof.
  intros H W NI NF HK G Hl.
  destruct (lex1_word _ _ (rta X K) H W NI NF HK) as (HL & L1 & _).
  destruct (word_chars _ _ H W NI NF) as [_ Ne].
  destruct (letter_facts _ HL) as (F1 & F2 & F3).
  assert (Nt : ty <> T_EOF) by (intro E; rewrite E in W; discriminate W).
  exact (S_lex_c lit ty lit g X K l L1 (tstart_ns lit _ _ eq_refl Ne F1 F2) Ne Nt
           (word_tsafe _ _ H W NI NF) F1 F3 G Hl).
Qed.

Lemma P_number0_c ty lit gs X K l :
  relex_word ty lit = true -> (ty = T_INT \/ ty = T_FLOAT) -> (ty = T_FLOAT -> go_float_ok lit = true) ->
  tsafe lit -> is_ident_char (hd 0%N (rta X K)) = false ->
  (hd 0%N (rta X K) = 46%N -> ty <> T_INT \/ forallb isDigit lit = false) ->
  trv gs -> l_rest l = gs ++ rta (lit ++ X) K ->
  exists t l', lexes l [t] l' /\ t_type t = ty /\ t_lit t = lit /\ t_nl t = has_lf gs /\
               l_rest l' = rta X K /\ t_comments t = tcm gs.
Proof.
  intros H Hty Hfl Ts KK K46 G Hl.
  destruct (lex1_number _ _ (rta X K) H Hty Hfl KK K46) as (HD & L1 & _).
  destruct (digit_facts _ HD) as (F1 & F2 & F3 & _).
  assert (Ne : lit <> []) by (intro E; rewrite E in HD; discriminate HD).
  assert (Nt : ty <> T_EOF) by (destruct Hty; subst ty; discriminate).
  exact (S_lex0_c lit ty lit gs X K l L1 (tstart_ns lit _ _ eq_refl Ne F1 F2) Ne Nt Ts G Hl).
Qed.

Lemma P_string0_c v gs X K l : relex_string v = true -> blank_eol_free v = true ->
  trv gs -> l_rest l = gs ++ rta ((34%N :: v ++ [34%N]) ++ X) K ->
  exists t l', lexes l [t] l' /\ t_type t = T_STRING /\ t_lit t = v /\ t_nl t = has_lf gs /\
               l_rest l' = rta X K /\ t_comments t = tcm gs.
Proof.
  intros H B G Hl. destruct (lex1_string v (rta X K) H) as [L1 _].
  exact (S_lex0_c _ T_STRING v gs X K l L1 (tstart_ns (34%N :: v ++ [34%N]) _ 34%N eq_refl ltac:(discriminate) eq_refl ltac:(discriminate))
           ltac:(discriminate) ltac:(discriminate) (tsafe_quoted 34 v ltac:(discriminate) ltac:(discriminate) B) G Hl).
Qed.

Lemma P_raw0_c v gs X K l : relex_raw v = true -> blank_eol_free v = true ->
  trv gs -> l_rest l = gs ++ rta ((96%N :: rep v ++ [96%N]) ++ X) K ->
  exists t l', lexes l [t] l' /\ t_type t = T_RAW_STRING /\ t_lit t = v /\ t_nl t = has_lf gs /\
               l_rest l' = rta X K /\ t_comments t = tcm gs.
Proof.
  intros H B G Hl. destruct (lex1_raw v (rta X K) H) as [L1 _].
  exact (S_lex0_c _ T_RAW_STRING v gs X K l L1 (tstart_ns (96%N :: rep v ++ [96%N]) _ 96%N eq_refl ltac:(discriminate) eq_refl ltac:(discriminate))
           ltac:(discriminate) ltac:(discriminate) (tsafe_quoted 96 (rep v) ltac:(discriminate) ltac:(discriminate) (bef_rep v B)) G Hl).
Qed.

(* trivia up to the end of the text: cleanEmptyLines does not change the trivia list *)
Lemma rta_end_c g : trv_end g -> tcm (rta g []) = tcm g.
Proof.
  induction 1 as [|c g W T IH|body g N T IH|body N].
  - reflexivity.
  - rewrite rta_cons, (tcm_ws c g W). destruct (N.eqb c 32) eqn:E.
    + apply N.eqb_eq in E. subst c. cbn [app]. change (N.eqb 32 LF) with false. cbn iota.
      destruct (rta g []) as [|d r] eqn:Q; [exact IH|].
      destruct (N.eqb d LF); [exact IH|]. rewrite (tcm_ws 32 _ eq_refl). exact IH.
    + rewrite (tcm_ws c _ W), IH. reflexivity.
  - change (47%N :: 47%N :: body ++ LF :: g) with ([47%N; 47%N] ++ body ++ LF :: g).
    rewrite !rta_app. cbn [rta]. change (N.eqb 47 32) with false. cbn iota. change (N.eqb LF 32) with false. cbn iota.
    rewrite (rta_line_lf body _ N). cbn [app].
    rewrite (tcm_cm _ _ (dwe_no_lf (N.eqb 32) body N)), (tcm_cm body g N), trim_dwe32, IH. reflexivity.
  - change (47%N :: 47%N :: body) with ([47%N; 47%N] ++ body). rewrite rta_app. cbn [rta].
    change (N.eqb 47 32) with false. cbn iota. rewrite (rta_line_end body N). cbn [app].
    rewrite (tcm_open _ (dwe_no_lf (N.eqb 32) body N)), (tcm_open body N), trim_dwe32. reflexivity.
Qed.

End TrivLex.
Import TrivLex.

Module TrivWr.

Section TrivWriter.
Variable indent : str.
Hypothesis indent_blank : blank_str indent.

Local Notation ind := (PrettyWr.ind indent).
Local Notation fl := (PrettyWr.fl indent).
Local Notation rc := (PrettyWr.rc indent).
Local Notation G := (PrettyWr.G indent).
Local Notation Gc := (PrettyWr.Gc indent).

(* one blank-line marker per pending line break *)
Definition lfs (pd : list N) : list str := flat_map (fun c => if N.eqb c LF then [[]] else []) pd.

Lemma tcm_ind lv : tcm (ind lv) = [].
Proof. apply tcm_allws; [apply ind_ws; exact indent_blank|apply ind_nolf; exact indent_blank]. Qed.

Lemma tcm_fl pd lv : pend_ok pd -> tcm (fl pd lv) = lfs pd.
Proof.
  induction 1 as [|c pd Hc Hp IH]; [reflexivity|].
  cbn [PrettyWr.fl flat_map lfs]. fold (fl pd lv). fold (lfs pd).
  destruct (N.eqb c TAB) eqn:E.
  - rewrite tcm_app by (apply trv_allws; apply ind_ws; exact indent_blank). rewrite tcm_ind, IH.
    apply N.eqb_eq in E. subst c. reflexivity.
  - destruct Hc as [Q | [Q | Q]]; subst c; [| discriminate E |].
    + cbn [app]. rewrite (tcm_ws LF _ eq_refl), IH. reflexivity.
    + cbn [app]. rewrite (tcm_ws 32 _ eq_refl), IH. reflexivity.
Qed.

Lemma lfs_add_tab pd : lfs (add_pend pd TAB) = lfs pd.
Proof.
  unfold add_pend. destruct (last_is pd TAB); [reflexivity|]. unfold lfs. rewrite flat_map_app. cbn [flat_map].
  change (N.eqb TAB LF) with false. cbn iota. rewrite !app_nil_r. reflexivity.
Qed.

Definition lc (c : str) : str := match c with [] => [] | _ :: _ => [47%N; 47%N] ++ c end.

Lemma tcm_line c rest : nolf c = true -> tcm (lc c ++ LF :: rest) = trim_right_spaces c :: tcm rest.
Proof.
  intro H. destruct c as [|c0 c'].
  - cbn [lc app]. rewrite (tcm_ws LF _ eq_refl). reflexivity.
  - unfold lc. rewrite <- app_assoc. cbn [app]. apply (tcm_cm (c0 :: c') rest H).
Qed.

Lemma render_cons i c cs : render_comments i false (c :: cs) = (LF :: i) ++ lc c ++ render_comments i false cs.
Proof. reflexivity. Qed.

Lemma tcm_lines i tail : forallb isWhitespace i = true -> has_lf i = false ->
  forall cs c, PrettyJ.NLF (c :: cs) ->
  tcm (lc c ++ render_comments i false cs ++ LF :: tail) = map trim_right_spaces (c :: cs) ++ tcm tail.
Proof.
  intros Wi Li. induction cs as [|d cs IH]; intros c F; inversion F as [|? ? Hc Hcs]; subst.
  - cbn [render_comments app map]. apply tcm_line. exact Hc.
  - rewrite render_cons, <- !app_assoc. cbn [app]. rewrite (tcm_line c _ Hc).
    rewrite tcm_app by (apply trv_allws; exact Wi). rewrite (tcm_allws i Wi Li). cbn [app].
    rewrite (IH d Hcs). reflexivity.
Qed.

Lemma rc_cons c cs lv : rc (c :: cs) lv = (match c with [] => [] | _ :: _ => [32%N] end) ++ lc c ++ render_comments (ind lv) false cs.
Proof. reflexivity. Qed.

Lemma tcm_rc cs lv tail : cs <> [] -> PrettyJ.NLF cs ->
  tcm (rc cs lv ++ LF :: tail) = map trim_right_spaces cs ++ tcm tail.
Proof.
  intros Ne F. destruct cs as [|c cs]; [congruence|]. rewrite rc_cons, <- !app_assoc.
  assert (E : tcm (lc c ++ render_comments (ind lv) false cs ++ LF :: tail) = map trim_right_spaces (c :: cs) ++ tcm tail).
  { apply tcm_lines; [apply ind_ws; exact indent_blank|apply ind_nolf; exact indent_blank|exact F]. }
  destruct c as [|c0 c']; [exact E|]. cbn [app]. rewrite (tcm_ws 32 _ eq_refl). exact E.
Qed.

Lemma map_trim_fix cs : TRM cs -> map trim_right_spaces cs = cs.
Proof. induction 1 as [|c cs Hc Hcs IH]; [reflexivity|]. cbn [map]. rewrite Hc, IH. reflexivity. Qed.

(* the trivia list read back from the gap in front of a token *)
Lemma tcm_G pd lv cs : pend_ok pd -> PrettyJ.NLF cs -> TRM cs ->
  tcm (G pd lv cs) = match cs with [] => lfs pd | _ :: _ => cs end.
Proof.
  intros Hp F R. unfold PrettyWr.G. destruct cs as [|c cs'] eqn:E; [apply tcm_fl; exact Hp|].
  rewrite tcm_rc by (try discriminate; exact F). rewrite tcm_ind, app_nil_r. apply map_trim_fix. exact R.
Qed.

Lemma tcm_Gc lv cs : PrettyJ.NLF cs -> TRM cs -> tcm (Gc lv cs) = cs.
Proof.
  intros F R. unfold PrettyWr.Gc. destruct cs as [|c cs'] eqn:E; [reflexivity|].
  rewrite tcm_rc by (try discriminate; exact F). rewrite tcm_ind, app_nil_r. apply map_trim_fix. exact R.
Qed.

(* ---------- TrimSpace at the start of the text: the first gap ---------- *)

Definition rc0 (i : str) (cs : list str) : str :=
  match cs with [] => [] | c :: cs' => lc c ++ render_comments i false cs' end.

Lemma dw_all s : forallb is_space_go s = true -> drop_while is_space_go s = [].
Proof.
  induction s as [|c s IH]; intro H; [reflexivity|]. cbn [forallb] in H. apply andb_true_iff in H as [Hc Hs].
  cbn [drop_while]. rewrite Hc. exact (IH Hs).
Qed.

Lemma dw_isp_app i X : forallb is_space_go i = true ->
  drop_while is_space_go (i ++ X) = drop_while is_space_go X.
Proof.
  induction i as [|c i IH]; intro H; [reflexivity|]. cbn [forallb] in H. apply andb_true_iff in H as [Hc Hs].
  cbn [app drop_while]. rewrite Hc. exact (IH Hs).
Qed.

Lemma lc_dw c X : c <> [] -> drop_while is_space_go (lc c ++ X) = lc c ++ X.
Proof. intro H. destruct c as [|c0 c']; [congruence|reflexivity]. Qed.

Lemma ws_all_space s : forallb isWhitespace s = true -> forallb is_space_go s = true.
Proof.
  intro H. apply forallb_forall. intros x Hx. apply ws_space. exact (proj1 (forallb_forall _ _) H x Hx).
Qed.

Lemma ind_space lv : forallb is_space_go (ind lv) = true.
Proof. apply ws_all_space. apply ind_ws. exact indent_blank. Qed.

Lemma dw_render i Z : forallb is_space_go i = true -> forall cs,
  drop_while is_space_go (render_comments i false cs ++ Z) =
  match drop_blank_items cs with [] => drop_while is_space_go Z | d :: ds => rc0 i (d :: ds) ++ Z end.
Proof.
  intros Hi. induction cs as [|d cs IH]; [reflexivity|].
  rewrite render_cons, <- !app_assoc.
  change ((LF :: i) ++ lc d ++ render_comments i false cs ++ Z) with (LF :: i ++ lc d ++ render_comments i false cs ++ Z).
  cbn [drop_while]. change (is_space_go LF) with true. cbn iota. rewrite (dw_isp_app i _ Hi).
  destruct d as [|d0 d'].
  - cbn [lc app drop_blank_items is_blank_item]. exact IH.
  - rewrite lc_dw by discriminate. cbn [drop_blank_items is_blank_item rc0]. rewrite <- app_assoc. reflexivity.
Qed.

Lemma dw_rc cs lv Z : cs <> [] ->
  drop_while is_space_go (rc cs lv ++ Z) =
  match drop_blank_items cs with [] => drop_while is_space_go Z | d :: ds => rc0 (ind lv) (d :: ds) ++ Z end.
Proof.
  intro Ne. destruct cs as [|c cs]; [congruence|]. rewrite rc_cons, <- !app_assoc.
  destruct c as [|c0 c'].
  - cbn [lc app drop_blank_items is_blank_item]. apply dw_render. apply ind_space.
  - cbn [app drop_while]. change (is_space_go 32) with true. cbn iota.
    rewrite lc_dw by discriminate. cbn [drop_blank_items is_blank_item rc0]. rewrite <- app_assoc. reflexivity.
Qed.

Lemma drop_blank_Forall (P : str -> Prop) cs : Forall P cs -> Forall P (drop_blank_items cs).
Proof.
  induction 1 as [|c cs Hc Hcs IH]; [constructor|]. cbn [drop_blank_items].
  destruct (is_blank_item c); [exact IH|constructor; assumption].
Qed.

Lemma tcm_rc0 i d ds tail : forallb isWhitespace i = true -> has_lf i = false -> PrettyJ.NLF (d :: ds) ->
  tcm (rc0 i (d :: ds) ++ LF :: tail) = map trim_right_spaces (d :: ds) ++ tcm tail.
Proof. intros Wi Li F. cbn [rc0]. rewrite <- app_assoc. apply tcm_lines; assumption. Qed.

Lemma fl_space pd lv : pend_ok pd -> forallb is_space_go (fl pd lv) = true.
Proof. intro H. apply ws_all_space. apply fl_ws; assumption. Qed.

Lemma tcm_dw_G pd lv cs sp : pend_ok pd -> PrettyJ.NLF cs -> TRM cs -> (sp = [] \/ sp = [32%N]) ->
  tcm (drop_while is_space_go (G pd lv cs ++ sp)) = drop_blank_items cs.
Proof.
  intros Hp F R Hsp.
  assert (Ssp : forallb is_space_go sp = true) by (destruct Hsp as [-> | ->]; reflexivity).
  assert (Tsp : tcm (ind lv ++ sp) = []).
  { rewrite tcm_app by (apply trv_allws; apply ind_ws; exact indent_blank). rewrite tcm_ind.
    destruct Hsp as [-> | ->]; reflexivity. }
  unfold PrettyWr.G. destruct cs as [|c cs'] eqn:E.
  - rewrite (dw_isp_app _ _ (fl_space pd lv Hp)), (dw_all _ Ssp). reflexivity.
  - rewrite <- E in *. rewrite <- app_assoc. rewrite dw_rc by (rewrite E; discriminate).
    pose proof (drop_blank_Forall _ _ F) as Fd. pose proof (drop_blank_Forall _ _ R) as Rd.
    destruct (drop_blank_items cs) as [|d ds].
    + cbn [app drop_while]. change (is_space_go LF) with true. cbn iota.
      rewrite (dw_isp_app _ _ (ind_space lv)), (dw_all _ Ssp). reflexivity.
    + change ((LF :: ind lv) ++ sp) with (LF :: ind lv ++ sp).
      rewrite tcm_rc0; [|apply ind_ws; exact indent_blank|apply ind_nolf; exact indent_blank|exact Fd].
      rewrite Tsp, app_nil_r. apply map_trim_fix. exact Rd.
Qed.

(* ---------- TrimSpace at the end of the text: the trivia of the end of input ---------- *)

(* a trivia list without the blank-line markers at its end *)
Definition tb (l : list str) : list str := rev (drop_blank_items (rev l)).

Lemma drop_blank_snoc a c : drop_blank_items (a ++ [c]) =
  match drop_blank_items a with [] => if is_blank_item c then [] else [c] | x :: r => (x :: r) ++ [c] end.
Proof.
  induction a as [|x a IH]; cbn [app drop_blank_items]; [destruct (is_blank_item c); reflexivity|].
  destruct (is_blank_item x); [exact IH|reflexivity].
Qed.

Lemma tb_cons c cs : tb (c :: cs) =
  match tb cs with [] => if is_blank_item c then [] else [c] | x :: r => c :: x :: r end.
Proof.
  unfold tb. cbn [rev]. rewrite drop_blank_snoc.
  destruct (drop_blank_items (rev cs)) as [|x r] eqn:E.
  - cbn [rev]. destruct (is_blank_item c); reflexivity.
  - rewrite rev_app_distr. cbn [rev app].
    destruct (rev r ++ [x]) as [|y q] eqn:Q; [destruct (rev r); discriminate Q|reflexivity].
Qed.

Lemma dwe_lc c : trim_right_spaces c = c -> dwe is_space_go (lc c) = lc c.
Proof.
  intro H. destruct c as [|c0 c']; [reflexivity|].
  apply dwe_last; [discriminate|].
  change (lc (c0 :: c')) with ([47%N; 47%N] ++ c0 :: c'). rewrite last_app_ne by discriminate.
  apply trim_fix_last; [exact H|discriminate].
Qed.

Lemma tcm_dwe_lines i : forallb isWhitespace i = true -> has_lf i = false ->
  forall cs c, PrettyJ.NLF (c :: cs) -> TRM (c :: cs) ->
  tcm (dwe is_space_go (lc c ++ render_comments i false cs)) = tb (c :: cs) /\
  (tb (c :: cs) = [] -> dwe is_space_go (lc c ++ render_comments i false cs) = []).
Proof.
  intros Wi Li. induction cs as [|d cs IH]; intros c F R;
    inversion F as [|? ? Fc Fcs]; inversion R as [|? ? Rc Rcs]; subst.
  - cbn [render_comments]. rewrite app_nil_r, (dwe_lc c Rc), tb_cons. cbn [tb rev drop_blank_items].
    destruct c as [|c0 c']; [split; reflexivity|]. cbn [is_blank_item]. split; [|discriminate].
    cbn [lc app]. rewrite (tcm_open _ Fc), Rc. reflexivity.
  - destruct (IH d Fcs Rcs) as [IH1 IH2].
    rewrite render_cons, tb_cons.
    set (E := dwe is_space_go (lc d ++ render_comments i false cs)) in *.
    assert (Q : dwe is_space_go (lc c ++ (LF :: i) ++ lc d ++ render_comments i false cs) =
                match E with [] => lc c | _ :: _ => lc c ++ (LF :: i) ++ E end).
    { rewrite dwe_app. rewrite (dwe_app is_space_go (LF :: i)). fold E.
      destruct E as [|x r] eqn:EE.
      - rewrite (dwe_all is_space_go (LF :: i)) by (cbn [forallb]; rewrite (ws_all_space i Wi); reflexivity).
        apply dwe_lc. exact Rc.
      - reflexivity. }
    rewrite Q. destruct E as [|x r] eqn:EE.
    + assert (T0 : tb (d :: cs) = []) by (rewrite <- IH1; reflexivity). rewrite T0.
      destruct c as [|c0 c']; [split; reflexivity|]. cbn [is_blank_item]. split; [|discriminate].
      cbn [lc app]. rewrite (tcm_open _ Fc), Rc. reflexivity.
    + destruct (tb (d :: cs)) as [|y q] eqn:T0; [discriminate (IH2 eq_refl)|].
      split; [|discriminate].
      change (lc c ++ (LF :: i) ++ x :: r) with (lc c ++ LF :: i ++ x :: r).
      rewrite (tcm_line c _ Fc), Rc. rewrite tcm_app by (apply trv_allws; exact Wi).
      rewrite (tcm_allws i Wi Li). cbn [app]. rewrite IH1. reflexivity.
Qed.

Lemma tcm_dwe_rc0 lv ds : PrettyJ.NLF ds -> TRM ds ->
  tcm (dwe is_space_go (rc0 (ind lv) ds)) = tb ds.
Proof.
  intros F R. destruct ds as [|d ds]; [reflexivity|]. cbn [rc0].
  apply tcm_dwe_lines; [apply ind_ws; exact indent_blank|apply ind_nolf; exact indent_blank|exact F|exact R].
Qed.

Lemma tcm_dwe_rc ce lv : ce <> [] -> PrettyJ.NLF ce -> TRM ce ->
  tcm (dwe is_space_go (rc ce lv)) = tb ce.
Proof.
  intros Ne F R. destruct ce as [|c cs]; [congruence|]. rewrite rc_cons.
  pose proof (tcm_dwe_rc0 lv (c :: cs) F R) as Q. cbn [rc0] in Q.
  destruct c as [|c0 c']; [exact Q|].
  rewrite dwe_app. destruct (dwe is_space_go (lc (c0 :: c') ++ render_comments (ind lv) false cs)) as [|x r] eqn:E.
  - rewrite <- Q. reflexivity.
  - rewrite <- Q. cbn [app]. rewrite (tcm_ws 32 _ eq_refl). reflexivity.
Qed.

Lemma tcm_dwe_dw_rc ce lv : ce <> [] -> PrettyJ.NLF ce -> TRM ce ->
  tcm (dwe is_space_go (drop_while is_space_go (rc ce lv))) = tb (drop_blank_items ce).
Proof.
  intros Ne F R. rewrite <- (app_nil_r (rc ce lv)), (dw_rc ce lv [] Ne).
  pose proof (drop_blank_Forall _ _ F) as Fd. pose proof (drop_blank_Forall _ _ R) as Rd.
  destruct (drop_blank_items ce) as [|d ds]; [reflexivity|].
  rewrite app_nil_r. apply tcm_dwe_rc0; assumption.
Qed.

(* ---------- the text level: TrimSpace at the end ---------- *)

Lemma rc0_nil_inv i l : rc0 i l = [] -> l = [[]] \/ l = [].
Proof.
  destruct l as [|c l']; [auto|]. cbn [rc0]. intro H. apply app_eq_nil in H as [H1 H2].
  destruct c; [|discriminate H1]. destruct l'; [auto|discriminate H2].
Qed.

Lemma tb_tb l : tb (tb l) = tb l.
Proof.
  unfold tb. rewrite rev_involutive. f_equal.
  generalize (rev l). intro x. induction x as [|c x IH]; [reflexivity|]. cbn [drop_blank_items].
  destruct (is_blank_item c) eqn:E; [exact IH|]. cbn [drop_blank_items]. rewrite E. reflexivity.
Qed.

Lemma dwe_rc0 i : forallb isWhitespace i = true ->
  forall cs c, TRM (c :: cs) -> dwe is_space_go (rc0 i (c :: cs)) = rc0 i (tb (c :: cs)).
Proof.
  intros Wi. induction cs as [|d cs IH]; intros c R; inversion R as [|? ? Rc Rcs]; subst.
  - cbn [rc0 render_comments]. rewrite app_nil_r, (dwe_lc c Rc), tb_cons. cbn [tb rev drop_blank_items].
    destruct c as [|c0 c']; [reflexivity|]. cbn [is_blank_item rc0 render_comments]. rewrite app_nil_r. reflexivity.
  - specialize (IH d Rcs). cbn [rc0] in IH |- *. rewrite render_cons, tb_cons.
    rewrite dwe_app, (dwe_app is_space_go (LF :: i)), IH.
    destruct (tb (d :: cs)) as [|x r] eqn:T.
    + cbn [rc0]. rewrite (dwe_all is_space_go (LF :: i)) by (cbn [forallb]; rewrite (ws_all_space i Wi); reflexivity).
      rewrite (dwe_lc c Rc). destruct c as [|c0 c']; [reflexivity|]. cbn [is_blank_item rc0 render_comments].
      rewrite app_nil_r. reflexivity.
    + assert (Ne : rc0 i (x :: r) <> []).
      { intro E. destruct (rc0_nil_inv _ _ E) as [Q|Q]; [|discriminate Q]. injection Q as -> ->.
        (* tb never ends in a blank item *)
        pose proof (tb_tb (d :: cs)) as Q. rewrite T in Q. discriminate Q. }
      destruct (rc0 i (x :: r)) as [|y q] eqn:E0; [congruence|]. cbn [rc0]. rewrite render_cons, <- E0. reflexivity.
Qed.

Lemma dwe_rc0_all i l : forallb isWhitespace i = true -> TRM l -> dwe is_space_go (rc0 i l) = rc0 i (tb l).
Proof. intros Wi R. destruct l as [|c cs]; [reflexivity|]. apply dwe_rc0; assumption. Qed.

Lemma tb_hd c cs x r : tb (c :: cs) = x :: r -> x = c.
Proof. rewrite tb_cons. destruct (tb cs); [destruct (is_blank_item c); [discriminate|]|]; intro H; injection H as <- _; reflexivity. Qed.

Lemma TRM_tb l : TRM l -> TRM (tb l).
Proof.
  intro R. unfold tb. apply Forall_rev. apply drop_blank_Forall. apply Forall_rev. exact R.
Qed.

(* the trailing comment items as text, after TrimSpace: those of the trimmed list *)
Lemma dwe_rc_tb ce lv : TRM ce ->
  dwe is_space_go (match ce with [] => [] | _ :: _ => rc ce lv end) =
  dwe is_space_go (match tb ce with [] => [] | _ :: _ => rc (tb ce) lv end).
Proof.
  intro R. pose proof (ind_ws indent indent_blank lv) as Wi.
  destruct ce as [|c cs]; [reflexivity|].
  pose proof (dwe_rc0 (ind lv) Wi cs c R) as Q.
  pose proof (dwe_rc0_all (ind lv) (tb (c :: cs)) Wi (TRM_tb _ R)) as Q2. rewrite tb_tb in Q2.
  rewrite rc_cons. change (lc c ++ render_comments (ind lv) false cs) with (rc0 (ind lv) (c :: cs)).
  rewrite dwe_app, Q.
  destruct (tb (c :: cs)) as [|x r] eqn:T.
  - cbn [rc0]. destruct c; reflexivity.
  - pose proof (tb_hd _ _ _ _ T) as ->.
    rewrite rc_cons. change (lc c ++ render_comments (ind lv) false r) with (rc0 (ind lv) (c :: r)).
    rewrite dwe_app, Q2. destruct (rc0 (ind lv) (c :: r)); reflexivity.
Qed.

(* ---------- the writer does not look at the start of its buffer ---------- *)

(* two buffer prefixes the fusion check cannot tell apart *)
Definition Ieq (b1 b2 : str) : Prop := forall t op, spf op (b1 ++ t) = spf op (b2 ++ t).

(* empty, or ending in a line break *)
Definition eb (b : str) : Prop := b = [] \/ exists b', b = b' ++ [LF].

Lemma spf_eb b t op : eb b ->
  spf op (b ++ t) =
  match op, rev t with
  | c :: _, y :: r =>
      if ((N.eqb c 43 || N.eqb c 45) && N.eqb y c)
         || (str_eqb op [45; 45]%N && match r with x :: _ => N.eqb 33 y && N.eqb 60 x | [] => false end)
      then [32%N] else []
  | _, _ => []
  end.
Proof.
  intro Hb. unfold spf, has_suffix. rewrite rev_app_distr. cbn [rev app].
  destruct op as [|c op']; [reflexivity|].
  destruct (rev t) as [|y [|x r]] eqn:E; cbn [app].
  - destruct Hb as [-> | [b' ->]]; [reflexivity|]. rewrite rev_app_distr. cbn [rev app has_suffix_rev].
    change (N.eqb 33 LF) with false. cbn [andb]. rewrite andb_false_r, orb_false_r.
    destruct (N.eqb_spec LF c) as [<-|Ne]; [reflexivity|rewrite andb_false_r; reflexivity].
  - cbn [has_suffix_rev]. destruct Hb as [-> | [b' ->]].
    + cbn [rev has_suffix_rev]. rewrite andb_false_r. reflexivity.
    + rewrite rev_app_distr. cbn [rev app has_suffix_rev]. change (N.eqb 60 LF) with false. cbn [andb]. rewrite andb_false_r. reflexivity.
  - cbn [app has_suffix_rev]. replace (has_suffix_rev (r ++ rev b) []) with true by (destruct (r ++ rev b); reflexivity). rewrite andb_true_r. reflexivity.
Qed.

Lemma Ieq_eb b1 b2 : eb b1 -> eb b2 -> Ieq b1 b2.
Proof. intros H1 H2 t op. rewrite (spf_eb b1 t op H1), (spf_eb b2 t op H2). reflexivity. Qed.

Definition wst (b t : str) (pd : list N) (lv : Z) (mp : SourceMap.mapper) (pn : bool) : wstate :=
  mkwstate (b ++ t) pd lv mp pn.

Lemma sim_step b1 b2 : Ieq b1 b2 -> forall o t pd lv mp pn,
  exists t' pd' lv' pn', forall b, (b = b1 \/ b = b2) ->
    wstep (PrettyWr.pc indent) (wst b t pd lv mp pn) o = wst b t' pd' lv' mp pn'.
Proof.
  intros HI o t pd lv mp pn. destruct pn.
  { exists t, pd, lv, true. intros b _. reflexivity. }
  assert (P : forall b, wst b t pd lv mp false = ps (b ++ t) pd lv mp) by reflexivity.
  destruct o.
  - exists (t ++ fl pd lv ++ s), [], lv, false. intros b _. rewrite P, pt_string. unfold wst, ps. rewrite <- app_assoc. reflexivity.
  - exists (t ++ fl pd lv ++ [c]), [], lv, false. intros b _. rewrite P, pt_rune. unfold wst, ps. rewrite <- app_assoc. reflexivity.
  - exists (t ++ fl pd lv ++ [59%N]), [], lv, false. intros b _. rewrite P, pt_semi. unfold wst, ps. rewrite <- app_assoc. reflexivity.
  - exists t, (add_pend pd 32), lv, false. intros b _. rewrite P, pt_space. reflexivity.
  - exists t, [LF], lv, false. intros b _. rewrite P, pt_newline. reflexivity.
  - exists t, (add_pend pd TAB), lv, false. intros b _. rewrite P, pt_indent. reflexivity.
  - exists t, pd, (lv + 1), false. intros b _. rewrite P, pt_inc. reflexivity.
  - exists t, pd, (if 0 <? lv then lv - 1 else lv), false. intros b _. unfold wst, wstep.
    cbn [w_panic PrettyWr.pc w_pretty negb w_level]. destruct (0 <? lv); reflexivity.
  - destruct cs as [|c0 cs'].
    + exists t, pd, lv, false. intros b _. rewrite P, pt_comments_nil. reflexivity.
    + exists (t ++ rc (c0 :: cs') lv), [LF; TAB], lv, false. intros b _. rewrite P, pt_comments by discriminate.
      unfold wst, ps. rewrite <- app_assoc. reflexivity.
  - exists (t ++ fl pd lv), [], lv, false. intros b _. rewrite P, pt_mapping. unfold wst, ps. rewrite <- app_assoc. reflexivity.
  - exists (t ++ fl pd lv), [], lv, false. intros b _. rewrite P, pt_named. unfold wst, ps. rewrite <- app_assoc. reflexivity.
  - exists ((t ++ fl pd lv) ++ spf op (b1 ++ t ++ fl pd lv)), [], lv, false. intros b Hb. rewrite P, pt_fusion.
    unfold wst, ps. rewrite <- !app_assoc.
    destruct Hb as [-> | ->]; [reflexivity|]. rewrite (HI (t ++ fl pd lv) op). reflexivity.
  - exists t, pd, lv, true. intros b _. reflexivity.
Qed.

Lemma sim_run b1 b2 : Ieq b1 b2 -> forall ops t pd lv mp pn,
  exists t' pd' lv' pn', forall b, (b = b1 \/ b = b2) ->
    fold_left (wstep (PrettyWr.pc indent)) ops (wst b t pd lv mp pn) = wst b t' pd' lv' mp pn'.
Proof.
  intros HI. induction ops as [|o ops IH]; intros t pd lv mp pn.
  - exists t, pd, lv, pn. intros b _. reflexivity.
  - destruct (sim_step b1 b2 HI o t pd lv mp pn) as (t1 & pd1 & lv1 & pn1 & H1).
    destruct (IH t1 pd1 lv1 mp pn1) as (t2 & pd2 & lv2 & pn2 & H2).
    exists t2, pd2, lv2, pn2. intros b Hb. cbn [fold_left]. rewrite (H1 b Hb). apply (H2 b Hb).
Qed.

End TrivWriter.
End TrivWr.
Import TrivWr.

(* ================================================================== *)
(* boundary trivia: equations                                          *)
(* ================================================================== *)

Module TrivBnd.

Definition nb (l : list (list str)) : list (list str) := map own_line l.

Lemma nb_app a b : nb (a ++ b) = nb a ++ nb b.
Proof. apply map_app. Qed.
Lemma nb_nil : nb [] = []. Proof. reflexivity. Qed.
Lemma nb_cons x l : nb (x :: l) = own_line x :: nb l. Proof. reflexivity. Qed.

Definition bnd_exprs (es : list expr) : list (list str) := flat_map bnd_expr es.
Definition bnd_props (ps0 : list (expr * expr)) : list (list str) :=
  flat_map (fun kv => bnd_expr (fst kv) ++ bnd_expr (snd kv)) ps0.

Lemma bnd_call t f args : bnd_expr (ECall t f args) = bnd_expr f ++ bnd_exprs args.
Proof.
  reflexivity.
Qed.

Lemma bnd_array t es rb : bnd_expr (EArray t es rb) = bnd_exprs es.
Proof.
  reflexivity.
Qed.

Lemma bnd_object t gl rb : bnd_expr (EObject t gl rb) = bnd_props gl.
Proof.
  simpl. induction gl as [|[k v] gl IH]; [reflexivity|].
  cbn [bnd_props flat_map fst snd]. rewrite <- app_assoc. f_equal. f_equal. exact IH.
Qed.

Lemma bnd_block t ss rb : bnd_stmt (SBlock t ss rb) = bnd_stmts ss ++ [t_comments rb].
Proof.
  reflexivity.
Qed.

Lemma bnd_exprs_cons e es : bnd_exprs (e :: es) = bnd_expr e ++ bnd_exprs es. Proof. reflexivity. Qed.
Lemma bnd_props_cons k v gl : bnd_props ((k, v) :: gl) = bnd_expr k ++ bnd_expr v ++ bnd_props gl.
Proof. cbn [bnd_props flat_map fst snd]. rewrite <- app_assoc. reflexivity. Qed.

Lemma bnd_binary t l op r : bnd_expr (EBinary t l op r) = bnd_expr l ++ bnd_expr r. Proof. reflexivity. Qed.
Lemma bnd_assign t l v : bnd_expr (EAssign t l v) = bnd_expr l ++ bnd_expr v. Proof. reflexivity. Qed.
Lemma bnd_compound t l op v : bnd_expr (ECompound t l op v) = bnd_expr l ++ bnd_expr v. Proof. reflexivity. Qed.
Lemma bnd_member t o p c : bnd_expr (EMember t o p c) = bnd_expr o ++ bnd_expr p. Proof. reflexivity. Qed.
Lemma bnd_unary t op r : bnd_expr (EUnary t op r) = bnd_expr r. Proof. reflexivity. Qed.
Lemma bnd_postfix t l op : bnd_expr (EPostfix t l op) = bnd_expr l. Proof. reflexivity. Qed.
Lemma bnd_group t e rp : bnd_expr (EGroup t e rp) = bnd_expr e. Proof. reflexivity. Qed.
Lemma bnd_let t n v : bnd_expr (ELet t n v) = bnd_expr v. Proof. reflexivity. Qed.
Lemma bnd_func t n ps0 b : bnd_expr (EFunc t n ps0 b) = bnd_stmt b. Proof. reflexivity. Qed.
Lemma bnd_slet t n v : bnd_stmt (SLet t n v) = bnd_expr v. Proof. reflexivity. Qed.
Lemma bnd_sreturn t v : bnd_stmt (SReturn t v) = bnd_expr v. Proof. reflexivity. Qed.
Lemma bnd_sexpr e : bnd_stmt (SExpr e) = bnd_expr e. Proof. reflexivity. Qed.
Lemma bnd_sfunc t n ps0 b : bnd_stmt (SFunc t n ps0 b) = bnd_stmt b. Proof. reflexivity. Qed.
Lemma bnd_sif t c a b : bnd_stmt (SIf t c a b) = bnd_expr c ++ bnd_stmt a ++ bnd_stmt b. Proof. reflexivity. Qed.
Lemma bnd_swhile t c b : bnd_stmt (SWhile t c b) = bnd_expr c ++ bnd_stmt b. Proof. reflexivity. Qed.
Lemma bnd_sfor t i c u b : bnd_stmt (SFor t i c u b) = bnd_expr i ++ bnd_expr c ++ bnd_expr u ++ bnd_stmt b. Proof. reflexivity. Qed.

Lemma bnd_enil_shape e' e : shape_expr e' = shape_expr e -> is_enil e = true -> bnd_expr e' = bnd_expr e.
Proof. intros S H. destruct e; try discriminate H. destruct e'; try discriminate S. reflexivity. Qed.

End TrivBnd.
Import TrivBnd.

(* ================================================================== *)
(* what [norm_boundaries] identifies                                   *)
(* ================================================================== *)

Module TrivNorm.

Definition nbh (x : list str) : bool := match x with [] => true | c :: _ => negb (is_blank_item c) end.

Lemma drop_blank_nbh x : nbh (drop_blank_items x) = true.
Proof.
  induction x as [|c x IH]; [reflexivity|]. cbn [drop_blank_items].
  destruct (is_blank_item c) eqn:E; [exact IH|]. cbn [nbh]. rewrite E. reflexivity.
Qed.

Lemma drop_blank_fix x : nbh x = true -> drop_blank_items x = x.
Proof. destruct x as [|c x]; [reflexivity|]. cbn [nbh drop_blank_items]. destruct (is_blank_item c); [discriminate|reflexivity]. Qed.

Lemma drop_blank_idem x : drop_blank_items (drop_blank_items x) = drop_blank_items x.
Proof. apply drop_blank_fix. apply drop_blank_nbh. Qed.

Lemma tb_idem x : tb (tb x) = tb x.
Proof. unfold tb. rewrite rev_involutive, drop_blank_idem. reflexivity. Qed.

Lemma tb_nbh d : nbh d = true -> nbh (tb d) = true.
Proof.
  destruct d as [|c d']; [reflexivity|]. cbn [nbh]. intro H. rewrite tb_cons.
  destruct (tb d'); [destruct (is_blank_item c) eqn:E; [discriminate H|cbn [nbh]; rewrite E; reflexivity]|cbn [nbh]; exact H].
Qed.

Lemma trim_last_tb x : trim_last x = own_line (tb x).
Proof. reflexivity. Qed.

Lemma trim_first_drop x : trim_first (drop_blank_items x) = trim_first x.
Proof. unfold trim_first. rewrite drop_blank_idem. reflexivity. Qed.

Lemma trim_last_of_tb x : trim_last (tb x) = trim_last x.
Proof. rewrite !trim_last_tb, tb_idem. reflexivity. Qed.

Lemma own_line_trims a b : own_line a = own_line b -> trim_last a = trim_last b.
Proof.
  intro H. destruct a as [|x a], b as [|y b]; cbn [own_line] in H; try reflexivity; try (rewrite H; reflexivity).
  - rewrite <- H. reflexivity.
Qed.

(* both ends at once: the program without statements *)
Lemma trim_both x : trim_last (trim_first (tb (drop_blank_items x))) = trim_last (trim_first x).
Proof.
  unfold trim_first at 2. set (d := drop_blank_items x).
  assert (Hd : nbh d = true) by apply drop_blank_nbh.
  unfold trim_first. rewrite (drop_blank_fix _ (tb_nbh d Hd)).
  destruct d as [|c d'] eqn:E; [reflexivity|]. rewrite <- E in *.
  assert (O : own_line d = d) by (rewrite E; reflexivity). rewrite O.
  destruct (tb d) as [|y q] eqn:T.
  - rewrite (trim_last_tb d), T. reflexivity.
  - cbn [own_line]. rewrite <- T. apply trim_last_of_tb.
Qed.

Lemma norm_middle_snoc l e : norm_middle (l ++ [e]) = nb l ++ [trim_last e].
Proof.
  induction l as [|x l IH]; [reflexivity|]. cbn [app]. 
  destruct (l ++ [e]) as [|y q] eqn:Q; [destruct l; discriminate Q|].
  change (norm_middle (x :: y :: q)) with (own_line x :: norm_middle (y :: q)). rewrite IH. reflexivity.
Qed.

Lemma norm_boundaries_two x l e : norm_boundaries (x :: l ++ [e]) = trim_first x :: nb l ++ [trim_last e].
Proof.
  destruct (l ++ [e]) as [|y q] eqn:Q; [destruct l; discriminate Q|].
  change (norm_boundaries (x :: y :: q)) with (trim_first x :: norm_middle (y :: q)). f_equal. rewrite <- Q. apply norm_middle_snoc.
Qed.

End TrivNorm.
Import TrivNorm.

Module TrivJ.
(* PrettyJ.v -- the per-construct invariant of the pretty round trip *)

Section TrivJ.
Variable indent : str.
Hypothesis indent_blank : blank_str indent.

Local Notation pc := (PrettyWr.pc indent).
Local Notation prun := (PrettyWr.prun indent).
Local Notation ind := (PrettyWr.ind indent).
Local Notation fl := (PrettyWr.fl indent).
Local Notation rc := (PrettyWr.rc indent).
Local Notation G := (PrettyWr.G indent).
Local Notation Gc := (PrettyWr.Gc indent).

(* no line break inside an item, and every item is trimmed (what the lexer produces) *)
Definition NLF (cs : list str) : Prop := PrettyJ.NLF cs /\ TRM cs.

Lemma G_gap : blank_str indent -> forall pd lv cs, pend_ok pd -> NLF cs -> wgap (G pd lv cs).
Proof. intros Hb pd lv cs Hp [Hc _]. exact (PrettyWr.G_gap indent Hb pd lv cs Hp Hc). Qed.
Lemma Gc_gap : blank_str indent -> forall lv cs, NLF cs -> wgap (Gc lv cs).
Proof. intros Hb lv cs [Hc _]. exact (PrettyWr.Gc_gap indent Hb lv cs Hc). Qed.

(* the trivia list read back from the gap in front of the first token of a construct whose
   first token carries [lead]: the list itself, or one blank-line marker per pending line break *)
Definition GL (pd : list N) (g : str) (lead : list str) : Prop :=
  tcm g = match lead with [] => lfs pd | _ :: _ => lead end /\
  tcm (drop_while is_space_go g) = drop_blank_items lead.

Lemma GL_G_sp pd lv cs sp : pend_ok pd -> NLF cs -> (sp = [] \/ sp = [32%N]) -> GL pd (G pd lv cs ++ sp) cs.
Proof.
  intros Hp [Hc Hr] Hsp. split.
  - rewrite tcm_app by (apply (PrettyWr.G_gap indent indent_blank pd lv cs Hp Hc)).
    rewrite (tcm_G indent indent_blank pd lv cs Hp Hc Hr).
    destruct Hsp as [-> | ->]; cbn [tcm tcm_aux]; rewrite app_nil_r; destruct cs; reflexivity.
  - exact (tcm_dw_G indent indent_blank pd lv cs sp Hp Hc Hr Hsp).
Qed.

Lemma GL_G pd lv cs : pend_ok pd -> NLF cs -> GL pd (G pd lv cs) cs.
Proof. intros Hp Hc. rewrite <- (app_nil_r (G pd lv cs)). apply GL_G_sp; [exact Hp|exact Hc|left; reflexivity]. Qed.

Lemma tcm_Gc' lv cs : NLF cs -> tcm (Gc lv cs) = cs.
Proof. intros [Hc Hr]. exact (tcm_Gc indent indent_blank lv cs Hc Hr). Qed.

Lemma tcm_G' pd lv cs : pend_ok pd -> NLF cs -> tcm (G pd lv cs) = match cs with [] => lfs pd | _ :: _ => cs end.
Proof. intros Hp [Hc Hr]. exact (tcm_G indent indent_blank pd lv cs Hp Hc Hr). Qed.

(* the first token of the re-lexed expression carries the trivia list [cm]; the boundary trivia inside *)

(* ---------- printing the re-lexed tree again ---------- *)

(* a pending layout whose text is reproduced when the blank-line markers read back from it are
   written as leading comments *)
Definition ST (pd : list N) (lv : Z) : Prop := G pd lv (lfs pd) = fl pd lv.

Lemma ST_nolf pd lv : lfs pd = [] -> ST pd lv.
Proof. intro H. unfold ST. rewrite H. reflexivity. Qed.
Lemma ST_nil lv : ST [] lv. Proof. apply ST_nolf. reflexivity. Qed.
Lemma ST_sp lv : ST [32%N] lv. Proof. apply ST_nolf. reflexivity. Qed.
Lemma ST_lftab lv : ST [LF; TAB] lv.
Proof. unfold ST. rewrite fl_lftab. reflexivity. Qed.

Definition GF (pd : list N) (lv : Z) (g : str) (lead : list str) : Prop :=
  ST pd lv -> G pd lv (tcm g) = G pd lv lead.

Lemma GF_G_sp pd lv cs sp : pend_ok pd -> NLF cs -> (sp = [] \/ sp = [32%N]) -> GF pd lv (G pd lv cs ++ sp) cs.
Proof.
  intros Hp Hc Hsp S. destruct (GL_G_sp pd lv cs sp Hp Hc Hsp) as [E _]. rewrite E.
  destruct cs; [exact S|reflexivity].
Qed.

Lemma GF_G pd lv cs : pend_ok pd -> NLF cs -> GF pd lv (G pd lv cs) cs.
Proof. intros Hp Hc. rewrite <- (app_nil_r (G pd lv cs)). apply GF_G_sp; [exact Hp|exact Hc|left; reflexivity]. Qed.

(* operations that start by flushing the pending layout *)
Definition FF (lv : Z) (rest : list wop) : Prop :=
  forall B pd mp, prun (ps B pd lv mp) rest = prun (ps (B ++ fl pd lv) [] lv mp) rest.

Lemma FF_mapping lv p r : FF lv (WMapping p :: r).
Proof. intros B pd mp. rewrite !(PrettyWr.prun_cons indent), !pt_mapping, fl_nil, app_nil_r. reflexivity. Qed.
Lemma FF_named lv x y n r : FF lv (WNamedMapping x y n :: r).
Proof. intros B pd mp. rewrite !(PrettyWr.prun_cons indent), !pt_named, fl_nil, app_nil_r. reflexivity. Qed.
Lemma FF_fusion lv op r : FF lv (WAvoidFusion op :: r).
Proof. intros B pd mp. rewrite !(PrettyWr.prun_cons indent), !pt_fusion, fl_nil, !app_nil_r. reflexivity. Qed.
Lemma FF_app lv r x : FF lv r -> FF lv (r ++ x).
Proof. intros H B pd mp. rewrite !(PrettyWr.prun_app indent), H. reflexivity. Qed.

Definition nop (o : wop) : Prop := o = WComments [].

Lemma prun_nops pre : Forall nop pre -> forall B pd lv mp, prun (ps B pd lv mp) pre = ps B pd lv mp.
Proof.
  induction 1 as [|o pre Ho Hp IH]; intros B pd lv mp; [reflexivity|].
  rewrite (PrettyWr.prun_cons indent). unfold nop in Ho. subst o. rewrite pt_comments_nil. apply IH.
Qed.

(* the operations of the re-lexed tree: leading comments [cm], then operations which, run behind the
   gap [g0] of the source tree, write the same text *)
Inductive WX (ops' : list wop) (cm : list str) (b : str) (lv : Z) (g0 g body : str) : Prop :=
| WX_intro pre rest :
    ops' = pre ++ WComments cm :: rest -> Forall nop pre -> FF lv rest ->
    (forall mp2, prun (ps (b ++ g0) [] lv mp2) rest = ps (b ++ g ++ body) [] lv mp2) ->
    WX ops' cm b lv g0 g body.

Lemma WX_run ops' cm b lv g0 g body : WX ops' cm b lv g0 g body ->
  forall pd2 mp2, G pd2 lv cm = g0 -> prun (ps b pd2 lv mp2) ops' = ps (b ++ g ++ body) [] lv mp2.
Proof.
  intros [pre rest E Hp Hf Hr] pd2 mp2 HG. subst ops'.
  rewrite (PrettyWr.prun_app indent), (prun_nops pre Hp), (PrettyWr.prun_cons indent).
  destruct cm as [|c cm'].
  - rewrite pt_comments_nil, Hf. unfold PrettyWr.G in HG. rewrite HG. apply Hr.
  - rewrite pt_comments by discriminate. rewrite Hf, fl_lftab, <- app_assoc.
    unfold PrettyWr.G in HG. rewrite HG. apply Hr.
Qed.

Lemma WX_lead ops' cm b lv g0 g body rest : ops' = WComments cm :: rest -> FF lv rest ->
  (forall mp2, prun (ps (b ++ g0) [] lv mp2) rest = ps (b ++ g ++ body) [] lv mp2) ->
  WX ops' cm b lv g0 g body.
Proof. intros E Hf Hr. apply (WX_intro _ _ _ _ _ _ _ [] rest); [exact E|constructor|exact Hf|exact Hr]. Qed.

Lemma WX_ext opsL more cm b lv g0 g bodyL x : WX opsL cm b lv g0 g bodyL ->
  (forall mp2, prun (ps (b ++ g ++ bodyL) [] lv mp2) more = ps (b ++ g ++ bodyL ++ x) [] lv mp2) ->
  WX (opsL ++ more) cm b lv g0 g (bodyL ++ x).
Proof.
  intros [pre rest E Hp Hf Hr] Hm. apply (WX_intro _ _ _ _ _ _ _ pre (rest ++ more)).
  - rewrite E, <- app_assoc. reflexivity.
  - exact Hp.
  - apply FF_app. exact Hf.
  - intro mp2. rewrite (PrettyWr.prun_app indent), Hr. apply Hm.
Qed.

Lemma WX_nop ops' cm b lv g0 g body : WX ops' cm b lv g0 g body -> WX (WComments [] :: ops') cm b lv g0 g body.
Proof.
  intros [pre rest E Hp Hf Hr]. apply (WX_intro _ _ _ _ _ _ _ (WComments [] :: pre) rest).
  - rewrite E. reflexivity.
  - constructor; [reflexivity|exact Hp].
  - exact Hf.
  - exact Hr.
Qed.

(* entry form: the operations write the gap of the leading comments, then continue with [rest] *)
Definition EF (q : list N -> list N) (ops' : list wop) (cm : list str) (b : str) (lv : Z) (g0 g body : str) (P : Prop) : Prop :=
  exists rest,
    (forall B pd2 mp2, prun (ps B pd2 lv mp2) ops' = prun (ps (B ++ G (q pd2) lv cm) [] lv mp2) rest) /\
    (P -> forall mp2, prun (ps (b ++ g0) [] lv mp2) rest = ps (b ++ g ++ body) [] lv mp2).

Lemma WX_entry ops' cm b lv g0 g body : WX ops' cm b lv g0 g body ->
  exists rest,
    (forall B pd2 mp2, prun (ps B pd2 lv mp2) ops' = prun (ps (B ++ G pd2 lv cm) [] lv mp2) rest) /\
    (forall mp2, prun (ps (b ++ g0) [] lv mp2) rest = ps (b ++ g ++ body) [] lv mp2).
Proof.
  intros [pre rest E Hp Hf Hr]. exists rest. split; [|exact Hr]. intros B pd2 mp2. subst ops'.
  rewrite (PrettyWr.prun_app indent), (prun_nops pre Hp), (PrettyWr.prun_cons indent).
  destruct cm as [|c cm'].
  - rewrite pt_comments_nil, Hf. reflexivity.
  - rewrite pt_comments by discriminate. rewrite Hf, fl_lftab, <- app_assoc. reflexivity.
Qed.

Definition XE (b : str) (lv : Z) (g0 g body : str) (e' e : expr) (t0 : token) (cm : list str) : Prop :=
  t_comments t0 = cm /\ first_tok_expr e' = Some t0 /\ nb (bnd_expr e') = nb (bnd_expr e) /\
  WX (write_expr e') cm b lv g0 g body.
Definition XS (b : str) (lv : Z) (g0 g body : str) (s' s : stmt) (cm : list str) : Prop :=
  trivia_of (first_tok_stmt s') = [cm] /\ nb (bnd_stmt s') = nb (bnd_stmt s) /\
  WX (write_stmt s') cm b lv g0 g body.
Definition XSS (ss' ss : list stmt) (cm : list str) : Prop :=
  exists rest', bnd_stmts ss' = cm :: rest' /\ nb rest' = nb (tl (bnd_stmts ss)).

(* ================================================================== *)
(* 1. what follows a lexeme                                            *)
(* ================================================================== *)

(* the first byte of an expression: as in the compact proof, and no space byte of any kind *)
Definition ost (c : N) : Prop := RoundTripProofs.ost c /\ is_space_go c = false.

Lemma ost_ws c : ost c -> isWhitespace c = false.
Proof. intros [[_ H] _]. exact H. Qed.
Lemma ost_nz c : ost c -> c <> 0%N.
Proof. intros [[(_ & _ & H) _] _]. exact H. Qed.
Lemma ost_nsp c : ost c -> is_space_go c = false.
Proof. intros [_ H]. exact H. Qed.

Lemma letter_ost c : isLetter c = true -> ost c.
Proof.
  intro H. split; [split; [apply letter_ostart; exact H|apply letter_ws; exact H]|].
  unfold isLetter in H. unfold is_space_go. lia.
Qed.
Lemma digit_ost c : isDigit c = true -> ost c.
Proof.
  intro H. split; [split; [apply digit_ostart; exact H|apply digit_ws; exact H]|].
  unfold isDigit in H. unfold is_space_go. lia.
Qed.

(* first character of a statement / an expression: not a blank, not the end *)
Definition sst (c : N) : Prop := isWhitespace c = false /\ c <> 0%N.
Lemma ost_sst c : ost c -> sst c.
Proof. intro H. split; [apply ost_ws; exact H|apply ost_nz; exact H]. Qed.
Lemma letter_sst c : isLetter c = true -> sst c.
Proof. intro H. apply ost_sst. apply letter_ost. exact H. Qed.

Lemma hd_rta_gap g body X K c : wgap g -> hd 0%N body = c -> sst c ->
  (g <> [] /\ isWhitespace (hd 0%N (rta (g ++ body ++ X) K)) = true) \/
  (g = [] /\ hd 0%N (rta (g ++ body ++ X) K) = c).
Proof.
  intros Gg Hd [Os1 Os2].
  destruct (gap_split g body X K c Gg Hd Os1 Os2) as (g' & E & _ & _ & E0 & E1 & Hc).
  rewrite E. destruct g as [|x g0].
  - right. split; [reflexivity|]. rewrite (E0 eq_refl). exact Hc.
  - left. split; [discriminate|]. destruct (E1 ltac:(discriminate)) as (w & r & -> & Hw). exact Hw.
Qed.

Lemma pbnd_gap b s g body X K c : wgap g -> hd 0%N body = c -> ost c ->
  (g = [] -> nofuse (b ++ s) c) -> pbnd s (hd 0%N (rta (g ++ body ++ X) K)).
Proof.
  intros Gg Hd Os NF.
  destruct (hd_rta_gap g body X K c Gg Hd (ost_sst _ Os)) as [[_ W]|[E ->]]; [apply pbnd_ws; exact W|].
  specialize (NF E). destruct Os as [[(O1 & O2 & O3) _] _]. unfold pbnd. destruct s as [|x [|? ?]]; try exact I.
  unfold nofuse in NF. rewrite last_last in NF.
  repeat split; intros; subst; try assumption; intro; subst; apply NF; auto.
Qed.

Lemma kont_gap {ge} g body X K c : wgap g -> hd 0%N body = c -> sst c ->
  (g = [] -> is_ident_char c = false /\ c <> 46%N) -> kont ge (rta (g ++ body ++ X) K).
Proof.
  intros Gg Hd [Os1 Os2] NF.
  destruct (gap_split g body X K c Gg Hd Os1 Os2) as (g' & E & _ & _ & E0 & E1 & Hc).
  rewrite E. destruct g as [|x g0].
  - rewrite (E0 eq_refl). cbn [app]. destruct (NF eq_refl) as [N1 N2].
    destruct (rta body (rta X K)) as [|y r]; [apply kont_nil|]. cbn [hd] in Hc. subst y. apply kont_cons; assumption.
  - destruct (E1 ltac:(discriminate)) as (w & r & -> & Hw). apply kont_ws. exact Hw.
Qed.

Lemma nic_gap g body X K c : wgap g -> hd 0%N body = c -> sst c ->
  (g = [] -> is_ident_char c = false) -> is_ident_char (hd 0%N (rta (g ++ body ++ X) K)) = false.
Proof.
  intros Gg Hd Os NF.
  destruct (hd_rta_gap g body X K c Gg Hd Os) as [[_ W]|[E ->]]; [apply nic_ws; exact W|exact (NF E)].
Qed.

(* ================================================================== *)
(* 2. the invariant for expressions                                    *)
(* ================================================================== *)

(* lexing the (trimmed) text of an expression behind any trivia *)
Definition LxE (b : str) (lv : Z) (g0 g body : str) (e : expr) (fty : Z) : Prop :=
  forall K, kont e K -> forall gs l, trv gs -> l_rest l = gs ++ rta body K ->
    exists e' ts l', lexes l ts l' /\ l_rest l' = K /\
      (forall R, m_expr e' (ts ++ R) = Some R) /\ shape_expr e' = shape_expr e /\
      exists t0 ts0, ts = t0 :: ts0 /\ t_type t0 = fty /\ t_nl t0 = has_lf gs /\ XE b lv g0 g body e' e t0 (tcm gs).

Definition PJ (ops : list wop) (e : expr) (c : N) (fty : Z) (lead : list str) : Prop :=
  forall b pd lv mp, 0 <= lv -> pend_ok pd ->
  exists g body,
    prun (ps b pd lv mp) ops = ps (b ++ g ++ body) [] lv mp /\
    wgap g /\ (g = [] -> nofuse b c) /\ ((~ In LF pd -> lead = [] -> has_lf g = false) /\ GL pd g lead /\ GF pd lv g lead) /\
    hd 0%N body = c /\ LxE b lv (G pd lv lead) g body e fty.

(* the same behind a gap of the writer, followed by more text *)
Lemma LxE_gap {b lv g0 gE} g body e fty c X K l : LxE b lv g0 gE body e fty -> wgap g -> hd 0%N body = c -> ost c ->
  kont e (rta X K) -> l_rest l = rta (g ++ body ++ X) K ->
  exists e' ts l', lexes l ts l' /\ l_rest l' = rta X K /\
    (forall R, m_expr e' (ts ++ R) = Some R) /\ shape_expr e' = shape_expr e /\
    exists t0 ts0, ts = t0 :: ts0 /\ t_type t0 = fty /\ (has_lf g = false -> t_nl t0 = false) /\ XE b lv g0 gE body e' e t0 (tcm g).
Proof.
  intros Lx Gg Hd Os HK Hl.
  destruct (gap_split_c g body X K c Gg Hd (ost_ws _ Os) (ost_nz _ Os)) as (g' & E & T' & L' & _ & _ & _ & C').
  rewrite E in Hl.
  destruct (Lx (rta X K) HK g' l T' Hl) as (e' & ts & l' & L & R & M & S & t0 & ts0 & Ets & Ty & Nl & X0).
  exists e', ts, l'. repeat split; try assumption. exists t0, ts0. repeat split; try assumption.
  - intro H. rewrite Nl, L'. exact H.
  - rewrite <- C'. apply X0.
  - apply X0.
  - apply X0.
  - rewrite <- C'. apply X0.
Qed.

(* own_line of the trivia list read back from a gap of the writer behind a line break *)
Lemma own_GL pd g lead : GL pd g lead -> lfs pd = [[]] -> own_line (tcm g) = own_line lead.
Proof. unfold GL. intros [-> _] E. destruct lead; [rewrite E|]; reflexivity. Qed.

Lemma lfs_lf : lfs [LF] = [[]]. Proof. reflexivity. Qed.
Lemma lfs_lftab : lfs [LF; TAB] = [[]]. Proof. reflexivity. Qed.
Lemma lfs_nil : lfs [] = []. Proof. reflexivity. Qed.
Lemma lfs_sp : lfs [32%N] = []. Proof. reflexivity. Qed.

Lemma fl_sp lv : fl [32%N] lv = [32%N]. Proof. reflexivity. Qed.

Lemma pend_ok_sp : pend_ok [32%N]. Proof. constructor; [auto|constructor]. Qed.

Lemma G_sp_ne lv cs : G [32%N] lv cs <> [].
Proof. unfold PrettyWr.G. destruct cs; [discriminate|]. intro H. apply app_eq_nil in H as [_ H]. discriminate H. Qed.

Lemma notin_nil : ~ In LF (@nil N). Proof. intros []. Qed.
Lemma notin_sp : ~ In LF [32%N]. Proof. intros [H|[]]. discriminate H. Qed.

(* a single token: [WComments cs; WMapping p; ... w] *)
Lemma PJ_atom ops cs w ty lit e c (mk : token -> expr) :
  (forall b pd lv mp, prun (ps b pd lv mp) ops = ps (b ++ G pd lv cs ++ w) [] lv mp) -> NLF cs ->
  (forall K, kont e K -> forall gs l, trv gs -> l_rest l = gs ++ rta w K ->
     exists t l', lexes l [t] l' /\ t_type t = ty /\ t_lit t = lit /\ t_nl t = has_lf gs /\ l_rest l' = K /\
       t_comments t = tcm gs) ->
  hd 0%N w = c -> c <> 43%N -> c <> 45%N ->
  (forall t', t_type t' = ty -> t_lit t' = lit ->
     (forall R, m_expr (mk t') (t' :: R) = Some R) /\ shape_expr (mk t') = shape_expr e) ->
  (forall t', first_tok_expr (mk t') = Some t' /\ bnd_expr (mk t') = bnd_expr e) ->
  (forall t', t_type t' = ty -> t_lit t' = lit ->
     exists rest, write_expr (mk t') = WComments (t_comments t') :: rest /\ (forall lv, FF lv rest) /\
       forall B lv mp, prun (ps B [] lv mp) rest = ps (B ++ w) [] lv mp) ->
  PJ ops e c ty cs.
Proof.
  intros W Hcs L Hc C1 C2 M MX HW b pd lv mp Hlv Hpd. exists (G pd lv cs), w. split; [apply W|].
  split; [apply G_gap; assumption|].
  split; [intros _; apply nofuse_other; assumption|].
  split; [split; [intros H1 H2; apply G_nolf; assumption|split; [apply GL_G; assumption|apply GF_G; assumption]]|]. split; [exact Hc|].
  intros K HK gs l Tg Hl.
  destruct (L K HK gs l Tg Hl) as (t & l' & Lx & Ty & Li & Nl & R & Cm).
  destruct (M t Ty Li) as [M1 M2]. destruct (MX t) as [X1 X2].
  exists (mk t), [t], l'. split; [exact Lx|]. split; [exact R|]. split; [exact M1|]. split; [exact M2|].
  destruct (HW t Ty Li) as (rest & E & Hf & Hr).
  exists t, []. split; [reflexivity|]. split; [exact Ty|]. split; [exact Nl|].
  split; [exact Cm|]. split; [exact X1|]. split; [rewrite X2; reflexivity|].
  rewrite <- Cm. apply (WX_lead _ _ _ _ _ _ _ rest E (Hf lv)). intro mp2. rewrite Hr, <- app_assoc. reflexivity.
Qed.

Definition PE (e : expr) (lead : list str) : Prop :=
  exists c, ost c /\ PJ (write_expr e) e c (first_type e) lead.

Lemma add_pend_nil c : add_pend [] c = [c]. Proof. reflexivity. Qed.
Lemma prun_cons_ps b pd lv mp o a : prun (ps b pd lv mp) (o :: a) = prun (wstep pc (ps b pd lv mp) o) a.
Proof. reflexivity. Qed.

Ltac pstep :=
  match goal with
  | |- context [PrettyWr.prun _ (ps ?b ?pd ?lv ?mp) (?o :: ?a)] =>
      lazymatch o with
      | WDecIndent => fail
      | WComments [] => rewrite (prun_cons_ps b pd lv mp o a)
      | WComments _ => fail
      | _ => rewrite (prun_cons_ps b pd lv mp o a)
      end
  end.

Ltac psimp :=
  repeat first [ rewrite pt_string | rewrite pt_rune | rewrite pt_semi | rewrite pt_space | rewrite pt_newline
               | rewrite pt_indent | rewrite pt_inc | rewrite pt_comments_nil | rewrite pt_mapping | rewrite pt_named
               | rewrite fl_nil | rewrite fl_sp | rewrite add_pend_nil
               | rewrite prun_lead | rewrite prun_lead_named | rewrite prun_nil | rewrite prun_app
               | pstep ].

Ltac pfin := cbn [app id_value id_tok]; rewrite ?app_nil_r, <- ?app_assoc; cbn [app]; try reflexivity.

Lemma P_ident i cs : ident_lexical i = true -> t_comments (id_tok i) = cs -> NLF cs -> PE (EIdent i) cs.
Proof.
  unfold ident_lexical. intros H Ecs Hcs. apply andb_true_iff in H as [H H3]. apply andb_true_iff in H as [H1 H2].
  apply Z.eqb_eq in H1. apply str_eqb_spec in H2.
  destruct (lex1_word _ _ [] H3 eq_refl ltac:(discriminate) ltac:(discriminate) eq_refl) as (HL & _).
  destruct (letter_ostart _ HL) as (Os & C1 & C2).
  exists (hd 0%N (id_value i)). split; [exact (letter_ost _ HL)|].
  cbn [write_expr first_type]. rewrite H1.
  apply (PJ_atom _ cs (id_value i) T_IDENT (id_value i) _ _ (fun t' => EIdent (mkident t' (id_value i)))).
  - intros b pd lv mp. unfold write_ident. rewrite Ecs. psimp. rewrite <- app_assoc. reflexivity.
  - exact Hcs.
  - intros K [HK _] gs l Tg Hl. rewrite <- (app_nil_r (id_value i)) in Hl.
    exact (P_word0_c _ _ gs [] K l H3 eq_refl ltac:(discriminate) ltac:(discriminate) HK Tg Hl).
  - reflexivity.
  - exact C1.
  - exact C2.
  - intros t' Ty Li. split.
    + intro R. cbn [m_expr]. unfold m_ident, ident_ok. cbn [id_tok id_value]. rewrite Ty, Li, str_eqb_refl.
      change (T_IDENT =? T_IDENT) with true. cbn [andb]. apply eat_tok_refl.
    + unfold shape_expr. cbn [tmap_expr]. unfold tmap_ident. cbn [id_tok id_value].
      rewrite (norm_eq t' (id_tok i)) by congruence. reflexivity.
  - intro t'. split; reflexivity.
  - intros t' Ty' Li'. eexists. split; [reflexivity|]. split; [intro; apply FF_named|]. intros B lv0 mp0. psimp. pfin.
Qed.

(* numbers do not end in a blank *)
Lemma digits_value_last base : forall ds acc v, digits_value base ds acc = Some v -> ds <> [] -> last ds 0%N <> 32%N.
Proof.
  induction ds as [|c ds IH]; intros acc v H Ne; [congruence|].
  cbn [digits_value] in H. destruct (digit_val c) as [d|] eqn:D; [|discriminate H].
  destruct (d <? base); [|discriminate H].
  destruct ds as [|c2 ds'].
  - cbn [last]. intro E. subst c. discriminate D.
  - change (last (c :: c2 :: ds') 0%N) with (last (c2 :: ds') 0%N). eapply IH; [exact H|discriminate].
Qed.

Lemma in_range_some ov : int_in_range ov = true -> exists v, ov = Some v.
Proof. destruct ov; [eauto|discriminate]. Qed.

Lemma go_int_last lit : go_int_ok lit = true -> last lit 0%N <> 32%N.
Proof.
  unfold go_int_ok. intro H.
  assert (D : forall base ds, ds <> [] -> int_in_range (digits_value base ds 0) = true -> last ds 0%N <> 32%N).
  { intros base ds Ne Q. destruct (in_range_some _ Q) as [v E]. exact (digits_value_last base ds 0 v E Ne). }
  destruct lit as [|a [|c ds]]; [discriminate H| |].
  - destruct (N.eqb_spec a 48).
    + subst a. cbn [last]. discriminate.
    + assert (Q : int_in_range (digits_value 10 [a] 0) = true) by (destruct a as [|p]; [exact H|]; repeat (destruct p as [p|p|]; try exact H)).
      exact (D 10 [a] ltac:(discriminate) Q).
  - assert (Hl : forall x, last (x :: c :: ds) 0%N = last (c :: ds) 0%N) by reflexivity.
    destruct (N.eqb_spec a 48) as [->|Na].
    + rewrite Hl.
      destruct (N.eqb c 120 || N.eqb c 88).
      { destruct ds as [|d ds']; [discriminate H|]. change (last (c :: d :: ds') 0%N) with (last (d :: ds') 0%N).
        exact (D 16 (d :: ds') ltac:(discriminate) H). }
      destruct (N.eqb c 98 || N.eqb c 66).
      { destruct ds as [|d ds']; [discriminate H|]. change (last (c :: d :: ds') 0%N) with (last (d :: ds') 0%N).
        exact (D 2 (d :: ds') ltac:(discriminate) H). }
      destruct (N.eqb c 111 || N.eqb c 79).
      { destruct ds as [|d ds']; [discriminate H|]. change (last (c :: d :: ds') 0%N) with (last (d :: ds') 0%N).
        exact (D 8 (d :: ds') ltac:(discriminate) H). }
      exact (D 8 (c :: ds) ltac:(discriminate) H).
    + assert (Q : int_in_range (digits_value 10 (a :: c :: ds) 0) = true).
      { destruct a as [|p]; [exact H|]. repeat (destruct p as [p|p|]; try exact H). congruence. }
      exact (D 10 (a :: c :: ds) ltac:(discriminate) Q).
Qed.

Lemma digit_not_blank c : isDigit c = true -> c <> 32%N.
Proof. unfold isDigit. lia. Qed.

Lemma P_int t cs : (t_type t =? T_INT) && relex_word T_INT (t_lit t) && go_int_ok (t_lit t) = true ->
  blank_eol_free (t_lit t) = true -> t_comments t = cs -> NLF cs -> PE (EInt t) cs.
Proof.
  intros H Bf Ecs Hcs. apply andb_true_iff in H as [H H3]. apply andb_true_iff in H as [H1 H2]. apply Z.eqb_eq in H1.
  destruct (lex1_number _ _ [] H2 (or_introl eq_refl) ltac:(discriminate) eq_refl ltac:(intro Q; discriminate Q)) as (HD & _).
  destruct (digit_ostart _ HD) as (Os & C1 & C2).
  exists (hd 0%N (t_lit t)). split; [exact (digit_ost _ HD)|].
  cbn [write_expr first_type]. rewrite H1.
  apply (PJ_atom _ cs (t_lit t) T_INT (t_lit t) _ _ (fun t' => EInt t')).
  - intros b pd lv mp. rewrite Ecs. psimp. rewrite <- app_assoc. reflexivity.
  - exact Hcs.
  - intros K [HK1 HK2] gs l Tg Hl. rewrite <- (app_nil_r (t_lit t)) in Hl.
    assert (K46 : hd 0%N (rta [] K) = 46%N -> T_INT <> T_INT \/ forallb isDigit (t_lit t) = false).
    { intro Q. right. apply dot_ok_int. exact (HK2 Q). }
    exact (P_number0_c _ _ gs [] K l H2 (or_introl eq_refl) ltac:(discriminate) (conj Bf (go_int_last _ H3)) HK1 K46 Tg Hl).
  - reflexivity.
  - exact C1.
  - exact C2.
  - intros t' Ty Li. split.
    + intro R. cbn [m_expr]. rewrite Ty, Li, H3. change (T_INT =? T_INT) with true. cbn [andb]. apply eat_tok_refl.
    + cbn [shape_expr tmap_expr]. f_equal. apply norm_eq; congruence.
  - intro t'. split; reflexivity.
  - intros t' Ty' Li'. eexists. split; [reflexivity|]. split; [intro; apply FF_mapping|]. intros B lv0 mp0. psimp. rewrite Li'. pfin.
Qed.

Lemma P_float t cs : (t_type t =? T_FLOAT) && relex_word T_FLOAT (t_lit t) && go_float_ok (t_lit t) = true ->
  blank_eol_free (t_lit t) = true -> t_comments t = cs -> NLF cs -> PE (EFloat t) cs.
Proof.
  intros H Bf Ecs Hcs. apply andb_true_iff in H as [H H3]. apply andb_true_iff in H as [H1 H2]. apply Z.eqb_eq in H1.
  destruct (lex1_number _ _ [] H2 (or_intror eq_refl) (fun _ => H3) eq_refl ltac:(intro Q; discriminate Q)) as (HD & _).
  destruct (digit_ostart _ HD) as (Os & C1 & C2).
  exists (hd 0%N (t_lit t)). split; [exact (digit_ost _ HD)|].
  cbn [write_expr first_type]. rewrite H1.
  apply (PJ_atom _ cs (t_lit t) T_FLOAT (t_lit t) _ _ (fun t' => EFloat t')).
  - intros b pd lv mp. rewrite Ecs. psimp. rewrite <- app_assoc. reflexivity.
  - exact Hcs.
  - intros K [HK1 _] gs l Tg Hl. rewrite <- (app_nil_r (t_lit t)) in Hl.
    assert (K46 : hd 0%N (rta [] K) = 46%N -> T_FLOAT <> T_INT \/ forallb isDigit (t_lit t) = false).
    { intros _. left. discriminate. }
    exact (P_number0_c _ _ gs [] K l H2 (or_intror eq_refl) (fun _ => H3)
             (conj Bf (PrettyJ.float_last_nb _ H3)) HK1 K46 Tg Hl).
  - reflexivity.
  - exact C1.
  - exact C2.
  - intros t' Ty Li. split.
    + intro R. cbn [m_expr]. rewrite Ty, Li, H3. change (T_FLOAT =? T_FLOAT) with true. cbn [andb]. apply eat_tok_refl.
    + cbn [shape_expr tmap_expr]. f_equal. apply norm_eq; congruence.
  - intro t'. split; reflexivity.
  - intros t' Ty' Li'. eexists. split; [reflexivity|]. split; [intro; apply FF_mapping|]. intros B lv0 mp0. psimp. rewrite Li'. pfin.
Qed.

Lemma P_bool t b cs : lexical (EBool t b) = true -> t_comments t = cs -> NLF cs -> PE (EBool t b) cs.
Proof.
  cbn [lexical]. intros H Ecs Hcs. apply andb_true_iff in H as [H1 H2].
  assert (Ty : (t_type t = T_TRUE /\ b = true) \/ (t_type t = T_FALSE /\ b = false)).
  { destruct b; cbn [negb] in H1; rewrite ?andb_true_r, ?andb_false_r, ?orb_false_r in H1; cbn [orb] in H1;
      apply Z.eqb_eq in H1; auto. }
  assert (W : is_word_type (t_type t) = true /\ t_type t <> T_INT /\ t_type t <> T_FLOAT /\ t_type t <> T_EOF).
  { destruct Ty as [[-> _]|[-> _]]; repeat split; discriminate. }
  destruct W as (W1 & W2 & W3 & W4).
  destruct (lex1_word _ _ [] H2 W1 W2 W3 eq_refl) as (HL & _).
  destruct (letter_ostart _ HL) as (Os & C1 & C2).
  exists (hd 0%N (t_lit t)). split; [exact (letter_ost _ HL)|].
  cbn [write_expr first_type].
  apply (PJ_atom _ cs (t_lit t) (t_type t) (t_lit t) _ _ (fun t' => EBool t' b)).
  - intros b0 pd lv mp. rewrite Ecs. psimp. rewrite <- app_assoc. reflexivity.
  - exact Hcs.
  - intros K [HK _] gs l Tg Hl. rewrite <- (app_nil_r (t_lit t)) in Hl.
    exact (P_word0_c _ _ gs [] K l H2 W1 W2 W3 HK Tg Hl).
  - reflexivity.
  - exact C1.
  - exact C2.
  - intros t' Ty' Li. split.
    + intro R. cbn [m_expr]. rewrite Ty'.
      destruct Ty as [[-> ->]|[-> ->]]; cbn; apply eat_tok_refl.
    + cbn [shape_expr tmap_expr]. f_equal. apply norm_eq; congruence.
  - intro t'. split; reflexivity.
  - intros t' Ty' Li'. eexists. split; [reflexivity|]. split; [intro; apply FF_mapping|]. intros B lv0 mp0. psimp. rewrite Li'. pfin.
Qed.

Definition kw_null : str := [110; 117; 108; 108]%N.

Lemma P_null t cs : lexical (ENull t) = true -> t_comments t = cs -> NLF cs -> PE (ENull t) cs.
Proof.
  cbn [lexical]. intros H Ecs Hcs. apply andb_true_iff in H as [H1 H2]. apply Z.eqb_eq in H1. apply str_eqb_spec in H2.
  exists 110%N. split; [split; [split; [repeat split; discriminate|reflexivity]|reflexivity]|].
  cbn [write_expr first_type]. rewrite H1.
  apply (PJ_atom _ cs kw_null T_NULL kw_null _ _ (fun t' => ENull t')).
  - intros b0 pd lv mp. rewrite Ecs. psimp. rewrite <- app_assoc. reflexivity.
  - exact Hcs.
  - intros K [HK _] gs l Tg Hl. rewrite <- (app_nil_r kw_null) in Hl.
    exact (P_word0_c _ _ gs [] K l relex_null eq_refl ltac:(discriminate) ltac:(discriminate) HK Tg Hl).
  - reflexivity.
  - discriminate.
  - discriminate.
  - intros t' Ty' Li. split.
    + intro R. cbn [m_expr]. rewrite Ty'. change (T_NULL =? T_NULL) with true. cbn iota. apply eat_tok_refl.
    + cbn [shape_expr tmap_expr]. f_equal. apply norm_eq; [congruence|]. rewrite Li. symmetry. exact H2.
  - intro t'. split; reflexivity.
  - intros t' Ty' Li'. eexists. split; [reflexivity|]. split; [intro; apply FF_mapping|]. intros B lv0 mp0. psimp. pfin.
Qed.

Lemma P_string t v cs : lexical (EString t v) = true -> blank_eol_free v = true ->
  t_comments t = cs -> NLF cs -> PE (EString t v) cs.
Proof.
  cbn [lexical]. intros H Bf Ecs Hcs. apply andb_true_iff in H as [H H3]. apply andb_true_iff in H as [H1 H2].
  apply Z.eqb_eq in H1. apply str_eqb_spec in H2.
  exists 34%N. split; [split; [split; [repeat split; discriminate|reflexivity]|reflexivity]|].
  cbn [write_expr first_type]. rewrite H1.
  apply (PJ_atom _ cs (34%N :: v ++ [34%N]) T_STRING v _ _ (fun t' => EString t' v)).
  - intros b0 pd lv mp. rewrite Ecs. psimp. rewrite <- !app_assoc. reflexivity.
  - exact Hcs.
  - intros K _ gs l Tg Hl. rewrite <- (app_nil_r (34%N :: v ++ [34%N])) in Hl.
    exact (P_string0_c v gs [] K l H3 Bf Tg Hl).
  - reflexivity.
  - discriminate.
  - discriminate.
  - intros t' Ty' Li. split.
    + intro R. cbn [m_expr]. rewrite Ty', Li, str_eqb_refl. change (T_STRING =? T_STRING) with true. cbn [andb]. apply eat_tok_refl.
    + cbn [shape_expr tmap_expr]. f_equal. apply norm_eq; congruence.
  - intro t'. split; reflexivity.
  - intros t' Ty' Li'. eexists. split; [reflexivity|]. split; [intro; apply FF_mapping|]. intros B lv0 mp0. psimp. pfin.
Qed.

Lemma P_raw t v cs : lexical (ERaw t v) = true -> blank_eol_free v = true ->
  t_comments t = cs -> NLF cs -> PE (ERaw t v) cs.
Proof.
  cbn [lexical]. intros H Bf Ecs Hcs. apply andb_true_iff in H as [H H3]. apply andb_true_iff in H as [H1 H2].
  apply Z.eqb_eq in H1. apply str_eqb_spec in H2.
  exists 96%N. split; [split; [split; [repeat split; discriminate|reflexivity]|reflexivity]|].
  cbn [write_expr first_type]. rewrite H1.
  apply (PJ_atom _ cs (96%N :: rep v ++ [96%N]) T_RAW_STRING v _ _ (fun t' => ERaw t' v)).
  - intros b0 pd lv mp. rewrite Ecs. psimp. rewrite replace_all_rep, <- !app_assoc. reflexivity.
  - exact Hcs.
  - intros K _ gs l Tg Hl. rewrite <- (app_nil_r (96%N :: rep v ++ [96%N])) in Hl.
    exact (P_raw0_c v gs [] K l H3 Bf Tg Hl).
  - reflexivity.
  - discriminate.
  - discriminate.
  - intros t' Ty' Li. split.
    + intro R. cbn [m_expr]. rewrite Ty', Li, str_eqb_refl. change (T_RAW_STRING =? T_RAW_STRING) with true. cbn [andb]. apply eat_tok_refl.
    + cbn [shape_expr tmap_expr]. f_equal. apply norm_eq; congruence.
  - intro t'. split; reflexivity.
  - intros t' Ty' Li'. eexists. split; [reflexivity|]. split; [intro; apply FF_mapping|]. intros B lv0 mp0. psimp. rewrite replace_all_rep. pfin.
Qed.

(* ================================================================== *)
(* 3. composite expressions                                            *)
(* ================================================================== *)

Lemma ost_ostart' c : ost c -> ostart c. Proof. intros [[H _] _]. exact H. Qed.

Lemma hd_app_ost (body rest : str) c : ost c -> hd 0%N body = c -> hd 0%N (body ++ rest) = c.
Proof. intros Os Hd. rewrite (hd_app_ne _ _ (ostart_ne _ _ (ost_ostart' _ Os) Hd)). exact Hd. Qed.

(* text that starts with an operator behind a non-empty gap *)
Lemma kont_gap_ne {ge} g s X K : wgap g -> g <> [] -> s <> [] -> isWhitespace (hd 0%N s) = false -> hd 0%N s <> 0%N ->
  kont ge (rta (g ++ s ++ X) K).
Proof.
  intros Gg Ne Ns W Z.
  destruct (gap_split g s X K _ Gg eq_refl W Z) as (g' & E & _ & _ & _ & E1 & _).
  rewrite E. destruct (E1 Ne) as (w & r & -> & Hw). apply kont_ws. exact Hw.
Qed.

Lemma type_text_hd ty s : type_text ty = Some s -> isWhitespace (hd 0%N s) = false /\ hd 0%N s <> 0%N.
Proof.
  unfold type_text.
  repeat match goal with
  | |- (if ty =? ?b then _ else _) = _ -> _ =>
      destruct (Z.eqb_spec ty b) as [->|_]; [intro H; inversion H; split; [reflexivity|discriminate]|]
  end; discriminate.
Qed.

Lemma is_decimal_int_shape a b : shape_expr a = shape_expr b -> is_decimal_int a = is_decimal_int b.
Proof.
  intro H. destruct a, b; try discriminate H; try reflexivity.
  unfold shape_expr in H. cbn [tmap_expr] in H. injection H as _ H. cbn [is_decimal_int].
  rewrite H. reflexivity.
Qed.

Lemma prec_opt_shape a b : shape_expr a = shape_expr b -> prec_opt a = prec_opt b.
Proof.
  intro H. destruct a, b; try discriminate H; try reflexivity.
  unfold shape_expr in H. cbn [tmap_expr] in H. injection H as H _ _ _. cbn [prec_opt].
  rewrite H. reflexivity.
Qed.

Lemma PJ_infix opsL gL cL tyL leadL mid cs s ty opsR gR cR tyR leadR t (mk : token -> expr -> expr -> expr)
  (midf : token -> list wop) :
  PJ opsL gL cL tyL leadL -> PJ opsR gR cR tyR leadR -> ost cL -> ost cR ->
  (forall b lv mp, prun (ps b [] lv mp) mid = ps (b ++ G [32%N] lv cs ++ s) [32%N] lv mp) -> NLF cs ->
  type_text ty = Some s -> t_type t = ty -> t_lit t = s ->
  (forall t' eL eR tsL tsR R, t_type t' = ty -> t_lit t' = s ->
     (forall R, m_expr eL (tsL ++ R) = Some R) -> (forall R, m_expr eR (tsR ++ R) = Some R) ->
     m_expr (mk t' eL eR) (tsL ++ t' :: tsR ++ R) = Some R) ->
  (forall t' eL eR, shape_expr (mk t' eL eR) = mk (norm_tok t') (shape_expr eL) (shape_expr eR)) ->
  (forall t' eL eR, first_tok_expr (mk t' eL eR) = first_tok_expr eL) ->
  (forall t' eL eR, bnd_expr (mk t' eL eR) = bnd_expr eL ++ bnd_expr eR) ->
  (forall t' eL eR, t_type t' = ty -> shape_expr eL = shape_expr gL -> shape_expr eR = shape_expr gR ->
     write_expr (mk t' eL eR) = write_expr eL ++ midf t' ++ write_expr eR) ->
  (forall t' B lv mp, prun (ps B [] lv mp) (midf t') = ps (B ++ G [32%N] lv (t_comments t') ++ s) [32%N] lv mp) ->
  dot_ok (mk t gL gR) = false ->
  PJ (opsL ++ mid ++ opsR) (mk t gL gR) cL tyL leadL.
Proof.
  intros JL JR OsL OsR Wm Hcs T Ty Li M S F1 B1 HO HM DK b pd lv mp Hlv Hpd.
  destruct (JL b pd lv mp Hlv Hpd) as (g & body & W & Gg & Gn & Gl & Hd & Lx).
  set (gm := G [32%N] lv cs).
  assert (Ggm : wgap gm) by (apply G_gap; [exact indent_blank|exact pend_ok_sp|exact Hcs]).
  destruct (JR ((b ++ g ++ body) ++ gm ++ s) [32%N] lv mp Hlv pend_ok_sp) as (g2 & body2 & W2 & Gg2 & Gn2 & (_ & _ & Gf2) & Hd2 & Lx2).
  exists g, (body ++ gm ++ s ++ g2 ++ body2). split.
  { rewrite !prun_app, W, Wm. fold gm. rewrite W2. f_equal. rewrite <- !app_assoc. reflexivity. }
  split; [exact Gg|]. split; [exact Gn|]. split; [exact Gl|].
  split; [apply hd_app_ost; assumption|].
  intros K HK gs l Tg Hl. rewrite rta_app in Hl.
  destruct (type_text_hd _ _ T) as [Hs1 Hs2].
  destruct (Lx (rta (gm ++ s ++ g2 ++ body2) K)
              (kont_gap_ne gm s _ K Ggm (G_sp_ne lv cs) (type_text_nonempty _ _ T) Hs1 Hs2) gs l Tg Hl)
    as (eL & tsL & l1 & L1 & R1 & ML & SL & t0 & ts0 & E0 & Ty0 & Nl0 & X0).
  assert (PB : pbnd s (hd 0%N (rta (g2 ++ body2) K))).
  { rewrite <- (app_nil_r body2). apply (pbnd_gap ((b ++ g ++ body) ++ gm) s g2 body2 [] K cR Gg2 Hd2 OsR).
    intro E. rewrite <- app_assoc. exact (Gn2 E). }
  destruct (P_punct_c ty s gm (g2 ++ body2) K l1 T PB Ggm R1) as (t' & l2 & L2 & Ty' & Li' & _ & R2 & Cm').
  rewrite <- (app_nil_r body2) in R2.
  destruct (LxE_gap g2 body2 gR tyR cR [] K l2 Lx2 Gg2 Hd2 OsR (kont_sub _ _ _ HK DK) R2)
    as (eR & tsR & l3 & L3 & R3 & MR & SR & tR0 & tsR0 & _ & _ & _ & XR).
  exists (mk t' eL eR), (tsL ++ [t'] ++ tsR), l3.
  split; [eapply lexes_app; [exact L1|eapply lexes_app; eassumption]|]. split; [exact R3|].
  split; [|split].
  - intro R. rewrite <- !app_assoc. cbn [app]. apply M; assumption.
  - rewrite !S, SL, SR. f_equal. apply norm_eq; congruence.
  - exists t0, (ts0 ++ [t'] ++ tsR). subst tsL. repeat split; try assumption.
    + apply X0.
    + rewrite F1. apply X0.
    + rewrite !B1, !nb_app. f_equal; [apply X0|apply XR].
    + rewrite (HO t' eL eR Ty' SL SR). apply WX_ext; [apply X0|]. intro mp2.
      rewrite (PrettyWr.prun_app indent), HM, Cm'. unfold gm.
      rewrite (GF_G [32%N] lv cs pend_ok_sp Hcs (ST_sp lv)). fold gm.
      destruct XR as (_ & _ & _ & WR). rewrite (WX_run _ _ _ _ _ _ _ WR [32%N] mp2 (Gf2 (ST_sp lv))).
      f_equal. rewrite <- !app_assoc. reflexivity.
Qed.

Lemma P_binary t l op r lv pl pr ll lr :
  binop_level (t_type t) = Some lv -> type_text (t_type t) = Some (t_lit t) -> op = t_lit t ->
  prec_opt l = Some pl -> (pl <? lv) = false -> prec_opt r = Some pr -> (pr <=? lv) = false ->
  NLF (t_comments t) -> PE l ll -> PE r lr -> PE (EBinary t l op r) ll.
Proof.
  intros Hb TT -> Pl Cl Pr Cr Hcs (cl & Ol & Jl) (cr & Or & Jr).
  exists cl. split; [exact Ol|].
  cbn [write_expr prec_opt first_type]. rewrite Pl, Pr, (binop_prec _ _ Hb), Cl, Cr.
  match goal with |- PJ ?ops _ _ _ _ =>
    replace ops with (write_expr l ++
                      [WSpace; WComments (t_comments t); WMapping (t_start t); WString (t_lit t); WSpace] ++
                      write_expr r)
      by (cbn [app]; rewrite !app_nil_r; reflexivity)
  end.
  apply (PJ_infix _ _ _ _ _ _ (t_comments t) (t_lit t) (t_type t) _ _ cr (first_type r) lr t
           (fun t' a b => EBinary t' a (t_lit t) b)
           (fun t' => [WSpace; WComments (t_comments t'); WMapping (t_start t'); WString (t_lit t); WSpace])).
  - exact Jl.
  - exact Jr.
  - exact Ol.
  - exact Or.
  - intros b0 lv0 mp. psimp. rewrite <- ?app_assoc. reflexivity.
  - exact Hcs.
  - exact TT.
  - reflexivity.
  - reflexivity.
  - intros t' eL eR tsL tsR R Ty' Li' ML MR. cbn [m_expr]. rewrite Ty', Hb, Li', str_eqb_refl. cbn [negb].
    rewrite ML, eat_tok_refl. apply MR.
  - reflexivity.
  - reflexivity.
  - reflexivity.
  - intros t' eL eR Ty' SL' SR'. cbn [write_expr prec_opt].
    rewrite (prec_opt_shape _ _ SL'), (prec_opt_shape _ _ SR'), Pl, Pr, Ty', (binop_prec _ _ Hb), Cl, Cr.
    cbn [app]. rewrite !app_nil_r. reflexivity.
  - intros t' B lv0 mp0. psimp. rewrite <- ?app_assoc. reflexivity.
  - reflexivity.
Qed.

Lemma P_assign t l v ll lv0 : t_type t = T_ASSIGN -> t_lit t = [61%N] -> NLF (t_comments t) ->
  PE l ll -> PE v lv0 -> PE (EAssign t l v) ll.
Proof.
  intros Ty Li Hcs (cl & Ol & Jl) (cv & Ov & Jv).
  exists cl. split; [exact Ol|].
  cbn [write_expr first_type].
  match goal with |- PJ ?ops _ _ _ _ =>
    replace ops with (write_expr l ++
                      [WSpace; WComments (t_comments t); WMapping (t_start t); WRune 61%N; WSpace] ++
                      write_expr v)
      by (rewrite app_nil_r; reflexivity)
  end.
  apply (PJ_infix _ _ _ _ _ _ (t_comments t) [61%N] T_ASSIGN _ _ cv (first_type v) lv0 t (fun t' a b => EAssign t' a b)
           (fun t' => [WSpace; WComments (t_comments t'); WMapping (t_start t'); WRune 61%N; WSpace])).
  - exact Jl.
  - exact Jv.
  - exact Ol.
  - exact Ov.
  - intros b0 lv1 mp. psimp. rewrite <- ?app_assoc. reflexivity.
  - exact Hcs.
  - reflexivity.
  - exact Ty.
  - exact Li.
  - intros t' eL eR tsL tsR R Ty' Li' ML MR. cbn [m_expr]. rewrite Ty'.
    change (T_ASSIGN =? T_ASSIGN) with true. cbn [negb].
    rewrite ML, eat_tok_refl. apply MR.
  - reflexivity.
  - reflexivity.
  - reflexivity.
  - intros t' eL eR Ty' SL' SR'. cbn [write_expr]. rewrite app_nil_r. reflexivity.
  - intros t' B lv2 mp0. psimp. rewrite <- ?app_assoc. reflexivity.
  - reflexivity.
Qed.

Lemma P_compound t l op v ty ll lv0 :
  (ty = T_PLUS_ASSIGN \/ ty = T_MINUS_ASSIGN) -> t_type t = ty ->
  type_text ty = Some (op ++ [61%N]) -> t_lit t = op ++ [61%N] ->
  (if ty =? T_PLUS_ASSIGN then Some [43%N] else if ty =? T_MINUS_ASSIGN then Some [45%N] else None) = Some op ->
  NLF (t_comments t) -> PE l ll -> PE v lv0 -> PE (ECompound t l op v) ll.
Proof.
  intros Hty Ty TT Li Want Hcs (cl & Ol & Jl) (cv & Ov & Jv).
  exists cl. split; [exact Ol|].
  cbn [write_expr first_type].
  match goal with |- PJ ?ops _ _ _ _ =>
    replace ops with (write_expr l ++
                      [WSpace; WComments (t_comments t); WMapping (t_start t); WString op; WRune 61%N; WSpace] ++
                      write_expr v)
      by (rewrite app_nil_r; reflexivity)
  end.
  apply (PJ_infix _ _ _ _ _ _ (t_comments t) (op ++ [61%N]) ty _ _ cv (first_type v) lv0 t (fun t' a b => ECompound t' a op b)
           (fun t' => [WSpace; WComments (t_comments t'); WMapping (t_start t'); WString op; WRune 61%N; WSpace])).
  - exact Jl.
  - exact Jv.
  - exact Ol.
  - exact Ov.
  - intros b0 lv1 mp. psimp. rewrite <- ?app_assoc. reflexivity.
  - exact Hcs.
  - exact TT.
  - exact Ty.
  - exact Li.
  - intros t' eL eR tsL tsR R Ty' Li' ML MR. cbn [m_expr]. rewrite Ty', Want, str_eqb_refl. cbn [negb].
    rewrite ML, eat_tok_refl. apply MR.
  - reflexivity.
  - reflexivity.
  - reflexivity.
  - intros t' eL eR Ty' SL' SR'. cbn [write_expr]. rewrite app_nil_r. reflexivity.
  - intros t' B lv2 mp0. psimp. rewrite <- ?app_assoc. reflexivity.
  - reflexivity.
Qed.

Lemma kont_gap_char {ge} g c X K : wgap g -> isWhitespace c = false -> c <> 0%N ->
  is_ident_char c = false -> c <> 46%N -> kont ge (rta (g ++ c :: X) K).
Proof.
  intros Gg W Z N1 N2.
  destruct (gap_split g [c] X K c Gg eq_refl W Z) as (g' & E & _ & _ & E0 & E1 & Hc).
  change (g ++ c :: X) with (g ++ [c] ++ X). rewrite E. destruct g as [|x g0].
  - rewrite (E0 eq_refl). cbn [app]. rewrite (rta_cons_nb c [] _ (ws_nz _ W)). apply kont_cons; assumption.
  - destruct (E1 ltac:(discriminate)) as (w & r & -> & Hw). apply kont_ws. exact Hw.
Qed.

Ltac setbuf B :=
  match goal with |- context [PrettyWr.prun _ (ps ?x _ _ _) _] =>
    replace x with B by (cbn [app]; rewrite ?app_nil_r, <- ?app_assoc; cbn [app]; rewrite <- ?app_assoc; reflexivity) end.
Ltac wx_sub X pdv HG :=
  let WR := fresh "WR" in destruct X as (_ & _ & _ & WR);
  rewrite (WX_run _ _ _ _ _ _ _ WR pdv _ HG).
Ltac pfeq := f_equal; cbn [app]; rewrite ?app_nil_r, <- ?app_assoc; cbn [app]; rewrite <- ?app_assoc; reflexivity.

Lemma tcm_sp g : tcm (32%N :: g) = tcm g.
Proof. apply (tcm_ws 32 g eq_refl). Qed.

Lemma Gc_tcm lv cs : NLF cs -> Gc lv (tcm (Gc lv cs)) = Gc lv cs.
Proof. intro H. rewrite (tcm_Gc' lv cs H). reflexivity. Qed.

Lemma P_group lp e rp le : punct lp T_LPAREN = true -> punct rp T_RPAREN = true ->
  NLF (t_comments lp) -> NLF (t_comments rp) -> PE e le -> PE (EGroup lp e rp) (t_comments lp).
Proof.
  intros Hl1 Hl2 Hc1 Hc2 (c & Oe & Je).
  exists 40%N. split; [split; [split; [repeat split; discriminate|reflexivity]|reflexivity]|].
  cbn [write_expr first_type].
  destruct (punct_inv _ _ Hl1) as [Ty1 TT1]. rewrite type_text_lparen in TT1. inversion TT1 as [Li1].
  destruct (punct_inv _ _ Hl2) as [Ty2 TT2]. rewrite type_text_rparen in TT2. inversion TT2 as [Li2].
  rewrite Ty1.
  intros b pd lv mp Hlv Hpd.
  destruct (Je ((b ++ G pd lv (t_comments lp)) ++ [40%N]) [] (lv + 1) mp ltac:(lia) pend_ok_nil)
    as (g2 & body2 & W2 & Gg2 & Gn2 & (_ & _ & Gf2) & Hd2 & Lx2).
  set (gc := Gc lv (t_comments rp)).
  assert (Ggc : wgap gc) by (apply Gc_gap; [exact indent_blank|exact Hc2]).
  exists (G pd lv (t_comments lp)), (40%N :: g2 ++ body2 ++ gc ++ [41%N]). split.
  { psimp. cbn [app]. rewrite W2. rewrite prun_close by exact Hlv. rewrite prun_nil. fold gc.
    f_equal. rewrite <- !app_assoc. reflexivity. }
  split; [apply G_gap; assumption|].
  split; [intros _; apply nofuse_other; discriminate|].
  split; [split; [intros H1 H2; apply G_nolf; assumption|split; [apply GL_G; assumption|apply GF_G; assumption]]|]. split; [reflexivity|].
  intros K HK gs l Tg Hl.
  change (40%N :: g2 ++ body2 ++ gc ++ [41%N]) with ([40%N] ++ g2 ++ body2 ++ gc ++ [41%N]) in Hl.
  destruct (P_punct0_c T_LPAREN [40%N] gs _ K l type_text_lparen ltac:(pfree) Tg Hl)
    as (t1 & l1 & L1 & T1 & I1 & N1 & R1 & C1).
  assert (KK : forall ge0, kont ge0 (rta (gc ++ [41%N]) K)).
  { intro ge0. apply kont_gap_char; [exact Ggc|reflexivity|discriminate|reflexivity|discriminate]. }
  destruct (LxE_gap g2 body2 e _ c (gc ++ [41%N]) K l1 Lx2 Gg2 Hd2 Oe (KK _) R1)
    as (e0 & ts0 & l2 & L2 & R2 & M0 & S0 & tq & tsq & _ & _ & _ & X0).
  rewrite <- (app_nil_r [41%N]) in R2.
  destruct (P_punct_c T_RPAREN [41%N] gc [] K l2 type_text_rparen ltac:(pfree) Ggc R2)
    as (t2 & l3 & L3 & T2 & I2 & _ & R3 & Cm2).
  exists (EGroup t1 e0 t2), ([t1] ++ ts0 ++ [t2]), l3.
  split; [eapply lexes_app; [exact L1|eapply lexes_app; eassumption]|]. split; [exact R3|].
  split; [|split].
  - intro R. cbn [m_expr app]. rewrite T1, T2. change (T_LPAREN =? T_LPAREN) with true.
    change (T_RPAREN =? T_RPAREN) with true. cbn [negb orb].
    rewrite eat_tok_refl, <- app_assoc, M0. cbn [app]. apply eat_tok_refl.
  - cbn [shape_expr tmap_expr]. fold (shape_expr e0). fold (shape_expr e). rewrite S0.
    rewrite (norm_eq t1 lp), (norm_eq t2 rp) by congruence. reflexivity.
  - exists t1, (ts0 ++ [t2]). repeat split; try assumption; [rewrite !bnd_group; apply X0|].
    rewrite <- C1. eapply WX_lead; [reflexivity|apply FF_mapping|]. intro mp2.
    rewrite !(PrettyWr.prun_cons indent), pt_mapping, fl_nil, app_nil_r, pt_rune, fl_nil, pt_inc. cbn [app].
    rewrite (PrettyWr.prun_app indent).
    wx_sub X0 (@nil N) (Gf2 (ST_nil (lv + 1))).
    rewrite prun_close by exact Hlv. rewrite prun_nil, Cm2. unfold gc. rewrite (Gc_tcm lv _ Hc2). pfeq.
Qed.

Lemma spf_gap op b : wgap (spf op b).
Proof. destruct (spf_cases op b) as [->|[-> _]]; [apply wgap_allws; reflexivity|apply wgap_nil]. Qed.

Lemma spf_nolf op b : has_lf (spf op b) = false.
Proof. destruct (spf_cases op b) as [->|[-> _]]; reflexivity. Qed.

Lemma tcm_spf op b : tcm (spf op b) = [].
Proof. destruct (spf_cases op b) as [->|[-> _]]; reflexivity. Qed.

Lemma P_unary t op r pr lr :
  type_text (t_type t) = Some (t_lit t) -> op = t_lit t ->
  (t_type t =? T_NOT) || (t_type t =? T_MINUS) || (t_type t =? T_INCREMENT) || (t_type t =? T_DECREMENT) = true ->
  prec_opt r = Some pr -> (pr <? A_PrecedenceUnary) = false -> NLF (t_comments t) ->
  PE r lr -> PE (EUnary t op r) (t_comments t).
Proof.
  intros TT -> Tys Pr Cr Hcs (cr & Or & Jr).
  assert (Oop : ost (hd 0%N (t_lit t))).
  { revert TT. generalize (t_lit t). intros s TT.
    assert (Hs : s = [33%N] \/ s = [45%N] \/ s = [43; 43]%N \/ s = [45; 45]%N).
    { apply orb_true_iff in Tys as [Tys|Tys]; [apply orb_true_iff in Tys as [Tys|Tys];
        [apply orb_true_iff in Tys as [Tys|Tys]|]|]; apply Z.eqb_eq in Tys; rewrite Tys in TT;
        inversion TT; auto. }
    destruct Hs as [-> | [-> | [-> | ->]]]; (split; [split; [repeat split; discriminate|reflexivity]|reflexivity]). }
  exists (hd 0%N (t_lit t)). split; [exact Oop|].
  cbn [write_expr first_type]. rewrite Pr, Cr, !app_nil_r.
  intros b pd lv mp Hlv Hpd.
  set (g0 := G pd lv (t_comments t)).
  assert (Gg0 : wgap g0) by (apply G_gap; assumption).
  set (g := g0 ++ spf (t_lit t) (b ++ g0)).
  destruct (Jr ((b ++ g) ++ t_lit t) [] lv mp Hlv pend_ok_nil) as (g2 & body2 & W2 & Gg2 & Gn2 & (_ & _ & Gf2) & Hd2 & Lx2).
  exists g, (t_lit t ++ g2 ++ body2). split.
  { rewrite prun_fusion. fold g0. psimp. cbn [app]. rewrite app_nil_r.
    replace ((b ++ g0) ++ spf (t_lit t) (b ++ g0)) with (b ++ g) by (unfold g; rewrite app_assoc; reflexivity).
    rewrite W2. f_equal. rewrite <- !app_assoc. reflexivity. }
  split; [apply wgap_app; [exact Gg0|apply spf_gap]|].
  split.
  { intro E. unfold g in E. apply app_eq_nil in E as [E1 E2].
    destruct (spf_cases (t_lit t) (b ++ g0)) as [Q|[_ Q]]; [rewrite Q in E2; discriminate E2|].
    rewrite E1, app_nil_r in Q. exact Q. }
  split.
  { split.
    - intros H1 H2. unfold g. rewrite has_lf_app, spf_nolf, orb_false_r. apply G_nolf; assumption.
    - assert (Hsp : spf (t_lit t) (b ++ g0) = [] \/ spf (t_lit t) (b ++ g0) = [32%N]).
      { destruct (spf_cases (t_lit t) (b ++ g0)) as [->|[-> _]]; [right|left]; reflexivity. }
      unfold g. split; [apply GL_G_sp; assumption|apply GF_G_sp; assumption]. }
  split; [apply hd_app_ne; exact (type_text_nonempty _ _ TT)|].
  intros K HK gs l Tg Hl.
  assert (PB : pbnd (t_lit t) (hd 0%N (rta (g2 ++ body2) K))).
  { rewrite <- (app_nil_r body2). apply (pbnd_gap (b ++ g) (t_lit t) g2 body2 [] K cr Gg2 Hd2 Or). exact Gn2. }
  destruct (P_punct0_c (t_type t) (t_lit t) gs (g2 ++ body2) K l TT PB Tg Hl) as (t' & l1 & L1 & Ty1 & Li1 & Nl1 & R1 & C1).
  rewrite <- (app_nil_r body2) in R1.
  destruct (LxE_gap g2 body2 r _ cr [] K l1 Lx2 Gg2 Hd2 Or (kont_sub _ _ _ HK eq_refl) R1) as (eR & tsR & l2 & L2 & R2 & MR & SR & tq & tsq & _ & _ & _ & XR).
  exists (EUnary t' (t_lit t) eR), ([t'] ++ tsR), l2.
  split; [eapply lexes_app; eassumption|]. split; [exact R2|]. split; [|split].
  - intro R. cbn [m_expr app]. rewrite Ty1, Tys, Li1, str_eqb_refl. cbn [negb orb].
    rewrite eat_tok_refl. apply MR.
  - unfold shape_expr in *. cbn [tmap_expr]. rewrite SR. f_equal. apply norm_eq; congruence.
  - exists t', tsR. repeat split; try assumption; [rewrite !bnd_unary; apply XR|].
    rewrite <- C1. cbn [write_expr]. rewrite (prec_opt_shape _ _ SR), Pr, Cr, !app_nil_r.
    eapply WX_lead; [reflexivity|apply FF_fusion|]. intro mp2.
    rewrite !(PrettyWr.prun_cons indent), pt_fusion, fl_nil, !app_nil_r, pt_mapping, fl_nil, app_nil_r, pt_string, fl_nil.
    cbn [app].
    replace (((b ++ g0) ++ spf (t_lit t) (b ++ g0)) ++ t_lit t) with ((b ++ g) ++ t_lit t) by (unfold g; rewrite !app_assoc; reflexivity).
    wx_sub XR (@nil N) (Gf2 (ST_nil lv)). pfeq.
Qed.

Lemma P_postfix t l op pl ll :
  type_text (t_type t) = Some (t_lit t) -> op = t_lit t ->
  (t_type t =? T_INCREMENT) || (t_type t =? T_DECREMENT) = true ->
  prec_opt l = Some pl -> (pl <? A_PrecedencePostfix) = false -> t_comments t = [] ->
  PE l ll -> PE (EPostfix t l op) ll.
Proof.
  intros TT -> Tys Pl Cl Ecs (cl & Ol & Jl).
  assert (ND : t_type t <> T_DOT).
  { intro E. rewrite E in Tys. discriminate Tys. }
  exists cl. split; [exact Ol|].
  cbn [write_expr first_type]. rewrite Pl, Cl, !app_nil_r, Ecs.
  intros b pd lv mp Hlv Hpd.
  destruct (Jl b pd lv mp Hlv Hpd) as (g & body & W & Gg & Gn & Gl & Hd & Lx).
  exists g, (body ++ t_lit t). split.
  { psimp. rewrite W. psimp. cbn [app]. f_equal. rewrite <- !app_assoc. reflexivity. }
  split; [exact Gg|]. split; [exact Gn|]. split; [exact Gl|].
  split; [apply hd_app_ost; assumption|].
  intros K HK gs l0 Tg Hl0. rewrite rta_app in Hl0.
  rewrite (rta_tsafe _ K (type_text_tsafe _ _ TT)) in Hl0.
  destruct (Lx (t_lit t ++ K) (kont_type_text _ _ _ TT ND) gs l0 Tg Hl0)
    as (eL & tsL & l1 & L1 & R1 & ML & SL & t0 & ts0 & E0 & Ty0 & Nl0 & X0).
  assert (PB : pbnd (t_lit t) (hd 0%N (rta [] K))).
  { assert (Hs : t_lit t = [43; 43]%N \/ t_lit t = [45; 45]%N).
    { apply orb_true_iff in Tys as [T1|T1]; apply Z.eqb_eq in T1; rewrite T1 in TT; inversion TT; auto. }
    destruct Hs as [-> | ->]; exact I. }
  assert (R1' : l_rest l1 = rta ([] ++ t_lit t ++ []) K).
  { cbn [app]. rewrite app_nil_r, (rta_tsafe _ K (type_text_tsafe _ _ TT)). exact R1. }
  destruct (P_punct_c (t_type t) (t_lit t) [] [] K l1 TT PB wgap_nil R1') as (t' & l2 & L2 & Ty2 & Li2 & Nl2 & R2 & Cm').
  exists (EPostfix t' eL (t_lit t)), (tsL ++ [t']), l2.
  split; [eapply lexes_app; eassumption|]. split; [exact R2|]. split; [|split].
  - intro R. cbn [m_expr]. rewrite Ty2, Tys, Li2, str_eqb_refl, (Nl2 eq_refl). cbn [negb orb].
    rewrite <- app_assoc, ML. cbn [app]. apply eat_tok_refl.
  - unfold shape_expr in *. cbn [tmap_expr]. rewrite SL. f_equal. apply norm_eq; congruence.
  - exists t0, (ts0 ++ [t']). subst tsL. repeat split; try assumption; [apply X0|apply X0|rewrite !bnd_postfix; apply X0|].
    cbn [write_expr]. rewrite Cm', (prec_opt_shape _ _ SL), Pl, Cl, !app_nil_r. change (tcm []) with (@nil str).
    apply WX_nop. apply WX_ext; [apply X0|]. intro mp2.
    rewrite !(PrettyWr.prun_cons indent), pt_mapping, fl_nil, app_nil_r, pt_string, fl_nil, prun_nil. pfeq.
Qed.

(* ---------- comma-separated expressions ---------- *)

Definition PEx (e : expr) : Prop := exists le, PE e le.

Definition sepx (es : list expr) : list wop := sep_map [WRune 44%N; WSpace] (fun a => write_expr a ++ []) es.

Definition LxL (b : str) (pd : list N) (lv : Z) (body : str) (es : list expr) : Prop :=
  forall K, kont ENil K -> forall l, l_rest l = rta body K ->
    exists es' ts l', lexes l ts l' /\ l_rest l' = K /\
      (forall R, m_exprs m_expr es' (ts ++ R) = Some R) /\ map shape_expr es' = map shape_expr es /\
      nb (bnd_exprs es') = nb (bnd_exprs es) /\
      (ST pd lv -> forall mp2, prun (ps b pd lv mp2) (sepx es') = ps (b ++ body) (match es with [] => pd | _ => [] end) lv mp2).

Definition PL (ops : list wop) (es : list expr) : Prop :=
  forall b pd lv mp, 0 <= lv -> pend_ok pd -> exists body,
    prun (ps b pd lv mp) ops = ps (b ++ body) (match es with [] => pd | _ => [] end) lv mp /\ LxL b pd lv body es.

Lemma kont_comma {g} X K : kont g (rta (44%N :: X) K).
Proof. rewrite rta_cons_nb by discriminate. apply kont_cons; [reflexivity|discriminate]. Qed.

Lemma PL_sep es : Forall PEx es ->
  PL (sep_map [WRune 44%N; WSpace] (fun a => write_expr a ++ []) es) es.
Proof.
  induction 1 as [|x es (lx0 & cx & Ox & Jx) Hes IH]; intros b pd lv mp Hlv Hpd.
  - exists []. split; [rewrite app_nil_r; reflexivity|].
    intros K HK l Hl. exists [], [], l. repeat split; try constructor; [exact Hl|].
    intros _ mp2. unfold sepx. cbn [sep_map]. rewrite prun_nil, app_nil_r. reflexivity.
  - destruct (Jx b pd lv mp Hlv Hpd) as (g & body & W & Gg & _ & (_ & _ & Gfx) & Hd & Lx).
    destruct es as [|y es'].
    + exists (g ++ body). split.
      { rewrite sep_map_one. cbv beta. rewrite app_nil_r. exact W. }
      intros K HK l Hl. rewrite <- (app_nil_r body), app_assoc in Hl. rewrite <- app_assoc in Hl.
      destruct (LxE_gap g body x _ cx [] K l Lx Gg Hd Ox (kont_sub _ _ _ HK eq_refl) Hl) as (e' & ts & l' & L & R & M & S & tq & tsq & _ & _ & _ & Xq).
      exists [e'], ts, l'. repeat split; try assumption; [cbn [map]; rewrite S; reflexivity| |].
      * rewrite !bnd_exprs_cons. cbn [bnd_exprs flat_map]. rewrite !app_nil_r. apply Xq.
      * intros St mp2. unfold sepx. rewrite sep_map_one. cbv beta. rewrite app_nil_r.
        wx_sub Xq pd (Gfx St). reflexivity.
    + destruct (IH ((b ++ g ++ body) ++ [44%N]) [32%N] lv mp Hlv pend_ok_sp) as (body2 & W2 & Lx2).
      exists ((g ++ body) ++ 44%N :: body2). split.
      { rewrite sep_map_cons2. cbv beta. rewrite (app_nil_r (write_expr x)), !prun_app, W. psimp. cbn [app].
        rewrite W2. f_equal. rewrite <- !app_assoc. reflexivity. }
      intros K HK l Hl. rewrite <- !app_assoc in Hl.
      destruct (LxE_gap g body x _ cx (44%N :: body2) K l Lx Gg Hd Ox (kont_comma _ _) Hl)
        as (e' & ts & l1 & L1 & R1 & M1 & S1 & tq & tsq & _ & _ & _ & Xq).
      destruct (P_comma [] body2 K l1 wgap_nil R1) as (tc & l2 & L2 & Tc & R2).
      destruct (Lx2 K HK l2 R2) as (es2 & ts2 & l3 & L3 & R3 & M3 & S3 & X3 & W3).
      exists (e' :: es2), (ts ++ [tc] ++ ts2), l3.
      split; [eapply lexes_app; [exact L1|eapply lexes_app; eassumption]|]. split; [exact R3|].
      split; [|split; [|split]].
      * intro R. destruct es2 as [|e2 es2']; [discriminate S3|].
        cbn [m_exprs]. rewrite <- !app_assoc, M1. cbn [app eat]. rewrite Tc.
        change (T_COMMA =? T_COMMA) with true. cbn iota. apply M3.
      * cbn [map]. rewrite S1. f_equal. exact S3.
      * rewrite (bnd_exprs_cons e'), (bnd_exprs_cons x), !nb_app. f_equal; [apply Xq|exact X3].
      * intros St mp2. destruct es2 as [|e2 es2']; [discriminate S3|].
        unfold sepx. rewrite sep_map_cons2. cbv beta. rewrite (app_nil_r (write_expr e')), !(PrettyWr.prun_app indent).
        wx_sub Xq pd (Gfx St). psimp. cbn [app].
        setbuf ((b ++ g ++ body) ++ [44%N]).
        fold (sepx (e2 :: es2')). rewrite (W3 (ST_sp lv)). pfeq.
Qed.

Lemma kont_rparen' {g} K : kont g (rta [41%N] K).
Proof. rewrite rta_cons_nb by discriminate. apply kont_cons; [reflexivity|discriminate]. Qed.
Lemma kont_rbracket' {g} K : kont g (rta [93%N] K).
Proof. rewrite rta_cons_nb by discriminate. apply kont_cons; [reflexivity|discriminate]. Qed.

Lemma P_call t f args lf : t_type t = T_LPAREN -> t_lit t = [40%N] -> NLF (t_comments t) ->
  PE f lf -> Forall PEx args -> PE (ECall t f args) lf.
Proof.
  intros Ty Li Hcs (cf & Of & Jf) Ja.
  exists cf. split; [exact Of|].
  cbn [write_expr first_type].
  pose proof (PL_sep _ Ja) as JA.
  intros b pd lv mp Hlv Hpd.
  destruct (Jf b pd lv mp Hlv Hpd) as (g & body & W & Gg & Gn & Gl & Hd & Lx).
  set (gp := G [] lv (t_comments t)).
  assert (Ggp : wgap gp) by (apply G_gap; [exact indent_blank|exact pend_ok_nil|exact Hcs]).
  destruct (JA (((b ++ g ++ body) ++ gp) ++ [40%N]) [] (lv + 1) mp ltac:(lia) pend_ok_nil) as (body2 & W2 & Lx2).
  exists g, (body ++ gp ++ 40%N :: body2 ++ [41%N]). split.
  { rewrite prun_app, W. psimp. fold gp. cbn [app]. rewrite W2.
    assert (E : (match args with [] => @nil N | _ :: _ => [] end) = []) by (destruct args; reflexivity).
    rewrite E. rewrite prun_cons_ps, (pt_dec indent) by exact Hlv. psimp. cbn [app].
    f_equal. rewrite <- !app_assoc. reflexivity. }
  split; [exact Gg|]. split; [exact Gn|]. split; [exact Gl|].
  split; [apply hd_app_ost; assumption|].
  intros K HK gs l Tg Hl. rewrite rta_app in Hl.
  assert (KK : forall ge0, kont ge0 (rta (gp ++ 40%N :: body2 ++ [41%N]) K)).
  { intro ge0. apply kont_gap_char; [exact Ggp|reflexivity|discriminate|reflexivity|discriminate]. }
  destruct (Lx _ (KK _) gs l Tg Hl) as (eF & tsF & l1 & L1 & R1 & MF & SF & t0 & ts0 & E0 & Ty0 & Nl0 & X0).
  change (gp ++ 40%N :: body2 ++ [41%N]) with (gp ++ [40%N] ++ body2 ++ [41%N]) in R1.
  destruct (P_punct_c T_LPAREN [40%N] gp _ K l1 type_text_lparen ltac:(pfree) Ggp R1)
    as (t1 & l2 & L2 & Ty1 & Li1 & _ & R2 & Cm1).
  rewrite rta_app in R2.
  destruct (Lx2 _ (kont_rparen' K) l2 R2) as (es' & tsA & l3 & L3 & R3 & MA & SA & XA & WA).
  assert (R3' : l_rest l3 = rta ([] ++ [41%N] ++ []) K) by exact R3.
  destruct (P_punct T_RPAREN [41%N] [] [] K l3 type_text_rparen ltac:(pfree) wgap_nil R3')
    as (t2 & l4 & L4 & Ty2 & _ & _ & R4).
  exists (ECall t1 eF es'), (tsF ++ [t1] ++ tsA ++ [t2]), l4.
  split; [eapply lexes_app; [exact L1|eapply lexes_app; [exact L2|eapply lexes_app; eassumption]]|].
  split; [exact R4|]. split; [|split].
  - intro R. cbn [m_expr]. rewrite Ty1. change (T_LPAREN =? T_LPAREN) with true. cbn [negb].
    rewrite <- !app_assoc, MF. cbn [app]. rewrite eat_tok_refl, MA. cbn [app eat]. rewrite Ty2. reflexivity.
  - unfold shape_expr. cbn [tmap_expr]. change (tmap_expr norm_tok) with shape_expr. rewrite SF, SA. f_equal. apply norm_eq; congruence.
  - exists t0, (ts0 ++ [t1] ++ tsA ++ [t2]). subst tsF. repeat split; try assumption; [apply X0|apply X0| |].
    { rewrite !bnd_call, !nb_app. f_equal; [apply X0|exact XA]. }
    cbn [write_expr]. apply WX_ext; [apply X0|]. intro mp2.
    rewrite prun_lead, Cm1. unfold gp. rewrite (GF_G [] lv _ pend_ok_nil Hcs (ST_nil lv)). fold gp.
    rewrite !(PrettyWr.prun_cons indent), pt_rune, fl_nil, pt_inc. cbn [app]. rewrite (PrettyWr.prun_app indent).
    fold (sepx es'). rewrite (WA (ST_nil (lv + 1))).
    assert (E : (match args with [] => @nil N | _ :: _ => [] end) = []) by (destruct args; reflexivity).
    rewrite E. rewrite prun_cons_ps, (pt_dec indent) by exact Hlv. rewrite prun_cons_ps, pt_rune, fl_nil, prun_nil. pfeq.
Qed.

Lemma P_member_computed t o p lo lp0 : t_type t = T_LBRACKET -> t_lit t = [91%N] -> NLF (t_comments t) ->
  PE o lo -> PE p lp0 -> PE (EMember t o p true) lo.
Proof.
  intros Ty Li Hcs (co & Oo & Jo) (cp & Op & Jp).
  exists co. split; [exact Oo|].
  cbn [write_expr first_type]. rewrite !app_nil_r.
  intros b pd lv mp Hlv Hpd.
  destruct (Jo b pd lv mp Hlv Hpd) as (g & body & W & Gg & Gn & Gl & Hd & Lx).
  set (gp := G [] lv (t_comments t)).
  assert (Ggp : wgap gp) by (apply G_gap; [exact indent_blank|exact pend_ok_nil|exact Hcs]).
  destruct (Jp (((b ++ g ++ body) ++ gp) ++ [91%N]) [] lv mp Hlv pend_ok_nil) as (g2 & body2 & W2 & Gg2 & _ & (_ & _ & Gf2) & Hd2 & Lx2).
  exists g, (body ++ gp ++ 91%N :: g2 ++ body2 ++ [93%N]). split.
  { rewrite prun_app, W. psimp. fold gp. cbn [app]. rewrite W2. psimp. cbn [app].
    f_equal. rewrite <- !app_assoc. reflexivity. }
  split; [exact Gg|]. split; [exact Gn|]. split; [exact Gl|].
  split; [apply hd_app_ost; assumption|].
  intros K HK gs l Tg Hl. rewrite rta_app in Hl.
  assert (KK : forall ge0, kont ge0 (rta (gp ++ 91%N :: g2 ++ body2 ++ [93%N]) K)).
  { intro ge0. apply kont_gap_char; [exact Ggp|reflexivity|discriminate|reflexivity|discriminate]. }
  destruct (Lx _ (KK _) gs l Tg Hl) as (eO & tsO & l1 & L1 & R1 & MO & SO & t0 & ts0 & E0 & Ty0 & Nl0 & X0).
  change (gp ++ 91%N :: g2 ++ body2 ++ [93%N]) with (gp ++ [91%N] ++ g2 ++ body2 ++ [93%N]) in R1.
  destruct (P_punct_c T_LBRACKET [91%N] gp _ K l1 type_text_lbracket ltac:(pfree) Ggp R1)
    as (t1 & l2 & L2 & Ty1 & Li1 & _ & R2 & Cm1).
  destruct (LxE_gap g2 body2 p _ cp [93%N] K l2 Lx2 Gg2 Hd2 Op (kont_rbracket' K) R2)
    as (eP & tsP & l3 & L3 & R3 & MP & SP & tq & tsq & _ & _ & _ & XP).
  assert (R3' : l_rest l3 = rta ([] ++ [93%N] ++ []) K) by exact R3.
  destruct (P_punct T_RBRACKET [93%N] [] [] K l3 type_text_rbracket ltac:(pfree) wgap_nil R3')
    as (t2 & l4 & L4 & Ty2 & _ & _ & R4).
  exists (EMember t1 eO eP true), (tsO ++ [t1] ++ tsP ++ [t2]), l4.
  split; [eapply lexes_app; [exact L1|eapply lexes_app; [exact L2|eapply lexes_app; eassumption]]|].
  split; [exact R4|]. split; [|split].
  - intro R. cbn [m_expr]. rewrite <- !app_assoc, MO. rewrite Ty1. change (T_LBRACKET =? T_LBRACKET) with true. cbn [negb].
    cbn [app]. rewrite eat_tok_refl, MP. cbn [app eat]. rewrite Ty2. reflexivity.
  - unfold shape_expr. cbn [tmap_expr]. change (tmap_expr norm_tok) with shape_expr. rewrite SO, SP. f_equal. apply norm_eq; congruence.
  - exists t0, (ts0 ++ [t1] ++ tsP ++ [t2]). subst tsO. repeat split; try assumption; [apply X0|apply X0| |].
    { rewrite !bnd_member, !nb_app. f_equal; [apply X0|apply XP]. }
    cbn [write_expr negb andb app]. rewrite !app_nil_r. apply WX_ext; [apply X0|]. intro mp2.
    rewrite prun_lead, Cm1. unfold gp. rewrite (GF_G [] lv _ pend_ok_nil Hcs (ST_nil lv)). fold gp.
    rewrite !(PrettyWr.prun_cons indent), pt_rune, fl_nil. cbn [app]. rewrite (PrettyWr.prun_app indent).
    wx_sub XP (@nil N) (Gf2 (ST_nil lv)).
    rewrite prun_cons_ps, pt_rune, fl_nil, prun_nil. pfeq.
Qed.


Lemma kont_dot {ge} gp gi v K : wgap gp -> wgap gi -> isLetter (hd 0%N v) = true ->
  (gp = [] -> dot_ok ge = true) -> kont ge (rta (gp ++ 46%N :: gi ++ v) K).
Proof.
  intros Gp Gi HL Hdot.
  destruct (gap_split gp [46%N] (gi ++ v) K 46%N Gp eq_refl eq_refl ltac:(discriminate)) as (g' & E & _ & _ & E0 & E1 & _).
  change (gp ++ 46%N :: gi ++ v) with (gp ++ [46%N] ++ gi ++ v). rewrite E.
  destruct gp as [|x g0].
  - rewrite (E0 eq_refl). cbn [app]. rewrite rta_cons_nb by discriminate.
    split; cbn [hd]; [reflexivity|]. intros _. apply Hdot. reflexivity.
  - destruct (E1 ltac:(discriminate)) as (w & r & -> & Hw). apply kont_ws. exact Hw.
Qed.

Lemma P_member_dot t o i lo : t_type t = T_DOT -> t_lit t = [46%N] -> NLF (t_comments t) ->
  ident_lexical i = true -> NLF (t_comments (id_tok i)) -> obj_ok o = true ->
  PE o lo -> PE (EMember t o (EIdent i) false) lo.
Proof.
  intros Ty Li Hcs Hl3 Hci Hob (co & Oo & Jo).
  unfold ident_lexical in Hl3. apply andb_true_iff in Hl3 as [Hi H3]. apply andb_true_iff in Hi as [H1 H2].
  apply Z.eqb_eq in H1. apply str_eqb_spec in H2.
  destruct (lex1_word _ _ [] H3 eq_refl ltac:(discriminate) ltac:(discriminate) eq_refl) as (HL & _).
  exists co. split; [exact Oo|].
  cbn [write_expr first_type]. unfold write_ident. rewrite !app_nil_r.
  intros b pd lv mp Hlv Hpd.
  destruct (Jo b pd lv mp Hlv Hpd) as (g & body & W & Gg & Gn & Gl & Hd & Lx).
  (* the blank that keeps a decimal integer literal and the dot apart is part of the gap *)
  set (bl := if is_decimal_int o then [32%N] else @nil N).
  set (gp0 := G [] lv (t_comments t)).
  set (gp := bl ++ gp0).
  assert (Ggp : wgap gp).
  { apply wgap_app; [unfold bl; destruct (is_decimal_int o); [apply wgap_allws; reflexivity|apply wgap_nil]|].
    apply G_gap; [exact indent_blank|exact pend_ok_nil|exact Hcs]. }
  set (gi := G [] lv (t_comments (id_tok i))).
  assert (Ggi : wgap gi) by (apply G_gap; [exact indent_blank|exact pend_ok_nil|exact Hci]).
  exists g, (body ++ gp ++ 46%N :: gi ++ id_value i). split.
  { rewrite prun_app, W. unfold gp, gp0, bl. destruct (is_decimal_int o); cbn [negb andb app]; psimp; fold gi; cbn [app];
    f_equal; rewrite <- ?app_assoc; cbn [app]; rewrite <- ?app_assoc; reflexivity. }
  split; [exact Gg|]. split; [exact Gn|]. split; [exact Gl|].
  split; [apply hd_app_ost; assumption|].
  intros K HK gs l Tg Hl. rewrite rta_app in Hl.
  assert (Hdot : gp = [] -> dot_ok o = true).
  { unfold gp, bl, dot_ok. rewrite Hob. destruct (is_decimal_int o); [discriminate|reflexivity]. }
  destruct (Lx _ (kont_dot gp gi (id_value i) K Ggp Ggi HL Hdot) gs l Tg Hl)
    as (eO & tsO & l1 & L1 & R1 & MO & SO & t0 & ts0 & E0 & Ty0 & Nl0 & X0).
  change (gp ++ 46%N :: gi ++ id_value i) with (gp ++ [46%N] ++ gi ++ id_value i) in R1.
  destruct (P_punct_c T_DOT [46%N] gp _ K l1 type_text_dot ltac:(pfree) Ggp R1)
    as (t1 & l2 & L2 & Ty1 & Li1 & _ & R2 & Cm1).
  destruct HK as [HK1 HK2].
  rewrite <- (app_nil_r (id_value i)) in R2.
  destruct (P_word_c T_IDENT (id_value i) gi [] K l2 H3 eq_refl ltac:(discriminate) ltac:(discriminate) HK1 Ggi R2)
    as (t2 & l3 & L3 & Ty2 & Li2 & _ & R3 & Cm2).
  exists (EMember t1 eO (EIdent (mkident t2 (id_value i))) false), (tsO ++ [t1] ++ [t2]), l3.
  split; [eapply lexes_app; [exact L1|eapply lexes_app; eassumption]|].
  split; [exact R3|]. split; [|split].
  - intro R. cbn [m_expr]. rewrite <- !app_assoc, MO. rewrite Ty1. change (T_DOT =? T_DOT) with true. cbn [negb].
    cbn [app]. rewrite eat_tok_refl. unfold m_ident, ident_ok. cbn [id_tok id_value].
    rewrite Ty2, Li2, str_eqb_refl. change (T_IDENT =? T_IDENT) with true. cbn [andb]. apply eat_tok_refl.
  - unfold shape_expr. cbn [tmap_expr]. change (tmap_expr norm_tok) with shape_expr. unfold tmap_ident. cbn [id_tok id_value]. rewrite SO.
    rewrite (norm_eq t1 t), (norm_eq t2 (id_tok i)) by congruence. reflexivity.
  - exists t0, (ts0 ++ [t1] ++ [t2]). subst tsO. repeat split; try assumption; [apply X0|apply X0| |].
    { rewrite !bnd_member, !nb_app. f_equal. apply X0. }
    cbn [write_expr]. unfold write_ident. cbn [id_tok id_value negb andb]. rewrite !app_nil_r. apply WX_ext; [apply X0|]. intro mp2.
    rewrite (is_decimal_int_shape _ _ SO).
    assert (Cm1' : t_comments t1 = tcm gp0).
    { rewrite Cm1. unfold gp, bl. destruct (is_decimal_int o); [apply tcm_sp|reflexivity]. }
    assert (Wb : forall B, prun (ps B [] lv mp2) (if is_decimal_int o then [WRune 32%N] else []) = ps (B ++ bl) [] lv mp2).
    { intro B. unfold bl. destruct (is_decimal_int o).
      - rewrite prun_cons_ps, pt_rune, fl_nil, prun_nil. reflexivity.
      - rewrite prun_nil, app_nil_r. reflexivity. }
    rewrite (PrettyWr.prun_app indent), Wb.
    rewrite prun_lead, Cm1'. unfold gp0. rewrite (GF_G [] lv _ pend_ok_nil Hcs (ST_nil lv)). fold gp0.
    rewrite !(PrettyWr.prun_cons indent), pt_rune, fl_nil. cbn [app].
    rewrite <- !(PrettyWr.prun_cons indent), prun_lead_named, Cm2. unfold gi.
    rewrite (GF_G [] lv _ pend_ok_nil Hci (ST_nil lv)). fold gi.
    rewrite prun_cons_ps, pt_string, fl_nil, prun_nil. unfold gp. pfeq.
Qed.

Lemma P_array lb es rb : punct lb T_LBRACKET = true -> punct rb T_RBRACKET = true ->
  NLF (t_comments lb) -> NLF (t_comments rb) ->
  Forall PEx es -> PE (EArray lb es rb) (t_comments lb).
Proof.
  intros Hl1 Hl2 Hc1 Hc2 Ja.
  destruct (punct_inv _ _ Hl1) as [Ty1 TT1]. rewrite type_text_lbracket in TT1. inversion TT1 as [Li1].
  destruct (punct_inv _ _ Hl2) as [Ty2 TT2]. rewrite type_text_rbracket in TT2. inversion TT2 as [Li2].
  exists 91%N. split; [split; [split; [repeat split; discriminate|reflexivity]|reflexivity]|].
  cbn [write_expr first_type]. rewrite Ty1.
  pose proof (PL_sep _ Ja) as JA.
  intros b pd lv mp Hlv Hpd.
  destruct (JA ((b ++ G pd lv (t_comments lb)) ++ [91%N]) [] (lv + 1) mp ltac:(lia) pend_ok_nil) as (body2 & W2 & Lx2).
  set (gc := Gc lv (t_comments rb)).
  assert (Ggc : wgap gc) by (apply Gc_gap; [exact indent_blank|exact Hc2]).
  exists (G pd lv (t_comments lb)), (91%N :: body2 ++ gc ++ [93%N]). split.
  { psimp. cbn [app]. rewrite W2.
    assert (E : (match es with [] => @nil N | _ :: _ => [] end) = []) by (destruct es; reflexivity).
    rewrite E. rewrite prun_close by exact Hlv. rewrite prun_nil. fold gc.
    f_equal. rewrite <- !app_assoc. reflexivity. }
  split; [apply G_gap; assumption|].
  split; [intros _; apply nofuse_other; discriminate|].
  split; [split; [intros H1 H2; apply G_nolf; assumption|split; [apply GL_G; assumption|apply GF_G; assumption]]|]. split; [reflexivity|].
  intros K HK gs l Tg Hl.
  change (91%N :: body2 ++ gc ++ [93%N]) with ([91%N] ++ body2 ++ gc ++ [93%N]) in Hl.
  destruct (P_punct0_c T_LBRACKET [91%N] gs _ K l type_text_lbracket ltac:(pfree) Tg Hl)
    as (t1 & l2 & L2 & T1 & I1 & N1 & R2 & C1).
  rewrite rta_app in R2.
  assert (KK : forall ge0, kont ge0 (rta (gc ++ [93%N]) K)).
  { intro ge0. apply kont_gap_char; [exact Ggc|reflexivity|discriminate|reflexivity|discriminate]. }
  destruct (Lx2 _ (KK _) l2 R2) as (es' & tsA & l3 & L3 & R3 & MA & SA & XA & WA).
  rewrite <- (app_nil_r [93%N]) in R3.
  destruct (P_punct_c T_RBRACKET [93%N] gc [] K l3 type_text_rbracket ltac:(pfree) Ggc R3)
    as (t2 & l4 & L4 & T2 & I2 & _ & R4 & Cm2).
  exists (EArray t1 es' t2), ([t1] ++ tsA ++ [t2]), l4.
  split; [eapply lexes_app; [exact L2|eapply lexes_app; eassumption]|].
  split; [exact R4|]. split; [|split].
  - intro R. cbn [m_expr]. rewrite T1, T2. change (T_LBRACKET =? T_LBRACKET) with true.
    change (T_RBRACKET =? T_RBRACKET) with true. cbn [negb orb app].
    rewrite eat_tok_refl, <- app_assoc, MA. cbn [app]. apply eat_tok_refl.
  - unfold shape_expr. cbn [tmap_expr]. change (tmap_expr norm_tok) with shape_expr. rewrite SA.
    rewrite (norm_eq t1 lb), (norm_eq t2 rb) by congruence. reflexivity.
  - exists t1, (tsA ++ [t2]). repeat split; try assumption.
    rewrite <- C1. eapply WX_lead; [reflexivity|apply FF_mapping|]. intro mp2.
    rewrite !(PrettyWr.prun_cons indent), pt_mapping, fl_nil, app_nil_r, pt_rune, fl_nil, pt_inc. cbn [app].
    rewrite (PrettyWr.prun_app indent). fold (sepx es'). rewrite (WA (ST_nil (lv + 1))).
    assert (E : (match es with [] => @nil N | _ :: _ => [] end) = []) by (destruct es; reflexivity).
    rewrite E. rewrite prun_close by exact Hlv. rewrite prun_nil, Cm2. unfold gc. rewrite (Gc_tcm lv _ Hc2). pfeq.
Qed.

(* ---------- object literals ---------- *)

Definition seppr (gl : list (expr * expr)) : list wop := sep_map [WRune 44%N; WSpace] prop_ops gl.

Definition LxPR (b : str) (pd : list N) (lv : Z) (body : str) (gl : list (expr * expr)) : Prop :=
  forall K, kont ENil K -> forall l, l_rest l = rta body K ->
    exists ps' ts l', lexes l ts l' /\ l_rest l' = K /\
      (forall R, m_props m_expr ps' (ts ++ R) = Some R) /\ map shp ps' = map shp gl /\
      nb (bnd_props ps') = nb (bnd_props gl) /\
      (ST pd lv -> forall mp2, prun (ps b pd lv mp2) (seppr ps') = ps (b ++ body) (match gl with [] => pd | _ => [] end) lv mp2).

Definition PPR (ops : list wop) (gl : list (expr * expr)) : Prop :=
  forall b pd lv mp, 0 <= lv -> pend_ok pd -> exists body,
    prun (ps b pd lv mp) ops = ps (b ++ body) (match gl with [] => pd | _ => [] end) lv mp /\ LxPR b pd lv body gl.

Lemma kont_colon {g} X K : kont g (rta (58%N :: X) K).
Proof. rewrite rta_cons_nb by discriminate. apply kont_cons; [reflexivity|discriminate]. Qed.

Lemma PPR_sep gl : Forall (fun kv => key_ok (fst kv) = true /\ PEx (fst kv) /\ PEx (snd kv)) gl ->
  PPR (sep_map [WRune 44%N; WSpace] prop_ops gl) gl.
Proof.
  induction 1 as [|[k v] gl (Kk & (lk & ck & Ok & Jk) & (lv0 & cv & Ov & Jv)) Hps IH]; intros b pd lv mp Hlv Hpd.
  - exists []. split; [rewrite app_nil_r; reflexivity|].
    intros K HK l Hl. exists [], [], l. repeat split; try constructor; [exact Hl|].
    intros _ mp2. unfold seppr. cbn [sep_map]. rewrite prun_nil, app_nil_r. reflexivity.
  - cbn [fst snd] in *.
    destruct (Jk b pd lv mp Hlv Hpd) as (g & body & W & Gg & _ & (_ & _ & Gfk) & Hd & Lx).
    destruct (Jv ((b ++ g ++ body) ++ [58%N]) [32%N] lv mp Hlv pend_ok_sp) as (g2 & body2 & W2 & Gg2 & _ & (_ & _ & Gfv) & Hd2 & Lx2).
    assert (ONE : forall X K, kont ENil (rta X K) -> forall l, l_rest l = rta (g ++ body ++ 58%N :: g2 ++ body2 ++ X) K ->
              exists k' v' ts l', lexes l ts l' /\ l_rest l' = rta X K /\ key_ok k' = true /\
                (forall R, exists R1, m_expr k' (ts ++ R) = Some R1 /\
                   exists tc R2, eat T_COLON R1 = Some (tc, R2) /\ m_expr v' R2 = Some R) /\
                shape_expr k' = shape_expr k /\ shape_expr v' = shape_expr v /\
                nb (bnd_expr k') = nb (bnd_expr k) /\ nb (bnd_expr v') = nb (bnd_expr v) /\
                (ST pd lv -> forall mp2, prun (ps b pd lv mp2) (prop_ops (k', v')) =
                    ps (b ++ g ++ body ++ 58%N :: g2 ++ body2) [] lv mp2)).
    { intros X K HK l Hl.
      destruct (LxE_gap g body k _ ck (58%N :: g2 ++ body2 ++ X) K l Lx Gg Hd Ok (kont_colon _ _) Hl)
        as (k' & tsk & l1 & L1 & R1 & Mk & Sk & tq & tsq & _ & _ & _ & Xk).
      destruct (P_colon [] _ K l1 wgap_nil R1) as (tc & l2 & L2 & Tc & R2).
      destruct (LxE_gap g2 body2 v _ cv X K l2 Lx2 Gg2 Hd2 Ov (kont_sub _ _ _ HK eq_refl) R2) as (v' & tsv & l3 & L3 & R3 & Mv & Sv & tq2 & tsq2 & _ & _ & _ & Xv).
      exists k', v', (tsk ++ [tc] ++ tsv), l3.
      split; [eapply lexes_app; [exact L1|eapply lexes_app; eassumption]|]. split; [exact R3|].
      split; [rewrite (key_ok_shape _ _ Sk); exact Kk|]. split; [|split; [exact Sk|split; [exact Sv|split; [apply Xk|split; [apply Xv|]]]]].
      - intro R. eexists. rewrite <- !app_assoc. split; [apply Mk|].
      cbn [app eat]. rewrite Tc. change (T_COLON =? T_COLON) with true. cbn iota.
        do 2 eexists. split; [reflexivity|apply Mv].
      - intros St mp2. unfold prop_ops. cbn [fst snd]. rewrite app_nil_r, (PrettyWr.prun_app indent).
        wx_sub Xk pd (Gfk St). rewrite !(PrettyWr.prun_cons indent), pt_rune, fl_nil, pt_space, add_pend_nil. cbn [app].
        setbuf ((b ++ g ++ body) ++ [58%N]).
        wx_sub Xv [32%N] (Gfv (ST_sp lv)). pfeq. }
    destruct gl as [|kv2 gl'].
    + exists (g ++ body ++ 58%N :: g2 ++ body2). split.
      { rewrite sep_map_one. unfold prop_ops. cbn [fst snd]. rewrite app_nil_r, prun_app, W. psimp. cbn [app]. rewrite W2.
        f_equal. rewrite <- !app_assoc. reflexivity. }
      intros K HK l Hl.
      destruct (ONE [] K HK l) as (k' & v' & ts & l' & L & R & Kk' & M & Sk & Sv & Bk & Bv & Wkv).
      { rewrite Hl, !app_nil_r. reflexivity. }
      exists [(k', v')], ts, l'. split; [exact L|]. split; [exact R|]. split; [|split; [|split]].
      * intro R0. cbn [m_props]. rewrite Kk'. cbn [negb].
        destruct (M R0) as (R1 & -> & tc & R2 & -> & ->). reflexivity.
      * cbn [map]. unfold shp. cbn [fst snd]. rewrite Sk, Sv. reflexivity.
      * rewrite !bnd_props_cons, !nb_app. cbn [bnd_props flat_map]. rewrite Bk, Bv. reflexivity.
      * intros St mp2. unfold seppr. rewrite sep_map_one, (Wkv St). reflexivity.
    + destruct (IH ((((b ++ g ++ body) ++ [58%N]) ++ g2 ++ body2) ++ [44%N]) [32%N] lv mp Hlv pend_ok_sp) as (body3 & W3 & Lx3).
      exists ((g ++ body ++ 58%N :: g2 ++ body2) ++ 44%N :: body3). split.
      { rewrite sep_map_cons2. unfold prop_ops at 1. cbn [fst snd]. rewrite app_nil_r, !prun_app, W. psimp. cbn [app].
        rewrite W2. psimp. cbn [app]. rewrite W3. f_equal. rewrite <- !app_assoc. cbn [app]. rewrite <- !app_assoc. reflexivity. }
      intros K HK l Hl.
      destruct (ONE (44%N :: body3) K (kont_comma _ _) l) as (k' & v' & ts & l1 & L1 & R1 & Kk' & M & Sk & Sv & Bk & Bv & Wkv).
      { rewrite Hl, <- !app_assoc. cbn [app]. rewrite <- !app_assoc. reflexivity. }
      destruct (P_comma [] body3 K l1 wgap_nil R1) as (tc & l2 & L2 & Tc & R2).
      destruct (Lx3 K HK l2 R2) as (ps2 & ts2 & l3 & L3 & R3 & M3 & S3 & X3 & W3').
      exists ((k', v') :: ps2), (ts ++ [tc] ++ ts2), l3.
      split; [eapply lexes_app; [exact L1|eapply lexes_app; eassumption]|]. split; [exact R3|].
      split; [|split; [|split]].
      * intro R0. destruct ps2 as [|p2 ps2']; [discriminate S3|].
        cbn [m_props]. rewrite Kk'. cbn [negb]. rewrite <- !app_assoc.
        destruct (M ([tc] ++ ts2 ++ R0)) as (Ra & -> & tcc & Rb & -> & ->).
        cbn [app eat]. rewrite Tc. change (T_COMMA =? T_COMMA) with true. cbn iota. apply M3.
      * cbn [map]. unfold shp at 1 3. cbn [fst snd]. rewrite Sk, Sv. f_equal. exact S3.
      * rewrite (bnd_props_cons k'), (bnd_props_cons k), !nb_app, Bk, Bv, X3. reflexivity.
      * intros St mp2. destruct ps2 as [|p2 ps2']; [discriminate S3|].
        unfold seppr. rewrite sep_map_cons2, !(PrettyWr.prun_app indent), (Wkv St).
        rewrite !(PrettyWr.prun_cons indent), pt_rune, fl_nil, pt_space, add_pend_nil, prun_nil. cbn [app].
        setbuf ((((b ++ g ++ body) ++ [58%N]) ++ g2 ++ body2) ++ [44%N]).
        fold (seppr (p2 :: ps2')). rewrite (W3' (ST_sp lv)). pfeq.
Qed.

Lemma P_object lb gl rb : punct lb T_LBRACE = true ->
  match gl with [] => tok_eqb rb zero_token | _ => punct rb T_RBRACE end = true ->
  NLF (t_comments lb) -> NLF (t_comments rb) ->
  Forall (fun kv => key_ok (fst kv) = true /\ PEx (fst kv) /\ PEx (snd kv)) gl ->
  PE (EObject lb gl rb) (t_comments lb).
Proof.
  intros Hl1 Hl3 Hc1 Hc2 Jp.
  destruct (punct_inv _ _ Hl1) as [Ty1 TT1]. rewrite type_text_lbrace in TT1. inversion TT1 as [Li1].
  exists 123%N. split; [split; [split; [repeat split; discriminate|reflexivity]|reflexivity]|].
  cbn [write_expr first_type]. rewrite Ty1.
  pose proof (PPR_sep _ Jp) as JA.
  intros b pd lv mp Hlv Hpd.
  destruct (JA ((b ++ G pd lv (t_comments lb)) ++ [123%N]) [] (lv + 1) mp ltac:(lia) pend_ok_nil) as (body2 & W2 & Lx2).
  set (gc := Gc lv (t_comments rb)).
  assert (Ggc : wgap gc) by (apply Gc_gap; [exact indent_blank|exact Hc2]).
  exists (G pd lv (t_comments lb)), (123%N :: body2 ++ gc ++ [125%N]). split.
  { psimp. cbn [app]. fold prop_ops. change (fun prop : expr * expr => prop_ops prop) with prop_ops. rewrite W2.
    assert (E : (match gl with [] => @nil N | _ :: _ => [] end) = []) by (destruct gl; reflexivity).
    rewrite E. rewrite prun_close by exact Hlv. rewrite prun_nil. fold gc.
    f_equal. rewrite <- !app_assoc. reflexivity. }
  split; [apply G_gap; assumption|].
  split; [intros _; apply nofuse_other; discriminate|].
  split; [split; [intros H1 H2; apply G_nolf; assumption|split; [apply GL_G; assumption|apply GF_G; assumption]]|]. split; [reflexivity|].
  intros K HK gs l Tg Hl.
  change (123%N :: body2 ++ gc ++ [125%N]) with ([123%N] ++ body2 ++ gc ++ [125%N]) in Hl.
  destruct (P_punct0_c T_LBRACE [123%N] gs _ K l type_text_lbrace ltac:(pfree) Tg Hl)
    as (t1 & l2 & L2 & T1 & I1 & N1 & R2 & C1).
  rewrite rta_app in R2.
  assert (KK : forall ge0, kont ge0 (rta (gc ++ [125%N]) K)).
  { intro ge0. apply kont_gap_char; [exact Ggc|reflexivity|discriminate|reflexivity|discriminate]. }
  destruct (Lx2 _ (KK _) l2 R2) as (ps' & tsA & l3 & L3 & R3 & MA & SA & XA & WA).
  rewrite <- (app_nil_r [125%N]) in R3.
  destruct (P_punct_c T_RBRACE [125%N] gc [] K l3 type_text_rbrace ltac:(pfree) Ggc R3)
    as (t2 & l4 & L4 & T2 & I2 & _ & R4 & Cm2).
  destruct gl as [|kv ps0].
  - apply tok_eqb_eq in Hl3. subst rb.
    destruct ps' as [|? ?]; [|discriminate SA].
    assert (tsA = []).
    { specialize (MA []). cbn [m_props] in MA. rewrite app_nil_r in MA. inversion MA. reflexivity. }
    subst tsA.
    exists (EObject t1 [] zero_token), ([t1] ++ [] ++ [t2]), l4.
    split; [eapply lexes_app; [exact L2|eapply lexes_app; eassumption]|].
    split; [exact R4|]. split; [|split].
    + intro R. cbn [m_expr]. rewrite T1. change (T_LBRACE =? T_LBRACE) with true. cbn [negb app].
      rewrite eat_tok_refl. rewrite tok_eqb_refl. cbn [app eat]. rewrite T2. reflexivity.
    + unfold shape_expr. cbn [tmap_expr map]. rewrite (norm_eq t1 lb) by congruence. reflexivity.
    + exists t1, ([] ++ [t2]). repeat split; try assumption.
      rewrite <- C1. eapply WX_lead; [reflexivity|apply FF_mapping|]. intro mp2.
      rewrite !(PrettyWr.prun_cons indent), pt_mapping, fl_nil, app_nil_r, pt_rune, fl_nil, pt_inc. cbn [app sep_map].
      change (t_comments zero_token) with (@nil str).
      pose proof (WA (ST_nil (lv + 1)) mp2) as Q. unfold seppr in Q. cbn [sep_map] in Q. rewrite prun_nil in Q. rewrite Q.
      rewrite prun_close by exact Hlv. rewrite prun_nil. unfold gc. cbn [t_comments zero_token PrettyWr.Gc]. pfeq.
  - destruct (punct_inv _ _ Hl3) as [Ty2 TT2]. rewrite type_text_rbrace in TT2. inversion TT2 as [Li2].
    destruct ps' as [|p' ps'']; [discriminate SA|].
    exists (EObject t1 (p' :: ps'') t2), ([t1] ++ tsA ++ [t2]), l4.
    split; [eapply lexes_app; [exact L2|eapply lexes_app; eassumption]|].
    split; [exact R4|]. split; [|split].
    + intro R. cbn [m_expr]. rewrite T1, T2. change (T_LBRACE =? T_LBRACE) with true.
      change (T_RBRACE =? T_RBRACE) with true. cbn [negb app].
      rewrite eat_tok_refl, <- app_assoc, MA. cbn [app]. apply eat_tok_refl.
    + unfold shape_expr. cbn [tmap_expr]. change (tmap_expr norm_tok) with shape_expr.
      fold shp. change (fun kv : expr * expr => shp kv) with shp.
      rewrite (norm_eq t1 lb), (norm_eq t2 rb) by congruence.
      f_equal. exact SA.
    + exists t1, (tsA ++ [t2]). repeat split; try assumption; [rewrite !bnd_object; exact XA|].
      rewrite <- C1. eapply WX_lead; [reflexivity|apply FF_mapping|]. intro mp2.
      rewrite !(PrettyWr.prun_cons indent), pt_mapping, fl_nil, app_nil_r, pt_rune, fl_nil, pt_inc. cbn [app].
      fold prop_ops. change (fun prop : expr * expr => prop_ops prop) with prop_ops.
      rewrite (PrettyWr.prun_app indent). fold (seppr (p' :: ps'')). rewrite (WA (ST_nil (lv + 1))).
      rewrite prun_close by exact Hlv. rewrite prun_nil, Cm2. unfold gc. rewrite (Gc_tcm lv _ Hc2). pfeq.
Qed.

(* ================================================================== *)
(* 4. names and keywords behind a gap                                  *)
(* ================================================================== *)

Lemma P_ident_step i g X K l : ident_lexical i = true -> wgap g ->
  is_ident_char (hd 0%N (rta X K)) = false -> l_rest l = rta (g ++ id_value i ++ X) K ->
  exists t l', lexes l [t] l' /\ t_type t = T_IDENT /\ t_lit t = id_value i /\ l_rest l' = rta X K /\
    (forall R, m_ident (mkident t (id_value i)) (t :: R) = Some R) /\
    tmap_ident norm_tok (mkident t (id_value i)) = tmap_ident norm_tok i /\ t_comments t = tcm g.
Proof.
  intros H Gg HK Hl. unfold ident_lexical in H. apply andb_true_iff in H as [H H3].
  apply andb_true_iff in H as [H1 H2]. apply Z.eqb_eq in H1. apply str_eqb_spec in H2.
  destruct (P_word_c _ _ g X K l H3 eq_refl ltac:(discriminate) ltac:(discriminate) HK Gg Hl)
    as (t & l' & L & Ty & Li & _ & R & Cm).
  exists t, l'. repeat split; try assumption.
  - intro R0. unfold m_ident, ident_ok. cbn [id_tok id_value]. rewrite Ty, Li, str_eqb_refl.
    change (T_IDENT =? T_IDENT) with true. cbn [andb]. apply eat_tok_refl.
  - unfold tmap_ident. cbn [id_tok id_value]. rewrite (norm_eq t (id_tok i)) by congruence. reflexivity.
Qed.

Lemma wgap_sp : wgap [32%N]. Proof. apply wgap_allws. reflexivity. Qed.
Lemma wgap_sp_app g : wgap g -> wgap (32%N :: g).
Proof. intro H. apply (wgap_app [32%N] g wgap_sp H). Qed.

Lemma has_lf_sp g : has_lf (32%N :: g) = has_lf g.
Proof. rewrite has_lf_cons. reflexivity. Qed.


(* ---------- let name [= value] ---------- *)

Definition let_tail (t : token) (name : ident) (v : expr) : list wop :=
  WMapping (t_start t) :: WString (kw_let ++ [32%N]) :: write_ident name ++
  (if negb (is_enil v) then WSpace :: WRune 61%N :: WSpace :: write_expr v ++ [] else []).

Lemma let_ops_eq t name v : let_ops t name v = WComments (t_comments t) :: let_tail t name v.
Proof. reflexivity. Qed.

Definition LxLet (b : str) (lv : Z) (g0 body : str) (t : token) (name : ident) (v : expr) : Prop :=
  forall K, kont ENil K -> forall gs l, trv gs -> l_rest l = gs ++ rta body K ->
    exists t1 n' v' ts l', lexes l (t1 :: id_tok n' :: ts) l' /\ l_rest l' = K /\
      t_type t1 = T_LET /\ norm_tok t1 = norm_tok t /\ t_nl t1 = has_lf gs /\ t_comments t1 = tcm gs /\
      (forall R, m_ident n' (id_tok n' :: R) = Some R) /\ tmap_ident norm_tok n' = tmap_ident norm_tok name /\
      shape_expr v' = shape_expr v /\ nb (bnd_expr v') = nb (bnd_expr v) /\
      (forall tt mp2, prun (ps (b ++ g0) [] lv mp2) (let_tail tt n' v') = ps (b ++ g0 ++ body) [] lv mp2) /\
      ((is_enil v = true /\ ts = []) \/
       (is_enil v = false /\ exists teq tsv, ts = teq :: tsv /\ t_type teq = T_ASSIGN /\
          forall R, m_expr v' (tsv ++ R) = Some R)).

Definition PLet (t : token) (name : ident) (v : expr) : Prop :=
  forall b pd lv mp, 0 <= lv -> pend_ok pd -> exists body,
    prun (ps b pd lv mp) (let_ops t name v) = ps (b ++ G pd lv (t_comments t) ++ body) [] lv mp /\
    hd 0%N body = 108%N /\ LxLet b lv (G pd lv (t_comments t)) body t name v.

Lemma P_let_core t name v lv0 : t_type t = T_LET -> t_lit t = kw_let -> ident_lexical name = true ->
  NLF (t_comments (id_tok name)) -> (is_enil v = false -> PE v lv0) -> PLet t name v.
Proof.
  intros Ty Li Hn Hcn Jv b pd lv mp Hlv Hpd.
  pose proof (ident_first _ Hn) as HL.
  set (gn := G [] lv (t_comments (id_tok name))).
  assert (Ggn : wgap (32%N :: gn)).
  { apply wgap_sp_app. apply G_gap; [exact indent_blank|exact pend_ok_nil|exact Hcn]. }
  destruct (is_enil v) eqn:Ev.
  - exists (kw_let ++ (32%N :: gn) ++ id_value name). split.
    { unfold let_ops, write_ident. rewrite Ev. cbn [negb]. rewrite app_nil_r. psimp. fold gn. cbn [app].
      f_equal. unfold kw_let. rewrite <- !app_assoc. reflexivity. }
    split; [reflexivity|].
    intros K [HK _] gs l Tg Hl.
    destruct (P_word0_c T_LET kw_let gs ((32%N :: gn) ++ id_value name) K l relex_let eq_refl ltac:(discriminate)
                ltac:(discriminate)) as (t1 & l1 & L1 & Ty1 & Li1 & Nl1 & R1 & C1); [|exact Tg|exact Hl|].
    { rewrite <- (app_nil_r (id_value name)).
      apply (nic_gap (32%N :: gn) (id_value name) [] K _ Ggn eq_refl (letter_sst _ HL)). discriminate. }
    rewrite <- (app_nil_r (id_value name)) in R1.
    destruct (P_ident_step name (32%N :: gn) [] K l1 Hn Ggn HK R1) as (t2 & l2 & L2 & Ty2 & Li2 & R2 & M2 & S2 & Cm2).
    exists t1, (mkident t2 (id_value name)), v, [], l2. cbn [id_tok].
    split; [exact (lexes_app _ _ _ _ _ L1 L2)|]. split; [exact R2|]. split; [exact Ty1|].
    split; [apply norm_eq; congruence|]. split; [exact Nl1|]. split; [exact C1|]. split; [exact M2|]. split; [exact S2|]. split; [reflexivity|].
    split; [reflexivity|]. split; [|left; split; [exact Ev|reflexivity]].
    intros tt mp2. unfold let_tail, write_ident. cbn [id_tok id_value]. rewrite Ev. cbn [negb]. rewrite app_nil_r.
    rewrite !(PrettyWr.prun_cons indent), pt_mapping, fl_nil, app_nil_r, pt_string, fl_nil. cbn [app].
    rewrite <- !(PrettyWr.prun_cons indent), prun_lead_named, Cm2, tcm_sp. unfold gn.
    rewrite (GF_G [] lv _ pend_ok_nil Hcn (ST_nil lv)). fold gn.
    rewrite prun_cons_ps, pt_string, fl_nil, prun_nil. pfeq.
  - destruct (Jv eq_refl) as (cv & Ov & J).
    destruct (J ((((b ++ G pd lv (t_comments t)) ++ kw_let ++ [32%N]) ++ gn ++ id_value name) ++ [32%N; 61%N]) [32%N] lv mp Hlv pend_ok_sp)
      as (g2 & body2 & W & Gg2 & Gn2 & (_ & _ & Gf2) & Hd2 & Lx).
    exists (kw_let ++ (32%N :: gn) ++ id_value name ++ [32%N; 61%N] ++ g2 ++ body2). split.
    { unfold let_ops, write_ident. rewrite Ev. cbn [negb]. psimp. fold gn. cbn [app].
      match goal with |- prun (ps ?x _ _ _) _ = _ =>
        replace x with ((((b ++ G pd lv (t_comments t)) ++ kw_let ++ [32%N]) ++ gn ++ id_value name) ++ [32%N; 61%N])
          by (unfold kw_let; rewrite <- !app_assoc; reflexivity) end.
      rewrite W. f_equal. unfold kw_let. rewrite <- !app_assoc. reflexivity. }
    split; [reflexivity|].
    intros K HK gs l Tg Hl.
    destruct (P_word0_c T_LET kw_let gs ((32%N :: gn) ++ id_value name ++ [32%N; 61%N] ++ g2 ++ body2) K l relex_let eq_refl ltac:(discriminate)
                ltac:(discriminate)) as (t1 & l1 & L1 & Ty1 & Li1 & Nl1 & R1 & C1); [|exact Tg|exact Hl|].
    { apply (nic_gap (32%N :: gn) (id_value name) _ K _ Ggn eq_refl (letter_sst _ HL)). discriminate. }

    assert (NI : is_ident_char (hd 0%N (rta ([32%N; 61%N] ++ g2 ++ body2) K)) = false).
    { change ([32%N; 61%N] ++ g2 ++ body2) with ([32%N] ++ [61%N] ++ g2 ++ body2).
      apply (nic_gap [32%N] [61%N] _ K 61%N wgap_sp eq_refl); [split; [reflexivity|discriminate]|discriminate]. }
    destruct (P_ident_step name (32%N :: gn) ([32%N; 61%N] ++ g2 ++ body2) K l1 Hn Ggn NI R1)
      as (t2 & l2 & L2 & Ty2 & Li2 & R2 & M2 & S2 & Cm2).
    change ([32%N; 61%N] ++ g2 ++ body2) with ([32%N] ++ [61%N] ++ g2 ++ body2) in R2.
    assert (PB : pbnd [61%N] (hd 0%N (rta (g2 ++ body2) K))).
    { rewrite <- (app_nil_r body2).
      apply (pbnd_gap ((((b ++ G pd lv (t_comments t)) ++ kw_let ++ [32%N]) ++ gn ++ id_value name) ++ [32%N]) [61%N] g2 body2 [] K cv Gg2 Hd2 Ov).
      intro E. specialize (Gn2 E). rewrite <- app_assoc. exact Gn2. }
    destruct (P_punct T_ASSIGN [61%N] [32%N] (g2 ++ body2) K l2 type_text_assign PB wgap_sp R2)
      as (t3 & l3 & L3 & Ty3 & _ & _ & R3).
    rewrite <- (app_nil_r body2) in R3.
    destruct (LxE_gap g2 body2 v _ cv [] K l3 Lx Gg2 Hd2 Ov (kont_sub _ _ _ HK eq_refl) R3) as (v' & tsv & l4 & L4 & R4 & Mv & Sv & tq & tsq & _ & _ & _ & Xv).
    exists t1, (mkident t2 (id_value name)), v', (t3 :: tsv), l4. cbn [id_tok].
    split; [exact (lexes_app _ _ _ _ _ L1 (lexes_app _ _ _ _ _ L2 (lexes_app _ _ _ _ _ L3 L4)))|].
    split; [exact R4|]. split; [exact Ty1|].
    split; [apply norm_eq; congruence|]. split; [exact Nl1|]. split; [exact C1|]. split; [exact M2|]. split; [exact S2|]. split; [exact Sv|].
    split; [apply Xv|]. split; [|right; split; [exact Ev|]; exists t3, tsv; split; [reflexivity|]; split; [exact Ty3|exact Mv]].
    intros tt mp2. unfold let_tail, write_ident. cbn [id_tok id_value]. rewrite (is_enil_shape _ _ Sv), Ev. cbn [negb].
    rewrite !(PrettyWr.prun_cons indent), pt_mapping, fl_nil, app_nil_r, pt_string, fl_nil. cbn [app].
    rewrite prun_lead_named, Cm2, tcm_sp. unfold gn.
    rewrite (GF_G [] lv _ pend_ok_nil Hcn (ST_nil lv)). fold gn.
    rewrite !(PrettyWr.prun_cons indent), pt_string, fl_nil, pt_space, add_pend_nil, pt_rune, fl_sp, pt_space, add_pend_nil.
    rewrite (PrettyWr.prun_app indent).
    setbuf ((((b ++ G pd lv (t_comments t)) ++ kw_let ++ [32%N]) ++ gn ++ id_value name) ++ [32%N; 61%N]).
    wx_sub Xv [32%N] (Gf2 (ST_sp lv)). rewrite prun_nil. pfeq.
Qed.

Lemma P_let t name v lv0 : t_type t = T_LET -> t_lit t = kw_let -> ident_lexical name = true ->
  NLF (t_comments t) -> NLF (t_comments (id_tok name)) -> (is_enil v = false -> PE v lv0) ->
  PE (ELet t name v) (t_comments t).
Proof.
  intros Ty Li Hn Hct Hcn Jv. pose proof (P_let_core t name v lv0 Ty Li Hn Hcn Jv) as JL.
  exists 108%N. split; [split; [split; [repeat split; discriminate|reflexivity]|reflexivity]|].
  intros b pd lv mp Hlv Hpd. destruct (JL b pd lv mp Hlv Hpd) as (body & W & Hd & Lx).
  exists (G pd lv (t_comments t)), body. split.
  { cbn [write_expr]. cbn [app]. rewrite app_nil_r. exact W. }
  split; [apply G_gap; assumption|].
  split; [intros _; apply nofuse_other; discriminate|].
  split; [split; [intros H1 H2; apply G_nolf; assumption|split; [apply GL_G; assumption|apply GF_G; assumption]]|]. split; [exact Hd|].
  intros K HK gs l Tg Hl.
  destruct (Lx K HK gs l Tg Hl) as (t1 & n' & v' & ts & l' & L & R & Ty1 & N1 & Nl1 & C1 & Mn & Sn & Sv & Bv & WL & C).
  exists (ELet t1 n' v'), (t1 :: id_tok n' :: ts), l'.
  split; [exact L|]. split; [exact R|]. split; [|split].
  - intro R0. cbn [m_expr app]. rewrite Ty1. change (T_LET =? T_LET) with true. cbn [negb].
    rewrite eat_tok_refl, Mn, enil_match, (is_enil_shape _ _ Sv).
    destruct C as [[E ->]|(E & teq & tsv & -> & Teq & Mv)]; rewrite E.
    + reflexivity.
    + cbn [app eat]. rewrite Teq. change (T_ASSIGN =? T_ASSIGN) with true. cbn iota. apply Mv.
  - unfold shape_expr in *. cbn [tmap_expr]. rewrite N1, Sn, Sv. reflexivity.
  - cbn [first_type]. exists t1, (id_tok n' :: ts). repeat split; [congruence|exact Nl1|exact C1|exact Bv|].
    rewrite <- C1. apply (WX_lead _ _ _ _ _ _ _ (let_tail t1 n' v')).
    + unfold let_tail. cbn [write_expr app]. rewrite ?app_nil_r. reflexivity.
    + apply FF_mapping.
    + intro mp2. apply WL.
Qed.

(* ================================================================== *)
(* 5. statements                                                       *)
(* ================================================================== *)

Definition LxS (b : str) (lv : Z) (g0 g body : str) (s : stmt) : Prop :=
  forall K gs l, trv gs -> l_rest l = gs ++ rta body K ->
    exists s' ts l', lexes l ts l' /\ ts <> [] /\ l_rest l' = K /\
      (forall nx R, m_stmt s' nx (ts ++ R) = Some R) /\ shape_stmt s' = shape_stmt s /\ XS b lv g0 g body s' s (tcm gs).

(* the text of a statement starts with a lexeme and ends in ';' or '}' *)
Definition send (body : str) : Prop := last body 0%N = 59%N \/ last body 0%N = 125%N.
Definition sbody (body : str) : Prop := (sst (hd 0%N body) /\ is_space_go (hd 0%N body) = false) /\ send body.

Lemma sbody_ne body : sbody body -> body <> [].
Proof. intros [[[_ H] _] _] E. subst body. cbn in H. congruence. Qed.
Lemma send_app a b : b <> [] -> send b -> send (a ++ b).
Proof. intros Ne H. unfold send. rewrite (last_app_ne a b Ne). exact H. Qed.
Lemma send_semi a : send (a ++ [59%N]).
Proof. left. apply last_last. Qed.
Lemma send_rbrace a : send (a ++ [125%N]).
Proof. right. apply last_last. Qed.
Lemma send_cons c b : b <> [] -> send b -> send (c :: b).
Proof. intros Ne H. apply (send_app [c] b Ne H). Qed.

Definition PSo (q : list N -> list N) (ops : list wop) (s : stmt) : Prop :=
  forall b pd lv mp, 0 <= lv -> pend_ok pd -> exists g0 g body,
    prun (ps b pd lv mp) ops = ps (b ++ g ++ body) [] lv mp /\ wgap g /\ sbody body /\ LxS b lv g0 g body s /\
    (exists t, first_tok_stmt s = Some t /\ GL pd g (t_comments t)) /\
    (ST (q pd) lv -> G (q pd) lv (tcm g) = g0).

Definition PS (s : stmt) : Prop := PSo (fun pd => pd) (write_stmt s) s.

Lemma LxS_gap {b lv g0 gE} g body s X K l : LxS b lv g0 gE body s -> wgap g -> sbody body ->
  l_rest l = rta (g ++ body ++ X) K ->
  exists s' ts l', lexes l ts l' /\ ts <> [] /\ l_rest l' = rta X K /\
    (forall nx R, m_stmt s' nx (ts ++ R) = Some R) /\ shape_stmt s' = shape_stmt s /\ XS b lv g0 gE body s' s (tcm g).
Proof.
  intros Lx Gg [[[S1 S2] _] _] Hl.
  destruct (gap_split_c g body X K _ Gg eq_refl S1 S2) as (g' & E & T' & _ & _ & _ & _ & C').
  rewrite E in Hl. rewrite <- C'. exact (Lx (rta X K) g' l T' Hl).
Qed.

Lemma kont_semi' {g} X K : kont g (rta (59%N :: X) K).
Proof. rewrite rta_cons_nb by discriminate. apply kont_cons; [reflexivity|discriminate]. Qed.

Lemma XS_intro {b lv g0 g body} s' s t0 cm : first_tok_stmt s' = Some t0 -> t_comments t0 = cm ->
  nb (bnd_stmt s') = nb (bnd_stmt s) -> WX (write_stmt s') cm b lv g0 g body -> XS b lv g0 g body s' s cm.
Proof. intros F C B W. split; [rewrite F; cbn [trivia_of]; rewrite C; reflexivity|split; [exact B|exact W]].
Qed.

Lemma P_sexpr e le tf : PE e le -> first_tok_expr e = Some tf -> t_comments tf = le ->
  is_enil e = false -> statement_keyword (first_type e) = false -> PS (SExpr e).
Proof.
  intros (c & Oc & J) Ftf Ctf Ne Kw b pd lv mp Hlv Hpd.
  destruct (J b pd lv mp Hlv Hpd) as (g & body & W & Gg & _ & (_ & Gl & Gf) & Hd & Lx).
  exists (G pd lv le), g, (body ++ [59%N]). split.
  { cbn [write_stmt]. rewrite Ne. rewrite prun_app, W. psimp. cbn [app]. f_equal. rewrite <- !app_assoc. reflexivity. }
  split; [exact Gg|]. split; [split; [rewrite (hd_app_ost body _ c Oc Hd); split; [apply ost_sst; exact Oc|apply ost_nsp; exact Oc]|apply send_semi]|].
  split; [|split; [exists tf; split; [exact Ftf|rewrite Ctf; exact Gl]|exact Gf]].
  intros K gs l Tg Hl. rewrite rta_app in Hl.
  destruct (Lx _ (kont_semi' [] K) gs l Tg Hl) as (e' & ts & l1 & L1 & R1 & M & S & (t0 & ts0 & E & F & _ & X0)).
  destruct (P_semi [] [] K l1 wgap_nil R1) as (tsemi & l2 & L2 & Tsemi & R2).
  exists (SExpr e'), (ts ++ [tsemi]), l2.
  split; [eapply lexes_app; eassumption|]. split; [subst ts; discriminate|]. split; [exact R2|]. split; [|split].
  - intros nx R. rewrite <- app_assoc. cbn [m_stmt]. rewrite E at 1. cbn [app].
    rewrite F, Kw, M. apply m_end_semi. exact Tsemi.
  - cbn [shape_stmt tmap_stmt]. change (tmap_expr norm_tok) with shape_expr. rewrite S. reflexivity.
  - apply (XS_intro _ _ t0); [apply X0|apply X0|rewrite !bnd_sexpr; apply X0|].
    cbn [write_stmt]. rewrite (is_enil_shape _ _ S), Ne. apply WX_ext; [apply X0|]. intro mp2.
    rewrite prun_cons_ps, pt_semi, fl_nil, prun_nil. pfeq.
Qed.

Ltac gl_first t := split; [|split; [exists t; split; [reflexivity|apply GL_G; assumption]|apply GF_G; assumption]].

Lemma P_slet t name v : NLF (t_comments t) -> PLet t name v -> PS (SLet t name v).
Proof.
  intros Hct JL b pd lv mp Hlv Hpd. destruct (JL b pd lv mp Hlv Hpd) as (body & W & Hd & Lx).
  exists (G pd lv (t_comments t)), (G pd lv (t_comments t)), (body ++ [59%N]). split.
  { cbn [write_stmt].
    match goal with |- prun _ ?ops = _ => replace ops with (let_ops t name v ++ [WSemi])
      by (unfold let_ops; cbn [app]; rewrite <- !app_assoc; reflexivity) end.
    rewrite prun_app, W. psimp. cbn [app]. f_equal. rewrite <- !app_assoc. reflexivity. }
  split; [apply G_gap; assumption|].
  split.
  { split; [|apply send_semi]. destruct body as [|x body']; [discriminate Hd|]. cbn [hd app] in *. subst x. split; [split; [reflexivity|discriminate]|reflexivity]. }
  gl_first t.
  intros K gs l Tg Hl. rewrite rta_app in Hl.
  destruct (Lx _ (kont_semi' [] K) gs l Tg Hl) as (t1 & n' & v' & ts & l1 & L & R & Ty1 & N1 & _ & C1 & Mn & Sn & Sv & Bv & WL & C).
  destruct (P_semi [] [] K l1 wgap_nil R) as (tsemi & l2 & L2 & Tsemi & R2).
  exists (SLet t1 n' v'), ((t1 :: id_tok n' :: ts) ++ [tsemi]), l2.
  split; [eapply lexes_app; eassumption|]. split; [discriminate|]. split; [exact R2|]. split; [|split].
  - intros nx R0. cbn [m_stmt app]. rewrite Ty1. change (T_LET =? T_LET) with true. cbn [negb].
    rewrite eat_tok_refl, Mn, enil_match, (is_enil_shape _ _ Sv).
    destruct C as [[E ->]|(E & teq & tsv & -> & Teq & Mv)]; rewrite E.
    + cbn [app]. apply m_end_semi. exact Tsemi.
    + cbn [app eat]. rewrite Teq. change (T_ASSIGN =? T_ASSIGN) with true. cbn iota.
      rewrite <- app_assoc, Mv. cbn [app]. apply m_end_semi. exact Tsemi.
  - cbn [shape_stmt tmap_stmt]. change (tmap_expr norm_tok) with shape_expr. rewrite N1, Sn, Sv. reflexivity.
  - apply (XS_intro _ _ t1); [reflexivity|exact C1|exact Bv|].
    rewrite <- C1. apply (WX_lead _ _ _ _ _ _ _ (let_tail t1 n' v' ++ [WSemi])).
    + unfold let_tail. cbn [write_stmt app]. rewrite <- ?app_assoc. reflexivity.
    + unfold let_tail. cbn [app]. apply FF_mapping.
    + intro mp2. rewrite (PrettyWr.prun_app indent), WL, prun_cons_ps, pt_semi, fl_nil, prun_nil. pfeq.
Qed.

Lemma nic_semi X K : is_ident_char (hd 0%N (rta (59%N :: X) K)) = false.
Proof. rewrite rta_cons_nb by discriminate. reflexivity. Qed.

(* the operand of [return] starts on the same line: it carries no leading comments *)
Lemma P_sreturn t v : t_type t = T_RETURN -> t_lit t = kw_return -> NLF (t_comments t) ->
  (is_enil v = false -> PE v []) -> PS (SReturn t v).
Proof.
  intros Ty Li Hct Jv b pd lv mp Hlv Hpd.
  destruct (is_enil v) eqn:Ev.
  - exists (G pd lv (t_comments t)), (G pd lv (t_comments t)), (kw_return ++ [59%N]). split.
    { cbn [write_stmt]. rewrite Ev. cbn [negb app]. psimp. cbn [app]. f_equal. unfold kw_return. rewrite <- !app_assoc. reflexivity. }
    split; [apply G_gap; assumption|]. split; [split; [split; [split; [reflexivity|discriminate]|reflexivity]|apply send_semi]|].
    gl_first t.
    intros K gs l Tg Hl.
    destruct (P_word0_c T_RETURN kw_return gs [59%N] K l relex_return eq_refl ltac:(discriminate) ltac:(discriminate)
                (nic_semi [] K) Tg Hl) as (t1 & l1 & L1 & Ty1 & Li1 & _ & R1 & C1).
    destruct (P_semi [] [] K l1 wgap_nil R1) as (tsemi & l2 & L2 & Tsemi & R2).
    exists (SReturn t1 v), ([t1] ++ [tsemi]), l2.
    split; [eapply lexes_app; eassumption|]. split; [discriminate|]. split; [exact R2|]. split; [|split].
    + intros nx R. cbn [m_stmt app]. rewrite Ty1. change (T_RETURN =? T_RETURN) with true. cbn [negb].
      rewrite eat_tok_refl, enil_match, Ev. apply m_end_semi. exact Tsemi.
    + cbn [shape_stmt tmap_stmt]. rewrite (norm_eq t1 t) by congruence. reflexivity.
    + apply (XS_intro _ _ t1); [reflexivity|exact C1|reflexivity|].
      rewrite <- C1. cbn [write_stmt]. rewrite Ev. cbn [negb app].
      eapply WX_lead; [reflexivity|apply FF_mapping|]. intro mp2.
      rewrite !(PrettyWr.prun_cons indent), pt_mapping, fl_nil, app_nil_r, pt_string, fl_nil, pt_semi, fl_nil, prun_nil.
      change [114%N; 101%N; 116%N; 117%N; 114%N; 110%N] with kw_return. pfeq.
  - destruct (Jv eq_refl) as (cv & Ov & J).
    destruct (J (((b ++ G pd lv (t_comments t)) ++ kw_return) ++ [32%N]) [] lv mp Hlv pend_ok_nil)
      as (g2 & body2 & W & Gg2 & _ & Gl2 & Hd2 & Lx).
    exists (G pd lv (t_comments t)), (G pd lv (t_comments t)), (kw_return ++ (32%N :: g2) ++ body2 ++ [59%N]). split.
    { cbn [write_stmt]. rewrite Ev. cbn [negb]. psimp. cbn [app].
      change [114%N; 101%N; 116%N; 117%N; 114%N; 110%N] with kw_return.
      rewrite W. psimp. cbn [app]. f_equal. rewrite <- !app_assoc. reflexivity. }
    split; [apply G_gap; assumption|].
    split; [split; [split; [split; [reflexivity|discriminate]|reflexivity]|rewrite !app_assoc; apply send_semi]|].
    gl_first t.
    intros K gs l Tg Hl.
    assert (Gg3 : wgap (32%N :: g2)) by (apply wgap_sp_app; exact Gg2).
    destruct (P_word0_c T_RETURN kw_return gs ((32%N :: g2) ++ body2 ++ [59%N]) K l relex_return eq_refl
                ltac:(discriminate) ltac:(discriminate)) as (t1 & l1 & L1 & Ty1 & Li1 & _ & R1 & C1); [|exact Tg|exact Hl|].
    { apply (nic_gap (32%N :: g2) body2 _ K cv Gg3 Hd2 (ost_sst _ Ov)). discriminate. }
    destruct (LxE_gap (32%N :: g2) body2 v _ cv [59%N] K l1 Lx Gg3 Hd2 Ov (kont_semi' [] K) R1)
      as (v' & ts & l2 & L2 & R2 & M & S & (t0 & ts0 & E & F & Nl & Xv)).
    assert (Nl0 : t_nl t0 = false).
    { apply Nl. rewrite has_lf_sp. apply (proj1 Gl2); [exact notin_nil|reflexivity]. }
    destruct (P_semi [] [] K l2 wgap_nil R2) as (tsemi & l3 & L3 & Tsemi & R3).
    exists (SReturn t1 v'), ([t1] ++ ts ++ [tsemi]), l3.
    split; [eapply lexes_app; [exact L1|eapply lexes_app; eassumption]|].
    split; [discriminate|]. split; [exact R3|]. split; [|split].
    + intros nx R. cbn [m_stmt app]. rewrite Ty1. change (T_RETURN =? T_RETURN) with true. cbn [negb].
      rewrite eat_tok_refl, enil_match, (is_enil_shape _ _ S), Ev.
      rewrite <- app_assoc. specialize (M ([tsemi] ++ R)). subst ts. cbn [app] in *.
      rewrite Nl0, M. apply m_end_semi. exact Tsemi.
    + cbn [shape_stmt tmap_stmt]. change (tmap_expr norm_tok) with shape_expr.
      rewrite S, (norm_eq t1 t) by congruence. reflexivity.
    + apply (XS_intro _ _ t1); [reflexivity|exact C1|rewrite !bnd_sreturn; apply Xv|].
      rewrite <- C1. cbn [write_stmt]. rewrite (is_enil_shape _ _ S), Ev. cbn [negb app].
      eapply WX_lead; [reflexivity|apply FF_mapping|]. intro mp2.
      rewrite !(PrettyWr.prun_cons indent), pt_mapping, fl_nil, app_nil_r, pt_string, fl_nil, pt_rune, fl_nil.
      change [114%N; 101%N; 116%N; 117%N; 114%N; 110%N] with kw_return. cbn [app].
      rewrite <- app_assoc, (PrettyWr.prun_app indent), app_nil_r.
      setbuf (((b ++ G pd lv (t_comments t)) ++ kw_return) ++ [32%N]).
      rewrite tcm_sp in Xv. wx_sub Xv (@nil N) (proj2 (proj2 Gl2) (ST_nil lv)).
      rewrite prun_cons_ps, pt_semi, fl_nil, prun_nil. pfeq.
Qed.

(* ---------- statement lists ---------- *)

Definition LxSS (q : list N -> list N) (f : stmt -> list wop) (b : str) (lv : Z) (g0 g body : str) (ss : list stmt) : Prop :=
  forall K gs l, trv gs -> l_rest l = gs ++ rta body K ->
    exists ss' ts l', lexes l ts l' /\ l_rest l' = K /\
      (forall nx R, m_stmts m_stmt ss' nx (ts ++ R) = Some R) /\ map shape_stmt ss' = map shape_stmt ss /\
      XSS ss' ss (tcm gs) /\
      EF q (sep_map [WNewline] f ss') (tcm gs) b lv g0 g body (ST (q [LF]) lv).

Lemma LxSS_gap {q f b lv g0} g body ss X K l : LxSS q f b lv g0 g body ss -> wgap g -> sbody body ->
  l_rest l = rta (g ++ body ++ X) K ->
  exists ss' ts l', lexes l ts l' /\ l_rest l' = rta X K /\
    (forall nx R, m_stmts m_stmt ss' nx (ts ++ R) = Some R) /\ map shape_stmt ss' = map shape_stmt ss /\
    XSS ss' ss (tcm g) /\
    EF q (sep_map [WNewline] f ss') (tcm g) b lv g0 g body (ST (q [LF]) lv).
Proof.
  intros Lx Gg [[[S1 S2] _] _] Hl.
  destruct (gap_split_c g body X K _ Gg eq_refl S1 S2) as (g' & E & T' & _ & _ & _ & _ & C').
  rewrite E in Hl. rewrite <- C'. exact (Lx (rta X K) g' l T' Hl).
Qed.

Lemma sst_hd_app (a b : str) : sst (hd 0%N a) -> hd 0%N (a ++ b) = hd 0%N a.
Proof. intros [_ H]. destruct a; [cbn in H; congruence|reflexivity]. Qed.

Lemma bnd_stmts_cons s ss : bnd_stmts (s :: ss) = trivia_of (first_tok_stmt s) ++ bnd_stmt s ++ bnd_stmts ss.
Proof. reflexivity. Qed.

Lemma PSS_sep (q : list N -> list N) (f : stmt -> list wop) ss :
  (forall x B pd lv mp, prun (ps B pd lv mp) (f x) = prun (ps B (q pd) lv mp) (write_stmt x)) ->
  forall s, Forall (fun x => PSo q (f x) x) (s :: ss) ->
  forall b pd lv mp, 0 <= lv -> pend_ok pd -> exists g0 g body,
    prun (ps b pd lv mp) (sep_map [WNewline] f (s :: ss)) = ps (b ++ g ++ body) [] lv mp /\
    wgap g /\ sbody body /\ LxSS q f b lv g0 g body (s :: ss) /\
    (exists t, first_tok_stmt s = Some t /\ GL pd g (t_comments t)) /\
    (ST (q pd) lv -> G (q pd) lv (tcm g) = g0).
Proof.
  intro Hf. induction ss as [|y ss IH]; intros s F b pd lv mp Hlv Hpd.
  - inversion F as [|? ? Js _]; subst. destruct (Js b pd lv mp Hlv Hpd) as (g0 & g & body & W & Gg & Hs & Lx & Fs & Gf).
    exists g0, g, body. split; [rewrite sep_map_one; exact W|]. split; [exact Gg|]. split; [exact Hs|].
    split; [|split; [exact Fs|exact Gf]]. destruct Fs as (tf & Ftf & _).
    intros K gs l Tg Hl. destruct (Lx K gs l Tg Hl) as (s' & ts & l' & L & _ & R & M & S & X1 & X2 & X3).
    exists [s'], ts, l'. split; [exact L|]. split; [exact R|]. split; [|split; [|split]].
    + intros nx R0. cbn [m_stmts]. rewrite M. reflexivity.
    + cbn [map]. rewrite S. reflexivity.
    + exists (bnd_stmt s' ++ []). rewrite !bnd_stmts_cons, X1, Ftf. cbn [trivia_of app tl]. split; [reflexivity|].
      cbn [bnd_stmts]. rewrite !app_nil_r. exact X2.
    + destruct (WX_entry _ _ _ _ _ _ _ X3) as (rest & E1 & E2). exists rest. split; [|intros _; exact E2].
      intros B pd2 mp2. rewrite sep_map_one, Hf. apply E1.
  - inversion F as [|? ? Js F']; subst. destruct (Js b pd lv mp Hlv Hpd) as (g0 & g & body & W & Gg & Hs & Lx & Fs & Gf).
    destruct (IH y F' (b ++ g ++ body) [LF] lv mp Hlv pend_ok_lf) as (g02 & g2 & body2 & W2 & Gg2 & Hs2 & Lx2 & (ty & Fty & Gy) & Gf2).
    exists g0, g, (body ++ g2 ++ body2). split.
    { rewrite sep_map_cons2, !prun_app, W. psimp. rewrite W2. f_equal. rewrite <- !app_assoc. reflexivity. }
    split; [exact Gg|].
    split.
    { destruct Hs as [[Hs Hn] Se]. split; [rewrite (sst_hd_app _ _ Hs); split; [exact Hs|exact Hn]|].
      rewrite app_assoc. apply send_app; [exact (sbody_ne _ Hs2)|apply Hs2]. }
    split; [|split; [exact Fs|exact Gf]]. destruct Fs as (tf & Ftf & _).
    intros K gs l Tg Hl. rewrite rta_app in Hl.
    destruct (Lx _ gs l Tg Hl) as (s' & ts & l1 & L1 & _ & R1 & M1 & S1 & X1 & X2 & X3).
    rewrite <- (app_nil_r body2) in R1.
    destruct (LxSS_gap g2 body2 (y :: ss) [] K l1 Lx2 Gg2 Hs2 R1) as (ss2 & ts2 & l2 & L2 & R2 & M2 & S2 & (rest2 & B2 & N2) & (rs2 & E21 & E22)).
    exists (s' :: ss2), (ts ++ ts2), l2.
    split; [eapply lexes_app; eassumption|]. split; [exact R2|]. split; [|split; [|split]].
    + intros nx R0. cbn [m_stmts]. rewrite <- app_assoc, M1. apply M2.
    + cbn [map]. rewrite S1. f_equal. exact S2.
    + exists (bnd_stmt s' ++ tcm g2 :: rest2). rewrite (bnd_stmts_cons s'), X1, B2. split; [reflexivity|].
      rewrite (bnd_stmts_cons s), Ftf. cbn [trivia_of app tl].
      rewrite (bnd_stmts_cons y), Fty. cbn [trivia_of app]. rewrite !nb_app, !nb_cons, X2.
      rewrite (own_GL _ _ _ Gy lfs_lf). f_equal. f_equal.
      rewrite N2, (bnd_stmts_cons y), Fty. reflexivity.
    + destruct (WX_entry _ _ _ _ _ _ _ X3) as (rest & E1 & E2).
      destruct ss2 as [|y' ss2']; [discriminate S2|].
      exists (rest ++ [WNewline] ++ sep_map [WNewline] f (y' :: ss2')). split.
      * intros B pd2 mp2. rewrite sep_map_cons2, !(PrettyWr.prun_app indent), Hf, E1. reflexivity.
      * intros St mp2. rewrite !(PrettyWr.prun_app indent), E2. rewrite prun_cons_ps, pt_newline, prun_nil.
        rewrite E21, (Gf2 St). rewrite (E22 St). pfeq.
Qed.

Definition qtab (pd : list N) : list N := add_pend pd TAB.
Definition qid (pd : list N) : list N := pd.

Lemma PSo_indent s : PS s -> PSo qtab (WIndent :: write_stmt s ++ []) s.
Proof.
  intros J b pd lv mp Hlv Hpd.
  destruct (J b (add_pend pd TAB) lv mp Hlv (pend_ok_add pd TAB Hpd ltac:(auto))) as (g0 & g & body & W & Gg & Hs & Lx & (t & Ft & Gt) & Gf).
  exists g0, g, body. split; [rewrite app_nil_r, prun_cons_ps, pt_indent; exact W|].
  split; [exact Gg|]. split; [exact Hs|]. split; [exact Lx|]. split; [|exact Gf]. exists t. split; [exact Ft|].
  unfold GL in *. rewrite lfs_add_tab in Gt. exact Gt.
Qed.

Lemma PSo_plain s : PS s -> PSo qid (write_stmt s ++ []) s.
Proof. intros J. unfold PSo. rewrite app_nil_r. exact J. Qed.

(* ---------- blocks ---------- *)

Lemma P_sblock lb ss rb : punct lb T_LBRACE = true -> punct rb T_RBRACE = true ->
  NLF (t_comments lb) -> NLF (t_comments rb) -> Forall PS ss -> PS (SBlock lb ss rb).
Proof.
  intros Hl1 Hl2 Hc1 Hc2 Js.
  destruct (punct_inv _ _ Hl1) as [Ty1 TT1]. rewrite type_text_lbrace in TT1. inversion TT1 as [Li1].
  destruct (punct_inv _ _ Hl2) as [Ty2 TT2]. rewrite type_text_rbrace in TT2. inversion TT2 as [Li2].
  intros b pd lv mp Hlv Hpd.
  set (g0 := G pd lv (t_comments lb)).
  set (gb := G [LF; TAB] lv (t_comments rb)).
  assert (Gg0 : wgap g0) by (apply G_gap; assumption).
  assert (Ggb : wgap gb) by (apply G_gap; [exact indent_blank|exact pend_ok_lftab|exact Hc2]).
  destruct ss as [|s ss].
  - exists g0, g0, (123%N :: gb ++ [125%N]). split.
    { cbn [write_stmt sep_map app]. psimp. fold g0. cbn [app]. rewrite prun_block_close by exact Hlv. fold gb.
      rewrite prun_nil. f_equal. rewrite <- !app_assoc. reflexivity. }
    split; [exact Gg0|].
    split; [split; [split; [split; [reflexivity|discriminate]|reflexivity]|apply (send_rbrace (123%N :: gb))]|].
    gl_first lb.
    intros K gs l Tg Hl.
    change (123%N :: gb ++ [125%N]) with ([123%N] ++ gb ++ [125%N]) in Hl.
    destruct (P_punct0_c T_LBRACE [123%N] gs _ K l type_text_lbrace ltac:(pfree) Tg Hl)
      as (t1 & l1 & L1 & T1 & I1 & _ & R1 & C1).
    rewrite <- (app_nil_r [125%N]) in R1.
    destruct (P_punct_c T_RBRACE [125%N] gb [] K l1 type_text_rbrace ltac:(pfree) Ggb R1)
      as (t2 & l3 & L3 & T2 & I2 & _ & R3 & C2).
    exists (SBlock t1 [] t2), ([t1] ++ [t2]), l3.
    split; [eapply lexes_app; eassumption|].
    split; [discriminate|]. split; [exact R3|]. split; [|split].
    + intros nx R. cbn [m_stmt app]. rewrite T1, T2. change (T_LBRACE =? T_LBRACE) with true.
      change (T_RBRACE =? T_RBRACE) with true. cbn [negb orb m_stmts].
      rewrite eat_tok_refl. apply eat_tok_refl.
    + cbn [shape_stmt tmap_stmt map]. rewrite (norm_eq t1 lb), (norm_eq t2 rb) by congruence. reflexivity.
    + apply (XS_intro _ _ t1); [reflexivity|exact C1| |].
      { rewrite !bnd_block. cbn [bnd_stmts app nb map].
        rewrite C2. unfold gb. rewrite (own_GL _ _ _ (GL_G [LF; TAB] lv _ pend_ok_lftab Hc2) lfs_lftab). reflexivity. }
      rewrite <- C1. eapply WX_lead; [reflexivity|apply FF_mapping|]. intro mp2.
      rewrite !(PrettyWr.prun_cons indent), pt_mapping, fl_nil, app_nil_r, pt_rune, fl_nil, pt_newline, pt_inc. cbn [app sep_map].
      rewrite prun_block_close by exact Hlv. rewrite prun_nil, C2. unfold gb.
      rewrite (GF_G [LF; TAB] lv _ pend_ok_lftab Hc2 (ST_lftab lv)). pfeq.
  - assert (F : Forall (fun x => PSo qtab ((fun stmt => WIndent :: write_stmt stmt ++ []) x) x) (s :: ss)).
    { apply Forall_forall. intros x Hx. apply PSo_indent. exact (proj1 (Forall_forall _ _) Js x Hx). }
    assert (Hf : forall x B pd0 lv0 mp0, prun (ps B pd0 lv0 mp0) (WIndent :: write_stmt x ++ []) = prun (ps B (qtab pd0) lv0 mp0) (write_stmt x)).
    { intros x B pd0 lv0 mp0. rewrite app_nil_r, prun_cons_ps, pt_indent. reflexivity. }
    destruct (PSS_sep qtab _ ss Hf s F ((b ++ g0) ++ [123%N]) [LF] (lv + 1) mp ltac:(lia) pend_ok_lf)
      as (g02 & g2 & body2 & W2 & Gg2 & Hs2 & Lx2 & (tf & Ftf & Gf) & Gf2).
    exists g0, g0, (123%N :: (g2 ++ body2) ++ gb ++ [125%N]). split.
    { cbn [write_stmt]. psimp. fold g0. cbn [app]. rewrite W2. rewrite prun_block_close by exact Hlv. fold gb.
      rewrite prun_nil. f_equal. rewrite <- !app_assoc. reflexivity. }
    split; [exact Gg0|].
    split; [split; [split; [split; [reflexivity|discriminate]|reflexivity]|
                    change (123%N :: (g2 ++ body2) ++ gb ++ [125%N]) with ((123%N :: g2 ++ body2) ++ gb ++ [125%N]);
                    rewrite app_assoc; apply send_rbrace]|].
    gl_first lb.
    intros K gs l Tg Hl.
    change (123%N :: (g2 ++ body2) ++ gb ++ [125%N]) with ([123%N] ++ (g2 ++ body2) ++ gb ++ [125%N]) in Hl.
    destruct (P_punct0_c T_LBRACE [123%N] gs _ K l type_text_lbrace ltac:(pfree) Tg Hl)
      as (t1 & l1 & L1 & T1 & I1 & _ & R1 & C1).
    rewrite <- app_assoc in R1.
    destruct (LxSS_gap g2 body2 (s :: ss) (gb ++ [125%N]) K l1 Lx2 Gg2 Hs2 R1) as (ss' & ts & l2 & L2 & R2 & M & S & (rest' & B' & N') & (rs & E1 & E2)).
    rewrite <- (app_nil_r [125%N]) in R2.
    destruct (P_punct_c T_RBRACE [125%N] gb [] K l2 type_text_rbrace ltac:(pfree) Ggb R2)
      as (t2 & l3 & L3 & T2 & I2 & _ & R3 & C2).
    exists (SBlock t1 ss' t2), ([t1] ++ ts ++ [t2]), l3.
    split; [eapply lexes_app; [exact L1|eapply lexes_app; eassumption]|].
    split; [discriminate|]. split; [exact R3|]. split; [|split].
    + intros nx R. cbn [m_stmt app]. rewrite T1, T2. change (T_LBRACE =? T_LBRACE) with true.
      change (T_RBRACE =? T_RBRACE) with true. cbn [negb orb].
      rewrite eat_tok_refl, <- app_assoc, M. cbn [app]. apply eat_tok_refl.
    + cbn [shape_stmt tmap_stmt]. change (tmap_stmt norm_tok) with shape_stmt. rewrite S.
      rewrite (norm_eq t1 lb), (norm_eq t2 rb) by congruence. reflexivity.
    + apply (XS_intro _ _ t1); [reflexivity|exact C1| |].
      { rewrite !bnd_block, B', !nb_app, nb_cons, N'.
        rewrite (bnd_stmts_cons s), Ftf. cbn [trivia_of app tl nb map].
        rewrite (own_GL _ _ _ Gf lfs_lf), C2. unfold gb.
        rewrite (own_GL _ _ _ (GL_G [LF; TAB] lv _ pend_ok_lftab Hc2) lfs_lftab). reflexivity. }
      rewrite <- C1. eapply WX_lead; [reflexivity|apply FF_mapping|]. intro mp2.
      rewrite !(PrettyWr.prun_cons indent), pt_mapping, fl_nil, app_nil_r, pt_rune, fl_nil, pt_newline, pt_inc. cbn [app].
      rewrite (PrettyWr.prun_app indent), E1.
      assert (St : ST (qtab [LF]) (lv + 1)) by apply ST_lftab.
      rewrite (Gf2 St), (E2 St).
      rewrite prun_block_close by exact Hlv. rewrite prun_nil, C2. unfold gb.
      rewrite (GF_G [LF; TAB] lv _ pend_ok_lftab Hc2 (ST_lftab lv)). pfeq.
Qed.

(* ---------- parameters and function tails ---------- *)

Definition IOK (i : ident) : Prop := ident_lexical i = true /\ NLF (t_comments (id_tok i)).

Definition seppa (l : list ident) : list wop := sep_map [WRune 44%N; WSpace] (fun p => write_ident p ++ []) l.

Definition LxPar (b : str) (pd : list N) (lv : Z) (body : str) (ps0 : list ident) : Prop :=
  forall K, is_ident_char (hd 0%N K) = false -> forall l, l_rest l = rta body K ->
    exists ps' ts l', lexes l ts l' /\ l_rest l' = K /\
      (forall R, m_params ps' (ts ++ R) = Some R) /\
      map (tmap_ident norm_tok) ps' = map (tmap_ident norm_tok) ps0 /\
      (ST pd lv -> forall mp2, prun (ps b pd lv mp2) (seppa ps') = ps (b ++ body) (match ps0 with [] => pd | _ => [] end) lv mp2).

Definition PPar (ops : list wop) (ps0 : list ident) : Prop :=
  forall b pd lv mp, 0 <= lv -> pend_ok pd -> exists body,
    prun (ps b pd lv mp) ops = ps (b ++ body) (match ps0 with [] => pd | _ => [] end) lv mp /\ LxPar b pd lv body ps0.

Lemma nic_comma X K : is_ident_char (hd 0%N (rta (44%N :: X) K)) = false.
Proof. rewrite rta_cons_nb by discriminate. reflexivity. Qed.

Lemma PPar_sep ps0 : Forall IOK ps0 ->
  PPar (sep_map [WRune 44%N; WSpace] (fun p => write_ident p ++ []) ps0) ps0.
Proof.
  induction 1 as [|x ps0 [Hx Hcx] Hps IH]; intros b pd lv mp Hlv Hpd.
  - exists []. split; [rewrite app_nil_r; reflexivity|].
    intros K HK l Hl. exists [], [], l. repeat split; try constructor; [exact Hl|].
    intros _ mp2. unfold seppa. cbn [sep_map]. rewrite prun_nil, app_nil_r. reflexivity.
  - set (gx := G pd lv (t_comments (id_tok x))).
    assert (Ggx : wgap gx) by (apply G_gap; assumption).
    destruct ps0 as [|y ps'].
    + exists (gx ++ id_value x). split.
      { rewrite sep_map_one. unfold write_ident. psimp. fold gx. cbn [app]. rewrite <- !app_assoc. reflexivity. }
      intros K HK l Hl. rewrite <- (app_nil_r (id_value x)) in Hl.
      destruct (P_ident_step x gx [] K l Hx Ggx HK Hl) as (t & l' & L & Ty & Li & R & M & S & Cm).
      exists [mkident t (id_value x)], [t], l'. split; [exact L|]. split; [exact R|]. split; [|split].
      * intro R0. cbn [m_params app]. apply M.
      * cbn [map]. rewrite S. reflexivity.
      * intros St mp2. unfold seppa. rewrite sep_map_one. unfold write_ident. cbn [id_tok id_value app].
        rewrite prun_lead_named, Cm. unfold gx. rewrite (GF_G pd lv _ Hpd Hcx St). fold gx.
        rewrite prun_cons_ps, pt_string, fl_nil, prun_nil. pfeq.
    + destruct (IH (((b ++ gx) ++ id_value x) ++ [44%N]) [32%N] lv mp Hlv pend_ok_sp) as (body2 & W2 & Lx2).
      exists (gx ++ id_value x ++ 44%N :: body2). split.
      { rewrite sep_map_cons2. unfold write_ident at 1. psimp. fold gx. cbn [app]. rewrite W2. f_equal.
        rewrite <- !app_assoc. reflexivity. }
      intros K HK l Hl.
      destruct (P_ident_step x gx (44%N :: body2) K l Hx Ggx (nic_comma _ _) Hl) as (t & l1 & L1 & Ty & Li & R1 & M1 & S1 & Cm).
      destruct (P_comma [] body2 K l1 wgap_nil R1) as (tc & l2 & L2 & Tc & R2).
      destruct (Lx2 K HK l2 R2) as (ps2 & ts2 & l3 & L3 & R3 & M3 & S3 & W3).
      exists (mkident t (id_value x) :: ps2), ([t] ++ [tc] ++ ts2), l3.
      split; [eapply lexes_app; [exact L1|eapply lexes_app; eassumption]|]. split; [exact R3|].
      split; [|split].
      * intro R. destruct ps2 as [|p2 ps2']; [discriminate S3|].
        cbn [m_params app]. rewrite M1. cbn [eat]. rewrite Tc.
        change (T_COMMA =? T_COMMA) with true. cbn iota. apply M3.
      * cbn [map]. rewrite S1. f_equal. exact S3.
      * intros St mp2. destruct ps2 as [|p2 ps2']; [discriminate S3|].
        unfold seppa. rewrite sep_map_cons2. unfold write_ident at 1. cbn [id_tok id_value app].
        rewrite prun_lead_named, Cm. unfold gx. rewrite (GF_G pd lv _ Hpd Hcx St). fold gx.
        rewrite !(PrettyWr.prun_cons indent), pt_string, fl_nil, pt_rune, fl_nil, pt_space, add_pend_nil.
        setbuf ((((b ++ gx) ++ id_value x) ++ [44%N])).
        fold (seppa (p2 :: ps2')). rewrite (W3 (ST_sp lv)). pfeq.
Qed.

Lemma nic_rparen X K : is_ident_char (hd 0%N (rta (41%N :: X) K)) = false.
Proof. rewrite rta_cons_nb by discriminate. reflexivity. Qed.

Lemma P_ftail params body : Forall IOK params -> PS body -> is_block body = true ->
  forall b lv mp, 0 <= lv -> exists txt,
    prun (ps b [] lv mp) (ftail_ops params body) = ps (b ++ 40%N :: txt) [] lv mp /\ send (40%N :: txt) /\
    forall K l, l_rest l = rta (40%N :: txt) K ->
      exists ps' body' ts l', lexes l ts l' /\ l_rest l' = K /\
        (forall R, m_ftail ps' body' (ts ++ R) = Some R) /\
        map (tmap_ident norm_tok) ps' = map (tmap_ident norm_tok) params /\
        shape_stmt body' = shape_stmt body /\ nb (bnd_stmt body') = nb (bnd_stmt body) /\
        forall mp2, prun (ps b [] lv mp2) (ftail_ops ps' body') = ps (b ++ 40%N :: txt) [] lv mp2.
Proof.
  intros Hp Jb Bl b lv mp Hlv.
  destruct (PPar_sep _ Hp (b ++ [40%N]) [] lv mp Hlv pend_ok_nil) as (tp & Wp & Lp).
  destruct (Jb (((b ++ [40%N]) ++ tp) ++ [41%N]) [32%N] lv mp Hlv pend_ok_sp) as (g0b & gb & tb & Wb & Ggb & Hsb & Lb & _ & Gfb).
  exists (tp ++ 41%N :: gb ++ tb). split.
  { unfold ftail_ops. psimp. cbn [app]. rewrite Wp.
    assert (E : (match params with [] => @nil N | _ :: _ => [] end) = []) by (destruct params; reflexivity).
    rewrite E. psimp. cbn [app]. rewrite ?app_nil_r, Wb. f_equal. rewrite <- !app_assoc. reflexivity. }
  split.
  { change (40%N :: tp ++ 41%N :: gb ++ tb) with ((40%N :: tp) ++ (41%N :: gb) ++ tb). rewrite app_assoc.
    apply send_app; [exact (sbody_ne _ Hsb)|apply Hsb]. }
  intros K l Hl.
  change (40%N :: tp ++ 41%N :: gb ++ tb) with ([] ++ [40%N] ++ tp ++ 41%N :: gb ++ tb) in Hl.
  destruct (P_punct T_LPAREN [40%N] [] _ K l type_text_lparen ltac:(pfree) wgap_nil Hl)
    as (t1 & l1 & L1 & T1 & _ & _ & R1).
  rewrite rta_app in R1.
  destruct (Lp _ (nic_rparen _ K) l1 R1) as (ps' & tsp & l2 & L2 & R2 & Mp & Sp & Wp').
  change (41%N :: gb ++ tb) with ([] ++ [41%N] ++ gb ++ tb) in R2.
  destruct (P_punct T_RPAREN [41%N] [] _ K l2 type_text_rparen ltac:(pfree) wgap_nil R2)
    as (t2 & l3 & L3 & T2 & _ & _ & R3).
  rewrite <- (app_nil_r tb) in R3.
  destruct (LxS_gap gb tb body [] K l3 Lb Ggb Hsb R3) as (body' & tsb & l4 & L4 & _ & R4 & Mb & Sb & _ & Xb & Wb').
  exists ps', body', ([t1] ++ tsp ++ [t2] ++ tsb), l4.
  split; [eapply lexes_app; [exact L1|eapply lexes_app; [exact L2|eapply lexes_app; eassumption]]|].
  split; [exact R4|]. split; [|split; [assumption|split; [assumption|split; [assumption|]]]].
  2:{ intro mp2. unfold ftail_ops. rewrite prun_cons_ps, pt_rune, fl_nil. cbn [app]. rewrite (PrettyWr.prun_app indent).
      fold (seppa ps'). rewrite (Wp' (ST_nil lv)).
      assert (E : (match params with [] => @nil N | _ :: _ => [] end) = []) by (destruct params; reflexivity).
      rewrite E. rewrite !(PrettyWr.prun_cons indent), pt_rune, fl_nil, pt_space, add_pend_nil, app_nil_r. cbn [app].
      rewrite (WX_run _ _ _ _ _ _ _ Wb' [32%N] mp2 (Gfb (ST_sp lv))). pfeq. }
  intro R. unfold m_ftail. cbn [app eat]. rewrite T1. change (T_LPAREN =? T_LPAREN) with true. cbn iota.
  rewrite <- !app_assoc, Mp. cbn [app eat]. rewrite T2. change (T_RPAREN =? T_RPAREN) with true. cbn iota.
  pose proof (is_block_shape _ _ Sb) as Bl'. rewrite Bl in Bl'.
  destruct body'; try discriminate Bl'. apply Mb.
Qed.

Lemma nic_lparen X K : is_ident_char (hd 0%N (rta (40%N :: X) K)) = false.
Proof. rewrite rta_cons_nb by discriminate. reflexivity. Qed.

Lemma P_sfunc t name params body : t_type t = T_FUNCTION -> t_lit t = kw_function -> NLF (t_comments t) ->
  IOK name -> Forall IOK params -> PS body -> is_block body = true -> PS (SFunc t name params body).
Proof.
  intros Ty Li Hct [Hn Hcn] Hp Jb Bl b pd lv mp Hlv Hpd.
  pose proof (ident_first _ Hn) as HL.
  set (g0 := G pd lv (t_comments t)).
  set (gn := G [] lv (t_comments (id_tok name))).
  assert (Ggn : wgap (32%N :: gn)).
  { apply wgap_sp_app. apply G_gap; [exact indent_blank|exact pend_ok_nil|exact Hcn]. }
  destruct (P_ftail params body Hp Jb Bl ((((b ++ g0) ++ kw_function ++ [32%N]) ++ gn) ++ id_value name) lv mp Hlv) as (txt & W & Se & Lx).
  exists g0, g0, (kw_function ++ (32%N :: gn) ++ id_value name ++ 40%N :: txt). split.
  { cbn [write_stmt]. fold (ftail_ops params body). unfold write_ident. psimp. fold g0. fold gn. cbn [app].
    change [102%N; 117%N; 110%N; 99%N; 116%N; 105%N; 111%N; 110%N; 32%N] with (kw_function ++ [32%N]).
    rewrite W. f_equal. rewrite <- !app_assoc. reflexivity. }
  split; [apply G_gap; assumption|].
  split; [split; [split; [split; [reflexivity|discriminate]|reflexivity]|rewrite !app_assoc; apply send_app; [discriminate|exact Se]]|].
  gl_first t.
  intros K gs l Tg Hl.
  destruct (P_word0_c T_FUNCTION kw_function gs ((32%N :: gn) ++ id_value name ++ 40%N :: txt) K l relex_function eq_refl
              ltac:(discriminate) ltac:(discriminate)) as (t1 & l1 & L1 & Ty1 & Li1 & _ & R1 & C1); [|exact Tg|exact Hl|].
  { apply (nic_gap (32%N :: gn) (id_value name) _ K _ Ggn eq_refl (letter_sst _ HL)). discriminate. }
  destruct (P_ident_step name (32%N :: gn) (40%N :: txt) K l1 Hn Ggn (nic_lparen _ _) R1)
    as (t2 & l2 & L2 & Ty2 & Li2 & R2 & M2 & S2 & Cm2).
  destruct (Lx K l2 R2) as (ps' & body' & ts & l3 & L3 & R3 & M3 & Sp & Sb & Xb & Wft).
  exists (SFunc t1 (mkident t2 (id_value name)) ps' body'), ([t1] ++ [t2] ++ ts), l3.
  split; [eapply lexes_app; [exact L1|eapply lexes_app; eassumption]|].
  split; [discriminate|]. split; [exact R3|]. split; [|split].
  - intros nx R. cbn [m_stmt app]. rewrite Ty1. change (T_FUNCTION =? T_FUNCTION) with true. cbn [negb].
    rewrite eat_tok_refl, M2. apply (M3 R).
  - cbn [shape_stmt tmap_stmt]. change (tmap_stmt norm_tok) with shape_stmt.
    rewrite S2, Sp, Sb, (norm_eq t1 t) by congruence. reflexivity.
  - apply (XS_intro _ _ t1); [reflexivity|exact C1|rewrite !bnd_sfunc; exact Xb|].
    rewrite <- C1. cbn [write_stmt]. fold (ftail_ops ps' body'). unfold write_ident. cbn [id_tok id_value].
    eapply WX_lead; [reflexivity|apply FF_mapping|]. intro mp2.
    rewrite !(PrettyWr.prun_cons indent), pt_mapping, fl_nil, app_nil_r, pt_string, fl_nil. cbn [app].
    rewrite prun_lead_named, Cm2, tcm_sp. unfold gn. rewrite (GF_G [] lv _ pend_ok_nil Hcn (ST_nil lv)). fold gn.
    rewrite prun_cons_ps, pt_string, fl_nil.
    change [102%N; 117%N; 110%N; 99%N; 116%N; 105%N; 111%N; 110%N; 32%N] with (kw_function ++ [32%N]).
    setbuf ((((b ++ g0) ++ kw_function ++ [32%N]) ++ gn) ++ id_value name).
    rewrite Wft. pfeq.
Qed.

Lemma P_func t name params body : t_type t = T_FUNCTION -> t_lit t = kw_function -> NLF (t_comments t) ->
  match name with Some n => IOK n | None => True end ->
  Forall IOK params -> PS body -> is_block body = true -> PE (EFunc t name params body) (t_comments t).
Proof.
  intros Ty Li Hct Hn Hp Jb Bl.
  exists 102%N. split; [split; [split; [repeat split; discriminate|reflexivity]|reflexivity]|].
  cbn [first_type]. rewrite Ty.
  intros b pd lv mp Hlv Hpd.
  set (g0 := G pd lv (t_comments t)).
  destruct name as [n|].
  - destruct Hn as [Hn Hcn]. pose proof (ident_first _ Hn) as HL.
    set (gn := G [] lv (t_comments (id_tok n))).
    assert (Ggn : wgap (32%N :: gn)).
    { apply wgap_sp_app. apply G_gap; [exact indent_blank|exact pend_ok_nil|exact Hcn]. }
    destruct (P_ftail params body Hp Jb Bl (((((b ++ g0) ++ kw_function) ++ [32%N]) ++ gn) ++ id_value n) lv mp Hlv) as (txt & W & _ & Lx).
    exists g0, (kw_function ++ (32%N :: gn) ++ id_value n ++ 40%N :: txt). split.
    { cbn [write_expr]. fold (ftail_ops params body). unfold write_ident. cbn [app]. psimp. fold g0. fold gn. cbn [app].
      change [102%N; 117%N; 110%N; 99%N; 116%N; 105%N; 111%N; 110%N] with kw_function.
      rewrite W. f_equal. rewrite <- !app_assoc. reflexivity. }
    split; [apply G_gap; assumption|].
    split; [intros _; apply nofuse_other; discriminate|].
    split; [split; [intros H1 H2; apply G_nolf; assumption|split; [apply GL_G; assumption|apply GF_G; assumption]]|]. split; [reflexivity|].
    intros K _ gs l Tg Hl.
    destruct (P_word0_c T_FUNCTION kw_function gs ((32%N :: gn) ++ id_value n ++ 40%N :: txt) K l relex_function eq_refl
                ltac:(discriminate) ltac:(discriminate)) as (t1 & l1 & L1 & Ty1 & Li1 & Nl1 & R1 & C1); [|exact Tg|exact Hl|].
    { apply (nic_gap (32%N :: gn) (id_value n) _ K _ Ggn eq_refl (letter_sst _ HL)). discriminate. }
    destruct (P_ident_step n (32%N :: gn) (40%N :: txt) K l1 Hn Ggn (nic_lparen _ _) R1)
      as (t2 & l2 & L2 & Ty2 & Li2 & R2 & M2 & S2 & Cm2).
    destruct (Lx K l2 R2) as (ps' & body' & ts & l3 & L3 & R3 & M3 & Sp & Sb & Xb & Wft).
    exists (EFunc t1 (Some (mkident t2 (id_value n))) ps' body'), ([t1] ++ [t2] ++ ts), l3.
    split; [eapply lexes_app; [exact L1|eapply lexes_app; eassumption]|].
    split; [exact R3|]. split; [|split].
    + intro R. cbn [m_expr app]. rewrite Ty1. change (T_FUNCTION =? T_FUNCTION) with true. cbn [negb].
      rewrite eat_tok_refl, M2. apply (M3 R).
    + unfold shape_expr. cbn [tmap_expr option_map]. change (tmap_stmt norm_tok) with shape_stmt.
      rewrite S2, Sp, Sb, (norm_eq t1 t) by congruence. reflexivity.
    + exists t1, ([t2] ++ ts). repeat split; try assumption.
      rewrite <- C1. cbn [write_expr]. fold (ftail_ops ps' body'). unfold write_ident. cbn [id_tok id_value app].
      eapply WX_lead; [reflexivity|apply FF_mapping|]. intro mp2.
      do 3 rewrite (PrettyWr.prun_cons indent). rewrite pt_mapping, fl_nil, app_nil_r, pt_string, fl_nil, pt_rune, fl_nil. cbn [app].
      rewrite prun_lead_named, Cm2, tcm_sp. unfold gn. rewrite (GF_G [] lv _ pend_ok_nil Hcn (ST_nil lv)). fold gn.
      rewrite prun_cons_ps, pt_string, fl_nil.
      change [102%N; 117%N; 110%N; 99%N; 116%N; 105%N; 111%N; 110%N] with kw_function.
      setbuf (((((b ++ g0) ++ kw_function) ++ [32%N]) ++ gn) ++ id_value n).
      rewrite Wft. pfeq.
  - destruct (P_ftail params body Hp Jb Bl ((b ++ g0) ++ kw_function) lv mp Hlv) as (txt & W & _ & Lx).
    exists g0, (kw_function ++ 40%N :: txt). split.
    { cbn [write_expr]. fold (ftail_ops params body). cbn [app]. psimp. fold g0. cbn [app].
      change [102%N; 117%N; 110%N; 99%N; 116%N; 105%N; 111%N; 110%N] with kw_function.
      rewrite W. f_equal. rewrite <- !app_assoc. reflexivity. }
    split; [apply G_gap; assumption|].
    split; [intros _; apply nofuse_other; discriminate|].
    split; [split; [intros H1 H2; apply G_nolf; assumption|split; [apply GL_G; assumption|apply GF_G; assumption]]|]. split; [reflexivity|].
    intros K _ gs l Tg Hl.
    destruct (P_word0_c T_FUNCTION kw_function gs (40%N :: txt) K l relex_function eq_refl
                ltac:(discriminate) ltac:(discriminate) (nic_lparen _ _) Tg Hl)
      as (t1 & l1 & L1 & Ty1 & Li1 & Nl1 & R1 & C1).
    destruct (Lx K l1 R1) as (ps' & body' & ts & l3 & L3 & R3 & M3 & Sp & Sb & Xb & Wft).
    exists (EFunc t1 None ps' body'), ([t1] ++ ts), l3.
    split; [eapply lexes_app; eassumption|].
    split; [exact R3|]. split; [|split].
    + intro R. cbn [m_expr app]. rewrite Ty1. change (T_FUNCTION =? T_FUNCTION) with true. cbn [negb].
      rewrite eat_tok_refl. apply (M3 R).
    + unfold shape_expr. cbn [tmap_expr]. change (tmap_stmt norm_tok) with shape_stmt.
      rewrite Sp, Sb, (norm_eq t1 t) by congruence. reflexivity.
    + exists t1, ts. repeat split; try assumption.
      rewrite <- C1. cbn [write_expr]. fold (ftail_ops ps' body'). cbn [app].
      eapply WX_lead; [reflexivity|apply FF_mapping|]. intro mp2.
      do 2 rewrite (PrettyWr.prun_cons indent). rewrite pt_mapping, fl_nil, app_nil_r, pt_string, fl_nil.
      change [102%N; 117%N; 110%N; 99%N; 116%N; 105%N; 111%N; 110%N] with kw_function.
      setbuf ((b ++ g0) ++ kw_function).
      rewrite Wft. pfeq.
Qed.

(* ---------- keyword ( condition ) ---------- *)

Lemma P_kwcond ty kw c lc : relex_word ty kw = true -> is_word_type ty = true -> ty <> T_INT -> ty <> T_FLOAT ->
  PE c lc ->
  forall b lv mp, 0 <= lv -> exists txt,
    (forall rest, prun (ps b [] lv mp) (WString kw :: WSpace :: WRune 40%N :: write_expr c ++ WRune 41%N :: WSpace :: rest)
                  = prun (ps (b ++ kw ++ 32%N :: 40%N :: txt ++ [41%N]) [32%N] lv mp) rest) /\
    forall X K gs l, trv gs -> l_rest l = gs ++ rta (kw ++ 32%N :: 40%N :: txt ++ 41%N :: X) K ->
      exists t1 tl c' tsc tr l', lexes l ([t1; tl] ++ tsc ++ [tr]) l' /\ l_rest l' = rta X K /\
        t_type t1 = ty /\ t_lit t1 = kw /\ t_type tl = T_LPAREN /\ t_type tr = T_RPAREN /\
        (forall R, m_expr c' (tsc ++ R) = Some R) /\ shape_expr c' = shape_expr c /\
        t_comments t1 = tcm gs /\ nb (bnd_expr c') = nb (bnd_expr c) /\
        (forall rest mp2, prun (ps b [] lv mp2) (WString kw :: WSpace :: WRune 40%N :: write_expr c' ++ WRune 41%N :: WSpace :: rest)
                  = prun (ps (b ++ kw ++ 32%N :: 40%N :: txt ++ [41%N]) [32%N] lv mp2) rest).
Proof.
  intros H W NI NF (cc0 & Oc & J) b lv mp Hlv.
  destruct (J ((b ++ kw) ++ [32%N; 40%N]) [] lv mp Hlv pend_ok_nil) as (g & body & Wc & Gg & _ & (_ & _ & Gfc) & Hd & Lx).
  exists (g ++ body). split.
  { intro rest. psimp. cbn [app]. rewrite Wc. psimp. cbn [app].
    f_equal. f_equal. rewrite <- !app_assoc. cbn [app]. rewrite <- ?app_assoc. reflexivity. }
  intros X K gs l Tg Hl.
  change (kw ++ 32%N :: 40%N :: (g ++ body) ++ 41%N :: X) with (kw ++ [32%N] ++ [40%N] ++ (g ++ body) ++ 41%N :: X) in Hl.
  destruct (P_word0_c ty kw gs ([32%N] ++ [40%N] ++ (g ++ body) ++ 41%N :: X) K l H W NI NF) as (t1 & l1 & L1 & Ty1 & Li1 & _ & R1 & C1); [|exact Tg|exact Hl|].
  { apply (nic_gap [32%N] [40%N] _ K 40%N wgap_sp eq_refl); [split; [reflexivity|discriminate]|discriminate]. }
  destruct (P_punct T_LPAREN [40%N] [32%N] _ K l1 type_text_lparen ltac:(pfree) wgap_sp R1)
    as (tl & l2 & L2 & Tl & _ & _ & R2).
  rewrite <- app_assoc in R2.
  destruct (LxE_gap g body c _ cc0 (41%N :: X) K l2 Lx Gg Hd Oc) with (2 := R2)
    as (c' & tsc & l3 & L3 & R3 & M & S & tq & tsq & _ & _ & _ & Xc).
  { rewrite rta_cons_nb by discriminate. apply kont_cons; [reflexivity|discriminate]. }
  change (41%N :: X) with ([] ++ [41%N] ++ X) in R3.
  destruct (P_punct T_RPAREN [41%N] [] X K l3 type_text_rparen ltac:(pfree) wgap_nil R3)
    as (tr & l4 & L4 & Tr & _ & _ & R4).
  exists t1, tl, c', tsc, tr, l4.
  split; [exact (lexes_app _ _ _ _ _ (lexes_app _ _ _ _ _ L1 L2) (lexes_app _ _ _ _ _ L3 L4))|].
  repeat split; try assumption; [apply Xc|].
  intros rest mp2. rewrite !(PrettyWr.prun_cons indent), pt_string, fl_nil, pt_space, add_pend_nil, pt_rune, fl_sp. cbn [app].
  rewrite (PrettyWr.prun_app indent).
  setbuf ((b ++ kw) ++ [32%N; 40%N]).
  wx_sub Xc (@nil N) (Gfc (ST_nil lv)).
  rewrite !(PrettyWr.prun_cons indent), pt_rune, fl_nil, pt_space, add_pend_nil. f_equal. pfeq.
Qed.

(* ---------- while ---------- *)

Lemma P_swhile t c body lc : t_type t = T_WHILE -> t_lit t = kw_while -> NLF (t_comments t) ->
  PE c lc -> PS body -> PS (SWhile t c body).
Proof.
  intros Ty Li Hct Jc Jb b pd lv mp Hlv Hpd.
  set (g0 := G pd lv (t_comments t)).
  destruct (P_kwcond T_WHILE kw_while c lc relex_while eq_refl ltac:(discriminate) ltac:(discriminate) Jc (b ++ g0) lv mp Hlv)
    as (txt & Wc & Lc).
  destruct (Jb ((b ++ g0) ++ kw_while ++ 32%N :: 40%N :: txt ++ [41%N]) [32%N] lv mp Hlv pend_ok_sp) as (g0b & gb & tb & Wb & Ggb & Hsb & Lb & _ & Gfb).
  exists g0, g0, (kw_while ++ 32%N :: 40%N :: txt ++ 41%N :: gb ++ tb). split.
  { cbn [write_stmt]. rewrite prun_lead. fold g0.
    change [119%N; 104%N; 105%N; 108%N; 101%N] with kw_while.
    rewrite Wc, app_nil_r, Wb. f_equal. rewrite <- !app_assoc. cbn [app]. rewrite <- !app_assoc. reflexivity. }
  split; [apply G_gap; assumption|].
  split; [split; [split; [split; [reflexivity|discriminate]|reflexivity]|
                  change (kw_while ++ 32%N :: 40%N :: txt ++ 41%N :: gb ++ tb) with (kw_while ++ (32%N :: 40%N :: txt) ++ (41%N :: gb) ++ tb);
                  rewrite !app_assoc; apply send_app; [exact (sbody_ne _ Hsb)|apply Hsb]]|].
  gl_first t.
  intros K gs l Tg Hl.
  destruct (Lc (gb ++ tb) K gs l Tg Hl) as (t1 & tl & c' & tsc & tr & l1 & L1 & R1 & Ty1 & Li1 & Tl & Tr & Mc & Sc & C1 & Xc & Wc').
  rewrite <- (app_nil_r tb) in R1.
  destruct (LxS_gap gb tb body [] K l1 Lb Ggb Hsb R1) as (body' & tsb & l2 & L2 & _ & R2 & Mb & Sb & _ & Xb & Wb').
  exists (SWhile t1 c' body'), (([t1; tl] ++ tsc ++ [tr]) ++ tsb), l2.
  split; [eapply lexes_app; eassumption|]. split; [discriminate|]. split; [exact R2|]. split; [|split].
  - intros nx R. cbn [m_stmt app]. rewrite Ty1. change (T_WHILE =? T_WHILE) with true. cbn [negb].
    rewrite eat_tok_refl. cbn [eat]. rewrite Tl. change (T_LPAREN =? T_LPAREN) with true. cbn iota.
    rewrite <- !app_assoc, Mc. cbn [app eat]. rewrite Tr. change (T_RPAREN =? T_RPAREN) with true. cbn iota.
    apply Mb.
  - cbn [shape_stmt tmap_stmt]. change (tmap_stmt norm_tok) with shape_stmt. change (tmap_expr norm_tok) with shape_expr.
    rewrite Sc, Sb, (norm_eq t1 t) by congruence. reflexivity.
  - apply (XS_intro _ _ t1); [reflexivity|exact C1|rewrite !bnd_swhile, !nb_app, Xc, Xb; reflexivity|].
    rewrite <- C1. cbn [write_stmt]. eapply WX_lead; [reflexivity|apply FF_mapping|]. intro mp2.
    rewrite (PrettyWr.prun_cons indent), pt_mapping, fl_nil, app_nil_r.
    change [119%N; 104%N; 105%N; 108%N; 101%N] with kw_while.
    rewrite Wc', app_nil_r. rewrite (WX_run _ _ _ _ _ _ _ Wb' [32%N] mp2 (Gfb (ST_sp lv))). pfeq.
Qed.

(* ---------- if [else] ---------- *)

Lemma P_sif t c thn els lc : t_type t = T_IF -> t_lit t = kw_if -> NLF (t_comments t) -> PE c lc -> PS thn ->
  (is_snil els = false -> PS els) -> PS (SIf t c thn els).
Proof.
  intros Ty Li Hct Jc Jt Je b pd lv mp Hlv Hpd.
  set (g0 := G pd lv (t_comments t)).
  destruct (P_kwcond T_IF kw_if c lc relex_if eq_refl ltac:(discriminate) ltac:(discriminate) Jc (b ++ g0) lv mp Hlv)
    as (txt & Wc & Lc).
  destruct (Jt ((b ++ g0) ++ kw_if ++ 32%N :: 40%N :: txt ++ [41%N]) [32%N] lv mp Hlv pend_ok_sp) as (g0t & gt & tt & Wt & Ggt & Hst & Lt & _ & Gft).
  destruct (is_snil els) eqn:Ee.
  - exists g0, g0, (kw_if ++ 32%N :: 40%N :: txt ++ 41%N :: gt ++ tt). split.
    { cbn [write_stmt]. rewrite Ee. cbn [negb]. rewrite prun_lead. fold g0.
      change [105%N; 102%N] with kw_if.
      rewrite Wc, !app_nil_r, Wt. f_equal. rewrite <- !app_assoc. cbn [app]. rewrite <- !app_assoc. reflexivity. }
    split; [apply G_gap; assumption|].
    split; [split; [split; [split; [reflexivity|discriminate]|reflexivity]|
                    change (kw_if ++ 32%N :: 40%N :: txt ++ 41%N :: gt ++ tt) with (kw_if ++ (32%N :: 40%N :: txt) ++ (41%N :: gt) ++ tt);
                    rewrite !app_assoc; apply send_app; [exact (sbody_ne _ Hst)|apply Hst]]|].
    gl_first t.
    intros K gs l Tg Hl.
    destruct (Lc (gt ++ tt) K gs l Tg Hl) as (t1 & tl & c' & tsc & tr & l1 & L1 & R1 & Ty1 & Li1 & Tl & Tr & Mc & Sc & C1 & Xc & Wc').
    rewrite <- (app_nil_r tt) in R1.
    destruct (LxS_gap gt tt thn [] K l1 Lt Ggt Hst R1) as (thn' & tst & l2 & L2 & _ & R2 & Mt & St & _ & Xt & Wt').
    exists (SIf t1 c' thn' SNil), (([t1; tl] ++ tsc ++ [tr]) ++ tst), l2.
    split; [eapply lexes_app; eassumption|]. split; [discriminate|]. split; [exact R2|]. split; [|split].
    + intros nx R. cbn [m_stmt app]. rewrite Ty1. change (T_IF =? T_IF) with true. cbn [negb].
      rewrite eat_tok_refl. cbn [eat]. rewrite Tl. change (T_LPAREN =? T_LPAREN) with true. cbn iota.
      rewrite <- !app_assoc, Mc. cbn [app eat]. rewrite Tr. change (T_RPAREN =? T_RPAREN) with true. cbn iota.
      rewrite Mt. reflexivity.
    + apply is_snil_true in Ee. subst els.
      cbn [shape_stmt tmap_stmt]. change (tmap_stmt norm_tok) with shape_stmt. change (tmap_expr norm_tok) with shape_expr.
      rewrite Sc, St, (norm_eq t1 t) by congruence. reflexivity.
    + apply is_snil_true in Ee. subst els.
      apply (XS_intro _ _ t1); [reflexivity|exact C1|rewrite !bnd_sif, !nb_app, Xc, Xt; reflexivity|].
      rewrite <- C1. cbn [write_stmt is_snil negb]. eapply WX_lead; [reflexivity|apply FF_mapping|]. intro mp2.
      rewrite (PrettyWr.prun_cons indent), pt_mapping, fl_nil, app_nil_r.
      change [105%N; 102%N] with kw_if.
      rewrite Wc', !app_nil_r. rewrite (WX_run _ _ _ _ _ _ _ Wt' [32%N] mp2 (Gft (ST_sp lv))). pfeq.
  - destruct (Je eq_refl ((((b ++ g0) ++ kw_if ++ 32%N :: 40%N :: txt ++ [41%N]) ++ gt ++ tt) ++ 32%N :: kw_else ++ [32%N]) [] lv mp Hlv pend_ok_nil)
      as (g0e & ge & te & We & Gge & Hse & Le & _ & Gfe).
    assert (Gge' : wgap (32%N :: ge)) by (apply wgap_sp_app; exact Gge).
    exists g0, g0, (kw_if ++ 32%N :: 40%N :: txt ++ 41%N :: gt ++ tt ++ 32%N :: kw_else ++ (32%N :: ge) ++ te). split.
    { cbn [write_stmt]. rewrite Ee. cbn [negb]. rewrite prun_lead. fold g0.
      change [105%N; 102%N] with kw_if.
      rewrite Wc, !app_nil_r, prun_app, Wt. psimp. cbn [app].
      change [32%N; 101%N; 108%N; 115%N; 101%N; 32%N] with (32%N :: kw_else ++ [32%N]).
      rewrite We. f_equal. repeat (rewrite <- ?app_assoc; cbn [app]). reflexivity. }
    split; [apply G_gap; assumption|].
    split; [split; [split; [split; [reflexivity|discriminate]|reflexivity]|
                    change (kw_if ++ 32%N :: 40%N :: txt ++ 41%N :: gt ++ tt ++ 32%N :: kw_else ++ (32%N :: ge) ++ te)
                      with (kw_if ++ (32%N :: 40%N :: txt) ++ (41%N :: gt) ++ tt ++ (32%N :: kw_else) ++ (32%N :: ge) ++ te);
                    rewrite !app_assoc; apply send_app; [exact (sbody_ne _ Hse)|apply Hse]]|].
    gl_first t.
    intros K gs l Tg Hl.
    destruct (Lc (gt ++ tt ++ 32%N :: kw_else ++ (32%N :: ge) ++ te) K gs l Tg Hl)
      as (t1 & tl & c' & tsc & tr & l1 & L1 & R1 & Ty1 & Li1 & Tl & Tr & Mc & Sc & C1 & Xc & Wc').
    destruct (LxS_gap gt tt thn _ K l1 Lt Ggt Hst R1) as (thn' & tst & l2 & L2 & _ & R2 & Mt & St & _ & Xt & Wt').
    change (32%N :: kw_else ++ (32%N :: ge) ++ te) with ([32%N] ++ kw_else ++ (32%N :: ge) ++ te) in R2.
    destruct (P_word T_ELSE kw_else [32%N] ((32%N :: ge) ++ te) K l2 relex_else eq_refl
                ltac:(discriminate) ltac:(discriminate)) as (t2 & l3 & L3 & Ty2 & Li2 & _ & R3); [|exact wgap_sp|exact R2|].
    { rewrite <- (app_nil_r te). apply (nic_gap (32%N :: ge) te [] K _ Gge' eq_refl (proj1 (proj1 Hse))). discriminate. }
    rewrite <- (app_nil_r te) in R3.
    destruct (LxS_gap (32%N :: ge) te els [] K l3 Le Gge' Hse R3) as (els' & tse & l4 & L4 & Ne4 & R4 & Me & Se & _ & Xe & We').
    exists (SIf t1 c' thn' els'), (([t1; tl] ++ tsc ++ [tr]) ++ tst ++ [t2] ++ tse), l4.
    split; [eapply lexes_app; [exact L1|eapply lexes_app; [exact L2|eapply lexes_app; eassumption]]|].
    split; [discriminate|]. split; [exact R4|]. split; [|split].
    + intros nx R. cbn [m_stmt app]. rewrite Ty1. change (T_IF =? T_IF) with true. cbn [negb].
      rewrite eat_tok_refl. cbn [eat]. rewrite Tl. change (T_LPAREN =? T_LPAREN) with true. cbn iota.
      rewrite <- !app_assoc, Mc. cbn [app eat]. rewrite Tr. change (T_RPAREN =? T_RPAREN) with true. cbn iota.
      rewrite Mt, snil_match, (is_snil_shape _ _ Se), Ee. cbn [eat]. rewrite Ty2.
      change (T_ELSE =? T_ELSE) with true. cbn iota. apply Me.
    + cbn [shape_stmt tmap_stmt]. change (tmap_stmt norm_tok) with shape_stmt. change (tmap_expr norm_tok) with shape_expr.
      rewrite Sc, St, Se, (norm_eq t1 t) by congruence. reflexivity.
    + apply (XS_intro _ _ t1); [reflexivity|exact C1|rewrite !bnd_sif, !nb_app, Xc, Xt, Xe; reflexivity|].
      rewrite <- C1. cbn [write_stmt]. rewrite (is_snil_shape _ _ Se), Ee. cbn [negb].
      eapply WX_lead; [reflexivity|apply FF_mapping|]. intro mp2.
      rewrite (PrettyWr.prun_cons indent), pt_mapping, fl_nil, app_nil_r.
      change [105%N; 102%N] with kw_if.
      rewrite Wc', !app_nil_r, (PrettyWr.prun_app indent).
      rewrite (WX_run _ _ _ _ _ _ _ Wt' [32%N] mp2 (Gft (ST_sp lv))).
      rewrite prun_cons_ps, pt_string, fl_nil.
      change [32%N; 101%N; 108%N; 115%N; 101%N; 32%N] with (32%N :: kw_else ++ [32%N]). cbn [app].
      rewrite tcm_sp in We'.
      rewrite (WX_run _ _ _ _ _ _ _ We' (@nil N) mp2 (Gfe (ST_nil lv))). pfeq.
Qed.

(* ---------- for ---------- *)

Definition LxOpt (b : str) (pd : list N) (lv : Z) (txt : str) (e : expr) : Prop :=
  forall K, kont ENil K -> forall l, l_rest l = rta txt K ->
    exists e' ts l', lexes l ts l' /\ l_rest l' = K /\
      (forall R, (if is_enil e' then Some (ts ++ R) else m_expr e' (ts ++ R)) = Some R) /\
      shape_expr e' = shape_expr e /\ nb (bnd_expr e') = nb (bnd_expr e) /\
      (ST pd lv -> forall mp2, prun (ps b pd lv mp2) (opt_ops e') = ps (b ++ txt) (if is_enil e then pd else []) lv mp2).

Definition POpt (e : expr) : Prop :=
  forall b pd lv mp, 0 <= lv -> pend_ok pd -> exists txt,
    prun (ps b pd lv mp) (opt_ops e) = ps (b ++ txt) (if is_enil e then pd else []) lv mp /\ LxOpt b pd lv txt e.

Lemma P_opt e le : (is_enil e = false -> PE e le) -> POpt e.
Proof.
  intros J b pd lv mp Hlv Hpd. unfold opt_ops. destruct (is_enil e) eqn:Ee.
  - apply is_enil_true in Ee. subst e. exists []. split; [cbn [negb]; rewrite app_nil_r; reflexivity|].
    intros K _ l Hl. exists ENil, [], l. split; [constructor|]. split; [exact Hl|]. split; [reflexivity|split; [reflexivity|split; [reflexivity|]]].
    intros _ mp2. unfold opt_ops. cbn [is_enil negb]. rewrite prun_nil, app_nil_r. reflexivity.
  - destruct (J eq_refl) as (c & Oc & Je). destruct (Je b pd lv mp Hlv Hpd) as (g & body & W & Gg & _ & (_ & _ & Gfe) & Hd & Lx).
    exists (g ++ body). split; [cbn [negb]; rewrite app_nil_r; exact W|].
    intros K HK l Hl. rewrite <- (app_nil_r body) in Hl.
    destruct (LxE_gap g body e _ c [] K l Lx Gg Hd Oc (kont_sub _ _ _ HK eq_refl) Hl) as (e' & ts & l' & L & R & M & S & tq & tsq & _ & _ & _ & Xe).
    exists e', ts, l'. split; [exact L|]. split; [exact R|]. split; [|split; [exact S|split; [apply Xe|]]].
    + intro R0. rewrite (is_enil_shape _ _ S), Ee. apply M.
    + intros St mp2. unfold opt_ops. rewrite (is_enil_shape _ _ S), Ee. cbn [negb]. rewrite app_nil_r.
      wx_sub Xe pd (Gfe St). pfeq.
Qed.

Definition spn (e : expr) : str := if is_enil e then [32%N] else [].

Lemma spn_gap e : wgap (spn e).
Proof. unfold spn. destruct (is_enil e); [exact wgap_sp|exact wgap_nil]. Qed.

Lemma fl_spn e lv : fl (if is_enil e then [32%N] else []) lv = spn e.
Proof. unfold spn. destruct (is_enil e); reflexivity. Qed.

Lemma P_sfor t i c u body : t_type t = T_FOR -> t_lit t = kw_for -> NLF (t_comments t) ->
  POpt i -> POpt c -> POpt u -> PS body -> PS (SFor t i c u body).
Proof.
  intros Ty Li Hct Ji Jc Ju Jb b pd lv mp Hlv Hpd.
  set (g0 := G pd lv (t_comments t)).
  destruct (Ji (((b ++ g0) ++ kw_for) ++ [32%N; 40%N]) [] lv mp Hlv pend_ok_nil) as (ti & Wi & Lxi).
  destruct (Jc (((((b ++ g0) ++ kw_for) ++ [32%N; 40%N]) ++ ti) ++ [59%N]) [32%N] lv mp Hlv pend_ok_sp) as (tc & Wc & Lxc).
  destruct (Ju (((((((b ++ g0) ++ kw_for) ++ [32%N; 40%N]) ++ ti) ++ [59%N]) ++ tc) ++ spn c ++ [59%N]) [32%N] lv mp Hlv pend_ok_sp)
    as (tu & Wu & Lxu).
  destruct (Jb (((((((((b ++ g0) ++ kw_for) ++ [32%N; 40%N]) ++ ti) ++ [59%N]) ++ tc) ++ spn c ++ [59%N]) ++ tu) ++ spn u ++ [41%N])
              [32%N] lv mp Hlv pend_ok_sp) as (g0b & gb & tb & Wb & Ggb & Hsb & Lb & _ & Gfb).
  exists g0, g0, (kw_for ++ [32%N; 40%N] ++ ti ++ 59%N :: tc ++ spn c ++ 59%N :: tu ++ spn u ++ 41%N :: gb ++ tb). split.
  { cbn [write_stmt]. fold (opt_ops i). fold (opt_ops c). fold (opt_ops u).
    change [102%N; 111%N; 114%N] with kw_for.
    psimp. fold g0. cbn [app]. rewrite Wi.
    assert (E1 : (if is_enil i then @nil N else []) = []) by (destruct (is_enil i); reflexivity).
    rewrite E1. psimp. cbn [app]. rewrite Wc. psimp. rewrite fl_spn. rewrite Wu. psimp. rewrite fl_spn. rewrite ?app_nil_r, Wb.
    f_equal. repeat (rewrite <- ?app_assoc; cbn [app]). reflexivity. }
  split; [apply G_gap; assumption|].
  split; [split; [split; [split; [reflexivity|discriminate]|reflexivity]|
                  change (kw_for ++ [32%N; 40%N] ++ ti ++ 59%N :: tc ++ spn c ++ 59%N :: tu ++ spn u ++ 41%N :: gb ++ tb)
                    with (kw_for ++ [32%N; 40%N] ++ ti ++ (59%N :: tc) ++ spn c ++ (59%N :: tu) ++ spn u ++ (41%N :: gb) ++ tb);
                  rewrite !app_assoc; apply send_app; [exact (sbody_ne _ Hsb)|apply Hsb]]|].
  gl_first t.
  intros K gs l Tg Hl.
  change (kw_for ++ [32%N; 40%N] ++ ti ++ 59%N :: tc ++ spn c ++ 59%N :: tu ++ spn u ++ 41%N :: gb ++ tb)
    with (kw_for ++ [32%N] ++ [40%N] ++ ti ++ 59%N :: tc ++ spn c ++ 59%N :: tu ++ spn u ++ 41%N :: gb ++ tb) in Hl.
  destruct (P_word0_c T_FOR kw_for gs ([32%N] ++ [40%N] ++ ti ++ 59%N :: tc ++ spn c ++ 59%N :: tu ++ spn u ++ 41%N :: gb ++ tb) K l
              relex_for eq_refl ltac:(discriminate) ltac:(discriminate)) as (t1 & l1 & L1 & Ty1 & Li1 & _ & R1 & C1); [|exact Tg|exact Hl|].
  { apply (nic_gap [32%N] [40%N] _ K 40%N wgap_sp eq_refl); [split; [reflexivity|discriminate]|discriminate]. }
  destruct (P_punct T_LPAREN [40%N] [32%N] _ K l1 type_text_lparen ltac:(pfree) wgap_sp R1)
    as (tl & l2 & L2 & Tl & _ & _ & R2).
  rewrite rta_app in R2.
  destruct (Lxi _ (kont_semi' _ K) l2 R2) as (i' & tsi & l3 & L3 & R3 & Mi & Si & Xi & Wi').
  destruct (P_semi [] _ K l3 wgap_nil R3) as (s1 & l4 & L4 & Ts1 & R4).
  rewrite rta_app in R4.
  assert (K2 : forall ge0, kont ge0 (rta (spn c ++ 59%N :: tu ++ spn u ++ 41%N :: gb ++ tb) K)).
  { intro ge0. apply kont_gap_char; [apply spn_gap|reflexivity|discriminate|reflexivity|discriminate]. }
  destruct (Lxc _ (K2 _) l4 R4) as (c' & tsc & l5 & L5 & R5 & Mc & Sc & Xc & Wc').
  destruct (P_semi (spn c) _ K l5 (spn_gap c) R5) as (s2 & l6 & L6 & Ts2 & R6).
  rewrite rta_app in R6.
  assert (K3 : forall ge0, kont ge0 (rta (spn u ++ 41%N :: gb ++ tb) K)).
  { intro ge0. apply kont_gap_char; [apply spn_gap|reflexivity|discriminate|reflexivity|discriminate]. }
  destruct (Lxu _ (K3 _) l6 R6) as (u' & tsu & l7 & L7 & R7 & Mu & Su & Xu & Wu').
  change (spn u ++ 41%N :: gb ++ tb) with (spn u ++ [41%N] ++ gb ++ tb) in R7.
  destruct (P_punct T_RPAREN [41%N] (spn u) _ K l7 type_text_rparen ltac:(pfree) (spn_gap u) R7)
    as (tr & l8 & L8 & Tr & _ & _ & R8).
  rewrite <- (app_nil_r tb) in R8.
  destruct (LxS_gap gb tb body [] K l8 Lb Ggb Hsb R8) as (body' & tsb & l9 & L9 & _ & R9 & Mb & Sb & _ & Xb & Wb').
  exists (SFor t1 i' c' u' body'), ([t1] ++ [tl] ++ tsi ++ [s1] ++ tsc ++ [s2] ++ tsu ++ [tr] ++ tsb), l9.
  split.
  { repeat (eapply lexes_app; [eassumption|]). exact L9. }
  split; [discriminate|]. split; [exact R9|]. split; [|split].
  - intros nx R. cbn [m_stmt app]. rewrite Ty1. change (T_FOR =? T_FOR) with true. cbn [negb].
    rewrite eat_tok_refl. cbn [eat]. rewrite Tl. change (T_LPAREN =? T_LPAREN) with true. cbn iota.
    repeat (rewrite <- app_assoc; cbn [app]).
    rewrite enil_match, Mi. cbn [eat]. rewrite Ts1. change (T_SEMICOLON =? T_SEMICOLON) with true. cbn iota.
    rewrite enil_match, Mc. cbn [eat]. rewrite Ts2. change (T_SEMICOLON =? T_SEMICOLON) with true. cbn iota.
    rewrite enil_match, Mu. cbn [eat]. rewrite Tr. change (T_RPAREN =? T_RPAREN) with true. cbn iota.
    apply Mb.
  - cbn [shape_stmt tmap_stmt]. change (tmap_stmt norm_tok) with shape_stmt. change (tmap_expr norm_tok) with shape_expr.
    rewrite Si, Sc, Su, Sb, (norm_eq t1 t) by congruence. reflexivity.
  - apply (XS_intro _ _ t1); [reflexivity|exact C1|rewrite !bnd_sfor, !nb_app, Xi, Xc, Xu, Xb; reflexivity|].
    rewrite <- C1. cbn [write_stmt]. fold (opt_ops i'). fold (opt_ops c'). fold (opt_ops u').
    change [102%N; 111%N; 114%N] with kw_for.
    eapply WX_lead; [reflexivity|apply FF_mapping|]. intro mp2.
    psimp. cbn [app].
    setbuf (((b ++ g0) ++ kw_for) ++ [32%N; 40%N]).
    rewrite (Wi' (ST_nil lv)).
    assert (E1 : (if is_enil i then @nil N else []) = []) by (destruct (is_enil i); reflexivity).
    rewrite E1. psimp. cbn [app].
    setbuf (((((b ++ g0) ++ kw_for) ++ [32%N; 40%N]) ++ ti) ++ [59%N]).
    rewrite (Wc' (ST_sp lv)). psimp. rewrite fl_spn.
    setbuf (((((((b ++ g0) ++ kw_for) ++ [32%N; 40%N]) ++ ti) ++ [59%N]) ++ tc) ++ spn c ++ [59%N]).
    rewrite (Wu' (ST_sp lv)). psimp. rewrite fl_spn. rewrite ?app_nil_r.
    setbuf (((((((((b ++ g0) ++ kw_for) ++ [32%N; 40%N]) ++ ti) ++ [59%N]) ++ tc) ++ spn c ++ [59%N]) ++ tu) ++ spn u ++ [41%N]).
    rewrite (WX_run _ _ _ _ _ _ _ Wb' [32%N] mp2 (Gfb (ST_sp lv))).
    f_equal. repeat (rewrite <- ?app_assoc; cbn [app]). reflexivity.
Qed.

End TrivJ.

End TrivJ.
Import TrivJ.

(* TrivMain -- every parsed tree over tokens of a lexed source satisfies the invariant *)

(* PrettyMain.v -- every parsed tree over tokens of a lexed source satisfies the invariant; the round trip *)

(* ================================================================== *)
(* 1. what the lexer guarantees about trivia lists                     *)
(* ================================================================== *)

Lemma TRM_snoc cs c : TRM cs -> trim_right_spaces c = c -> TRM (cs ++ [c]).
Proof. intros H Hc. apply Forall_app. split; [exact H|constructor; [exact Hc|constructor]]. Qed.

Lemma trivia_TRM : forall rest mode line col had cs r' line' col' had' cs',
  trivia mode rest line col had cs = (r', line', col', had', cs') -> TRM cs -> TRM cs'.
Proof.
  induction rest as [|c r IH]; intros mode line col had cs r' line' col' had' cs' H N.
  - cbn [trivia] in H. destruct mode as [| |acc]; inversion H; subst; try exact N.
    apply TRM_snoc; [exact N|apply trim_idem].
  - destruct mode as [| |acc]; cbn [trivia] in H.
    + destruct (isWhitespace c).
      * destruct (N.eqb c LF).
        -- eapply IH; [exact H|apply TRM_snoc; [exact N|reflexivity]].
        -- eapply IH; [exact H|exact N].
      * destruct (N.eqb c SLASH && N.eqb (hd 0%N r) SLASH).
        -- eapply IH; [exact H|exact N].
        -- inversion H; subst. exact N.
    + eapply IH; [exact H|exact N].
    + destruct (N.eqb c LF).
      * eapply IH; [exact H|apply TRM_snoc; [exact N|apply trim_idem]].
      * eapply IH; [exact H|exact N].
Qed.

Lemma next_token_trivia_c l : let t := fst (next_token l) in
  NLF (t_comments t) /\ (t_nl t = false -> t_type t <> T_EOF -> t_comments t = []).
Proof.
  cbv zeta. destruct (next_token_trivia l) as [H1 H2]. split; [|exact H2]. split; [exact H1|].
  unfold next_token, next_token_with.
  set (l1 := read_leading_comments l).
  assert (Q : TRM (l_comments l1)).
  { unfold l1, read_leading_comments.
    destruct (trivia TWs (l_rest l) (l_line l) (l_col l) false []) as [[[[r line] col] had] cs] eqn:T.
    cbn [l_comments]. apply (trivia_TRM _ _ _ _ _ _ _ _ _ _ _ T). constructor. }
  rewrite <- (hc_eta l1), base_next_token_hc. unfold mt. cbn [fst thc t_comments]. exact Q.
Qed.

(* ================================================================== *)
(* 2. the facts about one token the induction uses                     *)
(* ================================================================== *)

Definition TP (t : token) : Prop :=
  TL t /\ blank_eol_free (t_lit t) = true /\ NLF (t_comments t) /\
  (t_nl t = false -> t_type t <> T_EOF -> t_comments t = []).

Lemma tokenize_from_TP : forall f l toks,
  tokenize_from f l = Some toks -> forallb tok_lex toks = true -> literals_trim_safe toks = true ->
  Forall TP toks.
Proof.
  induction f as [|f IH]; intros l toks H HL HB; cbn [tokenize_from] in H; [discriminate H|].
  pose proof (next_token_trivia_c l) as Hc. cbv zeta in Hc.
  destruct (next_token l) as [t l']. cbn [fst] in Hc.
  destruct (t_type t =? T_EOF).
  - inversion H; subst toks. unfold literals_trim_safe in HB. cbn [forallb] in *.
    apply andb_true_iff in HL as [L1 _]. apply andb_true_iff in HB as [B1 _].
    constructor; [|constructor]. split; [exact L1|]. split; [exact B1|exact Hc].
  - destruct (tokenize_from f l') as [ts|] eqn:E; [|discriminate H].
    inversion H; subst toks. unfold literals_trim_safe in HB. cbn [forallb] in *.
    apply andb_true_iff in HL as [L1 L2]. apply andb_true_iff in HB as [B1 B2].
    constructor; [|exact (IH l' ts E L2 B2)]. split; [exact L1|]. split; [exact B1|exact Hc].
Qed.

Lemma lexed_TP src toks : tokenize src = Some toks -> strings_stable toks = true ->
  literals_trim_safe toks = true -> Forall TP toks.
Proof.
  intros H SS TS. exact (tokenize_from_TP _ _ _ H (lexed_tokens_lexical src toks H SS) TS).
Qed.

Lemma TP_TL t : TP t -> TL t. Proof. intros [H _]. exact H. Qed.
Lemma Forall_TP_TL ts : Forall TP ts -> Forall TL ts.
Proof. apply Forall_impl. exact TP_TL. Qed.

Lemma eat_tok_TP t ts r : eat_tok t ts = Some r -> Forall TP ts -> TP t /\ Forall TP r.
Proof. intros H F. apply eat_tok_inv in H. subst ts. inversion F as [|? ? Tt Fr]; subst. split; [exact Tt|exact Fr]. Qed.
Lemma eat_TP ty ts t r : eat ty ts = Some (t, r) -> Forall TP ts -> TP t /\ t_type t = ty /\ Forall TP r.
Proof. intros H F. apply eat_inv in H as [-> Ty]. inversion F as [|? ? Tt Fr]; subst. split; [exact Tt|]. split; [reflexivity|exact Fr]. Qed.

Lemma m_ident_TP i ts r : m_ident i ts = Some r -> Forall TP ts -> IOK i /\ Forall TP r.
Proof.
  intros H F. destruct (m_ident_TL _ _ _ H (Forall_TP_TL _ F)) as [Hi _].
  apply m_ident_inv in H as (-> & Ty & Mk). inversion F as [|? ? Tt Fr]; subst. split; [|exact Fr].
  split; [exact Hi|]. destruct Tt as (_ & _ & C & _). exact C.
Qed.

Lemma m_expr_TP e ts r : m_expr e ts = Some r -> Forall TP ts -> Forall TP r.
Proof. intros H F. exact (Forall_suf _ _ _ (m_expr_suf _ _ _ H) F). Qed.
Lemma m_stmt_TP s nx ts r : m_stmt s nx ts = Some r -> Forall TP ts -> Forall TP r.
Proof. intros H F. exact (Forall_suf _ _ _ (m_stmt_suf _ _ _ _ H) F). Qed.

Lemma params_TP ps : forall ts r, m_params ps ts = Some r -> Forall TP ts ->
  Forall IOK ps /\ Forall TP r.
Proof.
  induction ps as [|p ps IH]; intros ts r H F.
  - injection H as <-. split; [constructor|exact F].
  - rewrite m_params_cons in H. destruct (m_ident p ts) as [r1|] eqn:E; [|discriminate H].
    destruct (m_ident_TP _ _ _ E F) as [Hp F1].
    destruct ps as [|q ps']; cbn [m_ptail] in H.
    + injection H as <-. split; [constructor; [exact Hp|constructor]|exact F1].
    + destruct (eat T_COMMA r1) as [[tc r2]|] eqn:E2; [|discriminate H].
      destruct (eat_TP _ _ _ _ E2 F1) as (_ & _ & F2).
      destruct (IH _ _ H F2) as [Hps Fr]. split; [constructor; assumption|exact Fr].
Qed.

(* the first token the grammar reads of an expression is the first token stored in the tree *)
Lemma m_expr_ftok : forall e f ts r, m_expr e (f :: ts) = Some r -> first_tok_expr e = Some f.
Proof.
  induction e; intros f ts r H; cbn [m_expr first_tok_expr] in *; try discriminate H.
  - apply m_ident_inv in H as (E & _). injection E as -> _. reflexivity.
  - minv H. apply eat_tok_inv in H. injection H as -> _. reflexivity.
  - minv H. apply eat_tok_inv in H. injection H as -> _. reflexivity.
  - minv H. apply eat_tok_inv in H. injection H as -> _. reflexivity.
  - minv H. apply eat_tok_inv in H. injection H as -> _. reflexivity.
  - minv H. apply eat_tok_inv in H. injection H as -> _. reflexivity.
  - minv H. apply eat_tok_inv in H. injection H as -> _. reflexivity.
  - destruct (negb (t_type t =? T_LET)); [discriminate H|].
    destruct (eat_tok t (f :: ts)) as [r1|] eqn:E; [|discriminate H].
    apply eat_tok_inv in E. injection E as -> _. reflexivity.
  - minv H; eapply IHe1; eassumption.
  - minv H. apply eat_tok_inv in E0. injection E0 as -> _. reflexivity.
  - minv H. eapply IHe; eassumption.
  - minv H. apply eat_tok_inv in E0. injection E0 as -> _. reflexivity.
  - minv H; eapply IHe; eassumption.
  - destruct (m_expr e1 (f :: ts)) as [r1|] eqn:E; [|discriminate H]. eapply IHe1; eassumption.
  - minv H; eapply IHe1; eassumption.
  - destruct (if t_type t =? T_PLUS_ASSIGN then Some [43%N] else if t_type t =? T_MINUS_ASSIGN then Some [45%N] else None);
      [|discriminate H]. minv H. eapply IHe1; eassumption.
  - destruct (negb (t_type t =? T_FUNCTION)); [discriminate H|].
    destruct (eat_tok t (f :: ts)) as [r1|] eqn:E; [|discriminate H].
    apply eat_tok_inv in E. injection E as -> _. reflexivity.
  - minv H. apply eat_tok_inv in E0. injection E0 as -> _. reflexivity.
  - destruct (negb (t_type t =? T_LBRACE)); [discriminate H|].
    destruct (eat_tok t (f :: ts)) as [r1|] eqn:E; [|discriminate H].
    apply eat_tok_inv in E. injection E as -> _. reflexivity.
Qed.

(* ================================================================== *)
(* 3. every parsed tree over such tokens                               *)
(* ================================================================== *)

Section Main.
Variable indent : str.
Hypothesis indent_blank : blank_str indent.

Local Notation PE := (TrivJ.PE indent).
Local Notation PEx := (TrivJ.PEx indent).
Local Notation PS := (TrivJ.PS indent).
Local Notation PLet := (TrivJ.PLet indent).
Local Notation POpt := (TrivJ.POpt indent).

Lemma TP_text t s : TP t -> type_text (t_type t) = Some s -> t_lit t = s.
Proof. intros H. apply TL_text. apply TP_TL. exact H. Qed.

Section Step.
  Variable n : nat.
  Hypothesis IHe : forall e, (esize e <= n)%nat -> forall ts r, m_expr e ts = Some r -> wfx e = true ->
    Forall TP ts -> PE e (lead e).
  Hypothesis IHs : forall s, (ssize s <= n)%nat -> forall nx ts r, m_stmt s nx ts = Some r -> wf_stmt s = true ->
    Forall TP ts -> PS s.

  Lemma IHe_wf e : (esize e <= n)%nat -> forall ts r, m_expr e ts = Some r -> wf_expr e = true ->
    Forall TP ts -> PE e (lead e).
  Proof. intros Hn ts r H Hw F. eapply IHe; eauto. apply wf_wfx. exact Hw. Qed.

  Lemma IHe_x e : (esize e <= n)%nat -> forall ts r, m_expr e ts = Some r -> wf_expr e = true ->
    Forall TP ts -> PEx e.
  Proof. intros Hn ts r H Hw F. exists (lead e). eapply IHe_wf; eauto. Qed.

  Lemma exprs_P es : (esizes es <= n)%nat -> wf_exprs wf_expr es = true ->
    forall ts r, m_exprs m_expr es ts = Some r -> Forall TP ts -> Forall PEx es /\ Forall TP r.
  Proof.
    induction es as [|e es IH]; intros Hn Hw ts r H F.
    - injection H as <-. split; [constructor|exact F].
    - cbn [esizes fold_right] in Hn. fold (esizes es) in Hn. cbn [wf_exprs] in Hw.
      apply andb_true_iff in Hw as [Hw1 Hw2].
      rewrite m_exprs_cons in H. destruct (m_expr e ts) as [r1|] eqn:E; [|discriminate H].
      pose proof (IHe_x e ltac:(lia) _ _ E Hw1 F) as Je. pose proof (m_expr_TP _ _ _ E F) as F1.
      destruct es as [|q es']; cbn [m_tail] in H.
      + injection H as <-. split; [constructor; [exact Je|constructor]|exact F1].
      + destruct (eat T_COMMA r1) as [[tc r2]|] eqn:E2; [|discriminate H].
        destruct (eat_TP _ _ _ _ E2 F1) as (_ & _ & F2).
        destruct (IH ltac:(lia) Hw2 _ _ H F2) as [Js Fr]. split; [constructor; assumption|exact Fr].
  Qed.

  Lemma props_P ps : (psizes ps <= n)%nat -> wf_props wf_expr ps = true ->
    forall ts r, m_props m_expr ps ts = Some r -> Forall TP ts ->
    Forall (fun kv => key_ok (fst kv) = true /\ PEx (fst kv) /\ PEx (snd kv)) ps /\ Forall TP r.
  Proof.
    induction ps as [|[k v] ps IH]; intros Hn Hw ts r H F.
    - injection H as <-. split; [constructor|exact F].
    - cbn [psizes fold_right fst snd] in Hn. fold (psizes ps) in Hn. cbn [wf_props] in Hw.
      apply andb_true_iff in Hw as [Hw Hw3]. apply andb_true_iff in Hw as [Hw1 Hw2].
      cbn [m_props] in H.
      destruct (key_ok k) eqn:Kk; cbn [negb] in H; [|discriminate H].
      destruct (m_expr k ts) as [r1|] eqn:E1; [|discriminate H].
      pose proof (IHe_x k ltac:(lia) _ _ E1 Hw1 F) as Jk. pose proof (m_expr_TP _ _ _ E1 F) as F1.
      destruct (eat T_COLON r1) as [[tc r2]|] eqn:E2; [|discriminate H].
      destruct (eat_TP _ _ _ _ E2 F1) as (_ & _ & F2).
      destruct (m_expr v r2) as [r3|] eqn:E3; [|discriminate H].
      pose proof (IHe_x v ltac:(lia) _ _ E3 Hw2 F2) as Jv. pose proof (m_expr_TP _ _ _ E3 F2) as F3.
      assert (Hd : key_ok (fst (k, v)) = true /\ PEx (fst (k, v)) /\ PEx (snd (k, v))) by (cbn [fst snd]; auto).
      destruct ps as [|kv ps'].
      + injection H as <-. split; [constructor; [exact Hd|constructor]|exact F3].
      + destruct (eat T_COMMA r3) as [[tm r4]|] eqn:E4; [|discriminate H].
        destruct (eat_TP _ _ _ _ E4 F3) as (_ & _ & F4).
        destruct (IH ltac:(lia) Hw3 _ _ H F4) as [Js Fr]. split; [constructor; assumption|exact Fr].
  Qed.

  Lemma stmts_P ss : (ssizes ss <= n)%nat -> wf_stmts wf_stmt ss = true ->
    forall nx ts r, m_stmts m_stmt ss nx ts = Some r -> Forall TP ts -> Forall PS ss /\ Forall TP r.
  Proof.
    induction ss as [|s ss IH]; intros Hn Hw nx ts r H F.
    - injection H as <-. split; [constructor|exact F].
    - cbn [ssizes fold_right] in Hn. fold (ssizes ss) in Hn. cbn [wf_stmts] in Hw.
      apply andb_true_iff in Hw as [Hw1 Hw2]. cbn [m_stmts] in H.
      destruct (m_stmt s nx ts) as [r1|] eqn:E; [|discriminate H].
      pose proof (IHs s ltac:(lia) _ _ _ E Hw1 F) as Js. pose proof (m_stmt_TP _ _ _ _ E F) as F1.
      destruct (IH ltac:(lia) Hw2 _ _ _ H F1) as [Jss Fr]. split; [constructor; assumption|exact Fr].
  Qed.

  Lemma no_paren_lt' e k : wf_expr e = true -> k <= level e -> exists pv, prec_opt e = Some pv /\ (pv <? k) = false.
  Proof. intros Hw Hk. destruct (wf_prec e Hw) as (pv & Hp & Hl). exists pv. split; [exact Hp|lia]. Qed.
  Lemma no_paren_le' e k : wf_expr e = true -> k < level e -> exists pv, prec_opt e = Some pv /\ (pv <=? k) = false.
  Proof. intros Hw Hk. destruct (wf_prec e Hw) as (pv & Hp & Hl). exists pv. split; [exact Hp|lia]. Qed.

  Lemma expr_stepP e : (esize e <= S n)%nat -> forall ts r, m_expr e ts = Some r -> wfx e = true ->
    Forall TP ts -> PE e (lead e).
  Proof.
    intros Hn ts r H Hw F.
    destruct e as [ | i | t | t | t v | t v | t b | t | t name value | t e1 op e2 | t op e | t e op | t e rp
                  | t e args | t e1 e2 computed | t e1 e2 | t e1 op e2 | t name params body | t elems rb | t props rb ];
      cbn [m_expr] in H; try discriminate H; cbn [esize] in Hn; cbn [lead].
    - (* EIdent *) destruct (m_ident_TP _ _ _ H F) as [[Hi Hc] _]. apply (P_ident indent indent_blank i _ Hi eq_refl Hc).
    - (* EInt *)
      destruct ((t_type t =? T_INT) && go_int_ok (t_lit t)) eqn:C; [|discriminate H].
      apply andb_true_iff in C as [C1 C2]. destruct (eat_tok_TP _ _ _ H F) as [(Tt & Bt & Ct & _) _].
      apply (P_int indent indent_blank t _); [|exact Bt|reflexivity|exact Ct]. rewrite C1, C2. apply Z.eqb_eq in C1.
      rewrite (TL_word _ _ Tt C1) by auto. reflexivity.
    - (* EFloat *)
      destruct ((t_type t =? T_FLOAT) && go_float_ok (t_lit t)) eqn:C; [|discriminate H].
      apply andb_true_iff in C as [C1 C2]. destruct (eat_tok_TP _ _ _ H F) as [(Tt & Bt & Ct & _) _].
      apply (P_float indent indent_blank t _); [|exact Bt|reflexivity|exact Ct]. rewrite C1, C2. apply Z.eqb_eq in C1.
      rewrite (TL_word _ _ Tt C1) by auto. reflexivity.
    - (* EString *)
      destruct ((t_type t =? T_STRING) && str_eqb v (t_lit t)) eqn:C; [|discriminate H].
      destruct (eat_tok_TP _ _ _ H F) as [(Tt & Bt & Ct & _) _].
      pose proof C as C0. apply andb_true_iff in C0 as [C1 C2]. apply Z.eqb_eq in C1. apply str_eqb_spec in C2. subst v.
      apply (P_string indent indent_blank t _ _); [|exact Bt|reflexivity|exact Ct]. cbn [lexical]. rewrite C. cbn [andb].
      apply TL_string; assumption.
    - (* ERaw *)
      destruct ((t_type t =? T_RAW_STRING) && str_eqb v (t_lit t)) eqn:C; [|discriminate H].
      destruct (eat_tok_TP _ _ _ H F) as [(Tt & Bt & Ct & _) _].
      pose proof C as C0. apply andb_true_iff in C0 as [C1 C2]. apply Z.eqb_eq in C1. apply str_eqb_spec in C2. subst v.
      apply (P_raw indent indent_blank t _ _); [|exact Bt|reflexivity|exact Ct]. cbn [lexical]. rewrite C. cbn [andb].
      apply TL_raw; assumption.
    - (* EBool *)
      destruct (((t_type t =? T_TRUE) || (t_type t =? T_FALSE)) && Bool.eqb b (t_type t =? T_TRUE)) eqn:C; [|discriminate H].
      destruct (eat_tok_TP _ _ _ H F) as [(Tt & Bt & Ct & _) _].
      apply (P_bool indent indent_blank t b _); [|reflexivity|exact Ct]. cbn [lexical].
      apply andb_true_iff in C as [C1 C2]. apply Bool.eqb_prop in C2. subst b.
      apply orb_true_iff in C1 as [C1|C1]; apply Z.eqb_eq in C1.
      + rewrite C1. rewrite (TL_kw _ _ _ Tt C1 eq_refl). exact relex_true.
      + rewrite C1. rewrite (TL_kw _ _ _ Tt C1 eq_refl). exact relex_false.
    - (* ENull *)
      destruct (t_type t =? T_NULL) eqn:C; [|discriminate H].
      destruct (eat_tok_TP _ _ _ H F) as [(Tt & Bt & Ct & _) _].
      apply (P_null indent indent_blank t _); [|reflexivity|exact Ct]. cbn [lexical]. rewrite C. cbn [andb].
      apply Z.eqb_eq in C. rewrite (TL_kw _ _ _ Tt C eq_refl). reflexivity.
    - (* ELet *)
      destruct (t_type t =? T_LET) eqn:C; cbn [negb] in H; [|discriminate H]. apply Z.eqb_eq in C.
      destruct (eat_tok t ts) as [r1|] eqn:E1; [|discriminate H].
      destruct (eat_tok_TP _ _ _ E1 F) as [(Tt & Bt & Ct & _) F1].
      destruct (m_ident name r1) as [r2|] eqn:E2; [|discriminate H].
      destruct (m_ident_TP _ _ _ E2 F1) as [[Hnm Hcn] F2].
      apply (P_let indent indent_blank t name value (lead value)); [exact C|exact (TL_kw _ _ _ Tt C eq_refl)|exact Hnm|exact Ct|exact Hcn|].
      intro Ev. rewrite enil_match, Ev in H.
      destruct (eat T_ASSIGN r2) as [[teq r3]|] eqn:E3; [|discriminate H].
      destruct (eat_TP _ _ _ _ E3 F2) as (_ & _ & F3).
      cbn [wfx] in Hw. rewrite Ev in Hw.
      eapply IHe_wf; [|exact H|exact Hw|exact F3]. lia.
    - (* EBinary *)
      cbn [wfx wf_expr] in Hw.
      destruct (binop_level (t_type t)) as [lv|] eqn:B; [|discriminate H].
      destruct (str_eqb op (t_lit t)) eqn:Eo; cbn [negb] in H; [|discriminate H]. apply str_eqb_spec in Eo.
      destruct (m_expr e1 ts) as [r1|] eqn:E1; [|discriminate H].
      destruct (eat_tok t r1) as [r2|] eqn:E2; [|discriminate H].
      pose proof (m_expr_TP _ _ _ E1 F) as F1. destruct (eat_tok_TP _ _ _ E2 F1) as [(Tt & Bt & Ct & _) F2].
      apply andb_true_iff in Hw as [Hw W2]. apply andb_true_iff in Hw as [Hw W1]. apply andb_true_iff in Hw as [L1 L2].
      destruct (no_paren_lt' e1 lv W1 ltac:(lia)) as (pl & Pl & Cl).
      destruct (no_paren_le' e2 lv W2 ltac:(lia)) as (pr & Pr & Cr).
      apply (P_binary indent indent_blank t e1 op e2 lv pl pr (lead e1) (lead e2) B (TL_binop _ _ Tt B) Eo Pl Cl Pr Cr Ct).
      + exact (IHe_wf e1 ltac:(lia) _ _ E1 W1 F).
      + exact (IHe_wf e2 ltac:(lia) _ _ H W2 F2).
    - (* EUnary *)
      cbn [wfx wf_expr] in Hw.
      destruct ((t_type t =? T_NOT) || (t_type t =? T_MINUS) || (t_type t =? T_INCREMENT) || (t_type t =? T_DECREMENT)) eqn:Tys;
        cbn [negb orb] in H; [|discriminate H].
      destruct (str_eqb op (t_lit t)) eqn:Eo; cbn [negb] in H; [|discriminate H]. apply str_eqb_spec in Eo.
      destruct (eat_tok t ts) as [r1|] eqn:E1; [|discriminate H].
      destruct (eat_tok_TP _ _ _ E1 F) as [(Tt & Bt & Ct & _) F1].
      apply andb_true_iff in Hw as [Hw W1].
      assert (Hlv : 9 <= level e).
      { destruct ((t_type t =? T_INCREMENT) || (t_type t =? T_DECREMENT)).
        - apply assignable_level in Hw. lia.
        - unfold L_UNARY in Hw. lia. }
      destruct (no_paren_lt' e 9 W1 Hlv) as (pr & Pr & Cr).
      assert (TT : type_text (t_type t) = Some (t_lit t)).
      { assert (X : exists s, type_text (t_type t) = Some s).
        { repeat (apply orb_true_iff in Tys; destruct Tys as [Tys|Tys]); apply Z.eqb_eq in Tys; rewrite Tys;
            eexists; reflexivity. }
        destruct X as [s X]. rewrite (TL_text _ _ Tt X). exact X. }
      apply (P_unary indent indent_blank t op e pr (lead e) TT Eo Tys Pr Cr Ct).
      exact (IHe_wf e ltac:(lia) _ _ H W1 F1).
    - (* EPostfix *)
      cbn [wfx wf_expr] in Hw.
      destruct ((t_type t =? T_INCREMENT) || (t_type t =? T_DECREMENT)) eqn:Tys; cbn [negb orb] in H; [|discriminate H].
      destruct (str_eqb op (t_lit t)) eqn:Eo; cbn [negb orb] in H; [|discriminate H]. apply str_eqb_spec in Eo.
      destruct (t_nl t) eqn:Nlt; [discriminate H|].
      destruct (m_expr e ts) as [r1|] eqn:E1; [|discriminate H].
      pose proof (m_expr_TP _ _ _ E1 F) as F1. destruct (eat_tok_TP _ _ _ H F1) as [(Tt & Bt & Ct & Nt) F2].
      apply andb_true_iff in Hw as [Hw W1]. apply assignable_level in Hw.
      destruct (no_paren_lt' e 10 W1 ltac:(lia)) as (pl & Pl & Cl).
      assert (TT : type_text (t_type t) = Some (t_lit t)).
      { assert (X : exists s, type_text (t_type t) = Some s).
        { apply orb_true_iff in Tys; destruct Tys as [Tys|Tys]; apply Z.eqb_eq in Tys; rewrite Tys;
            eexists; reflexivity. }
        destruct X as [s X]. rewrite (TL_text _ _ Tt X). exact X. }
      assert (Ecs : t_comments t = []).
      { apply Nt; [exact Nlt|]. intro Q. rewrite Q in Tys. discriminate Tys. }
      apply (P_postfix indent t e op pl (lead e) TT Eo Tys Pl Cl Ecs).
      exact (IHe_wf e ltac:(lia) _ _ E1 W1 F).
    - (* EGroup *)
      cbn [wfx wf_expr] in Hw.
      destruct (t_type t =? T_LPAREN) eqn:C1; cbn [negb orb] in H; [|discriminate H].
      destruct (t_type rp =? T_RPAREN) eqn:C2; cbn [negb orb] in H; [|discriminate H].
      apply Z.eqb_eq in C1, C2.
      destruct (eat_tok t ts) as [r1|] eqn:E1; [|discriminate H].
      destruct (eat_tok_TP _ _ _ E1 F) as [(Tt & Bt & Ct & _) F1].
      destruct (m_expr e r1) as [r2|] eqn:E2; [|discriminate H].
      pose proof (m_expr_TP _ _ _ E2 F1) as F2. destruct (eat_tok_TP _ _ _ H F2) as [(Trp & _ & Crp & _) _].
      apply (P_group indent indent_blank t e rp (lead e)).
      + exact (TL_punct _ _ _ Tt C1 type_text_lparen).
      + exact (TL_punct _ _ _ Trp C2 type_text_rparen).
      + exact Ct.
      + exact Crp.
      + exact (IHe_wf e ltac:(lia) _ _ E2 Hw F1).
    - (* ECall *)
      cbn [wfx wf_expr] in Hw.
      destruct (t_type t =? T_LPAREN) eqn:C1; cbn [negb] in H; [|discriminate H]. apply Z.eqb_eq in C1.
      destruct (m_expr e ts) as [r1|] eqn:E1; [|discriminate H].
      pose proof (m_expr_TP _ _ _ E1 F) as F1.
      destruct (eat_tok t r1) as [r2|] eqn:E2; [|discriminate H].
      destruct (eat_tok_TP _ _ _ E2 F1) as [(Tt & Bt & Ct & _) F2].
      destruct (m_exprs m_expr args r2) as [r3|] eqn:E3; [|discriminate H].
      apply andb_true_iff in Hw as [Hw W2]. apply andb_true_iff in Hw as [_ W1].
      fold (esizes args) in Hn.
      destruct (exprs_P args ltac:(lia) W2 _ _ E3 F2) as [Ja _].
      apply (P_call indent indent_blank t e args (lead e)); [exact C1|exact (TL_text _ _ Tt ltac:(rewrite C1; reflexivity))|exact Ct| |exact Ja].
      exact (IHe_wf e ltac:(lia) _ _ E1 W1 F).
    - (* EMember *)
      cbn [wfx wf_expr] in Hw.
      destruct (m_expr e1 ts) as [r1|] eqn:E1; [|discriminate H].
      pose proof (m_expr_TP _ _ _ E1 F) as F1.
      apply andb_true_iff in Hw as [Hw W2]. apply andb_true_iff in Hw as [Wlv W1].
      pose proof (IHe_wf e1 ltac:(lia) _ _ E1 W1 F) as Jo.
      destruct computed.
      + destruct (t_type t =? T_LBRACKET) eqn:C1; cbn [negb] in H; [|discriminate H]. apply Z.eqb_eq in C1.
        destruct (eat_tok t r1) as [r2|] eqn:E2; [|discriminate H].
        destruct (eat_tok_TP _ _ _ E2 F1) as [(Tt & Bt & Ct & _) F2].
        destruct (m_expr e2 r2) as [r3|] eqn:E3; [|discriminate H].
        apply (P_member_computed indent indent_blank t e1 e2 (lead e1) (lead e2));
          [exact C1|exact (TL_text _ _ Tt ltac:(rewrite C1; reflexivity))|exact Ct|exact Jo|].
        exact (IHe_wf e2 ltac:(lia) _ _ E3 W2 F2).
      + destruct (t_type t =? T_DOT) eqn:C1; cbn [negb] in H; [|discriminate H]. apply Z.eqb_eq in C1.
        destruct (eat_tok t r1) as [r2|] eqn:E2; [|discriminate H].
        destruct (eat_tok_TP _ _ _ E2 F1) as [(Tt & Bt & Ct & _) F2].
        destruct e2; try discriminate H.
        destruct (m_ident_TP _ _ _ H F2) as [[Hi Hci] _].
        apply (P_member_dot indent indent_blank t e1 i (lead e1));
          [exact C1|exact (TL_text _ _ Tt ltac:(rewrite C1; reflexivity))|exact Ct|exact Hi|exact Hci| |exact Jo].
        apply obj_ok_level. exact Wlv.
    - (* EAssign *)
      cbn [wfx wf_expr] in Hw.
      destruct (t_type t =? T_ASSIGN) eqn:C1; cbn [negb] in H; [|discriminate H]. apply Z.eqb_eq in C1.
      destruct (m_expr e1 ts) as [r1|] eqn:E1; [|discriminate H].
      pose proof (m_expr_TP _ _ _ E1 F) as F1.
      destruct (eat_tok t r1) as [r2|] eqn:E2; [|discriminate H].
      destruct (eat_tok_TP _ _ _ E2 F1) as [(Tt & Bt & Ct & _) F2].
      apply andb_true_iff in Hw as [Hw W2]. apply andb_true_iff in Hw as [_ W1].
      apply (P_assign indent indent_blank t e1 e2 (lead e1) (lead e2)); [exact C1|exact (TL_text _ _ Tt ltac:(rewrite C1; reflexivity))|exact Ct| |].
      + exact (IHe_wf e1 ltac:(lia) _ _ E1 W1 F).
      + exact (IHe_wf e2 ltac:(lia) _ _ H W2 F2).
    - (* ECompound *)
      cbn [wfx wf_expr] in Hw.
      destruct (if t_type t =? T_PLUS_ASSIGN then Some [43%N] else if t_type t =? T_MINUS_ASSIGN then Some [45%N] else None)
        as [w|] eqn:Want; [|discriminate H].
      destruct (str_eqb op w) eqn:Eo; cbn [negb] in H; [|discriminate H]. apply str_eqb_spec in Eo. subst w.
      destruct (m_expr e1 ts) as [r1|] eqn:E1; [|discriminate H].
      pose proof (m_expr_TP _ _ _ E1 F) as F1.
      destruct (eat_tok t r1) as [r2|] eqn:E2; [|discriminate H].
      destruct (eat_tok_TP _ _ _ E2 F1) as [(Tt & Bt & Ct & _) F2].
      apply andb_true_iff in Hw as [Hw W2]. apply andb_true_iff in Hw as [_ W1].
      assert (X : (t_type t = T_PLUS_ASSIGN \/ t_type t = T_MINUS_ASSIGN) /\ type_text (t_type t) = Some (op ++ [61%N])).
      { destruct (Z.eqb_spec (t_type t) T_PLUS_ASSIGN) as [Q|Q].
        - inversion Want; subst op. rewrite Q. split; [left|]; reflexivity.
        - destruct (Z.eqb_spec (t_type t) T_MINUS_ASSIGN) as [Q2|Q2]; [|discriminate Want].
          inversion Want; subst op. rewrite Q2. split; [right|]; reflexivity. }
      destruct X as [X1 X2].
      apply (P_compound indent indent_blank t e1 op e2 (t_type t) (lead e1) (lead e2) X1 eq_refl X2 (TL_text _ _ Tt X2) Want Ct).
      + exact (IHe_wf e1 ltac:(lia) _ _ E1 W1 F).
      + exact (IHe_wf e2 ltac:(lia) _ _ H W2 F2).
    - (* EFunc *)
      cbn [wfx wf_expr] in Hw.
      destruct (t_type t =? T_FUNCTION) eqn:C1; cbn [negb] in H; [|discriminate H]. apply Z.eqb_eq in C1.
      destruct (eat_tok t ts) as [r1|] eqn:E1; [|discriminate H].
      destruct (eat_tok_TP _ _ _ E1 F) as [(Tt & Bt & Ct & _) F1].
      destruct (match name with Some n0 => m_ident n0 r1 | None => Some r1 end) as [r2|] eqn:E2; [|discriminate H].
      assert (Hnm : match name with Some n0 => IOK n0 | None => True end /\ Forall TP r2).
      { destruct name as [n0|].
        - exact (m_ident_TP _ _ _ E2 F1).
        - injection E2 as <-. split; [exact I|exact F1]. }
      destruct Hnm as [Hnm F2].
      destruct (eat T_LPAREN r2) as [[tl r3]|] eqn:E3; [|discriminate H].
      destruct (eat_TP _ _ _ _ E3 F2) as (_ & _ & F3).
      destruct (m_params params r3) as [r4|] eqn:E4; [|discriminate H].
      destruct (params_TP _ _ _ E4 F3) as [Hps F4].
      destruct (eat T_RPAREN r4) as [[tr r5]|] eqn:E5; [|discriminate H].
      destruct (eat_TP _ _ _ _ E5 F4) as (_ & _ & F5).
      assert (Bl : is_block body = true) by (destruct body; try discriminate H; reflexivity).
      apply (P_func indent indent_blank); [exact C1|exact (TL_kw _ _ _ Tt C1 eq_refl)|exact Ct|exact Hnm|exact Hps| |exact Bl].
      destruct body; try discriminate Bl.
      eapply IHs; [|exact H|exact Hw|exact F5]. lia.
    - (* EArray *)
      cbn [wfx wf_expr] in Hw.
      destruct (t_type t =? T_LBRACKET) eqn:C1; cbn [negb orb] in H; [|discriminate H].
      destruct (t_type rb =? T_RBRACKET) eqn:C2; cbn [negb orb] in H; [|discriminate H].
      apply Z.eqb_eq in C1, C2.
      destruct (eat_tok t ts) as [r1|] eqn:E1; [|discriminate H].
      destruct (eat_tok_TP _ _ _ E1 F) as [(Tt & Bt & Ct & _) F1].
      destruct (m_exprs m_expr elems r1) as [r2|] eqn:E2; [|discriminate H].
      fold (esizes elems) in Hn.
      destruct (exprs_P elems ltac:(lia) Hw _ _ E2 F1) as [Ja F2].
      destruct (eat_tok_TP _ _ _ H F2) as [(Trb & _ & Crb & _) _].
      apply (P_array indent indent_blank); [exact (TL_punct _ _ _ Tt C1 type_text_lbracket)|exact (TL_punct _ _ _ Trb C2 type_text_rbracket)|exact Ct|exact Crb|exact Ja].
    - (* EObject *)
      cbn [wfx wf_expr] in Hw.
      destruct (t_type t =? T_LBRACE) eqn:C1; cbn [negb] in H; [|discriminate H]. apply Z.eqb_eq in C1.
      destruct (eat_tok t ts) as [r1|] eqn:E1; [|discriminate H].
      destruct (eat_tok_TP _ _ _ E1 F) as [(Tt & Bt & Ct & _) F1].
      pose proof (TL_punct _ _ _ Tt C1 type_text_lbrace) as Plb.
      destruct props as [|p ps].
      + destruct (tok_eqb rb zero_token) eqn:Z; [|discriminate H].
        apply (P_object indent indent_blank); [exact Plb|exact Z|exact Ct| |constructor].
        apply tok_eqb_eq in Z. subst rb. split; constructor.
      + destruct (t_type rb =? T_RBRACE) eqn:C2; cbn [negb] in H; [|discriminate H]. apply Z.eqb_eq in C2.
        destruct (m_props m_expr (p :: ps) r1) as [r2|] eqn:E2; [|discriminate H].
        fold (psizes (p :: ps)) in Hn.
        destruct (props_P (p :: ps) ltac:(lia) Hw _ _ E2 F1) as [Jp F2].
        destruct (eat_tok_TP _ _ _ H F2) as [(Trb & _ & Crb & _) _].
        apply (P_object indent indent_blank); [exact Plb|exact (TL_punct _ _ _ Trb C2 type_text_rbrace)|exact Ct|exact Crb|exact Jp].
  Qed.

  Lemma opt_stepP e ts r : (esize e <= n)%nat ->
    (if is_enil e then Some ts else m_expr e ts) = Some r -> (if is_enil e then true else wfx e) = true ->
    Forall TP ts -> POpt e /\ Forall TP r.
  Proof.
    intros Hn H Hw F. destruct (is_enil e) eqn:Ev.
    - injection H as <-. split; [|exact F]. apply (P_opt indent e []). intro X. congruence.
    - split; [|exact (m_expr_TP _ _ _ H F)]. apply (P_opt indent e (lead e)). intros _. exact (IHe e Hn _ _ H Hw F).
  Qed.

  Lemma stmt_stepP s : (ssize s <= S n)%nat -> forall nx ts r, m_stmt s nx ts = Some r -> wf_stmt s = true ->
    Forall TP ts -> PS s.
  Proof.
    intros Hn nx ts r H Hw F.
    destruct s as [ | t name value | t value | e | t name params body | t stmts rb | t c thn els | t c body | t i c u body ];
      cbn [m_stmt] in H; try discriminate H; cbn [ssize] in Hn; cbn [wf_stmt] in Hw.
    - (* SLet *)
      destruct (t_type t =? T_LET) eqn:C; cbn [negb] in H; [|discriminate H]. apply Z.eqb_eq in C.
      destruct (eat_tok t ts) as [r1|] eqn:E1; [|discriminate H].
      destruct (eat_tok_TP _ _ _ E1 F) as [(Tt & Bt & Ct & _) F1].
      destruct (m_ident name r1) as [r2|] eqn:E2; [|discriminate H].
      destruct (m_ident_TP _ _ _ E2 F1) as [[Hnm Hcn] F2].
      apply (P_slet indent indent_blank); [exact Ct|].
      apply (P_let_core indent indent_blank t name value (lead value)); [exact C|exact (TL_kw _ _ _ Tt C eq_refl)|exact Hnm|exact Hcn|].
      intro Ev. rewrite enil_match, Ev in H. rewrite enil_match, Ev in Hw.
      destruct (eat T_ASSIGN r2) as [[teq r3]|] eqn:E3; [|discriminate H].
      destruct (eat_TP _ _ _ _ E3 F2) as (_ & _ & F3).
      destruct (m_expr value r3) as [r4|] eqn:E4; [|discriminate H].
      eapply IHe_wf; [|exact E4|exact Hw|exact F3]. lia.
    - (* SReturn *)
      destruct (t_type t =? T_RETURN) eqn:C; cbn [negb] in H; [|discriminate H]. apply Z.eqb_eq in C.
      destruct (eat_tok t ts) as [r1|] eqn:E1; [|discriminate H].
      destruct (eat_tok_TP _ _ _ E1 F) as [(Tt & Bt & Ct & _) F1].
      apply (P_sreturn indent indent_blank); [exact C|exact (TL_kw _ _ _ Tt C eq_refl)|exact Ct|].
      intro Ev. rewrite enil_match, Ev in H. rewrite enil_match, Ev in Hw.
      destruct r1 as [|f r1']; [discriminate H|]. destruct (t_nl f) eqn:Nlf; [discriminate H|].
      destruct (m_expr value (f :: r1')) as [r2|] eqn:E2; [|discriminate H].
      assert (Ld : lead value = []).
      { rewrite <- (m_expr_lead _ _ _ _ E2). inversion F1 as [|? ? (_ & _ & _ & Nf) _]; subst.
        apply Nf; [exact Nlf|]. pose proof (m_expr_start _ _ _ _ E2 Hw) as St.
        destruct (expr_start_neq _ St) as (_ & _ & _ & _ & Q & _). exact Q. }
      rewrite <- Ld. eapply IHe_wf; [|exact E2|exact Hw|exact F1]. lia.
    - (* SExpr *)
      destruct ts as [|f ts']; [discriminate H|].
      destruct (statement_keyword (t_type f)) eqn:Kw; [discriminate H|].
      destruct (m_expr e (f :: ts')) as [r1|] eqn:E1; [|discriminate H].
      apply (P_sexpr indent e (lead e) f).
      + eapply IHe_wf; [|exact E1|exact Hw|exact F]. lia.
      + exact (m_expr_ftok _ _ _ _ E1).
      + exact (m_expr_lead _ _ _ _ E1).
      + apply wf_not_nil. exact Hw.
      + rewrite <- (m_expr_first _ _ _ _ E1). exact Kw.
    - (* SFunc *)
      destruct (t_type t =? T_FUNCTION) eqn:C1; cbn [negb] in H; [|discriminate H]. apply Z.eqb_eq in C1.
      destruct (eat_tok t ts) as [r1|] eqn:E1; [|discriminate H].
      destruct (eat_tok_TP _ _ _ E1 F) as [(Tt & Bt & Ct & _) F1].
      destruct (m_ident name r1) as [r2|] eqn:E2; [|discriminate H].
      destruct (m_ident_TP _ _ _ E2 F1) as [Hnm F2].
      destruct (eat T_LPAREN r2) as [[tl r3]|] eqn:E3; [|discriminate H].
      destruct (eat_TP _ _ _ _ E3 F2) as (_ & _ & F3).
      destruct (m_params params r3) as [r4|] eqn:E4; [|discriminate H].
      destruct (params_TP _ _ _ E4 F3) as [Hps F4].
      destruct (eat T_RPAREN r4) as [[tr r5]|] eqn:E5; [|discriminate H].
      destruct (eat_TP _ _ _ _ E5 F4) as (_ & _ & F5).
      assert (Bl : is_block body = true) by (destruct body; try discriminate H; reflexivity).
      apply (P_sfunc indent indent_blank); [exact C1|exact (TL_kw _ _ _ Tt C1 eq_refl)|exact Ct|exact Hnm|exact Hps| |exact Bl].
      destruct body; try discriminate Bl.
      eapply IHs; [|exact H|exact Hw|exact F5]. lia.
    - (* SBlock *)
      destruct (t_type t =? T_LBRACE) eqn:C1; cbn [negb orb] in H; [|discriminate H].
      destruct (t_type rb =? T_RBRACE) eqn:C2; cbn [negb orb] in H; [|discriminate H].
      apply Z.eqb_eq in C1, C2.
      destruct (eat_tok t ts) as [r1|] eqn:E1; [|discriminate H].
      destruct (eat_tok_TP _ _ _ E1 F) as [(Tt & Bt & Ct & _) F1].
      destruct (m_stmts m_stmt stmts rb r1) as [r2|] eqn:E2; [|discriminate H].
      fold (ssizes stmts) in Hn.
      destruct (stmts_P stmts ltac:(lia) Hw _ _ _ E2 F1) as [Js F2].
      destruct (eat_tok_TP _ _ _ H F2) as [(Trb & _ & Crb & _) _].
      apply (P_sblock indent indent_blank); [exact (TL_punct _ _ _ Tt C1 type_text_lbrace)|exact (TL_punct _ _ _ Trb C2 type_text_rbrace)|exact Ct|exact Crb|exact Js].
    - (* SIf *)
      destruct (t_type t =? T_IF) eqn:C1; cbn [negb] in H; [|discriminate H]. apply Z.eqb_eq in C1.
      destruct (eat_tok t ts) as [r1|] eqn:E1; [|discriminate H].
      destruct (eat_tok_TP _ _ _ E1 F) as [(Tt & Bt & Ct & _) F1].
      destruct (eat T_LPAREN r1) as [[tl r2]|] eqn:E2; [|discriminate H].
      destruct (eat_TP _ _ _ _ E2 F1) as (_ & _ & F2).
      destruct (m_expr c r2) as [r3|] eqn:E3; [|discriminate H].
      pose proof (m_expr_TP _ _ _ E3 F2) as F3.
      destruct (eat T_RPAREN r3) as [[tr r4]|] eqn:E4; [|discriminate H].
      destruct (eat_TP _ _ _ _ E4 F3) as (_ & _ & F4).
      destruct (m_stmt thn nx r4) as [r5|] eqn:E5; [|discriminate H].
      pose proof (m_stmt_TP _ _ _ _ E5 F4) as F5.
      apply andb_true_iff in Hw as [Hw We]. apply andb_true_iff in Hw as [Hw Wt]. apply andb_true_iff in Hw as [Wc _].
      apply (P_sif indent indent_blank t c thn els (lead c)); [exact C1|exact (TL_kw _ _ _ Tt C1 eq_refl)|exact Ct| | |].
      + eapply IHe_wf; [|exact E3|exact Wc|exact F2]. lia.
      + eapply IHs; [|exact E5|exact Wt|exact F4]. lia.
      + intro Ee. rewrite snil_match, Ee in H. rewrite snil_match, Ee in We.
        destruct (eat T_ELSE r5) as [[te r6]|] eqn:E6; [|discriminate H].
        destruct (eat_TP _ _ _ _ E6 F5) as (_ & _ & F6).
        apply andb_true_iff in We as [We _]. apply andb_true_iff in We as [_ We].
        eapply IHs; [|exact H|exact We|exact F6]. lia.
    - (* SWhile *)
      destruct (t_type t =? T_WHILE) eqn:C1; cbn [negb] in H; [|discriminate H]. apply Z.eqb_eq in C1.
      destruct (eat_tok t ts) as [r1|] eqn:E1; [|discriminate H].
      destruct (eat_tok_TP _ _ _ E1 F) as [(Tt & Bt & Ct & _) F1].
      destruct (eat T_LPAREN r1) as [[tl r2]|] eqn:E2; [|discriminate H].
      destruct (eat_TP _ _ _ _ E2 F1) as (_ & _ & F2).
      destruct (m_expr c r2) as [r3|] eqn:E3; [|discriminate H].
      pose proof (m_expr_TP _ _ _ E3 F2) as F3.
      destruct (eat T_RPAREN r3) as [[tr r4]|] eqn:E4; [|discriminate H].
      destruct (eat_TP _ _ _ _ E4 F3) as (_ & _ & F4).
      apply andb_true_iff in Hw as [Hw Wb]. apply andb_true_iff in Hw as [Wc _].
      apply (P_swhile indent indent_blank t c body (lead c)); [exact C1|exact (TL_kw _ _ _ Tt C1 eq_refl)|exact Ct| |].
      + eapply IHe_wf; [|exact E3|exact Wc|exact F2]. lia.
      + eapply IHs; [|exact H|exact Wb|exact F4]. lia.
    - (* SFor *)
      rewrite init_wf_eq in Hw.
      destruct (t_type t =? T_FOR) eqn:C1; cbn [negb] in H; [|discriminate H]. apply Z.eqb_eq in C1.
      destruct (eat_tok t ts) as [r1|] eqn:E1; [|discriminate H].
      destruct (eat_tok_TP _ _ _ E1 F) as [(Tt & Bt & Ct & _) F1].
      destruct (eat T_LPAREN r1) as [[tl r2]|] eqn:E2; [|discriminate H].
      destruct (eat_TP _ _ _ _ E2 F1) as (_ & _ & F2).
      rewrite !enil_match in Hw.
      apply andb_true_iff in Hw as [Hw Wb]. apply andb_true_iff in Hw as [Hw _].
      apply andb_true_iff in Hw as [Hw Wu]. apply andb_true_iff in Hw as [Wi Wc].
      rewrite enil_match in H.
      destruct (if is_enil i then Some r2 else m_expr i r2) as [r3|] eqn:E3; [|discriminate H].
      assert (Wi' : (if is_enil i then true else wfx i) = true).
      { destruct (is_enil i) eqn:Ei; [reflexivity|]. apply init_wfx; assumption. }
      destruct (opt_stepP i r2 r3 ltac:(lia) E3 Wi' F2) as [Ji F3].
      destruct (eat T_SEMICOLON r3) as [[s1 r4]|] eqn:E4; [|discriminate H].
      destruct (eat_TP _ _ _ _ E4 F3) as (_ & _ & F4).
      rewrite enil_match in H.
      destruct (if is_enil c then Some r4 else m_expr c r4) as [r5|] eqn:E5; [|discriminate H].
      assert (Wc' : (if is_enil c then true else wfx c) = true).
      { destruct (is_enil c) eqn:Ei; [reflexivity|]. apply wf_wfx; assumption. }
      destruct (opt_stepP c r4 r5 ltac:(lia) E5 Wc' F4) as [Jc F5].
      destruct (eat T_SEMICOLON r5) as [[s2 r6]|] eqn:E6; [|discriminate H].
      destruct (eat_TP _ _ _ _ E6 F5) as (_ & _ & F6).
      rewrite enil_match in H.
      destruct (if is_enil u then Some r6 else m_expr u r6) as [r7|] eqn:E7; [|discriminate H].
      assert (Wu' : (if is_enil u then true else wfx u) = true).
      { destruct (is_enil u) eqn:Ei; [reflexivity|]. apply wf_wfx; assumption. }
      destruct (opt_stepP u r6 r7 ltac:(lia) E7 Wu' F6) as [Ju F7].
      destruct (eat T_RPAREN r7) as [[tr r8]|] eqn:E8; [|discriminate H].
      destruct (eat_TP _ _ _ _ E8 F7) as (_ & _ & F8).
      apply (P_sfor indent indent_blank); [exact C1|exact (TL_kw _ _ _ Tt C1 eq_refl)|exact Ct|exact Ji|exact Jc|exact Ju|].
      eapply IHs; [|exact H|exact Wb|exact F8]. lia.
  Qed.
End Step.

Lemma P_all : forall n,
  (forall e, (esize e <= n)%nat -> forall ts r, m_expr e ts = Some r -> wfx e = true -> Forall TP ts -> PE e (lead e)) /\
  (forall s, (ssize s <= n)%nat -> forall nx ts r, m_stmt s nx ts = Some r -> wf_stmt s = true ->
     Forall TP ts -> PS s).
Proof.
  induction n as [|n [IHe IHs]].
  - split; [intros e H; destruct e; cbn [esize] in H; lia | intros s H; destruct s; cbn [ssize] in H; lia].
  - split; [apply expr_stepP | apply stmt_stepP]; assumption.
Qed.

Lemma stmts_PS ss nx ts r : m_stmts m_stmt ss nx ts = Some r -> wf_stmts wf_stmt ss = true ->
  Forall TP ts -> Forall PS ss.
Proof.
  intros H Hw F.
  destruct (stmts_P (ssizes ss) (fun s Hs => proj2 (P_all _) s Hs) ss (le_n _) Hw _ _ _ H F) as [J _]. exact J.
Qed.

End Main.


(* ================================================================== *)
(* 4. programs: the tree parsed back - its boundary trivia, and its formatted text *)
(* ================================================================== *)

Section Final.
Variable indent : str.
Hypothesis indent_blank : blank_str indent.

Local Notation pc := (PrettyWr.pc indent).
Local Notation prun := (PrettyWr.prun indent).
Local Notation PS := (TrivJ.PS indent).
Local Notation G := (PrettyWr.G indent).
Local Notation ind := (PrettyWr.ind indent).

Lemma tokenize_eof_only_c Y : trv_end Y ->
  exists teof, tokenize Y = Some [teof] /\ t_type teof = T_EOF /\ t_lit teof = [] /\ t_comments teof = tcm Y.
Proof.
  intro T. unfold tokenize. cbn [tokenize_from].
  pose proof (next_token_end (lx_init Y) T) as E. pose proof (next_token_eof_lit (lx_init Y) E) as L.
  pose proof (next_token_end_c (lx_init Y) T) as C.
  destruct (next_token (lx_init Y)) as [t l']. cbn [fst] in E, L, C. rewrite E.
  change (T_EOF =? T_EOF) with true. cbn iota. exists t. repeat split; assumption.
Qed.

Lemma send_nsp' body : send body -> is_space_go (last body 0%N) = false.
Proof. intros [-> | ->]; reflexivity. Qed.

(* the trivia list of the end of input, read back *)
Lemma tcm_gend_end ce : NLF ce -> tcm (rta (dwe is_space_go (gend indent ce)) []) = tb ce.
Proof.
  intros [F R]. rewrite rta_end_c by (apply dwe_trv_end, gend_trv_end; assumption).
  unfold gend. destruct ce as [|c ce'] eqn:E; [reflexivity|]. rewrite <- E in *.
  apply (tcm_dwe_rc indent indent_blank); [rewrite E; discriminate|exact F|exact R].
Qed.

Lemma tcm_gend_both ce : NLF ce ->
  tcm (rta (dwe is_space_go (drop_while is_space_go (gend indent ce))) []) = tb (drop_blank_items ce).
Proof.
  intros [F R]. rewrite rta_end_c by (apply dwe_trv_end, dw_trv_end, gend_trv_end; assumption).
  unfold gend. destruct ce as [|c ce'] eqn:E; [reflexivity|]. rewrite <- E in *.
  apply (tcm_dwe_dw_rc indent indent_blank); [rewrite E; discriminate|exact F|exact R].
Qed.

(* ---------- the text level ---------- *)

Lemma ind0 : ind 0 = [].
Proof. reflexivity. Qed.

Lemma G0_eb cs : eb (G [] 0 cs).
Proof.
  unfold PrettyWr.G. destruct cs as [|c cs']; [left; reflexivity|]. right. rewrite ind0.
  exists (PrettyWr.rc indent (c :: cs') 0). reflexivity.
Qed.

Lemma ST_lf0 : ST indent (qid [LF]) 0.
Proof. unfold ST, qid, PrettyWr.G. cbn [lfs flat_map app]. rewrite ind0. reflexivity. Qed.

Lemma dw_G0 cs Z : drop_while is_space_go (G [] 0 cs ++ Z) = drop_while is_space_go (G [] 0 (drop_blank_items cs) ++ Z).
Proof.
  unfold PrettyWr.G at 1. destruct cs as [|c cs'] eqn:E; [reflexivity|]. rewrite <- E.
  assert (Ne : cs <> []) by (rewrite E; discriminate).
  rewrite <- app_assoc, (dw_rc indent indent_blank cs 0 _ Ne). rewrite ind0.
  destruct (drop_blank_items cs) as [|d ds] eqn:D.
  - reflexivity.
  - unfold PrettyWr.G. rewrite <- app_assoc, (dw_rc indent indent_blank (d :: ds) 0 _ ltac:(discriminate)).
    rewrite <- D, drop_blank_idem, D, ind0. reflexivity.
Qed.

Lemma dw_ns x : x <> [] -> is_space_go (last x 0%N) = false -> drop_while is_space_go x <> [].
Proof.
  induction x as [|c x IH]; intros Ne H; [congruence|]. cbn [drop_while].
  destruct (is_space_go c) eqn:E; [|discriminate].
  destruct x as [|d x']; [cbn [last] in H; congruence|]. apply IH; [discriminate|exact H].
Qed.

Lemma dw_app_ns x E : drop_while is_space_go x <> [] -> drop_while is_space_go (x ++ E) = drop_while is_space_go x ++ E.
Proof.
  induction x as [|c x IH]; intro H; [cbn in H; congruence|]. cbn [app drop_while] in *.
  destruct (is_space_go c); [apply IH; exact H|reflexivity].
Qed.

Lemma dwe_tail A E E' : dwe is_space_go E = dwe is_space_go E' -> dwe is_space_go (A ++ E) = dwe is_space_go (A ++ E').
Proof. intro H. rewrite !dwe_app, H. reflexivity. Qed.

(* same text behind front gaps that differ by blank items only, and with end trivia lists that
   differ by trailing blank items only *)
Lemma trim_text cs t' ce : t' <> [] -> is_space_go (last t' 0%N) = false -> TRM ce ->
  trim_space ((G [] 0 (drop_blank_items cs) ++ t') ++ gend indent (tb ce)) =
  trim_space ((G [] 0 cs ++ t') ++ gend indent ce).
Proof.
  intros Ne Hl R. rewrite !trim_space_dwe.
  assert (N1 : forall b, drop_while is_space_go (b ++ t') <> []).
  { intro b. apply dw_ns; [destruct b; [exact Ne|discriminate]|]. rewrite (last_app_ne b t' Ne). exact Hl. }
  rewrite (dw_app_ns (G [] 0 (drop_blank_items cs) ++ t') _ (N1 _)), (dw_app_ns (G [] 0 cs ++ t') _ (N1 _)).
  rewrite <- (dw_G0 cs t').
  apply dwe_tail. unfold gend. apply eq_sym. apply (dwe_rc_tb indent indent_blank ce 0 R).
Qed.

Lemma trim_gend ce : TRM ce -> trim_space (gend indent ce) = rc0 (ind 0) (tb (drop_blank_items ce)).
Proof.
  intro R. rewrite trim_space_dwe. unfold gend. destruct ce as [|c ce'] eqn:E; [reflexivity|]. rewrite <- E in *.
  rewrite <- (app_nil_r (PrettyWr.rc indent ce 0)), (dw_rc indent indent_blank ce 0 [] ltac:(rewrite E; discriminate)).
  pose proof (drop_blank_Forall _ _ R) as Rd.
  destruct (drop_blank_items ce) as [|d ds]; [reflexivity|]. rewrite app_nil_r.
  apply dwe_rc0_all; [apply ind_ws; exact indent_blank|exact Rd].
Qed.

Lemma strip_idem ce : tb (drop_blank_items (tb (drop_blank_items ce))) = tb (drop_blank_items ce).
Proof. rewrite (drop_blank_fix _ (tb_nbh _ (drop_blank_nbh ce))). apply tb_tb. Qed.

Lemma code_pretty' m p :
  r_code (compile (cfg_pretty indent true m) p) =
  clean_empty_lines (w_buf (wstep pc (prun (ps [] [] 0 SourceMap.mapper_new)
       (sep_map [WNewline] (fun stmt => write_stmt stmt ++ []) (p_stmts p))) (WComments (t_comments (p_eof p))))).
Proof. apply code_pretty. Qed.

Theorem relex_TP : forall p toks m,
  Forall TP toks -> m_program p toks = true -> wf_program p = true ->
  exists r, reparse (cfg_pretty indent true m) p = Some r /\
            norm_boundaries (boundary_trivia (pr_program r)) = norm_boundaries (boundary_trivia p) /\
            r_code (compile (cfg_pretty indent true m) (pr_program r)) = r_code (compile (cfg_pretty indent true m) p).
Proof.
  intros [ss eof] toks m F Hm Hw. unfold m_program, wf_program in *. cbn [p_stmts p_eof] in *.
  apply andb_true_iff in Hm as [Heof Hm]. apply Z.eqb_eq in Heof.
  destruct (m_stmts m_stmt ss eof toks) as [[|e [|? ?]]|] eqn:Em; try discriminate Hm.
  apply tok_eqb_eq in Hm. subst e.
  pose proof (stmts_PS indent indent_blank _ _ _ _ Em Hw F) as Js.
  assert (Te : TP eof).
  { pose proof (m_stmts_suf_all _ _ _ _ Em) as Sf. pose proof (Forall_suf _ _ _ Sf F) as Fe.
    inversion Fe; assumption. }
  destruct Te as (TLe & _ & Ce & _).
  pose proof (TL_eof_lit _ TLe Heof) as Leof.
  destruct ss as [|s ss].
  - (* no statement *)
    assert (HT : r_code (compile (cfg_pretty indent true m) (mkprogram [] eof)) =
                 rta (dwe is_space_go (drop_while is_space_go (gend indent (t_comments eof)))) []).
    { rewrite code_pretty'. cbn [p_stmts p_eof sep_map]. rewrite prun_nil, buf_comments. cbn [app].
      rewrite clean_rta, trim_space_dwe. reflexivity. }
    unfold reparse. rewrite HT.
    pose proof (rta_trv_end _ (dwe_trv_end _ (dw_trv_end _ (gend_trv_end indent indent_blank _ (proj1 Ce))))) as TY.
    destruct (tokenize_eof_only_c _ TY) as (teof & Tok & Eeof & Lit & Cm). rewrite Tok.
    set (p' := mkprogram [] teof).
    assert (Mp : m_program p' [teof] = true).
    { unfold m_program, p'. cbn [p_eof p_stmts m_stmts]. rewrite Eeof.
      change (T_EOF =? T_EOF) with true. cbn [andb]. apply tok_eqb_refl. }
    destruct (parse_complete p' _ Mp eq_refl) as (r & Hr & Pr & Er & _).
    exists r. split; [exact Hr|]. rewrite Pr. split.
    + unfold boundary_trivia, p'. cbn [p_stmts p_eof bnd_stmts app norm_boundaries].
      rewrite Cm, (tcm_gend_both _ Ce), trim_both. reflexivity.
    + rewrite code_pretty'. unfold p'. cbn [p_stmts p_eof sep_map]. rewrite prun_nil, buf_comments. cbn [app].
      rewrite clean_rta, Cm, (tcm_gend_both _ Ce). rewrite <- trim_space_dwe.
      destruct Ce as [_ Re].
      rewrite (trim_gend (t_comments eof) Re).
      rewrite (trim_gend _ (TRM_tb _ (drop_blank_Forall _ _ Re))), strip_idem. reflexivity.
  - (* statements *)
    assert (Fp : Forall (fun x => PSo indent qid ((fun stmt => write_stmt stmt ++ []) x) x) (s :: ss)).
    { apply Forall_forall. intros x Hx. apply PSo_plain. exact (proj1 (Forall_forall _ _) Js x Hx). }
    assert (Hf : forall x B pd0 lv0 mp0, prun (ps B pd0 lv0 mp0) (write_stmt x ++ []) = prun (ps B (qid pd0) lv0 mp0) (write_stmt x)).
    { intros x B pd0 lv0 mp0. rewrite app_nil_r. reflexivity. }
    destruct (PSS_sep indent qid _ ss Hf s Fp [] [] 0 SourceMap.mapper_new ltac:(lia) pend_ok_nil)
      as (g01 & g1 & body & W & Gg & Hs & Lx & (tf & Ftf & Gf0 & Gf) & Gf1).
    set (T := (g1 ++ body) ++ gend indent (t_comments eof)).
    assert (HT : r_code (compile (cfg_pretty indent true m) (mkprogram (s :: ss) eof)) = clean_empty_lines T).
    { rewrite code_pretty'. cbn [p_stmts p_eof]. rewrite W, buf_comments. reflexivity. }
    destruct Gg as [Tg1 Wg1]. destruct Hs as [[[Hs1 Hs2] Hs3] Se].
    assert (Nb : body <> []) by (intro E; subst body; cbn in Hs2; congruence).
    set (Ke := rta (dwe is_space_go (gend indent (t_comments eof))) []).
    assert (TK : trv_end Ke) by (apply rta_trv_end, dwe_trv_end, gend_trv_end; [exact indent_blank|exact (proj1 Ce)]).
    assert (HZ : rta body Ke <> [] /\ isWhitespace (hd 0%N (rta body Ke)) = false).
    { destruct body as [|c body']; [congruence|]. cbn [hd] in Hs1. rewrite (rta_cons_nb c body' Ke (ws_nz _ Hs1)).
      split; [discriminate|exact Hs1]. }
    destruct HZ as [Z1 Z2].
    destruct (rta_trv_c _ (dw_trv _ Tg1) (rta body Ke) Z1 Z2) as (g1' & E1 & T1' & C1').
    set (Y := g1' ++ rta body Ke).
    assert (HY : clean_empty_lines T = Y).
    { unfold T. rewrite clean_rta, <- app_assoc.
      rewrite (trim_space_shape g1 body (gend indent (t_comments eof)) Tg1 Nb Hs3 (send_nsp' _ Se)).
      rewrite !rta_app. fold Ke. exact E1. }
    unfold reparse. rewrite HT, HY.
    destruct (Lx Ke g1' (lx_init Y) T1' eq_refl) as (ss' & ts & l1 & L & R1 & M & Sh & (rest' & B' & N') & (rs & EF1 & EF2)).
    assert (TK1 : trv_end (l_rest l1)) by (rewrite R1; exact TK).
    pose proof (next_token_end l1 TK1) as Eeof. pose proof (next_token_eof_lit l1 Eeof) as Lit.
    pose proof (next_token_end_c l1 TK1) as Ceof.
    destruct (next_token l1) as [teof l2] eqn:Neof. cbn [fst] in Eeof, Lit, Ceof.
    assert (Tok : tokenize Y = Some (ts ++ [teof])).
    { unfold tokenize. pose proof (lexes_len _ _ _ L) as Len. cbn [lx_init l_rest] in Len.
      replace (S (length Y)) with (length ts + S (length Y - length ts))%nat by lia.
      rewrite (tokenize_from_lexes _ _ _ L). cbn [tokenize_from]. rewrite Neof.
      rewrite Eeof. change (T_EOF =? T_EOF) with true. cbn iota. reflexivity. }
    rewrite Tok.
    set (p' := mkprogram ss' teof).
    assert (Mp : m_program p' (ts ++ [teof]) = true).
    { unfold m_program, p'. cbn [p_eof p_stmts]. rewrite Eeof.
      change (T_EOF =? T_EOF) with true. cbn [andb]. rewrite M. apply tok_eqb_refl. }
    assert (Wf : wf_program p' = true).
    { unfold wf_program, p'. cbn [p_stmts]. rewrite <- wf_stmts_shape, Sh, wf_stmts_shape. exact Hw. }
    destruct (parse_complete p' _ Mp Wf) as (r & Hr & Pr & Er & _).
    assert (Ce' : t_comments teof = tb (t_comments eof)).
    { rewrite Ceof, R1. unfold Ke. apply (tcm_gend_end _ Ce). }
    exists r. split; [exact Hr|]. rewrite Pr. split.
    + unfold boundary_trivia, p'. cbn [p_stmts p_eof].
      rewrite B', (bnd_stmts_cons s), Ftf. cbn [trivia_of app].
      rewrite !norm_boundaries_two. rewrite N'. rewrite (bnd_stmts_cons s), Ftf. cbn [trivia_of app tl].
      rewrite C1', Gf, trim_first_drop.
      rewrite Ce', trim_last_of_tb. reflexivity.
    + (* the second printing *)
      rewrite <- HY. rewrite code_pretty'. unfold p'. cbn [p_stmts p_eof].
      rewrite EF1. unfold qid at 1.
      assert (Cm1 : tcm g1' = drop_blank_items (tcm g1)).
      { rewrite C1', Gf, Gf0. destruct (t_comments tf); reflexivity. }
      pose proof (Gf1 (ST_nil indent 0)) as Hg01. unfold qid in Hg01.
      pose proof (EF2 ST_lf0 SourceMap.mapper_new) as Run1. cbn [app] in Run1.
      rewrite Cm1.
      assert (HI : Ieq g01 (G [] 0 (drop_blank_items (tcm g1)))).
      { rewrite <- Hg01. apply Ieq_eb; apply G0_eb. }
      destruct (sim_run indent g01 _ HI rs [] [] 0 SourceMap.mapper_new false) as (t' & pd' & lv' & pn' & Hsim).
      pose proof (Hsim g01 (or_introl eq_refl)) as S1. pose proof (Hsim _ (or_intror eq_refl)) as S2.
      unfold wst in S1, S2. rewrite !app_nil_r in S1, S2.
      unfold PrettyWr.prun, ps in Run1. rewrite S1 in Run1. injection Run1 as Eb Epd Elv Epn. subst pd' lv' pn'.
      cbn [app]. unfold PrettyWr.prun, ps at 1. rewrite S2.
      change (mkwstate (G [] 0 (drop_blank_items (tcm g1)) ++ t') [] 0 SourceMap.mapper_new false)
        with (ps (G [] 0 (drop_blank_items (tcm g1)) ++ t') [] 0 SourceMap.mapper_new).
      rewrite buf_comments, Ce'.
      unfold T. rewrite <- Eb, <- Hg01.
      assert (Nt : t' <> [] /\ is_space_go (last t' 0%N) = false).
      { assert (Q : is_space_go (last (g01 ++ t') 0%N) = false).
        { rewrite Eb, (last_app_ne g1 body Nb). exact (send_nsp' _ Se). }
        destruct t' as [|x t''].
        - exfalso. rewrite app_nil_r in Q, Eb.
          destruct (G0_eb (tcm g1)) as [E0|[b0 E0]]; rewrite Hg01 in E0.
          + rewrite E0 in Eb. symmetry in Eb. apply app_eq_nil in Eb as [_ Eb]. exact (Nb Eb).
          + rewrite E0, last_last in Q. discriminate Q.
        - split; [discriminate|]. rewrite (last_app_ne g01 (x :: t'') ltac:(discriminate)) in Q. exact Q. }
      destruct Nt as [Nt1 Nt2].
      rewrite !clean_rta. f_equal.
      apply trim_text; [exact Nt1|exact Nt2|exact (proj2 Ce)].
Qed.

End Final.

Theorem boundary_trivia_preserved : forall src toks p indent m,
  tokenize src = Some toks -> strings_stable toks = true -> literals_trim_safe toks = true ->
  m_program p toks = true -> wf_program p = true -> blank_str indent ->
  exists r, reparse (cfg_pretty indent true m) p = Some r /\
            norm_boundaries (boundary_trivia (pr_program r)) = norm_boundaries (boundary_trivia p).
Proof.
  intros src toks p indent m Ht SS TS Hm Hw Hb.
  destruct (relex_TP indent Hb p toks m (lexed_TP src toks Ht SS TS) Hm Hw) as (r & H1 & H2 & _).
  exists r. split; assumption.
Qed.

Theorem pretty_idempotent : forall src toks p indent m,
  tokenize src = Some toks -> strings_stable toks = true -> literals_trim_safe toks = true ->
  m_program p toks = true -> wf_program p = true -> blank_str indent ->
  exists r, reparse (cfg_pretty indent true m) p = Some r /\
            r_code (compile (cfg_pretty indent true m) (pr_program r)) = r_code (compile (cfg_pretty indent true m) p).
Proof.
  intros src toks p indent m Ht SS TS Hm Hw Hb.
  destruct (relex_TP indent Hb p toks m (lexed_TP src toks Ht SS TS) Hm Hw) as (r & H1 & _ & H3).
  exists r. split; assumption.
Qed.

Print Assumptions boundary_trivia_preserved.
Print Assumptions pretty_idempotent.
