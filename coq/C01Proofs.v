(* C01Proofs.v -- C01, the remaining clauses: the lexer spells the fixed tokens
   canonically; the code of every configuration, layout removed, is the source's token
   texts; end to end from the source text. *)
Require Import Base GoOps Token Lexer Tree SourceMap Writer PrinterLib Compile Parser Grammar
  WriterSpec CommentSpec TokenSpec.
Require Import Gen.Tables Gen.Preds Gen.Printer.
Require Import LexerProofs ContractProofs CommentProofs GrammarProofs CodeProofs TokenProofs.

(* ------------------------------------------------------------------ *)
(* 1. the lexer spells every fixed token canonically                   *)
(* ------------------------------------------------------------------ *)

Definition canon (ty : Z) (lit : str) : bool :=
  match token_spelling ty with
  | Some s => str_eqb lit s
  | None => true
  end.

Lemma tok_canonical_canon t : tok_canonical t = canon (t_type t) (t_lit t).
Proof. reflexivity. Qed.

Lemma cur_read_char l : cur (read_char l) = peek l.
Proof.
  unfold read_char, cur, peek. destruct (l_rest l) as [|c r] eqn:E.
  - rewrite E. reflexivity.
  - destruct (N.eqb c LF); cbn [l_rest]; destruct r; reflexivity.
Qed.

Lemma one_char_canon l ty c s : cur l = c -> (c <? 128)%N = true ->
  token_spelling ty = Some s -> str_eqb [c] s = true ->
  tok_canonical (fst (one_char l ty)) = true.
Proof.
  intros Hc Hlt Hs He. unfold one_char, new_token. cbn [fst].
  rewrite tok_canonical_canon. cbn [t_type t_lit]. unfold canon. rewrite Hs, Hc.
  unfold go_string_of_byte. rewrite Hlt. exact He.
Qed.

Lemma one_char_illegal l : tok_canonical (fst (one_char l T_ILLEGAL)) = true.
Proof. reflexivity. Qed.

Lemma two_char_canon l ty c p s : cur l = c -> peek l = p ->
  (c <? 128)%N = true -> (p <? 128)%N = true ->
  token_spelling ty = Some s -> str_eqb [c; p] s = true ->
  tok_canonical (fst (two_char l ty)) = true.
Proof.
  intros Hc Hp Hlc Hlp Hs He. unfold two_char, new_token_at. cbn [fst].
  rewrite tok_canonical_canon. cbn [t_type t_lit]. unfold canon.
  rewrite Hs, cur_read_char, Hc, Hp.
  unfold go_string_of_byte. rewrite Hlc, Hlp. exact He.
Qed.

Lemma string_token_canon l ty r start : token_spelling ty = None ->
  tok_canonical (fst (string_token l ty r start)) = true.
Proof.
  intro Hs. destruct r as [[lit term] l']. unfold string_token, new_token_at. cbn [fst].
  rewrite tok_canonical_canon. cbn [t_type t_lit]. unfold canon.
  destruct term; [rewrite Hs|]; reflexivity.
Qed.

(* the type of a word is looked up from its text: the text IS the table's spelling *)
Lemma lookup_ident_canon s : canon (lookup_ident token_keywords s) s = true.
Proof.
  unfold token_keywords. cbn [lookup_ident].
  repeat match goal with
  | |- canon (if str_eqb s ?k then _ else _) s = true =>
      let E := fresh "E" in destruct (str_eqb s k) eqn:E; [exact E|]
  end.
  reflexivity.
Qed.

Lemma ident_canon l :
  tok_canonical (fst (let '(lit, l') := read_identifier l in
     (new_token_at l' (lookup_ident token_keywords lit) lit (cur_pos l), l'))) = true.
Proof.
  destruct (read_identifier l) as [lit l']. unfold new_token_at. cbn [fst].
  rewrite tok_canonical_canon. cbn [t_type t_lit]. apply lookup_ident_canon.
Qed.

Lemma isDigit_nz l : isDigit (cur l) = true -> at_eof l = false.
Proof.
  unfold cur, at_eof. destruct (l_rest l) as [|c r]; [cbn [hd]; intro H; discriminate H|reflexivity].
Qed.

Lemma number_canon l : isDigit (cur l) = true ->
  tok_canonical (fst (let '(lit, ty, l') := read_number l in
     (new_token_at l' ty lit (cur_pos l), l'))) = true.
Proof.
  intro Hd. destruct (read_number l) as [[lit ty] l'] eqn:R.
  destruct (read_number_spec l lit ty l' (isDigit_nz l Hd) Hd R) as (_ & _ & [Ht|Ht]);
    subst ty; reflexivity.
Qed.

Ltac canon_leaf E :=
  first
  [ apply one_char_illegal
  | eapply one_char_canon; [exact E|reflexivity|reflexivity|reflexivity]
  | apply string_token_canon; reflexivity ].

Ltac canon_leaf2 E P :=
  first
  [ eapply two_char_canon; [exact E|exact P|reflexivity|reflexivity|reflexivity|reflexivity]
  | canon_leaf E ].

Ltac canon_step :=
  match goal with
  | |- tok_canonical (fst (if N.eqb (cur ?l) ?k then _ else _)) = true =>
      let E := fresh "E" in
      destruct (N.eqb (cur l) k) eqn:E;
      [ apply N.eqb_eq in E;
        repeat match goal with
        | |- tok_canonical (fst (if N.eqb (peek ?l) ?k2 then _ else _)) = true =>
            let P := fresh "P" in
            destruct (N.eqb (peek l) k2) eqn:P;
            [ apply N.eqb_eq in P; canon_leaf2 E P | ]
        end; canon_leaf E
      | ]
  end.

Lemma base_next_token_canonical l : tok_canonical (fst (base_next_token l)) = true.
Proof.
  unfold base_next_token. cbv zeta.
  repeat canon_step.
  destruct (N.eqb (cur l) 0) eqn:E0z.
  - destruct (at_eof l); [reflexivity|apply one_char_illegal].
  - destruct (isLetter (cur l)) eqn:HL.
    + apply ident_canon.
    + destruct (isDigit (cur l)) eqn:HD.
      * apply number_canon, HD.
      * apply one_char_illegal.
Qed.

Lemma next_token_canonical l : tok_canonical (fst (next_token l)) = true.
Proof. unfold next_token, next_token_with. apply base_next_token_canonical. Qed.

Lemma tokenize_from_canonical : forall f l toks,
  tokenize_from f l = Some toks -> forallb tok_canonical toks = true.
Proof.
  induction f as [|f IH]; intros l toks H; cbn [tokenize_from] in H; [discriminate H|].
  pose proof (next_token_canonical l) as Hc.
  destruct (next_token l) as [t l']. cbn [fst] in Hc.
  destruct (t_type t =? T_EOF).
  - inversion H; subst toks. cbn [forallb]. rewrite Hc. reflexivity.
  - destruct (tokenize_from f l') as [ts|] eqn:E; [|discriminate H].
    inversion H; subst toks. cbn [forallb]. rewrite Hc, (IH l' ts E). reflexivity.
Qed.

Theorem lex_canonical : forall src toks,
  tokenize src = Some toks -> forallb tok_canonical toks = true.
Proof. intros src toks H. exact (tokenize_from_canonical _ _ _ H). Qed.

(* ------------------------------------------------------------------ *)
(* 2. from the token text to the code                                  *)
(* ------------------------------------------------------------------ *)

Lemma nl_despace s : nolayout (despace s) = nolayout s.
Proof.
  unfold nolayout, despace. induction s as [|c s IH]; cbn [filter]; [reflexivity|].
  destruct (N.eqb_spec c 32) as [E|E].
  - subst c. cbn [negb]. change (layout_byte 32) with true. cbn [negb]. exact IH.
  - cbn [negb filter]. rewrite IH. reflexivity.
Qed.

Lemma despace_nolayout a b : despace a = despace b -> nolayout a = nolayout b.
Proof. intro H. rewrite <- (nl_despace a), <- (nl_despace b), H. reflexivity. Qed.

Lemma nl_rune c : nolayout (if (c =? semicolon)%N then [] else [c]) = nolayout [c].
Proof.
  destruct (N.eqb_spec c semicolon) as [E|E]; [|reflexivity]. subst c. reflexivity.
Qed.

(* an operation contributes the same non-layout bytes to the code as to the text, unless
   it is a non-empty comment written by a pretty configuration *)
Lemma wop_bytes_text_compact cfg o : w_pretty cfg = false ->
  nolayout (wop_bytes cfg o) = nolayout (wop_text o).
Proof.
  intro Hp. destruct o; cbn [wop_bytes wop_text]; try reflexivity.
  - symmetry. apply nl_rune.
  - rewrite Hp. reflexivity.
Qed.

Lemma wop_bytes_text_ec cfg o :
  nolayout (wop_bytes cfg (ec o)) = nolayout (wop_text (ec o)).
Proof.
  destruct o; cbn [ec wop_bytes wop_text]; try reflexivity.
  - symmetry. apply nl_rune.
  - destruct (w_pretty cfg); reflexivity.
Qed.

Lemma wops_bytes_text cfg ws :
  (forall o, In o ws -> nolayout (wop_bytes cfg o) = nolayout (wop_text o)) ->
  nolayout (wops_bytes cfg ws) = nolayout (wops_text ws).
Proof.
  unfold wops_bytes, wops_text. induction ws as [|o ws IH]; intro H; [reflexivity|].
  cbn [map concat]. rewrite !nl_app, (H o (or_introl eq_refl)).
  rewrite IH; [reflexivity|]. intros o' Hin. apply H. right. exact Hin.
Qed.

Lemma wops_bytes_text_compact cfg ws : w_pretty cfg = false ->
  nolayout (wops_bytes cfg ws) = nolayout (wops_text ws).
Proof. intro Hp. apply wops_bytes_text. intros o _. apply wop_bytes_text_compact, Hp. Qed.

Lemma wops_bytes_text_ec cfg ws :
  nolayout (wops_bytes cfg (map ec ws)) = nolayout (wops_text (map ec ws)).
Proof.
  apply wops_bytes_text. intros o Hin. apply in_map_iff in Hin as (o' & <- & _).
  apply wop_bytes_text_ec.
Qed.

Lemma program_bytes_text cfg p :
  (w_pretty cfg = false \/ tmap_program erase_comments p = p) ->
  nolayout (wops_bytes cfg (write_program p)) = nolayout (wops_text (write_program p)).
Proof.
  intros [Hp|He].
  - apply wops_bytes_text_compact, Hp.
  - assert (H : write_program p = map ec (write_program p)).
    { rewrite <- He at 1. apply erase_changes_only_comment_ops. }
    rewrite H. apply wops_bytes_text_ec.
Qed.

Theorem code_tokens_preserved : forall cfg p toks,
  m_program p toks = true -> wf_program p = true -> forallb tok_canonical toks = true ->
  blank_str (w_indent cfg) ->
  (w_pretty cfg = false \/ tmap_program erase_comments p = p) ->
  r_panic (compile cfg p) = false /\
  nolayout (r_code (compile cfg p)) = nolayout (toks_text toks).
Proof.
  intros cfg p toks Hm Hw Hc Hb Hcm.
  destruct (parse_complete p toks Hm Hw) as (r & Hr & Hpr & Herr & _).
  pose proof (parse_clean_compiles cfg_default toks r Hr Herr cfg) as Hnp.
  rewrite Hpr in Hnp. split; [exact Hnp|].
  rewrite (code_is_pieces cfg p Hb Hnp), (program_bytes_text cfg p Hcm).
  apply despace_nolayout. apply str_eqb_spec.
  exact (token_text_preserved p toks Hm Hw Hc).
Qed.

(* ------------------------------------------------------------------ *)
(* 3. end to end                                                       *)
(* ------------------------------------------------------------------ *)

Theorem source_to_code : forall src toks p cfg,
  tokenize src = Some toks -> m_program p toks = true -> wf_program p = true ->
  blank_str (w_indent cfg) -> (w_pretty cfg = false \/ tmap_program erase_comments p = p) ->
  (exists r, parse_tokens cfg_default toks = Some r /\ pr_program r = p /\ pr_errors r = []) /\
  r_panic (compile cfg p) = false /\
  nolayout (r_code (compile cfg p)) = nolayout (toks_text toks).
Proof.
  intros src toks p cfg Ht Hm Hw Hb Hcm. split.
  - destruct (parse_complete p toks Hm Hw) as (r & Hr & Hpr & Herr & _).
    exists r. auto.
  - exact (code_tokens_preserved cfg p toks Hm Hw (lex_canonical src toks Ht) Hb Hcm).
Qed.

Print Assumptions lex_canonical.
Print Assumptions code_tokens_preserved.
Print Assumptions source_to_code.
