(* ClimbProofs.v -- C05, every level (ClimbSpec.v): the Pratt loop groups an operator tree
   over identifiers / integer literals exactly like left-associative operators of the
   levels of its operators, for built-in binary operators and registered infix operators of
   ANY level above LOWEST, in every mode, with any interceptors.

   Proof shape.  TOTAL correctness with explicit fuel (no totality theorem, no fuel
   monotonicity): for every fuel f above the number of operators of the tree, parsing the
   tokens of the tree at a level below its root IS the Pratt loop continued from the tree
   already built ([climb]), with at least f - (number of operators) iterations left.
   The interceptors are removed first (InterceptProofs.interceptors_transparent).
   Uniqueness of the grouping ([cgroup_unique]) is a corollary: two well-grouped trees with
   the same tokens are both what the (deterministic) expression parser returns on those
   tokens followed by a semicolon, and [cexpr] is injective. *)
From Coq Require Import ZifyBool ZifyN ZifyNat Lia.
Require Import Base GoOps Token Tree Parser Registry ParserSpec ClimbSpec InterceptProofs RenameProofs GrammarProofs.
Require Import Gen.Tables.

(* ---------- operator trees ---------- *)

Fixpoint nops (c : ctree) : nat :=
  match c with CAtom _ => O | CBin l _ r => S (nops l + nops r) end.

Lemma cyield_cons c : exists a l, cyield c = a :: l.
Proof.
  induction c as [t|cl [a [l1 IH]] op cr _]; cbn [cyield]; [eauto|].
  rewrite IH. cbn [app]. eauto.
Qed.

Lemma cyield_length c : length (cyield c) = (2 * nops c + 1)%nat.
Proof.
  induction c as [t|cl IHl op cr IHr]; cbn [cyield nops length]; [reflexivity|].
  rewrite app_length. cbn [length]. lia.
Qed.

Lemma cexpr_inj c1 : forall c2, cexpr c1 = cexpr c2 -> c1 = c2.
Proof.
  induction c1 as [t1|l1 IHl op1 r1 IHr]; intros [t2|l2 op2 r2] H; cbn [cexpr] in H.
  - destruct (t_type t1 =? T_IDENT), (t_type t2 =? T_IDENT); try discriminate; congruence.
  - destruct (t_type t1 =? T_IDENT); discriminate.
  - destruct (t_type t2 =? T_IDENT); discriminate.
  - injection H as H1 H2 H3 H4. subst op2. apply IHl in H2. apply IHr in H4. congruence.
Qed.

(* ---------- the parser without interceptors, atoms not shadowed ---------- *)

Section Climb.
  Variable cfg : pcfg.
  Hypothesis Hsi : c_stmt_ics cfg = [].
  Hypothesis Hei : c_expr_ics cfg = [].
  Hypothesis Hid : memZ T_IDENT (c_prefix_ops cfg) = false.
  Hypothesis Hint : memZ T_INT (c_prefix_ops cfg) = false.

  Notation SFc f := (stmt_fn cfg f).
  Notation EFc f := (expr_fn cfg f).
  Notation RLc f n := (remaining_loop cfg (expr_fn cfg f) f n).
  Notation PPc f := (parse_prefix_expression cfg (stmt_fn cfg f) (expr_fn cfg f) f).

  Lemma EFc_S f prec s : EFc (S f) prec s = (do (left, s1) <- PPc f s; RLc f f left prec s1).
  Proof.
    change (EFc (S f) prec s)
      with (run_expr_chain cfg (SFc f) (EFc f) f (c_expr_ics cfg) prec s).
    rewrite Hei. reflexivity.
  Qed.

  Lemma SFc_S f s : SFc (S f) s = base_parse_statement cfg (SFc f) (EFc f) f s.
  Proof.
    change (SFc (S f) s) with (run_stmt_chain cfg (SFc f) (EFc f) f (c_stmt_ics cfg) s).
    rewrite Hsi. reflexivity.
  Qed.

  (* ---------- what [op_level] says about the tables ---------- *)

  Lemma op_facts ty k : op_level cfg ty = Some k ->
    precedence_of cfg ty = k /\
    (infix_lookup cfg ty = Some IK_Infix \/
     infix_lookup cfg ty = Some (IK_Builtin IH_ParseBinaryExpression)) /\
    ty <> T_SEMICOLON /\ ty <> T_INCREMENT /\ ty <> T_DECREMENT /\
    ty <> T_LPAREN /\ ty <> T_LBRACKET.
  Proof.
    unfold op_level, precedence_of, infix_lookup.
    destruct (memZ ty (c_postfix_ops cfg)); [discriminate|].
    destruct (memZ ty (c_prefix_ops cfg)); [discriminate|]. cbn [orb].
    destruct (assoc_opt (c_infix_ops cfg) ty) as [k0|].
    - destruct (T_DYNAMIC_TOKENS_START <=? ty) eqn:E; [|discriminate].
      intro H. injection H as ->. apply Z.leb_le in E.
      repeat split; auto; intro Hx; rewrite Hx in E; vm_compute in E; apply E; reflexivity.
    - unfold builtin_binary_level.
      repeat match goal with
      | |- context [?a =? ?b] =>
          destruct (Z.eqb_spec a b);
          [subst ty; cbn [orb]; intro H; inversion H; subst k; vm_compute;
           repeat split; first [congruence | auto]|]
      end.
      cbn [orb]. discriminate.
  Qed.

  (* ---------- the Pratt loop: stop, one binary step ---------- *)

  Definition stopsc (prec : Z) (t : token) : bool :=
    (t_type t =? T_SEMICOLON) || (precedence_of cfg (t_type t) <=? prec).

  Lemma stopsc_mono a b t : a <= b -> stopsc a t = true -> stopsc b t = true.
  Proof. unfold stopsc. intros Hab H. lia. Qed.

  Lemma RLc_stop f n left prec x c t l : stopsc prec t = true ->
    RLc f (S n) left prec (St x c (t :: l)) = Some (left, St x c (t :: l)).
  Proof.
    intro H. cbn [remaining_loop]. unfold peek_precedence. rewrite !peek_is_St, peek_St.
    unfold stopsc in H.
    destruct (t_type t =? T_SEMICOLON); [reflexivity|]. cbn [negb andb orb] in *.
    replace (prec <? precedence_of cfg (t_type t)) with false by lia. reflexivity.
  Qed.

  Lemma RLc_bin f n left prec x c t0 c2 l2 k :
    op_level cfg (t_type t0) = Some k -> prec < k ->
    RLc f (S n) left prec (St x c (t0 :: c2 :: l2)) =
    (do (r, s1) <- EFc f k (St x c2 l2); RLc f n (EBinary t0 left (t_lit t0) r) prec s1).
  Proof.
    intros Hop Hp. destruct (op_facts _ _ Hop) as (F1 & F2 & F3 & F4 & F5 & F6 & F7).
    cbn [remaining_loop]. unfold peek_precedence, parse_infix_expression.
    rewrite !peek_is_St, peek_St, next_St, F1.
    apply Z.eqb_neq in F3, F4, F5, F6, F7. apply Z.ltb_lt in Hp.
    rewrite F3, F4, F5, F6, F7, Hp. cbn [negb andb orb]. rewrite !andb_false_r.
    assert (HB : parse_binary_expression cfg (EFc f) left (St x t0 (c2 :: l2)) =
                 (do (r, s1) <- EFc f k (St x c2 l2); Some (EBinary t0 left (t_lit t0) r, s1))).
    { unfold parse_binary_expression, current_precedence. rewrite cur_St, next_St, F1. reflexivity. }
    destruct F2 as [F2|F2]; rewrite F2; cbn [infix_handler_run]; rewrite HB;
      destruct (EFc f k (St x c2 l2)) as [[r s1]|]; reflexivity.
  Qed.

  (* ---------- atoms ---------- *)

  Lemma PPc_atom f x a l : atom_ok a = true ->
    PPc f (St x a l) = Some (cexpr (CAtom a), St x a l).
  Proof.
    unfold atom_ok, parse_prefix_expression. rewrite cur_St. cbv zeta. intro H.
    cbn [cexpr]. destruct (t_type a =? T_IDENT) eqn:E1.
    - apply Z.eqb_eq in E1. rewrite E1, Hid.
      change (assoc_opt prefix_table T_IDENT) with (Some PH_ParseIdentifier).
      cbn [prefix_handler_run]. rewrite cur_St. reflexivity.
    - cbn [orb] in H. apply andb_true_iff in H as [E2 Hgo]. apply Z.eqb_eq in E2.
      rewrite E2, Hint.
      change (assoc_opt prefix_table T_INT) with (Some PH_ParseIntegerLiteral).
      cbn [prefix_handler_run]. rewrite cur_St, Hgo. reflexivity.
  Qed.

  (* ---------- the key lemma ---------- *)

  Lemma root_ge_gt c k prec : root_ge cfg c k = true -> prec < k -> root_gt cfg c prec = true.
  Proof.
    destruct c as [t|l op r]; cbn [root_ge root_gt]; [reflexivity|].
    destruct (op_level cfg (t_type op)); [|discriminate]. lia.
  Qed.

  (* parsing the tokens of [c] at a level below its root, followed by a token [t] at which
     the loops of the levels inside [c] stop, is the loop at that level continued from
     [cexpr c] with the window at [t]; at most [nops c] iterations have been used *)
  Lemma climb c : forall prec x a l t rest f,
    well_grouped cfg c = true -> root_gt cfg c prec = true -> cyield c = a :: l ->
    (forall k, croot cfg c = Some k -> stopsc k t = true) -> (nops c < f)%nat ->
    exists m a', (f <= m + nops c)%nat /\
      EFc (S f) prec (St x a (l ++ t :: rest)) = RLc f m (cexpr c) prec (St x a' (t :: rest)).
  Proof.
    induction c as [t0|cl IHl op cr IHr]; intros prec x a l t rest f Hw Hg Hy Hfol Hf.
    - cbn [cyield well_grouped nops] in *. injection Hy as <- <-. cbn [app].
      rewrite EFc_S, PPc_atom by assumption. exists f, t0. split; [lia|reflexivity].
    - cbn [cyield well_grouped root_gt croot nops cexpr] in *.
      destruct (op_level cfg (t_type op)) as [k|] eqn:Ek; [|discriminate].
      apply andb_true_iff in Hw as [Hw Hwr]. apply andb_true_iff in Hw as [Hw Hwl].
      apply andb_true_iff in Hw as [Hw Hgr]. apply andb_true_iff in Hw as [Hk Hgl].
      destruct (op_facts _ _ Ek) as (F1 & _).
      destruct (cyield_cons cl) as (a1 & l1 & El). destruct (cyield_cons cr) as (b & lr & Er).
      rewrite El, Er in Hy. cbn [app] in Hy. injection Hy as <- <-.
      replace ((l1 ++ op :: b :: lr) ++ t :: rest) with (l1 ++ op :: b :: lr ++ t :: rest)
        by (rewrite <- app_assoc; reflexivity).
      destruct (IHl prec x a1 l1 op (b :: lr ++ t :: rest) f Hwl) as (m & a' & Hm & E1);
        [eapply root_ge_gt; [eassumption|lia] |assumption| |lia|].
      { intros j Hj. destruct cl as [?|cll opl clr]; [discriminate|].
        cbn [croot root_ge] in Hj, Hgl. rewrite Hj in Hgl. unfold stopsc. rewrite F1. lia. }
      rewrite E1. destruct m as [|m]; [lia|].
      rewrite (RLc_bin _ _ _ _ _ _ _ _ _ k) by (assumption || lia).
      destruct f as [|f']; [lia|].
      assert (Hst : stopsc k t = true) by (apply Hfol; reflexivity).
      destruct (IHr k x b lr t rest f' Hwr Hgr Er) as (m2 & b' & Hm2 & E2); [|lia|].
      { intros j Hj. destruct cr as [?|crl opr crr]; [discriminate|].
        cbn [croot root_gt] in Hj, Hgr. rewrite Hj in Hgr.
        eapply stopsc_mono; [|exact Hst]. lia. }
      rewrite E2. destruct m2 as [|m2]; [lia|]. rewrite RLc_stop by assumption.
      exists m, b'. split; [lia|reflexivity].
  Qed.

  Lemma wg_root_gt c : well_grouped cfg c = true -> root_gt cfg c P_LOWEST = true.
  Proof.
    destruct c as [t|l op r]; cbn [well_grouped root_gt]; [reflexivity|].
    destruct (op_level cfg (t_type op)); [|discriminate]. intro H.
    repeat (apply andb_true_iff in H as [H _]). exact H.
  Qed.

  Lemma first_atom c : forall a l, well_grouped cfg c = true -> cyield c = a :: l -> atom_ok a = true.
  Proof.
    induction c as [t|cl IHl op cr _]; intros a l Hw Hy; cbn [well_grouped cyield] in *.
    - injection Hy as <- _. exact Hw.
    - destruct (op_level cfg (t_type op)); [|discriminate].
      apply andb_true_iff in Hw as [Hw _]. apply andb_true_iff in Hw as [_ Hwl].
      destruct (cyield_cons cl) as (a1 & l1 & E). rewrite E in Hy. cbn [app] in Hy.
      injection Hy as <- _. eapply IHl; eauto.
  Qed.

  (* the expression parser at LOWEST: the tree, the window at the token that follows *)
  Lemma expr_top c x a l t rest f :
    well_grouped cfg c = true -> cyield c = a :: l -> stopsc P_LOWEST t = true -> (nops c < f)%nat ->
    exists a', EFc (S f) P_LOWEST (St x a (l ++ t :: rest)) = Some (cexpr c, St x a' (t :: rest)).
  Proof.
    intros Hw Hy Hst Hf.
    destruct (climb c P_LOWEST x a l t rest f Hw (wg_root_gt c Hw) Hy) as (m & a' & Hm & E); [|assumption|].
    { intros k Hk. eapply stopsc_mono; [|exact Hst].
      destruct c as [?|cl op cr]; [discriminate|]. cbn [croot well_grouped] in Hk, Hw.
      rewrite Hk in Hw. repeat (apply andb_true_iff in Hw as [Hw _]). lia. }
    rewrite E. destruct m as [|m]; [lia|]. rewrite RLc_stop by assumption. eauto.
  Qed.

  (* ---------- the statement, the program ---------- *)

  Lemma atom_not_kw a : atom_ok a = true -> t_type a = T_IDENT \/ t_type a = T_INT.
  Proof. unfold atom_ok. lia. Qed.

  Lemma stmt_ok c x a l semi eof f :
    well_grouped cfg c = true -> cyield c = a :: l -> semi_ok semi = true ->
    t_type eof = T_EOF -> precedence_of cfg T_EOF <= P_LOWEST -> (nops c < f)%nat ->
    exists a', SFc (S (S f)) (St x a (l ++ semi ++ [eof])) = Some (SExpr (cexpr c), St x a' [eof]).
  Proof.
    intros Hw Hy Hs He Hpe Hf.
    rewrite SFc_S. unfold base_parse_statement. rewrite cur_St. cbv zeta.
    assert (Hkw : (if t_type a =? T_LET then true else if t_type a =? T_FUNCTION then true
                   else if t_type a =? T_RETURN then true else if t_type a =? T_IF then true
                   else if t_type a =? T_WHILE then true else if t_type a =? T_FOR then true
                   else t_type a =? T_LBRACE) = false).
    { destruct (atom_not_kw a (first_atom c a l Hw Hy)) as [-> | ->]; reflexivity. }
    destruct (t_type a =? T_LET); [discriminate|]. destruct (t_type a =? T_FUNCTION); [discriminate|].
    destruct (t_type a =? T_RETURN); [discriminate|]. destruct (t_type a =? T_IF); [discriminate|].
    destruct (t_type a =? T_WHILE); [discriminate|]. destruct (t_type a =? T_FOR); [discriminate|].
    rewrite Hkw. clear Hkw.
    unfold parse_expression_statement, parse_expression.
    destruct semi as [|ts [|? ?]]; cbn [semi_ok] in Hs; try discriminate; cbn [app].
    - destruct (expr_top c x a l eof [] f Hw Hy) as (a' & E); [|assumption|].
      { unfold stopsc. rewrite He. lia. }
      rewrite E. unfold expect_semicolon_asi, should_insert_semicolon. rewrite !peek_is_St, He.
      ev_goal. cbn [negb]. eauto.
    - apply Z.eqb_eq in Hs.
      destruct (expr_top c x a l ts [eof] f Hw Hy) as (a' & E); [|assumption|].
      { unfold stopsc. rewrite Hs. reflexivity. }
      rewrite E. unfold expect_semicolon_asi. rewrite !peek_is_St, Hs, next_St.
      ev_goal. cbn [negb]. eauto.
  Qed.

  Lemma program_loop_S fuel n acc s : program_loop cfg fuel (S n) acc s =
    if negb (cur_is s T_EOF) then
      do (st, s1) <- SFc fuel s;
      program_loop cfg fuel n (if is_snil st then acc else acc ++ [st]) (ps_next s1)
    else Some (acc, s).
  Proof. reflexivity. Qed.

  Lemma program_ok c semi eof eof' fuel :
    well_grouped cfg c = true -> semi_ok semi = true ->
    t_type eof = T_EOF -> precedence_of cfg T_EOF <= P_LOWEST -> (nops c + 3 <= fuel)%nat ->
    exists r, parse_program_from cfg fuel (ps_init (cyield c ++ semi ++ [eof]) eof') = Some r /\
              p_stmts (pr_program r) = [SExpr (cexpr c)] /\
              pr_errors r = [] /\ pr_err_returned r = false.
  Proof.
    intros Hw Hs He Hpe Hf.
    destruct (cyield_cons c) as (a & l & Hy). rewrite Hy. cbn [app]. rewrite ps_init_St.
    unfold parse_program_from.
    destruct fuel as [|[|f]]; try lia.
    destruct (stmt_ok c (x_init eof') a l semi eof f Hw Hy Hs He Hpe) as (a' & E); [lia|].
    rewrite program_loop_S, cur_is_St.
    replace (t_type a =? T_EOF) with false
      by (destruct (atom_not_kw a (first_atom c a l Hw Hy)) as [-> | ->]; reflexivity).
    cbn [negb]. rewrite E. cbn [is_snil app]. rewrite next_St.
    rewrite program_loop_S, cur_is_St, He. ev_goal. cbn [negb].
    eexists. split; [reflexivity|]. cbn [pr_program pr_errors pr_err_returned p_stmts].
    rewrite errors_St. repeat split; reflexivity.
  Qed.
End Climb.

(* ---------- any configuration ---------- *)

Lemma op_level_strip cfg ty : op_level (strip_ics cfg) ty = op_level cfg ty.
Proof. reflexivity. Qed.

Lemma well_grouped_strip cfg c : well_grouped (strip_ics cfg) c = well_grouped cfg c.
Proof.
  induction c as [t|l IHl op r IHr]; cbn [well_grouped]; [reflexivity|].
  rewrite op_level_strip, IHl, IHr.
  destruct l, r; reflexivity.
Qed.

Lemma parse_fuel_enough c semi eof :
  (nops c + 3 <= parse_fuel (cstmt_tokens c semi eof))%nat.
Proof.
  unfold parse_fuel, cstmt_tokens. rewrite app_length, cyield_length. lia.
Qed.

Lemma groups_by_level : forall cfg c semi eof,
  cfg_ok cfg = true ->
  well_grouped cfg c = true -> semi_ok semi = true -> t_type eof = T_EOF ->
  exists r, parse_tokens cfg (cstmt_tokens c semi eof) = Some r /\
            p_stmts (pr_program r) = [SExpr (cexpr c)] /\
            pr_errors r = [] /\ pr_err_returned r = false.
Proof.
  intros cfg c semi eof Hc Hw Hs He.
  unfold cfg_ok in Hc. apply andb_true_iff in Hc as [Hc Hpe]. apply andb_true_iff in Hc as [Hid Hint].
  apply negb_true_iff in Hid, Hint. apply Z.leb_le in Hpe.
  rewrite <- well_grouped_strip in Hw.
  destruct (program_ok (strip_ics cfg) eq_refl eq_refl Hid Hint c semi eof
              (eof_again (last (cstmt_tokens c semi eof) zero_token))
              (parse_fuel (cstmt_tokens c semi eof)) Hw Hs He Hpe (parse_fuel_enough c semi eof))
    as (r0 & Hr0 & P1 & P2 & P3).
  change (parse_tokens (strip_ics cfg) (cstmt_tokens c semi eof) = Some r0) in Hr0.
  pose proof (interceptors_transparent cfg (cstmt_tokens c semi eof)) as HT.
  rewrite Hr0 in HT. cbn [option_map] in HT.
  destruct (parse_tokens cfg (cstmt_tokens c semi eof)) as [r|]; [|discriminate].
  cbn [option_map] in HT. unfold core_of_result in HT.
  assert (H1 : pr_program r = pr_program r0) by congruence.
  assert (H2 : pr_errors r = pr_errors r0) by congruence.
  assert (H3 : pr_err_returned r = pr_err_returned r0) by congruence.
  exists r. rewrite H1, H2, H3. auto.
Qed.

(* [cfg_ok] from the standing assumption of the totality theorem (nothing registered on the
   end-of-input token) and the builder's refusal of a second prefix role *)
Lemma cfg_ok_of_sane cfg : ops_sane cfg ->
  memZ T_IDENT (c_prefix_ops cfg) = false -> memZ T_INT (c_prefix_ops cfg) = false ->
  cfg_ok cfg = true.
Proof.
  intros Hsane H1 H2. unfold cfg_ok. rewrite H1, H2, (TotalProofs.prec_eof cfg Hsane). reflexivity.
Qed.

(* ---------- the hypothesis on the configuration is necessary ---------- *)

Definition cx_tok (ty : Z) (l : str) : token := mktoken ty l (mkpos 0 0) (mkpos 0 0) false [].
Definition cx_a : token := cx_tok T_IDENT [97%N].
Definition cx_eof : token := cx_tok T_EOF [].
Definition cx_semi : token := cx_tok T_SEMICOLON [59%N].

(* a prefix operator registered on IDENT shadows the identifier: `a;` parses as a unary
   operator without operand, with an error *)
Lemma cfg_ok_needed_prefix :
  let cfg := mkpcfg false false [] [] [T_IDENT] [] [] in
  well_grouped cfg (CAtom cx_a) = true /\
  option_map (fun r => (p_stmts (pr_program r), length (pr_errors r)))
    (parse_tokens cfg (cstmt_tokens (CAtom cx_a) [cx_semi] cx_eof))
  = Some ([SExpr (EUnary cx_a [97%N] ENil)], 1%nat).
Proof. vm_compute. split; reflexivity. Qed.

(* an infix operator registered on EOF: the loop does not stop at the end of `a` *)
Lemma cfg_ok_needed_eof :
  let cfg := mkpcfg false false [] [] [] [(T_EOF, 5)] [] in
  well_grouped cfg (CAtom cx_a) = true /\
  parse_tokens cfg (cstmt_tokens (CAtom cx_a) [] cx_eof) = None.
Proof. vm_compute. split; reflexivity. Qed.

(* ---------- uniqueness of the grouping ---------- *)

(* the same operators, no prefix operator on the atoms' types, no interceptors *)
Definition unshadow (cfg : pcfg) : pcfg :=
  mkpcfg (c_tolerant cfg) (c_smart cfg) [] []
         (filter (fun ty => negb ((ty =? T_IDENT) || (ty =? T_INT))) (c_prefix_ops cfg))
         (c_infix_ops cfg) (c_postfix_ops cfg).

Lemma memZ_filter p x l : memZ x (filter p l) = memZ x l && p x.
Proof.
  induction l as [|y l IH]; cbn [filter memZ]; [reflexivity|].
  destruct (p y) eqn:Ep; cbn [memZ]; rewrite IH; destruct (Z.eqb_spec x y) as [->|N]; cbn [orb].
  - rewrite Ep. destruct (memZ y l); reflexivity.
  - reflexivity.
  - rewrite Ep. destruct (memZ y l); reflexivity.
  - reflexivity.
Qed.

Lemma op_level_unshadow cfg ty : op_level (unshadow cfg) ty = op_level cfg ty.
Proof.
  unfold op_level, unshadow. cbn [c_postfix_ops c_prefix_ops c_infix_ops]. rewrite memZ_filter.
  destruct (Z.eqb_spec ty T_IDENT) as [->|N1]; [|destruct (Z.eqb_spec ty T_INT) as [->|N2]].
  - cbn [orb negb]. rewrite andb_false_r.
    destruct (memZ T_IDENT (c_postfix_ops cfg)), (memZ T_IDENT (c_prefix_ops cfg)); cbn [orb];
      destruct (assoc_opt (c_infix_ops cfg) T_IDENT); reflexivity.
  - cbn [orb negb]. rewrite andb_false_r.
    destruct (memZ T_INT (c_postfix_ops cfg)), (memZ T_INT (c_prefix_ops cfg)); cbn [orb];
      destruct (assoc_opt (c_infix_ops cfg) T_INT); reflexivity.
  - cbn [orb negb]. rewrite andb_true_r. reflexivity.
Qed.

Lemma well_grouped_unshadow cfg c : well_grouped (unshadow cfg) c = well_grouped cfg c.
Proof.
  induction c as [t|l IHl op r IHr]; cbn [well_grouped]; [reflexivity|].
  rewrite op_level_unshadow, IHl, IHr.
  destruct l as [?|? opl ?], r as [?|? opr ?]; cbn [root_ge root_gt]; rewrite ?op_level_unshadow; reflexivity.
Qed.

Lemma unshadow_ident cfg : memZ T_IDENT (c_prefix_ops (unshadow cfg)) = false.
Proof. unfold unshadow. cbn [c_prefix_ops]. rewrite memZ_filter. apply andb_false_r. Qed.
Lemma unshadow_int cfg : memZ T_INT (c_prefix_ops (unshadow cfg)) = false.
Proof. unfold unshadow. cbn [c_prefix_ops]. rewrite memZ_filter. apply andb_false_r. Qed.

Lemma cgroup_unique : forall cfg c1 c2,
  well_grouped cfg c1 = true -> well_grouped cfg c2 = true ->
  cyield c1 = cyield c2 -> c1 = c2.
Proof.
  intros cfg c1 c2 H1 H2 Hy.
  rewrite <- well_grouped_unshadow in H1, H2.
  destruct (cyield_cons c1) as (a & l & Y1). assert (Y2 : cyield c2 = a :: l) by congruence.
  set (f := S (nops c1 + nops c2)).
  assert (Hst : stopsc (unshadow cfg) P_LOWEST cx_semi = true) by reflexivity.
  destruct (expr_top (unshadow cfg) eq_refl (unshadow_ident cfg) (unshadow_int cfg)
              c1 (x_init cx_eof) a l cx_semi [] f H1 Y1 Hst ltac:(lia)) as (a1 & E1).
  destruct (expr_top (unshadow cfg) eq_refl (unshadow_ident cfg) (unshadow_int cfg)
              c2 (x_init cx_eof) a l cx_semi [] f H2 Y2 Hst ltac:(lia)) as (a2 & E2).
  rewrite E1 in E2. injection E2 as E2 _. apply cexpr_inj. exact E2.
Qed.

Print Assumptions groups_by_level.
Print Assumptions cgroup_unique.

(* ---------- [cfg_ok] for every configuration a builder produces ---------- *)

(* the registration history never registers an infix or a postfix operator on EOF *)
Definition no_eof_op (o : bop) : Prop :=
  match o with BRegInfix ty _ | BRegPostfix ty => ty <> T_EOF | _ => True end.

(* IDENT and INT keep their (built-in) prefix role and are never registered as prefix
   operators (the registration is refused); nothing infix / postfix is registered on EOF *)
Definition reg_inv (b : pbuilder) : Prop :=
  memZ T_IDENT (pb_prefix_set b) = true /\ memZ T_INT (pb_prefix_set b) = true /\
  memZ T_IDENT (pb_prefix_ops b) = false /\ memZ T_INT (pb_prefix_ops b) = false /\
  memZ T_EOF (pb_postfix_ops b) = false /\ assoc_opt (pb_infix_ops b) T_EOF = None.

Lemma reg_inv_new : reg_inv pbuilder_new.
Proof. repeat split. Qed.

Lemma reg_inv_step b o : no_eof_op o -> reg_inv b -> reg_inv (snd (pb_step b o)).
Proof.
  intros Ho (I1 & I2 & I3 & I4 & I5 & I6). destruct o as [ty|ty prec|ty| | | |]; cbn [pb_step no_eof_op] in *.
  - destruct (memZ ty (pb_prefix_set b)) eqn:E; cbn [snd]; [repeat split; assumption|].
    assert (N1 : T_IDENT <> ty) by (intros <-; congruence).
    assert (N2 : T_INT <> ty) by (intros <-; congruence).
    unfold reg_inv.
    cbn [pb_prefix_set pb_prefix_ops pb_postfix_ops pb_infix_ops memZ].
    rewrite I1, I2, !memZ_app_ne, !orb_true_r by assumption. repeat split; assumption.
  - destruct (memZ ty (pb_infix_set b)); cbn [snd]; [repeat split; assumption|].
    unfold reg_inv. cbn [pb_prefix_set pb_prefix_ops pb_postfix_ops pb_infix_ops].
    rewrite assoc_opt_app_ne by congruence. repeat split; assumption.
  - destruct (memZ ty (pb_postfix_set b)); cbn [snd]; [repeat split; assumption|].
    unfold reg_inv. cbn [pb_prefix_set pb_prefix_ops pb_postfix_ops pb_infix_ops].
    rewrite memZ_app_ne by congruence. repeat split; assumption.
  - repeat split; assumption.
  - repeat split; assumption.
  - repeat split; assumption.
  - repeat split; assumption.
Qed.

Lemma pb_run_cons b o ops : snd (pb_run b (o :: ops)) = snd (pb_run (snd (pb_step b o)) ops).
Proof.
  cbn [pb_run]. destruct (pb_step b o) as [e b1]. cbn [snd].
  destruct (pb_run b1 ops) as [es b2]. reflexivity.
Qed.

Lemma reg_inv_run ops : forall b, Forall no_eof_op ops -> reg_inv b -> reg_inv (snd (pb_run b ops)).
Proof.
  induction ops as [|o ops IH]; intros b HF Hb; [exact Hb|].
  inversion HF as [|? ? Ho HF']; subst. rewrite pb_run_cons.
  apply IH; [assumption|]. apply reg_inv_step; assumption.
Qed.

Lemma reg_inv_cfg_ok b : reg_inv b -> cfg_ok (pb_build b) = true.
Proof.
  intros (_ & _ & I3 & I4 & I5 & I6). unfold cfg_ok, precedence_of, pb_build.
  cbn [c_prefix_ops c_postfix_ops c_infix_ops]. rewrite I3, I4, I5, I6. reflexivity.
Qed.

(* every registration history that registers no infix / postfix operator on EOF builds a
   configuration satisfying [cfg_ok] *)
Lemma cfg_ok_reachable : forall ops, Forall no_eof_op ops ->
  cfg_ok (pb_build (snd (pb_run pbuilder_new ops))) = true.
Proof.
  intros ops HF. apply reg_inv_cfg_ok. apply reg_inv_run; [assumption|exact reg_inv_new].
Qed.

Lemma groups_by_level_reachable : forall ops c semi eof,
  Forall no_eof_op ops ->
  let cfg := pb_build (snd (pb_run pbuilder_new ops)) in
  well_grouped cfg c = true -> semi_ok semi = true -> t_type eof = T_EOF ->
  exists r, parse_tokens cfg (cstmt_tokens c semi eof) = Some r /\
            p_stmts (pr_program r) = [SExpr (cexpr c)] /\
            pr_errors r = [] /\ pr_err_returned r = false.
Proof.
  intros ops c semi eof HF cfg. apply groups_by_level. apply cfg_ok_reachable. exact HF.
Qed.

Print Assumptions cfg_ok_reachable.
Print Assumptions groups_by_level_reachable.
