(* C12 -- Strict mode never silently accepts malformed programs (clauses about WHERE the
   first error is reported).  Property theorems only. *)
Require Import Base Token Lexer Tree Parser ParserSpec Grammar GrammarLax CausalityProofs SoundnessProofs RefutedStrict.
Require Import Gen.Tables.

(* an error located at a token of [toks] whose index is at least [k], or at the repeated
   end-of-input token *)
Definition located_from (toks : list token) (k : nat) (e : perror) : Prop :=
  (exists i t, (k <= i)%nat /\ nth_error toks i = Some t /\
               e_start e = t_start t /\ e_end e = t_end t)
  \/ (e_start e = t_start (eof_again (last toks zero_token)) /\
      e_end e = t_end (eof_again (last toks zero_token))).

(* Causality of the one-token-lookahead parser: if a token list agrees with an accepted
   one on its first k tokens (the corruption point is token k), every error reported for
   it - in particular the first - is located no earlier than token k-1, the last intact
   token before the corruption point.  Any mode, interceptors and operators. *)
Theorem C12_error_not_early : forall cfg toks1 toks2 k r1 r2,
  ops_sane cfg ->
  firstn k toks1 = firstn k toks2 ->
  t_type (last toks1 zero_token) = T_EOF -> t_type (last toks2 zero_token) = T_EOF ->
  parse_tokens cfg toks1 = Some r1 -> pr_errors r1 = [] ->
  parse_tokens cfg toks2 = Some r2 ->
  Forall (located_from toks2 (k - 1)) (pr_errors r2).
Proof. exact error_not_early. Qed.
Print Assumptions C12_error_not_early.

(* Parser SOUNDNESS: whatever strict mode accepts without reporting an error is a program of
   the relaxed grammar of GrammarLax.v - the ECMAScript grammar of the subset plus five
   explicit, recorded relaxations (non-simple assignment targets, non-identifier member
   names and object keys, declarations as single statements, postfix
   expressions as callees).  So a corrupted text that is not in that grammar is never
   accepted silently.  (The token list has no end-of-input token before its last one.) *)
Theorem C12_sound : forall toks r,
  t_type (last toks zero_token) = T_EOF ->
  Forall (fun t => t_type t <> T_EOF) (removelast toks) ->
  parse_tokens cfg_default toks = Some r -> pr_errors r = [] ->
  m_programL (pr_program r) toks = true /\ wf_programL (pr_program r) = true.
Proof. exact parse_sound. Qed.
Print Assumptions C12_sound.

(* on lexer output both side conditions hold (C10): soundness from the source text *)
Theorem C12_sound_lexed : forall src toks r,
  tokenize src = Some toks ->
  parse_tokens cfg_default toks = Some r -> pr_errors r = [] ->
  m_programL (pr_program r) toks = true /\ wf_programL (pr_program r) = true.
Proof. exact parse_sound_lexed. Qed.
Print Assumptions C12_sound_lexed.

(* the relaxed grammar contains the ECMAScript grammar of the subset *)
Theorem C12_lax_contains_strict : forall p toks,
  m_program p toks = true -> wf_program p = true ->
  m_programL p toks = true /\ wf_programL p = true.
Proof. exact strict_in_lax. Qed.
Print Assumptions C12_lax_contains_strict.

(* REFUTED CLAUSES (recorded findings as theorems; witnesses evaluated by the kernel): with
   respect to Grammar.v itself (not its relaxation GrammarLax.v) soundness is FALSE - strict
   mode accepts, without error, the token lists of  a+b=c  and  1++  (KF6),  a.'x'  (KF7),
   a++(b)  (KF11),  if(a)let x=1  (KF12), which are the unparsing of NO tree of the grammar.
   (By C02_parse_complete a tree of the grammar would be the one the parser returns; that one
   is evaluated and is not well formed.) *)
Definition accepted_outside_the_grammar (src : str) : Prop :=
  exists toks r, tokenize src = Some toks /\ parse_tokens cfg_default toks = Some r /\
                 pr_errors r = [] /\ pr_err_returned r = false /\
                 forall p, m_program p toks = true -> wf_program p = true -> False.

Theorem C12_assignment_target_refuted : accepted_outside_the_grammar kf6_src.
Proof. exact kf6_assignment_target_refuted. Qed.
Print Assumptions C12_assignment_target_refuted.

Theorem C12_increment_target_refuted : accepted_outside_the_grammar kf6b_src.
Proof. exact kf6_increment_target_refuted. Qed.
Print Assumptions C12_increment_target_refuted.

Theorem C12_member_name_refuted : accepted_outside_the_grammar kf7_src.
Proof. exact kf7_member_name_refuted. Qed.
Print Assumptions C12_member_name_refuted.

Theorem C12_postfix_callee_refuted : accepted_outside_the_grammar kf11_src.
Proof. exact kf11_postfix_callee_refuted. Qed.
Print Assumptions C12_postfix_callee_refuted.

Theorem C12_declaration_as_body_refuted : accepted_outside_the_grammar kf12_src.
Proof. exact kf12_declaration_body_refuted. Qed.
Print Assumptions C12_declaration_as_body_refuted.
