(* C03 -- Printed code parses back to the tree it was printed from (tree-level and text-level clauses).
   Property theorems only. *)
Require Import Base Token Lexer Tree Writer Compile Parser Grammar WriterSpec PrintSpec CommentSpec RelexSpec NestSpec PrintProofs RelexProofs AssembledPrettyProofs RefutedPretty.
Require Import Gen.Tables Gen.Printer.

(* the printer-side precedence of every node kind is its ECMAScript level: the two
   tables (ast/ast.go and Grammar.v, hence parser/parser.go by C02) agree.  The one
   numerical difference: ast.go ranks member access (12) above calls (11) where ECMAScript
   has the single LeftHandSide level; no printer test separates the two. *)
Theorem C03_precedences_agree : forall e, e <> ENil ->
  prec_opt e = Some (level e)
  \/ (exists t o p c, e = EMember t o p c /\ prec_opt e = Some A_PrecedenceMember /\ level e = L_LHS)
  \/ (exists t l op r, e = EBinary t l op r /\ binop_level (t_type t) = None).
Proof. exact printer_levels_agree. Qed.
Print Assumptions C03_precedences_agree.

(* for every assembled tree with arbitrary operands, the parentheses the printer writes
   make it a tree of the grammar: it respects every ECMAScript level constraint *)
Theorem C03_parenthesised_is_wf : forall e, printable e = true -> wf_expr (groupify e) = true.
Proof. exact groupify_wf. Qed.
Print Assumptions C03_parenthesised_is_wf.

(* ... it is the same tree up to grouping nodes ... *)
Theorem C03_same_tree : forall e, strip_groups (groupify e) = strip_groups e.
Proof. exact groupify_strip. Qed.
Print Assumptions C03_same_tree.

(* ... and it prints to the same compact text, so the printed text IS the unparsing of a
   well-formed tree (which the parser maps back to that tree by C02) *)
Theorem C03_same_text : forall e, printable e = true -> compact_text (groupify e) = compact_text e.
Proof. exact groupify_text. Qed.
Print Assumptions C03_same_text.

(* parenthesisation is idempotent: printing the re-parsed tree adds nothing *)
Theorem C03_groupify_idempotent : forall e, printable e = true -> groupify (groupify e) = groupify e.
Proof. exact groupify_idem. Qed.
Print Assumptions C03_groupify_idempotent.

(* TEXT LEVEL: printing an assembled expression tree compactly (the printer's parentheses,
   fusion-avoiding blanks, re-quoted strings), lexing the text and parsing it yields - without
   error - the parenthesised tree, i.e. the same tree up to grouping nodes, positions and
   comments.  [printable]: callee/object positions hold call-level-or-tighter operands,
   assignment targets are simple, no nil children; [lexical]: every stored literal is one
   the lexer can produce for its token type (identifier spelling, numeral accepted by
   strconv, string/backtick body free of its raw delimiter); an expression statement must
   not begin with '{'. *)
Theorem C03_print_parse_compact : forall e,
  printable e = true -> lexical e = true -> negb (first_type e =? T_LBRACE) = true ->
  exists r, reparse_compact (expr_program e) = Some r /\
            pr_errors r = [] /\
            shape_program (pr_program r) = shape_program (expr_program (groupify e)) /\
            map strip_groups_stmt (p_stmts (shape_program (pr_program r)))
            = map strip_groups_stmt (p_stmts (shape_program (expr_program e))).
Proof. exact print_parse_compact. Qed.
Print Assumptions C03_print_parse_compact.

(* the pretty counterpart of C03_print_parse_compact: same trees (arbitrary operands,
   lexer-producible literals, comment-free tokens as an assembled tree has them, no line of a
   multi-line literal ending in a blank: KF3), every
   pretty configuration with a blank indent unit, semicolons on or off (a single expression
   statement needs none), with or without source map *)
(* the tokens stored in an expression tree *)
Definition expr_tokens (e : expr) : list token := map (fun x => fst (fst x)) (nest_expr false false e).

Theorem C03_print_parse_pretty : forall e indent semis m,
  printable e = true -> lexical e = true -> negb (first_type e =? T_LBRACE) = true ->
  tmap_expr erase_comments e = e -> literals_trim_safe (expr_tokens e) = true -> blank_str indent ->
  exists r, reparse (cfg_pretty indent semis m) (expr_program e) = Some r /\
            pr_errors r = [] /\
            shape_program (pr_program r) = shape_program (expr_program (groupify e)) /\
            map strip_groups_stmt (p_stmts (shape_program (pr_program r)))
            = map strip_groups_stmt (p_stmts (shape_program (expr_program e))).
Proof. exact print_parse_pretty. Qed.
Print Assumptions C03_print_parse_pretty.

(* REFUTED CLAUSE (recorded finding KF4 as a theorem; witness evaluated by the kernel): for
   statement-level ASSEMBLED trees the round trip is false.  Witness: the if statement
   assembled from  then = (if(b)c; without else)  and  else = d; .  Its compact text parses
   without error, but the else belongs to the inner if: the outer else branch is nil. *)
Theorem C03_assembled_dangling_else_refuted :
  outer_else_nil (shape_program kf4_tree) = false /\
  exists r, reparse_compact kf4_tree = Some r /\ pr_errors r = [] /\
            outer_else_nil (shape_program (pr_program r)) = true /\
            shape_program (pr_program r) <> shape_program kf4_tree.
Proof. exact kf4_dangling_else_refuted. Qed.
Print Assumptions C03_assembled_dangling_else_refuted.
