(* C03 (text-level clause) -- printing an assembled expression tree compactly and parsing
   the text back yields the same tree up to grouping nodes, positions and comments.
   Property theorems only. *)
Require Import Base Token Lexer Tree Writer Compile Parser Grammar PrintSpec CommentSpec RelexSpec RelexProofs.
Require Import Gen.Tables Gen.Printer.

Theorem C03_print_parse_compact : forall e,
  printable e = true -> lexical e = true -> negb (first_type e =? T_LBRACE) = true ->
  exists r, reparse_compact (expr_program e) = Some r /\
            pr_errors r = [] /\
            shape_program (pr_program r) = shape_program (expr_program (groupify e)) /\
            map strip_groups_stmt (p_stmts (shape_program (pr_program r)))
            = map strip_groups_stmt (p_stmts (shape_program (expr_program e))).
Proof. exact print_parse_compact. Qed.
Print Assumptions C03_print_parse_compact.
