(* C06 -- Pretty printing changes layout only (writer-level clauses).  Property theorems only. *)
Require Import Base Token Tree SourceMap Writer Compile WriterSpec WriterProofs.
Require Import Gen.Printer.

(* the semicolon option is read by the statement-terminator operation only: output
   without optional semicolons = output with them of the same operations minus WSemi *)
Theorem C06_semi_only : forall indent m p,
  compile (cfg_pretty indent false m) p =
  finish (cfg_pretty indent true m) (run_wops (cfg_pretty indent true m) (erase_semis (write_program p))).
Proof. exact semi_only. Qed.
Print Assumptions C06_semi_only.

(* indentation options change only leading whitespace *)
Theorem C06_indent_only : forall i1 i2 semis m p,
  blank_str i1 -> blank_str i2 ->
  lines_modulo_indent (r_code (compile (cfg_pretty i1 semis m) p))
  = lines_modulo_indent (r_code (compile (cfg_pretty i2 semis m) p)).
Proof. exact indent_only. Qed.
Print Assumptions C06_indent_only.
