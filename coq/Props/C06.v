(* C06 -- Pretty printing changes layout only (writer-level clauses).  Property theorems only. *)
Require Import Base Token Lexer Tree SourceMap Writer Compile Parser Grammar WriterSpec RelexSpec WriterProofs PrettyProofs TriviaProofs RefutedPretty.
Require Import Gen.Tables Gen.Printer.

(* the semicolon option is read by the statement-terminator operation only: output
   without optional semicolons = output with them of the same operations minus WSemi *)
Theorem C06_semi_only : forall indent m p,
  compile (cfg_pretty indent false m) p =
  finish (cfg_pretty indent true m) (run_wops (cfg_pretty indent true m) (erase_semis (write_program p))).
Proof. exact semi_only. Qed.
Print Assumptions C06_semi_only.

(* indentation options change only leading whitespace *)
Theorem C06_indent_only : forall i1 i2 semis m p,
  blank_str i1 -> blank_str i2 ->
  lines_modulo_indent (r_code (compile (cfg_pretty i1 semis m) p))
  = lines_modulo_indent (r_code (compile (cfg_pretty i2 semis m) p)).
Proof. exact indent_only. Qed.
Print Assumptions C06_indent_only.

(* ROUND TRIP through the pretty configurations *)

(* Every pretty configuration that writes semicolons (any blank indent unit, with or without
   source map): the formatted output of a program of the grammar lexed from a source text
   lexes and parses back, without error, to the tree it was printed from - hence to the same
   tree as the compact output (C01_compact_round_trip).  [literals_trim_safe]: no line of a
   multi-line literal ends with a blank (the post-processing trims line ends also inside
   literals: recorded finding KF3).  Without semicolons the clause is false (KF1, KF2). *)
Theorem C06_pretty_round_trip : forall src toks p indent m,
  tokenize src = Some toks -> strings_stable toks = true -> literals_trim_safe toks = true ->
  m_program p toks = true -> wf_program p = true -> blank_str indent ->
  exists r, reparse (cfg_pretty indent true m) p = Some r /\ pr_errors r = [] /\
            shape_program (pr_program r) = shape_program p.
Proof. exact program_round_trip_pretty. Qed.
Print Assumptions C06_pretty_round_trip.

(* IDEMPOTENCE: formatting the formatted output reproduces it byte for byte (same
   hypotheses).  A first proof attempt found the counterexample  x;//<TAB>  (a comment made
   only of white space at the end of the input), repaired in /repo by fix 8063bcf: the lexer
   drops all trailing white space of a comment. *)
Theorem C06_idempotent : forall src toks p indent m,
  tokenize src = Some toks -> strings_stable toks = true -> literals_trim_safe toks = true ->
  m_program p toks = true -> wf_program p = true -> blank_str indent ->
  exists r, reparse (cfg_pretty indent true m) p = Some r /\
            r_code (compile (cfg_pretty indent true m) (pr_program r)) = r_code (compile (cfg_pretty indent true m) p).
Proof. exact pretty_idempotent. Qed.
Print Assumptions C06_idempotent.

(* REFUTED CLAUSES (recorded findings as theorems; witnesses evaluated by the kernel) *)

(* KF1: the round trip is FALSE with semicolons off.  Witness  a;(b)  : two statements are
   printed as  a<LF>(b) , which parses without error to ONE statement, the call a(b). *)
Theorem C06_round_trip_without_semicolons_refuted :
  exists src toks p,
    tokenize src = Some toks /\ strings_stable toks = true /\ literals_trim_safe toks = true /\
    m_program p toks = true /\ wf_program p = true /\
    exists r, reparse (cfg_pretty [32; 32]%N false false) p = Some r /\ pr_errors r = [] /\
              shape_program (pr_program r) <> shape_program p.
Proof. exact kf1_pretty_no_semis_refuted. Qed.
Print Assumptions C06_round_trip_without_semicolons_refuted.

(* KF2: with semicolons off  if(a)b;else c  is printed as  if (a) b else c , a syntax error *)
Theorem C06_else_without_semicolons_refuted :
  exists src toks p,
    tokenize src = Some toks /\ strings_stable toks = true /\ literals_trim_safe toks = true /\
    m_program p toks = true /\ wf_program p = true /\
    exists r, reparse (cfg_pretty [32; 32]%N false false) p = Some r /\ pr_errors r <> [].
Proof. exact kf2_pretty_no_semis_refuted. Qed.
Print Assumptions C06_else_without_semicolons_refuted.

(* KF3: the hypothesis [literals_trim_safe] is necessary.  Witness  x=`a <LF>b`;  : the pretty
   output lexes to the same token types but the backtick literal has lost a blank. *)
Theorem C06_trim_inside_literal_refuted :
  exists src toks p code toks',
    tokenize src = Some toks /\ strings_stable toks = true /\ literals_trim_safe toks = false /\
    m_program p toks = true /\ wf_program p = true /\
    code = r_code (compile (cfg_pretty [32; 32]%N true false) p) /\
    tokenize code = Some toks' /\ map t_type toks' = map t_type toks /\ map t_lit toks' <> map t_lit toks.
Proof. exact kf3_pretty_trims_literal_refuted. Qed.
Print Assumptions C06_trim_inside_literal_refuted.
