(* C08 -- Source map segments link identical lexemes (writer-level clauses).  Property theorems only. *)
Require Import Base Token Tree SourceMap Writer Compile WriterSpec WriterProofs.
Require Import Gen.Printer.

(* every byte that reaches the buffer advanced the mapper identically: after any
   history of writer operations the mapper stands at the line/column of the end of
   the buffer (pending whitespace and comments included) *)
Theorem C08_writer_position : forall cfg ops,
  w_map cfg = true -> no_cr (w_indent cfg) -> Forall no_cr_op ops ->
  let st := run_wops cfg ops in
  mkpos (sm_line (w_mapper st)) (sm_col (w_mapper st)) = pos_after (mkpos 0 0) (w_buf st).
Proof. exact writer_position. Qed.
Print Assumptions C08_writer_position.

(* a mapping is recorded at the position where the next text will start: after the
   pending whitespace has been written *)
Theorem C08_mapping_at_token_start : forall cfg ops p,
  w_map cfg = true -> no_cr (w_indent cfg) -> Forall no_cr_op ops ->
  w_panic (run_wops cfg ops) = false ->
  let st := run_wops cfg (ops ++ [WMapping p]) in
  w_pend st = [] /\
  exists m, sm_maps (w_mapper st) = sm_maps (w_mapper (run_wops cfg ops)) ++ [m] /\
            gen_pos m = pos_after (mkpos 0 0) (w_buf st) /\
            m_sl m = pline p /\ m_sc m = pcol p /\ m_has m = false.
Proof. exact mapping_at_token_start. Qed.
Print Assumptions C08_mapping_at_token_start.

(* segments are ordered by generated position *)
Theorem C08_sorted : forall cfg ops,
  w_map cfg = true -> no_cr (w_indent cfg) -> Forall no_cr_op ops ->
  sorted_pos (map gen_pos (sm_maps (w_mapper (run_wops cfg ops)))).
Proof. exact mappings_sorted. Qed.
Print Assumptions C08_sorted.
