(* C08 -- Source map segments link identical lexemes (writer-level and segment-level clauses).  Property theorems only. *)
Require Import Base Token Lexer Tree SourceMap Writer Compile Parser Grammar WriterSpec TokenSpec SegSpec WriterProofs SegProofs.
Require Import Gen.Tables Gen.Printer.

(* every byte that reaches the buffer advanced the mapper identically: after any
   history of writer operations the mapper stands at the line/column of the end of
   the buffer (pending whitespace and comments included) *)
Theorem C08_writer_position : forall cfg ops,
  w_map cfg = true -> no_cr (w_indent cfg) -> Forall no_cr_op ops ->
  let st := run_wops cfg ops in
  mkpos (sm_line (w_mapper st)) (sm_col (w_mapper st)) = pos_after (mkpos 0 0) (w_buf st).
Proof. exact writer_position. Qed.
Print Assumptions C08_writer_position.

(* a mapping is recorded at the position where the next text will start: after the
   pending whitespace has been written *)
Theorem C08_mapping_at_token_start : forall cfg ops p,
  w_map cfg = true -> no_cr (w_indent cfg) -> Forall no_cr_op ops ->
  w_panic (run_wops cfg ops) = false ->
  let st := run_wops cfg (ops ++ [WMapping p]) in
  w_pend st = [] /\
  exists m, sm_maps (w_mapper st) = sm_maps (w_mapper (run_wops cfg ops)) ++ [m] /\
            gen_pos m = pos_after (mkpos 0 0) (w_buf st) /\
            m_sl m = pline p /\ m_sc m = pcol p /\ m_has m = false.
Proof. exact mapping_at_token_start. Qed.
Print Assumptions C08_mapping_at_token_start.

(* segments are ordered by generated position *)
Theorem C08_sorted : forall cfg ops,
  w_map cfg = true -> no_cr (w_indent cfg) -> Forall no_cr_op ops ->
  sorted_pos (map gen_pos (sm_maps (w_mapper (run_wops cfg ops)))).
Proof. exact mappings_sorted. Qed.
Print Assumptions C08_sorted.

(* for every program of the grammar lexed from a CR-free source text, in every configuration
   whose post-processing leaves the buffer as written (always the case for compact output):
   each recorded segment (C09: exactly what the "mappings" string decodes to) points from a
   generated position where the code spells the text of a token to the source position where
   that very token starts; a named segment carries the identifier's spelling *)
Theorem C08_segments_link_lexemes : forall cfg src toks p,
  tokenize src = Some toks -> ~ In CR src ->
  m_program p toks = true -> wf_program p = true ->
  w_map cfg = true -> no_cr (w_indent cfg) ->
  r_code (compile cfg p) = w_buf (run_wops cfg (write_program p)) ->
  segments_link cfg p toks = true.
Proof. exact segments_link_lexemes. Qed.
Print Assumptions C08_segments_link_lexemes.

Theorem C08_segments_link_lexemes_compact : forall src toks p,
  tokenize src = Some toks -> ~ In CR src ->
  m_program p toks = true -> wf_program p = true ->
  segments_link (cfg_compact true) p toks = true.
Proof. exact segments_link_lexemes_compact. Qed.
Print Assumptions C08_segments_link_lexemes_compact.

(* every identifier occurrence of the source is covered by a named segment, in every configuration *)
Theorem C08_identifiers_covered : forall cfg src toks p,
  tokenize src = Some toks ->
  m_program p toks = true -> wf_program p = true -> w_map cfg = true ->
  idents_covered cfg p toks = true.
Proof. exact identifiers_covered. Qed.
Print Assumptions C08_identifiers_covered.
