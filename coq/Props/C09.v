(* C09 -- Mapping encoding conforms to Source Map v3.
   Property theorems only; every proof is [exact] of a lemma proved elsewhere. *)
Require Import Base VLQ VLQProofs SourceMap SourceMapProofs.

(* Base64-VLQ codec: for every integer in the domain where Go's int64 arithmetic
   does not wrap (|n| < 2^62), and whatever follows the encoding (prefix-freeness:
   segments can be concatenated without separators). *)
Theorem C09_vlq_roundtrip : forall n rest,
  vlq_guard n = true -> decode_vlq (encode_vlq n ++ rest) = Some (n, rest).
Proof. exact vlq_roundtrip. Qed.
Print Assumptions C09_vlq_roundtrip.

Theorem C09_vlq_alphabet : forall n, Forall base64_char (encode_vlq n).
Proof. exact vlq_alphabet. Qed.
Print Assumptions C09_vlq_alphabet.

(* Any history of mapper operations: version 3 and the mappings string decodes, with
   the independent decoder [decode_mappings], to exactly the recorded absolute mappings. *)
Theorem C09_mappings_roundtrip : forall ops,
  let m := run_mapper ops in
  guards_ok enc_init (sm_maps m) ->
  smv_version (mapper_source_map m) = 3 /\
  decode_mappings (smv_mappings (mapper_source_map m)) = Some (map absolute (sm_maps m)).
Proof. exact mappings_roundtrip. Qed.
Print Assumptions C09_mappings_roundtrip.

(* the guard hypothesis is met whenever every recorded field is below 2^61 in magnitude *)
Theorem C09_guards_of_small : forall ms st,
  enc_small st -> Forall mapping_small ms -> guards_ok st ms.
Proof. intros ms st. exact (small_guards ms st). Qed.
Print Assumptions C09_guards_of_small.

(* recorded segments are never disturbed by later operations *)
Theorem C09_recorded_append_only : forall ops o, exists tl,
  sm_maps (run_mapper (ops ++ [o])) = sm_maps (run_mapper ops) ++ tl.
Proof. exact maps_append_only. Qed.
Print Assumptions C09_recorded_append_only.

(* position tracking: CR LF, CR and LF each count as one line break *)
Theorem C09_positions : forall s l c,
  advance_str s false l c =
  (l + breaks s, if breaks s =? 0 then c + Z.of_nat (length s) else tail_len s 0).
Proof. exact advance_string_spec. Qed.
Print Assumptions C09_positions.

(* names: no duplicates, first-seen order, stable indices *)
Theorem C09_names_nodup : forall ops, NoDup (sm_names (run_mapper ops)).
Proof. exact names_nodup. Qed.
Print Assumptions C09_names_nodup.

Theorem C09_names_first_seen : forall ops,
  sm_names (run_mapper ops) = dedup_from [] (names_of ops).
Proof. exact names_first_seen. Qed.
Print Assumptions C09_names_first_seen.

Theorem C09_named_index : forall ops1 sl sc name ops2,
  let m1 := run_mapper ops1 in
  let m := run_mapper (ops1 ++ MAddNamed sl sc name :: ops2) in
  exists mp, sm_maps (mapper_step m1 (MAddNamed sl sc name)) = sm_maps m1 ++ [mp] /\
             m_has mp = true /\ m_sl mp = sl /\ m_sc mp = sc /\ 0 <= m_ni mp /\
             nth_error (sm_names m) (Z.to_nat (m_ni mp)) = Some name.
Proof. exact named_index_points. Qed.
Print Assumptions C09_named_index.

(* non-vacuity: a concrete history with decreasing source positions, a name used twice,
   several lines and a CR LF, meets the guard and round-trips *)
Definition c09_example_ops : list mop :=
  [MAddNamed 3 7 [102;111;111]%N; MAdvanceColumn 3; MAddMapping 0 0;
   MAdvanceString [40;13;10;41]%N; MAddNamed 2 1 [98]%N; MAdvanceLine; MAdvanceLine;
   MAddNamed 1 100 [102;111;111]%N; MAdvanceColumn (-2); MAddMapping 1 0].

Example C09_example_guard : guards_ok enc_init (sm_maps (run_mapper c09_example_ops)).
Proof. vm_compute. repeat split; reflexivity. Qed.

Example C09_example_decodes :
  decode_mappings (smv_mappings (mapper_source_map (run_mapper c09_example_ops)))
  = Some (map absolute (sm_maps (run_mapper c09_example_ops)))
  /\ length (sm_maps (run_mapper c09_example_ops)) = 5%nat.
Proof. vm_compute. split; reflexivity. Qed.
