(* C13 -- Parser modes differ only where documented.  Property theorems only. *)
Require Import Base Token Tree Parser ParserSpec Grammar GrammarModes ModeProofs GrammarModesProofs.
Require Import Gen.Tables.

(* whatever strict mode accepts, tolerant mode parses to the identical tree, no errors *)
Theorem C13_tolerant_conservative : forall cfg toks r,
  c_tolerant cfg = false -> parse_tokens cfg toks = Some r -> pr_errors r = [] ->
  exists r', parse_tokens (set_tolerant cfg true) toks = Some r' /\
             pr_program r' = pr_program r /\ pr_errors r' = [].
Proof. exact tolerant_conservative. Qed.
Print Assumptions C13_tolerant_conservative.

(* tolerant mode never reports a missing separator or an unclosed block *)
Theorem C13_tolerant_no_separator_errors : forall cfg toks r,
  c_tolerant cfg = true -> parse_tokens cfg toks = Some r ->
  Forall (fun e => e_kind e <> EK_SEMICOLON /\ e_kind e <> EK_UNCLOSED) (pr_errors r).
Proof. exact tolerant_no_separator_errors. Qed.
Print Assumptions C13_tolerant_no_separator_errors.

(* smart semicolons change nothing unless a '(' or '[' starts a line *)
Theorem C13_smart_neutral : forall cfg toks,
  (forall t, In t toks -> t_nl t = true -> t_type t <> T_LPAREN /\ t_type t <> T_LBRACKET) ->
  parse_tokens (set_smart cfg true) toks = parse_tokens (set_smart cfg false) toks.
Proof. exact smart_neutral. Qed.
Print Assumptions C13_smart_neutral.

(* MODE GRAMMARS: what the two optional modes accept *)

(* the parser in the given modes, without interceptors or registered operators *)
Definition cfg_modes (smart tolerant : bool) : pcfg := mkpcfg tolerant smart [] [] [] [] [].

(* COMPLETENESS of the parser in every mode combination w.r.t. the mode grammar of
   GrammarModes.v: smart semicolons = a '(' or '[' at the start of a line does not continue an
   expression and a statement may end in front of it exactly as if a ';' preceded it;
   tolerant = two statements on one line without separator and blocks left open at the end
   of the input are accepted; every complete statement is kept: the parser returns exactly
   the grammar's tree, every statement of it, without error. *)
Theorem C13_modes_complete : forall smart tolerant p toks,
  m_programM smart tolerant p toks = true -> wf_program p = true ->
  exists r, parse_tokens (cfg_modes smart tolerant) toks = Some r /\
            pr_program r = p /\ pr_errors r = [] /\ pr_err_returned r = false.
Proof. exact modes_complete. Qed.
Print Assumptions C13_modes_complete.

(* with both modes off the mode grammar is the grammar of C02 *)
Theorem C13_modes_off : forall p toks, m_programM false false p toks = m_program p toks.
Proof. exact modes_off. Qed.
Print Assumptions C13_modes_off.

(* the modes only add programs: every program of the strict grammar is a program of the
   tolerant grammar with the same tree (smart on or off) *)
Theorem C13_tolerant_contains_strict : forall smart p toks,
  m_programM smart false p toks = true -> m_programM smart true p toks = true.
Proof. exact tolerant_contains_strict. Qed.
Print Assumptions C13_tolerant_contains_strict.
