(* C13 -- Parser modes differ only where documented.  Property theorems only. *)
Require Import Base Token Tree Parser ParserSpec ModeProofs.
Require Import Gen.Tables.

(* whatever strict mode accepts, tolerant mode parses to the identical tree, no errors *)
Theorem C13_tolerant_conservative : forall cfg toks r,
  c_tolerant cfg = false -> parse_tokens cfg toks = Some r -> pr_errors r = [] ->
  exists r', parse_tokens (set_tolerant cfg true) toks = Some r' /\
             pr_program r' = pr_program r /\ pr_errors r' = [].
Proof. exact tolerant_conservative. Qed.
Print Assumptions C13_tolerant_conservative.

(* tolerant mode never reports a missing separator or an unclosed block *)
Theorem C13_tolerant_no_separator_errors : forall cfg toks r,
  c_tolerant cfg = true -> parse_tokens cfg toks = Some r ->
  Forall (fun e => e_kind e <> EK_SEMICOLON /\ e_kind e <> EK_UNCLOSED) (pr_errors r).
Proof. exact tolerant_no_separator_errors. Qed.
Print Assumptions C13_tolerant_no_separator_errors.

(* smart semicolons change nothing unless a '(' or '[' starts a line *)
Theorem C13_smart_neutral : forall cfg toks,
  (forall t, In t toks -> t_nl t = true -> t_type t <> T_LPAREN /\ t_type t <> T_LBRACKET) ->
  parse_tokens (set_smart cfg true) toks = parse_tokens (set_smart cfg false) toks.
Proof. exact smart_neutral. Qed.
Print Assumptions C13_smart_neutral.
