(* C16 -- Parsing-context queries reflect the real nesting.  Property theorems only. *)
Require Import Base Token Tree Parser ParserSpec ParserProofs.
Require Import Gen.Tables.

(* every parse step leaves the context stack exactly as it found it, on every input *)
Theorem C16_balanced_stmt : forall cfg fuel s r s',
  stmt_fn cfg fuel s = Some (r, s') -> ps_ctx s' = ps_ctx s.
Proof. exact stmt_fn_ctx_balanced. Qed.
Print Assumptions C16_balanced_stmt.

Theorem C16_balanced_expr : forall cfg fuel prec s r s',
  expr_fn cfg fuel prec s = Some (r, s') -> ps_ctx s' = ps_ctx s.
Proof. exact expr_fn_ctx_balanced. Qed.
Print Assumptions C16_balanced_expr.

(* after parsing any token list, valid or malformed, in any mode and with any
   interceptors, the context is back at top level *)
Theorem C16_final_top : forall cfg toks r,
  parse_tokens cfg toks = Some r ->
  ps_ctx (pr_final r) = [P_GlobalContext] /\
  current_context (pr_final r) = P_GlobalContext /\ is_in_function (pr_final r) = false.
Proof. exact parse_final_ctx. Qed.
Print Assumptions C16_final_top.
