(* C16 -- Parsing-context queries reflect the real nesting.  Property theorems only. *)
Require Import Base Token Lexer Tree Parser ParserSpec Grammar NestSpec ParserProofs NestProofs RefutedCtx.
Require Import Gen.Tables.

(* every parse step leaves the context stack exactly as it found it, on every input *)
Theorem C16_balanced_stmt : forall cfg fuel s r s',
  stmt_fn cfg fuel s = Some (r, s') -> ps_ctx s' = ps_ctx s.
Proof. exact stmt_fn_ctx_balanced. Qed.
Print Assumptions C16_balanced_stmt.

Theorem C16_balanced_expr : forall cfg fuel prec s r s',
  expr_fn cfg fuel prec s = Some (r, s') -> ps_ctx s' = ps_ctx s.
Proof. exact expr_fn_ctx_balanced. Qed.
Print Assumptions C16_balanced_expr.

(* after parsing any token list, valid or malformed, in any mode and with any
   interceptors, the context is back at top level *)
Theorem C16_final_top : forall cfg toks r,
  parse_tokens cfg toks = Some r ->
  ps_ctx (pr_final r) = [P_GlobalContext] /\
  current_context (pr_final r) = P_GlobalContext /\ is_in_function (pr_final r) = false.
Proof. exact parse_final_ctx. Qed.
Print Assumptions C16_final_top.

(* NESTING: the answers at every interceptor invocation equal the syntactic nesting of the
   current token *)

(* for every program of the grammar, any lists of statement / expression interceptors of the
   modelled kinds (pass-through, probe, re-entrant): every logged probe event carries the
   answers that NestSpec.nest_program assigns to its current token: IsInFunction = the token
   is inside a function body, CurrentContext = Global outside every brace block, Block
   inside one (the code never answers Function at a statement or expression step: KF8) *)
Theorem C16_reflects_nesting : forall toks p sis eis r,
  NoDup toks -> m_program p toks = true -> wf_program p = true ->
  parse_tokens (cfg_with sis eis) toks = Some r ->
  pr_program r = p /\ nesting_reflected p (ps_log (pr_final r)) = true.
Proof. exact nesting_is_reflected. Qed.
Print Assumptions C16_reflects_nesting.

(* token lists produced by the lexer have no repeated token *)
Theorem C16_lexed_tokens_distinct : forall src toks, tokenize src = Some toks -> NoDup toks.
Proof. exact lexed_tokens_nodup. Qed.
Print Assumptions C16_lexed_tokens_distinct.

(* REFUTED CLAUSE (recorded finding KF8 as a theorem; witness evaluated by the kernel): the
   property expects CurrentContext = Function for a token directly inside a function body.
   Witness  function f(){let x=1}  with one probe: at `let` the answers are IsInFunction =
   true and CurrentContext = Block. *)
Theorem C16_function_body_is_block_refuted :
  exists src toks p r ev,
    tokenize src = Some toks /\ m_program p toks = true /\ wf_program p = true /\
    parse_tokens (cfg_with [SI_Probe 7] []) toks = Some r /\ pr_program r = p /\
    In ev (ps_log (pr_final r)) /\ t_type (ev_tok ev) = T_LET /\
    ev_infn ev = true /\ ev_ctx ev = P_BlockContext /\ ev_ctx ev <> P_FunctionContext.
Proof. exact kf8_function_body_context_refuted. Qed.
Print Assumptions C16_function_body_is_block_refuted.
