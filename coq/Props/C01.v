(* C01 -- Transpilation preserves program behaviour (token-preservation clause).
   Property theorems only. *)
Require Import Base Token Lexer Tree Writer Compile Parser Grammar WriterSpec CommentSpec RelexSpec TokenSpec TokenProofs C01Proofs RoundTripProofs.
Require Import Gen.Tables Gen.Printer.

(* every program of the grammar (its tokens matched by the tree, the tree respecting the
   ECMAScript levels), whose keyword / operator / punctuation tokens are spelled as the
   lexer spells them, is printed as exactly its own tokens, in source order: nothing is
   dropped, added (except statement terminators), reordered or respelled (except the
   quotes of string literals) *)
Theorem C01_tokens_preserved : forall p toks,
  m_program p toks = true -> wf_program p = true -> forallb tok_canonical toks = true ->
  token_preserving p toks = true.
Proof. exact token_text_preserved. Qed.
Print Assumptions C01_tokens_preserved.

(* the lexer spells every keyword / operator / punctuation token canonically *)
Theorem C01_lexer_canonical : forall src toks,
  tokenize src = Some toks -> forallb tok_canonical toks = true.
Proof. exact lex_canonical. Qed.
Print Assumptions C01_lexer_canonical.

(* In EVERY configuration (compact or pretty, any blank indent unit, with or without
   semicolons, with or without source map) the code of a program of the grammar, with the
   layout bytes (blanks, tabs, line breaks, ';') removed, is byte for byte the source's
   token texts in source order: compiling never panics, drops, adds, reorders or respells
   a token.  Pretty configurations additionally write the comments (C15); the statement
   covers them for comment-free trees, compact configurations for all trees. *)
Theorem C01_code_tokens : forall cfg p toks,
  m_program p toks = true -> wf_program p = true -> forallb tok_canonical toks = true ->
  blank_str (w_indent cfg) ->
  (w_pretty cfg = false \/ tmap_program erase_comments p = p) ->
  r_panic (compile cfg p) = false /\
  nolayout (r_code (compile cfg p)) = nolayout (toks_text toks).
Proof. exact code_tokens_preserved. Qed.
Print Assumptions C01_code_tokens.

(* end to end from the source text: lexing, parsing (C02: exactly the ECMAScript tree of
   the token sequence, without error) and printing *)
Theorem C01_source_to_code : forall src toks p cfg,
  tokenize src = Some toks -> m_program p toks = true -> wf_program p = true ->
  blank_str (w_indent cfg) -> (w_pretty cfg = false \/ tmap_program erase_comments p = p) ->
  (exists r, parse_tokens cfg_default toks = Some r /\ pr_program r = p /\ pr_errors r = []) /\
  r_panic (compile cfg p) = false /\
  nolayout (r_code (compile cfg p)) = nolayout (toks_text toks).
Proof. exact source_to_code. Qed.
Print Assumptions C01_source_to_code.

(* ROUND TRIP: the compact output of every program of the grammar lexed from a source text
   lexes and parses back, without error, to the tree it was printed from (positions,
   after-newline flags and comments aside): the JavaScript text that is emitted is a
   spelling of the same tree.  [strings_stable] (RelexSpec.v): every string-literal token
   re-scans to itself once written between double quotes; it fails only for literals that
   are not valid JavaScript (an incomplete \x / \u escape directly followed by text that
   completes it after decoding, e.g. "\x\x41": scanned as \xA, re-scanned as \x). *)
Theorem C01_compact_round_trip : forall src toks p,
  tokenize src = Some toks -> strings_stable toks = true ->
  m_program p toks = true -> wf_program p = true ->
  exists r, reparse_compact p = Some r /\ pr_errors r = [] /\
            shape_program (pr_program r) = shape_program p.
Proof. exact program_round_trip_compact. Qed.
Print Assumptions C01_compact_round_trip.
