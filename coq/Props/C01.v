(* C01 -- Transpilation preserves program behaviour (token-preservation clause).
   Property theorems only. *)
Require Import Base Token Tree Writer Compile Parser Grammar TokenSpec TokenProofs.
Require Import Gen.Tables Gen.Printer.

(* every program of the grammar (its tokens matched by the tree, the tree respecting the
   ECMAScript levels), whose keyword / operator / punctuation tokens are spelled as the
   lexer spells them, is printed as exactly its own tokens, in source order: nothing is
   dropped, added (except statement terminators), reordered or respelled (except the
   quotes of string literals) *)
Theorem C01_tokens_preserved : forall p toks,
  m_program p toks = true -> wf_program p = true -> forallb tok_canonical toks = true ->
  token_preserving p toks = true.
Proof. exact token_text_preserved. Qed.
Print Assumptions C01_tokens_preserved.
