(* C04 -- Plugin interception is transparent, ordered and re-entrant.  Property theorems only. *)
Require Import Base Token Lexer Tree Parser Registry ParserSpec InterceptProofs.
Require Import Gen.Tables.

(* Any number of pass-through, probing and re-entrant statement / expression
   interceptors, in any order: same tree, same errors, same error flag, same final
   context and token window as the parser without interceptors. *)
Theorem C04_transparent : forall cfg toks,
  option_map core_of_result (parse_tokens cfg toks)
  = option_map core_of_result (parse_tokens (strip_ics cfg) toks).
Proof. exact interceptors_transparent. Qed.
Print Assumptions C04_transparent.

(* token interceptors that do not rewrite tokens leave the token stream alone *)
Theorem C04_tokens_transparent : forall tics t,
  forallb (fun ic => negb (is_retag ic)) tics = true -> apply_tok_ics tics t = t.
Proof. exact tok_ics_transparent. Qed.
Print Assumptions C04_tokens_transparent.

(* one statement step = the probes in installation order, each seeing the first token
   of the construct and the context at that point, then the base parser *)
Theorem C04_order_stmt : forall cfg f s,
  stmt_fn cfg (S f) s =
  base_parse_statement cfg (stmt_fn cfg f) (expr_fn cfg f) f
    (with_log s (map (fun id => mkev id 0 (ps_cur s) (current_context s) (is_in_function s))
                     (stmt_probe_ids (c_stmt_ics cfg)))).
Proof. exact stmt_chain_order. Qed.
Print Assumptions C04_order_stmt.

(* every expression step restores the binding power register, whatever the interceptors *)
Theorem C04_cep_restored : forall cfg fuel prec s r s',
  expr_fn cfg fuel prec s = Some (r, s') -> ps_cep s' = ps_cep s.
Proof. exact expr_fn_cep_balanced. Qed.
Print Assumptions C04_cep_restored.

(* the token interceptor chain is entered with the lexer on the first byte of the lexeme *)
Theorem C04_token_position : forall l,
  let l1 := read_leading_comments l in
  t_start (fst (base_next_token l1)) = cur_pos l1.
Proof. exact base_token_starts_at_cursor. Qed.
Print Assumptions C04_token_position.
