(* C11 -- Parsing is total and its result obeys the error contract.  Property theorems only. *)
Require Import Base Token Tree Writer Compile Parser ParserSpec TotalProofs ContractProofs.
Require Import Gen.Tables.

(* the linear fuel is never exhausted: parsing terminates on every token list that
   ends with the end-of-input token, in every mode, with any interceptors/operators *)
Theorem C11_total : forall cfg toks,
  ops_sane cfg -> t_type (last toks zero_token) = T_EOF -> exists r, parse_tokens cfg toks = Some r.
Proof. exact parse_total. Qed.
Print Assumptions C11_total.

Theorem C11_error_iff : forall cfg toks r, parse_tokens cfg toks = Some r ->
  pr_err_returned r = negb (match pr_errors r with [] => true | _ => false end).
Proof. exact parse_error_iff. Qed.
Print Assumptions C11_error_iff.

Theorem C11_no_nil_statements : forall cfg toks r, parse_tokens cfg toks = Some r ->
  lists_ok_program (pr_program r).
Proof. exact parse_lists_ok. Qed.
Print Assumptions C11_no_nil_statements.

Theorem C11_error_ranges : forall cfg toks r, parse_tokens cfg toks = Some r ->
  Forall (fun e => exists t, visible_token toks t /\ e_start e = t_start t /\ e_end e = t_end t)
         (pr_errors r).
Proof. exact parse_error_ranges. Qed.
Print Assumptions C11_error_ranges.

(* no error => every mandatory child is there: compiling never dereferences nil,
   in any configuration *)
Theorem C11_clean_compiles : forall cfg toks r, parse_tokens cfg toks = Some r ->
  pr_errors r = [] -> forall wc, r_panic (compile wc (pr_program r)) = false.
Proof. exact parse_clean_compiles. Qed.
Print Assumptions C11_clean_compiles.
