(* C10 -- Lexing is total and tokens tile the source with exact positions.
   Property theorems only. *)
Require Import Base Token Lexer LexSpec LexerProofs.
Require Import Gen.Tables.

(* tokenization terminates for every byte string (the fuel S(length src) is never
   exhausted), ends with the first end-of-input token, and the instrumented run
   yields the same tokens *)
Theorem C10_total : forall src, exists ss,
  spans src = Some ss /\ tokenize src = Some (map sp_tok ss) /\
  ss <> [] /\ t_type (sp_tok (last ss (mkspan [] [] (mktoken 0 [] (mkpos 0 0) (mkpos 0 0) false []))))
               = T_EOF /\
  Forall (fun s => t_type (sp_tok s) <> T_EOF) (removelast ss).
Proof. exact lex_total. Qed.
Print Assumptions C10_total.

(* gaps and lexemes tile the source: nothing skipped, nothing consumed twice; every
   gap is whitespace and // comments only; every token but EOF consumes >= 1 byte *)
Theorem C10_tiling : forall src ss, spans src = Some ss ->
  spans_text ss = src /\
  Forall (fun s => is_trivia (sp_gap s) = true) ss /\
  Forall (fun s => t_type (sp_tok s) <> T_EOF -> sp_lexeme s <> []) ss.
Proof. exact lex_tiling. Qed.
Print Assumptions C10_tiling.

(* start = line/column of the first byte; end on or immediately after the last byte *)
Theorem C10_positions : forall src ss, spans src = Some ss ->
  forall_spans (fun before s =>
    token_positions_ok src (lexeme_start before s) (lexeme_end before s) (sp_tok s)) [] ss.
Proof. exact lex_positions. Qed.
Print Assumptions C10_positions.

(* identifiers, keywords and numbers carry exactly their source slice; keyword
   classification is the keyword table *)
Theorem C10_slices : forall src ss, spans src = Some ss ->
  Forall (fun s => is_word_type (t_type (sp_tok s)) = true ->
                   t_lit (sp_tok s) = sp_lexeme s) ss /\
  Forall (fun s => forall c r, sp_lexeme s = c :: r -> Gen.Preds.isLetter c = true ->
                   t_type (sp_tok s) = lookup_ident token_keywords (sp_lexeme s)) ss.
Proof. exact lex_slices. Qed.
Print Assumptions C10_slices.

(* the after-newline flag is set exactly when the gap contains a line feed *)
Theorem C10_after_newline : forall src ss, spans src = Some ss ->
  Forall (fun s => t_nl (sp_tok s) = has_lf (sp_gap s)) ss.
Proof. exact lex_after_newline. Qed.
Print Assumptions C10_after_newline.

(* end of input is a fixed point: the same EOF token however often it is requested *)
Theorem C10_eof_stable : forall l, at_eof l = true ->
  let '(t, l') := next_token l in
  t = mktoken T_EOF [] (cur_pos l) (cur_pos l) false [] /\
  at_eof l' = true /\ cur_pos l' = cur_pos l /\ next_token l' = (t, l').
Proof. exact lex_eof_stable. Qed.
Print Assumptions C10_eof_stable.

(* and that fixed point is reached at the end of the source *)
Theorem C10_eof_position : forall src ss, spans src = Some ss ->
  t_start (sp_tok (last ss (mkspan [] [] (mktoken 0 [] (mkpos 0 0) (mkpos 0 0) false []))))
  = pos_of_offset src (length src).
Proof. exact lex_eof_position. Qed.
Print Assumptions C10_eof_position.
