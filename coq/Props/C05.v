(* C05 -- Custom operators and token types integrate consistently.  Property theorems only. *)
Require Import Base Token Tree Parser Registry ParserSpec RegistryProofs RenameProofs ClimbSpec ClimbProofs ClimbSpec2 ClimbProofs2 ClimbSpec3 ClimbProofs3 ClimbProofs3b RefutedOps.
Require Import Gen.Tables.

(* token ids: one stable id per name, distinct across names, above every built-in type *)
Theorem C05_token_ids : forall names,
  let ids := fst (lb_run lbuilder_new names) in
  length ids = length names /\
  (forall i j, (i < length names)%nat -> (j < length names)%nat ->
     (nth i names [] = nth j names [] <-> nth i ids 0 = nth j ids 0)) /\
  Forall (fun id => T_DYNAMIC_TOKENS_START <= id /\ Forall (fun b => b < id) token_types) ids.
Proof. exact token_ids_ok. Qed.
Print Assumptions C05_token_ids.

(* a token that already has the role (built-in or registered earlier): refused, builder unchanged *)
Theorem C05_duplicate_refused : forall ops o,
  let b := snd (pb_run pbuilder_new ops) in
  (match o with
   | BRegPrefix ty => memZ ty (pb_prefix_set b) = true
   | BRegInfix ty _ => memZ ty (pb_infix_set b) = true
   | BRegPostfix ty => memZ ty (pb_postfix_set b) = true
   | _ => False end) ->
  pb_step b o = (true, b).
Proof. exact duplicate_refused. Qed.
Print Assumptions C05_duplicate_refused.

(* the role sets are exactly: the built-in handlers of that role plus what was registered *)
Theorem C05_role_sets : forall ops ty,
  let b := snd (pb_run pbuilder_new ops) in
  (memZ ty (pb_prefix_set b) = true <-> (assoc_opt prefix_table ty <> None \/ In ty (pb_prefix_ops b))) /\
  (memZ ty (pb_infix_set b) = true <-> (assoc_opt infix_table ty <> None \/ In ty (map fst (pb_infix_ops b)))) /\
  (memZ ty (pb_postfix_set b) = true <->
     (assoc_opt infix_table ty = Some IH_ParsePostfixExpression \/ In ty (pb_postfix_ops b))).
Proof. exact role_sets_ok. Qed.
Print Assumptions C05_role_sets.

(* a fresh registration succeeds and changes nothing but its own role *)
Theorem C05_register_effect : forall b ty prec,
  memZ ty (pb_infix_set b) = false ->
  exists b', pb_step b (BRegInfix ty prec) = (false, b') /\
    pb_infix_ops b' = pb_infix_ops b ++ [(ty, prec)] /\
    pb_prefix_ops b' = pb_prefix_ops b /\ pb_postfix_ops b' = pb_postfix_ops b /\
    pb_prefix_set b' = pb_prefix_set b /\ pb_postfix_set b' = pb_postfix_set b /\
    pb_tolerant b' = pb_tolerant b /\ pb_smart b' = pb_smart b /\
    pb_stmt_ics b' = pb_stmt_ics b /\ pb_expr_ics b' = pb_expr_ics b.
Proof. exact register_infix_effect. Qed.
Print Assumptions C05_register_effect.

(* An infix operator registered at the level of a built-in binary operator b groups
   exactly like b, relative to everything: parsing with the operator registered is
   parsing the text with the operator's tokens renamed to b, up to that renaming. *)
Theorem C05_infix_like_builtin : forall cfg ty b toks,
  fresh_type cfg ty -> In b plain_binary_builtins -> untouched cfg b ->
  option_map (fun r => (rename_program ty b (pr_program r), pr_errors r))
             (parse_tokens (add_infix cfg ty (precedence_of cfg b)) toks)
  = option_map (fun r => (pr_program r, pr_errors r))
               (parse_tokens cfg (map (rename_tok ty b) toks)).
Proof. exact infix_like_builtin. Qed.
Print Assumptions C05_infix_like_builtin.

(* a registered prefix operator binds exactly like the built-in unary '!' *)
Theorem C05_prefix_like_builtin : forall cfg ty toks,
  fresh_type cfg ty -> untouched cfg T_NOT ->
  option_map (fun r => (rename_program ty T_NOT (pr_program r), pr_errors r))
             (parse_tokens (add_prefix cfg ty) toks)
  = option_map (fun r => (pr_program r, pr_errors r))
               (parse_tokens cfg (map (rename_tok ty T_NOT) toks)).
Proof. exact prefix_like_builtin. Qed.
Print Assumptions C05_prefix_like_builtin.

(* a registered postfix operator is a call-level suffix *)
Theorem C05_postfix_call_level : forall cfg ty,
  memZ ty (c_postfix_ops cfg) = true ->
  precedence_of cfg ty = P_CALL /\
  forall ex f left s,
    t_type (ps_peek s) = ty ->
    parse_infix_expression cfg ex f left s
    = Some (EPostfix (ps_cur (ps_next s)) left (t_lit (ps_cur (ps_next s))), ps_next s).
Proof. exact postfix_call_level. Qed.
Print Assumptions C05_postfix_call_level.

(* EVERY LEVEL (ClimbSpec.v): for every configuration - any registered infix operators at
   any levels above LOWEST, both modes, any interceptors - and every operator tree over
   identifiers and integer literals that mixes built-in binary operators and registered
   infix operators and is grouped like left-associative operators of their levels (left
   operand: level >= k, right operand: level > k), the parser returns exactly that tree
   for the tree's tokens and reports no error.  With C02_unambiguous-style uniqueness
   ([cgroup_unique]) the tree is the only well-grouped one with those tokens.
   [cfg_ok] (ClimbSpec.v): no prefix operator registered on IDENT / INT (the builder refuses
   it) and EOF does not continue the Pratt loop (implied by ops_sane); both are necessary:
   ClimbProofs.cfg_ok_needed_prefix, cfg_ok_needed_eof. *)
Theorem C05_groups_by_level : forall cfg c semi eof,
  cfg_ok cfg = true ->
  well_grouped cfg c = true -> semi_ok semi = true -> t_type eof = T_EOF ->
  exists r, parse_tokens cfg (cstmt_tokens c semi eof) = Some r /\
            p_stmts (pr_program r) = [SExpr (cexpr c)] /\
            pr_errors r = [] /\ pr_err_returned r = false.
Proof. exact groups_by_level. Qed.
Print Assumptions C05_groups_by_level.

Theorem C05_grouping_unique : forall cfg c1 c2,
  well_grouped cfg c1 = true -> well_grouped cfg c2 = true ->
  cyield c1 = cyield c2 -> c1 = c2.
Proof. exact cgroup_unique. Qed.
Print Assumptions C05_grouping_unique.

(* ... and [cfg_ok] holds for EVERY configuration a builder can produce, whatever the
   registration history (a prefix operator on IDENT / INT is refused and leaves the builder
   unchanged), provided no infix / postfix operator is registered on the end-of-input
   token (ClimbSpec-independent: [no_eof_op], ClimbProofs.v). *)
Theorem C05_cfg_ok_reachable : forall ops, Forall no_eof_op ops ->
  cfg_ok (pb_build (snd (pb_run pbuilder_new ops))) = true.
Proof. exact cfg_ok_reachable. Qed.
Print Assumptions C05_cfg_ok_reachable.

Theorem C05_groups_by_level_reachable : forall ops c semi eof,
  Forall (fun o => match o with BRegInfix ty _ | BRegPostfix ty => ty <> T_EOF | _ => True end) ops ->
  let cfg := pb_build (snd (pb_run pbuilder_new ops)) in
  well_grouped cfg c = true -> semi_ok semi = true -> t_type eof = T_EOF ->
  exists r, parse_tokens cfg (cstmt_tokens c semi eof) = Some r /\
            p_stmts (pr_program r) = [SExpr (cexpr c)] /\
            pr_errors r = [] /\ pr_err_returned r = false.
Proof. exact groups_by_level_reachable. Qed.
Print Assumptions C05_groups_by_level_reachable.

(* EVERY LEVEL, second part (ClimbSpec2.v): the same for trees that also contain prefix
   operators (built-in ! and -, registered ones), registered postfix operators and
   parenthesised subtrees: a prefix operator groups like the built-in unary operators
   (level 9: its operand takes every operator of a higher level), a registered postfix
   operator like a call-level suffix (level 11), relative to infix operators of EVERY level. *)
Theorem C05_groups_by_level_x : forall cfg c semi eof,
  cfg_ok_x cfg = true ->
  well_grouped_x cfg c = true -> semi_ok semi = true -> t_type eof = T_EOF ->
  exists r, parse_tokens cfg (xstmt_tokens c semi eof) = Some r /\
            p_stmts (pr_program r) = [SExpr (xexpr c)] /\
            pr_errors r = [] /\ pr_err_returned r = false.
Proof. exact groups_by_level_x. Qed.
Print Assumptions C05_groups_by_level_x.

Theorem C05_grouping_unique_x : forall cfg c1 c2,
  well_grouped_x cfg c1 = true -> well_grouped_x cfg c2 = true ->
  xyield c1 = xyield c2 -> c1 = c2.
Proof. exact xgroup_unique. Qed.
Print Assumptions C05_grouping_unique_x.

(* every configuration a builder produces from a registration history without an operator
   on the end-of-input token or the closing parenthesis satisfies cfg_ok_x *)
Theorem C05_cfg_ok_x_reachable : forall ops,
  Forall (fun o => match o with
                   | BRegInfix ty _ | BRegPostfix ty => ty <> T_EOF /\ ty <> T_RPAREN
                   | _ => True end) ops ->
  cfg_ok_x (pb_build (snd (pb_run pbuilder_new ops))) = true.
Proof. exact cfg_ok_x_reachable. Qed.
Print Assumptions C05_cfg_ok_x_reachable.

(* EVERY LEVEL, third part (ClimbSpec3.v): the built-in neighbours that are not binary
   operators - member access (12), index access (12), calls (11), built-in ++ / -- (10),
   assignment and compound assignment (2, right-associative) - next to infix operators of
   every level, prefix and postfix operators and groups. *)
Theorem C05_groups_by_level_y : forall cfg c semi eof,
  cfg_ok_y cfg = true ->
  well_grouped_y cfg c = true -> semi_ok semi = true -> t_type eof = T_EOF ->
  exists r, parse_tokens cfg (ystmt_tokens c semi eof) = Some r /\
            p_stmts (pr_program r) = [SExpr (yexpr c)] /\
            pr_errors r = [] /\ pr_err_returned r = false.
Proof. exact groups_by_level_y. Qed.
Print Assumptions C05_groups_by_level_y.

Theorem C05_cfg_ok_y_reachable : forall ops,
  Forall (fun o => match o with
                   | BRegInfix ty _ | BRegPostfix ty =>
                       ty <> T_EOF /\ ty <> T_RPAREN /\ ty <> T_RBRACKET /\ ty <> T_COMMA
                   | _ => True end) ops ->
  cfg_ok_y (pb_build (snd (pb_run pbuilder_new ops))) = true.
Proof. exact cfg_ok_y_reachable. Qed.
Print Assumptions C05_cfg_ok_y_reachable.

Theorem C05_grouping_unique_y : forall cfg c1 c2,
  well_grouped_y cfg c1 = true -> well_grouped_y cfg c2 = true ->
  yyield c1 = yyield c2 -> c1 = c2.
Proof. exact ygroup_unique. Qed.
Print Assumptions C05_grouping_unique_y.

(* REFUTED CLAUSE (recorded finding KF18 as a theorem; witness evaluated by the kernel): an
   infix operator registered at level 1 (= LOWEST, accepted by the builder) is never applied:
   a @ b  with @ (token type 1000) at level 1 gives errors and no binary node. *)
Theorem C05_level_one_never_binds_refuted :
  exists r, parse_tokens (mkpcfg false false [] [] [] [(1000, 1)] []) kf18_toks = Some r /\
            pr_errors r <> [] /\
            forallb (fun s => match s with SExpr e => negb (has_binary e) | _ => true end) (p_stmts (pr_program r)) = true.
Proof. exact kf18_level_one_never_binds_refuted. Qed.
Print Assumptions C05_level_one_never_binds_refuted.
