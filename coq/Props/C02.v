(* C02 -- The subset is parsed exactly as JavaScript parses it.  Property theorems only. *)
Require Import Base Token Tree Parser Grammar RelexSpec GrammarProofs LayoutProofs.
Require Import Gen.Tables.

(* Parser completeness w.r.t. the ECMAScript grammar of the subset (Grammar.v): whenever a
   token list is an unparsing of a tree that respects the ECMAScript levels, associativity,
   restricted productions and automatic-semicolon rules, the default parser returns exactly
   that tree - every stored token included - and reports no error.  The statement mentions
   tokens only through their type, literal and after-newline flag plus identity, so the
   tree is a function of the token sequence: whitespace and comments reach the parser only
   through the after-newline flag. *)
Theorem C02_parse_complete : forall p toks,
  m_program p toks = true -> wf_program p = true ->
  exists r, parse_tokens cfg_default toks = Some r /\
            pr_program r = p /\ pr_errors r = [] /\ pr_err_returned r = false.
Proof. exact parse_complete. Qed.
Print Assumptions C02_parse_complete.

(* the specification is unambiguous: a token list has at most one tree *)
Theorem C02_unambiguous : forall p1 p2 toks,
  m_program p1 toks = true -> wf_program p1 = true ->
  m_program p2 toks = true -> wf_program p2 = true -> p1 = p2.
Proof. exact grammar_unambiguous. Qed.
Print Assumptions C02_unambiguous.

(* LAYOUT: the tree is a function of the token sequence seen through type, literal and
   after-newline flag: positions, comments, blank lines never reach it. *)

(* what the parser can see of a token *)
Definition core (t : token) : Z * str * bool := (t_type t, t_lit t, t_nl t).

(* For EVERY input (valid or malformed), every mode, interceptors and registered operators:
   two token lists with the same cores - i.e. the same lexemes in any two layouts that put
   line breaks between the same tokens, with any comments - give trees of the same shape,
   the same error kinds in the same order and the same error flag. *)
Theorem C02_layout_independent : forall cfg toks1 toks2 r1,
  map core toks1 = map core toks2 ->
  parse_tokens cfg toks1 = Some r1 ->
  exists r2, parse_tokens cfg toks2 = Some r2 /\
             shape_program (pr_program r2) = shape_program (pr_program r1) /\
             map (fun e => (e_kind e, e_arg e)) (pr_errors r2) = map (fun e => (e_kind e, e_arg e)) (pr_errors r1) /\
             pr_err_returned r2 = pr_err_returned r1.
Proof. exact parse_layout_independent. Qed.
Print Assumptions C02_layout_independent.
