(* C02 -- The subset is parsed exactly as JavaScript parses it.  Property theorems only. *)
Require Import Base Token Tree Parser Grammar GrammarProofs.
Require Import Gen.Tables.

(* Parser completeness w.r.t. the ECMAScript grammar of the subset (Grammar.v): whenever a
   token list is an unparsing of a tree that respects the ECMAScript levels, associativity,
   restricted productions and automatic-semicolon rules, the default parser returns exactly
   that tree - every stored token included - and reports no error.  The statement mentions
   tokens only through their type, literal and after-newline flag plus identity, so the
   tree is a function of the token sequence: whitespace and comments reach the parser only
   through the after-newline flag. *)
Theorem C02_parse_complete : forall p toks,
  m_program p toks = true -> wf_program p = true ->
  exists r, parse_tokens cfg_default toks = Some r /\
            pr_program r = p /\ pr_errors r = [] /\ pr_err_returned r = false.
Proof. exact parse_complete. Qed.
Print Assumptions C02_parse_complete.

(* the specification is unambiguous: a token list has at most one tree *)
Theorem C02_unambiguous : forall p1 p2 toks,
  m_program p1 toks = true -> wf_program p1 = true ->
  m_program p2 toks = true -> wf_program p2 = true -> p1 = p2.
Proof. exact grammar_unambiguous. Qed.
Print Assumptions C02_unambiguous.
