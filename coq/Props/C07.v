(* C07 -- Literal values survive transpilation.  Property theorems only. *)
Require Import Base GoOps Token Lexer LexSpec Tree Writer PrinterLib StringValue RelexSpec StringProofs StableProofs.
Require Import Gen.Tables Gen.Preds Gen.Printer.

(* Every valid string literal body (either quote style; raw text incl. non-ASCII and the
   other quote; simple, \xHH, \uHHHH, \u{...} escapes; line continuations) denotes, once
   scanned and re-quoted with double quotes, exactly the UTF-16 string it denoted. *)
Theorem C07_string : forall d body rest line col had cs v,
  d = 34%N \/ d = 39%N -> SV d body = Some v ->
  let '(lit, terminated, l') := read_string d (mklx (d :: body ++ d :: rest) line col had cs) in
  terminated = true /\ l_rest l' = d :: rest /\ SV 34 lit = Some v.
Proof. exact string_value_preserved. Qed.
Print Assumptions C07_string.

(* a string literal node is printed as its scanned literal between double quotes *)
Theorem C07_string_printed : forall t,
  write_expr (EString t (t_lit t)) =
  [WComments (t_comments t); WMapping (t_start t); WRune 34; WString (t_lit t); WRune 34].
Proof. exact string_printed. Qed.
Print Assumptions C07_string_printed.

(* backtick strings: scanning and printing reproduce the body byte for byte *)
Theorem C07_backtick : forall body rest line col had cs,
  valid_raw_body body = true ->
  let '(lit, terminated, l') := read_raw_string (mklx (96%N :: body ++ 96%N :: rest) line col had cs) in
  terminated = true /\ l_rest l' = 96%N :: rest /\ replace_all lit [96%N] [92%N; 96%N] = body.
Proof. exact raw_body_preserved. Qed.
Print Assumptions C07_backtick.

(* the hand-written UTF-8 encoder (generated from lexer/helpers.go) is correct on every
   Unicode scalar value *)
Theorem C07_utf8 : forall cp rest,
  0 <= cp <= 1114111 -> is_surrogate cp = false ->
  utf8_decode1 (encodeUTF8 cp ++ rest) = Some (cp, rest).
Proof. exact utf8_roundtrip. Qed.
Print Assumptions C07_utf8.

(* numeric literals are printed verbatim: the token's literal (= its source slice, C10) *)
Theorem C07_number_printed : forall t,
  write_expr (EInt t) = [WComments (t_comments t); WMapping (t_start t); WString (t_lit t)] /\
  write_expr (EFloat t) = [WComments (t_comments t); WMapping (t_start t); WString (t_lit t)].
Proof. exact number_printed. Qed.
Print Assumptions C07_number_printed.

(* STABILITY under print + re-scan (the hypothesis of the round-trip theorems) *)

(* A string literal that is valid JavaScript -- its source text (the lexeme of its token,
   LexSpec.spans, see C10) is a quote, a body that denotes a string value (SV, the
   specification of ECMAScript string values used by C07), and the same quote again -- is
   scanned to a literal which, written between double quotes, scans back to itself: so
   [strings_stable] - the one hypothesis of the round-trip theorems C01_compact_round_trip
   and C06_pretty_round_trip - holds for every source all of whose string literals are valid.
   ([spans src] and [tokenize src] always succeed and list the same tokens: C10_total.)

   Validity must be asked of the SOURCE literal; validity of the scanned literal
   (SV 34 (t_lit t) <> None) is not enough.  Counterexample: the invalid literal
       "\x\x41\x42"      (bytes 34 92 120 92 120 52 49 92 120 52 50 34)
   is scanned to the literal \xAB (92 120 65 66): the incomplete escape \x is kept verbatim,
   \x41 and \x42 are decoded to A and B.  That literal is valid between double quotes
   (SV 34 = Some [171]), but "\xAB" is re-scanned to the UTF-8 bytes C2 AB, so
   relex_string (t_lit t) = false and strings_stable = false
   (StableProofs.literal_validity_is_not_enough; likewise "\u\x41BCD"). *)
Theorem C07_valid_strings_stable : forall src ss toks,
  spans src = Some ss -> tokenize src = Some toks ->
  (forall s, In s ss -> t_type (sp_tok s) = T_STRING ->
     exists d body, (d = 34%N \/ d = 39%N) /\ sp_lexeme s = d :: body ++ [d] /\ SV d body <> None) ->
  strings_stable toks = true.
Proof. exact valid_strings_stable. Qed.
Print Assumptions C07_valid_strings_stable.
