(* C15 -- The pretty printer keeps statement-level comments; compact output has none
   (writer / printer level clauses).  Property theorems only. *)
Require Import Base Token Lexer Tree SourceMap Writer Compile Parser Grammar WriterSpec CommentSpec RelexSpec WriterProofs CommentProofs TriviaProofs RefutedPretty.
Require Import Gen.Tables Gen.Printer.

(* compact output - code and source map - does not depend on comments at all: it is the
   compact output of the same tree with every token's trivia erased *)
Theorem C15_compact_none : forall m p,
  compile (cfg_compact m) p = compile (cfg_compact m) (tmap_program erase_comments p).
Proof. exact compact_ignores_comments. Qed.
Print Assumptions C15_compact_none.

(* the printer hands the trivia of every token it stores to the writer: erasing the
   trivia of the tree erases exactly the WComments arguments, nothing else changes in the
   operation list *)
Theorem C15_only_comment_ops_differ : forall p,
  write_program (tmap_program erase_comments p)
  = map (fun o => match o with WComments _ => WComments [] | _ => o end) (write_program p).
Proof. exact erase_changes_only_comment_ops. Qed.
Print Assumptions C15_only_comment_ops_differ.

(* a trivia list is written verbatim, once, at the current indentation, and leaves a
   pending line break + indentation for the token it precedes *)
Theorem C15_comments_verbatim : forall indent semis m st cs,
  w_panic st = false -> cs <> [] ->
  let cfg := cfg_pretty indent semis m in
  let st' := wstep cfg st (WComments cs) in
  w_buf st' = w_buf st ++ render_comments (indent_text cfg (w_level st)) true cs /\
  w_pend st' = [LF; TAB] /\ w_level st' = w_level st.
Proof. exact comments_written_verbatim. Qed.
Print Assumptions C15_comments_verbatim.

(* comment TEXT never influences what else is written: two trivia lists of the same shape
   (same length, blank-line markers at the same places) lead to buffers that differ only
   in the rendered comments *)
Theorem C15_content_inert : forall indent semis m st cs1 cs2,
  w_panic st = false ->
  map (fun c => match c with [] => true | _ => false end) cs1
  = map (fun c => match c with [] => true | _ => false end) cs2 ->
  let cfg := cfg_pretty indent semis m in
  let st1 := wstep cfg st (WComments cs1) in
  let st2 := wstep cfg st (WComments cs2) in
  w_pend st1 = w_pend st2 /\ w_level st1 = w_level st2 /\ w_panic st1 = w_panic st2 /\
  exists x1 x2, w_buf st1 = w_buf st ++ x1 /\ w_buf st2 = w_buf st ++ x2 /\
                (cs1 = [] -> x1 = [] /\ x2 = []).
Proof. exact comment_content_inert. Qed.
Print Assumptions C15_content_inert.

(* POSITION: comments are still in front of the same statement after re-lexing the output *)

(* C15: for every program of the grammar lexed from a source text and every pretty
   configuration that writes semicolons: lexing and parsing the formatted output gives a
   tree whose trivia lists at the statement boundaries - in front of every statement of every
   statement list at any depth, in front of every closing brace of a block, in front of the
   end of input - are those of the source, item by item (comment texts verbatim, blank
   lines, in order), up to [norm_boundaries]: a statement that shared a line with its
   predecessor now starts a line of its own, blank lines at the very start and end of the
   input are trimmed.  So every comment is still in front of the same statement / brace /
   end, exactly once, in source order, and blank-line separation is kept. *)
Theorem C15_comments_stay_in_place : forall src toks p indent m,
  tokenize src = Some toks -> strings_stable toks = true -> literals_trim_safe toks = true ->
  m_program p toks = true -> wf_program p = true -> blank_str indent ->
  exists r, reparse (cfg_pretty indent true m) p = Some r /\
            norm_boundaries (boundary_trivia (pr_program r)) = norm_boundaries (boundary_trivia p).
Proof. exact boundary_trivia_preserved. Qed.
Print Assumptions C15_comments_stay_in_place.

(* REFUTED CLAUSE (recorded finding KF5 as a theorem; witness evaluated by the kernel): a
   comment without text is not kept.  Witness  x<LF>// <LF>y  : the source contains a '/',
   the formatted output of its tree contains none. *)
Theorem C15_comment_without_text_refuted :
  exists src toks p,
    tokenize src = Some toks /\ m_program p toks = true /\ wf_program p = true /\
    In 47%N src /\ ~ In 47%N (r_code (compile (cfg_pretty [32; 32]%N true false) p)).
Proof. exact kf5_empty_comment_refuted. Qed.
Print Assumptions C15_comment_without_text_refuted.
