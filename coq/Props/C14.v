(* C14 -- Instances are isolated and results deterministic (functional clauses; the
   concurrency clause is explored by the iso suite, see DESIGN.md 5.14).  Property theorems only. *)
Require Import Base Token Tree SourceMap Writer Compile WriterSpec WriterProofs EffectsProofs.
Require Import Gen.Effects Gen.Printer.
Require Import List String.

(* nothing assigns, deletes from, clears, copies into or aliases a package-level
   variable (parser.precedences, token.Keywords, ...): write sets regenerated from the
   source on every run *)
Theorem C14_no_global_writes : global_var_writes = [] /\ global_var_aliases = [].
Proof. exact effects_globals. Qed.
Print Assumptions C14_no_global_writes.

(* printing never assigns through a tree node; Compile, Build, ToString and the
   constructors never assign through the compiler, builder, tree or options they are given *)
Theorem C14_printing_is_pure : node_method_receiver_writes = [] /\ frozen_argument_writes = [].
Proof. exact effects_frozen. Qed.
Print Assumptions C14_printing_is_pure.

(* requesting a source map never changes the generated code (nor whether it panics) *)
Theorem C14_map_flag_neutral : forall pretty indent semis p,
  r_code (compile (mkwcfg pretty indent semis true) p) = r_code (compile (mkwcfg pretty indent semis false) p) /\
  r_panic (compile (mkwcfg pretty indent semis true) p) = r_panic (compile (mkwcfg pretty indent semis false) p).
Proof. exact map_flag_neutral. Qed.
Print Assumptions C14_map_flag_neutral.

(* the debug string form of a statement is its compact compilation *)
Theorem C14_debug_string : forall s eof,
  debug_to_string_stmt s =
  (r_code (compile (cfg_compact false) (mkprogram [s] eof)),
   r_panic (compile (cfg_compact false) (mkprogram [s] eof))).
Proof. exact debug_string_is_compact. Qed.
Print Assumptions C14_debug_string.
