(* Writer.v -- model of ast.CodeWriter (code_writer*.go) as an interpreter of
   writer operations, and of compiler.Compile. *)
Require Import Base GoOps Token SourceMap.

Inductive wop :=
| WString (s : str)
| WRune (c : N)            (* every rune written by package ast is ASCII *)
| WSemi
| WSpace
| WNewline
| WIndent
| WIncIndent
| WDecIndent
| WComments (cs : list str)
| WMapping (p : pos)
| WNamedMapping (line col : Z) (name : str)
| WAvoidFusion (op : str)
| WPanic.                  (* a nil dereference in a WriteTo method *)

Record wcfg := mkwcfg {
  w_pretty : bool;
  w_indent : str;          (* IndentString *)
  w_semis : bool;          (* WriteSemicolons *)
  w_map : bool             (* Mapper != nil *)
}.

Record wstate := mkwstate {
  w_buf : str;
  w_pend : list N;         (* pendings: LF, TAB (= indentation), SPACE *)
  w_level : Z;             (* IndentLevel *)
  w_mapper : mapper;       (* meaningful when w_map *)
  w_panic : bool
}.

Definition wstate_init : wstate := mkwstate [] [] 0 mapper_new false.

Definition TAB : N := 9%N.

Definition map_adv_string (cfg : wcfg) (m : mapper) (s : str) : mapper :=
  if w_map cfg then mapper_step m (MAdvanceString s) else m.

(* writeRaw *)
Definition write_raw (cfg : wcfg) (st : wstate) (s : str) : wstate :=
  mkwstate (w_buf st ++ s) (w_pend st) (w_level st) (map_adv_string cfg (w_mapper st) s) (w_panic st).

Definition default_indent : str := [32; 32]%N.

(* writeIndent *)
Definition write_indent (cfg : wcfg) (st : wstate) : wstate :=
  let ind := match w_indent cfg with [] => default_indent | i => i end in
  write_raw cfg st (repeat_app (Z.to_nat (w_level st)) ind).

(* flushPending *)
Definition flush_pending (cfg : wcfg) (st : wstate) : wstate :=
  let st' := fold_left (fun s c => if N.eqb c TAB then write_indent cfg s else write_raw cfg s [c])
                       (w_pend st) st in
  mkwstate (w_buf st') [] (w_level st') (w_mapper st') (w_panic st').

Definition set_pend (st : wstate) (p : list N) : wstate :=
  mkwstate (w_buf st) p (w_level st) (w_mapper st) (w_panic st).

Definition last_is (p : list N) (c : N) : bool :=
  match rev p with x :: _ => N.eqb x c | [] => false end.

(* WriteRune: the mapper is advanced by one column, or one line for LF *)
Definition write_rune (cfg : wcfg) (st : wstate) (c : N) : wstate :=
  let st1 := flush_pending cfg st in
  mkwstate (w_buf st1 ++ [c]) [] (w_level st1)
           (if w_map cfg then
              (if N.eqb c LF then mapper_step (w_mapper st1) MAdvanceLine
               else mapper_step (w_mapper st1) (MAdvanceColumn 1))
            else w_mapper st1)
           (w_panic st1).

Definition write_string (cfg : wcfg) (st : wstate) (s : str) : wstate :=
  write_raw cfg (flush_pending cfg st) s.

Fixpoint has_suffix_rev (rs rsuf : str) : bool :=
  match rsuf, rs with
  | [], _ => true
  | x :: rsuf', y :: rs' => N.eqb x y && has_suffix_rev rs' rsuf'
  | _ :: _, [] => false
  end.
Definition has_suffix (s suf : str) : bool := has_suffix_rev (rev s) (rev suf).

(* WriteLeadingComments *)
Fixpoint write_comment_items (cfg : wcfg) (st : wstate) (first : bool) (cs : list str) : wstate :=
  match cs with
  | [] => st
  | c :: cs' =>
      let is_comment := match c with [] => false | _ => true end in
      let st1 := if first then (if is_comment then write_raw cfg st [32%N] else st)
                 else write_indent cfg (write_raw cfg st [LF]) in
      let st2 := if is_comment then write_raw cfg st1 [47; 47]%N else st1 in
      write_comment_items cfg (write_raw cfg st2 c) false cs'
  end.

Definition wstep (cfg : wcfg) (st : wstate) (o : wop) : wstate :=
  if w_panic st then st else
  match o with
  | WString s => write_string cfg st s
  | WRune c => write_rune cfg st c
  | WSemi =>
      if negb (w_pretty cfg) then write_rune cfg st 59
      else if w_semis cfg then write_rune cfg st 59 else st
  | WSpace =>
      if negb (w_pretty cfg) then st
      else if last_is (w_pend st) 32 then st else set_pend st (w_pend st ++ [32%N])
  | WNewline => if negb (w_pretty cfg) then st else set_pend st [LF]
  | WIndent =>
      if negb (w_pretty cfg) then st
      else if last_is (w_pend st) TAB then st else set_pend st (w_pend st ++ [TAB])
  | WIncIndent =>
      if negb (w_pretty cfg) then st
      else mkwstate (w_buf st) (w_pend st) (w_level st + 1) (w_mapper st) (w_panic st)
  | WDecIndent =>
      if negb (w_pretty cfg) then st
      else if 0 <? w_level st then mkwstate (w_buf st) (w_pend st) (w_level st - 1) (w_mapper st) (w_panic st)
      else st
  | WComments cs =>
      if negb (w_pretty cfg) then st
      else match cs with
           | [] => st
           | _ =>
               let st1 := write_comment_items cfg st true cs in
               (* clearPending; WriteNewline; WriteIndent *)
               set_pend st1 [LF; TAB]
           end
  | WMapping p =>
      let st1 := flush_pending cfg st in
      if w_map cfg then
        mkwstate (w_buf st1) (w_pend st1) (w_level st1)
                 (mapper_step (w_mapper st1) (MAddMapping (pline p) (pcol p))) (w_panic st1)
      else st1
  | WNamedMapping line col name =>
      let st1 := flush_pending cfg st in
      if w_map cfg then
        mkwstate (w_buf st1) (w_pend st1) (w_level st1)
                 (mapper_step (w_mapper st1) (MAddNamed line col name)) (w_panic st1)
      else st1
  | WAvoidFusion op =>
      let st1 := flush_pending cfg st in
      match op, rev (w_buf st1) with
      | c :: _, last :: _ =>
          if ((N.eqb c 43 || N.eqb c 45) && N.eqb last c)
             || (str_eqb op [45; 45]%N && has_suffix (w_buf st1) [60; 33]%N)
          then write_rune cfg st1 32 else st1
      | _, _ => st1
      end
  | WPanic => mkwstate (w_buf st) (w_pend st) (w_level st) (w_mapper st) true
  end.

Definition run_wops (cfg : wcfg) (ops : list wop) : wstate := fold_left (wstep cfg) ops wstate_init.

(* ---- compiler.Compile post-processing: cleanEmptyLines ---- *)

Definition is_space_go (c : N) : bool := (* unicode.IsSpace on the bytes that can occur: ASCII *)
  N.eqb c 32 || N.eqb c 9 || N.eqb c 10 || N.eqb c 11 || N.eqb c 12 || N.eqb c 13.

Fixpoint drop_while (p : N -> bool) (s : str) : str :=
  match s with [] => [] | c :: s' => if p c then drop_while p s' else s end.

Definition trim_space (s : str) : str := rev (drop_while is_space_go (rev (drop_while is_space_go s))).

Definition trim_right_sp (s : str) : str := rev (drop_while (N.eqb 32) (rev s)).

(* strings.Split(s, "\n") *)
Fixpoint split_lines (s : str) (cur : str) : list str :=
  match s with
  | [] => [cur]
  | c :: s' => if N.eqb c LF then cur :: split_lines s' [] else split_lines s' (cur ++ [c])
  end.

Fixpoint join_lines (ls : list str) : str :=
  match ls with
  | [] => []
  | [l] => l
  | l :: ls' => l ++ [LF] ++ join_lines ls'
  end.

Definition clean_empty_lines (code : str) : str :=
  join_lines (map trim_right_sp (split_lines (trim_space code) [])).

Record compile_result := mkresult {
  r_code : str; r_map : option source_map; r_panic : bool }.

Definition finish (cfg : wcfg) (st : wstate) : compile_result :=
  mkresult (if w_pretty cfg then clean_empty_lines (w_buf st) else w_buf st)
           (if w_map cfg then Some (mapper_source_map (w_mapper st)) else None)
           (w_panic st).
