(* C05, every level, third part: the built-in neighbours that are not binary operators.
   Operator trees over identifiers and integer literals built from: infix operators of any
   level (built-in binary, registered), prefix operators (! - and registered), postfix
   operators (registered: call-level suffix 11; built-in ++ --: level 10, not after a line
   break), member access (level 12), index access (12), calls (11), assignment and compound
   assignment (level 2, right-associative: the right side is a whole expression) and
   parenthesised subtrees.  Specification only; theorem Props/C05.v : C05_groups_by_level_y. *)
Require Import Base Token Tree Parser ClimbSpec ClimbSpec2.
Require Import Gen.Tables.

Inductive ytree :=
| YAtom (t : token)
| YGroup (lp : token) (e : ytree) (rp : token)
| YPre (op : token) (e : ytree)
| YPost (e : ytree) (op : token)
| YBin (l : ytree) (op : token) (r : ytree)
| YMember (obj : ytree) (dot : token) (prop : ytree)
| YIndex (obj : ytree) (lb : token) (e : ytree) (rb : token)
| YCall (fn : ytree) (lp : token) (first : option ytree) (rest : list (token * ytree)) (rp : token)
| YAssign (l : ytree) (op : token) (r : ytree).

Fixpoint yyield (c : ytree) : list token :=
  match c with
  | YAtom t => [t]
  | YGroup lp e rp => lp :: yyield e ++ [rp]
  | YPre op e => op :: yyield e
  | YPost e op => yyield e ++ [op]
  | YBin l op r => yyield l ++ op :: yyield r
  | YMember o d p => yyield o ++ d :: yyield p
  | YIndex o lb e rb => yyield o ++ lb :: yyield e ++ [rb]
  | YCall f lp first rest rp =>
      yyield f ++ lp :: match first with None => [] | Some a => yyield a end
        ++ flat_map (fun p => fst p :: yyield (snd p)) rest ++ [rp]
  | YAssign l op r => yyield l ++ op :: yyield r
  end.

Fixpoint yexpr (c : ytree) : expr :=
  match c with
  | YAtom t => if t_type t =? T_IDENT then EIdent (mkident t (t_lit t)) else EInt t
  | YGroup lp e rp => EGroup lp (yexpr e) rp
  | YPre op e => EUnary op (t_lit op) (yexpr e)
  | YPost e op => EPostfix op (yexpr e) (t_lit op)
  | YBin l op r => EBinary op (yexpr l) (t_lit op) (yexpr r)
  | YMember o d p => EMember d (yexpr o) (yexpr p) false
  | YIndex o lb e rb => EMember lb (yexpr o) (yexpr e) true
  | YCall f lp first rest rp =>
      ECall lp (yexpr f) (match first with None => [] | Some a => [yexpr a] end
                          ++ map (fun p => yexpr (snd p)) rest)
  | YAssign l op r =>
      if t_type op =? T_ASSIGN then EAssign op (yexpr l) (yexpr r)
      else ECompound op (yexpr l) (if t_type op =? T_PLUS_ASSIGN then [43%N] else [45%N]) (yexpr r)
  end.

(* a built-in token type on which the configuration registers no infix / postfix role *)
Definition infix_untouched (cfg : pcfg) (ty : Z) : bool :=
  negb (memZ ty (c_postfix_ops cfg))
  && match assoc_opt (c_infix_ops cfg) ty with None => true | Some _ => false end.

(* level of a postfix operator token: registered = call-level suffix; built-in ++ -- =
   POSTFIX, and only when no line break precedes it *)
Definition post_level (cfg : pcfg) (op : token) : option Z :=
  if post_ok cfg (t_type op) then Some P_CALL
  else if ((t_type op =? T_INCREMENT) || (t_type op =? T_DECREMENT))
          && infix_untouched cfg (t_type op) && negb (t_nl op) then Some P_POSTFIX
  else None.

Definition assign_ok (cfg : pcfg) (ty : Z) : bool :=
  ((ty =? T_ASSIGN) || (ty =? T_PLUS_ASSIGN) || (ty =? T_MINUS_ASSIGN)) && infix_untouched cfg ty.

(* an opening ( or [ in infix position continues the expression unless smart mode is on
   and a line break precedes it *)
Definition opens_ok (cfg : pcfg) (t : token) (ty : Z) : bool :=
  (t_type t =? ty) && infix_untouched cfg ty && negb (c_smart cfg && t_nl t).

(* left-operand condition: every operator still open at the right end has level >= k *)
Fixpoint yspine_ge (cfg : pcfg) (k : Z) (e : ytree) : bool :=
  match e with
  | YAtom _ | YGroup _ _ _ | YPost _ _ | YIndex _ _ _ _ | YCall _ _ _ _ _ => true
  | YPre _ _ => k <=? P_UNARY
  | YBin _ op r =>
      match op_level cfg (t_type op) with
      | Some j => (k <=? j) && yspine_ge cfg k r
      | None => false
      end
  | YMember _ _ p => (k <=? P_MEMBER) && yspine_ge cfg k p
  | YAssign _ _ _ => false
  end.

(* right-operand condition: every operator on the left spine has level > k *)
Fixpoint yright_ok (cfg : pcfg) (k : Z) (e : ytree) : bool :=
  match e with
  | YAtom _ | YGroup _ _ _ | YPre _ _ => true
  | YBin l op _ =>
      match op_level cfg (t_type op) with Some j => (k <? j) && yright_ok cfg k l | None => false end
  | YPost e' op =>
      match post_level cfg op with Some j => (k <? j) && yright_ok cfg k e' | None => false end
  | YMember o _ _ | YIndex o _ _ _ => (k <? P_MEMBER) && yright_ok cfg k o
  | YCall f _ _ _ _ => (k <? P_CALL) && yright_ok cfg k f
  | YAssign l _ _ => (k <? P_ASSIGNMENT) && yright_ok cfg k l
  end.

Fixpoint well_grouped_y (cfg : pcfg) (c : ytree) : bool :=
  match c with
  | YAtom t => atom_ok t
  | YGroup lp e rp => (t_type lp =? T_LPAREN) && (t_type rp =? T_RPAREN) && well_grouped_y cfg e
  | YPre op e => pre_ok cfg (t_type op) && yright_ok cfg P_UNARY e && well_grouped_y cfg e
  | YPost e op =>
      match post_level cfg op with
      | Some j => yspine_ge cfg j e && well_grouped_y cfg e
      | None => false
      end
  | YBin l op r =>
      match op_level cfg (t_type op) with
      | None => false
      | Some k => (P_LOWEST <? k) && yspine_ge cfg k l && yright_ok cfg k r
                  && well_grouped_y cfg l && well_grouped_y cfg r
      end
  | YMember o d p =>
      (t_type d =? T_DOT) && infix_untouched cfg T_DOT
      && yspine_ge cfg P_MEMBER o && yright_ok cfg P_MEMBER p
      && well_grouped_y cfg o && well_grouped_y cfg p
  | YIndex o lb e rb =>
      opens_ok cfg lb T_LBRACKET && (t_type rb =? T_RBRACKET)
      && yspine_ge cfg P_MEMBER o && well_grouped_y cfg o && well_grouped_y cfg e
  | YCall f lp first rest rp =>
      opens_ok cfg lp T_LPAREN && (t_type rp =? T_RPAREN)
      && yspine_ge cfg P_CALL f && well_grouped_y cfg f
      && match first with
         | None => match rest with [] => true | _ => false end
         | Some a => well_grouped_y cfg a
         end
      && forallb (fun p => (t_type (fst p) =? T_COMMA) && well_grouped_y cfg (snd p)) rest
  | YAssign l op r =>
      assign_ok cfg (t_type op) && yspine_ge cfg P_ASSIGNMENT l
      && well_grouped_y cfg l && well_grouped_y cfg r
  end.

Definition ystmt_tokens (c : ytree) (semi : list token) (eof : token) : list token :=
  yyield c ++ semi ++ [eof].

(* the configuration: as cfg_ok_x, and the closing bracket and the comma do not continue
   the Pratt loop either *)
Definition cfg_ok_y (cfg : pcfg) : bool :=
  cfg_ok_x cfg && (precedence_of cfg T_RBRACKET <=? P_LOWEST)
  && (precedence_of cfg T_COMMA <=? P_LOWEST).
